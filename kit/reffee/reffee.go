// Package reffee holds reference formulas for header fee and gas arithmetic,
// transcribed from the EIP texts (not from go-ethereum) in unbounded integers
// (math/big): EIP-1559 (base fee, gas limit bound), EIP-4844/7691/7840 (excess blob
// gas, blob base fee, fake_exponential), EIP-7918 (reserve price), EIP-2/2028/2930/
// 3860/7702 (intrinsic gas) and EIP-7623 (calldata floor).
//
// Nothing in here imports go-ethereum. All results are exact mathematical integers;
// the caller decides what "fits in 64 bits" means.
package reffee

import "math/big"

// Constants as written in the EIPs.
const (
	InitialBaseFee           = 1_000_000_000 // EIP-1559 INITIAL_BASE_FEE
	BaseFeeMaxChangeDenom    = 8             // EIP-1559 BASE_FEE_MAX_CHANGE_DENOMINATOR
	ElasticityMultiplier     = 2             // EIP-1559 ELASTICITY_MULTIPLIER
	GasLimitAdjustmentFactor = 1024          // Yellow Paper / EIP-1559: parent_gas_limit // 1024
	GasLimitMinimum          = 5000          // Yellow Paper (45): H_l >= 5000
	GasPerBlob               = 1 << 17       // EIP-4844 GAS_PER_BLOB
	MinBaseFeePerBlobGas     = 1             // EIP-4844 MIN_BASE_FEE_PER_BLOB_GAS
	BlobBaseCost             = 1 << 13       // EIP-7918 BLOB_BASE_COST
	TxBaseCost               = 21000         // G_transaction
	TxCreateCost             = 32000         // G_txcreate (EIP-2, Homestead)
	TxDataZeroCost           = 4             // G_txdatazero
	TxDataNonZeroCostOld     = 68            // G_txdatanonzero before EIP-2028
	TxDataNonZeroCost2028    = 16            // EIP-2028
	AccessListAddressCost    = 2400          // EIP-2930
	AccessListStorageKeyCost = 1900          // EIP-2930
	InitcodeWordCost         = 2             // EIP-3860
	PerEmptyAccountCost      = 25000         // EIP-7702 PER_EMPTY_ACCOUNT_COST
	StandardTokenCost        = 4             // EIP-7623 STANDARD_TOKEN_COST
	TotalCostFloorPerToken   = 10            // EIP-7623 TOTAL_COST_FLOOR_PER_TOKEN
)

func bi(v int64) *big.Int { return big.NewInt(v) }

// ---------------------------------------------------------------------------
// EIP-1559
// ---------------------------------------------------------------------------

// BaseFee is the EIP-1559 expected base fee of the child of a parent that is
// itself a London block. Defined only for parentGasLimit/ElasticityMultiplier > 0
// unless parentGasUsed equals the target (the EIP divides by the target).
//
//	parent_gas_target = parent.gas_limit // ELASTICITY_MULTIPLIER
//	if used == target: parent_base_fee
//	elif used > target: parent_base_fee + max(parent_base_fee * (used-target) // target // DENOM, 1)
//	else:               parent_base_fee - parent_base_fee * (target-used) // target // DENOM
func BaseFee(parentGasLimit, parentGasUsed, parentBaseFee *big.Int) *big.Int {
	target := new(big.Int).Div(parentGasLimit, bi(ElasticityMultiplier))
	switch parentGasUsed.Cmp(target) {
	case 0:
		return new(big.Int).Set(parentBaseFee)
	case 1:
		delta := new(big.Int).Sub(parentGasUsed, target)
		d := new(big.Int).Mul(parentBaseFee, delta)
		d.Div(d, target)
		d.Div(d, bi(BaseFeeMaxChangeDenom))
		if d.Cmp(bi(1)) < 0 {
			d = bi(1)
		}
		return d.Add(d, parentBaseFee)
	default:
		delta := new(big.Int).Sub(target, parentGasUsed)
		d := new(big.Int).Mul(parentBaseFee, delta)
		d.Div(d, target)
		d.Div(d, bi(BaseFeeMaxChangeDenom))
		return d.Sub(parentBaseFee, d)
	}
}

// GasLimitOK is the gas-limit validity rule: with max_delta = parent // 1024,
//
//	gas_limit < parent + max_delta  and  gas_limit > parent - max_delta  and  gas_limit >= 5000
func GasLimitOK(parentGasLimit, gasLimit *big.Int) bool {
	maxDelta := new(big.Int).Div(parentGasLimit, bi(GasLimitAdjustmentFactor))
	if gasLimit.Cmp(new(big.Int).Add(parentGasLimit, maxDelta)) >= 0 {
		return false
	}
	if gasLimit.Cmp(new(big.Int).Sub(parentGasLimit, maxDelta)) <= 0 {
		return false
	}
	return gasLimit.Cmp(bi(GasLimitMinimum)) >= 0
}

// Header1559 is what EIP-1559 header validation looks at.
type Header1559 struct {
	GasLimit, GasUsed *big.Int
	BaseFee           *big.Int // nil = field absent
}

// Validate1559 is the EIP-1559 block validity rule for the gas limit and the base
// fee. parentIsLondon=false means the child is the fork block: the parent's gas
// limit is multiplied by the elasticity multiplier for the bound check and the
// expected base fee is INITIAL_BASE_FEE.
func Validate1559(parent, header Header1559, parentIsLondon bool) bool {
	parentGasLimit := new(big.Int).Set(parent.GasLimit)
	var expected *big.Int
	if !parentIsLondon {
		parentGasLimit.Mul(parentGasLimit, bi(ElasticityMultiplier))
		expected = bi(InitialBaseFee)
	}
	if !GasLimitOK(parentGasLimit, header.GasLimit) {
		return false
	}
	if header.BaseFee == nil {
		return false
	}
	if parentIsLondon {
		if parent.BaseFee == nil {
			return false
		}
		expected = BaseFee(parent.GasLimit, parent.GasUsed, parent.BaseFee)
	}
	return header.BaseFee.Cmp(expected) == 0
}

// ---------------------------------------------------------------------------
// EIP-4844 / EIP-7691 / EIP-7840 / EIP-7918
// ---------------------------------------------------------------------------

// BlobSchedule is one entry of the EIP-7840 blob schedule.
type BlobSchedule struct {
	Target, Max    int64
	UpdateFraction int64
}

// FakeExponential is EIP-4844's fake_exponential, verbatim:
//
//	i = 1; output = 0; numerator_accum = factor * denominator
//	while numerator_accum > 0:
//	    output += numerator_accum
//	    numerator_accum = (numerator_accum * numerator) // (denominator * i)
//	    i += 1
//	return output // denominator
func FakeExponential(factor, numerator, denominator *big.Int) *big.Int {
	i := int64(1)
	output := new(big.Int)
	accum := new(big.Int).Mul(factor, denominator)
	for accum.Sign() > 0 {
		output.Add(output, accum)
		accum.Mul(accum, numerator)
		accum.Div(accum, new(big.Int).Mul(denominator, bi(i)))
		i++
	}
	return output.Div(output, denominator)
}

// BlobBaseFee is get_base_fee_per_blob_gas for the given excess blob gas.
func BlobBaseFee(excessBlobGas *big.Int, s BlobSchedule) *big.Int {
	return FakeExponential(bi(MinBaseFeePerBlobGas), excessBlobGas, bi(s.UpdateFraction))
}

// ExcessBlobGas is calc_excess_blob_gas. eip7918=false: EIP-4844
//
//	if parent.excess + parent.used < TARGET: 0 else parent.excess + parent.used - TARGET
//
// eip7918=true (Osaka): additionally
//
//	if BLOB_BASE_COST * parent.base_fee_per_gas > GAS_PER_BLOB * get_base_fee_per_blob_gas(parent):
//	    return parent.excess + parent.used * (MAX - TARGET) // MAX
//
// The schedule is the one of the block being built (child).
func ExcessBlobGas(parentExcess, parentUsed, parentBaseFee *big.Int, s BlobSchedule, eip7918 bool) *big.Int {
	targetGas := new(big.Int).Mul(bi(s.Target), bi(GasPerBlob))
	sum := new(big.Int).Add(parentExcess, parentUsed)
	if sum.Cmp(targetGas) < 0 {
		return new(big.Int)
	}
	if eip7918 {
		reserve := new(big.Int).Mul(bi(BlobBaseCost), parentBaseFee)
		price := new(big.Int).Mul(bi(GasPerBlob), BlobBaseFee(parentExcess, s))
		if reserve.Cmp(price) > 0 {
			scaled := new(big.Int).Mul(parentUsed, bi(s.Max-s.Target))
			scaled.Div(scaled, bi(s.Max))
			return scaled.Add(scaled, parentExcess)
		}
	}
	return sum.Sub(sum, targetGas)
}

// ReserveBranch reports whether the EIP-7918 reserve-price branch decides the result
// (used by harnesses for classification only).
func ReserveBranch(parentExcess, parentUsed, parentBaseFee *big.Int, s BlobSchedule) bool {
	targetGas := new(big.Int).Mul(bi(s.Target), bi(GasPerBlob))
	if new(big.Int).Add(parentExcess, parentUsed).Cmp(targetGas) < 0 {
		return false
	}
	reserve := new(big.Int).Mul(bi(BlobBaseCost), parentBaseFee)
	price := new(big.Int).Mul(bi(GasPerBlob), BlobBaseFee(parentExcess, s))
	return reserve.Cmp(price) > 0
}

// BlobHeaderOK is the EIP-4844 header validity rule (fields present, blob gas used a
// multiple of GAS_PER_BLOB not above MAX, excess equal to calc_excess_blob_gas).
// nil pointers mean "field absent".
func BlobHeaderOK(headerExcess, headerUsed, expectedExcess *big.Int, s BlobSchedule) bool {
	if headerExcess == nil || headerUsed == nil {
		return false
	}
	if headerUsed.Cmp(new(big.Int).Mul(bi(s.Max), bi(GasPerBlob))) > 0 {
		return false
	}
	if new(big.Int).Mod(headerUsed, bi(GasPerBlob)).Sign() != 0 {
		return false
	}
	return headerExcess.Cmp(expectedExcess) == 0
}

// ---------------------------------------------------------------------------
// Intrinsic gas and calldata floor
// ---------------------------------------------------------------------------

// Fork identifies the rule set, in activation order.
type Fork int

const (
	Frontier Fork = iota
	Homestead
	TangerineWhistle
	SpuriousDragon
	Byzantium
	Constantinople
	Petersburg
	Istanbul
	Berlin
	London
	Paris
	Shanghai
	Cancun
	Prague
	Osaka
)

var forkNames = [...]string{"Frontier", "Homestead", "TangerineWhistle", "SpuriousDragon", "Byzantium", "Constantinople",
	"Petersburg", "Istanbul", "Berlin", "London", "Paris", "Shanghai", "Cancun", "Prague", "Osaka"}

func (f Fork) String() string { return forkNames[f] }

// NumForks is the number of rule sets.
const NumForks = int(Osaka) + 1

// TxShape is everything the intrinsic gas depends on.
type TxShape struct {
	ZeroBytes, NonZeroBytes int64 // calldata / initcode content
	Create                  bool  // to == nil
	AccessListAddresses     int64 // EIP-2930 (Berlin+)
	AccessListStorageKeys   int64
	Authorizations          int64 // EIP-7702 (Prague+)
}

// IntrinsicGas: Yellow Paper g_0 with its amendments.
//
//	21000
//	+ 32000 if create (Homestead+, EIP-2)
//	+ 4 per zero byte + 68 (16 from Istanbul, EIP-2028) per non-zero byte
//	+ 2 * ceil(len/32) if create (Shanghai+, EIP-3860)
//	+ 2400 per access-list address + 1900 per storage key (EIP-2930)
//	+ 25000 per authorization tuple (EIP-7702)
func IntrinsicGas(f Fork, tx TxShape) *big.Int {
	gas := bi(TxBaseCost)
	if tx.Create && f >= Homestead {
		gas.Add(gas, bi(TxCreateCost))
	}
	nz := int64(TxDataNonZeroCostOld)
	if f >= Istanbul {
		nz = TxDataNonZeroCost2028
	}
	gas.Add(gas, new(big.Int).Mul(bi(tx.ZeroBytes), bi(TxDataZeroCost)))
	gas.Add(gas, new(big.Int).Mul(bi(tx.NonZeroBytes), bi(nz)))
	if tx.Create && f >= Shanghai {
		length := new(big.Int).Add(bi(tx.ZeroBytes), bi(tx.NonZeroBytes))
		words := length.Add(length, bi(31))
		words.Div(words, bi(32))
		gas.Add(gas, words.Mul(words, bi(InitcodeWordCost)))
	}
	gas.Add(gas, new(big.Int).Mul(bi(tx.AccessListAddresses), bi(AccessListAddressCost)))
	gas.Add(gas, new(big.Int).Mul(bi(tx.AccessListStorageKeys), bi(AccessListStorageKeyCost)))
	gas.Add(gas, new(big.Int).Mul(bi(tx.Authorizations), bi(PerEmptyAccountCost)))
	return gas
}

// FloorDataGas is the EIP-7623 floor: 21000 + 10 * (zero_bytes + 4 * nonzero_bytes).
func FloorDataGas(tx TxShape) *big.Int {
	tokens := new(big.Int).Mul(bi(tx.NonZeroBytes), bi(StandardTokenCost))
	tokens.Add(tokens, bi(tx.ZeroBytes))
	tokens.Mul(tokens, bi(TotalCostFloorPerToken))
	return tokens.Add(tokens, bi(TxBaseCost))
}
