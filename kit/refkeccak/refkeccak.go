// Package refkeccak is a slow, specification-shaped Keccak-f[1600] permutation
// and sponge (FIPS 202 §3, with the rotation offsets and round constants
// *computed* by the rules of §3.2.2 / §3.2.5 instead of copied tables). It is
// only used as a second, independent opinion for white-box checks of a
// permutation under test (arbitrary 25-lane states, long squeezes); the primary
// digest oracle of the harness stays golang.org/x/crypto/sha3.
package refkeccak

import "math/bits"

var (
	rotc [5][5]uint // rotation offsets r[x][y]
	rndc [24]uint64 // round constants
)

func init() {
	// rho offsets: (x,y)=(1,0); for t=0..23: r[x][y]=(t+1)(t+2)/2 mod 64; (x,y)=(y,(2x+3y) mod 5)
	x, y := 1, 0
	for t := 0; t < 24; t++ {
		rotc[x][y] = uint((t+1)*(t+2)/2) % 64
		x, y = y, (2*x+3*y)%5
	}
	// iota constants from the degree-8 LFSR x^8+x^6+x^5+x^4+1
	r := byte(1)
	rcbit := func() uint64 {
		out := uint64(r & 1)
		hi := r & 0x80
		r <<= 1
		if hi != 0 {
			r ^= 0x71
		}
		return out
	}
	for i := 0; i < 24; i++ {
		var c uint64
		for j := 0; j <= 6; j++ {
			if rcbit() == 1 {
				c |= 1 << ((1 << uint(j)) - 1)
			}
		}
		rndc[i] = c
	}
}

// F1600 applies the 24-round permutation to the state; lane (x,y) is a[x+5y].
func F1600(a *[25]uint64) {
	for rnd := 0; rnd < 24; rnd++ {
		// theta
		var c [5]uint64
		for x := 0; x < 5; x++ {
			c[x] = a[x] ^ a[x+5] ^ a[x+10] ^ a[x+15] ^ a[x+20]
		}
		for x := 0; x < 5; x++ {
			d := c[(x+4)%5] ^ bits.RotateLeft64(c[(x+1)%5], 1)
			for y := 0; y < 5; y++ {
				a[x+5*y] ^= d
			}
		}
		// rho + pi: B[y][2x+3y] = rot(A[x][y], r[x][y])
		var b [25]uint64
		for x := 0; x < 5; x++ {
			for y := 0; y < 5; y++ {
				nx, ny := y, (2*x+3*y)%5
				b[nx+5*ny] = bits.RotateLeft64(a[x+5*y], int(rotc[x][y]))
			}
		}
		// chi
		for y := 0; y < 5; y++ {
			for x := 0; x < 5; x++ {
				a[x+5*y] = b[x+5*y] ^ (^b[(x+1)%5+5*y] & b[(x+2)%5+5*y])
			}
		}
		// iota
		a[0] ^= rndc[rnd]
	}
}

// Sponge computes outLen bytes of Keccak[rate bytes] over msg with the given
// domain-separation/padding-start byte (0x01 legacy Keccak, 0x06 SHA-3).
func Sponge(rate int, ds byte, msg []byte, outLen int) []byte {
	var a [25]uint64
	xor := func(block []byte) {
		for i, v := range block {
			a[i/8] ^= uint64(v) << (8 * uint(i%8))
		}
	}
	for len(msg) >= rate {
		xor(msg[:rate])
		F1600(&a)
		msg = msg[rate:]
	}
	last := make([]byte, rate)
	copy(last, msg)
	last[len(msg)] ^= ds
	last[rate-1] ^= 0x80
	xor(last)
	F1600(&a)
	out := make([]byte, 0, outLen)
	for {
		for i := 0; i < rate && len(out) < outLen; i++ {
			out = append(out, byte(a[i/8]>>(8*uint(i%8))))
		}
		if len(out) >= outLen {
			return out
		}
		F1600(&a)
	}
}

// Keccak256 is the legacy (pre-FIPS padding) Keccak-256 digest.
func Keccak256(msg []byte) []byte { return Sponge(136, 0x01, msg, 32) }

// Keccak512 is the legacy Keccak-512 digest.
func Keccak512(msg []byte) []byte { return Sponge(72, 0x01, msg, 64) }
