package refkeccak

import (
	"bytes"
	"testing"

	"golang.org/x/crypto/sha3"
)

func TestAgainstXCrypto(t *testing.T) {
	for l := 0; l < 700; l++ {
		msg := make([]byte, l)
		for i := range msg {
			msg[i] = byte(i*7 + l)
		}
		h := sha3.NewLegacyKeccak256()
		h.Write(msg)
		if !bytes.Equal(h.Sum(nil), Keccak256(msg)) {
			t.Fatalf("keccak256 mismatch at len %d", l)
		}
		h = sha3.NewLegacyKeccak512()
		h.Write(msg)
		if !bytes.Equal(h.Sum(nil), Keccak512(msg)) {
			t.Fatalf("keccak512 mismatch at len %d", l)
		}
		s := sha3.New256()
		s.Write(msg)
		if !bytes.Equal(s.Sum(nil), Sponge(136, 0x06, msg, 32)) {
			t.Fatalf("sha3-256 mismatch at len %d", l)
		}
	}
}
