// Package transcript writes a deterministic line-oriented transcript of a test
// run into $VERIF_WORK/<name>, for the driver's cross-unit "compare_files"
// (e.g. the same inputs run through a cgo and a CGO_ENABLED=0 binary). Only
// shard 0 writes; the content must be a pure function of the rapid seed.
package transcript

import (
	"bufio"
	"fmt"
	"os"
	"path/filepath"
	"sync"
	"testing"
)

// T is an open transcript (nil-safe: a nil *T discards everything).
type T struct {
	mu sync.Mutex
	f  *os.File
	w  *bufio.Writer
	n  int
}

// Active reports whether this process is expected to write transcripts
// (VERIF_WORK set and shard 0).
func Active() bool {
	sh := os.Getenv("VERIF_SHARD")
	return os.Getenv("VERIF_WORK") != "" && (sh == "" || sh == "0")
}

// Open creates (truncates) $VERIF_WORK/<name>; returns nil when not Active.
// The file is flushed and closed by t.Cleanup.
func Open(t testing.TB, name string) *T {
	if !Active() {
		return nil
	}
	p := filepath.Join(os.Getenv("VERIF_WORK"), name)
	f, err := os.Create(p)
	if err != nil {
		t.Fatalf("VERIF-HARNESS-BUG: cannot create transcript %s: %v", p, err)
	}
	tr := &T{f: f, w: bufio.NewWriterSize(f, 1<<20)}
	t.Cleanup(func() {
		tr.mu.Lock()
		defer tr.mu.Unlock()
		tr.w.Flush()
		tr.f.Close()
	})
	return tr
}

// Linef appends one line.
func (tr *T) Linef(format string, a ...any) {
	if tr == nil {
		return
	}
	tr.mu.Lock()
	fmt.Fprintf(tr.w, format, a...)
	tr.w.WriteByte('\n')
	tr.n++
	tr.mu.Unlock()
}

// Lines returns the number of lines written so far.
func (tr *T) Lines() int {
	if tr == nil {
		return 0
	}
	tr.mu.Lock()
	defer tr.mu.Unlock()
	return tr.n
}
