package refsecp

import (
	"encoding/hex"
	"math/big"
	"testing"
)

func TestBasics(t *testing.T) {
	g2 := ScalarBaseMult(big.NewInt(2))
	if hex.EncodeToString(Compress(g2)) != "02c6047f9441ed7d6d3045406e95c07cd85c778e4b8cef3ca7abac09b95c709ee5" {
		t.Fatalf("2G = %x", Compress(g2))
	}
	if !ScalarBaseMult(N).Inf {
		t.Fatal("n*G is not infinity")
	}
	q, ok := Decompress(Compress(g2))
	if !ok || q.X.Cmp(g2.X) != 0 || q.Y.Cmp(g2.Y) != 0 {
		t.Fatal("decompress")
	}
	a := ScalarMult(big.NewInt(7), g2)
	b := ScalarBaseMult(big.NewInt(14))
	if a.X.Cmp(b.X) != 0 || a.Y.Cmp(b.Y) != 0 {
		t.Fatal("7*(2G) != 14G")
	}
}
