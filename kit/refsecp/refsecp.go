// Package refsecp is an independent, deliberately simple reference for secp256k1
// (y^2 = x^3 + 7 over F_p): affine arithmetic with math/big, SEC1 compressed
// points and ECDSA verification. It shares no code with geth's crypto packages.
// Not constant time; for test oracles only.
package refsecp

import "math/big"

var (
	P, _  = new(big.Int).SetString("fffffffffffffffffffffffffffffffffffffffffffffffffffffffefffffc2f", 16)
	N, _  = new(big.Int).SetString("fffffffffffffffffffffffffffffffebaaedce6af48a03bbfd25e8cd0364141", 16)
	Gx, _ = new(big.Int).SetString("79be667ef9dcbbac55a06295ce870b07029bfcdb2dce28d959f2815b16f81798", 16)
	Gy, _ = new(big.Int).SetString("483ada7726a3c4655da4fbfc0e1108a8fd17b448a68554199c47d08ffb10d4b8", 16)
	halfN = new(big.Int).Rsh(N, 1)
)

// Point is an affine point; inf marks the point at infinity.
type Point struct {
	X, Y *big.Int
	Inf  bool
}

func OnCurve(x, y *big.Int) bool {
	l := new(big.Int).Mul(y, y)
	l.Mod(l, P)
	r := new(big.Int).Mul(x, x)
	r.Mul(r, x)
	r.Add(r, big.NewInt(7))
	r.Mod(r, P)
	return l.Cmp(r) == 0
}

func Add(a, b Point) Point {
	if a.Inf {
		return b
	}
	if b.Inf {
		return a
	}
	var lam *big.Int
	if a.X.Cmp(b.X) == 0 {
		s := new(big.Int).Add(a.Y, b.Y)
		s.Mod(s, P)
		if s.Sign() == 0 {
			return Point{Inf: true}
		}
		// doubling: lam = 3x^2 / 2y
		num := new(big.Int).Mul(a.X, a.X)
		num.Mul(num, big.NewInt(3))
		den := new(big.Int).Lsh(a.Y, 1)
		den.ModInverse(den.Mod(den, P), P)
		lam = num.Mul(num, den)
	} else {
		num := new(big.Int).Sub(b.Y, a.Y)
		den := new(big.Int).Sub(b.X, a.X)
		den.Mod(den, P)
		den.ModInverse(den, P)
		lam = num.Mul(num, den)
	}
	lam.Mod(lam, P)
	x3 := new(big.Int).Mul(lam, lam)
	x3.Sub(x3, a.X)
	x3.Sub(x3, b.X)
	x3.Mod(x3, P)
	y3 := new(big.Int).Sub(a.X, x3)
	y3.Mul(y3, lam)
	y3.Sub(y3, a.Y)
	y3.Mod(y3, P)
	return Point{X: x3, Y: y3}
}

// MulAdd returns u1*G + u2*Q (Shamir's trick).
func MulAdd(u1, u2 *big.Int, q Point) Point {
	g := Point{X: Gx, Y: Gy}
	gq := Add(g, q)
	acc := Point{Inf: true}
	n := u1.BitLen()
	if u2.BitLen() > n {
		n = u2.BitLen()
	}
	for i := n - 1; i >= 0; i-- {
		acc = Add(acc, acc)
		b1, b2 := u1.Bit(i), u2.Bit(i)
		switch {
		case b1 == 1 && b2 == 1:
			acc = Add(acc, gq)
		case b1 == 1:
			acc = Add(acc, g)
		case b2 == 1:
			acc = Add(acc, q)
		}
	}
	return acc
}

// Decompress parses a 33-byte SEC1 compressed point.
func Decompress(b []byte) (Point, bool) {
	if len(b) != 33 || (b[0] != 2 && b[0] != 3) {
		return Point{}, false
	}
	x := new(big.Int).SetBytes(b[1:])
	if x.Cmp(P) >= 0 {
		return Point{}, false
	}
	rhs := new(big.Int).Mul(x, x)
	rhs.Mul(rhs, x)
	rhs.Add(rhs, big.NewInt(7))
	rhs.Mod(rhs, P)
	e := new(big.Int).Add(P, big.NewInt(1))
	e.Rsh(e, 2)
	y := new(big.Int).Exp(rhs, e, P)
	if !OnCurve(x, y) {
		return Point{}, false
	}
	if y.Bit(0) != uint(b[0]&1) {
		y.Sub(P, y)
	}
	return Point{X: x, Y: y}, true
}

// VerifySig is ECDSA verification of a 64-byte r||s signature over a 32-byte
// digest with a compressed public key. Signatures with s > n/2 are refused
// (documented behaviour of crypto.VerifySignature: no malleable signatures).
func VerifySig(pub33, digest, sig []byte) (ok bool, why string) {
	if len(sig) != 64 {
		return false, "sig-len"
	}
	q, okq := Decompress(pub33)
	if !okq {
		return false, "bad-pubkey"
	}
	r := new(big.Int).SetBytes(sig[:32])
	s := new(big.Int).SetBytes(sig[32:])
	if r.Sign() == 0 || s.Sign() == 0 || r.Cmp(N) >= 0 || s.Cmp(N) >= 0 {
		return false, "sig-range"
	}
	if s.Cmp(halfN) > 0 {
		return false, "sig-high-s"
	}
	z := new(big.Int).SetBytes(digest)
	w := new(big.Int).ModInverse(s, N)
	u1 := new(big.Int).Mul(z, w)
	u1.Mod(u1, N)
	u2 := new(big.Int).Mul(r, w)
	u2.Mod(u2, N)
	pt := MulAdd(u1, u2, q)
	if pt.Inf {
		return false, "sig-invalid"
	}
	v := new(big.Int).Mod(pt.X, N)
	if v.Cmp(r) != 0 {
		return false, "sig-invalid"
	}
	return true, ""
}

// ScalarMult returns k*Q.
func ScalarMult(k *big.Int, q Point) Point { return MulAdd(new(big.Int), k, q) }

// ScalarBaseMult returns k*G.
func ScalarBaseMult(k *big.Int) Point { return MulAdd(k, new(big.Int), Point{Inf: true}) }

// Compress renders the 33-byte SEC1 compressed form of a finite point.
func Compress(q Point) []byte {
	out := make([]byte, 33)
	out[0] = 2 + byte(q.Y.Bit(0))
	q.X.FillBytes(out[1:])
	return out
}
