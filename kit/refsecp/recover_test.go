package refsecp

import (
	"math/big"
	"testing"
)

func TestRecover(t *testing.T) {
	for i := int64(1); i < 20; i++ {
		d := new(big.Int).Exp(big.NewInt(3+i), big.NewInt(97), N)
		k := new(big.Int).Exp(big.NewInt(5+i), big.NewInt(101), N)
		z := new(big.Int).Exp(big.NewInt(7+i), big.NewInt(89), new(big.Int).Lsh(big.NewInt(1), 256))
		rp := ScalarBaseMult(k)
		r := new(big.Int).Mod(rp.X, N)
		s := new(big.Int).Mul(r, d)
		s.Add(s, z)
		s.Mul(s, new(big.Int).ModInverse(k, N))
		s.Mod(s, N)
		recid := byte(rp.Y.Bit(0))
		if rp.X.Cmp(N) >= 0 {
			recid |= 2
		}
		dig := make([]byte, 32)
		z.FillBytes(dig)
		q, ok := Recover(dig, r, s, recid)
		want := ScalarBaseMult(d)
		if !ok || q.X.Cmp(want.X) != 0 || q.Y.Cmp(want.Y) != 0 {
			t.Fatalf("recover %d: ok=%v", i, ok)
		}
		// the twin (n-s, flipped parity) recovers the same key
		q2, ok := Recover(dig, r, new(big.Int).Sub(N, s), recid^1)
		if !ok || q2.X.Cmp(want.X) != 0 || q2.Y.Cmp(want.Y) != 0 {
			t.Fatalf("recover twin %d: ok=%v", i, ok)
		}
		sig := make([]byte, 64)
		r.FillBytes(sig[:32])
		lo := s
		if lo.Cmp(halfN) > 0 {
			lo = new(big.Int).Sub(N, s)
		}
		lo.FillBytes(sig[32:])
		if ok, why := VerifySig(Compress(q), dig, sig); !ok {
			t.Fatalf("verify %d: %s", i, why)
		}
	}
}
