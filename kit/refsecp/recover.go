package refsecp

import "math/big"

// Recover is textbook ECDSA public-key recovery (SEC1 4.1.6) with math/big:
// for a digest z, signature values r, s in [1, n-1] and a recovery id
// (bit 0 = parity of R.y, bit 1 = R.x is r+n) it returns
// Q = r^-1 * (s*R - z*G), the unique key under which (r, s) verifies for z
// with that R. ok=false when r/s are out of range, r(+n) is not an x coordinate
// of a curve point, or the result is the point at infinity. No low-s rule is
// applied here (that is a policy of the callers, not of the recovery).
func Recover(digest []byte, r, s *big.Int, recid byte) (Point, bool) {
	if recid > 3 || r.Sign() <= 0 || s.Sign() <= 0 || r.Cmp(N) >= 0 || s.Cmp(N) >= 0 {
		return Point{}, false
	}
	x := new(big.Int).Set(r)
	if recid&2 != 0 {
		x.Add(x, N)
	}
	if x.Cmp(P) >= 0 {
		return Point{}, false
	}
	enc := make([]byte, 33)
	enc[0] = 2 + recid&1
	x.FillBytes(enc[1:])
	rp, ok := Decompress(enc)
	if !ok {
		return Point{}, false
	}
	z := new(big.Int).SetBytes(digest)
	rinv := new(big.Int).ModInverse(r, N)
	u1 := new(big.Int).Mul(z, rinv)
	u1.Neg(u1)
	u1.Mod(u1, N)
	u2 := new(big.Int).Mul(s, rinv)
	u2.Mod(u2, N)
	q := MulAdd(u1, u2, rp)
	if q.Inf {
		return Point{}, false
	}
	return q, true
}

// Uncompressed renders X||Y (64 bytes, no prefix) of a finite point.
func Uncompressed(q Point) []byte {
	out := make([]byte, 64)
	q.X.FillBytes(out[:32])
	q.Y.FillBytes(out[32:])
	return out
}
