package evmprog

import "fmt"

// Assemble renders the program to bytecode (also stored in p.Code). An error means
// the generator produced a structurally invalid tree - a harness bug, never a
// finding about the code under test.
func (p *Program) Assemble() ([]byte, error) {
	a := NewAsm(p.Fork >= Shanghai)
	if p.Features&(FRaw|FDeep|FBadImm) != 0 {
		// raw bytes / boundary probes make static depth tracking meaningless
		a.Unchecked = p.Features&FRaw != 0
	}
	e := &emitter{a: a, fork: p.Fork}
	e.blocks(p.Blocks)
	e.term(&p.Term)
	code, err := a.Bytes()
	if err != nil {
		return nil, fmt.Errorf("evmprog: %s: %w", p.Describe(), err)
	}
	p.Code = code
	return code, nil
}

type emitter struct {
	a    *Asm
	fork Fork
}

func (e *emitter) blocks(bs []Block) {
	for i := range bs {
		e.block(&bs[i])
	}
}

// pushVals pushes operands so that vals[0] ends on top.
func (e *emitter) pushVals(vals [][]byte) {
	for i := len(vals) - 1; i >= 0; i-- {
		e.a.Push(vals[i])
	}
}

func (e *emitter) sink(b *Block) {
	switch b.Sink {
	case SinkMStore:
		e.a.PushU(b.SOff).Op(MSTORE)
	case SinkSStore:
		e.a.PushU(3).Op(SSTORE)
	default:
		e.a.Op(POP)
	}
}

// value emits a value-producing block and leaves the value on the stack.
func (e *emitter) value(b *Block) {
	a := e.a
	switch b.Kind {
	case KArith:
		e.pushVals(b.Vals)
		a.Op(b.Op)
	case KEnv:
		switch b.Op {
		case BALANCE, EXTCODESIZE, EXTCODEHASH:
			pushTarget(a, b.Target)
		default:
			e.pushVals(b.Vals)
		}
		a.Op(b.Op)
	case KStore: // SLOAD / TLOAD
		e.pushVals(b.Vals)
		a.Op(b.Op)
	default:
		a.fail("value(): kind %s", b.Kind)
	}
}

func (e *emitter) block(b *Block) {
	a := e.a
	switch b.Kind {
	case KArith, KEnv:
		e.value(b)
		e.sink(b)
	case KStore:
		if b.Op == SLOAD || b.Op == TLOAD {
			e.value(b)
			e.sink(b)
		} else {
			// Vals: slot, value ; SSTORE pops key (top) then value
			a.Push(b.Vals[1]).Push(b.Vals[0]).Op(b.Op)
		}
	case KMem:
		switch b.Op {
		case MLOAD, KECCAK256:
			e.pushVals(b.Vals)
			a.Op(b.Op)
			e.sink(b)
		case EXTCODECOPY:
			e.pushVals(b.Vals)
			pushTarget(a, b.Target)
			a.Op(b.Op)
		default:
			e.pushVals(b.Vals)
			a.Op(b.Op)
		}
	case KLog:
		e.pushVals(b.Vals)
		a.Op(b.Op)
	case KLoop:
		a.Loop(b.N, func() { e.blocks(b.Body) })
	case KIf:
		e.value(b.Cond)
		a.IfElse(func() {
			e.blocks(b.Body)
			if b.Exit != nil {
				e.term(b.Exit)
			}
		}, func() { e.blocks(b.Else) })
	case KCall, KRecurse:
		e.call(b)
	case KCreate:
		e.create(b)
	case KStack:
		n := int(b.N)
		for i := 0; i < n; i++ {
			a.PushU(uint64(i + 1))
		}
		grow := 0
		switch {
		case b.Op >= DUP1 && b.Op <= DUP16:
			a.Op(b.Op)
			grow = 1
		case b.Op >= SWAP1 && b.Op <= SWAP16:
			a.Op(b.Op)
		case b.Op == DUPN:
			a.Imm1(b.Op, b.Imm, n, 1)
			grow = 1
		default:
			a.Imm1(b.Op, b.Imm, n, 0)
		}
		for i := 0; i < n+grow; i++ {
			a.Op(POP)
		}
	case KDeep:
		e.deep(b)
	case KReturnData:
		if b.Op == RETURNDATASIZE {
			a.Op(RETURNDATASIZE)
			e.sink(b)
		} else {
			e.pushVals(b.Vals)
			a.Op(RETURNDATACOPY)
		}
	case KRaw, KInactive:
		a.Raw(b.Raw...)
	default:
		a.fail("block(): kind %s", b.Kind)
	}
}

func (e *emitter) call(b *Block) {
	a := e.a
	if b.Kind == KRecurse {
		// all gas, no value, empty input and output
		a.PushU(0).PushU(0).PushU(0).PushU(0)
		if b.Op == CALL || b.Op == CALLCODE {
			a.PushU(0)
		}
		a.Op(ADDRESS).Push(ones(32)).Op(b.Op, POP)
		return
	}
	gas, value, inOff, inLen, outOff, outLen := b.Vals[0], b.Vals[1], b.Vals[2], b.Vals[3], b.Vals[4], b.Vals[5]
	if b.FillIn {
		a.Push(inLen).PushU(0).Push(inOff).Op(CALLDATACOPY)
	}
	a.Push(outLen).Push(outOff).Push(inLen).Push(inOff)
	if b.Op == CALL || b.Op == CALLCODE {
		a.Push(value)
	}
	pushTarget(a, b.Target)
	if b.Variant == GasOpcode {
		a.Op(GAS)
	} else {
		a.Push(gas)
	}
	a.Op(b.Op)
	e.flag(b)
}

// flag consumes a success flag / created address: optional branch to an early
// terminator when it is zero, then the sink.
func (e *emitter) flag(b *Block) {
	a := e.a
	if b.Branch && b.Exit != nil {
		a.Op(DUP1)
		a.IfElse(nil, func() { e.term(b.Exit) })
	}
	e.sink(b)
}

func (e *emitter) create(b *Block) {
	a := e.a
	value, salt := b.Vals[0], b.Vals[1]
	var init []byte
	if b.Init != nil {
		code, err := b.Init.Assemble()
		if err != nil {
			a.fail("init program: %v", err)
			return
		}
		init = code
		if b.InitWrap {
			init = Deployer(code, e.fork >= Shanghai)
		}
	} else {
		init = b.InitRaw
	}
	if b.Variant == 6 {
		// oversized initcode straight from (zero) memory
		if b.Op == CREATE2 {
			a.Push(salt)
		}
		a.PushU(b.N).PushU(0).Push(value).Op(b.Op)
		e.flag(b)
		return
	}
	if len(init) > 0 {
		s, end := a.Data(init)
		a.PushDistance(s, end).PushLabel(s).PushU(0).Op(CODECOPY)
		if b.Op == CREATE2 {
			a.Push(salt)
		}
		a.PushDistance(s, end).PushU(0).Push(value).Op(b.Op)
	} else {
		if b.Op == CREATE2 {
			a.Push(salt)
		}
		a.PushU(0).PushU(0).Push(value).Op(b.Op)
	}
	e.flag(b)
}

func (e *emitter) deep(b *Block) {
	a := e.a
	was := a.Unchecked
	a.Unchecked = true // the probe op may overflow on purpose
	start := a.Depth()
	fill := int(b.N) - start
	if fill < 1 {
		fill = 1
	}
	a.PushU(1)
	for i := 1; i < fill; i++ {
		a.Op(DUP1)
	}
	grow := 1
	switch b.Variant {
	case 0:
		a.Op(DUP16)
	case 1:
		a.Op(SWAP16)
		grow = 0
	case 2:
		a.PushU(7)
	case 3:
		a.Op(CALLER)
	case 4:
		a.Op(DUP1)
	default:
		if Active(DUPN, e.fork) {
			a.Imm1(DUPN, 0x80, 17, 1) // DUPN 17
		} else {
			a.Op(PC)
		}
	}
	for i := 0; i < fill+grow; i++ {
		a.Op(POP)
	}
	a.SetDepth(start)
	a.Unchecked = was
}

func (e *emitter) term(b *Block) {
	a := e.a
	switch b.Kind {
	case TStop:
		a.Op(STOP)
	case TReturn:
		a.Push(b.Vals[1]).Push(b.Vals[0]).Op(RETURN)
	case TRevert:
		a.Push(b.Vals[1]).Push(b.Vals[0]).Op(REVERT)
	case TInvalid:
		a.Raw(INVALID)
	case TSelfDestruct:
		pushTarget(a, b.Target)
		a.Op(SELFDESTRUCT)
	case TOOGLoop:
		l := a.NewLabel()
		switch b.Variant {
		case 0: // plain spin
			a.Bind(l).Jump(l)
		case 1: // memory grows by one word per iteration
			a.PushU(0).Bind(l).Op(DUP1, DUP1, MSTORE).PushU(32).Op(ADD).Jump(l)
		default: // memory grows by 1 KiB per iteration via MSTORE8
			a.PushU(0).Bind(l).Op(DUP1, DUP1, MSTORE8).PushU(1024).Op(ADD).Jump(l)
		}
	case TBadJump:
		switch b.Variant {
		case 0: // into push data that contains the JUMPDEST byte
			l := a.NewLabel()
			a.PushLabelDelta(l, 1).Op(JUMP)
			a.Mark(l).Raw(PUSH1, JUMPDEST)
		case 1: // just beyond the end of code
			a.Push([]byte{0xff, 0xff}).Op(JUMP)
		case 2:
			a.Push(pow2(64)).Op(JUMP)
		case 3:
			a.Push(ones(32)).Op(JUMP)
		default: // JUMPI with a true condition into push data
			l := a.NewLabel()
			a.PushU(1).PushLabelDelta(l, 1).Op(JUMPI)
			a.Mark(l).Raw(PUSH1, JUMPDEST)
		}
	case TUnderflow:
		was := a.Unchecked
		a.Unchecked = true
		for i := a.Depth(); i >= 0; i-- {
			a.Raw(POP)
		}
		a.Unchecked = was
	case TOverflow:
		l := a.NewLabel()
		a.Bind(l).Op(PC).Jump(l)
	case TFallOff:
		// nothing
	case TRawTail, KInactive:
		a.Raw(b.Raw...)
	default:
		a.fail("term(): kind %s", b.Kind)
	}
	a.SetDepth(0)
}
