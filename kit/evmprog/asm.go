package evmprog

import (
	"errors"
	"fmt"
)

// Label is a code position resolved by the assembler's second pass.
type Label int

type fixup struct {
	pos   int // position of the 2 immediate bytes of a PUSH2
	label Label
	delta int // added to the label's position (used for sizes: end-start)
	sub   Label
	isLen bool // value = pos(label) - pos(sub)
}

// Asm is a small two-pass assembler for EVM bytecode. Labels are emitted as PUSH2
// immediates, so code is limited to 65535 bytes. The assembler tracks the static
// stack depth of straight-line code: every Op applies the opcode's stack effect,
// and going below zero or above 1024 is recorded as an error (reported by Bytes)
// unless Unchecked is set. Structured helpers (Loop, IfElse) keep the depth
// consistent at join points.
//
// All methods return the receiver to allow chaining.
type Asm struct {
	code   []byte
	labels []int // label -> position, -1 if unbound
	fix    []fixup
	data   []dataSeg
	depth  int
	max    int
	err    error
	// Unchecked disables stack-depth errors (for deliberately invalid code).
	Unchecked bool
	// Push0 allows PUSH0 for zero constants (set it only for Shanghai and later).
	Push0 bool
}

type dataSeg struct {
	start, end Label
	bytes      []byte
}

// NewAsm returns an empty assembler. push0 selects whether zero constants use PUSH0.
func NewAsm(push0 bool) *Asm { return &Asm{Push0: push0} }

// Len is the number of code bytes emitted so far (data segments excluded).
func (a *Asm) Len() int { return len(a.code) }

// Depth is the tracked static stack depth at the current position.
func (a *Asm) Depth() int { return a.depth }

// MaxDepth is the maximum tracked static depth so far.
func (a *Asm) MaxDepth() int { return a.max }

// SetDepth overrides the tracked depth (after a terminator, or at a join point).
func (a *Asm) SetDepth(d int) *Asm { a.depth = d; return a }

func (a *Asm) fail(format string, args ...any) {
	if a.err == nil {
		a.err = fmt.Errorf(format, args...)
	}
}

func (a *Asm) adjust(pops, pushes int) {
	if a.depth < pops && !a.Unchecked {
		a.fail("stack underflow at pc %d: depth %d, need %d", len(a.code), a.depth, pops)
	}
	a.depth += pushes - pops
	if a.depth < 0 {
		a.depth = 0
	}
	if a.depth > 1024 && !a.Unchecked {
		a.fail("stack overflow at pc %d: depth %d", len(a.code), a.depth)
	}
	if a.depth > a.max {
		a.max = a.depth
	}
}

// Op emits opcodes without immediates, applying their stack effects. PUSHn,
// DUPN, SWAPN and EXCHANGE must be emitted with Push/PushN/Imm1.
func (a *Asm) Op(ops ...byte) *Asm {
	for _, op := range ops {
		i := opTable[op]
		if i.Imm != 0 {
			a.fail("Op(%s): opcode with immediate", OpName(op))
		}
		a.adjust(i.Pops, i.Pushes)
		a.code = append(a.code, op)
	}
	return a
}

// Imm1 emits an EIP-8024 style opcode with one immediate byte. need is the number
// of stack items the instruction requires for that immediate, grow its net effect.
func (a *Asm) Imm1(op, imm byte, need, grow int) *Asm {
	a.adjust(need, need+grow)
	a.code = append(a.code, op, imm)
	return a
}

// Raw appends bytes verbatim with no stack tracking.
func (a *Asm) Raw(b ...byte) *Asm {
	a.code = append(a.code, b...)
	return a
}

// Push emits the shortest PUSH for the big-endian value v (leading zero bytes are
// stripped; zero becomes PUSH0 or PUSH1 0x00).
func (a *Asm) Push(v []byte) *Asm {
	for len(v) > 0 && v[0] == 0 {
		v = v[1:]
	}
	if len(v) > 32 {
		a.fail("Push: %d bytes", len(v))
		v = v[len(v)-32:]
	}
	a.adjust(0, 1)
	if len(v) == 0 {
		if a.Push0 {
			a.code = append(a.code, PUSH0)
		} else {
			a.code = append(a.code, PUSH1, 0)
		}
		return a
	}
	a.code = append(a.code, PUSH1+byte(len(v)-1))
	a.code = append(a.code, v...)
	return a
}

// PushN emits PUSHn with exactly n = len(v) immediate bytes (1..32), no stripping.
func (a *Asm) PushN(v []byte) *Asm {
	if len(v) < 1 || len(v) > 32 {
		a.fail("PushN: %d bytes", len(v))
		return a
	}
	a.adjust(0, 1)
	a.code = append(a.code, PUSH1+byte(len(v)-1))
	a.code = append(a.code, v...)
	return a
}

// PushU emits the shortest PUSH of a uint64.
func (a *Asm) PushU(v uint64) *Asm {
	var b [8]byte
	for i := 0; i < 8; i++ {
		b[7-i] = byte(v >> (8 * i))
	}
	return a.Push(b[:])
}

// PushAddr pushes a 20-byte address.
func (a *Asm) PushAddr(addr [20]byte) *Asm { return a.PushN(addr[:]) }

// NewLabel allocates an unbound label.
func (a *Asm) NewLabel() Label {
	a.labels = append(a.labels, -1)
	return Label(len(a.labels) - 1)
}

// Bind binds l to the current position and emits a JUMPDEST there.
func (a *Asm) Bind(l Label) *Asm {
	a.Mark(l)
	return a.Op(JUMPDEST)
}

// Mark binds l to the current position without emitting anything.
func (a *Asm) Mark(l Label) *Asm {
	if a.labels[l] != -1 {
		a.fail("label %d bound twice", l)
	}
	a.labels[l] = len(a.code)
	return a
}

// PushLabel emits PUSH2 <position of l> (resolved in Bytes).
func (a *Asm) PushLabel(l Label) *Asm {
	a.adjust(0, 1)
	a.code = append(a.code, PUSH2, 0, 0)
	a.fix = append(a.fix, fixup{pos: len(a.code) - 2, label: l})
	return a
}

// PushLabelDelta emits PUSH2 <position of l + delta>.
func (a *Asm) PushLabelDelta(l Label, delta int) *Asm {
	a.PushLabel(l)
	a.fix[len(a.fix)-1].delta = delta
	return a
}

// PushDistance emits PUSH2 <pos(end) - pos(start)>.
func (a *Asm) PushDistance(start, end Label) *Asm {
	a.adjust(0, 1)
	a.code = append(a.code, PUSH2, 0, 0)
	a.fix = append(a.fix, fixup{pos: len(a.code) - 2, label: end, sub: start, isLen: true})
	return a
}

// Jump emits PUSH2 l; JUMP.
func (a *Asm) Jump(l Label) *Asm { return a.PushLabel(l).Op(JUMP) }

// Jumpi emits PUSH2 l; JUMPI (consumes the condition already on the stack).
func (a *Asm) Jumpi(l Label) *Asm { return a.PushLabel(l).Op(JUMPI) }

// Data registers a data segment that Bytes appends after all code (behind an
// INVALID guard byte). It returns labels for its first byte and its end, to be
// used with PushLabel / PushDistance and CODECOPY.
func (a *Asm) Data(b []byte) (start, end Label) {
	start, end = a.NewLabel(), a.NewLabel()
	a.data = append(a.data, dataSeg{start, end, append([]byte{}, b...)})
	return
}

// Loop emits a counted loop executing body n times (n >= 1). The counter lives on
// the stack below the body's working area; body must be stack-neutral.
//
//	PUSH n; top: JUMPDEST; body; PUSH1 1; SWAP1; SUB; DUP1; PUSH2 top; JUMPI; POP
func (a *Asm) Loop(n uint64, body func()) *Asm {
	top := a.NewLabel()
	a.PushU(n)
	a.Bind(top)
	d := a.depth
	body()
	if a.depth != d && !a.Unchecked {
		a.fail("loop body not stack-neutral: %d -> %d", d, a.depth)
	}
	a.depth = d
	a.PushU(1).Op(SWAP1, SUB, DUP1).Jumpi(top).Op(POP)
	return a
}

// IfElse consumes the condition on top of the stack and runs then if it is
// non-zero, otherwise els (either may be nil). Both branches must be stack-neutral
// or end in a terminator (signalled by calling Terminated inside the branch).
func (a *Asm) IfElse(then, els func()) *Asm {
	lThen, lEnd := a.NewLabel(), a.NewLabel()
	a.Jumpi(lThen)
	d := a.depth
	if els != nil {
		els()
	}
	a.depth = d
	a.Jump(lEnd)
	a.depth = d
	a.Bind(lThen)
	if then != nil {
		then()
	}
	a.depth = d
	a.Bind(lEnd)
	return a
}

// Err returns the first assembly error so far.
func (a *Asm) Err() error { return a.err }

// Bytes resolves labels and returns code followed by the data segments.
func (a *Asm) Bytes() ([]byte, error) {
	out := append([]byte{}, a.code...)
	labels := append([]int{}, a.labels...)
	if len(a.data) > 0 {
		out = append(out, INVALID)
		for _, d := range a.data {
			labels[d.start] = len(out)
			out = append(out, d.bytes...)
			labels[d.end] = len(out)
		}
	}
	if a.err != nil {
		return out, a.err
	}
	if len(out) > 0xffff {
		return out, errors.New("evmprog: code larger than 65535 bytes")
	}
	for _, f := range a.fix {
		p := labels[f.label]
		if p < 0 {
			return out, fmt.Errorf("evmprog: unbound label %d", f.label)
		}
		v := p + f.delta
		if f.isLen {
			s := labels[f.sub]
			if s < 0 {
				return out, fmt.Errorf("evmprog: unbound label %d", f.sub)
			}
			v = p - s
		}
		if v < 0 || v > 0xffff {
			return out, fmt.Errorf("evmprog: label value %d out of range", v)
		}
		out[f.pos], out[f.pos+1] = byte(v>>8), byte(v)
	}
	return out, nil
}

// MustBytes is Bytes that panics on error (for hand-written programs).
func (a *Asm) MustBytes() []byte {
	b, err := a.Bytes()
	if err != nil {
		panic(err)
	}
	return b
}

// Deployer returns initcode that deploys runtime verbatim:
//
//	PUSH2 len; DUP1; PUSH2 off; PUSH 0; CODECOPY; PUSH 0; RETURN; INVALID; runtime
func Deployer(runtime []byte, push0 bool) []byte {
	a := NewAsm(push0)
	s, e := a.Data(runtime)
	a.PushDistance(s, e).Op(DUP1).PushLabel(s).PushU(0).Op(CODECOPY).PushU(0).Op(RETURN)
	return a.MustBytes()
}

// Disasm renders code as one instruction per line ("pc: NAME imm"), for failure
// reports.
func Disasm(code []byte) string {
	var out []byte
	for pc := 0; pc < len(code); pc++ {
		op := code[pc]
		out = append(out, fmt.Sprintf("%04x: %s", pc, OpName(op))...)
		if n := opTable[op].Imm; n > 0 && op >= PUSH1 && op <= PUSH32 {
			end := pc + 1 + n
			if end > len(code) {
				end = len(code)
			}
			out = append(out, fmt.Sprintf(" 0x%x", code[pc+1:end])...)
			pc += n
		}
		out = append(out, '\n')
	}
	return string(out)
}
