package evmprog

import (
	"fmt"
	"sort"
	"strings"

	"pgregory.net/rapid"
)

// Kind enumerates block and terminator kinds.
type Kind int

const (
	KArith      Kind = iota // arithmetic/comparison/bitwise op over hostile operands
	KEnv                    // environment / account / block info opcode
	KMem                    // memory op at a (possibly hostile) offset/length
	KStore                  // SSTORE / SLOAD / TSTORE / TLOAD on a small slot pool
	KLog                    // LOG0..LOG4
	KLoop                   // counted loop (counter <= 8) around a body
	KIf                     // if/else on a computed condition
	KCall                   // CALL / CALLCODE / DELEGATECALL / STATICCALL to a target
	KCreate                 // CREATE / CREATE2 with generated or raw initcode
	KStack                  // DUPn / SWAPn / DUPN / SWAPN / EXCHANGE with operands in place
	KDeep                   // fill the stack to the 1024 boundary, one op there, unwind
	KReturnData             // RETURNDATASIZE / RETURNDATACOPY incl. out-of-bounds
	KRecurse                // one call of the executing contract to itself with all gas
	KInactive               // one byte that is not an instruction under the fork
	KRaw                    // a few raw random bytes inline (breaks all guarantees)
	numBlockKinds

	// Terminators.
	TStop Kind = iota + 100
	TReturn
	TRevert
	TInvalid
	TSelfDestruct
	TOOGLoop   // infinite loop (plain or memory-growing) until out of gas
	TBadJump   // JUMP to a non-JUMPDEST (push data, beyond code, huge)
	TUnderflow // pop from an empty stack
	TOverflow  // push in a loop until the 1024 limit
	TFallOff   // no terminator: execution runs off the end (implicit STOP)
	TRawTail   // arbitrary bytes appended
)

var kindNames = map[Kind]string{
	KArith: "arith", KEnv: "env", KMem: "mem", KStore: "store", KLog: "log", KLoop: "loop", KIf: "if",
	KCall: "call", KCreate: "create", KStack: "stack", KDeep: "deep", KReturnData: "retdata",
	KRecurse: "recurse", KInactive: "inactive", KRaw: "raw",
	TStop: "stop", TReturn: "return", TRevert: "revert", TInvalid: "invalid", TSelfDestruct: "selfdestruct",
	TOOGLoop: "oogloop", TBadJump: "badjump", TUnderflow: "underflow", TOverflow: "overflow",
	TFallOff: "falloff", TRawTail: "rawtail",
}

func (k Kind) String() string {
	if s, ok := kindNames[k]; ok {
		return s
	}
	return fmt.Sprintf("kind%d", int(k))
}

// IsTerminator reports whether k is a terminator kind.
func (k Kind) IsTerminator() bool { return k >= TStop }

// TargetKind classifies call / selfdestruct / account-query targets.
type TargetKind int

const (
	TgtContract   TargetKind = iota // one of the generated contracts
	TgtPrecompile                   // a precompile address (possibly not active in the fork)
	TgtEOA                          // funded account without code
	TgtMissing                      // address that does not exist in the pre-state
	TgtSelf                         // the executing contract (ADDRESS)
	TgtWord                         // an arbitrary 32-byte word used as address
)

// Target is an address a program may refer to.
type Target struct {
	Kind  TargetKind
	Addr  [20]byte
	Index int    // TgtContract: index into World.Contracts
	Word  []byte // TgtWord
}

// Sink says what happens to a value a block leaves on the stack.
type Sink int

const (
	SinkPop    Sink = iota // POP
	SinkMStore             // MSTORE into one of the scratch words 0x00..0x60
	SinkSStore             // SSTORE into slot 3 (an observable effect)
)

// Block is one node of a program tree. Which fields are meaningful depends on Kind.
type Block struct {
	Kind Kind
	Op   byte
	Vals [][]byte // operands; Vals[0] ends up on top of the stack
	Sink Sink
	SOff uint64 // scratch offset for SinkMStore

	N    uint64  // loop count, deep fill target, topic count
	Cond *Block  // KIf: value-producing block
	Body []Block // KLoop body, KIf then-branch
	Else []Block // KIf else-branch
	Exit *Block  // optional early terminator closing Body (KIf only)

	Target   Target // KCall, TSelfDestruct, account-query ops
	FillIn   bool   // KCall: CALLDATACOPY the input range from calldata first
	Branch   bool   // KCall/KCreate: branch on the success flag (non-monotone)
	Init     *Program
	InitRaw  []byte // KCreate: raw initcode (used when Init == nil)
	InitWrap bool   // KCreate: wrap Init's code in Deployer (Init is runtime code)
	Raw      []byte // KRaw, TRawTail, KInactive(1 byte)
	Imm      byte   // KStack with DUPN/SWAPN/EXCHANGE
	Variant  int    // sub-variant (TOOGLoop, TBadJump, KDeep op)
}

// Feature bits summarise what a program contains (recursively, including initcode).
type Feature uint64

const (
	FCall Feature = 1 << iota
	FCallCode
	FDelegateCall
	FStaticCall
	FCreate
	FCreate2
	FSStore
	FTStore
	FLog
	FSelfDestruct
	FLoop
	FIf
	FHugeMem // a memory offset/length >= 2^16
	FRaw     // raw bytes: no structural guarantee holds
	FDeep
	FRecurse
	FInactive
	FPrecompile
	FValueCall // call/create with a non-zero value operand
	FGasOp     // GAS opcode present (=> not monotone)
	FReturnData
	FEarlyExit
	FBadImm // EIP-8024 opcode with a forbidden immediate
)

var featNames = []string{"call", "callcode", "delegatecall", "staticcall", "create", "create2", "sstore", "tstore",
	"log", "selfdestruct", "loop", "if", "hugemem", "raw", "deep", "recurse", "inactive", "precompile", "valuecall",
	"gasop", "returndata", "earlyexit", "badimm"}

// Names lists the set feature names.
func (f Feature) Names() []string {
	var out []string
	for i, n := range featNames {
		if f&(1<<uint(i)) != 0 {
			out = append(out, n)
		}
	}
	return out
}

func (f Feature) String() string { return strings.Join(f.Names(), "+") }

// Has reports whether all bits of g are set.
func (f Feature) Has(g Feature) bool { return f&g == g }

// Program is a generated program: blocks followed by one terminator.
type Program struct {
	Fork     Fork
	Blocks   []Block
	Term     Block
	Features Feature
	// Monotone: the program contains no GAS opcode, never branches on (or feeds
	// into offsets/jumps) a call/create success flag or a return-data size, and has
	// no raw bytes. It is the structural precondition C37 needs; it does not by
	// itself prove that success is monotone in the gas limit (a callee that gets
	// more gas may write state that makes the caller's later path dearer).
	Monotone bool
	// Bounded: no unbounded loop, no raw bytes, call graph acyclic (except one
	// linear self-recursion in contract 0), precompile calls capped at 50k gas and no
	// memory offset in [2^17, 2^38): safe to run with an unlimited gas limit.
	Bounded bool
	Code    []byte // set by Assemble
}

// GenConfig controls program generation.
type GenConfig struct {
	Fork      Fork
	Self      int        // index of the contract being generated (-1: standalone)
	Contracts [][20]byte // addresses of all generated contracts
	Others    []Target   // precompiles, EOAs, missing accounts, ...
	MaxBlocks int        // top-level blocks, default 8
	MaxNest   int        // nesting of loops/ifs, default 2
	// CreateDepth is how deep CREATE initcode may itself be a generated program
	// (default 2; 0 = only raw/empty initcode).
	CreateDepth int
	Monotone    bool
	Bounded     bool
	// EffectBias prefers state-changing blocks (SSTORE/TSTORE/LOG/CREATE/value
	// calls/SELFDESTRUCT) - used by C29.
	EffectBias bool
	// Disable removes block/terminator kinds from the choice.
	Disable map[Kind]bool
	// AsInit marks the program as initcode (RETURN terminators dominate).
	AsInit bool

	noContractCalls bool
	callFloor       int // Bounded: lowest contract index this code may call
	size            int // rough byte budget used so far
}

func (g *GenConfig) defaults() {
	if g.MaxBlocks == 0 {
		g.MaxBlocks = 8
	}
	if g.MaxNest == 0 {
		g.MaxNest = 2
	}
}

var uniGens [25]*rapid.Generator[int]

func init() {
	for k := range uniGens {
		k := k
		uniGens[k] = rapid.Custom(func(t *rapid.T) int {
			v := 0
			for i := 0; i < k; i++ {
				if rapid.Bool().Draw(t, "bit") {
					v |= 1 << uint(i)
				}
			}
			return v
		})
	}
}

// Uniform draws an (almost exactly) uniform integer in [0, n), n <= 2^20. rapid's
// own integer generators are deliberately biased towards small values, which is
// the wrong distribution for choosing among alternatives; this one is built from
// unbiased Bool draws (4 surplus bits keep the modulo bias below 7%).
func Uniform(t *rapid.T, label string, n int) int {
	if n <= 1 {
		return 0
	}
	k := 4
	for m := n - 1; m > 0; m >>= 1 {
		k++
	}
	if k > 24 {
		k = 24
	}
	return uniGens[k].Draw(t, label) % n
}

// pick draws an index with the given non-negative weights.
func pick(t *rapid.T, label string, w []int) int {
	total := 0
	for _, x := range w {
		total += x
	}
	if total <= 0 {
		return 0
	}
	r := Uniform(t, label, total)
	for i, x := range w {
		if r < x {
			return i
		}
		r -= x
	}
	return len(w) - 1
}

func pow2(n uint) []byte {
	b := make([]byte, 32)
	b[31-n/8] = 1 << (n % 8)
	return b
}

func ones(nbytes int) []byte {
	b := make([]byte, nbytes)
	for i := range b {
		b[i] = 0xff
	}
	return b
}

func minus(b []byte, k byte) []byte { // b - k for b >= k, big endian
	o := append([]byte{}, b...)
	borrow := int(k)
	for i := len(o) - 1; i >= 0 && borrow > 0; i-- {
		v := int(o[i]) - borrow
		borrow = 0
		if v < 0 {
			v += 256
			borrow = 1
		}
		o[i] = byte(v)
	}
	return o
}

func u64(v uint64) []byte {
	b := make([]byte, 8)
	for i := 0; i < 8; i++ {
		b[7-i] = byte(v >> (8 * i))
	}
	return b
}

// HostileWords is the pool of boundary operands (big-endian, <= 32 bytes).
var HostileWords = [][]byte{
	{}, {1}, {2}, {3}, {5}, {7}, {8}, {31}, {32}, {33}, {63}, {64}, {255}, {1, 0}, {1, 1}, {0xff, 0xff},
	u64(1 << 31), u64(1<<32 - 1), u64(1 << 32), u64(1 << 63), ones(8), pow2(64), ones(16), pow2(128),
	ones(20), minus(pow2(255), 1), pow2(255), append(pow2(255)[:31], 1), minus(ones(32), 1), ones(32),
}

// DrawWord draws a stack operand: mostly from HostileWords, sometimes a small
// number or random bytes of random length.
func DrawWord(t *rapid.T, label string) []byte {
	switch pick(t, label+"-class", []int{6, 2, 2}) {
	case 0:
		return HostileWords[Uniform(t, label, len(HostileWords))]
	case 1:
		return u64(uint64(rapid.IntRange(0, 1000).Draw(t, label)))
	default:
		return rapid.SliceOfN(rapid.Byte(), 1, 32).Draw(t, label)
	}
}

var (
	smallOffs = []uint64{0, 0, 0, 1, 31, 32, 33, 64, 96, 128, 255, 256}
	midOffs   = []uint64{1024, 4096}
	bigOffs   = []uint64{0xffff, 0x10000, 0x20000, 0x100000, 1 << 32} // needs a gas limit <= ~2^25 to stay cheap
	smallLens = []uint64{0, 0, 1, 31, 32, 33, 64, 100, 256}
)

// hugeOffs always fail (gas overflow or out of gas) whatever the gas limit.
var hugeOffs = [][]byte{u64(1 << 38), u64(1 << 40), minus(ones(8), 31), ones(8), pow2(64), pow2(255), ones(32)}

func (g *GenConfig) drawOff(t *rapid.T, label string, feat *Feature) []byte {
	w := []int{84, 9, 3, 4}
	if g.Bounded {
		w[2] = 0
	}
	switch pick(t, label+"-class", w) {
	case 0:
		return u64(smallOffs[Uniform(t, label, len(smallOffs))])
	case 1:
		return u64(midOffs[Uniform(t, label, len(midOffs))])
	case 2:
		*feat |= FHugeMem
		return u64(bigOffs[Uniform(t, label, len(bigOffs))])
	default:
		*feat |= FHugeMem
		return hugeOffs[Uniform(t, label, len(hugeOffs))]
	}
}

func (g *GenConfig) drawLen(t *rapid.T, label string, feat *Feature) []byte {
	w := []int{86, 8, 3, 3}
	if g.Bounded {
		w[2] = 0
	}
	switch pick(t, label+"-class", w) {
	case 0:
		return u64(smallLens[Uniform(t, label, len(smallLens))])
	case 1:
		return u64(midOffs[Uniform(t, label, len(midOffs))])
	case 2:
		*feat |= FHugeMem
		return u64(bigOffs[Uniform(t, label, len(bigOffs))])
	default:
		*feat |= FHugeMem
		return hugeOffs[Uniform(t, label, len(hugeOffs))]
	}
}

func (g *GenConfig) drawTarget(t *rapid.T, label string, forCall bool) Target {
	nc := len(g.Contracts)
	wc := 5
	if nc == 0 || (forCall && g.noContractCalls) {
		wc = 0
	}
	wo := 3
	if len(g.Others) == 0 {
		wo = 0
	}
	ww := 1
	if g.Bounded && forCall {
		ww = 0 // an arbitrary word could alias a contract or precompile
	}
	switch pick(t, label+"-kind", []int{wc, wo, 1, ww}) {
	case 0:
		lo := 0
		if g.Bounded && forCall {
			lo = g.callFloor // acyclic call graph
			if lo >= nc {
				return Target{Kind: TgtSelf}.orMissing(forCall)
			}
		}
		i := lo + Uniform(t, label, nc-lo)
		return Target{Kind: TgtContract, Addr: g.Contracts[i], Index: i}
	case 1:
		return g.Others[Uniform(t, label, len(g.Others))]
	case 2:
		if g.Bounded && forCall {
			return Target{Kind: TgtMissing, Addr: MissingAddr}
		}
		return Target{Kind: TgtSelf}
	default:
		return Target{Kind: TgtWord, Word: DrawWord(t, label)}
	}
}

func (tg Target) orMissing(forCall bool) Target {
	if forCall {
		return Target{Kind: TgtMissing, Addr: MissingAddr}
	}
	return tg
}

func pushTarget(a *Asm, tg Target) {
	switch tg.Kind {
	case TgtSelf:
		a.Op(ADDRESS)
	case TgtWord:
		a.Push(tg.Word)
	default:
		a.PushAddr(tg.Addr)
	}
}

var (
	arith1 = []byte{ISZERO, NOT, CLZ}
	arith2 = []byte{ADD, MUL, SUB, DIV, SDIV, MOD, SMOD, EXP, SIGNEXTEND, LT, GT, SLT, SGT, EQ, AND, OR, XOR, BYTE, SHL, SHR, SAR}
	arith3 = []byte{ADDMOD, MULMOD}
	env0   = []byte{ADDRESS, ORIGIN, CALLER, CALLVALUE, CALLDATASIZE, CODESIZE, GASPRICE, COINBASE, TIMESTAMP, NUMBER,
		DIFFICULTY, GASLIMIT, CHAINID, SELFBALANCE, BASEFEE, BLOBBASEFEE, SLOTNUM, PC, MSIZE, GAS}
	env1acct = []byte{BALANCE, EXTCODESIZE, EXTCODEHASH}
	env1word = []byte{BLOCKHASH, BLOBHASH, CALLDATALOAD}
)

func activeOf(ops []byte, f Fork) []byte {
	var out []byte
	for _, op := range ops {
		if Active(op, f) {
			out = append(out, op)
		}
	}
	return out
}

func (g *GenConfig) drawSink(t *rapid.T) (Sink, uint64) {
	w := []int{5, 4, 1}
	if g.EffectBias {
		w = []int{4, 3, 3}
	}
	s := Sink(pick(t, "sink", w))
	return s, uint64(Uniform(t, "scratch", 3+1)) * 32
}

// genValue draws a block that leaves exactly one value on the stack (before its
// sink). want restricts the choice: KArith (arithmetic only), KEnv (environment
// and account queries), anything else = arithmetic, environment or storage load.
// None of the choices depends on gas or on the outcome of a call (GAS is excluded
// under Monotone), so Monotone programs may branch on them.
func (g *GenConfig) genValue(t *rapid.T, feat *Feature, want Kind) Block {
	b := Block{}
	b.Sink, b.SOff = g.drawSink(t)
	w := []int{5, 3, 2, 2}
	switch want {
	case KArith:
		w = []int{1, 0, 0, 0}
	case KEnv:
		w = []int{0, 3, 2, 0}
	}
	switch pick(t, "value-kind", w) {
	case 0:
		b.Kind = KArith
		switch pick(t, "arity", []int{2, 8, 2}) {
		case 0:
			ops := activeOf(arith1, g.Fork)
			b.Op = ops[Uniform(t, "op", len(ops))]
			b.Vals = [][]byte{DrawWord(t, "a")}
		case 1:
			ops := activeOf(arith2, g.Fork)
			b.Op = ops[Uniform(t, "op", len(ops))]
			b.Vals = [][]byte{DrawWord(t, "a"), DrawWord(t, "b")}
		default:
			b.Op = arith3[Uniform(t, "op", 1+1)]
			b.Vals = [][]byte{DrawWord(t, "a"), DrawWord(t, "b"), DrawWord(t, "n")}
		}
	case 1:
		b.Kind = KEnv
		ops := activeOf(env0, g.Fork)
		if g.Monotone {
			ops = without(ops, GAS)
		}
		b.Op = ops[Uniform(t, "op", len(ops))]
		if b.Op == GAS {
			*feat |= FGasOp
		}
	case 2:
		b.Kind = KEnv
		if rapid.Bool().Draw(t, "acct") {
			ops := activeOf(env1acct, g.Fork)
			b.Op = ops[Uniform(t, "op", len(ops))]
			b.Target = g.drawTarget(t, "acct", false)
			if b.Target.Kind == TgtPrecompile {
				*feat |= FPrecompile
			}
		} else {
			ops := activeOf(env1word, g.Fork)
			b.Op = ops[Uniform(t, "op", len(ops))]
			b.Vals = [][]byte{DrawWord(t, "a")}
		}
	default:
		b.Kind = KStore
		b.Op = SLOAD
		if Active(TLOAD, g.Fork) && rapid.Bool().Draw(t, "transient") {
			b.Op = TLOAD
		}
		b.Vals = [][]byte{drawSlot(t)}
	}
	return b
}

func without(ops []byte, op byte) []byte {
	var out []byte
	for _, o := range ops {
		if o != op {
			out = append(out, o)
		}
	}
	return out
}

var slotPool = [][]byte{{}, {1}, {2}, ones(32)}

func drawSlot(t *rapid.T) []byte {
	return slotPool[Uniform(t, "slot", len(slotPool))]
}

func drawStoreVal(t *rapid.T) []byte {
	switch pick(t, "sval-class", []int{4, 3, 2, 1}) {
	case 0:
		return nil
	case 1:
		return []byte{1}
	case 2:
		return []byte{2}
	default:
		return DrawWord(t, "sval")
	}
}

func (g *GenConfig) enabled(k Kind) bool { return !g.Disable[k] }

func (g *GenConfig) blockWeights(nest int) []int {
	w := make([]int, numBlockKinds)
	w[KArith], w[KEnv], w[KMem], w[KStore], w[KLog] = 18, 8, 15, 12, 6
	w[KLoop], w[KIf], w[KCall], w[KCreate], w[KStack] = 6, 8, 13, 5, 5
	w[KDeep], w[KReturnData], w[KRecurse], w[KInactive], w[KRaw] = 2, 4, 2, 0, 1
	if g.EffectBias {
		w[KArith], w[KEnv], w[KMem], w[KStack], w[KDeep] = 5, 6, 6, 1, 0
		w[KStore], w[KLog], w[KCall], w[KCreate] = 25, 12, 16, 10
	}
	if nest >= g.MaxNest {
		w[KLoop], w[KIf] = 0, 0
	}
	if nest > 0 {
		w[KDeep], w[KRecurse] = 0, 0
	}
	if g.Bounded || g.Monotone {
		w[KRaw] = 0
	}
	if g.Bounded {
		// recursion in bounded mode is decided up front for contract 0 and inserted
		// exactly once at top level (see drawProgram)
		w[KRecurse] = 0
	}
	if g.Self < 0 {
		w[KRecurse] = 0
	}
	if !Active(RETURNDATASIZE, g.Fork) {
		w[KReturnData] = 0
	}
	if g.size > 12000 {
		w[KDeep], w[KCreate], w[KStack] = 0, 0, 0
	}
	for k := range w {
		if !g.enabled(Kind(k)) {
			w[k] = 0
		}
	}
	return w
}

func (g *GenConfig) genBlocks(t *rapid.T, feat *Feature, nest, max int) []Block {
	n := Uniform(t, "nblocks", max+1)
	out := make([]Block, 0, n)
	for i := 0; i < n; i++ {
		out = append(out, g.genBlock(t, feat, nest))
	}
	return out
}

func (g *GenConfig) genBlock(t *rapid.T, feat *Feature, nest int) Block {
	k := Kind(pick(t, "block-kind", g.blockWeights(nest)))
	g.size += 20
	switch k {
	case KArith, KEnv:
		b := g.genValue(t, feat, k)
		if b.Sink == SinkSStore {
			*feat |= FSStore
		}
		return b
	case KMem:
		return g.genMem(t, feat)
	case KStore:
		b := Block{Kind: KStore}
		transient := Active(TSTORE, g.Fork) && pick(t, "transient", []int{3, 1}) == 1
		if pick(t, "store-or-load", []int{3, 1}) == 0 {
			b.Op = SSTORE
			if transient {
				b.Op = TSTORE
				*feat |= FTStore
			} else {
				*feat |= FSStore
			}
			b.Vals = [][]byte{drawSlot(t), drawStoreVal(t)}
		} else {
			b.Op = SLOAD
			if transient {
				b.Op = TLOAD
			}
			b.Vals = [][]byte{drawSlot(t)}
			b.Sink, b.SOff = g.drawSink(t)
			if b.Sink == SinkSStore {
				*feat |= FSStore
			}
		}
		return b
	case KLog:
		*feat |= FLog
		b := Block{Kind: KLog, N: uint64(Uniform(t, "topics", 4+1))}
		b.Op = LOG0 + byte(b.N)
		b.Vals = [][]byte{g.drawOff(t, "log-off", feat), g.drawLen(t, "log-len", feat)}
		for i := uint64(0); i < b.N; i++ {
			b.Vals = append(b.Vals, DrawWord(t, "topic"))
		}
		return b
	case KLoop:
		*feat |= FLoop
		maxN := 8
		if g.Bounded {
			maxN = 3
		}
		b := Block{Kind: KLoop, N: uint64(1 + Uniform(t, "loop-n", maxN-1+1))}
		b.Body = g.genBlocks(t, feat, nest+1, 3)
		return b
	case KIf:
		*feat |= FIf
		b := Block{Kind: KIf}
		c := g.genValue(t, feat, KIf)
		b.Cond = &c
		b.Body = g.genBlocks(t, feat, nest+1, 3)
		b.Else = g.genBlocks(t, feat, nest+1, 2)
		if pick(t, "early-exit", []int{5, 1}) == 1 {
			*feat |= FEarlyExit
			e := g.genTerm(t, feat, true)
			b.Exit = &e
		}
		return b
	case KCall:
		return g.genCall(t, feat)
	case KCreate:
		return g.genCreate(t, feat)
	case KStack:
		return g.genStack(t, feat)
	case KDeep:
		*feat |= FDeep
		g.size += 2100
		// N = stack depth reached before the probe op; Variant selects the op.
		b := Block{Kind: KDeep}
		b.N = []uint64{1007, 1008, 1009, 1022, 1023, 1024}[Uniform(t, "deep-n", 5+1)]
		b.Variant = Uniform(t, "deep-op", 5+1)
		return b
	case KReturnData:
		*feat |= FReturnData
		b := Block{Kind: KReturnData}
		if rapid.Bool().Draw(t, "size-only") {
			b.Op = RETURNDATASIZE
			b.Sink, b.SOff = g.drawSink(t)
			if b.Sink == SinkSStore {
				*feat |= FSStore
			}
		} else {
			b.Op = RETURNDATACOPY
			if g.Monotone {
				b.Vals = [][]byte{g.drawOff(t, "rd-dst", feat), nil, nil}
			} else {
				b.Vals = [][]byte{g.drawOff(t, "rd-dst", feat), g.drawLen(t, "rd-src", feat), g.drawLen(t, "rd-len", feat)}
			}
		}
		return b
	case KRecurse:
		*feat |= FRecurse
		b := Block{Kind: KRecurse, Target: Target{Kind: TgtSelf}}
		ops := activeOf([]byte{CALL, CALL, CALLCODE, DELEGATECALL, STATICCALL}, g.Fork)
		b.Op = ops[Uniform(t, "recurse-op", len(ops))]
		markCall(feat, b.Op)
		return b
	case KRaw:
		*feat |= FRaw
		return Block{Kind: KRaw, Raw: rapid.SliceOfN(rapid.Byte(), 1, 6).Draw(t, "raw")}
	}
	return Block{Kind: KArith, Op: ADD, Vals: [][]byte{{1}, {2}}}
}

func markCall(feat *Feature, op byte) {
	switch op {
	case CALL:
		*feat |= FCall
	case CALLCODE:
		*feat |= FCallCode
	case DELEGATECALL:
		*feat |= FDelegateCall
	case STATICCALL:
		*feat |= FStaticCall
	case CREATE:
		*feat |= FCreate
	case CREATE2:
		*feat |= FCreate2
	}
}

func (g *GenConfig) genMem(t *rapid.T, feat *Feature) Block {
	ops := activeOf([]byte{MLOAD, MSTORE, MSTORE, MSTORE8, KECCAK256, CALLDATACOPY, CODECOPY, EXTCODECOPY, MCOPY}, g.Fork)
	b := Block{Kind: KMem, Op: ops[Uniform(t, "mem-op", len(ops))]}
	switch b.Op {
	case MLOAD:
		b.Vals = [][]byte{g.drawOff(t, "off", feat)}
		b.Sink, b.SOff = g.drawSink(t)
	case MSTORE, MSTORE8:
		b.Vals = [][]byte{g.drawOff(t, "off", feat), DrawWord(t, "val")}
	case KECCAK256:
		b.Vals = [][]byte{g.drawOff(t, "off", feat), g.drawLen(t, "len", feat)}
		b.Sink, b.SOff = g.drawSink(t)
	case CALLDATACOPY, CODECOPY, MCOPY:
		b.Vals = [][]byte{g.drawOff(t, "dst", feat), g.drawOff(t, "src", feat), g.drawLen(t, "len", feat)}
		if b.Op != MCOPY && rapid.Bool().Draw(t, "hostile-src") {
			b.Vals[1] = DrawWord(t, "src") // source offsets are not memory: any word is cheap
		}
	case EXTCODECOPY:
		b.Target = g.drawTarget(t, "acct", false)
		b.Vals = [][]byte{g.drawOff(t, "dst", feat), DrawWord(t, "src"), g.drawLen(t, "len", feat)}
	}
	if b.Sink == SinkSStore {
		*feat |= FSStore
	}
	return b
}

// Call gas classes.
const (
	GasZero    = iota // PUSH 0
	GasStipend        // 2300
	GasSmall          // drawn 100..60000
	GasAll            // 2^256-1 (capped by 63/64 from Tangerine on; fails before)
	GasU64Max         // 2^64-1
	GasOver64         // 2^64 (does not fit uint64)
	GasOpcode         // GAS (non-monotone)
)

func (g *GenConfig) genCall(t *rapid.T, feat *Feature) Block {
	ops := activeOf([]byte{CALL, CALL, CALL, CALLCODE, DELEGATECALL, STATICCALL, STATICCALL}, g.Fork)
	if g.EffectBias {
		ops = activeOf([]byte{CALL, CALL, CALLCODE, DELEGATECALL, DELEGATECALL, STATICCALL, STATICCALL, STATICCALL}, g.Fork)
	}
	b := Block{Kind: KCall, Op: ops[Uniform(t, "call-op", len(ops))]}
	markCall(feat, b.Op)
	b.Target = g.drawTarget(t, "call-target", true)
	if b.Target.Kind == TgtPrecompile {
		*feat |= FPrecompile
	}
	gw := []int{1, 2, 3, 6, 1, 1, 2}
	if g.Monotone {
		gw[GasOpcode] = 0
	}
	if g.Bounded && b.Target.Kind == TgtPrecompile {
		gw = []int{1, 2, 3, 0, 0, 0, 0}
	}
	b.Variant = pick(t, "call-gas", gw)
	if b.Variant == GasOpcode {
		*feat |= FGasOp
	}
	gas := []byte{}
	switch b.Variant {
	case GasStipend:
		gas = u64(2300)
	case GasSmall:
		gas = u64(uint64(100 + Uniform(t, "gas", 60000-100+1)))
	case GasAll:
		gas = ones(32)
	case GasU64Max:
		gas = ones(8)
	case GasOver64:
		gas = pow2(64)
	}
	var value []byte
	if b.Op == CALL || b.Op == CALLCODE {
		vw := []int{6, 3, 1, 1}
		if g.EffectBias {
			vw = []int{3, 5, 1, 1}
		}
		switch pick(t, "call-value", vw) {
		case 1:
			value = []byte{1}
		case 2:
			value = ones(32)
		case 3:
			value = u64(uint64(2 + Uniform(t, "value", 1000-2+1)))
		}
		if len(value) > 0 {
			*feat |= FValueCall
		}
	}
	// Vals: gas, value, inOff, inLen, outOff, outLen
	b.Vals = [][]byte{gas, value, g.drawOff(t, "in-off", feat), g.drawLen(t, "in-len", feat),
		g.drawOff(t, "out-off", feat), g.drawLen(t, "out-len", feat)}
	b.FillIn = rapid.Bool().Draw(t, "fill-in")
	b.Sink, b.SOff = g.drawSink(t)
	if b.Sink == SinkSStore {
		*feat |= FSStore
	}
	if !g.Monotone && pick(t, "branch", []int{3, 1}) == 1 {
		b.Branch = true
		e := g.genTerm(t, feat, true)
		b.Exit = &e // taken when the call failed
	}
	return b
}

func (g *GenConfig) genCreate(t *rapid.T, feat *Feature) Block {
	ops := activeOf([]byte{CREATE, CREATE2}, g.Fork)
	b := Block{Kind: KCreate, Op: ops[Uniform(t, "create-op", len(ops))]}
	markCall(feat, b.Op)
	var value []byte
	switch pick(t, "create-value", []int{6, 3, 1}) {
	case 1:
		value = []byte{1}
	case 2:
		value = ones(32)
	}
	if len(value) > 0 {
		*feat |= FValueCall
	}
	salt := [][]byte{{}, {1}, DrawWord(t, "salt")}[Uniform(t, "salt-class", 2+1)]
	b.Vals = [][]byte{value, salt}
	iw := []int{4, 3, 2, 1, 1, 1, 1}
	if g.CreateDepth <= 0 || g.size > 8000 {
		iw[0], iw[1] = 0, 0
	}
	if g.Bounded || g.Monotone {
		iw[2] = 0
	}
	b.Variant = pick(t, "init-kind", iw)
	switch b.Variant {
	case 0, 1: // generated child: deployed runtime (0) or run as initcode (1)
		sub := *g
		sub.CreateDepth = g.CreateDepth - 1
		sub.MaxBlocks = 4
		sub.MaxNest = 1
		sub.Self = -1
		sub.AsInit = b.Variant == 1
		sub.size = 0
		b.Init = drawProgram(t, &sub)
		b.InitWrap = b.Variant == 0
		*feat |= b.Init.Features
		g.size += sub.size + 100
	case 2:
		*feat |= FRaw
		b.InitRaw = rapid.SliceOfN(rapid.Byte(), 1, 40).Draw(t, "init-raw")
	case 3:
		b.InitRaw = nil // empty initcode
	case 4: // initcode returning 0xEF-prefixed code: PUSH1 0xef PUSH1 0 MSTORE8 PUSH1 1 PUSH1 0 RETURN
		b.InitRaw = []byte{PUSH1, 0xef, PUSH1, 0, MSTORE8, PUSH1, 1, PUSH1, 0, RETURN}
	case 5: // initcode returning code one byte above the size limit (24577 resp. 65537 bytes)
		n := 24577
		if g.Fork >= Amsterdam {
			n = 65537
		}
		b.InitRaw = []byte{PUSH1 + 2, byte(n >> 16), byte(n >> 8), byte(n), PUSH1, 0, RETURN}
	case 6: // initcode size one above the EIP-3860 limit, taken from zero memory
		b.N = 49153
		if g.Fork >= Amsterdam {
			b.N = 131073
		}
	}
	b.Sink, b.SOff = g.drawSink(t)
	if b.Sink == SinkSStore {
		*feat |= FSStore
	}
	if !g.Monotone && pick(t, "branch", []int{4, 1}) == 1 {
		b.Branch = true
		e := g.genTerm(t, feat, true)
		b.Exit = &e
	}
	return b
}

func (g *GenConfig) genStack(t *rapid.T, feat *Feature) Block {
	b := Block{Kind: KStack}
	w := []int{4, 4, 0, 0, 0}
	if Active(DUPN, g.Fork) {
		w = []int{3, 3, 2, 2, 2}
	}
	switch pick(t, "stack-op", w) {
	case 0:
		n := 1 + Uniform(t, "n", 16-1+1)
		b.Op, b.N = DUP1+byte(n-1), uint64(n)
	case 1:
		n := 1 + Uniform(t, "n", 16-1+1)
		b.Op, b.N = SWAP1+byte(n-1), uint64(n+1)
	case 2:
		b.Op = DUPN
		b.Imm = drawImm(t, feat, 90)
		b.N = uint64((int(b.Imm) + 145) % 256)
	case 3:
		b.Op = SWAPN
		b.Imm = drawImm(t, feat, 90)
		b.N = uint64((int(b.Imm)+145)%256 + 1)
	default:
		b.Op = EXCHANGE
		b.Imm = drawImm(t, feat, 81)
		n, m := DecodePair(b.Imm)
		if m > n {
			n = m
		}
		b.N = uint64(n + 1)
	}
	g.size += int(b.N) * 2
	return b
}

// drawImm draws an EIP-8024 immediate; values in (lastLow, 128) are forbidden and
// drawn rarely on purpose (class "badimm": the instruction is then invalid).
func drawImm(t *rapid.T, feat *Feature, lastLow int) byte {
	if pick(t, "imm-class", []int{5, 1}) == 1 {
		*feat |= FBadImm
		return byte(lastLow + 1 + Uniform(t, "imm", 127-lastLow))
	}
	v := Uniform(t, "imm", lastLow+129)
	if v > lastLow {
		v += 127 - lastLow
	}
	return byte(v)
}

// DecodePair is the EIP-8024 EXCHANGE immediate decoding (n, m).
func DecodePair(x byte) (int, int) {
	k := int(x ^ 143)
	q, r := k/16, k%16
	if q < r {
		return q + 1, r + 1
	}
	return r + 1, 29 - q
}

// genTerm draws a terminator. early = inside a branch (only cheap, definite exits).
func (g *GenConfig) genTerm(t *rapid.T, feat *Feature, early bool) Block {
	kinds := []Kind{TStop, TReturn, TRevert, TInvalid, TSelfDestruct, TOOGLoop, TBadJump, TUnderflow, TOverflow, TFallOff, TRawTail, KInactive}
	w := []int{12, 30, 12, 5, 5, 5, 5, 4, 3, 8, 8, 3}
	if g.AsInit {
		w[1] = 80
	}
	if g.EffectBias {
		w = []int{10, 15, 20, 10, 8, 6, 6, 6, 3, 6, 2, 3}
	}
	if early {
		w = []int{3, 3, 4, 2, 1, 0, 1, 1, 0, 0, 0, 1}
	}
	if g.Bounded {
		w[5], w[10] = 0, 0
	}
	if g.Monotone {
		w[10] = 0
	}
	if !Active(REVERT, g.Fork) {
		w[2] = 0
	}
	for i, k := range kinds {
		if !g.enabled(k) {
			w[i] = 0
		}
	}
	k := kinds[pick(t, "term-kind", w)]
	b := Block{Kind: k}
	switch k {
	case TReturn, TRevert:
		b.Vals = [][]byte{g.drawOff(t, "ret-off", feat), g.drawLen(t, "ret-len", feat)}
	case TSelfDestruct:
		*feat |= FSelfDestruct
		b.Target = g.drawTarget(t, "beneficiary", false)
	case TOOGLoop:
		b.Variant = Uniform(t, "oog-variant", 2+1)
	case TBadJump:
		b.Variant = Uniform(t, "badjump-variant", 4+1)
	case TRawTail:
		*feat |= FRaw
		b.Raw = DrawRaw(t, g.Fork, 48)
	case KInactive:
		*feat |= FInactive
		in := InactiveOps(g.Fork)
		b.Raw = []byte{in[Uniform(t, "inactive-op", len(in))]}
	}
	return b
}

// DrawRaw draws up to max bytes of unstructured code: either uniformly random
// bytes or an "opcode soup" of active opcodes with pushed hostile constants whose
// JUMP/JUMPI operands point at real JUMPDESTs.
func DrawRaw(t *rapid.T, f Fork, max int) []byte {
	if max < 1 {
		max = 1
	}
	if rapid.Bool().Draw(t, "raw-uniform") {
		return rapid.SliceOfN(rapid.Byte(), 1, max).Draw(t, "raw-bytes")
	}
	n := 1 + Uniform(t, "soup-n", max-1+1)
	ops := ActiveOps(f)
	a := NewAsm(f >= Shanghai)
	a.Unchecked = true
	var labels []Label
	nl := 1 + Uniform(t, "soup-labels", 4-1+1)
	for i := 0; i < nl; i++ {
		labels = append(labels, a.NewLabel())
	}
	bound := 0
	for i := 0; i < n && a.Len() < 3*max; i++ {
		switch pick(t, "soup-item", []int{5, 8, 2, 2}) {
		case 0:
			a.Push(DrawWord(t, "soup-word"))
		case 1:
			op := ops[Uniform(t, "soup-op", len(ops))]
			if im := Info(op).Imm; im > 0 {
				a.Raw(op)
				a.Raw(rapid.SliceOfN(rapid.Byte(), im, im).Draw(t, "soup-imm")...)
			} else {
				a.Raw(op)
			}
		case 2:
			if bound < len(labels) {
				a.Bind(labels[bound])
				bound++
			} else {
				a.Op(JUMPDEST)
			}
		default:
			l := labels[Uniform(t, "soup-target", len(labels))]
			if rapid.Bool().Draw(t, "soup-jumpi") {
				a.Push(DrawWord(t, "soup-cond")).PushLabel(l).Raw(JUMPI)
			} else {
				a.PushLabel(l).Raw(JUMP)
			}
		}
	}
	for ; bound < len(labels); bound++ {
		a.Bind(labels[bound])
	}
	code, _ := a.Bytes()
	return code
}

// DrawProgram draws one program under g. The result is not yet assembled.
func DrawProgram(t *rapid.T, g *GenConfig) *Program {
	cp := *g
	cp.defaults()
	cp.callFloor = cp.Self + 1
	if cp.Self < 0 {
		cp.callFloor = len(cp.Contracts) // standalone bounded code calls no generated contract
	}
	return drawProgram(t, &cp)
}

func drawProgram(t *rapid.T, g *GenConfig) *Program {
	g.defaults()
	p := &Program{Fork: g.Fork, Monotone: g.Monotone, Bounded: g.Bounded}
	var feat Feature
	recurse := false
	if g.Bounded && g.Self == 0 && g.enabled(KRecurse) && pick(t, "bounded-recurse", []int{5, 1}) == 1 {
		// Linear self-recursion to the depth limit: this contract then calls nothing else.
		recurse = true
		g.noContractCalls = true
	}
	p.Blocks = g.genBlocks(t, &feat, 0, g.MaxBlocks)
	if recurse {
		feat |= FRecurse
		b := Block{Kind: KRecurse, Target: Target{Kind: TgtSelf}}
		ops := activeOf([]byte{CALL, CALLCODE, DELEGATECALL, STATICCALL}, g.Fork)
		b.Op = ops[Uniform(t, "recurse-op", len(ops))]
		markCall(&feat, b.Op)
		at := Uniform(t, "recurse-at", len(p.Blocks)+1)
		p.Blocks = append(p.Blocks[:at], append([]Block{b}, p.Blocks[at:]...)...)
	}
	p.Term = g.genTerm(t, &feat, false)
	p.Features = feat
	if feat&(FRaw|FGasOp) != 0 {
		p.Monotone = false
	}
	return p
}

// Describe renders a compact one-line summary (kinds of the top-level blocks,
// terminator, features) for evidence samples.
func (p *Program) Describe() string {
	var ks []string
	for _, b := range p.Blocks {
		ks = append(ks, b.Kind.String())
	}
	return fmt.Sprintf("%s[%s]->%s{%s}", p.Fork, strings.Join(ks, ","), p.Term.Kind, p.Features)
}

// KindCounts counts block kinds recursively (for class histograms).
func (p *Program) KindCounts() map[string]int {
	out := map[string]int{}
	var walk func(bs []Block)
	walk = func(bs []Block) {
		for i := range bs {
			b := &bs[i]
			out[b.Kind.String()]++
			if b.Cond != nil {
				out[b.Cond.Kind.String()]++
			}
			walk(b.Body)
			walk(b.Else)
			if b.Exit != nil {
				out[b.Exit.Kind.String()]++
			}
			if b.Init != nil {
				for k, v := range b.Init.KindCounts() {
					out["init."+k] += v
				}
			}
		}
	}
	walk(p.Blocks)
	out[p.Term.Kind.String()]++
	return out
}

// SortedKinds returns the keys of KindCounts in order (map iteration is random).
func SortedKinds(m map[string]int) []string {
	ks := make([]string, 0, len(m))
	for k := range m {
		ks = append(ks, k)
	}
	sort.Strings(ks)
	return ks
}
