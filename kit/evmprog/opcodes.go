package evmprog

// Fork identifies an EVM rule set. The order is chronological, so "active since"
// comparisons are plain integer comparisons.
type Fork int

const (
	Frontier Fork = iota
	Homestead
	Tangerine // EIP-150
	Spurious  // EIP-155/158
	Byzantium
	Constantinople
	Petersburg
	Istanbul
	Berlin
	London
	Merge // Paris
	Shanghai
	Cancun
	Prague
	Osaka
	Amsterdam
	numForks
)

// AllForks lists every supported fork in chronological order.
var AllForks = []Fork{Frontier, Homestead, Tangerine, Spurious, Byzantium, Constantinople, Petersburg,
	Istanbul, Berlin, London, Merge, Shanghai, Cancun, Prague, Osaka, Amsterdam}

var forkNames = [...]string{"Frontier", "Homestead", "Tangerine", "Spurious", "Byzantium", "Constantinople",
	"Petersburg", "Istanbul", "Berlin", "London", "Merge", "Shanghai", "Cancun", "Prague", "Osaka", "Amsterdam"}

func (f Fork) String() string {
	if f < 0 || int(f) >= len(forkNames) {
		return "Fork?"
	}
	return forkNames[f]
}

// Opcode byte values (Yellow Paper / EIP numbering).
const (
	STOP       byte = 0x00
	ADD        byte = 0x01
	MUL        byte = 0x02
	SUB        byte = 0x03
	DIV        byte = 0x04
	SDIV       byte = 0x05
	MOD        byte = 0x06
	SMOD       byte = 0x07
	ADDMOD     byte = 0x08
	MULMOD     byte = 0x09
	EXP        byte = 0x0a
	SIGNEXTEND byte = 0x0b

	LT     byte = 0x10
	GT     byte = 0x11
	SLT    byte = 0x12
	SGT    byte = 0x13
	EQ     byte = 0x14
	ISZERO byte = 0x15
	AND    byte = 0x16
	OR     byte = 0x17
	XOR    byte = 0x18
	NOT    byte = 0x19
	BYTE   byte = 0x1a
	SHL    byte = 0x1b
	SHR    byte = 0x1c
	SAR    byte = 0x1d
	CLZ    byte = 0x1e

	KECCAK256 byte = 0x20

	ADDRESS        byte = 0x30
	BALANCE        byte = 0x31
	ORIGIN         byte = 0x32
	CALLER         byte = 0x33
	CALLVALUE      byte = 0x34
	CALLDATALOAD   byte = 0x35
	CALLDATASIZE   byte = 0x36
	CALLDATACOPY   byte = 0x37
	CODESIZE       byte = 0x38
	CODECOPY       byte = 0x39
	GASPRICE       byte = 0x3a
	EXTCODESIZE    byte = 0x3b
	EXTCODECOPY    byte = 0x3c
	RETURNDATASIZE byte = 0x3d
	RETURNDATACOPY byte = 0x3e
	EXTCODEHASH    byte = 0x3f

	BLOCKHASH   byte = 0x40
	COINBASE    byte = 0x41
	TIMESTAMP   byte = 0x42
	NUMBER      byte = 0x43
	DIFFICULTY  byte = 0x44 // PREVRANDAO from the Merge on
	GASLIMIT    byte = 0x45
	CHAINID     byte = 0x46
	SELFBALANCE byte = 0x47
	BASEFEE     byte = 0x48
	BLOBHASH    byte = 0x49
	BLOBBASEFEE byte = 0x4a
	SLOTNUM     byte = 0x4b

	POP      byte = 0x50
	MLOAD    byte = 0x51
	MSTORE   byte = 0x52
	MSTORE8  byte = 0x53
	SLOAD    byte = 0x54
	SSTORE   byte = 0x55
	JUMP     byte = 0x56
	JUMPI    byte = 0x57
	PC       byte = 0x58
	MSIZE    byte = 0x59
	GAS      byte = 0x5a
	JUMPDEST byte = 0x5b
	TLOAD    byte = 0x5c
	TSTORE   byte = 0x5d
	MCOPY    byte = 0x5e
	PUSH0    byte = 0x5f
	PUSH1    byte = 0x60
	PUSH2    byte = 0x61
	PUSH32   byte = 0x7f
	DUP1     byte = 0x80
	DUP16    byte = 0x8f
	SWAP1    byte = 0x90
	SWAP16   byte = 0x9f
	LOG0     byte = 0xa0
	LOG4     byte = 0xa4

	DUPN     byte = 0xe6
	SWAPN    byte = 0xe7
	EXCHANGE byte = 0xe8

	CREATE       byte = 0xf0
	CALL         byte = 0xf1
	CALLCODE     byte = 0xf2
	RETURN       byte = 0xf3
	DELEGATECALL byte = 0xf4
	CREATE2      byte = 0xf5
	STATICCALL   byte = 0xfa
	REVERT       byte = 0xfd
	INVALID      byte = 0xfe
	SELFDESTRUCT byte = 0xff
)

// OpInfo is the static description of one opcode.
type OpInfo struct {
	Name   string
	Pops   int  // stack items consumed
	Pushes int  // stack items produced
	Since  Fork // first fork in which the opcode is defined
	Imm    int  // number of immediate bytes following the opcode
	Valid  bool // false for bytes that are not an opcode in any supported fork
}

var opTable [256]OpInfo

func def(op byte, name string, pops, pushes int, since Fork) {
	opTable[op] = OpInfo{Name: name, Pops: pops, Pushes: pushes, Since: since, Valid: true}
}

func init() {
	def(STOP, "STOP", 0, 0, Frontier)
	def(ADD, "ADD", 2, 1, Frontier)
	def(MUL, "MUL", 2, 1, Frontier)
	def(SUB, "SUB", 2, 1, Frontier)
	def(DIV, "DIV", 2, 1, Frontier)
	def(SDIV, "SDIV", 2, 1, Frontier)
	def(MOD, "MOD", 2, 1, Frontier)
	def(SMOD, "SMOD", 2, 1, Frontier)
	def(ADDMOD, "ADDMOD", 3, 1, Frontier)
	def(MULMOD, "MULMOD", 3, 1, Frontier)
	def(EXP, "EXP", 2, 1, Frontier)
	def(SIGNEXTEND, "SIGNEXTEND", 2, 1, Frontier)
	def(LT, "LT", 2, 1, Frontier)
	def(GT, "GT", 2, 1, Frontier)
	def(SLT, "SLT", 2, 1, Frontier)
	def(SGT, "SGT", 2, 1, Frontier)
	def(EQ, "EQ", 2, 1, Frontier)
	def(ISZERO, "ISZERO", 1, 1, Frontier)
	def(AND, "AND", 2, 1, Frontier)
	def(OR, "OR", 2, 1, Frontier)
	def(XOR, "XOR", 2, 1, Frontier)
	def(NOT, "NOT", 1, 1, Frontier)
	def(BYTE, "BYTE", 2, 1, Frontier)
	def(SHL, "SHL", 2, 1, Constantinople)
	def(SHR, "SHR", 2, 1, Constantinople)
	def(SAR, "SAR", 2, 1, Constantinople)
	def(CLZ, "CLZ", 1, 1, Osaka)
	def(KECCAK256, "KECCAK256", 2, 1, Frontier)
	def(ADDRESS, "ADDRESS", 0, 1, Frontier)
	def(BALANCE, "BALANCE", 1, 1, Frontier)
	def(ORIGIN, "ORIGIN", 0, 1, Frontier)
	def(CALLER, "CALLER", 0, 1, Frontier)
	def(CALLVALUE, "CALLVALUE", 0, 1, Frontier)
	def(CALLDATALOAD, "CALLDATALOAD", 1, 1, Frontier)
	def(CALLDATASIZE, "CALLDATASIZE", 0, 1, Frontier)
	def(CALLDATACOPY, "CALLDATACOPY", 3, 0, Frontier)
	def(CODESIZE, "CODESIZE", 0, 1, Frontier)
	def(CODECOPY, "CODECOPY", 3, 0, Frontier)
	def(GASPRICE, "GASPRICE", 0, 1, Frontier)
	def(EXTCODESIZE, "EXTCODESIZE", 1, 1, Frontier)
	def(EXTCODECOPY, "EXTCODECOPY", 4, 0, Frontier)
	def(RETURNDATASIZE, "RETURNDATASIZE", 0, 1, Byzantium)
	def(RETURNDATACOPY, "RETURNDATACOPY", 3, 0, Byzantium)
	def(EXTCODEHASH, "EXTCODEHASH", 1, 1, Constantinople)
	def(BLOCKHASH, "BLOCKHASH", 1, 1, Frontier)
	def(COINBASE, "COINBASE", 0, 1, Frontier)
	def(TIMESTAMP, "TIMESTAMP", 0, 1, Frontier)
	def(NUMBER, "NUMBER", 0, 1, Frontier)
	def(DIFFICULTY, "DIFFICULTY", 0, 1, Frontier)
	def(GASLIMIT, "GASLIMIT", 0, 1, Frontier)
	def(CHAINID, "CHAINID", 0, 1, Istanbul)
	def(SELFBALANCE, "SELFBALANCE", 0, 1, Istanbul)
	def(BASEFEE, "BASEFEE", 0, 1, London)
	def(BLOBHASH, "BLOBHASH", 1, 1, Cancun)
	def(BLOBBASEFEE, "BLOBBASEFEE", 0, 1, Cancun)
	def(SLOTNUM, "SLOTNUM", 0, 1, Amsterdam)
	def(POP, "POP", 1, 0, Frontier)
	def(MLOAD, "MLOAD", 1, 1, Frontier)
	def(MSTORE, "MSTORE", 2, 0, Frontier)
	def(MSTORE8, "MSTORE8", 2, 0, Frontier)
	def(SLOAD, "SLOAD", 1, 1, Frontier)
	def(SSTORE, "SSTORE", 2, 0, Frontier)
	def(JUMP, "JUMP", 1, 0, Frontier)
	def(JUMPI, "JUMPI", 2, 0, Frontier)
	def(PC, "PC", 0, 1, Frontier)
	def(MSIZE, "MSIZE", 0, 1, Frontier)
	def(GAS, "GAS", 0, 1, Frontier)
	def(JUMPDEST, "JUMPDEST", 0, 0, Frontier)
	def(TLOAD, "TLOAD", 1, 1, Cancun)
	def(TSTORE, "TSTORE", 2, 0, Cancun)
	def(MCOPY, "MCOPY", 3, 0, Cancun)
	def(PUSH0, "PUSH0", 0, 1, Shanghai)
	for i := 0; i < 32; i++ {
		op := PUSH1 + byte(i)
		def(op, "PUSH"+itoa(i+1), 0, 1, Frontier)
		opTable[op].Imm = i + 1
	}
	for i := 0; i < 16; i++ {
		def(DUP1+byte(i), "DUP"+itoa(i+1), i+1, i+2, Frontier)
		def(SWAP1+byte(i), "SWAP"+itoa(i+1), i+2, i+2, Frontier)
	}
	for i := 0; i <= 4; i++ {
		def(LOG0+byte(i), "LOG"+itoa(i), i+2, 0, Frontier)
	}
	// EIP-8024: one immediate byte; the stack requirement depends on the immediate,
	// Pops/Pushes below are the minimum the interpreter checks statically.
	def(DUPN, "DUPN", 1, 2, Amsterdam)
	opTable[DUPN].Imm = 1
	def(SWAPN, "SWAPN", 2, 2, Amsterdam)
	opTable[SWAPN].Imm = 1
	def(EXCHANGE, "EXCHANGE", 2, 2, Amsterdam)
	opTable[EXCHANGE].Imm = 1
	def(CREATE, "CREATE", 3, 1, Frontier)
	def(CALL, "CALL", 7, 1, Frontier)
	def(CALLCODE, "CALLCODE", 7, 1, Frontier)
	def(RETURN, "RETURN", 2, 0, Frontier)
	def(DELEGATECALL, "DELEGATECALL", 6, 1, Homestead)
	def(CREATE2, "CREATE2", 4, 1, Constantinople)
	def(STATICCALL, "STATICCALL", 6, 1, Byzantium)
	def(REVERT, "REVERT", 2, 0, Byzantium)
	def(INVALID, "INVALID", 0, 0, Frontier)
	opTable[INVALID].Valid = false // designated invalid instruction: never "active"
	def(SELFDESTRUCT, "SELFDESTRUCT", 1, 0, Frontier)
}

func itoa(n int) string {
	if n == 0 {
		return "0"
	}
	var b [4]byte
	i := len(b)
	for n > 0 {
		i--
		b[i] = byte('0' + n%10)
		n /= 10
	}
	return string(b[i:])
}

// Info returns the static description of an opcode byte.
func Info(op byte) OpInfo { return opTable[op] }

// OpName returns the mnemonic ("0x.." for undefined bytes).
func OpName(op byte) string {
	if opTable[op].Name != "" {
		return opTable[op].Name
	}
	const hex = "0123456789abcdef"
	return "0x" + string([]byte{hex[op>>4], hex[op&15]})
}

// Active reports whether op is a defined instruction under fork f. INVALID (0xfe)
// and unassigned bytes are never active.
func Active(op byte, f Fork) bool {
	i := opTable[op]
	return i.Valid && f >= i.Since
}

// ActiveOps returns all opcodes active under f, ascending.
func ActiveOps(f Fork) []byte {
	var out []byte
	for i := 0; i < 256; i++ {
		if Active(byte(i), f) {
			out = append(out, byte(i))
		}
	}
	return out
}

// InactiveOps returns all byte values that are not an instruction under f
// (unassigned bytes, 0xfe, and opcodes introduced by later forks), ascending.
func InactiveOps(f Fork) []byte {
	var out []byte
	for i := 0; i < 256; i++ {
		if !Active(byte(i), f) {
			out = append(out, byte(i))
		}
	}
	return out
}

// ValidJumpdests scans code the way the Yellow Paper defines it (skipping PUSHn
// immediates; DUPN/SWAPN/EXCHANGE immediates are NOT skipped, as in EIP-8024) and
// returns the set of valid JUMPDEST positions.
func ValidJumpdests(code []byte) map[int]bool {
	out := map[int]bool{}
	for pc := 0; pc < len(code); pc++ {
		op := code[pc]
		if op == JUMPDEST {
			out[pc] = true
		} else if op >= PUSH1 && op <= PUSH32 {
			pc += int(op-PUSH1) + 1
		}
	}
	return out
}
