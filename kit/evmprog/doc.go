// Package evmprog generates EVM bytecode for property-based tests. It is pure Go
// (stdlib + rapid), knows opcodes only as byte constants and imports nothing from
// go-ethereum, so the same programs can drive geth, a reference interpreter, or
// both.
//
// # Layers
//
//   - opcodes.go: opcode constants (ADD, CALL, ...), the per-opcode table Info(op)
//     (name, pops, pushes, first fork, immediate bytes), fork gating Active(op,
//     fork) / ActiveOps / InactiveOps, and ValidJumpdests(code) (Yellow Paper scan).
//     Forks are Frontier..Amsterdam (type Fork, AllForks); Amsterdam adds SLOTNUM and
//     the EIP-8024 DUPN/SWAPN/EXCHANGE, Osaka CLZ, Cancun TLOAD/TSTORE/MCOPY/
//     BLOBHASH/BLOBBASEFEE, Shanghai PUSH0, and so on back to Homestead's
//     DELEGATECALL.
//
//   - asm.go: Asm, a two-pass assembler. Op/Push/PushU/PushN/PushAddr emit
//     instructions and track the static stack depth (an under/overflow in structured
//     code is an assembly error unless Unchecked); NewLabel/Bind/Mark/PushLabel/
//     Jump/Jumpi give labels resolved to PUSH2 immediates with JUMPDESTs placed by
//     Bind, so every structured jump is valid; Loop(n, body) and IfElse(then, else)
//     are the structured forms; Data(bytes) appends a data segment behind an INVALID
//     guard and returns start/end labels (PushDistance gives its length) - used to
//     carry initcode for CREATE; Deployer(runtime) builds standard initcode; Disasm
//     renders code for failure reports. Hand-written probe programs for a property
//     should be built with Asm too.
//
//   - gen.go / emit.go: the program generator. A Program is a list of Blocks plus
//     one terminator, drawn by DrawProgram(t, &GenConfig{...}) and rendered by
//     (*Program).Assemble(). Block kinds (type Kind): KArith (every arithmetic/
//     comparison/bitwise/shift op over the HostileWords pool: 0, 1, 2^k-1, 2^k,
//     2^255, 2^256-1, ...), KEnv (ADDRESS..SLOTNUM, BALANCE/EXTCODESIZE/EXTCODEHASH of
//     a target, BLOCKHASH/BLOBHASH/CALLDATALOAD of a hostile word), KMem (MLOAD/
//     MSTORE/MSTORE8/KECCAK256/CALLDATACOPY/CODECOPY/EXTCODECOPY/MCOPY at offsets
//     {0,1,31,32,33,..,4096, 64K..1M, 2^32, 2^38.., 2^64-1, 2^64, 2^255, 2^256-1}),
//     KStore (SSTORE/SLOAD/TSTORE/TLOAD over 4 slots and values {0,1,2,word} so
//     that 0->a->0->b patterns arise), KLog, KLoop (counter <= 8), KIf (condition
//     from KArith/KEnv/SLOAD, optional early terminator in the then-branch), KCall
//     (CALL/CALLCODE/DELEGATECALL/STATICCALL to another generated contract, a
//     precompile, an EOA, a missing account, self, or an arbitrary word; gas classes
//     0 / 2300 / small / all / 2^64-1 / 2^64 / GAS; values 0 / 1 / small / 2^256-1;
//     input optionally filled from calldata; optional branch on the success flag),
//     KCreate (CREATE/CREATE2 whose initcode is a Deployer of a generated program, a
//     generated program run as initcode, raw bytes, empty, 0xEF-returning,
//     oversized-code-returning, or oversized initcode), KStack (DUPn/SWAPn and the
//     EIP-8024 forms incl. forbidden immediates), KDeep (fill the stack to 1007..1024
//     and execute one op at the boundary), KReturnData (incl. out-of-bounds copies),
//     KRecurse (self-call with all gas), KRaw (inline random bytes). Terminators:
//     TStop, TReturn, TRevert, TInvalid, TSelfDestruct (to self/contract/EOA/missing/
//     precompile/word), TOOGLoop (plain and memory-growing), TBadJump (push data,
//     beyond code, 2^64, 2^256-1, JUMPI), TUnderflow, TOverflow, TFallOff, TRawTail
//     (DrawRaw: uniform bytes or an opcode soup with valid jump targets), KInactive
//     (one byte that is not an instruction under the fork). Value-producing blocks
//     end in a Sink: POP, MSTORE into scratch words 0x00..0x60 (so results show up in
//     RETURN data), or SSTORE into slot 3.
//
//   - world.go: DrawWorld(t, WorldConfig) draws 1..4 contracts at ContractAddr(i)
//     that call each other, plus DefaultOthers() (precompiles 0x01..0x11, 0x0100,
//     EOAAddr, MissingAddr). Contracts[0] is the entry point. The harness installs
//     Contract.Code at Contract.Addr, funds EOAAddr (and the contracts, if value
//     transfers should succeed) and leaves MissingAddr absent.
//
// # Guarantees and flags
//
// Without FRaw the rendered program is stack-valid along every path up to its
// terminator (Assemble fails otherwise: a harness bug), and all jumps land on
// JUMPDESTs, except where a block is labelled as a deliberate fault (TBadJump,
// TUnderflow, TOverflow, KDeep at the boundary, FBadImm, KInactive).
// Program.Features (type Feature) records what the program contains, recursively
// through initcode; use it for class histograms and non-triviality rules.
//
// GenConfig.Monotone: no GAS opcode, no branch on a call/create result, no
// out-of-bounds RETURNDATACOPY, no raw bytes (Program.Monotone reports the outcome).
//
// GenConfig.Bounded: the world terminates in bounded work whatever the gas limit:
// loops <= 3 iterations, no TOOGLoop/raw bytes, calls only to higher-numbered
// contracts (contract 0 may instead recurse linearly into itself down to the depth
// limit and then calls no other contract), precompiles get <= 60000 gas, and memory
// offsets are <= 4096 or >= 2^38 (the latter always fail). Programs drawn WITHOUT
// Bounded must be run with a gas limit of at most about 2^25: they may touch 1 MiB of
// memory, spin until out of gas, or call MODEXP/BLAKE2F with all their gas.
//
// GenConfig.EffectBias shifts weight to state-changing blocks (C29);
// GenConfig.Disable removes kinds; GenConfig.AsInit biases towards RETURN.
//
// # Determinism and distribution
//
// All randomness comes from the *rapid.T passed in; nothing depends on map order
// or time. Choices among alternatives use Uniform(t, label, n), which is built from
// unbiased Bool draws: rapid's own IntRange/SampledFrom are deliberately skewed
// towards small values (about a third of IntRange(0,99) draws are < 4), which is
// the wrong distribution for picking a fork, an opcode or a block kind. Harnesses
// should use Uniform for their own percentage/alternative draws too. KindCounts returns a map: iterate it through SortedKinds.
package evmprog
