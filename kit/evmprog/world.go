package evmprog

import (
	"fmt"

	"pgregory.net/rapid"
)

// Well-known addresses used by DrawWorld. Harnesses must create EOAAddr (funded, no
// code) and must NOT create MissingAddr.
var (
	EOAAddr     = [20]byte{0xe0, 0xa0, 19: 0x01}
	MissingAddr = [20]byte{0xde, 0xad, 19: 0x01}
)

// ContractAddr is the address of generated contract i: c0de00..00<i+1>.
func ContractAddr(i int) [20]byte {
	return [20]byte{0xc0, 0xde, 18: byte((i + 1) >> 8), 19: byte(i + 1)}
}

// PrecompileAddr returns the address 0x00..<n> (n may exceed 255: 0x0100 = P256VERIFY).
func PrecompileAddr(n int) [20]byte { return [20]byte{18: byte(n >> 8), 19: byte(n)} }

// DefaultOthers returns the non-contract targets: precompiles 0x01..0x11 and 0x0100
// (whether or not active under the fork - an inactive precompile address is just an
// empty account, which is a case worth having), the EOA and the missing address.
func DefaultOthers() []Target {
	var out []Target
	for n := 1; n <= 0x11; n++ {
		out = append(out, Target{Kind: TgtPrecompile, Addr: PrecompileAddr(n)})
	}
	out = append(out, Target{Kind: TgtPrecompile, Addr: PrecompileAddr(0x100)})
	// EOA and missing get several entries so that they are drawn about as often as
	// the whole precompile family.
	for i := 0; i < 6; i++ {
		out = append(out, Target{Kind: TgtEOA, Addr: EOAAddr}, Target{Kind: TgtMissing, Addr: MissingAddr})
	}
	return out
}

// Contract is one generated contract of a World.
type Contract struct {
	Addr [20]byte
	Prog *Program
	Code []byte
}

// World is a set of generated contracts that refer to each other; Contracts[0] is
// the intended entry point.
type World struct {
	Fork      Fork
	Contracts []*Contract
	Others    []Target
	Features  Feature // union over all contracts
	Monotone  bool    // all contracts monotone
	Bounded   bool
}

// WorldConfig controls DrawWorld. Zero values select the defaults.
type WorldConfig struct {
	Fork         Fork
	MinContracts int // default 1
	MaxContracts int // default 4
	Gen          GenConfig
	// RawEntryPct is the percentage of worlds whose entry contract is unstructured
	// (DrawRaw) instead of a generated program (ignored under Bounded/Monotone).
	RawEntryPct int
}

// DrawWorld draws 1..MaxContracts contracts (programs assembled) under wc.
// Assembly errors are returned: they indicate a generator bug.
func DrawWorld(t *rapid.T, wc WorldConfig) (*World, error) {
	if wc.MinContracts <= 0 {
		wc.MinContracts = 1
	}
	if wc.MaxContracts < wc.MinContracts {
		wc.MaxContracts = wc.MinContracts + 3
	}
	n := wc.MinContracts + Uniform(t, "ncontracts", wc.MaxContracts-wc.MinContracts+1)
	w := &World{Fork: wc.Fork, Monotone: true, Bounded: wc.Gen.Bounded}
	addrs := make([][20]byte, n)
	for i := range addrs {
		addrs[i] = ContractAddr(i)
	}
	w.Others = wc.Gen.Others
	if w.Others == nil {
		w.Others = DefaultOthers()
	}
	for i := 0; i < n; i++ {
		g := wc.Gen
		g.Fork, g.Self, g.Contracts, g.Others = wc.Fork, i, addrs, w.Others
		if g.CreateDepth == 0 {
			g.CreateDepth = 2
		}
		c := &Contract{Addr: addrs[i]}
		if i == 0 && !g.Bounded && !g.Monotone && wc.RawEntryPct > 0 && Uniform(t, "raw-entry", 100) < wc.RawEntryPct {
			c.Prog = &Program{Fork: wc.Fork, Features: FRaw, Term: Block{Kind: TRawTail}}
			c.Prog.Term.Raw = DrawRaw(t, wc.Fork, 200)
			c.Prog.Code = c.Prog.Term.Raw
			c.Code = c.Prog.Code
		} else {
			c.Prog = DrawProgram(t, &g)
			code, err := c.Prog.Assemble()
			if err != nil {
				return nil, fmt.Errorf("contract %d: %w", i, err)
			}
			c.Code = code
		}
		w.Contracts = append(w.Contracts, c)
		w.Features |= c.Prog.Features
		w.Monotone = w.Monotone && c.Prog.Monotone
	}
	return w, nil
}

// Describe summarises the world in one line.
func (w *World) Describe() string {
	s := ""
	for i, c := range w.Contracts {
		if i > 0 {
			s += " | "
		}
		s += c.Prog.Describe()
	}
	return s
}
