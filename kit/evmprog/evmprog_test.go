package evmprog

import (
	"testing"

	"pgregory.net/rapid"
)

// Generator self-test: every drawn world assembles, under every fork and mode.
func TestDrawWorldAssembles(t *testing.T) {
	feats := map[string]int{}
	maxLen := 0
	rapid.Check(t, func(rt *rapid.T) {
		f := AllForks[rapid.IntRange(0, len(AllForks)-1).Draw(rt, "fork")]
		wc := WorldConfig{Fork: f, RawEntryPct: 10}
		switch rapid.IntRange(0, 3).Draw(rt, "mode") {
		case 1:
			wc.Gen.Bounded = true
		case 2:
			wc.Gen.Monotone = true
		case 3:
			wc.Gen.EffectBias = true
		}
		w, err := DrawWorld(rt, wc)
		if err != nil {
			rt.Fatalf("assemble: %v", err)
		}
		for _, c := range w.Contracts {
			if len(c.Code) > maxLen {
				maxLen = len(c.Code)
			}
			if wc.Gen.Monotone && !c.Prog.Monotone {
				rt.Fatalf("monotone requested, got %s", c.Prog.Describe())
			}
			if wc.Gen.Monotone || wc.Gen.Bounded {
				if c.Prog.Features&FRaw != 0 {
					rt.Fatalf("raw in restricted mode: %s", c.Prog.Describe())
				}
			}
		}
		for _, n := range w.Features.Names() {
			feats[n]++
		}
	})
	t.Logf("max code length %d; features %v", maxLen, feats)
}

func TestAsmBasics(t *testing.T) {
	a := NewAsm(false)
	a.PushU(3).Loop(2, func() { a.PushU(1).Op(POP) }).Op(POP).Op(STOP)
	code, err := a.Bytes()
	if err != nil {
		t.Fatal(err)
	}
	jd := ValidJumpdests(code)
	if len(jd) != 1 {
		t.Fatalf("want one jumpdest, got %v in %x", jd, code)
	}
	d := Deployer([]byte{1, 2, 3}, true)
	if string(d[len(d)-3:]) != "\x01\x02\x03" {
		t.Fatalf("deployer tail: %x", d)
	}
	b := NewAsm(false)
	b.Op(POP)
	if _, err := b.Bytes(); err == nil {
		t.Fatal("underflow not detected")
	}
}
