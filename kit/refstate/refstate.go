// Package refstate is a deliberately simple reference model of Ethereum account
// state as seen through an execution-layer state interface: accounts (nonce,
// balance, code, storage), transient storage, the EIP-2929 access list, the refund
// counter, logs, nested snapshots (deep copies), per-transaction finalisation
// (EIP-161 empty-account removal, SELFDESTRUCT, EIP-6780, the Amsterdam
// "destroyed account keeps its balance" rule) and the state root (via reftrie).
//
// It shares no code with go-ethereum. Everything is a map or a big.Int; a snapshot
// is a deep copy of the whole revertible state, so nested revert semantics cannot be
// wrong by construction. Worlds are meant to be tiny (a handful of accounts/slots).
//
// In addition it keeps the per-transaction footprint needed to predict an EIP-7928
// block access list: the accounts and slots accessed (never reverted) and the
// pre-transaction image used to compute net changes at Finalise.
package refstate

import (
	"bytes"
	"math/big"
	"sort"

	"verif.local/kit/refrlp"
	"verif.local/kit/reftrie"
)

// Addr is an account address, Word a 32-byte storage key/value/hash.
type (
	Addr [20]byte
	Word [32]byte
)

// Ripemd is the RIPEMD-160 precompile address, whose "touch" survives reverts
// (mainnet consensus exception at block 1714175).
var Ripemd = Addr{19: 3}

var two256 = new(big.Int).Lsh(big.NewInt(1), 256)

// EmptyCodeHash is keccak256 of the empty string.
var EmptyCodeHash = Word(reftrie.Keccak256(nil))

// Rules are the fork switches the account layer depends on.
type Rules struct {
	EIP158    bool // Spurious Dragon: touched empty accounts are removed at tx end
	Berlin    bool // EIP-2929/2930 access lists (reset in Prepare)
	Shanghai  bool // EIP-3651 warm coinbase
	Cancun    bool // EIP-6780 (only matters for the caller's SELFDESTRUCT guard)
	Amsterdam bool // self-destructed accounts keep their balance (balance-only account)
}

// Account is one account. Storage holds non-zero slots only.
type Account struct {
	Nonce          uint64
	Balance        *big.Int
	Code           []byte
	Storage        map[Word]Word
	SelfDestructed bool
	NewContract    bool
}

func newAccount() *Account {
	return &Account{Balance: new(big.Int), Storage: map[Word]Word{}}
}

func (a *Account) copy() *Account {
	c := &Account{Nonce: a.Nonce, Balance: new(big.Int).Set(a.Balance), Code: append([]byte(nil), a.Code...),
		Storage: make(map[Word]Word, len(a.Storage)), SelfDestructed: a.SelfDestructed, NewContract: a.NewContract}
	for k, v := range a.Storage {
		c.Storage[k] = v
	}
	return c
}

// Empty is the EIP-161 emptiness predicate.
func (a *Account) Empty() bool {
	return a.Nonce == 0 && a.Balance.Sign() == 0 && len(a.Code) == 0
}

// Log is one emitted log with the context fields the state layer fills in.
type Log struct {
	Addr    Addr
	Topics  []Word
	Data    []byte
	TxHash  Word
	TxIndex uint
	Index   uint
}

// frame is everything a revert restores.
type frame struct {
	accounts  map[Addr]*Account
	touched   map[Addr]bool
	transient map[Addr]map[Word]Word
	alAddrs   map[Addr]bool
	alSlots   map[Addr]map[Word]bool
	refund    uint64
	logs      []Log
}

func copyNested[K comparable](m map[Addr]map[K]Word) map[Addr]map[K]Word {
	out := make(map[Addr]map[K]Word, len(m))
	for a, in := range m {
		c := make(map[K]Word, len(in))
		for k, v := range in {
			c[k] = v
		}
		out[a] = c
	}
	return out
}

func (f *frame) copy() *frame {
	c := &frame{
		accounts:  make(map[Addr]*Account, len(f.accounts)),
		touched:   make(map[Addr]bool, len(f.touched)),
		transient: copyNested(f.transient),
		alAddrs:   make(map[Addr]bool, len(f.alAddrs)),
		alSlots:   make(map[Addr]map[Word]bool, len(f.alSlots)),
		refund:    f.refund,
		logs:      append([]Log(nil), f.logs...),
	}
	for a, acc := range f.accounts {
		c.accounts[a] = acc.copy()
	}
	for a := range f.touched {
		c.touched[a] = true
	}
	for a := range f.alAddrs {
		c.alAddrs[a] = true
	}
	for a, in := range f.alSlots {
		m := make(map[Word]bool, len(in))
		for k := range in {
			m[k] = true
		}
		c.alSlots[a] = m
	}
	return c
}

type snap struct {
	id int
	f  *frame
}

// State is the model.
type State struct {
	cur   *frame
	snaps []snap

	// txStart is the account image at the start of the current transaction (after
	// the previous Finalise): the "committed" storage view and the BAL baseline.
	txStart map[Addr]*Account

	ripemdTouched bool // sticky across reverts until Finalise

	thash   Word
	txIndex int

	// EIP-7928 footprint of the current transaction; not reverted by snapshots.
	Recording   bool
	AcctAccess  map[Addr]bool
	SlotAccess  map[Addr]map[Word]bool
	blockAccIdx uint32
}

// New returns an empty state.
func New() *State {
	s := &State{cur: &frame{
		accounts: map[Addr]*Account{}, touched: map[Addr]bool{}, transient: map[Addr]map[Word]Word{},
		alAddrs: map[Addr]bool{}, alSlots: map[Addr]map[Word]bool{},
	}, txStart: map[Addr]*Account{}}
	return s
}

// FromAccounts returns a fresh state (no logs, transient storage, access list or
// snapshots) whose accounts are deep copies of the given ones: the view a newly
// opened state has of a committed world.
func FromAccounts(accts map[Addr]*Account) *State {
	s := New()
	for a, acc := range accts {
		c := acc.copy()
		c.SelfDestructed, c.NewContract = false, false
		s.cur.accounts[a] = c
		s.txStart[a] = c.copy()
	}
	return s
}

// CopyAccounts deep-copies an account map.
func CopyAccounts(accts map[Addr]*Account) map[Addr]*Account {
	out := make(map[Addr]*Account, len(accts))
	for a, acc := range accts {
		out[a] = acc.copy()
	}
	return out
}

// Copy returns a fully independent deep copy (including live snapshots).
func (s *State) Copy() *State {
	c := &State{cur: s.cur.copy(), txStart: make(map[Addr]*Account, len(s.txStart)), ripemdTouched: s.ripemdTouched,
		thash: s.thash, txIndex: s.txIndex, Recording: s.Recording, blockAccIdx: s.blockAccIdx}
	for _, sn := range s.snaps {
		c.snaps = append(c.snaps, snap{sn.id, sn.f.copy()})
	}
	for a, acc := range s.txStart {
		c.txStart[a] = acc.copy()
	}
	if s.AcctAccess != nil {
		c.AcctAccess = make(map[Addr]bool, len(s.AcctAccess))
		for a := range s.AcctAccess {
			c.AcctAccess[a] = true
		}
		c.SlotAccess = make(map[Addr]map[Word]bool, len(s.SlotAccess))
		for a, in := range s.SlotAccess {
			m := make(map[Word]bool, len(in))
			for k := range in {
				m[k] = true
			}
			c.SlotAccess[a] = m
		}
	}
	return c
}

// ---- footprint -------------------------------------------------------------

func (s *State) accessAcct(a Addr) {
	if s.Recording {
		s.AcctAccess[a] = true
	}
}

func (s *State) accessSlot(a Addr, k Word) {
	if s.Recording {
		if s.SlotAccess[a] == nil {
			s.SlotAccess[a] = map[Word]bool{}
		}
		s.SlotAccess[a][k] = true
	}
}

// ---- reads -----------------------------------------------------------------

func (s *State) get(a Addr) *Account {
	s.accessAcct(a)
	return s.cur.accounts[a]
}

// Account returns the live account or nil (no footprint).
func (s *State) Account(a Addr) *Account { return s.cur.accounts[a] }

// Accounts returns the live account map (read-only use).
func (s *State) Accounts() map[Addr]*Account { return s.cur.accounts }

// TxStart returns the account image at the start of the current transaction.
func (s *State) TxStart() map[Addr]*Account { return s.txStart }

func (s *State) Exist(a Addr) bool { return s.get(a) != nil }

func (s *State) Empty(a Addr) bool {
	acc := s.get(a)
	return acc == nil || acc.Empty()
}

func (s *State) GetBalance(a Addr) *big.Int {
	if acc := s.get(a); acc != nil {
		return new(big.Int).Set(acc.Balance)
	}
	return new(big.Int)
}

// GetBalanceQuiet reads the balance without leaving an access footprint (harness bookkeeping).
func (s *State) GetBalanceQuiet(a Addr) *big.Int {
	if acc := s.cur.accounts[a]; acc != nil {
		return new(big.Int).Set(acc.Balance)
	}
	return new(big.Int)
}

func (s *State) GetNonce(a Addr) uint64 {
	if acc := s.get(a); acc != nil {
		return acc.Nonce
	}
	return 0
}

func (s *State) GetCode(a Addr) []byte {
	if acc := s.get(a); acc != nil && len(acc.Code) > 0 {
		return append([]byte(nil), acc.Code...)
	}
	return nil
}

func (s *State) GetCodeSize(a Addr) int { return len(s.GetCode(a)) }

// GetCodeHash is the zero word for a non-existent account and keccak(code) otherwise.
func (s *State) GetCodeHash(a Addr) Word {
	if acc := s.get(a); acc != nil {
		return Word(reftrie.Keccak256(acc.Code))
	}
	return Word{}
}

func (s *State) GetState(a Addr, k Word) Word {
	acc := s.get(a)
	if acc == nil {
		return Word{}
	}
	s.accessSlot(a, k)
	return acc.Storage[k]
}

// GetCommittedState is the slot value at the start of the current transaction. An
// account that came into existence during the transaction has no committed storage.
func (s *State) GetCommittedState(a Addr, k Word) Word {
	acc := s.get(a)
	if acc == nil {
		return Word{}
	}
	s.accessSlot(a, k)
	if old := s.txStart[a]; old != nil {
		return old.Storage[k]
	}
	return Word{}
}

func (s *State) HasSelfDestructed(a Addr) bool {
	acc := s.get(a)
	return acc != nil && acc.SelfDestructed
}

func (s *State) IsNewContract(a Addr) bool {
	acc := s.get(a)
	return acc != nil && acc.NewContract
}

func (s *State) GetTransientState(a Addr, k Word) Word { return s.cur.transient[a][k] }

func (s *State) AddressInAccessList(a Addr) bool { return s.cur.alAddrs[a] }

func (s *State) SlotInAccessList(a Addr, k Word) (bool, bool) {
	return s.cur.alAddrs[a], s.cur.alSlots[a][k]
}

func (s *State) GetRefund() uint64 { return s.cur.refund }

// TxLogs returns the logs of the transaction with the given hash.
func (s *State) TxLogs(h Word) []Log {
	var out []Log
	for _, l := range s.cur.logs {
		if l.TxHash == h {
			out = append(out, l)
		}
	}
	return out
}

// Logs returns all logs of the block in emission order.
func (s *State) Logs() []Log { return append([]Log(nil), s.cur.logs...) }

// ---- writes ----------------------------------------------------------------

func (s *State) touch(a Addr) { s.cur.touched[a] = true }

// getOrNew returns the account, creating an empty one (which counts as a
// modification of that address) when it does not exist.
func (s *State) getOrNew(a Addr) *Account {
	acc := s.get(a)
	if acc == nil {
		acc = newAccount()
		s.cur.accounts[a] = acc
		s.touch(a)
	}
	return acc
}

// AddBalance returns the previous balance. Adding zero to an empty account is the
// EIP-161 "touch".
func (s *State) AddBalance(a Addr, amt *big.Int) *big.Int {
	acc := s.getOrNew(a)
	prev := new(big.Int).Set(acc.Balance)
	if amt.Sign() == 0 {
		if acc.Empty() {
			s.touch(a)
			if a == Ripemd {
				s.ripemdTouched = true
			}
		}
		return prev
	}
	acc.Balance = new(big.Int).Mod(new(big.Int).Add(acc.Balance, amt), two256)
	s.touch(a)
	return prev
}

// SubBalance returns the previous balance; subtracting zero is not a modification.
func (s *State) SubBalance(a Addr, amt *big.Int) *big.Int {
	acc := s.getOrNew(a)
	prev := new(big.Int).Set(acc.Balance)
	if amt.Sign() == 0 {
		return prev
	}
	acc.Balance = new(big.Int).Mod(new(big.Int).Sub(acc.Balance, amt), two256)
	s.touch(a)
	return prev
}

func (s *State) SetBalance(a Addr, v *big.Int) {
	acc := s.getOrNew(a)
	acc.Balance = new(big.Int).Set(v)
	s.touch(a)
}

func (s *State) SetNonce(a Addr, n uint64) {
	acc := s.getOrNew(a)
	acc.Nonce = n
	s.touch(a)
}

// SetCode returns the previous code.
func (s *State) SetCode(a Addr, code []byte) []byte {
	acc := s.getOrNew(a)
	prev := acc.Code
	acc.Code = append([]byte(nil), code...)
	s.touch(a)
	return prev
}

// SetState returns the previous value; writing the current value is a no-op.
func (s *State) SetState(a Addr, k, v Word) Word {
	acc := s.getOrNew(a)
	s.accessSlot(a, k)
	prev := acc.Storage[k]
	if prev == v {
		return prev
	}
	if v == (Word{}) {
		delete(acc.Storage, k)
	} else {
		acc.Storage[k] = v
	}
	s.touch(a)
	return prev
}

// SelfDestruct marks an existing account; it stays readable until Finalise.
func (s *State) SelfDestruct(a Addr) {
	acc := s.get(a)
	if acc == nil || acc.SelfDestructed {
		return
	}
	acc.SelfDestructed = true
	s.touch(a)
}

// CreateAccount installs a fresh empty account. Precondition (as for the EVM's
// CREATE path): the address does not exist.
func (s *State) CreateAccount(a Addr) {
	s.accessAcct(a)
	s.cur.accounts[a] = newAccount()
	s.touch(a)
}

// CreateContract flags an existing account as created-in-this-transaction.
func (s *State) CreateContract(a Addr) {
	if acc := s.get(a); acc != nil {
		acc.NewContract = true
	}
}

func (s *State) SetTransientState(a Addr, k, v Word) {
	if s.cur.transient[a] == nil {
		s.cur.transient[a] = map[Word]Word{}
	}
	if v == (Word{}) {
		delete(s.cur.transient[a], k)
	} else {
		s.cur.transient[a][k] = v
	}
}

func (s *State) AddAddressToAccessList(a Addr) { s.cur.alAddrs[a] = true }

func (s *State) AddSlotToAccessList(a Addr, k Word) {
	s.cur.alAddrs[a] = true
	if s.cur.alSlots[a] == nil {
		s.cur.alSlots[a] = map[Word]bool{}
	}
	s.cur.alSlots[a][k] = true
}

func (s *State) AddRefund(g uint64) { s.cur.refund += g }

// SubRefund: the caller guarantees g <= GetRefund().
func (s *State) SubRefund(g uint64) { s.cur.refund -= g }

func (s *State) AddLog(addr Addr, topics []Word, data []byte) {
	s.cur.logs = append(s.cur.logs, Log{Addr: addr, Topics: append([]Word(nil), topics...), Data: append([]byte(nil), data...),
		TxHash: s.thash, TxIndex: uint(s.txIndex), Index: uint(len(s.cur.logs))})
}

// ---- snapshots ---------------------------------------------------------------

// Snapshot stores a deep copy under the id the implementation returned.
func (s *State) Snapshot(id int) { s.snaps = append(s.snaps, snap{id, s.cur.copy()}) }

// LiveSnapshots lists the ids that may still be reverted to, oldest first.
func (s *State) LiveSnapshots() []int {
	out := make([]int, len(s.snaps))
	for i, sn := range s.snaps {
		out[i] = sn.id
	}
	return out
}

// DropSnapshots forgets all live snapshots without reverting.
func (s *State) DropSnapshots() { s.snaps = nil }

// RevertToSnapshot restores the copy taken at id and drops id and all later ones.
func (s *State) RevertToSnapshot(id int) bool {
	for i, sn := range s.snaps {
		if sn.id == id {
			s.cur = sn.f
			s.snaps = s.snaps[:i]
			return true
		}
	}
	return false
}

// ---- transaction boundaries ----------------------------------------------------

// AccessTuple is one EIP-2930 entry.
type AccessTuple struct {
	Addr  Addr
	Slots []Word
}

// Prepare starts a transaction: resets transient storage, (Berlin+) rebuilds the
// access list, (Amsterdam) starts a new access footprint.
func (s *State) Prepare(r Rules, sender, coinbase Addr, dst *Addr, precompiles []Addr, list []AccessTuple) {
	if r.Berlin {
		s.cur.alAddrs = map[Addr]bool{}
		s.cur.alSlots = map[Addr]map[Word]bool{}
		s.AddAddressToAccessList(sender)
		if dst != nil {
			s.AddAddressToAccessList(*dst)
		}
		for _, p := range precompiles {
			s.AddAddressToAccessList(p)
		}
		for _, t := range list {
			s.AddAddressToAccessList(t.Addr)
			for _, k := range t.Slots {
				s.AddSlotToAccessList(t.Addr, k)
			}
		}
		if r.Shanghai {
			s.AddAddressToAccessList(coinbase)
		}
	}
	s.cur.transient = map[Addr]map[Word]Word{}
	if r.Amsterdam {
		s.Recording = true
		s.AcctAccess = map[Addr]bool{}
		s.SlotAccess = map[Addr]map[Word]bool{}
	}
}

// SetTxContext sets the hash/index stamped on logs and the block access index.
func (s *State) SetTxContext(h Word, ti int, blockAccessIndex uint32) {
	s.thash, s.txIndex, s.blockAccIdx = h, ti, blockAccessIndex
}

// TxDiff is the EIP-7928 footprint of one finalised transaction.
type TxDiff struct {
	Index    uint32
	Accounts map[Addr]*AcctDiff // every accessed account, possibly with empty change sets
}

// AcctDiff holds post-transaction values of fields whose value differs from the
// pre-transaction value, plus slots accessed but not changed.
type AcctDiff struct {
	Balance *big.Int      // nil = unchanged
	Nonce   *uint64       // nil = unchanged
	Code    *[]byte       // nil = unchanged
	Writes  map[Word]Word // slot -> post value (changed slots only)
	Reads   map[Word]bool // accessed, unchanged slots
}

// Finalise ends the transaction: removes self-destructed and (EIP-158) touched
// empty accounts, clears per-transaction flags, the refund counter and the
// snapshots. With Amsterdam rules and an active footprint it returns the net
// change record of the transaction.
func (s *State) Finalise(r Rules) *TxDiff {
	touched := make([]Addr, 0, len(s.cur.touched)+1)
	for a := range s.cur.touched {
		touched = append(touched, a)
	}
	if s.ripemdTouched && !s.cur.touched[Ripemd] {
		touched = append(touched, Ripemd)
	}
	for _, a := range touched {
		acc := s.cur.accounts[a]
		if acc == nil {
			continue
		}
		switch {
		case acc.SelfDestructed:
			if r.Amsterdam && acc.Balance.Sign() != 0 {
				// EIP-8246 as described in the implementation's comments: nonce 0,
				// balance kept, code and storage cleared.
				n := newAccount()
				n.Balance.Set(acc.Balance)
				s.cur.accounts[a] = n
			} else {
				delete(s.cur.accounts, a)
			}
		case r.EIP158 && acc.Empty():
			delete(s.cur.accounts, a)
		}
	}
	for _, acc := range s.cur.accounts {
		acc.NewContract = false
	}
	var diff *TxDiff
	if r.Amsterdam && s.Recording {
		diff = s.diff()
	}
	s.Recording = false
	s.AcctAccess, s.SlotAccess = nil, nil

	s.txStart = make(map[Addr]*Account, len(s.cur.accounts))
	for a, acc := range s.cur.accounts {
		s.txStart[a] = acc.copy()
	}
	s.cur.touched = map[Addr]bool{}
	s.cur.refund = 0
	s.snaps = nil
	s.ripemdTouched = false
	return diff
}

func (s *State) diff() *TxDiff {
	d := &TxDiff{Index: s.blockAccIdx, Accounts: map[Addr]*AcctDiff{}}
	zero := newAccount()
	for a := range s.AcctAccess {
		ad := &AcctDiff{Writes: map[Word]Word{}, Reads: map[Word]bool{}}
		d.Accounts[a] = ad
		pre, post := s.txStart[a], s.cur.accounts[a]
		if pre == nil {
			pre = zero
		}
		if post == nil {
			post = zero
		}
		if pre.Balance.Cmp(post.Balance) != 0 {
			ad.Balance = new(big.Int).Set(post.Balance)
		}
		if pre.Nonce != post.Nonce {
			n := post.Nonce
			ad.Nonce = &n
		}
		if !bytes.Equal(pre.Code, post.Code) {
			c := append([]byte{}, post.Code...)
			ad.Code = &c
		}
		for k := range s.SlotAccess[a] {
			if pre.Storage[k] != post.Storage[k] {
				ad.Writes[k] = post.Storage[k]
			} else {
				ad.Reads[k] = true
			}
		}
	}
	return d
}

// ---- roots -------------------------------------------------------------------

func trimmed(w Word) []byte {
	i := 0
	for i < len(w) && w[i] == 0 {
		i++
	}
	return w[i:]
}

// StorageRoot is the root of the secure storage trie of the given slots.
func StorageRoot(st map[Word]Word) Word {
	kv := make(map[string][]byte, len(st))
	for k, v := range st {
		if v == (Word{}) {
			continue
		}
		h := reftrie.Keccak256(k[:])
		kv[string(h[:])] = refrlp.EncodeString(trimmed(v))
	}
	return Word(reftrie.Root(kv))
}

// AccountRLP is rlp([nonce, balance, storageRoot, codeHash]).
func AccountRLP(a *Account) []byte {
	sr := StorageRoot(a.Storage)
	ch := reftrie.Keccak256(a.Code)
	return refrlp.Encode(refrlp.L(refrlp.Uint(a.Nonce), refrlp.BigInt(a.Balance), refrlp.S(sr[:]), refrlp.S(ch[:])))
}

// RootOf computes the state root of an account map.
func RootOf(accts map[Addr]*Account) Word {
	kv := make(map[string][]byte, len(accts))
	for a, acc := range accts {
		h := reftrie.Keccak256(a[:])
		kv[string(h[:])] = AccountRLP(acc)
	}
	return Word(reftrie.Root(kv))
}

// Root is the state root of the live accounts. It is meaningful right after
// Finalise (no pending self-destructs or touched empties).
func (s *State) Root() Word { return RootOf(s.cur.accounts) }

// SortedAddrs returns the live addresses in ascending order.
func (s *State) SortedAddrs() []Addr {
	out := make([]Addr, 0, len(s.cur.accounts))
	for a := range s.cur.accounts {
		out = append(out, a)
	}
	sort.Slice(out, func(i, j int) bool { return bytes.Compare(out[i][:], out[j][:]) < 0 })
	return out
}
