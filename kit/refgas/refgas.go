// Package refgas is a reference model of the two-dimensional (execution gas /
// state-gas reservoir) budget of EIP-8037 over an explicit frame stack, in unbounded
// integers. It is written from the rules, not from go-ethereum's GasBudget:
//
//   - a frame owns gas_left and a state-gas reservoir;
//   - a charge (e, s) burns e from gas_left and takes s from the reservoir first; what
//     the reservoir cannot cover is borrowed from gas_left; the charge is affordable iff
//     gas_left covers e plus the borrowed part, otherwise nothing changes;
//   - a state refund of s first repays borrowed gas to gas_left (last in, first out),
//     the remainder goes to the reservoir;
//   - a call forwards x <= gas_left and the whole reservoir to the child;
//   - a child that returns normally hands back its gas_left and reservoir and its
//     consumption is folded into the parent;
//   - a child that reverts has its state charges undone: borrowed gas returns to
//     gas_left, the parent gets back the reservoir the child started with;
//   - a child that halts additionally burns all its gas_left (including the repaid
//     borrowed part).
//
// Besides the per-frame view the model keeps two tree-global tallies, updated
// directly at every event (Burned: execution gas gone for good, NetState: state gas
// charged and neither refunded nor undone by a revert/halt), so that the conservation
//
//	sum over stack (gas_left + reservoir) + Burned + NetState == initial gas
//
// can be checked independently of any per-frame accumulator.
package refgas

import "math/big"

// Frame is one execution frame.
type Frame struct {
	GasLeft   *big.Int // spendable execution gas
	Reservoir *big.Int // spendable state gas

	GasLeft0   *big.Int // values the frame started with
	Reservoir0 *big.Int

	Exec      *big.Int // execution gas burned by this frame and its finished descendants
	NetState  *big.Int // signed: state gas charged minus refunded (this frame + successful descendants)
	Borrowed  *big.Int // part of the state charges currently funded from gas_left
	Forwarded *big.Int // gas_left handed to the running child (0 when no child runs)
}

func z() *big.Int { return new(big.Int) }

func c(v *big.Int) *big.Int { return new(big.Int).Set(v) }

func newFrame(gas, reservoir *big.Int) *Frame {
	return &Frame{GasLeft: c(gas), Reservoir: c(reservoir), GasLeft0: c(gas), Reservoir0: c(reservoir),
		Exec: z(), NetState: z(), Borrowed: z(), Forwarded: z()}
}

func (f *Frame) clone() *Frame {
	return &Frame{GasLeft: c(f.GasLeft), Reservoir: c(f.Reservoir), GasLeft0: c(f.GasLeft0), Reservoir0: c(f.Reservoir0),
		Exec: c(f.Exec), NetState: c(f.NetState), Borrowed: c(f.Borrowed), Forwarded: c(f.Forwarded)}
}

// ExitKind is how a frame ends.
type ExitKind int

const (
	ExitOK ExitKind = iota
	ExitRevert
	ExitHalt
)

func (k ExitKind) String() string { return [...]string{"ok", "revert", "halt"}[k] }

// Tree is the frame stack plus the global tallies.
type Tree struct {
	Stack    []*Frame
	Initial  *big.Int // gas_left + reservoir given to the root
	Burned   *big.Int // execution gas consumed for good, whole tree
	NetState *big.Int // live net state gas, whole tree
}

// New creates a tree with a root frame.
func New(gas, reservoir *big.Int) *Tree {
	return &Tree{Stack: []*Frame{newFrame(gas, reservoir)}, Initial: new(big.Int).Add(gas, reservoir), Burned: z(), NetState: z()}
}

// Clone deep-copies the tree.
func (t *Tree) Clone() *Tree {
	n := &Tree{Initial: c(t.Initial), Burned: c(t.Burned), NetState: c(t.NetState)}
	for _, f := range t.Stack {
		n.Stack = append(n.Stack, f.clone())
	}
	return n
}

// Top is the running frame.
func (t *Tree) Top() *Frame { return t.Stack[len(t.Stack)-1] }

// Depth is the number of frames above the root.
func (t *Tree) Depth() int { return len(t.Stack) - 1 }

// CanAfford: e <= gas_left and the part of s the reservoir cannot cover fits in gas_left - e.
func (t *Tree) CanAfford(e, s *big.Int) bool {
	f := t.Top()
	if e.Cmp(f.GasLeft) > 0 {
		return false
	}
	short := new(big.Int).Sub(s, f.Reservoir)
	if short.Sign() <= 0 {
		return true
	}
	return short.Cmp(new(big.Int).Sub(f.GasLeft, e)) <= 0
}

// Charge applies (e, s) if affordable and reports whether it did.
func (t *Tree) Charge(e, s *big.Int) bool {
	if !t.CanAfford(e, s) {
		return false
	}
	f := t.Top()
	f.GasLeft.Sub(f.GasLeft, e)
	f.Exec.Add(f.Exec, e)
	t.Burned.Add(t.Burned, e)
	fromRes := c(s)
	if fromRes.Cmp(f.Reservoir) > 0 {
		fromRes.Set(f.Reservoir)
	}
	spill := new(big.Int).Sub(s, fromRes)
	f.Reservoir.Sub(f.Reservoir, fromRes)
	f.GasLeft.Sub(f.GasLeft, spill)
	f.Borrowed.Add(f.Borrowed, spill)
	f.NetState.Add(f.NetState, s)
	t.NetState.Add(t.NetState, s)
	return true
}

// LiveNetState is the state gas charged and still outstanding on the current stack:
// the upper bound of what an inline refund can give back.
func (t *Tree) LiveNetState() *big.Int { return c(t.NetState) }

// Refund gives s of state gas back to the running frame (LIFO: borrowed gas first).
func (t *Tree) Refund(s *big.Int) {
	f := t.Top()
	repay := c(s)
	if repay.Cmp(f.Borrowed) > 0 {
		repay.Set(f.Borrowed)
	}
	f.GasLeft.Add(f.GasLeft, repay)
	f.Borrowed.Sub(f.Borrowed, repay)
	f.Reservoir.Add(f.Reservoir, new(big.Int).Sub(s, repay))
	f.NetState.Sub(f.NetState, s)
	t.NetState.Sub(t.NetState, s)
}

// Drain burns the remaining gas_left of the running frame.
func (t *Tree) Drain() {
	f := t.Top()
	f.Exec.Add(f.Exec, f.GasLeft)
	t.Burned.Add(t.Burned, f.GasLeft)
	f.GasLeft.SetInt64(0)
}

// Forward starts a child with x gas (x <= gas_left, caller's obligation) and the whole reservoir.
func (t *Tree) Forward(x *big.Int) {
	p := t.Top()
	p.GasLeft.Sub(p.GasLeft, x)
	p.Forwarded.Set(x)
	child := newFrame(x, p.Reservoir)
	p.Reservoir.SetInt64(0)
	t.Stack = append(t.Stack, child)
}

// Leftover is what a finished frame hands to its caller.
type Leftover struct {
	GasLeft, Reservoir *big.Int
}

// Exit ends the running (non-root) frame and folds it into its parent. It returns
// what the child handed back.
func (t *Tree) Exit(kind ExitKind) Leftover {
	ch := t.Top()
	t.Stack = t.Stack[:len(t.Stack)-1]
	p := t.Top()
	p.Forwarded.SetInt64(0)
	var lo Leftover
	switch kind {
	case ExitOK:
		lo = Leftover{GasLeft: c(ch.GasLeft), Reservoir: c(ch.Reservoir)}
		p.Exec.Add(p.Exec, ch.Exec)
		p.NetState.Add(p.NetState, ch.NetState)
		p.Borrowed.Add(p.Borrowed, ch.Borrowed)
	case ExitRevert:
		// state charges of the child (and of its successful descendants) are undone
		lo = Leftover{GasLeft: new(big.Int).Add(ch.GasLeft, ch.Borrowed), Reservoir: c(ch.Reservoir0)}
		p.Exec.Add(p.Exec, ch.Exec)
		t.NetState.Sub(t.NetState, ch.NetState)
	case ExitHalt:
		lo = Leftover{GasLeft: z(), Reservoir: c(ch.Reservoir0)}
		burn := new(big.Int).Add(ch.GasLeft, ch.Borrowed)
		p.Exec.Add(p.Exec, ch.Exec)
		p.Exec.Add(p.Exec, burn)
		t.Burned.Add(t.Burned, burn)
		t.NetState.Sub(t.NetState, ch.NetState)
	}
	p.GasLeft.Add(p.GasLeft, lo.GasLeft)
	p.Reservoir.Set(lo.Reservoir)
	return lo
}

// Conserved checks the global conservation law and sign conditions; it returns a
// description of the first violated one, or "".
func (t *Tree) Conserved() string {
	sum := new(big.Int).Add(t.Burned, t.NetState)
	for _, f := range t.Stack {
		sum.Add(sum, f.GasLeft)
		sum.Add(sum, f.Reservoir)
		if f.GasLeft.Sign() < 0 || f.Reservoir.Sign() < 0 || f.Borrowed.Sign() < 0 || f.Exec.Sign() < 0 {
			return "negative quantity in the model"
		}
	}
	if sum.Cmp(t.Initial) != 0 {
		return "model: live gas + burned + net state != initial"
	}
	return ""
}
