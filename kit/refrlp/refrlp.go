// Package refrlp is an independent reference implementation of canonical RLP
// (Yellow Paper appendix B) over item trees. It shares no code with geth's rlp.
package refrlp

import (
	"errors"
	"fmt"
	"math/big"
)

// Item is either a byte string (List == nil && !IsList) or a list of items.
// An item with Raw != nil is an opaque, already-encoded value: Encode emits it
// verbatim and Equal compares it byte-wise (used to model raw-value fields whose
// content a decoder does not validate).
type Item struct {
	IsList bool
	Str    []byte
	List   []Item
	Raw    []byte
}

// R makes an opaque pre-encoded item.
func R(enc []byte) Item { return Item{Raw: append([]byte{}, enc...)} }

// S makes a string item.
func S(b []byte) Item { return Item{Str: append([]byte{}, b...)} }

// L makes a list item.
func L(items ...Item) Item { return Item{IsList: true, List: items} }

// Uint makes the canonical integer item (big-endian, no leading zeros, 0 = empty).
func Uint(v uint64) Item { return BigInt(new(big.Int).SetUint64(v)) }

// BigInt makes the canonical integer item of a non-negative big integer.
func BigInt(v *big.Int) Item { return Item{Str: v.Bytes()} }

func beLen(n int) []byte {
	var out []byte
	for n > 0 {
		out = append([]byte{byte(n)}, out...)
		n >>= 8
	}
	return out
}

// Encode returns the canonical encoding of an item.
func Encode(it Item) []byte {
	if it.Raw != nil {
		return append([]byte{}, it.Raw...)
	}
	if !it.IsList {
		if len(it.Str) == 1 && it.Str[0] < 0x80 {
			return []byte{it.Str[0]}
		}
		if len(it.Str) <= 55 {
			return append([]byte{0x80 + byte(len(it.Str))}, it.Str...)
		}
		l := beLen(len(it.Str))
		return append(append([]byte{0xb7 + byte(len(l))}, l...), it.Str...)
	}
	var payload []byte
	for _, c := range it.List {
		payload = append(payload, Encode(c)...)
	}
	if len(payload) <= 55 {
		return append([]byte{0xc0 + byte(len(payload))}, payload...)
	}
	l := beLen(len(payload))
	return append(append([]byte{0xf7 + byte(len(l))}, l...), payload...)
}

// Errors classify why an input is not a canonical encoding.
var (
	ErrEmpty        = errors.New("refrlp: empty input")
	ErrTruncated    = errors.New("refrlp: value larger than input")
	ErrNonCanonSize = errors.New("refrlp: non-canonical size")
	ErrNonCanonByte = errors.New("refrlp: single byte < 0x80 wrapped as string")
	ErrTrailing     = errors.New("refrlp: trailing bytes")
)

// Header describes the first value of an input.
type Header struct {
	IsList     bool
	HeaderLen  int
	ContentLen int
}

// SplitHeader parses the header of the first value of b, enforcing canonical size
// encoding and the single-byte rule, and that the value fits into b.
func SplitHeader(b []byte) (Header, error) {
	if len(b) == 0 {
		return Header{}, ErrEmpty
	}
	p := b[0]
	var h Header
	switch {
	case p < 0x80:
		return Header{HeaderLen: 0, ContentLen: 1}, nil
	case p <= 0xb7:
		h = Header{HeaderLen: 1, ContentLen: int(p - 0x80)}
		if h.ContentLen == 1 && len(b) > 1 && b[1] < 0x80 {
			return h, ErrNonCanonByte
		}
	case p <= 0xbf:
		n, err := readLen(b[1:], int(p-0xb7))
		if err != nil {
			return h, err
		}
		h = Header{HeaderLen: 1 + int(p-0xb7), ContentLen: n}
	case p <= 0xf7:
		h = Header{IsList: true, HeaderLen: 1, ContentLen: int(p - 0xc0)}
	default:
		n, err := readLen(b[1:], int(p-0xf7))
		if err != nil {
			return h, err
		}
		h = Header{IsList: true, HeaderLen: 1 + int(p-0xf7), ContentLen: n}
	}
	if h.ContentLen > len(b)-h.HeaderLen {
		return h, ErrTruncated
	}
	return h, nil
}

func readLen(b []byte, n int) (int, error) {
	if len(b) < n {
		return 0, ErrTruncated
	}
	if b[0] == 0 {
		return 0, ErrNonCanonSize
	}
	v := new(big.Int).SetBytes(b[:n])
	if !v.IsUint64() || v.Uint64() > 1<<62 {
		return 0, ErrTruncated
	}
	if v.Uint64() < 56 {
		return 0, ErrNonCanonSize
	}
	return int(v.Uint64()), nil
}

// DecodeFirst decodes the first value of b (recursively validating nested
// values) and returns it together with the remaining bytes.
func DecodeFirst(b []byte) (Item, []byte, error) {
	h, err := SplitHeader(b)
	if err != nil {
		return Item{}, nil, err
	}
	content := b[h.HeaderLen : h.HeaderLen+h.ContentLen]
	rest := b[h.HeaderLen+h.ContentLen:]
	if !h.IsList {
		return S(content), rest, nil
	}
	it := Item{IsList: true, List: []Item{}}
	for len(content) > 0 {
		c, r, err := DecodeFirst(content)
		if err != nil {
			return Item{}, nil, fmt.Errorf("in list: %w", err)
		}
		it.List = append(it.List, c)
		content = r
	}
	return it, rest, nil
}

// Decode decodes b as exactly one canonical value.
func Decode(b []byte) (Item, error) {
	it, rest, err := DecodeFirst(b)
	if err != nil {
		return Item{}, err
	}
	if len(rest) != 0 {
		return Item{}, ErrTrailing
	}
	return it, nil
}

// IsCanonicalInt reports whether a string item is a canonical non-negative
// integer of at most maxBytes bytes (no leading zero byte).
func IsCanonicalInt(it Item, maxBytes int) bool {
	if it.IsList || len(it.Str) > maxBytes {
		return false
	}
	return len(it.Str) == 0 || it.Str[0] != 0
}

// Equal compares two items structurally.
func Equal(a, b Item) bool {
	if a.Raw != nil || b.Raw != nil {
		return a.Raw != nil && b.Raw != nil && string(a.Raw) == string(b.Raw)
	}
	if a.IsList != b.IsList {
		return false
	}
	if !a.IsList {
		return string(a.Str) == string(b.Str)
	}
	if len(a.List) != len(b.List) {
		return false
	}
	for i := range a.List {
		if !Equal(a.List[i], b.List[i]) {
			return false
		}
	}
	return true
}

// String renders an item for samples.
func (it Item) String() string {
	if it.Raw != nil {
		return fmt.Sprintf("raw:%x", it.Raw)
	}
	if !it.IsList {
		return fmt.Sprintf("%x", it.Str)
	}
	s := "["
	for i, c := range it.List {
		if i > 0 {
			s += ","
		}
		s += c.String()
	}
	return s + "]"
}

// WrapList prefixes an already-encoded payload with the canonical list header.
func WrapList(payload []byte) []byte {
	if len(payload) <= 55 {
		return append([]byte{0xc0 + byte(len(payload))}, payload...)
	}
	l := beLen(len(payload))
	return append(append([]byte{0xf7 + byte(len(l))}, l...), payload...)
}

// EncodeString is Encode(S(b)).
func EncodeString(b []byte) []byte { return Encode(Item{Str: b}) }

// ---------------------------------------------------------------------------
// Lenient parsing and classification (for forged / mutated inputs)

// Class says how an input relates to canonical RLP.
type Class int

const (
	// Canonical: exactly one canonical value (recursively), no trailing bytes.
	Canonical Class = iota
	// NonCanonical: well delimited under lenient rules (any length-of-length 1..8,
	// leading zero length bytes, long form for payloads < 56, single bytes < 0x80
	// wrapped as one-byte strings), exactly one value, but not canonical somewhere.
	NonCanonical
	// Malformed: not even leniently one well-delimited value (truncated, trailing
	// bytes, nested elements overflowing their list, empty input).
	Malformed
)

func (c Class) String() string {
	switch c {
	case Canonical:
		return "canonical"
	case NonCanonical:
		return "noncanonical"
	default:
		return "malformed"
	}
}

// SplitHeaderLenient parses the header of the first value of b without the
// canonicality rules. canon reports whether the header itself is canonical.
func SplitHeaderLenient(b []byte) (h Header, canon bool, err error) {
	if len(b) == 0 {
		return Header{}, false, ErrEmpty
	}
	p := b[0]
	canon = true
	long := func(n int, isList bool) error {
		if len(b)-1 < n {
			return ErrTruncated
		}
		v := new(big.Int).SetBytes(b[1 : 1+n])
		if !v.IsUint64() || v.Uint64() > 1<<62 {
			return ErrTruncated
		}
		if b[1] == 0 || v.Uint64() < 56 {
			canon = false
		}
		h = Header{IsList: isList, HeaderLen: 1 + n, ContentLen: int(v.Uint64())}
		return nil
	}
	switch {
	case p < 0x80:
		return Header{HeaderLen: 0, ContentLen: 1}, true, nil
	case p <= 0xb7:
		h = Header{HeaderLen: 1, ContentLen: int(p - 0x80)}
		if h.ContentLen == 1 && len(b) > 1 && b[1] < 0x80 {
			canon = false
		}
	case p <= 0xbf:
		if err := long(int(p-0xb7), false); err != nil {
			return h, false, err
		}
		if h.ContentLen == 1 && len(b) > h.HeaderLen && b[h.HeaderLen] < 0x80 {
			canon = false
		}
	case p <= 0xf7:
		h = Header{IsList: true, HeaderLen: 1, ContentLen: int(p - 0xc0)}
	default:
		if err := long(int(p-0xf7), true); err != nil {
			return h, false, err
		}
	}
	if h.ContentLen > len(b)-h.HeaderLen {
		return h, false, ErrTruncated
	}
	return h, canon, nil
}

// DecodeFirstLenient decodes the first value of b under the lenient rules.
// canon reports whether the consumed bytes are canonical throughout.
func DecodeFirstLenient(b []byte) (it Item, rest []byte, canon bool, err error) {
	h, canon, err := SplitHeaderLenient(b)
	if err != nil {
		return Item{}, nil, false, err
	}
	content := b[h.HeaderLen : h.HeaderLen+h.ContentLen]
	rest = b[h.HeaderLen+h.ContentLen:]
	if !h.IsList {
		return S(content), rest, canon, nil
	}
	it = Item{IsList: true, List: []Item{}}
	for len(content) > 0 {
		c, r, cc, err := DecodeFirstLenient(content)
		if err != nil {
			return Item{}, nil, false, err
		}
		canon = canon && cc
		it.List = append(it.List, c)
		content = r
	}
	return it, rest, canon, nil
}

// Classify classifies b as exactly one value.
func Classify(b []byte) Class {
	_, rest, canon, err := DecodeFirstLenient(b)
	if err != nil || len(rest) != 0 {
		return Malformed
	}
	if canon {
		return Canonical
	}
	return NonCanonical
}

// Form selects how one header is written by EncodeForm.
type Form struct {
	// Long forces the long (length-prefixed) header form even for payloads < 56.
	Long bool
	// LenBytes is the number of length bytes in long form (0 = minimal); values
	// larger than minimal produce leading zero bytes. Capped at 8.
	LenBytes int
	// WrapSingle writes a single byte < 0x80 as 0x81 b.
	WrapSingle bool
}

// EncodeForm encodes the item tree, asking form for the header form of every
// string and list (payloadLen is the content length). The zero Form is canonical.
func EncodeForm(it Item, form func(it Item, payloadLen int) Form) []byte {
	if it.Raw != nil {
		return append([]byte{}, it.Raw...)
	}
	var payload []byte
	small, large := byte(0x80), byte(0xb7)
	if it.IsList {
		small, large = 0xc0, 0xf7
		for _, c := range it.List {
			payload = append(payload, EncodeForm(c, form)...)
		}
	} else {
		payload = it.Str
	}
	f := form(it, len(payload))
	if !it.IsList && len(payload) == 1 && payload[0] < 0x80 && !f.WrapSingle && !f.Long {
		return []byte{payload[0]}
	}
	if len(payload) <= 55 && !f.Long {
		return append([]byte{small + byte(len(payload))}, payload...)
	}
	l := beLen(len(payload))
	n := f.LenBytes
	if n > 8 {
		n = 8
	}
	if len(l) == 0 {
		l = []byte{0}
	}
	for len(l) < n {
		l = append([]byte{0}, l...)
	}
	return append(append([]byte{large + byte(len(l))}, l...), payload...)
}

// MaxDepth returns the list nesting depth of an item (a string has depth 0).
func MaxDepth(it Item) int {
	if !it.IsList || it.Raw != nil {
		return 0
	}
	d := 0
	for _, c := range it.List {
		if x := MaxDepth(c); x > d {
			d = x
		}
	}
	return d + 1
}
