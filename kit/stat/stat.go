// Package stat collects per-run coverage statistics of the verification harness
// (cases generated, class histogram, distinct non-trivial cases, samples) and
// flushes them as one JSON line to $VERIF_STATS_FILE for the driver (check.py).
package stat

import (
	"encoding/json"
	"flag"
	"fmt"
	"hash/fnv"
	"os"
	"sort"
	"strconv"
	"sync"
	"testing"

	"pgregory.net/rapid"
)

const maxDistinct = 1 << 20

// S accumulates statistics for one test function.
type S struct {
	mu       sync.Mutex
	id, test string
	evals    int64
	faults   int64
	nontriv  int64
	classes  map[string]int64
	distinct map[uint64]struct{}
	overflow int64
	samples  []any
	trivSamp []any
	excluded int64
	exhaust  bool
	notes    []string
	failed   bool
	flushed  bool
}

// New creates a collector and registers its flush with t.Cleanup.
var (
	regMu sync.Mutex
	reg   []*S
)

func markAllFailed() {
	regMu.Lock()
	defer regMu.Unlock()
	for _, s := range reg {
		s.MarkFailed()
	}
}

func New(id string, t testing.TB) *S {
	s := &S{id: id, test: t.Name(), classes: map[string]int64{}, distinct: map[uint64]struct{}{}}
	regMu.Lock()
	reg = append(reg, s)
	regMu.Unlock()
	t.Cleanup(func() {
		if t.Failed() {
			s.mu.Lock()
			s.failed = true
			s.mu.Unlock()
		}
		s.Flush()
	})
	return s
}

// Case is one generated case.
type Case struct {
	s    *S
	dead bool
}

// Case starts a new generated case (counts one evaluation).
func (s *S) Case() *Case {
	s.mu.Lock()
	defer s.mu.Unlock()
	if s.failed {
		return &Case{s: s, dead: true}
	}
	s.evals++
	return &Case{s: s}
}

// MarkFailed stops counting (rapid re-runs the property while shrinking).
func (s *S) MarkFailed() { s.mu.Lock(); s.failed = true; s.mu.Unlock() }

// Exhaustive declares that an enumerated sub-domain was covered completely.
func (s *S) Exhaustive(note string) {
	s.mu.Lock()
	s.exhaust = true
	s.notes = append(s.notes, "exhaustive: "+note)
	s.mu.Unlock()
}

// Note records a free-text observation for the evidence file.
func (s *S) Note(format string, a ...any) {
	s.mu.Lock()
	if len(s.notes) < 40 {
		s.notes = append(s.notes, fmt.Sprintf(format, a...))
	}
	s.mu.Unlock()
}

// Excluded counts a case skipped/reshaped because it matches a known finding.
func (s *S) Excluded() { s.mu.Lock(); s.excluded++; s.mu.Unlock() }

// Class adds the case to a histogram class.
func (c *Case) Class(label string) {
	if c.dead {
		return
	}
	c.s.mu.Lock()
	c.s.classes[label]++
	c.s.mu.Unlock()
}

// Classf is Class with formatting.
func (c *Case) Classf(format string, a ...any) { c.Class(fmt.Sprintf(format, a...)) }

// Fault counts one fault-injection sub-case (crash point, tampering, ...).
func (c *Case) Fault() {
	if c.dead {
		return
	}
	c.s.mu.Lock()
	c.s.faults++
	c.s.mu.Unlock()
}

// NonTrivial records the case as non-trivial (if ok) with a descriptor used for
// distinctness (FNV-64 of the descriptor).
func (c *Case) NonTrivial(ok bool, descriptor string) {
	if c.dead || !ok {
		return
	}
	h := fnv.New64a()
	h.Write([]byte(descriptor))
	k := h.Sum64()
	c.s.mu.Lock()
	c.s.nontriv++
	if len(c.s.distinct) < maxDistinct {
		c.s.distinct[k] = struct{}{}
	} else if _, ok := c.s.distinct[k]; !ok {
		c.s.overflow++
	}
	c.s.mu.Unlock()
}

// Sample keeps up to 3 non-trivial and 2 trivial rendered samples.
func (c *Case) Sample(nontrivial bool, render func() any) {
	if c.dead {
		return
	}
	c.s.mu.Lock()
	defer c.s.mu.Unlock()
	if nontrivial && len(c.s.samples) < 3 {
		c.s.samples = append(c.s.samples, render())
	} else if !nontrivial && len(c.s.trivSamp) < 2 {
		c.s.trivSamp = append(c.s.trivSamp, render())
	}
}

// Flush appends the JSON line to $VERIF_STATS_FILE (once).
func (s *S) Flush() {
	s.mu.Lock()
	defer s.mu.Unlock()
	if s.flushed {
		return
	}
	s.flushed = true
	path := os.Getenv("VERIF_STATS_FILE")
	if path == "" {
		return
	}
	hashes := make([]string, 0, len(s.distinct))
	for k := range s.distinct {
		hashes = append(hashes, strconv.FormatUint(k, 16))
	}
	sort.Strings(hashes)
	out := map[string]any{
		"id": s.id, "test": s.test, "evaluations": s.evals, "faults": s.faults,
		"nontrivial": s.nontriv, "distinct_nontrivial": len(s.distinct), "distinct_overflow": s.overflow,
		"classes": s.classes, "samples": append(append([]any{}, s.samples...), s.trivSamp...),
		"excluded_known": s.excluded, "exhaustive": s.exhaust, "notes": s.notes, "failed": s.failed,
	}
	if hp := os.Getenv("VERIF_HASH_FILE"); hp != "" && len(hashes) <= 200000 {
		if f, err := os.OpenFile(hp, os.O_APPEND|os.O_CREATE|os.O_WRONLY, 0o644); err == nil {
			for _, h := range hashes {
				f.WriteString(s.test + " " + h + "\n")
			}
			f.Close()
		}
	}
	b, err := json.Marshal(out)
	if err != nil {
		b, _ = json.Marshal(map[string]any{"id": s.id, "test": s.test, "evaluations": s.evals, "error": err.Error()})
	}
	f, err := os.OpenFile(path, os.O_APPEND|os.O_CREATE|os.O_WRONLY, 0o644)
	if err != nil {
		return
	}
	f.Write(append(b, '\n'))
	f.Close()
}

// Tier returns "quick" or "thorough" ($VERIF_TIER, default quick).
func Tier() string {
	if os.Getenv("VERIF_TIER") == "thorough" {
		return "thorough"
	}
	return "quick"
}

// Thorough reports whether the thorough tier is running.
func Thorough() bool { return Tier() == "thorough" }

// Seed returns $VERIF_SEED_EFFECTIVE (the per-shard seed handed to rapid), default 1.
func Seed() uint64 {
	if v, err := strconv.ParseUint(os.Getenv("VERIF_SEED_EFFECTIVE"), 10, 64); err == nil && v != 0 {
		return v
	}
	return 1
}

// Check runs rapid.Check with the number of checks scaled by mult relative to
// the -rapid.checks value given by the driver (minimum 1).
func Check(t *testing.T, mult float64, prop0 func(*rapid.T)) {
	// Stop counting once a case failed: rapid re-runs the property while shrinking.
	prop := func(rt *rapid.T) {
		defer func() {
			if rt.Failed() {
				markAllFailed()
			}
		}()
		prop0(rt)
	}
	f := flag.Lookup("rapid.checks")
	if f == nil || mult == 1 {
		rapid.Check(t, prop)
		return
	}
	old := f.Value.String()
	base, _ := strconv.Atoi(old)
	n := int(float64(base) * mult)
	if n < 1 {
		n = 1
	}
	flag.Set("rapid.checks", strconv.Itoa(n))
	defer flag.Set("rapid.checks", old)
	rapid.Check(t, prop)
}

// Known reports whether a known-finding class is listed in $VERIF_KNOWN_CLASSES
// (comma separated "test/class" entries, written by the driver from known_findings.json).
func Known(test, class string) bool {
	v := os.Getenv("VERIF_KNOWN_CLASSES")
	if v == "" {
		return false
	}
	want := test + "/" + class
	start := 0
	for i := 0; i <= len(v); i++ {
		if i == len(v) || v[i] == ',' {
			if v[start:i] == want {
				return true
			}
			start = i + 1
		}
	}
	return false
}

// Shard returns the shard index of this process ($VERIF_SHARD, default 0).
func Shard() int {
	n, _ := strconv.Atoi(os.Getenv("VERIF_SHARD"))
	return n
}

// OnlyShard0 skips deterministic (enumerating) tests in all but the first shard so
// that sharded thorough runs do not repeat the same enumeration.
func OnlyShard0(t testing.TB) {
	if Shard() != 0 {
		t.Skip("deterministic enumeration runs in shard 0 only")
	}
}
