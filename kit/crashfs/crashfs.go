// Package crashfs models what a directory of files may look like after the
// process that writes it stops at an arbitrary instant (DESIGN §2.7).
//
// It is pure (stdlib + rapid) and passive: it only reads the directory under
// observation and writes crash images into other directories.
//
// Concepts
//
//   - Snapshot: an exact in-memory copy of all regular files below a directory.
//   - Tracker: observes one directory over time. The owner calls Observe() at
//     every instant it controls (operation boundaries, callbacks) and Sync()
//     whenever a durability barrier for the directory has completed. Between
//     two barriers the tracker maintains, per file,
//     Durable = length of the prefix that is known to be on stable storage and
//     unchanged since (it shrinks when the file is truncated or its prefix is
//     rewritten), Fresh = the file was created after the last barrier (its
//     directory entry may be lost), and for files declared "in place" (small
//     files rewritten at offset 0, e.g. a 20 byte metadata record) the list of
//     distinct contents seen since the barrier.
//   - State: what Observe returns - the current contents plus the durability
//     bookkeeping at that instant. A crash image of a State is, per file,
//     real bytes [0:Keep] followed by zero bytes [Keep:Len] with
//     Durable <= Keep <= Len <= current size  ("unsynced data is lost or left as
//     a zero-filled extension"), a Fresh file may be missing altogether, and an
//     in-place file is one of its recorded versions (sub-sector writes are
//     assumed atomic). Truncations and deletions are treated as durable as soon
//     as they are observed.
//
// Under-estimating durability (calling Sync less often than the program really
// fsyncs) yields a superset of the real crash states; callers that know about
// couplings between files (e.g. "this metadata version implies that much of the
// index is durable") must add those constraints themselves when choosing cuts.
package crashfs

import (
	"bytes"
	"fmt"
	"hash/fnv"
	"io/fs"
	"os"
	"path/filepath"
	"sort"
	"syscall"

	"pgregory.net/rapid"
)

// Snapshot is an exact copy of the regular files below a directory, keyed by
// slash-separated path relative to that directory.
type Snapshot struct {
	Files map[string][]byte
	inode map[string]uint64 // identity of each file when read from disk (0 if unknown)
}

// Snap reads all regular files below dir (recursively).
func Snap(dir string) (*Snapshot, error) {
	s := &Snapshot{Files: map[string][]byte{}, inode: map[string]uint64{}}
	err := filepath.WalkDir(dir, func(p string, d fs.DirEntry, err error) error {
		if err != nil {
			return err
		}
		if !d.Type().IsRegular() {
			return nil
		}
		rel, err := filepath.Rel(dir, p)
		if err != nil {
			return err
		}
		b, err := os.ReadFile(p)
		if err != nil {
			return err
		}
		s.Files[filepath.ToSlash(rel)] = b
		if info, err := d.Info(); err == nil {
			if st, ok := info.Sys().(*syscall.Stat_t); ok {
				s.inode[filepath.ToSlash(rel)] = st.Ino
			}
		}
		return nil
	})
	if err != nil {
		return nil, err
	}
	return s, nil
}

// Names returns the file names in sorted order.
func (s *Snapshot) Names() []string {
	names := make([]string, 0, len(s.Files))
	for n := range s.Files {
		names = append(names, n)
	}
	sort.Strings(names)
	return names
}

// WriteTo materialises the snapshot below dir (created if needed).
func (s *Snapshot) WriteTo(dir string) error {
	for _, n := range s.Names() {
		if err := writeFile(dir, n, s.Files[n]); err != nil {
			return err
		}
	}
	return nil
}

func writeFile(dir, rel string, data []byte) error {
	p := filepath.Join(dir, filepath.FromSlash(rel))
	if err := os.MkdirAll(filepath.Dir(p), 0o755); err != nil {
		return err
	}
	return os.WriteFile(p, data, 0o644)
}

// File is the state of one file at an observed instant.
type File struct {
	Name     string
	Data     []byte   // current content
	Durable  int64    // prefix length known to be on stable storage (append-only model)
	Fresh    bool     // created since the last barrier: may be absent after a crash
	InPlace  bool     // rewritten in place: crash variants are Versions, not cuts
	Versions [][]byte // InPlace only: distinct contents since the last barrier, oldest (durable) first, current last
	Replaced bool     // the name referred to another file (inode) at the previous observation
	inode    uint64
}

// Size is the current length.
func (f *File) Size() int64 { return int64(len(f.Data)) }

// State is the directory at one observed instant with durability bookkeeping.
type State struct {
	Seq   int    // observation counter of the tracker (0-based)
	Files []File // sorted by name
}

// File returns the named file or nil.
func (s *State) File(name string) *File {
	i := sort.Search(len(s.Files), func(i int) bool { return s.Files[i].Name >= name })
	if i < len(s.Files) && s.Files[i].Name == name {
		return &s.Files[i]
	}
	return nil
}

// Tracker observes one directory over time.
type Tracker struct {
	dir     string
	inPlace func(name string) bool
	ignore  func(name string) bool
	atomic  func(name string) bool
	seq     int
	files   map[string]*File
}

// AtomicReplace declares which files the observed program only ever replaces as a
// whole by "write temp file, fsync, rename" (so a replaced file is completely
// durable at once). A replaced file not covered by this is a deleted and
// re-created file: nothing of it is durable and it is fresh.
func (t *Tracker) AtomicReplace(fn func(name string) bool) { t.atomic = fn }

// NewTracker creates a tracker for dir. inPlace (may be nil) tells which files
// are rewritten in place rather than appended to; ignore (may be nil) excludes
// files (e.g. lock files) from observation.
func NewTracker(dir string, inPlace, ignore func(name string) bool) *Tracker {
	return &Tracker{dir: dir, inPlace: inPlace, ignore: ignore, files: map[string]*File{}}
}

func commonPrefix(a, b []byte) int64 {
	n := len(a)
	if len(b) < n {
		n = len(b)
	}
	for i := 0; i < n; i++ {
		if a[i] != b[i] {
			return int64(i)
		}
	}
	return int64(n)
}

// Observe snapshots the directory now and updates the bookkeeping: files that
// disappeared are forgotten (deletion is durable), new files start with
// Durable=0 and Fresh=true, a file whose durable prefix shrank or changed keeps
// only the unchanged part as durable, a name that now refers to another inode is
// either an atomically replaced file (fully durable, see AtomicReplace) or a
// re-created one (fresh, nothing durable), in-place files record a new version
// when their content changed.
func (t *Tracker) Observe() (*State, error) {
	snap, err := Snap(t.dir)
	if err != nil {
		return nil, err
	}
	next := map[string]*File{}
	for name, data := range snap.Files {
		if t.ignore != nil && t.ignore(name) {
			continue
		}
		old := t.files[name]
		f := &File{Name: name, Data: data, inode: snap.inode[name]}
		f.InPlace = t.inPlace != nil && t.inPlace(name)
		if old != nil && old.inode != 0 && f.inode != 0 && old.inode != f.inode {
			f.Replaced = true
			if !f.InPlace {
				if t.atomic != nil && t.atomic(name) {
					f.Durable = int64(len(data))
				} else {
					f.Fresh = true
				}
				next[name] = f
				continue
			}
		}
		if old == nil {
			f.Fresh = true
			if f.InPlace {
				f.Versions = [][]byte{data}
			}
		} else {
			f.Fresh = old.Fresh
			if f.InPlace {
				f.Versions = old.Versions
				if !bytes.Equal(old.Versions[len(old.Versions)-1], data) {
					f.Versions = append(append([][]byte{}, old.Versions...), data)
				}
			} else {
				d := old.Durable
				if d > int64(len(old.Data)) {
					d = int64(len(old.Data))
				}
				f.Durable = commonPrefix(old.Data[:d], data)
			}
		}
		next[name] = f
	}
	t.files = next
	st := &State{Seq: t.seq}
	t.seq++
	names := make([]string, 0, len(next))
	for n := range next {
		names = append(names, n)
	}
	sort.Strings(names)
	for _, n := range names {
		st.Files = append(st.Files, *next[n])
	}
	return st, nil
}

// Sync declares that a durability barrier covering the named files (all files
// if none are named) completed after the last Observe: their last observed
// content is durable, they are no longer fresh, in-place history collapses to
// the current version. Call Observe first so that "last observed" is current.
func (t *Tracker) Sync(names ...string) {
	mark := func(f *File) {
		f.Durable = int64(len(f.Data))
		f.Fresh = false
		if f.InPlace {
			f.Versions = [][]byte{f.Data}
		}
	}
	if len(names) == 0 {
		for _, f := range t.files {
			mark(f)
		}
		return
	}
	for _, n := range names {
		if f := t.files[n]; f != nil {
			mark(f)
		}
	}
}

// Cut selects the crash variant of one file.
type Cut struct {
	Keep    int64 // real bytes kept (append-only files)
	Len     int64 // resulting length; bytes [Keep:Len] are zero
	Missing bool  // file absent (only valid for Fresh files)
	Version int   // InPlace files: index into Versions
}

// Cuts maps file name to its variant. Files without an entry are kept as they are.
type Cuts map[string]Cut

// KeepAll is the process-kill image: nothing is lost.
func (s *State) KeepAll() Cuts {
	c := Cuts{}
	for i := range s.Files {
		f := &s.Files[i]
		if f.InPlace {
			c[f.Name] = Cut{Version: len(f.Versions) - 1}
		} else {
			c[f.Name] = Cut{Keep: f.Size(), Len: f.Size()}
		}
	}
	return c
}

// LoseAll is the image where everything not known durable is gone (no zero fill,
// fresh files missing if dropFresh).
func (s *State) LoseAll(dropFresh bool) Cuts {
	c := Cuts{}
	for i := range s.Files {
		f := &s.Files[i]
		switch {
		case f.InPlace:
			c[f.Name] = Cut{Version: 0}
		case f.Fresh && dropFresh && f.Durable == 0:
			c[f.Name] = Cut{Missing: true}
		default:
			c[f.Name] = Cut{Keep: f.Durable, Len: f.Durable}
		}
	}
	return c
}

// Validate checks that the cuts are inside the crash-state family of s.
func (s *State) Validate(cuts Cuts) error {
	for name, c := range cuts {
		f := s.File(name)
		if f == nil {
			return fmt.Errorf("crashfs: cut for unknown file %q", name)
		}
		if c.Missing {
			if !f.Fresh {
				return fmt.Errorf("crashfs: %q is not fresh, cannot be missing", name)
			}
			continue
		}
		if f.InPlace {
			if c.Version < 0 || c.Version >= len(f.Versions) {
				return fmt.Errorf("crashfs: %q version %d out of range (%d)", name, c.Version, len(f.Versions))
			}
			continue
		}
		if !(f.Durable <= c.Keep && c.Keep <= c.Len && c.Len <= f.Size()) {
			return fmt.Errorf("crashfs: %q cut keep=%d len=%d outside durable=%d size=%d", name, c.Keep, c.Len, f.Durable, f.Size())
		}
	}
	return nil
}

// Render returns the crash image as a snapshot.
func (s *State) Render(cuts Cuts) (*Snapshot, error) {
	if err := s.Validate(cuts); err != nil {
		return nil, err
	}
	out := &Snapshot{Files: map[string][]byte{}}
	for i := range s.Files {
		f := &s.Files[i]
		c, ok := cuts[f.Name]
		switch {
		case !ok:
			out.Files[f.Name] = f.Data
		case c.Missing:
		case f.InPlace:
			out.Files[f.Name] = f.Versions[c.Version]
		default:
			b := make([]byte, c.Len)
			copy(b, f.Data[:c.Keep])
			out.Files[f.Name] = b
		}
	}
	return out, nil
}

// Image writes the crash image below dir.
func (s *State) Image(dir string, cuts Cuts) error {
	snap, err := s.Render(cuts)
	if err != nil {
		return err
	}
	if err := os.MkdirAll(dir, 0o755); err != nil {
		return err
	}
	return snap.WriteTo(dir)
}

// StrictCut reports whether some append-only file is cut strictly between its
// durable and current size (by its kept or its zero-extended length), or a
// non-final version of an in-place file was chosen while a newer one exists.
func (s *State) StrictCut(cuts Cuts) bool {
	for name, c := range cuts {
		f := s.File(name)
		if f == nil || c.Missing || f.InPlace {
			continue
		}
		if (c.Keep > f.Durable && c.Keep < f.Size()) || (c.Len > f.Durable && c.Len < f.Size()) {
			return true
		}
	}
	return false
}

// Digest is a stable hash of a rendered image (names and contents), usable as a
// distinctness descriptor.
func (sn *Snapshot) Digest() uint64 {
	h := fnv.New64a()
	for _, n := range sn.Names() {
		h.Write([]byte(n))
		h.Write([]byte{0})
		var l [8]byte
		d := sn.Files[n]
		for i := 0; i < 8; i++ {
			l[i] = byte(len(d) >> (8 * i))
		}
		h.Write(l[:])
		h.Write(d)
	}
	return h.Sum64()
}

// DrawCut draws a variant for an append-only file with the additional lower
// bound minKeep on the kept prefix (use 0 for none). Extremes are first-class:
// all kept, all lost, lost-with-zero-extension to the full size.
func DrawCut(rt *rapid.T, f *File, minKeep int64, label string) Cut {
	lo := f.Durable
	if minKeep > lo {
		lo = minKeep
	}
	hi := f.Size()
	if lo > hi {
		lo = hi
	}
	if lo == hi {
		return Cut{Keep: hi, Len: hi}
	}
	switch rapid.IntRange(0, 5).Draw(rt, label+"/kind") {
	case 0:
		return Cut{Keep: hi, Len: hi}
	case 1:
		return Cut{Keep: lo, Len: lo}
	case 2:
		return Cut{Keep: lo, Len: hi}
	case 3:
		k := rapid.Int64Range(lo, hi).Draw(rt, label+"/keep")
		return Cut{Keep: k, Len: k}
	case 4:
		k := rapid.Int64Range(lo, hi).Draw(rt, label+"/keep")
		return Cut{Keep: k, Len: hi}
	default:
		k := rapid.Int64Range(lo, hi).Draw(rt, label+"/keep")
		l := rapid.Int64Range(k, hi).Draw(rt, label+"/len")
		return Cut{Keep: k, Len: l}
	}
}
