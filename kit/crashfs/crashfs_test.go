package crashfs

import (
	"bytes"
	"os"
	"path/filepath"
	"testing"
)

func write(t *testing.T, dir, name string, data []byte) {
	t.Helper()
	if err := os.WriteFile(filepath.Join(dir, name), data, 0o644); err != nil {
		t.Fatal(err)
	}
}

func TestTrackerBookkeeping(t *testing.T) {
	dir := t.TempDir()
	tr := NewTracker(dir, func(n string) bool { return n == "meta" }, func(n string) bool { return n == "LOCK" })
	tr.AtomicReplace(func(n string) bool { return n == "idx" })
	write(t, dir, "LOCK", nil)
	write(t, dir, "data", []byte("abcdef"))
	write(t, dir, "idx", []byte("111"))
	write(t, dir, "meta", []byte("v0"))
	s, err := tr.Observe()
	if err != nil {
		t.Fatal(err)
	}
	if s.File("LOCK") != nil || s.File("data") == nil || !s.File("data").Fresh || s.File("data").Durable != 0 {
		t.Fatalf("first observation wrong: %+v", s.Files)
	}
	tr.Sync()
	// append, in-place rewrite
	write(t, dir, "data", []byte("abcdefghij"))
	write(t, dir, "meta", []byte("v1"))
	s, _ = tr.Observe()
	d := s.File("data")
	if d.Durable != 6 || d.Fresh || d.Size() != 10 {
		t.Fatalf("after append: %+v", d)
	}
	if m := s.File("meta"); len(m.Versions) != 2 || string(m.Versions[0]) != "v0" || string(m.Versions[1]) != "v1" {
		t.Fatalf("meta versions: %q", m.Versions)
	}
	// images
	if err := s.Validate(Cuts{"data": {Keep: 5, Len: 5}}); err == nil {
		t.Fatal("cut below durable accepted")
	}
	img, err := s.Render(Cuts{"data": {Keep: 7, Len: 9}, "meta": {Version: 0}})
	if err != nil {
		t.Fatal(err)
	}
	if !bytes.Equal(img.Files["data"], []byte("abcdefg\x00\x00")) || string(img.Files["meta"]) != "v0" || string(img.Files["idx"]) != "111" {
		t.Fatalf("image: %q", img.Files)
	}
	if !s.StrictCut(Cuts{"data": {Keep: 7, Len: 9}}) || s.StrictCut(s.KeepAll()) || s.StrictCut(s.LoseAll(true)) {
		t.Fatal("StrictCut")
	}
	// truncation is durable, durable prefix shrinks
	write(t, dir, "data", []byte("abc"))
	s, _ = tr.Observe()
	if d := s.File("data"); d.Durable != 3 {
		t.Fatalf("after truncate: %+v", d)
	}
	// atomic replace of idx (new inode) is fully durable; re-created data file is fresh
	tmp := filepath.Join(dir, "tmp")
	if err := os.WriteFile(tmp, []byte("2222"), 0o644); err != nil {
		t.Fatal(err)
	}
	if err := os.Rename(tmp, filepath.Join(dir, "idx")); err != nil {
		t.Fatal(err)
	}
	// keep the old inode alive while the new file is created so the number cannot be reused
	old, err := os.Open(filepath.Join(dir, "data"))
	if err != nil {
		t.Fatal(err)
	}
	defer old.Close()
	os.Remove(filepath.Join(dir, "data"))
	write(t, dir, "data", []byte("abcxyz"))
	s, _ = tr.Observe()
	if i := s.File("idx"); !i.Replaced || i.Durable != 4 || i.Fresh {
		t.Fatalf("replaced idx: %+v", i)
	}
	if d := s.File("data"); !d.Replaced || d.Durable != 0 || !d.Fresh {
		t.Fatalf("re-created data: %+v", d)
	}
	lost, err := s.Render(s.LoseAll(true))
	if err != nil {
		t.Fatal(err)
	}
	if _, ok := lost.Files["data"]; ok || string(lost.Files["idx"]) != "2222" || string(lost.Files["meta"]) != "v0" {
		t.Fatalf("lose-all image: %q", lost.Files)
	}
	// deletion is durable
	os.Remove(filepath.Join(dir, "data"))
	s, _ = tr.Observe()
	if s.File("data") != nil {
		t.Fatal("deleted file still tracked")
	}
	out := t.TempDir()
	if err := s.Image(out, s.KeepAll()); err != nil {
		t.Fatal(err)
	}
	back, _ := Snap(out)
	if back.Digest() != mustRender(t, s).Digest() {
		t.Fatal("image on disk differs from rendered image")
	}
}

func mustRender(t *testing.T, s *State) *Snapshot {
	sn, err := s.Render(s.KeepAll())
	if err != nil {
		t.Fatal(err)
	}
	return sn
}
