module verif.local/kit

go 1.24.0

require (
	golang.org/x/crypto v0.48.0
	pgregory.net/rapid v1.3.0
)

require golang.org/x/sys v0.41.0 // indirect
