module verif.local/kit

go 1.24.0

require pgregory.net/rapid v1.3.0
