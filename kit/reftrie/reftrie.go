// Package reftrie is an independent reference construction of the Merkle-Patricia
// trie (Yellow Paper appendix D) over a finite key/value set: root hash and the
// set of stored nodes (path -> RLP blob). It uses x/crypto's legacy Keccak and
// refrlp, and shares no code with geth's trie package.
package reftrie

import (
	"sort"

	"golang.org/x/crypto/sha3"
	"verif.local/kit/refrlp"
)

// Keccak256 hashes with x/crypto's legacy Keccak-256.
func Keccak256(data ...[]byte) [32]byte {
	h := sha3.NewLegacyKeccak256()
	for _, d := range data {
		h.Write(d)
	}
	var out [32]byte
	h.Sum(out[:0])
	return out
}

// EmptyRoot is the root of the empty trie: keccak(rlp("")).
var EmptyRoot = Keccak256([]byte{0x80})

// Result of a construction.
type Result struct {
	Root [32]byte
	// Nodes maps the nibble path (one byte per nibble) of every node that is stored on
	// its own (encoding >= 32 bytes, or the root) to its RLP blob.
	Nodes map[string][]byte
	// ByHash maps keccak(blob) to blob for the same nodes.
	ByHash map[[32]byte][]byte
	// Leaves counts leaves, Embedded counts nodes embedded in their parent.
	Leaves, Embedded int
}

type entry struct {
	nib []byte
	val []byte
}

func toNibbles(k []byte) []byte {
	out := make([]byte, 0, 2*len(k))
	for _, b := range k {
		out = append(out, b>>4, b&0x0f)
	}
	return out
}

func hp(nib []byte, term bool) []byte {
	f := byte(0)
	if term {
		f = 2
	}
	var out []byte
	if len(nib)%2 == 1 {
		out = append(out, 16*(f+1)+nib[0])
		nib = nib[1:]
	} else {
		out = append(out, 16*f)
	}
	for i := 0; i < len(nib); i += 2 {
		out = append(out, 16*nib[i]+nib[i+1])
	}
	return out
}

// Build constructs the trie of the given key/value map (keys are raw byte keys; no
// key may be a proper prefix of another; entries with empty values are ignored,
// matching "empty value = deletion").
func Build(kv map[string][]byte) *Result {
	es := make([]entry, 0, len(kv))
	for k, v := range kv {
		if len(v) == 0 {
			continue
		}
		es = append(es, entry{toNibbles([]byte(k)), v})
	}
	sort.Slice(es, func(i, j int) bool { return string(es[i].nib) < string(es[j].nib) })
	r := &Result{Nodes: map[string][]byte{}, ByHash: map[[32]byte][]byte{}}
	if len(es) == 0 {
		r.Root = EmptyRoot
		return r
	}
	enc := r.build(es, 0, nil)
	r.store(nil, enc)
	r.Root = Keccak256(enc)
	return r
}

func (r *Result) store(path, enc []byte) {
	r.Nodes[string(path)] = enc
	r.ByHash[Keccak256(enc)] = enc
}

// ref returns the reference to a child encoding (embedded or hash) and stores
// the node when it is hashed.
func (r *Result) ref(path, enc []byte) []byte {
	if len(enc) < 32 {
		r.Embedded++
		return enc
	}
	r.store(path, enc)
	h := Keccak256(enc)
	return refrlp.EncodeString(h[:])
}

// build returns the RLP encoding of the node holding es, whose keys all share
// the first depth nibbles; path is that shared prefix.
func (r *Result) build(es []entry, depth int, path []byte) []byte {
	if len(es) == 1 {
		r.Leaves++
		payload := append(refrlp.EncodeString(hp(es[0].nib[depth:], true)), refrlp.EncodeString(es[0].val)...)
		return refrlp.WrapList(payload)
	}
	// common prefix beyond depth
	first, last := es[0].nib, es[len(es)-1].nib
	cp := 0
	for depth+cp < len(first) && depth+cp < len(last) && first[depth+cp] == last[depth+cp] {
		cp++
	}
	if cp > 0 {
		cpath := append(append([]byte{}, path...), first[depth:depth+cp]...)
		child := r.build(es, depth+cp, cpath)
		payload := append(refrlp.EncodeString(hp(first[depth:depth+cp], false)), r.ref(cpath, child)...)
		return refrlp.WrapList(payload)
	}
	var payload []byte
	i := 0
	for n := byte(0); n < 16; n++ {
		j := i
		for j < len(es) && es[j].nib[depth] == n {
			j++
		}
		if j == i {
			payload = append(payload, 0x80)
			continue
		}
		cpath := append(append([]byte{}, path...), n)
		child := r.build(es[i:j], depth+1, cpath)
		payload = append(payload, r.ref(cpath, child)...)
		i = j
	}
	payload = append(payload, 0x80) // branch value slot: keys are never prefixes of others
	return refrlp.WrapList(payload)
}

// Root is a convenience wrapper.
func Root(kv map[string][]byte) [32]byte { return Build(kv).Root }
