package reftrie

import (
	"encoding/hex"
	"testing"
)

func TestVectors(t *testing.T) {
	if hex.EncodeToString(EmptyRoot[:]) != "56e81f171bcc55a6ff8345e692c0f86e5b48e01b996cadc001622fb5e363b421" {
		t.Fatal("empty root")
	}
	// vectors from geth trie tests (TestInsert)
	r := Root(map[string][]byte{"A": []byte("aaaaaaaaaaaaaaaaaaaaaaaaaaaaaaaaaaaaaaaaaaaaaaaaaaaaaaaaaaaaaaaaaaaaaaaaaaaaaaaaaaaaaaaaaaaaaaaaaaaaaaaaaaaaaaaaaa"[:50])})
	if hex.EncodeToString(r[:]) != "d23786fb4a010da3ce639d66d5e904a11dbc02746d1ce25029e53290cabf28ab" {
		t.Fatalf("single root %x", r)
	}
}
