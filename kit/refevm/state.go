package refevm

import (
	"math/big"

	"golang.org/x/crypto/sha3"
	"verif.local/kit/refrlp"
	"verif.local/kit/reftrie"
)

// state is everything a reverting frame restores. A snapshot is a deep copy.
type state struct {
	accts      World
	transient  map[Addr]map[Hash]Hash
	warmAddr   map[Addr]bool
	warmSlot   map[Addr]map[Hash]bool
	refund     int64
	logs       []Log
	created    map[Addr]bool // accounts created in the current transaction (EIP-6780)
	destructed map[Addr]bool // accounts to delete at the end of the transaction
}

func newState(w World) *state {
	s := &state{accts: w}
	s.resetTx()
	return s
}

// resetTx clears everything that lives for one transaction only.
func (s *state) resetTx() {
	s.transient = map[Addr]map[Hash]Hash{}
	s.warmAddr = map[Addr]bool{}
	s.warmSlot = map[Addr]map[Hash]bool{}
	s.refund = 0
	s.logs = nil
	s.created = map[Addr]bool{}
	s.destructed = map[Addr]bool{}
}

func (s *state) copy() *state {
	c := &state{
		accts:      s.accts.Copy(),
		transient:  make(map[Addr]map[Hash]Hash, len(s.transient)),
		warmAddr:   make(map[Addr]bool, len(s.warmAddr)),
		warmSlot:   make(map[Addr]map[Hash]bool, len(s.warmSlot)),
		refund:     s.refund,
		logs:       append([]Log(nil), s.logs...),
		created:    make(map[Addr]bool, len(s.created)),
		destructed: make(map[Addr]bool, len(s.destructed)),
	}
	for a, m := range s.transient {
		cm := make(map[Hash]Hash, len(m))
		for k, v := range m {
			cm[k] = v
		}
		c.transient[a] = cm
	}
	for a := range s.warmAddr {
		c.warmAddr[a] = true
	}
	for a, m := range s.warmSlot {
		cm := make(map[Hash]bool, len(m))
		for k := range m {
			cm[k] = true
		}
		c.warmSlot[a] = cm
	}
	for a := range s.created {
		c.created[a] = true
	}
	for a := range s.destructed {
		c.destructed[a] = true
	}
	return c
}

// get returns the account or nil.
func (s *state) get(a Addr) *Acct { return s.accts[a] }

// mut returns the account for modification, creating it when absent.
func (s *state) mut(a Addr) *Acct {
	acc := s.accts[a]
	if acc == nil {
		acc = newAcct()
		s.accts[a] = acc
	}
	return acc
}

// dead: non-existent or empty (EIP-161).
func (s *state) dead(a Addr) bool {
	acc := s.accts[a]
	return acc == nil || acc.Empty()
}

func (s *state) balance(a Addr) *big.Int {
	if acc := s.accts[a]; acc != nil {
		return acc.Balance
	}
	return new(big.Int)
}

func (s *state) nonce(a Addr) uint64 {
	if acc := s.accts[a]; acc != nil {
		return acc.Nonce
	}
	return 0
}

func (s *state) code(a Addr) []byte {
	if acc := s.accts[a]; acc != nil {
		return acc.Code
	}
	return nil
}

func (s *state) storage(a Addr, k Hash) Hash {
	if acc := s.accts[a]; acc != nil {
		return acc.Storage[k]
	}
	return Hash{}
}

func (s *state) setStorage(a Addr, k, v Hash) {
	acc := s.mut(a)
	if v == (Hash{}) {
		delete(acc.Storage, k)
	} else {
		acc.Storage[k] = v
	}
}

func (s *state) addBalance(a Addr, v *big.Int) {
	acc := s.mut(a)
	acc.Balance = new(big.Int).Add(acc.Balance, v)
}

func (s *state) subBalance(a Addr, v *big.Int) {
	acc := s.mut(a)
	acc.Balance = new(big.Int).Sub(acc.Balance, v)
	if acc.Balance.Sign() < 0 {
		panic("refevm: negative balance")
	}
}

// hasCodeOrNonceOrStorage is the collision predicate of EIP-684/EIP-7610.
func (s *state) hasCodeOrNonceOrStorage(a Addr) bool {
	acc := s.accts[a]
	return acc != nil && (acc.Nonce != 0 || len(acc.Code) != 0 || len(acc.Storage) != 0)
}

// warmA marks an address accessed and reports whether it already was.
func (s *state) warmA(a Addr) bool {
	was := s.warmAddr[a]
	s.warmAddr[a] = true
	return was
}

// warmS marks a storage slot accessed and reports whether it already was.
func (s *state) warmS(a Addr, k Hash) bool {
	m := s.warmSlot[a]
	if m == nil {
		m = map[Hash]bool{}
		s.warmSlot[a] = m
	}
	was := m[k]
	m[k] = true
	return was
}

// dropEmpty removes every empty account (see the package comment).
func (s *state) dropEmpty() {
	for a, acc := range s.accts {
		if acc.Empty() && len(acc.Storage) == 0 {
			delete(s.accts, a)
		}
	}
}

// ---------------------------------------------------------------------------
// Hashing, addresses, state root
// ---------------------------------------------------------------------------

// Keccak256 hashes the concatenation of the arguments.
func Keccak256(data ...[]byte) Hash {
	h := sha3.NewLegacyKeccak256()
	for _, d := range data {
		h.Write(d)
	}
	var out Hash
	h.Sum(out[:0])
	return out
}

// EmptyCodeHash is keccak256 of the empty string.
var EmptyCodeHash = Keccak256()

// CreateAddress is the CREATE address: keccak256(rlp([sender, nonce]))[12:].
func CreateAddress(sender Addr, nonce uint64) Addr {
	enc := refrlp.Encode(refrlp.L(refrlp.S(sender[:]), refrlp.Uint(nonce)))
	h := Keccak256(enc)
	var a Addr
	copy(a[:], h[12:])
	return a
}

// Create2Address is keccak256(0xff ++ sender ++ salt ++ keccak256(initcode))[12:].
func Create2Address(sender Addr, salt Hash, initcode []byte) Addr {
	ch := Keccak256(initcode)
	h := Keccak256([]byte{0xff}, sender[:], salt[:], ch[:])
	var a Addr
	copy(a[:], h[12:])
	return a
}

func trimLeft(b []byte) []byte {
	for len(b) > 0 && b[0] == 0 {
		b = b[1:]
	}
	return b
}

// StorageRoot is the root of the storage trie: keccak(key) -> rlp(trimmed value).
func StorageRoot(st map[Hash]Hash) Hash {
	kv := make(map[string][]byte, len(st))
	for k, v := range st {
		if v == (Hash{}) {
			continue
		}
		hk := Keccak256(k[:])
		kv[string(hk[:])] = refrlp.EncodeString(trimLeft(v[:]))
	}
	return Hash(reftrie.Root(kv))
}

// StateRoot is the root of the account trie:
// keccak(address) -> rlp([nonce, balance, storageRoot, codeHash]).
func StateRoot(w World) Hash {
	kv := make(map[string][]byte, len(w))
	for a, acc := range w {
		sr := StorageRoot(acc.Storage)
		ch := Keccak256(acc.Code)
		enc := refrlp.Encode(refrlp.L(refrlp.Uint(acc.Nonce), refrlp.BigInt(acc.Balance), refrlp.S(sr[:]), refrlp.S(ch[:])))
		hk := Keccak256(a[:])
		kv[string(hk[:])] = enc
	}
	return Hash(reftrie.Root(kv))
}

// Bloom is the Yellow Paper logs bloom M3:2048 over the address and the topics of
// every log: three 11-bit indices from the first three byte pairs of the Keccak
// hash, bit 0 being the least significant bit of the last byte.
func Bloom(logs []Log) [256]byte {
	var b [256]byte
	add := func(x []byte) {
		h := Keccak256(x)
		for i := 0; i < 6; i += 2 {
			idx := (uint(h[i])<<8 | uint(h[i+1])) & 2047
			b[255-idx/8] |= 1 << (idx % 8)
		}
	}
	for _, l := range logs {
		add(l.Addr[:])
		for _, t := range l.Topics {
			add(t[:])
		}
	}
	return b
}
