package refevm

import (
	"encoding/hex"
	"math/big"
	"testing"
)

type noHost struct{}

func (noHost) PrecompileGas(Fork, Addr, []byte) uint64         { return 0 }
func (noHost) PrecompileRun(Fork, Addr, []byte) ([]byte, bool) { return nil, true }

func TestKnownVectors(t *testing.T) {
	// empty trie root and empty code hash (Yellow Paper constants)
	if got := hex.EncodeToString(func() []byte { h := StateRoot(World{}); return h[:] }()); got != "56e81f171bcc55a6ff8345e692c0f86e5b48e01b996cadc001622fb5e363b421" {
		t.Fatalf("empty state root %s", got)
	}
	if got := hex.EncodeToString(EmptyCodeHash[:]); got != "c5d2460186f7233c927e7db2dcc703c0e500b653ca82273b7bfad8045d85a470" {
		t.Fatalf("empty code hash %s", got)
	}
	// CREATE address of sender 0x6ac7ea33f8831ea9dcc53393aaa88b25a785dbf0 nonce 0 (widely published vector)
	s, _ := hex.DecodeString("6ac7ea33f8831ea9dcc53393aaa88b25a785dbf0")
	var sender Addr
	copy(sender[:], s)
	if got := hex.EncodeToString(func() []byte { a := CreateAddress(sender, 0); return a[:] }()); got != "cd234a471b72ba2f1ccf0a70fcaba648a5eecd8d" {
		t.Fatalf("create address %s", got)
	}
	// EIP-1014 example 1: address 0x00..00, salt 0, init_code 0x00
	if got := hex.EncodeToString(func() []byte { a := Create2Address(Addr{}, Hash{}, []byte{0}); return a[:] }()); got != "4d1a2e2bb4f88f0250f26ffff098b0b30b26bf38" {
		t.Fatalf("create2 address %s", got)
	}
	// DepositEvent topic (EIP-6110)
	if got := hex.EncodeToString(DepositEventTopic[:]); got != "649bbc62d0e31342afea4e5cd82d4049e7e1ee912fc0889aa790803be39038c5" {
		t.Fatalf("deposit topic %s", got)
	}
}

func TestPlainTransferAndSstore(t *testing.T) {
	from, to := Addr{1}, Addr{2}
	// PUSH1 2 PUSH1 3 ADD PUSH0 SSTORE STOP  -> slot0 = 5; gas 21000 + 3+3+3+2+22100
	code := []byte{0x60, 0x02, 0x60, 0x03, 0x01, 0x5f, 0x55, 0x00}
	pre := World{
		from: {Balance: big.NewInt(1e18), Storage: map[Hash]Hash{}},
		to:   {Nonce: 1, Balance: new(big.Int), Code: code, Storage: map[Hash]Hash{}},
	}
	env := &Env{Fork: Cancun, ChainID: big.NewInt(1), Coinbase: Addr{9}, Number: 1, GasLimit: 30_000_000, BaseFee: big.NewInt(7),
		MaxBlobsPerBlock: 6, BlobUpdateFraction: 3338477}
	tx := &Tx{Type: TxLegacy, From: from, GasLimit: 100000, GasPrice: big.NewInt(10), To: &to, Value: big.NewInt(0)}
	res := Apply(pre, env, []*Tx{tx}, noHost{})
	if len(res.Receipts) != 1 || !res.Receipts[0].Status || res.Receipts[0].GasUsed != 21000+11+22100 {
		t.Fatalf("receipt %+v rejected %+v", res.Receipts, res.Rejected)
	}
	if v := res.Post[to].Storage[Hash{}]; v != (Hash{31: 5}) {
		t.Fatalf("slot0 = %x", v)
	}
	wantFrom := new(big.Int).Sub(big.NewInt(1e18), big.NewInt(10*(21000+11+22100)))
	if res.Post[from].Balance.Cmp(wantFrom) != 0 || res.Post[Addr{9}].Balance.Int64() != 3*(21000+11+22100) {
		t.Fatalf("balances: sender %v coinbase %v", res.Post[from].Balance, res.Post[Addr{9}].Balance)
	}
}
