// Package refevm is a deliberately plain reference implementation of Ethereum block
// execution for the Cancun, Prague and Osaka rule sets, written from the Yellow Paper
// and the EIP texts (EIP-2929/2930/1559/3529/3651/3855/3860/1153/5656/4844/6780/4788/
// 2935/7702/7623/7002/7251/6110/7685/7825/7939/7594 ...). It is the oracle of check
// C26 and shares no code with go-ethereum:
//
//   - words are *big.Int reduced modulo 2^256, with explicit two's complement
//     helpers for the signed operations;
//   - state is a map of accounts; a snapshot is a deep copy of everything that a
//     reverting frame must restore (accounts, transient storage, warm sets, refund
//     counter, logs, created/destroyed sets), so nested revert semantics cannot be
//     wrong by construction;
//   - memory is a byte slice grown in 32-byte words whose quadratic cost is
//     recomputed from scratch at every expansion;
//   - the interpreter is one switch over the opcodes with the gas formula of each
//     opcode written out next to its semantics.
//
// Precompiled contracts other than SHA256 and IDENTITY are not re-implemented:
// their result comes from an injected Host (the harness implements it with geth's
// exported precompile objects, which check C05 covers separately). Their gas price
// is re-derived here for 0x01..0x04 and taken from the Host for the others.
//
// Simplifications, all sound inside the documented input domain:
//
//   - "account does not exist" and "account is empty (EIP-161)" are the same thing:
//     the pre-state must not contain empty accounts, and every way to empty an
//     account in these forks also touches it, so at transaction end all empty
//     accounts are removed.
//   - the pre-state contains no account with storage but without code and nonce
//     (EIP-7610 collisions by storage alone cannot happen).
//   - transaction senders are given (signature recovery is not part of this
//     model); EIP-7702 authorities are recovered through the Host's ECRECOVER.
//   - system contracts are executed as ordinary code with 30M gas from the system
//     address; the warm/cold status of addresses inside a system call and its
//     GASPRICE are not fixed by the EIPs, so the harness only installs code there
//     that cannot observe them (the canonical system contracts).
package refevm

import (
	"math/big"
	"sort"
)

// Fork selects the rule set.
type Fork int

const (
	Cancun Fork = iota
	Prague
	Osaka
)

func (f Fork) String() string { return [...]string{"Cancun", "Prague", "Osaka"}[f] }

type (
	// Addr is an account address.
	Addr [20]byte
	// Hash is a 32-byte word (storage key/value, hash, topic).
	Hash [32]byte
)

// Acct is one account. Storage never holds zero values.
type Acct struct {
	Nonce   uint64
	Balance *big.Int
	Code    []byte
	Storage map[Hash]Hash
}

func newAcct() *Acct { return &Acct{Balance: new(big.Int), Storage: map[Hash]Hash{}} }

func (a *Acct) copy() *Acct {
	c := &Acct{Nonce: a.Nonce, Balance: new(big.Int).Set(a.Balance), Code: a.Code, Storage: make(map[Hash]Hash, len(a.Storage))}
	for k, v := range a.Storage {
		c.Storage[k] = v
	}
	return c
}

// Empty is the EIP-161 predicate.
func (a *Acct) Empty() bool { return a.Nonce == 0 && a.Balance.Sign() == 0 && len(a.Code) == 0 }

// World is the account map.
type World map[Addr]*Acct

// Copy returns a deep copy (code slices are shared; they are never mutated).
func (w World) Copy() World {
	c := make(World, len(w))
	for a, acc := range w {
		c[a] = acc.copy()
	}
	return c
}

// Addrs returns the addresses in ascending order.
func (w World) Addrs() []Addr {
	out := make([]Addr, 0, len(w))
	for a := range w {
		out = append(out, a)
	}
	sort.Slice(out, func(i, j int) bool { return string(out[i][:]) < string(out[j][:]) })
	return out
}

// Log is one log record.
type Log struct {
	Addr   Addr
	Topics []Hash
	Data   []byte
}

// Withdrawal is an EIP-4895 withdrawal (amount in Gwei).
type Withdrawal struct {
	Addr   Addr
	Amount uint64
}

// Env is the block environment.
type Env struct {
	Fork     Fork
	ChainID  *big.Int
	Coinbase Addr
	Number   uint64
	Time     uint64
	GasLimit uint64
	BaseFee  *big.Int
	Random   Hash
	// Blob market (EIP-4844/7691): excess blob gas of this block, maximum number of
	// blobs per block and the base fee update fraction of the active schedule.
	ExcessBlobGas      uint64
	MaxBlobsPerBlock   uint64
	BlobUpdateFraction uint64
	// BlockHashes[n] is the hash of ancestor n (BLOCKHASH serves the last 256).
	BlockHashes map[uint64]Hash
	// ParentBeaconRoot, when set, triggers the EIP-4788 system call.
	ParentBeaconRoot *Hash
	// ParentHash, when set (Prague+), triggers the EIP-2935 system call.
	ParentHash  *Hash
	Withdrawals []Withdrawal
	// DepositContract is the EIP-6110 deposit contract address.
	DepositContract Addr
}

// AccessTuple is one EIP-2930 access list entry.
type AccessTuple struct {
	Addr Addr
	Keys []Hash
}

// Auth is one EIP-7702 authorization tuple.
type Auth struct {
	ChainID *big.Int
	Addr    Addr
	Nonce   uint64
	YParity uint8
	R, S    *big.Int
}

// Transaction types.
const (
	TxLegacy  = 0
	TxAccess  = 1
	TxDynamic = 2
	TxBlob    = 3
	TxSetCode = 4
)

// Tx is a transaction with its sender already recovered.
type Tx struct {
	Type       int
	From       Addr
	Nonce      uint64
	GasLimit   uint64
	GasPrice   *big.Int // types 0, 1
	MaxFee     *big.Int // types 2, 3, 4
	MaxTip     *big.Int // types 2, 3, 4
	To         *Addr    // nil: contract creation
	Value      *big.Int
	Data       []byte
	AccessList []AccessTuple
	MaxBlobFee *big.Int // type 3
	BlobHashes []Hash   // type 3
	Auths      []Auth   // type 4
}

// Receipt is the consensus content of a receipt.
type Receipt struct {
	Status  bool
	GasUsed uint64
	CumGas  uint64
	Logs    []Log
	// Err is the reason of a failed top-level frame (diagnostics only).
	Err string
	// GasBeforeRefund is the gas consumed before the refund and the floor were
	// applied (diagnostics and generator feedback only).
	GasBeforeRefund uint64
}

// Rejected names a transaction that is not includable and every validity rule it
// violates (an implementation may report any one of them).
type Rejected struct {
	Index   int
	Reasons []string
}

// Stats describes how much work the execution did (for non-triviality rules).
type Stats struct {
	Steps       int // instructions executed
	Frames      int // message-call / create frames entered below the top level
	MaxDepth    int
	StateWrites int // SSTORE/TSTORE executed, accounts created, selfdestructs
	Precompiles int
	Creates     int
	Reverts     int // frames that ended by REVERT or exceptional halt
	// Feature counters.
	SelfDestructs      int // SELFDESTRUCT executed
	SelfDestructsFresh int // ... by an account created in the same transaction
	DelegationsSet     int // EIP-7702 authorizations applied
	DelegatedRuns      int // frames whose code was resolved through a delegation
	Collisions         int // create address collisions
	ColdAccesses       int
	RefundedTxs        int // transactions with a non-zero refund
	FlooredTxs         int // transactions lifted to the EIP-7623 floor
	ValueCalls         int // nested calls that moved ether
	Logs               int
}

// Result is the outcome of Apply.
type Result struct {
	Post        World
	Receipts    []Receipt
	Rejected    []Rejected
	GasUsed     uint64
	BlobGasUsed uint64
	// Requests is the EIP-7685 request list (nil before Prague).
	Requests [][]byte
	// Invalid is non-empty when the block as a whole is invalid (a mandatory system
	// call failed or a deposit log is malformed).
	Invalid string
	Stats   Stats
}

// Host supplies what this package deliberately does not re-implement.
type Host interface {
	// PrecompileGas is the price of running the precompile at addr on input.
	PrecompileGas(fork Fork, addr Addr, input []byte) uint64
	// PrecompileRun runs it; ok=false is a precompile failure.
	PrecompileRun(fork Fork, addr Addr, input []byte) (out []byte, ok bool)
}

// ---------------------------------------------------------------------------
// 256-bit words on math/big
// ---------------------------------------------------------------------------

var (
	tt256   = new(big.Int).Lsh(big.NewInt(1), 256)
	tt255   = new(big.Int).Lsh(big.NewInt(1), 255)
	tt64    = new(big.Int).Lsh(big.NewInt(1), 64)
	tt160   = new(big.Int).Lsh(big.NewInt(1), 160)
	maxWord = new(big.Int).Sub(tt256, big.NewInt(1))
)

func bi(v uint64) *big.Int { return new(big.Int).SetUint64(v) }

// wrap reduces any integer into [0, 2^256).
func wrap(x *big.Int) *big.Int { return new(big.Int).Mod(x, tt256) }

// signed interprets a word as a two's complement number.
func signed(x *big.Int) *big.Int {
	if x.Cmp(tt255) >= 0 {
		return new(big.Int).Sub(x, tt256)
	}
	return new(big.Int).Set(x)
}

func boolWord(b bool) *big.Int {
	if b {
		return big.NewInt(1)
	}
	return new(big.Int)
}

func wordToHash(x *big.Int) Hash {
	var h Hash
	x.FillBytes(h[:])
	return h
}

func hashToWord(h Hash) *big.Int { return new(big.Int).SetBytes(h[:]) }

func wordToAddr(x *big.Int) Addr {
	h := wordToHash(x)
	var a Addr
	copy(a[:], h[12:])
	return a
}

func addrToWord(a Addr) *big.Int { return new(big.Int).SetBytes(a[:]) }

func ceil32(n uint64) uint64 { return (n + 31) / 32 }
