package refevm

import (
	"crypto/sha256"
	"math/big"

	"verif.local/kit/refrlp"
)

// Transaction-level constants.
const (
	txBase                = 21000
	txCreate              = 32000 // EIP-2
	txDataZero            = 4
	txDataNonZero         = 16    // EIP-2028
	txAccessAddr          = 2400  // EIP-2930
	txAccessKey           = 1900  // EIP-2930
	perEmptyAccount       = 25000 // EIP-7702 PER_EMPTY_ACCOUNT_COST
	perAuthBase           = 12500 // EIP-7702 PER_AUTH_BASE_COST
	floorPerToken         = 10    // EIP-7623 TOTAL_COST_FLOOR_PER_TOKEN
	gasPerBlob            = 1 << 17
	txMaxGas              = 1 << 24 // EIP-7825
	maxBlobsPerTx         = 6       // EIP-7594
	systemCallGas         = 30_000_000
	refundQuotient        = 5 // EIP-3529
	minBlobBaseFee        = 1
	versionedHashKZG      = 0x01
	setCodeMagic     byte = 0x05
)

var (
	secp256k1N, _  = new(big.Int).SetString("fffffffffffffffffffffffffffffffebaaedce6af48a03bbfd25e8cd0364141", 16)
	secp256k1HalfN = new(big.Int).Rsh(secp256k1N, 1)

	// SystemAddress is the caller of system calls (EIP-4788).
	SystemAddress = Addr{0xff, 0xff, 0xff, 0xff, 0xff, 0xff, 0xff, 0xff, 0xff, 0xff, 0xff, 0xff, 0xff, 0xff, 0xff, 0xff, 0xff, 0xff, 0xff, 0xfe}
	// BeaconRootsAddress is the EIP-4788 contract.
	BeaconRootsAddress = mustAddr("000F3df6D732807Ef1319fB7B8bB8522d0Beac02")
	// HistoryStorageAddress is the EIP-2935 contract.
	HistoryStorageAddress = mustAddr("0000F90827F1C53a10cb7A02335B175320002935")
	// WithdrawalRequestAddress is the EIP-7002 contract.
	WithdrawalRequestAddress = mustAddr("00000961Ef480Eb55e80D19ad83579A64c007002")
	// ConsolidationRequestAddress is the EIP-7251 contract.
	ConsolidationRequestAddress = mustAddr("0000BBdDc7CE488642fb579F8B00f3a590007251")
	// DepositEventTopic is the EIP-6110 DepositEvent signature hash.
	DepositEventTopic = Keccak256([]byte("DepositEvent(bytes,bytes,bytes,bytes,bytes)"))
)

func mustAddr(hex string) Addr {
	v, ok := new(big.Int).SetString(hex, 16)
	if !ok {
		panic("bad address literal")
	}
	var a Addr
	v.FillBytes(a[:])
	return a
}

// fakeExponential is EIP-4844's fake_exponential.
func fakeExponential(factor, numerator, denominator *big.Int) *big.Int {
	i := int64(1)
	output := new(big.Int)
	accum := new(big.Int).Mul(factor, denominator)
	for accum.Sign() > 0 {
		output.Add(output, accum)
		accum.Mul(accum, numerator)
		accum.Div(accum, new(big.Int).Mul(denominator, big.NewInt(i)))
		i++
	}
	return output.Div(output, denominator)
}

// BlobBaseFee is get_base_fee_per_blob_gas of the block.
func BlobBaseFee(env *Env) *big.Int {
	return fakeExponential(big.NewInt(minBlobBaseFee), bi(env.ExcessBlobGas), bi(env.BlobUpdateFraction))
}

// IntrinsicGas returns the intrinsic gas and the EIP-7623 floor (0 before Prague).
func IntrinsicGas(f Fork, tx *Tx) (intrinsic, floor *big.Int) {
	var zeros, nonzeros uint64
	for _, b := range tx.Data {
		if b == 0 {
			zeros++
		} else {
			nonzeros++
		}
	}
	g := new(big.Int).SetUint64(txBase + zeros*txDataZero + nonzeros*txDataNonZero)
	if tx.To == nil {
		g.Add(g, bi(txCreate+gInitcodeWord*ceil32(uint64(len(tx.Data)))))
	}
	for _, t := range tx.AccessList {
		g.Add(g, bi(txAccessAddr+txAccessKey*uint64(len(t.Keys))))
	}
	g.Add(g, bi(perEmptyAccount*uint64(len(tx.Auths))))
	floor = new(big.Int)
	if f >= Prague {
		tokens := zeros + 4*nonzeros
		floor.SetUint64(txBase + floorPerToken*tokens)
	}
	return g, floor
}

// validate collects every validity rule the transaction violates in the current
// state (empty result: includable).
func (vm *machine) validate(tx *Tx, gasAvailable, blobGasAvailable uint64) []string {
	var bad []string
	add := func(s string) { bad = append(bad, s) }
	f := vm.env.Fork

	if tx.Type == TxSetCode && f < Prague {
		return []string{"tx-type-unsupported"}
	}
	intrinsic, floor := IntrinsicGas(f, tx)
	if intrinsic.Cmp(bi(tx.GasLimit)) > 0 {
		add("intrinsic-gas")
	}
	if floor.Cmp(bi(tx.GasLimit)) > 0 {
		add("floor-gas")
	}
	if tx.Nonce == 1<<64-1 {
		add("nonce-max")
	}
	if tx.To == nil && len(tx.Data) > maxInitcodeSize {
		add("initcode-too-large")
	}
	if f >= Osaka && tx.GasLimit > txMaxGas {
		add("tx-gas-cap")
	}
	if tx.GasLimit > gasAvailable {
		add("gas-limit-reached")
	}
	blobGas := uint64(len(tx.BlobHashes)) * gasPerBlob
	if blobGas > blobGasAvailable {
		add("blob-gas-exceeded")
	}
	var maxFee *big.Int
	if tx.Type >= TxDynamic {
		if tx.MaxFee.Cmp(tx.MaxTip) < 0 {
			add("tip-above-cap")
		}
		if tx.MaxFee.Cmp(vm.env.BaseFee) < 0 {
			add("fee-cap-too-low")
		}
		maxFee = new(big.Int).Mul(bi(tx.GasLimit), tx.MaxFee)
	} else {
		if tx.GasPrice.Cmp(vm.env.BaseFee) < 0 {
			add("fee-cap-too-low")
		}
		maxFee = new(big.Int).Mul(bi(tx.GasLimit), tx.GasPrice)
	}
	if tx.Type == TxBlob {
		if len(tx.BlobHashes) == 0 {
			add("no-blobs")
		}
		if f >= Osaka && len(tx.BlobHashes) > maxBlobsPerTx {
			add("too-many-blobs")
		}
		for _, h := range tx.BlobHashes {
			if h[0] != versionedHashKZG {
				add("blob-hash-version")
				break
			}
		}
		if tx.MaxBlobFee.Cmp(BlobBaseFee(vm.env)) < 0 {
			add("blob-fee-cap-too-low")
		}
		maxFee.Add(maxFee, new(big.Int).Mul(bi(blobGas), tx.MaxBlobFee))
	}
	if (tx.Type == TxBlob || tx.Type == TxSetCode) && tx.To == nil {
		add("create-not-allowed")
	}
	if tx.Type == TxSetCode && len(tx.Auths) == 0 {
		add("empty-auth-list")
	}
	sn := vm.st.nonce(tx.From)
	if sn > tx.Nonce {
		add("nonce-too-low")
	} else if sn < tx.Nonce {
		add("nonce-too-high")
	}
	if vm.st.balance(tx.From).Cmp(new(big.Int).Add(maxFee, tx.Value)) < 0 {
		add("insufficient-funds")
	}
	// EIP-3607, relaxed by EIP-7702 for delegation designators
	if code := vm.st.code(tx.From); len(code) > 0 {
		if _, ok := delegation(code); !ok || f < Prague {
			add("sender-not-eoa")
		}
	}
	return bad
}

// beginTx prepares the per-transaction state.
func (vm *machine) beginTx() {
	vm.st.resetTx()
	vm.orig = vm.st.accts.Copy()
}

// endTx applies the end-of-transaction rules: destroy the accounts registered by
// SELFDESTRUCT, remove empty accounts, forget transient storage.
func (vm *machine) endTx() {
	for a := range vm.st.destructed {
		delete(vm.st.accts, a)
	}
	vm.st.dropEmpty()
	vm.st.resetTx()
}

// applyTx executes an includable transaction and returns its receipt fields.
func (vm *machine) applyTx(tx *Tx) (status bool, gasUsed, gasBeforeRefund uint64, logs []Log, errStr string) {
	env := vm.env
	f := env.Fork
	intrinsic, floor := IntrinsicGas(f, tx)

	// effective gas price
	var price *big.Int
	if tx.Type >= TxDynamic {
		tip := new(big.Int).Sub(tx.MaxFee, env.BaseFee)
		if tx.MaxTip.Cmp(tip) < 0 {
			tip = tx.MaxTip
		}
		price = new(big.Int).Add(tip, env.BaseFee)
	} else {
		price = new(big.Int).Set(tx.GasPrice)
	}
	vm.beginTx()
	vm.tx = txCtx{origin: tx.From, gasPrice: price, blobHashes: tx.BlobHashes}
	st := vm.st

	// buy gas (and blob gas at the blob base fee), bump the nonce
	cost := new(big.Int).Mul(bi(tx.GasLimit), price)
	if len(tx.BlobHashes) > 0 {
		cost.Add(cost, new(big.Int).Mul(bi(uint64(len(tx.BlobHashes))*gasPerBlob), BlobBaseFee(env)))
	}
	st.subBalance(tx.From, cost)
	st.mut(tx.From).Nonce++

	// warm set: origin, coinbase (EIP-3651), precompiles, access list, target
	st.warmA(tx.From)
	st.warmA(env.Coinbase)
	for _, p := range Precompiles(f) {
		st.warmA(p)
	}
	for _, t := range tx.AccessList {
		st.warmA(t.Addr)
		for _, k := range t.Keys {
			st.warmS(t.Addr, k)
		}
	}
	gas := tx.GasLimit - intrinsic.Uint64()

	var o outcome
	if tx.To == nil {
		addr := CreateAddress(tx.From, tx.Nonce)
		st.warmA(addr)
		if st.hasCodeOrNonceOrStorage(addr) {
			o = outcome{err: "address collision"}
			vm.stats.Collisions++
		} else {
			o = vm.createAt(&msg{caller: tx.From, self: addr, codeAddr: addr, value: new(big.Int).Set(tx.Value),
				transfer: true, code: tx.Data, gas: gas, create: true})
		}
	} else {
		to := *tx.To
		st.warmA(to)
		if tx.Type == TxSetCode {
			vm.applyAuths(tx.Auths)
		}
		m := &msg{caller: tx.From, self: to, codeAddr: to, value: new(big.Int).Set(tx.Value), transfer: true,
			data: tx.Data, code: vm.st.code(to), gas: gas}
		if f >= Prague {
			if target, ok := delegation(m.code); ok {
				vm.st.warmA(target)
				m.code = vm.st.code(target)
				m.codeAddr = target
				m.noPrecompile = true
				vm.stats.DelegatedRuns++
			}
		}
		o = vm.call(m)
	}
	st = vm.st // a failed frame replaced the state object

	// gas settlement: refund cap (EIP-3529), calldata floor (EIP-7623)
	used := tx.GasLimit - o.gasLeft
	if st.refund < 0 {
		panic("refevm: negative refund counter")
	}
	refund := used / refundQuotient
	if uint64(st.refund) < refund {
		refund = uint64(st.refund)
	}
	gasBeforeRefund = used
	used -= refund
	if refund > 0 {
		vm.stats.RefundedTxs++
	}
	if floor.IsUint64() && used < floor.Uint64() {
		used = floor.Uint64()
		vm.stats.FlooredTxs++
	}
	left := tx.GasLimit - used
	st.addBalance(tx.From, new(big.Int).Mul(bi(left), price))
	tip := new(big.Int).Sub(price, env.BaseFee)
	st.addBalance(env.Coinbase, new(big.Int).Mul(bi(used), tip))

	if o.ok {
		logs = st.logs
	} else {
		// a failed top-level frame destroys nothing and logs nothing
		st.destructed = map[Addr]bool{}
	}
	vm.endTx()
	return o.ok, used, gasBeforeRefund, logs, o.err
}

// applyAuths processes the EIP-7702 authorization list.
func (vm *machine) applyAuths(auths []Auth) {
	st := vm.st
	for _, a := range auths {
		if a.ChainID.Sign() != 0 && a.ChainID.Cmp(vm.env.ChainID) != 0 {
			continue
		}
		if a.Nonce == 1<<64-1 {
			continue
		}
		authority, ok := vm.recoverAuthority(a)
		if !ok {
			continue
		}
		st.warmA(authority)
		code := st.code(authority)
		if len(code) > 0 {
			if _, ok := delegation(code); !ok {
				continue
			}
		}
		if st.nonce(authority) != a.Nonce {
			continue
		}
		if !st.dead(authority) {
			st.refund += perEmptyAccount - perAuthBase
		}
		acc := st.mut(authority)
		if a.Addr == (Addr{}) {
			acc.Code = nil
		} else {
			acc.Code = append([]byte{0xef, 0x01, 0x00}, a.Addr[:]...)
		}
		acc.Nonce++
		vm.stats.StateWrites++
		vm.stats.DelegationsSet++
	}
}

// recoverAuthority recovers the signer of keccak(0x05 ++ rlp([chain_id, address, nonce])).
func (vm *machine) recoverAuthority(a Auth) (Addr, bool) {
	var zero Addr
	if a.YParity > 1 {
		return zero, false
	}
	if a.R.Sign() <= 0 || a.R.Cmp(secp256k1N) >= 0 || a.S.Sign() <= 0 || a.S.Cmp(secp256k1HalfN) > 0 {
		return zero, false
	}
	enc := refrlp.Encode(refrlp.L(refrlp.BigInt(a.ChainID), refrlp.S(a.Addr[:]), refrlp.Uint(a.Nonce)))
	h := Keccak256([]byte{setCodeMagic}, enc)
	// ECRECOVER precompile input: hash ++ v (27/28, 32 bytes) ++ r ++ s
	in := make([]byte, 128)
	copy(in, h[:])
	in[63] = 27 + a.YParity
	a.R.FillBytes(in[64:96])
	a.S.FillBytes(in[96:128])
	out, ok := vm.host.PrecompileRun(vm.env.Fork, Addr{19: 1}, in)
	if !ok || len(out) != 32 {
		return zero, false
	}
	var addr Addr
	copy(addr[:], out[12:])
	return addr, true
}

// systemCall runs code at target as an ordinary message from the system address
// with 30M gas, no fee, outside the block gas accounting. ok=false: no code.
func (vm *machine) systemCall(target Addr, data []byte) (o outcome, hasCode bool) {
	code := vm.st.code(target)
	if len(code) == 0 {
		return outcome{ok: true}, false
	}
	vm.beginTx()
	vm.tx = txCtx{origin: SystemAddress, gasPrice: new(big.Int)}
	vm.st.warmA(target)
	o = vm.call(&msg{caller: SystemAddress, self: target, codeAddr: target, value: new(big.Int), data: data,
		code: code, gas: systemCallGas})
	if !o.ok {
		vm.st.destructed = map[Addr]bool{}
	}
	vm.endTx()
	return o, true
}

// Apply executes a block: system calls, transactions, withdrawals, requests.
func Apply(pre World, env *Env, txs []*Tx, host Host) *Result {
	res := &Result{}
	vm := &machine{env: env, host: host, st: newState(pre.Copy()), stats: &res.Stats}

	if env.ParentBeaconRoot != nil { // EIP-4788
		vm.systemCall(BeaconRootsAddress, env.ParentBeaconRoot[:])
	}
	if env.Fork >= Prague && env.ParentHash != nil { // EIP-2935
		vm.systemCall(HistoryStorageAddress, env.ParentHash[:])
	}
	var allLogs []Log
	for i, tx := range txs {
		gasAvail := env.GasLimit - res.GasUsed
		blobAvail := env.MaxBlobsPerBlock*gasPerBlob - res.BlobGasUsed
		if bad := vm.validate(tx, gasAvail, blobAvail); len(bad) > 0 {
			res.Rejected = append(res.Rejected, Rejected{Index: i, Reasons: bad})
			continue
		}
		status, used, before, logs, errStr := vm.applyTx(tx)
		res.GasUsed += used
		res.BlobGasUsed += uint64(len(tx.BlobHashes)) * gasPerBlob
		res.Receipts = append(res.Receipts, Receipt{Status: status, GasUsed: used, CumGas: res.GasUsed, Logs: logs, Err: errStr, GasBeforeRefund: before})
		allLogs = append(allLogs, logs...)
	}
	// EIP-4895 withdrawals
	gwei := big.NewInt(1_000_000_000)
	for _, w := range env.Withdrawals {
		vm.st.addBalance(w.Addr, new(big.Int).Mul(bi(w.Amount), gwei))
	}
	vm.st.dropEmpty()

	if env.Fork >= Prague { // EIP-7685 requests: deposits (6110), withdrawals (7002), consolidations (7251)
		res.Requests = [][]byte{}
		deposits := []byte{0x00}
		for _, l := range allLogs {
			if l.Addr == env.DepositContract && len(l.Topics) > 0 && l.Topics[0] == DepositEventTopic {
				req, ok := parseDepositLog(l.Data)
				if !ok {
					res.Invalid = "malformed deposit log"
					return res
				}
				deposits = append(deposits, req...)
			}
		}
		if len(deposits) > 1 {
			res.Requests = append(res.Requests, deposits)
		}
		for i, target := range []Addr{WithdrawalRequestAddress, ConsolidationRequestAddress} {
			o, hasCode := vm.systemCall(target, nil)
			if !hasCode {
				res.Invalid = "system contract without code"
				return res
			}
			if !o.ok {
				res.Invalid = "system call failed"
				return res
			}
			if len(o.out) > 0 {
				res.Requests = append(res.Requests, append([]byte{byte(i + 1)}, o.out...))
			}
		}
	}
	res.Post = vm.st.accts
	return res
}

// RequestsHash is the EIP-7685 commitment: sha256 over the sha256 of every
// non-empty request.
func RequestsHash(reqs [][]byte) Hash {
	h := sha256.New()
	for _, r := range reqs {
		if len(r) > 1 {
			s := sha256.Sum256(r)
			h.Write(s[:])
		}
	}
	var out Hash
	h.Sum(out[:0])
	return out
}

// parseDepositLog extracts pubkey(48) ++ withdrawal_credentials(32) ++ amount(8) ++
// signature(96) ++ index(8) from the ABI-encoded DepositEvent data, validating the
// fixed layout as EIP-6110 prescribes.
func parseDepositLog(data []byte) ([]byte, bool) {
	if len(data) != 576 {
		return nil, false
	}
	word := func(off int) uint64 {
		v := new(big.Int).SetBytes(data[off : off+32])
		if !v.IsUint64() {
			return 1 << 63
		}
		return v.Uint64()
	}
	const (
		pubkeyOff, wcOff, amountOff, sigOff, indexOff = 160, 256, 320, 384, 512
	)
	if word(0) != pubkeyOff || word(32) != wcOff || word(64) != amountOff || word(96) != sigOff || word(128) != indexOff {
		return nil, false
	}
	if word(pubkeyOff) != 48 || word(wcOff) != 32 || word(amountOff) != 8 || word(sigOff) != 96 || word(indexOff) != 8 {
		return nil, false
	}
	var out []byte
	out = append(out, data[pubkeyOff+32:pubkeyOff+32+48]...)
	out = append(out, data[wcOff+32:wcOff+32+32]...)
	out = append(out, data[amountOff+32:amountOff+32+8]...)
	out = append(out, data[sigOff+32:sigOff+32+96]...)
	out = append(out, data[indexOff+32:indexOff+32+8]...)
	return out, true
}
