package refevm

import (
	"crypto/sha256"
	"math/big"
)

// Gas constants (Yellow Paper appendix G as amended by the EIPs named).
const (
	gJumpdest       = 1
	gBase           = 2
	gVeryLow        = 3
	gLow            = 5
	gMid            = 8
	gHigh           = 10
	gWarmAccess     = 100   // EIP-2929 WARM_STORAGE_READ_COST
	gColdAccount    = 2600  // EIP-2929 COLD_ACCOUNT_ACCESS_COST
	gColdSload      = 2100  // EIP-2929 COLD_SLOAD_COST
	gSset           = 20000 // EIP-2200 SSTORE_SET_GAS
	gSreset         = 2900  // EIP-2929: SSTORE_RESET_GAS = 5000 - COLD_SLOAD_COST
	gSclearRefund   = 4800  // EIP-3529: SSTORE_RESET_GAS + ACCESS_LIST_STORAGE_KEY_COST
	gSstoreSentry   = 2300  // EIP-2200: fail if gasleft <= 2300
	gSelfdestruct   = 5000
	gCreate         = 32000
	gCodeDeposit    = 200
	gCallValue      = 9000
	gCallStipend    = 2300
	gNewAccount     = 25000
	gExp            = 10
	gExpByte        = 50
	gMemory         = 3
	gLog            = 375
	gLogData        = 8
	gLogTopic       = 375
	gKeccak         = 30
	gKeccakWord     = 6
	gCopy           = 3
	gBlockhash      = 20
	gInitcodeWord   = 2 // EIP-3860
	gTransient      = 100
	maxCodeSize     = 24576 // EIP-170
	maxInitcodeSize = 49152 // EIP-3860
	stackLimit      = 1024
	depthLimit      = 1024
)

// msg is one message call / contract creation.
type msg struct {
	caller       Addr     // msg.sender seen by the code
	self         Addr     // account whose storage/balance the code acts on
	codeAddr     Addr     // where the code came from (decides precompile dispatch)
	value        *big.Int // CALLVALUE
	transfer     bool     // move value from caller to self
	data         []byte
	code         []byte
	gas          uint64
	static       bool
	depth        int
	create       bool
	noPrecompile bool // EIP-7702: code resolved through a delegation
}

// outcome of a frame.
type outcome struct {
	ok      bool   // true: success; false: REVERT or exceptional halt
	revert  bool   // REVERT (gasLeft and out are meaningful)
	gasLeft uint64 // 0 after an exceptional halt
	out     []byte
	err     string
}

// txCtx is the per-transaction context.
type txCtx struct {
	origin     Addr
	gasPrice   *big.Int
	blobHashes []Hash
}

// machine executes messages against a state.
type machine struct {
	env   *Env
	host  Host
	st    *state
	orig  World // world at the start of the current transaction (SSTORE "original")
	tx    txCtx
	stats *Stats
}

// halt is thrown (panic) for exceptional halts and recovered by run.
type halt struct{ why string }

func fail(why string) { panic(halt{why}) }

// ---------------------------------------------------------------------------
// Precompiles
// ---------------------------------------------------------------------------

func precompileIndex(a Addr) (int, bool) {
	for i := 0; i < 18; i++ {
		if a[i] != 0 {
			return 0, false
		}
	}
	return int(a[18])<<8 | int(a[19]), true
}

// isPrecompile: 0x01..0x0a since Cancun (EIP-4844 adds 0x0a), 0x0b..0x11 since
// Prague (EIP-2537), 0x0100 since Osaka (EIP-7951).
func isPrecompile(f Fork, a Addr) bool {
	n, ok := precompileIndex(a)
	if !ok {
		return false
	}
	switch {
	case n >= 1 && n <= 0x0a:
		return true
	case n >= 0x0b && n <= 0x11:
		return f >= Prague
	case n == 0x100:
		return f >= Osaka
	}
	return false
}

// Precompiles lists the active precompile addresses.
func Precompiles(f Fork) []Addr {
	var out []Addr
	for n := 1; n <= 0x100; n++ {
		a := Addr{18: byte(n >> 8), 19: byte(n)}
		if isPrecompile(f, a) {
			out = append(out, a)
		}
	}
	return out
}

func (vm *machine) runPrecompile(m *msg) outcome {
	vm.stats.Precompiles++
	n, _ := precompileIndex(m.codeAddr)
	words := ceil32(uint64(len(m.data)))
	var cost uint64
	switch n {
	case 1:
		cost = 3000
	case 2:
		cost = 60 + 12*words
	case 3:
		cost = 600 + 120*words
	case 4:
		cost = 15 + 3*words
	default:
		cost = vm.host.PrecompileGas(vm.env.Fork, m.codeAddr, m.data)
	}
	if m.gas < cost {
		return outcome{err: "precompile out of gas"}
	}
	var out []byte
	switch n {
	case 2:
		h := sha256.Sum256(m.data)
		out = h[:]
	case 4:
		out = append([]byte{}, m.data...)
	default:
		var ok bool
		out, ok = vm.host.PrecompileRun(vm.env.Fork, m.codeAddr, m.data)
		if !ok {
			return outcome{err: "precompile failure"}
		}
	}
	return outcome{ok: true, gasLeft: m.gas - cost, out: out}
}

// ---------------------------------------------------------------------------
// Message processing
// ---------------------------------------------------------------------------

// call processes a message call: snapshot, value transfer, code execution,
// rollback on failure.
func (vm *machine) call(m *msg) outcome {
	snap := vm.st.copy()
	if m.transfer && m.value.Sign() != 0 {
		vm.st.subBalance(m.caller, m.value)
		vm.st.addBalance(m.self, m.value)
	}
	var o outcome
	if !m.noPrecompile && isPrecompile(vm.env.Fork, m.codeAddr) {
		o = vm.runPrecompile(m)
	} else {
		o = vm.run(m)
	}
	if !o.ok {
		vm.st = snap
		vm.stats.Reverts++
	}
	return o
}

// createAt processes a contract creation at address m.self (collision already
// excluded by the caller): nonce 1, endowment, initcode, code deposit.
func (vm *machine) createAt(m *msg) outcome {
	snap := vm.st.copy()
	vm.stats.Creates++
	vm.stats.StateWrites++
	vm.st.created[m.self] = true
	acc := vm.st.mut(m.self)
	acc.Storage = map[Hash]Hash{}
	acc.Nonce++ // EIP-161: new contracts start with nonce 1
	if m.value.Sign() != 0 {
		vm.st.subBalance(m.caller, m.value)
		vm.st.addBalance(m.self, m.value)
	}
	o := vm.run(m)
	if o.ok {
		code := o.out
		switch {
		case len(code) > 0 && code[0] == 0xEF: // EIP-3541
			o = outcome{err: "code starts with 0xEF"}
		case o.gasLeft < uint64(len(code))*gCodeDeposit:
			o = outcome{err: "out of gas for code deposit"}
		case len(code) > maxCodeSize: // EIP-170
			o = outcome{err: "code too large"}
		default:
			o.gasLeft -= uint64(len(code)) * gCodeDeposit
			vm.st.mut(m.self).Code = append([]byte{}, code...)
			o.out = nil
		}
	}
	if !o.ok {
		vm.st = snap
		vm.stats.Reverts++
	}
	return o
}

// delegation parses an EIP-7702 delegation designator 0xef0100 ++ address.
func delegation(code []byte) (Addr, bool) {
	var a Addr
	if len(code) != 23 || code[0] != 0xef || code[1] != 0x01 || code[2] != 0x00 {
		return a, false
	}
	copy(a[:], code[3:])
	return a, true
}

// ---------------------------------------------------------------------------
// The interpreter
// ---------------------------------------------------------------------------

type frame struct {
	vm      *machine
	m       *msg
	gas     uint64
	pc      uint64
	stack   []*big.Int
	mem     []byte
	retData []byte // return data of the last sub-call
	jumpOK  map[uint64]bool
}

func validJumpdests(code []byte) map[uint64]bool {
	out := map[uint64]bool{}
	for i := 0; i < len(code); i++ {
		op := code[i]
		if op == 0x5b {
			out[uint64(i)] = true
		} else if op >= 0x60 && op <= 0x7f {
			i += int(op-0x60) + 1
		}
	}
	return out
}

func (f *frame) use(n uint64) {
	if f.gas < n {
		fail("out of gas")
	}
	f.gas -= n
}

// useBig charges a cost that may not fit 64 bits.
func (f *frame) useBig(n *big.Int) {
	if !n.IsUint64() || f.gas < n.Uint64() {
		fail("out of gas")
	}
	f.gas -= n.Uint64()
}

func (f *frame) pop() *big.Int {
	if len(f.stack) == 0 {
		fail("stack underflow")
	}
	v := f.stack[len(f.stack)-1]
	f.stack = f.stack[:len(f.stack)-1]
	return v
}

func (f *frame) push(v *big.Int) {
	if len(f.stack) >= stackLimit {
		fail("stack overflow")
	}
	if v.Sign() < 0 || v.Cmp(tt256) >= 0 {
		panic("refevm: word out of range")
	}
	f.stack = append(f.stack, v)
}

// need checks the stack bounds of an instruction before anything else happens.
func (f *frame) need(pops, pushes int) {
	if len(f.stack) < pops {
		fail("stack underflow")
	}
	if len(f.stack)-pops+pushes > stackLimit {
		fail("stack overflow")
	}
}

// memWordsCost is C_mem(w) = 3w + floor(w^2 / 512).
func memWordsCost(w *big.Int) *big.Int {
	sq := new(big.Int).Mul(w, w)
	sq.Div(sq, big.NewInt(512))
	return sq.Add(sq, new(big.Int).Mul(w, big.NewInt(gMemory)))
}

// expansion returns the cost of growing memory so that every (offset, size) range
// with size > 0 fits, and the new size in bytes (as a big integer).
func (f *frame) expansion(ranges ...[2]*big.Int) (cost, newSize *big.Int) {
	cur := bi(uint64(len(f.mem)))
	end := new(big.Int).Set(cur)
	for _, r := range ranges {
		if r[1].Sign() == 0 {
			continue
		}
		e := new(big.Int).Add(r[0], r[1])
		if e.Cmp(end) > 0 {
			end = e
		}
	}
	if end.Cmp(cur) <= 0 {
		return new(big.Int), cur
	}
	words := new(big.Int).Add(end, big.NewInt(31))
	words.Div(words, big.NewInt(32))
	curWords := new(big.Int).Div(cur, big.NewInt(32))
	cost = new(big.Int).Sub(memWordsCost(words), memWordsCost(curWords))
	return cost, words.Mul(words, big.NewInt(32))
}

// grow extends memory to newSize (already paid for).
func (f *frame) grow(newSize *big.Int) {
	n := newSize.Uint64()
	if n > uint64(len(f.mem)) {
		if n > 1<<32 {
			panic("refevm: absurd memory size was paid for")
		}
		f.mem = append(f.mem, make([]byte, n-uint64(len(f.mem)))...)
	}
}

// chargeMem charges static + expansion for the ranges and grows memory.
func (f *frame) chargeMem(static *big.Int, ranges ...[2]*big.Int) {
	cost, size := f.expansion(ranges...)
	f.useBig(new(big.Int).Add(static, cost))
	f.grow(size)
}

func (f *frame) memRead(off, size *big.Int) []byte {
	if size.Sign() == 0 {
		return nil
	}
	o, n := off.Uint64(), size.Uint64()
	return append([]byte{}, f.mem[o:o+n]...)
}

func (f *frame) memWrite(off *big.Int, data []byte) {
	if len(data) == 0 {
		return
	}
	copy(f.mem[off.Uint64():], data)
}

// sliceZeroPadded returns src[off : off+size] with zeros beyond the end of src
// (CALLDATACOPY, CODECOPY, EXTCODECOPY, CALLDATALOAD semantics).
func sliceZeroPadded(src []byte, off, size *big.Int) []byte {
	n := size.Uint64()
	out := make([]byte, n)
	if off.IsUint64() && off.Uint64() < uint64(len(src)) {
		copy(out, src[off.Uint64():])
	}
	return out
}

func wordsOf(size *big.Int) *big.Int {
	w := new(big.Int).Add(size, big.NewInt(31))
	return w.Div(w, big.NewInt(32))
}

// accountAccess charges nothing itself: it returns the EIP-2929 price of touching
// an address and marks it warm.
func (f *frame) accountAccess(a Addr) uint64 {
	if f.vm.st.warmA(a) {
		return gWarmAccess
	}
	f.vm.stats.ColdAccesses++
	return gColdAccount
}

func (vm *machine) run(m *msg) (res outcome) {
	f := &frame{vm: vm, m: m, gas: m.gas, jumpOK: validJumpdests(m.code)}
	if m.depth > vm.stats.MaxDepth {
		vm.stats.MaxDepth = m.depth
	}
	defer func() {
		if r := recover(); r != nil {
			h, ok := r.(halt)
			if !ok {
				panic(r)
			}
			res = outcome{err: h.why}
		}
	}()
	return f.loop()
}

func (f *frame) loop() outcome {
	vm, m, st := f.vm, f.m, func() *state { return f.vm.st }
	code := m.code
	for {
		if f.pc >= uint64(len(code)) {
			return outcome{ok: true, gasLeft: f.gas} // implicit STOP
		}
		op := code[f.pc]
		vm.stats.Steps++
		switch {
		// ------------------------------------------------------------ 0x00 STOP
		case op == 0x00:
			return outcome{ok: true, gasLeft: f.gas}

		// ------------------------------------------------- arithmetic 0x01-0x0b
		case op >= 0x01 && op <= 0x0b:
			switch op {
			case 0x01, 0x03: // ADD, SUB
				f.need(2, 1)
				f.use(gVeryLow)
				a, b := f.pop(), f.pop()
				if op == 0x01 {
					f.push(wrap(new(big.Int).Add(a, b)))
				} else {
					f.push(wrap(new(big.Int).Sub(a, b)))
				}
			case 0x02: // MUL
				f.need(2, 1)
				f.use(gLow)
				a, b := f.pop(), f.pop()
				f.push(wrap(new(big.Int).Mul(a, b)))
			case 0x04: // DIV
				f.need(2, 1)
				f.use(gLow)
				a, b := f.pop(), f.pop()
				if b.Sign() == 0 {
					f.push(new(big.Int))
				} else {
					f.push(new(big.Int).Div(a, b))
				}
			case 0x05: // SDIV: truncated towards zero, -2^255 / -1 = -2^255
				f.need(2, 1)
				f.use(gLow)
				a, b := signed(f.pop()), signed(f.pop())
				if b.Sign() == 0 {
					f.push(new(big.Int))
				} else {
					f.push(wrap(new(big.Int).Quo(a, b)))
				}
			case 0x06: // MOD
				f.need(2, 1)
				f.use(gLow)
				a, b := f.pop(), f.pop()
				if b.Sign() == 0 {
					f.push(new(big.Int))
				} else {
					f.push(new(big.Int).Mod(a, b))
				}
			case 0x07: // SMOD: result takes the sign of the dividend
				f.need(2, 1)
				f.use(gLow)
				a, b := signed(f.pop()), signed(f.pop())
				if b.Sign() == 0 {
					f.push(new(big.Int))
				} else {
					f.push(wrap(new(big.Int).Rem(a, b)))
				}
			case 0x08, 0x09: // ADDMOD, MULMOD over unbounded intermediates
				f.need(3, 1)
				f.use(gMid)
				a, b, n := f.pop(), f.pop(), f.pop()
				if n.Sign() == 0 {
					f.push(new(big.Int))
				} else if op == 0x08 {
					f.push(new(big.Int).Mod(new(big.Int).Add(a, b), n))
				} else {
					f.push(new(big.Int).Mod(new(big.Int).Mul(a, b), n))
				}
			case 0x0a: // EXP: 10 + 50 per byte of the exponent (EIP-160)
				f.need(2, 1)
				base, exp := f.stack[len(f.stack)-1], f.stack[len(f.stack)-2]
				f.use(gExp + gExpByte*uint64((exp.BitLen()+7)/8))
				f.pop()
				f.pop()
				f.push(new(big.Int).Exp(base, exp, tt256))
			case 0x0b: // SIGNEXTEND
				f.need(2, 1)
				f.use(gLow)
				b, x := f.pop(), f.pop()
				if b.Cmp(big.NewInt(31)) < 0 {
					bit := uint(b.Uint64()*8 + 7)
					low := new(big.Int).Mod(x, new(big.Int).Lsh(big.NewInt(1), bit+1))
					if x.Bit(int(bit)) == 1 {
						// fill everything above with ones
						high := new(big.Int).Sub(tt256, new(big.Int).Lsh(big.NewInt(1), bit+1))
						f.push(low.Add(low, high))
					} else {
						f.push(low)
					}
				} else {
					f.push(x)
				}
			}
			f.pc++

		// --------------------------------------- comparison & bitwise 0x10-0x1e
		case op >= 0x10 && op <= 0x1d, op == 0x1e && vm.env.Fork >= Osaka:
			switch op {
			case 0x10, 0x11, 0x12, 0x13, 0x14: // LT GT SLT SGT EQ
				f.need(2, 1)
				f.use(gVeryLow)
				a, b := f.pop(), f.pop()
				var r bool
				switch op {
				case 0x10:
					r = a.Cmp(b) < 0
				case 0x11:
					r = a.Cmp(b) > 0
				case 0x12:
					r = signed(a).Cmp(signed(b)) < 0
				case 0x13:
					r = signed(a).Cmp(signed(b)) > 0
				case 0x14:
					r = a.Cmp(b) == 0
				}
				f.push(boolWord(r))
			case 0x15: // ISZERO
				f.need(1, 1)
				f.use(gVeryLow)
				f.push(boolWord(f.pop().Sign() == 0))
			case 0x16, 0x17, 0x18: // AND OR XOR
				f.need(2, 1)
				f.use(gVeryLow)
				a, b := f.pop(), f.pop()
				switch op {
				case 0x16:
					f.push(new(big.Int).And(a, b))
				case 0x17:
					f.push(new(big.Int).Or(a, b))
				case 0x18:
					f.push(new(big.Int).Xor(a, b))
				}
			case 0x19: // NOT
				f.need(1, 1)
				f.use(gVeryLow)
				f.push(new(big.Int).Sub(maxWord, f.pop()))
			case 0x1a: // BYTE: i-th byte counting from the most significant
				f.need(2, 1)
				f.use(gVeryLow)
				i, x := f.pop(), f.pop()
				if i.Cmp(big.NewInt(32)) >= 0 {
					f.push(new(big.Int))
				} else {
					h := wordToHash(x)
					f.push(bi(uint64(h[i.Uint64()])))
				}
			case 0x1b, 0x1c, 0x1d: // SHL SHR SAR (EIP-145): shift is on top
				f.need(2, 1)
				f.use(gVeryLow)
				shift, val := f.pop(), f.pop()
				big256 := big.NewInt(256)
				switch op {
				case 0x1b:
					if shift.Cmp(big256) >= 0 {
						f.push(new(big.Int))
					} else {
						f.push(wrap(new(big.Int).Lsh(val, uint(shift.Uint64()))))
					}
				case 0x1c:
					if shift.Cmp(big256) >= 0 {
						f.push(new(big.Int))
					} else {
						f.push(new(big.Int).Div(val, new(big.Int).Lsh(big.NewInt(1), uint(shift.Uint64()))))
					}
				case 0x1d:
					sv := signed(val)
					if shift.Cmp(big256) >= 0 {
						if sv.Sign() < 0 {
							f.push(new(big.Int).Set(maxWord))
						} else {
							f.push(new(big.Int))
						}
					} else {
						// floor division (Euclidean division by a positive divisor is floor)
						q := new(big.Int).Div(sv, new(big.Int).Lsh(big.NewInt(1), uint(shift.Uint64())))
						f.push(wrap(q))
					}
				}
			case 0x1e: // CLZ (EIP-7939), priced like MUL
				f.need(1, 1)
				f.use(gLow)
				f.push(bi(uint64(256 - f.pop().BitLen())))
			}
			f.pc++

		// ------------------------------------------------------ 0x20 KECCAK256
		case op == 0x20:
			f.need(2, 1)
			off, size := f.stack[len(f.stack)-1], f.stack[len(f.stack)-2]
			static := new(big.Int).Mul(wordsOf(size), big.NewInt(gKeccakWord))
			static.Add(static, big.NewInt(gKeccak))
			f.chargeMem(static, [2]*big.Int{off, size})
			f.pop()
			f.pop()
			h := Keccak256(f.memRead(off, size))
			f.push(hashToWord(h))
			f.pc++

		// -------------------------------------------- environment 0x30-0x3f
		case op >= 0x30 && op <= 0x3f:
			switch op {
			case 0x30: // ADDRESS
				f.need(0, 1)
				f.use(gBase)
				f.push(addrToWord(m.self))
			case 0x31: // BALANCE
				f.need(1, 1)
				a := wordToAddr(f.stack[len(f.stack)-1])
				f.use(f.accountAccess(a))
				f.pop()
				f.push(new(big.Int).Set(st().balance(a)))
			case 0x32: // ORIGIN
				f.need(0, 1)
				f.use(gBase)
				f.push(addrToWord(vm.tx.origin))
			case 0x33: // CALLER
				f.need(0, 1)
				f.use(gBase)
				f.push(addrToWord(m.caller))
			case 0x34: // CALLVALUE
				f.need(0, 1)
				f.use(gBase)
				f.push(new(big.Int).Set(m.value))
			case 0x35: // CALLDATALOAD
				f.need(1, 1)
				f.use(gVeryLow)
				off := f.pop()
				f.push(new(big.Int).SetBytes(sliceZeroPadded(m.data, off, big.NewInt(32))))
			case 0x36: // CALLDATASIZE
				f.need(0, 1)
				f.use(gBase)
				f.push(bi(uint64(len(m.data))))
			case 0x37, 0x39: // CALLDATACOPY, CODECOPY: (destOffset, offset, size)
				f.need(3, 0)
				n := len(f.stack)
				dst, off, size := f.stack[n-1], f.stack[n-2], f.stack[n-3]
				static := new(big.Int).Mul(wordsOf(size), big.NewInt(gCopy))
				static.Add(static, big.NewInt(gVeryLow))
				f.chargeMem(static, [2]*big.Int{dst, size})
				f.stack = f.stack[:n-3]
				src := m.data
				if op == 0x39 {
					src = code
				}
				f.memWrite(dst, sliceZeroPadded(src, off, size))
			case 0x38: // CODESIZE
				f.need(0, 1)
				f.use(gBase)
				f.push(bi(uint64(len(code))))
			case 0x3a: // GASPRICE: effective gas price (EIP-1559)
				f.need(0, 1)
				f.use(gBase)
				f.push(new(big.Int).Set(vm.tx.gasPrice))
			case 0x3b: // EXTCODESIZE (acts on the account's own code, also a 7702 designator)
				f.need(1, 1)
				a := wordToAddr(f.stack[len(f.stack)-1])
				f.use(f.accountAccess(a))
				f.pop()
				f.push(bi(uint64(len(st().code(a)))))
			case 0x3c: // EXTCODECOPY: (address, destOffset, offset, size)
				f.need(4, 0)
				n := len(f.stack)
				a := wordToAddr(f.stack[n-1])
				dst, off, size := f.stack[n-2], f.stack[n-3], f.stack[n-4]
				static := new(big.Int).Mul(wordsOf(size), big.NewInt(gCopy))
				// the access list is updated even if the charge then fails; the
				// failing frame's revert restores it
				static.Add(static, bi(f.accountAccess(a)))
				f.chargeMem(static, [2]*big.Int{dst, size})
				f.stack = f.stack[:n-4]
				f.memWrite(dst, sliceZeroPadded(st().code(a), off, size))
			case 0x3d: // RETURNDATASIZE
				f.need(0, 1)
				f.use(gBase)
				f.push(bi(uint64(len(f.retData))))
			case 0x3e: // RETURNDATACOPY: out-of-bounds read is an exceptional halt (EIP-211)
				f.need(3, 0)
				n := len(f.stack)
				dst, off, size := f.stack[n-1], f.stack[n-2], f.stack[n-3]
				static := new(big.Int).Mul(wordsOf(size), big.NewInt(gCopy))
				static.Add(static, big.NewInt(gVeryLow))
				if new(big.Int).Add(off, size).Cmp(bi(uint64(len(f.retData)))) > 0 {
					fail("return data out of bounds")
				}
				f.chargeMem(static, [2]*big.Int{dst, size})
				f.stack = f.stack[:n-3]
				if size.Sign() != 0 {
					f.memWrite(dst, f.retData[off.Uint64():off.Uint64()+size.Uint64()])
				}
			case 0x3f: // EXTCODEHASH (EIP-1052): 0 for a dead account
				f.need(1, 1)
				a := wordToAddr(f.stack[len(f.stack)-1])
				f.use(f.accountAccess(a))
				f.pop()
				if st().dead(a) {
					f.push(new(big.Int))
				} else {
					f.push(hashToWord(Keccak256(st().code(a))))
				}
			}
			f.pc++

		// ------------------------------------------------ block info 0x40-0x4a
		case op >= 0x40 && op <= 0x4a:
			switch op {
			case 0x40: // BLOCKHASH: one of the 256 most recent complete blocks, else 0
				f.need(1, 1)
				f.use(gBlockhash)
				n := f.pop()
				cur := bi(vm.env.Number)
				lo := new(big.Int).Sub(cur, big.NewInt(256))
				if n.Cmp(cur) < 0 && n.Cmp(lo) >= 0 {
					f.push(hashToWord(vm.env.BlockHashes[n.Uint64()]))
				} else {
					f.push(new(big.Int))
				}
			case 0x41:
				f.need(0, 1)
				f.use(gBase)
				f.push(addrToWord(vm.env.Coinbase))
			case 0x42:
				f.need(0, 1)
				f.use(gBase)
				f.push(bi(vm.env.Time))
			case 0x43:
				f.need(0, 1)
				f.use(gBase)
				f.push(bi(vm.env.Number))
			case 0x44: // PREVRANDAO (EIP-4399)
				f.need(0, 1)
				f.use(gBase)
				f.push(hashToWord(vm.env.Random))
			case 0x45:
				f.need(0, 1)
				f.use(gBase)
				f.push(bi(vm.env.GasLimit))
			case 0x46: // CHAINID
				f.need(0, 1)
				f.use(gBase)
				f.push(new(big.Int).Set(vm.env.ChainID))
			case 0x47: // SELFBALANCE
				f.need(0, 1)
				f.use(gLow)
				f.push(new(big.Int).Set(st().balance(m.self)))
			case 0x48: // BASEFEE
				f.need(0, 1)
				f.use(gBase)
				f.push(new(big.Int).Set(vm.env.BaseFee))
			case 0x49: // BLOBHASH (EIP-4844)
				f.need(1, 1)
				f.use(gVeryLow)
				i := f.pop()
				if i.IsUint64() && i.Uint64() < uint64(len(vm.tx.blobHashes)) {
					f.push(hashToWord(vm.tx.blobHashes[i.Uint64()]))
				} else {
					f.push(new(big.Int))
				}
			case 0x4a: // BLOBBASEFEE (EIP-7516)
				f.need(0, 1)
				f.use(gBase)
				f.push(BlobBaseFee(vm.env))
			}
			f.pc++

		// ------------------------------- stack, memory, storage, flow 0x50-0x5f
		case op >= 0x50 && op <= 0x5f:
			jumped := false
			switch op {
			case 0x50: // POP
				f.need(1, 0)
				f.use(gBase)
				f.pop()
			case 0x51: // MLOAD
				f.need(1, 1)
				off := f.stack[len(f.stack)-1]
				f.chargeMem(big.NewInt(gVeryLow), [2]*big.Int{off, big.NewInt(32)})
				f.pop()
				f.push(new(big.Int).SetBytes(f.memRead(off, big.NewInt(32))))
			case 0x52: // MSTORE
				f.need(2, 0)
				off, val := f.stack[len(f.stack)-1], f.stack[len(f.stack)-2]
				f.chargeMem(big.NewInt(gVeryLow), [2]*big.Int{off, big.NewInt(32)})
				f.pop()
				f.pop()
				h := wordToHash(val)
				f.memWrite(off, h[:])
			case 0x53: // MSTORE8
				f.need(2, 0)
				off, val := f.stack[len(f.stack)-1], f.stack[len(f.stack)-2]
				f.chargeMem(big.NewInt(gVeryLow), [2]*big.Int{off, big.NewInt(1)})
				f.pop()
				f.pop()
				h := wordToHash(val)
				f.memWrite(off, h[31:])
			case 0x54: // SLOAD (EIP-2929)
				f.need(1, 1)
				k := wordToHash(f.stack[len(f.stack)-1])
				if st().warmS(m.self, k) {
					f.use(gWarmAccess)
				} else {
					f.use(gColdSload)
				}
				f.pop()
				f.push(hashToWord(st().storage(m.self, k)))
			case 0x55: // SSTORE (EIP-2200 net metering, EIP-2929, EIP-3529)
				f.need(2, 0)
				if m.static {
					fail("write in static context")
				}
				if f.gas <= gSstoreSentry {
					fail("out of gas (sstore sentry)")
				}
				k, v := wordToHash(f.stack[len(f.stack)-1]), wordToHash(f.stack[len(f.stack)-2])
				var cost uint64
				if !st().warmS(m.self, k) {
					cost += gColdSload
				}
				var original Hash
				if acc := vm.orig[m.self]; acc != nil && !st().created[m.self] {
					original = acc.Storage[k]
				}
				current := st().storage(m.self, k)
				zero := Hash{}
				switch {
				case current == v:
					cost += gWarmAccess
				case original == current:
					if original == zero {
						cost += gSset
					} else {
						cost += gSreset
					}
				default:
					cost += gWarmAccess
				}
				f.use(cost)
				if current != v {
					if original == current {
						if original != zero && v == zero {
							st().refund += gSclearRefund
						}
					} else {
						if original != zero {
							if current == zero {
								st().refund -= gSclearRefund
							} else if v == zero {
								st().refund += gSclearRefund
							}
						}
						if original == v {
							if original == zero {
								st().refund += gSset - gWarmAccess
							} else {
								st().refund += gSreset - gWarmAccess
							}
						}
					}
				}
				f.pop()
				f.pop()
				st().setStorage(m.self, k, v)
				vm.stats.StateWrites++
			case 0x56: // JUMP
				f.need(1, 0)
				f.use(gMid)
				dst := f.pop()
				if !dst.IsUint64() || !f.jumpOK[dst.Uint64()] {
					fail("invalid jump destination")
				}
				f.pc = dst.Uint64()
				jumped = true
			case 0x57: // JUMPI
				f.need(2, 0)
				f.use(gHigh)
				dst, cond := f.pop(), f.pop()
				if cond.Sign() != 0 {
					if !dst.IsUint64() || !f.jumpOK[dst.Uint64()] {
						fail("invalid jump destination")
					}
					f.pc = dst.Uint64()
					jumped = true
				}
			case 0x58: // PC
				f.need(0, 1)
				f.use(gBase)
				f.push(bi(f.pc))
			case 0x59: // MSIZE
				f.need(0, 1)
				f.use(gBase)
				f.push(bi(uint64(len(f.mem))))
			case 0x5a: // GAS: remaining gas after paying for this instruction
				f.need(0, 1)
				f.use(gBase)
				f.push(bi(f.gas))
			case 0x5b: // JUMPDEST
				f.use(gJumpdest)
			case 0x5c: // TLOAD (EIP-1153)
				f.need(1, 1)
				f.use(gTransient)
				k := wordToHash(f.pop())
				f.push(hashToWord(st().transient[m.self][k]))
			case 0x5d: // TSTORE (EIP-1153)
				f.need(2, 0)
				if m.static {
					fail("write in static context")
				}
				f.use(gTransient)
				k, v := wordToHash(f.pop()), wordToHash(f.pop())
				tm := st().transient[m.self]
				if tm == nil {
					tm = map[Hash]Hash{}
					st().transient[m.self] = tm
				}
				tm[k] = v
				vm.stats.StateWrites++
			case 0x5e: // MCOPY (EIP-5656): (dst, src, length)
				f.need(3, 0)
				n := len(f.stack)
				dst, src, size := f.stack[n-1], f.stack[n-2], f.stack[n-3]
				static := new(big.Int).Mul(wordsOf(size), big.NewInt(gCopy))
				static.Add(static, big.NewInt(gVeryLow))
				f.chargeMem(static, [2]*big.Int{dst, size}, [2]*big.Int{src, size})
				f.stack = f.stack[:n-3]
				f.memWrite(dst, f.memRead(src, size))
			case 0x5f: // PUSH0 (EIP-3855)
				f.need(0, 1)
				f.use(gBase)
				f.push(new(big.Int))
			}
			if !jumped {
				f.pc++
			}

		// ------------------------------------------------------- PUSH1..PUSH32
		case op >= 0x60 && op <= 0x7f:
			f.need(0, 1)
			f.use(gVeryLow)
			n := uint64(op-0x60) + 1
			buf := make([]byte, n)
			if f.pc+1 < uint64(len(code)) {
				copy(buf, code[f.pc+1:]) // bytes beyond the code end are zero
			}
			f.push(new(big.Int).SetBytes(buf))
			f.pc += 1 + n

		// ------------------------------------------------------------ DUP, SWAP
		case op >= 0x80 && op <= 0x8f:
			n := int(op-0x80) + 1
			f.need(n, n+1)
			f.use(gVeryLow)
			f.push(f.stack[len(f.stack)-n])
			f.pc++
		case op >= 0x90 && op <= 0x9f:
			n := int(op-0x90) + 1
			f.need(n+1, n+1)
			f.use(gVeryLow)
			top := len(f.stack) - 1
			f.stack[top], f.stack[top-n] = f.stack[top-n], f.stack[top]
			f.pc++

		// ------------------------------------------------------------------ LOG
		case op >= 0xa0 && op <= 0xa4:
			topics := int(op - 0xa0)
			f.need(2+topics, 0)
			if m.static {
				fail("write in static context")
			}
			off, size := f.stack[len(f.stack)-1], f.stack[len(f.stack)-2]
			static := new(big.Int).Mul(size, big.NewInt(gLogData))
			static.Add(static, bi(uint64(gLog+gLogTopic*topics)))
			f.chargeMem(static, [2]*big.Int{off, size})
			f.pop()
			f.pop()
			l := Log{Addr: m.self, Data: f.memRead(off, size)}
			if l.Data == nil {
				l.Data = []byte{}
			}
			for i := 0; i < topics; i++ {
				l.Topics = append(l.Topics, wordToHash(f.pop()))
			}
			st().logs = append(st().logs, l)
			vm.stats.Logs++
			f.pc++

		// --------------------------------------------------------------- system
		case op == 0xf0 || op == 0xf5:
			f.opCreate(op)
			f.pc++
		case op == 0xf1 || op == 0xf2 || op == 0xf4 || op == 0xfa:
			f.opCall(op)
			f.pc++
		case op == 0xf3 || op == 0xfd: // RETURN, REVERT
			f.need(2, 0)
			off, size := f.stack[len(f.stack)-1], f.stack[len(f.stack)-2]
			f.chargeMem(new(big.Int), [2]*big.Int{off, size})
			out := f.memRead(off, size)
			if op == 0xf3 {
				return outcome{ok: true, gasLeft: f.gas, out: out}
			}
			return outcome{revert: true, gasLeft: f.gas, out: out, err: "revert"}
		case op == 0xff: // SELFDESTRUCT (EIP-6780)
			f.need(1, 0)
			if m.static {
				fail("write in static context")
			}
			ben := wordToAddr(f.stack[len(f.stack)-1])
			cost := uint64(gSelfdestruct)
			if !st().warmA(ben) {
				cost += gColdAccount
			}
			bal := new(big.Int).Set(st().balance(m.self))
			if st().dead(ben) && bal.Sign() != 0 {
				cost += gNewAccount
			}
			f.use(cost)
			f.pop()
			st().subBalance(m.self, bal)
			st().addBalance(ben, bal)
			vm.stats.SelfDestructs++
			if st().created[m.self] {
				// created in this transaction: really destroyed; ether sent to self is burnt
				st().mut(m.self).Balance = new(big.Int)
				st().destructed[m.self] = true
				vm.stats.SelfDestructsFresh++
			}
			vm.stats.StateWrites++
			return outcome{ok: true, gasLeft: f.gas}

		default: // 0xfe INVALID and every unassigned opcode
			fail("invalid opcode")
		}
	}
}

// opCreate implements CREATE (0xf0) and CREATE2 (0xf5).
func (f *frame) opCreate(op byte) {
	vm, m := f.vm, f.m
	pops := 3
	if op == 0xf5 {
		pops = 4
	}
	f.need(pops, 1)
	if m.static {
		fail("write in static context")
	}
	n := len(f.stack)
	value, off, size := f.stack[n-1], f.stack[n-2], f.stack[n-3]
	var salt Hash
	if op == 0xf5 {
		salt = wordToHash(f.stack[n-4])
	}
	// EIP-3860: initcode longer than 49152 bytes is an exceptional halt
	if size.Cmp(big.NewInt(maxInitcodeSize)) > 0 {
		fail("initcode too large")
	}
	static := new(big.Int).Mul(wordsOf(size), big.NewInt(gInitcodeWord))
	if op == 0xf5 {
		static.Add(static, new(big.Int).Mul(wordsOf(size), big.NewInt(gKeccakWord)))
	}
	static.Add(static, big.NewInt(gCreate))
	f.chargeMem(static, [2]*big.Int{off, size})
	f.stack = f.stack[:n-pops]
	initcode := f.memRead(off, size)

	// all but one 64th of the remaining gas goes to the new frame (EIP-150)
	childGas := f.gas - f.gas/64
	f.gas -= childGas
	f.retData = nil

	sender := m.self
	senderNonce := vm.st.nonce(sender)
	if vm.st.balance(sender).Cmp(value) < 0 || senderNonce == 1<<64-1 || m.depth+1 > depthLimit {
		f.gas += childGas
		f.push(new(big.Int))
		return
	}
	var addr Addr
	if op == 0xf0 {
		addr = CreateAddress(sender, senderNonce)
	} else {
		addr = Create2Address(sender, salt, initcode)
	}
	vm.st.warmA(addr)
	vm.st.mut(sender).Nonce = senderNonce + 1
	if vm.st.hasCodeOrNonceOrStorage(addr) {
		// address collision: the forwarded gas is lost
		vm.stats.Collisions++
		f.push(new(big.Int))
		return
	}
	vm.stats.Frames++
	child := &msg{caller: sender, self: addr, codeAddr: addr, value: new(big.Int).Set(value), transfer: true,
		code: initcode, gas: childGas, depth: m.depth + 1, create: true}
	o := vm.createAt(child)
	f.gas += o.gasLeft
	if o.ok {
		f.push(addrToWord(addr))
	} else {
		if o.revert {
			f.retData = o.out
		}
		f.push(new(big.Int))
	}
}

// opCall implements CALL (0xf1), CALLCODE (0xf2), DELEGATECALL (0xf4), STATICCALL (0xfa).
func (f *frame) opCall(op byte) {
	vm, m := f.vm, f.m
	hasValue := op == 0xf1 || op == 0xf2
	pops := 6
	if hasValue {
		pops = 7
	}
	f.need(pops, 1)
	n := len(f.stack)
	gasArg, to := f.stack[n-1], wordToAddr(f.stack[n-2])
	i := n - 3
	value := new(big.Int)
	if hasValue {
		value = f.stack[i]
		i--
	}
	inOff, inSize, outOff, outSize := f.stack[i], f.stack[i-1], f.stack[i-2], f.stack[i-3]

	if op == 0xf1 && m.static && value.Sign() != 0 {
		fail("write in static context")
	}
	// extra = address access (+ delegation target access) + value surcharge + new account surcharge
	extra := f.accountAccess(to)
	code := vm.st.code(to)
	codeAddr := to
	noPrecompile := false
	if vm.env.Fork >= Prague {
		if target, ok := delegation(code); ok {
			extra += f.accountAccess(target)
			code = vm.st.code(target)
			codeAddr = target
			noPrecompile = true
		}
	}
	if value.Sign() != 0 {
		extra += gCallValue
		if op == 0xf1 && vm.st.dead(to) {
			extra += gNewAccount
		}
	}
	memCost, newSize := f.expansion([2]*big.Int{inOff, inSize}, [2]*big.Int{outOff, outSize})
	base := new(big.Int).Add(memCost, bi(extra))
	if !base.IsUint64() || f.gas < base.Uint64() {
		fail("out of gas")
	}
	// EIP-150: at most all but one 64th of what remains after the base cost
	avail := f.gas - base.Uint64()
	avail -= avail / 64
	childGas := avail
	if gasArg.IsUint64() && gasArg.Uint64() < avail {
		childGas = gasArg.Uint64()
	}
	f.use(base.Uint64() + childGas)
	f.grow(newSize)
	f.stack = f.stack[:n-pops]
	if value.Sign() != 0 {
		childGas += gCallStipend
	}
	f.retData = nil

	child := &msg{data: f.memRead(inOff, inSize), code: code, codeAddr: codeAddr, gas: childGas,
		depth: m.depth + 1, static: m.static, noPrecompile: noPrecompile}
	switch op {
	case 0xf1: // CALL
		child.caller, child.self, child.value, child.transfer = m.self, to, new(big.Int).Set(value), true
	case 0xf2: // CALLCODE: the callee's code runs on the caller's account
		child.caller, child.self, child.value, child.transfer = m.self, m.self, new(big.Int).Set(value), true
	case 0xf4: // DELEGATECALL: sender and value are inherited, nothing is transferred
		child.caller, child.self, child.value, child.transfer = m.caller, m.self, new(big.Int).Set(m.value), false
	case 0xfa: // STATICCALL
		child.caller, child.self, child.value, child.transfer = m.self, to, new(big.Int), false
		child.static = true
	}
	if hasValue && vm.st.balance(m.self).Cmp(value) < 0 || m.depth+1 > depthLimit {
		f.gas += childGas
		f.push(new(big.Int))
		return
	}
	vm.stats.Frames++
	if noPrecompile {
		vm.stats.DelegatedRuns++
	}
	if child.transfer && value.Sign() != 0 {
		vm.stats.ValueCalls++
	}
	o := vm.call(child)
	f.gas += o.gasLeft
	f.retData = o.out
	if !o.ok && !o.revert {
		f.retData = nil
	}
	if outSize.Sign() != 0 && len(f.retData) > 0 {
		k := uint64(len(f.retData))
		if outSize.IsUint64() && outSize.Uint64() < k {
			k = outSize.Uint64()
		}
		f.memWrite(outOff, f.retData[:k])
	}
	f.push(boolWord(o.ok))
}
