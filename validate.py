#!/usr/bin/env python3
"""Validate MANIFEST.json and evidence/*.json against the schemas (uses the tooling venv's jsonschema)."""
import glob, json, sys
import jsonschema
ok = True
man = json.load(open('/verif/MANIFEST.json'))
try:
    jsonschema.validate(man, json.load(open('/root/.vp/MANIFEST.schema.json')))
    print("MANIFEST ok: %d checks, %d n/a" % (len(man['checks']), len(man.get('not_applicable', []))))
except Exception as e:
    ok = False; print("MANIFEST INVALID", str(e)[:500])
es = json.load(open('/root/.vp/EVIDENCE.schema.json'))
for p in sorted(glob.glob('/verif/evidence/*.json')):
    try:
        jsonschema.validate(json.load(open(p)), es)
    except Exception as e:
        ok = False; print("EVIDENCE INVALID", p, str(e)[:300])
ids = {c['property_id'] for c in man['checks']} | {n['property_id'] for n in man.get('not_applicable', [])}
props = [json.loads(l)['id'] for l in open('/verif/properties.jsonl')]
missing = [p for p in props if p not in ids]
if missing:
    ok = False; print("unaccounted properties", missing)
sys.exit(0 if ok else 1)
