#!/usr/bin/env python3
"""Run registered checks against seeded changes (seeded/<name>/patch.diff, meta.json).

usage: tools/seeded.py [--tier quick|thorough] [--checks C01,C02] <name>...   (no names = all)
Applies the patch in a scratch worktree under /tmp/scratch (never in /repo), runs the check for the
property in meta.json (and any --checks) through VERIF_REPO, removes the worktree, writes seeded/<name>/result.json.
"""
import json, os, subprocess, sys, shutil, time
V = "/verif"
def sh(cmd, **kw):
    return subprocess.run(cmd, shell=True, stdout=subprocess.PIPE, stderr=subprocess.STDOUT, text=True, **kw)
def main():
    a = sys.argv[1:]; tier = "quick"; extra = []
    names = []
    i = 0
    while i < len(a):
        if a[i] == "--tier": tier = a[i+1]; i += 2
        elif a[i] == "--checks": extra = a[i+1].split(","); i += 2
        else: names.append(a[i]); i += 1
    if names == ["--pending"]:
        names = []
        for d in sorted(os.listdir(V + "/seeded")):
            if not os.path.exists(V + "/seeded/%s/patch.diff" % d):
                continue
            meta = json.load(open(V + "/seeded/%s/meta.json" % d))
            rp = V + "/seeded/%s/result.json" % d
            done = os.path.exists(rp) and meta["property"] in json.load(open(rp)).get(tier, {})
            cfgp = V + "/checks/%s.json" % meta["property"]
            if not done and os.path.exists(cfgp) and json.load(open(cfgp)).get("ready"):
                names.append(d)
        print("pending:", names)
    elif not names:
        names = sorted(d for d in os.listdir(V + "/seeded") if os.path.exists(V + "/seeded/%s/patch.diff" % d))
    rc_all = 0
    for n in names:
        d = V + "/seeded/" + n
        meta = json.load(open(d + "/meta.json"))
        wt = "/tmp/scratch/seed-" + n
        sh("git -C /repo worktree remove --force %s" % wt)
        os.makedirs("/tmp/scratch", exist_ok=True)
        r = sh("git -C /repo worktree add --detach %s HEAD" % wt)
        r = sh("git -C %s apply %s/patch.diff" % (wt, d))
        if r.returncode != 0:
            print(n, "PATCH DOES NOT APPLY", r.stdout); rc_all = 1
            sh("git -C /repo worktree remove --force %s" % wt); continue
        res = {}
        for cid in [meta["property"]] + [c for c in extra if c != meta["property"]]:
            if not os.path.exists(V + "/checks/%s.json" % cid):
                res[cid] = "no-check"; continue
            t0 = time.time()
            env = dict(os.environ, VERIF_REPO=wt)
            p = subprocess.run(["python3", V + "/check.py", cid, "--tier", tier], cwd=V, env=env, stdout=subprocess.PIPE, stderr=subprocess.STDOUT, text=True)
            viol = [l for l in p.stdout.splitlines() if l.startswith("VIOLATION")]
            res[cid] = {"exit": p.returncode, "caught": p.returncode == 1 and bool(viol), "wall_s": round(time.time() - t0, 1),
                        "tier": tier, "tail": p.stdout.splitlines()[-12:]}
            print(n, cid, tier, "CAUGHT" if res[cid]["caught"] else "missed (exit %d)" % p.returncode, "%.0fs" % (time.time() - t0))
        sh("git -C /repo worktree remove --force %s" % wt)
        shutil.rmtree(V + "/work/" + __import__("hashlib").sha1(wt.encode()).hexdigest()[:8], ignore_errors=True)
        shutil.rmtree(V + "/build/" + __import__("hashlib").sha1(wt.encode()).hexdigest()[:8], ignore_errors=True)
        old = {}
        if os.path.exists(d + "/result.json"):
            old = json.load(open(d + "/result.json"))
        old.setdefault(tier, {}).update(res)
        json.dump(old, open(d + "/result.json", "w"), indent=1)
    return rc_all
sys.exit(main())
