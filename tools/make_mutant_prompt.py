import json,sys
pid=sys.argv[1]
for l in open('/verif/properties.jsonl'):
    p=json.loads(l)
    if p['id']==pid: break
txt=f"""You are helping evaluate a verification framework for go-ethereum (geth) by writing a realistic, subtle BUG (a "seeded change").
You have your own scratch git worktree of the pinned go-ethereum tree at /tmp/mut/{pid} (already created; work ONLY there and in /tmp/mut/{pid}-out). Do NOT read or write anything under /verif or /repo. The sandbox is offline.

The semantic property to break (this is all the specification you get):
  id: {p['id']}
  title: {p['title']}
  statement: {p['statement']}
  quantified over: {p['quantifier']['text']}
  anchored in files: {', '.join(p['anchors']['files'])}
  mechanisms meant to make it hold: {'; '.join(m['name']+' @ '+m.get('where','') for m in p['anchors']['mechanism'])}

Task: produce TWO independent changes (A and B, at different sites / of different kinds, each a separate patch against the pristine tree) to the non-test Go source of go-ethereum such that, for each:
  1. the tree still compiles (`go build ./...` for the affected packages, and `go vet`-free is not required);
  2. the EXISTING test suite of the affected package(s) and of their most direct dependants still passes, unedited (run `go test` on those packages with and note results; a test that fails identically on the pristine tree does not count against you);
  3. the change makes the property FALSE for some inputs/histories/schedules/crash points, but needs something specific to manifest — a particular interleaving, a crash/fault at a particular point, a multi-step sequence of operations, an unusual/boundary input, or two cooperating sites that each look fine alone. Not something ordinary use or the existing tests would expose at once. It must look like a plausible programmer slip or mis-optimisation, not sabotage (no magic constants keyed to a test, no `if input == X`).
  4. you supply a DEMONSTRATION: a new Go test file (placed inside the relevant package dir of the worktree, name it zz_demo_{pid.lower()}_a_test.go / _b_test.go) or a small program, that FAILS with the change applied and PASSES on the pristine tree. Verify both directions yourself (use `git stash` / `git apply -R` to flip).
Deliverables in /tmp/mut/{pid}-out/: A/patch.diff, A/<demo file>, A/README.md and the same under B/. patch.diff = `git diff` of non-test source only (exclude go.sum/go.mod and the demo file). README.md: which property it breaks and how, exactly what it needs in order to manifest, the commands you ran (build, existing tests, demo with and without the change) and their outcomes. Leave the worktree clean of the patch at the end is not required (the lead removes it).

Build/test recipe (offline): use the Go toolchain binary /root/go/pkg/mod/golang.org/toolchain@v0.0.1-go1.24.0.linux-amd64/bin/go with env GOTOOLCHAIN=local GOFLAGS=-mod=mod GOPROXY=off GOSUMDB=off, run from inside the worktree, e.g. `go test -count=1 -vet=off ./trie/...`. The machine is shared and busy: give long-running commands explicit long timeouts; a cold build of a package family can take minutes. Do not run the entire repository test suite; the affected packages + direct dependants suffice. Keep disk use small; do not create other worktrees.
Final message: for A and B each — one paragraph on the change, what it needs to manifest, and the confirmation table (build ok / existing tests ok / demo fails with / demo passes without). If you could only produce one, say so."""
print(txt)
