#!/bin/bash
# usage: tools/run_all.sh [tier] [ids...]   runs checks serially, prints id exit wall
tier=${1:-quick}; shift
ids="$@"
[ -z "$ids" ] && ids=$(python3 -c "
import json,glob
print(' '.join(sorted(json.load(open(p))['id'] for p in glob.glob('/verif/checks/C*.json') if json.load(open(p)).get('ready'))))")
for id in $ids; do
  s=$(date +%s)
  python3 /verif/check.py $id --tier $tier > /tmp/scratch/runall-$id.log 2>&1
  rc=$?
  e=$(date +%s)
  echo "$id exit=$rc wall=$((e-s))s $(grep -c '^KNOWN-FINDING' /tmp/scratch/runall-$id.log) known $(grep '^VIOLATION' /tmp/scratch/runall-$id.log | head -1)"
done
