#!/bin/bash
# usage: tools/soak.sh "<seeds>" [load]   runs every ready check's quick tier for each seed; with "load" 16 busy loops run alongside
seeds=${1:-"2 3"}; load=${2:-}
if [ -n "$load" ]; then for i in $(seq 16); do (timeout 14400 sh -c 'while :; do :; done' &) ; done; fi
for s in $seeds; do
  VERIF_SEED=$s /verif/tools/run_all.sh quick > /tmp/scratch/soak-$s$load.out 2>&1
  for id in $(grep -v "exit=0" /tmp/scratch/soak-$s$load.out | awk '{print $1}'); do cp /tmp/scratch/runall-$id.log /tmp/scratch/soakfail-$id-$s$load.log; done
done
if [ -n "$load" ]; then pkill -f "while :; do :; done"; fi
echo done > /tmp/scratch/soak-"$seeds"$load.done
