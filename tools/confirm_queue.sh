#!/bin/bash
# usage: tools/confirm_queue.sh "C24 A ./core/rawdb/" "C24 B ./core/rawdb/" ...   (sequential seed confirmations)
cd /verif
mkdir -p /tmp/scratch
for spec in "$@"; do
  set -- $spec
  python3 tools/confirm_seed.py /tmp/mut/$1-out/$2 $1-$2 $1 "$3" > /tmp/scratch/confirm-$1-$2.log 2>&1
done
