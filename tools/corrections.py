#!/usr/bin/env python3
"""Collect the 'Corrections' sections of notes/Cxx.md into DESIGN.md §6b (generated)."""
import glob, re
out = ["## 6b. Corrections made while implementing (collected from notes/Cxx.md by tools/corrections.py)", "",
       "Each item is a false alarm or over-assertion of the harness (geth was right) and what was changed; genuine defects are in §6a.", ""]
for p in sorted(glob.glob("/verif/notes/C*.md")):
    cid = p.split("/")[-1][:-3]
    lines = open(p).read().splitlines()
    buf = []; on = False
    for l in lines:
        if re.match(r"^#+ ", l):
            on = bool(re.search(r"orrection", l))
            continue
        if on: buf.append(l)
    txt = "\n".join(buf).strip()
    if txt and not re.fullmatch(r"(?i)\(?none\.?\)?|-?\s*none.*", txt):
        out.append("**%s**" % cid); out.append(""); out.append(txt); out.append("")
s = open("/verif/DESIGN.md").read()
blk = "\n".join(out)
if "## 6b. Corrections made while implementing" in s:
    s = re.sub(r"## 6b\. Corrections made while implementing.*?(?=\n## )", blk + "\n", s, flags=re.S)
else:
    s = s.replace("\n## 7. First suspects", "\n" + blk + "\n\n## 7. First suspects", 1)
open("/verif/DESIGN.md", "w").write(s)
print("corrections collected")
