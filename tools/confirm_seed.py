#!/usr/bin/env python3
"""Confirm an independently written seeded change and import it into /verif/seeded/<name>/.

usage: tools/confirm_seed.py <srcdir> <name> <property> <test-pkgs (comma, ./x/...)> [demo-run-regex]
srcdir holds patch.diff, a demo *_test.go (or several) and README.md.
Steps (scratch worktree under /tmp/scratch, removed afterwards): demo passes on pristine HEAD; patch applies and builds;
demo fails with the patch; the existing tests of the given packages pass with the patch. Writes meta.json with the outcomes.
"""
import json, os, re, shutil, subprocess, sys, time
GO = "/root/go/pkg/mod/golang.org/toolchain@v0.0.1-go1.24.0.linux-amd64/bin/go"
def sh(cmd, cwd=None, timeout=3600):
    env = dict(os.environ, GOTOOLCHAIN="local", GOPROXY="off", GOFLAGS="-mod=mod", GOSUMDB="off")
    p = subprocess.run(cmd, shell=True, cwd=cwd, env=env, stdout=subprocess.PIPE, stderr=subprocess.STDOUT, text=True, timeout=timeout)
    return p.returncode, p.stdout
src, name, prop, pkgs = sys.argv[1:5]
regex = sys.argv[5] if len(sys.argv) > 5 else "Demo"
wt = "/tmp/scratch/confirm-" + name
sh("git -C /repo worktree remove --force " + wt)
os.makedirs("/tmp/scratch", exist_ok=True)
sh("git -C /repo worktree add --detach %s HEAD" % wt)
patch = open(os.path.join(src, "patch.diff")).read()
demos = [f for f in os.listdir(src) if f.endswith("_test.go")]
# demo package dir: from the patch's first touched dir unless README names it; try each touched dir
dirs = []
for m in re.finditer(r"^\+\+\+ b/(.+)$", patch, re.M):
    d = os.path.dirname(m.group(1))
    if d not in dirs: dirs.append(d)
res = {"property": prop, "name": name, "source": "independent sub-agent given only the property text and a scratch worktree", "confirmed_at": time.strftime("%Y-%m-%d %H:%M")}
def pkg_of_demo(f):
    if os.environ.get("DEMO_DIR"):
        return os.environ["DEMO_DIR"]
    return _pkg_of_demo(f)


def _pkg_of_demo(f):
    txt = open(os.path.join(src, f)).read()
    m = re.search(r"^package (\w+)", txt, re.M)
    pk = m.group(1) if m else ""
    want = pk.replace("_test", "")
    cands = list(dirs)
    for d in dirs:  # parents of touched dirs
        while "/" in d:
            d = os.path.dirname(d); cands.append(d)
    readme = os.path.join(src, "README.md")
    if os.path.exists(readme):  # paths mentioned next to the demo file name
        for m in re.finditer(r"([A-Za-z0-9_./-]+)/" + re.escape(f), open(readme).read()):
            cands.insert(0, m.group(1).lstrip("./"))
    for d in cands:
        if os.path.basename(d) == want and os.path.isdir(os.path.join(wt, d)): return d
    # last resort: any directory in the tree with that package name next to the touched ones
    for root, dn, fn in os.walk(wt):
        if os.path.basename(root) == want and any(x.endswith(".go") for x in fn):
            return os.path.relpath(root, wt)
    return dirs[0]
demo_dirs = {}
for f in demos:
    d = pkg_of_demo(f); demo_dirs[f] = d
    shutil.copy(os.path.join(src, f), os.path.join(wt, d, f))
ddirs = sorted(set("./" + d for d in demo_dirs.values()))
rc, out = sh("%s test -count=1 -vet=off -run '%s' %s" % (GO, regex, " ".join(ddirs)), cwd=wt)
res["demo_passes_without"] = rc == 0
res["demo_without_tail"] = out.splitlines()[-5:]
rc, out = sh("git apply %s/patch.diff" % os.path.abspath(src), cwd=wt)
res["patch_applies"] = rc == 0
if rc == 0:
    rc, out = sh("%s build ./..." % GO, cwd=wt)
    res["builds"] = rc == 0
    rc, out = sh("%s test -count=1 -vet=off -run '%s' %s" % (GO, regex, " ".join(ddirs)), cwd=wt)
    res["demo_fails_with"] = rc != 0 and "FAIL" in out
    res["demo_with_tail"] = [l for l in out.splitlines() if "FAIL" in l or "demo" in l.lower()][:8]
    for f, d in demo_dirs.items():
        os.remove(os.path.join(wt, d, f))
    rc, out = sh("%s test -count=1 -vet=off %s" % (GO, " ".join(pkgs.split(","))), cwd=wt, timeout=7200)
    res["existing_tests_pass_with"] = rc == 0
    res["existing_tests_cmd"] = "go test -count=1 -vet=off " + " ".join(pkgs.split(","))
    res["existing_tests_tail"] = out.splitlines()[-12:]
sh("git -C /repo worktree remove --force " + wt)
ok = all(res.get(k) for k in ("demo_passes_without", "patch_applies", "builds", "demo_fails_with", "existing_tests_pass_with"))
res["confirmed"] = ok
dst = "/verif/seeded/" + name
if ok:
    os.makedirs(dst, exist_ok=True)
    shutil.copy(os.path.join(src, "patch.diff"), dst)
    for f in demos: shutil.copy(os.path.join(src, f), dst)
    if os.path.exists(os.path.join(src, "README.md")): shutil.copy(os.path.join(src, "README.md"), dst)
    res["needs_to_manifest"] = "see README.md"
    res["demo_dirs"] = demo_dirs
    json.dump(res, open(dst + "/meta.json", "w"), indent=1)
print(json.dumps(res, indent=1))
sys.exit(0 if ok else 1)
