#!/bin/bash
# usage: tools/probe.sh <name> <check-id> <file> <python-expr-old> <python-expr-new>   (strings; applies s.replace(old,new,1) in a scratch worktree)
set -u
name=$1; cid=$2; file=$3; old=$4; new=$5; tier=${6:-quick}
wt=/tmp/scratch/probe-$name
git -C /repo worktree remove --force $wt >/dev/null 2>&1
mkdir -p /tmp/scratch
git -C /repo worktree add --detach $wt HEAD >/dev/null 2>&1
python3 - "$wt/$file" "$old" "$new" <<'PY'
import sys
p,old,new=sys.argv[1:4]
s=open(p).read()
if old not in s:
    print("PROBE ERROR: pattern not found"); sys.exit(3)
open(p,'w').write(s.replace(old,new,1))
PY
[ $? -eq 3 ] && { git -C /repo worktree remove --force $wt; exit 3; }
VERIF_REPO=$wt python3 /verif/check.py $cid --tier $tier > /tmp/scratch/probe-$name.log 2>&1
rc=$?
grep -E "^check |^VIOLATION|BUILD FAILED|INCONCLUSIVE" /tmp/scratch/probe-$name.log | head -3
grep -E "rapid\] failed|_test.go:[0-9]+: [A-Za-z]" /tmp/scratch/probe-$name.log | grep -v draw | head -2 | cut -c1-300
echo "probe $name exit=$rc"
git -C /repo worktree remove --force $wt
h=$(python3 -c "import hashlib,sys;print(hashlib.sha1(sys.argv[1].encode()).hexdigest()[:8])" $wt)
rm -rf /verif/work/$h /verif/build/$h /tmp/scratch/probe-$name.log
exit $rc
