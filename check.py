#!/usr/bin/env python3
"""Driver for the go-ethereum property checks (see DESIGN.md §2.3).

usage: check.py <ID> [--tier quick|thorough] [--replay PATH] [--build-only]
       check.py --setup            build (warm) every registered check
       check.py --gen-manifest     regenerate MANIFEST.json from checks/*.json
       check.py --list

exit 0: property held on everything explored
exit 1: VIOLATION property=<id> replay=<path> printed
exit 2: inconclusive (build failure, timeout, harness problem) - never a violation
"""
import glob
import hashlib
import json
import os
import re
import shutil
import subprocess
import sys
import time
from concurrent.futures import ThreadPoolExecutor

VERIF = os.path.dirname(os.path.abspath(__file__))
REPO = os.environ.get("VERIF_REPO", "/repo")
MODCACHE = "/root/go/pkg/mod"
GO_CANDIDATES = [
    MODCACHE + "/golang.org/toolchain@v0.0.1-go1.24.0.linux-amd64/bin/go",
    "/opt/veriftools/go1.26.8/bin/go",
]
RAPID_VERSION = "v1.3.0"


import contextlib
import fcntl

SLOTS = int(os.environ.get("VERIF_SLOTS", "16"))
SLOT_DIR = "/tmp/verif-slots"


@contextlib.contextmanager
def slot(kind="t"):
    """Machine-wide counting semaphore (flock on one of SLOTS files) so that concurrently running
    checks do not oversubscribe the cores; uncontended it costs nothing."""
    os.makedirs(SLOT_DIR, exist_ok=True)
    n = SLOTS if kind == "t" else max(2, SLOTS // 4)
    fh = None
    while fh is None:
        for i in range(n):
            f = open(os.path.join(SLOT_DIR, "%s%d" % (kind, i)), "w")
            try:
                fcntl.flock(f, fcntl.LOCK_EX | fcntl.LOCK_NB)
                fh = f
                break
            except OSError:
                f.close()
        if fh is None:
            time.sleep(0.5)
    try:
        yield
    finally:
        fcntl.flock(fh, fcntl.LOCK_UN)
        fh.close()


def go_bin():
    for c in GO_CANDIDATES:
        if os.path.exists(c):
            return c
    return "go"


def base_env():
    env = dict(os.environ)
    env.update({
        "GOTOOLCHAIN": "local", "GOFLAGS": "-mod=mod", "GOPROXY": "off", "GONOSUMDB": "*",
        "GONOSUMCHECK": "1", "GOWORK": "off",
    })
    env.pop("GOSUMDB", None)
    env["GOSUMDB"] = "off"
    return env


def load_check(cid):
    p = os.path.join(VERIF, "checks", cid + ".json")
    with open(p) as f:
        return json.load(f)


def all_ids():
    return sorted(os.path.basename(p)[:-5] for p in glob.glob(os.path.join(VERIF, "checks", "C*.json")))


RUNDIR = "run-%d" % os.getpid()


def check_dir(cid):
    """Per-invocation scratch directory of a check (concurrent invocations must not share it)."""
    return os.path.join(VERIF, "work", repo_tag(REPO), cid, RUNDIR)


def prune_run_dirs(cid):
    base = os.path.join(VERIF, "work", repo_tag(REPO), cid)
    if not os.path.isdir(base):
        return
    for d in os.listdir(base):
        m = re.match(r"run-(\d+)$", d)
        if m and not os.path.exists("/proc/%s" % m.group(1)):
            shutil.rmtree(os.path.join(base, d), ignore_errors=True)
        elif not m and d != "replays" and d != "evidence.json":
            shutil.rmtree(os.path.join(base, d), ignore_errors=True)  # layout of older driver versions


def repo_tag(repo):
    return "main" if repo == "/repo" else hashlib.sha1(repo.encode()).hexdigest()[:8]


def prepare_build(cid, unit):
    """Write modfile + overlay for this unit; returns (modfile, overlay)."""
    bdir = os.path.join(VERIF, "build", repo_tag(REPO), cid, unit["name"])
    os.makedirs(bdir, exist_ok=True)
    gomod = open(os.path.join(REPO, "go.mod")).read()
    gomod += "\nrequire pgregory.net/rapid %s\nrequire verif.local/kit v0.0.0\nreplace verif.local/kit => %s/kit\n" % (
        RAPID_VERSION, VERIF)
    modfile = os.path.join(bdir, "go.mod")
    with open(modfile, "w") as f:
        f.write(gomod)
    shutil.copyfile(os.path.join(REPO, "go.sum"), os.path.join(bdir, "go.sum"))
    replace = {}
    # shared helper packages: harness/internal/verifx/** -> <repo>/internal/verifx/**
    hx = os.path.join(VERIF, "harness", "internal", "verifx")
    for root, _, files in os.walk(hx):
        for fn in files:
            if fn.endswith(".go"):
                src = os.path.join(root, fn)
                rel = os.path.relpath(src, os.path.join(VERIF, "harness"))
                replace[os.path.join(REPO, rel)] = src
    for dst, src in unit.get("overlay", {}).items():
        replace[os.path.join(REPO, dst)] = os.path.join(VERIF, src)
    overlay = os.path.join(bdir, "overlay.json")
    with open(overlay, "w") as f:
        json.dump({"Replace": replace}, f, indent=1)
    return bdir, modfile, overlay


def build_unit(cid, unit, fuzz=False, race=False):
    bdir, modfile, overlay = prepare_build(cid, unit)
    out = os.path.join(bdir, "t%s%s.test" % ("-race" if race else "", "-fuzz" if fuzz else ""))
    tags = ",".join(["verif"] + unit.get("tags", []))
    cmd = [go_bin(), "test", "-c", "-o", out, "-modfile=" + modfile, "-overlay=" + overlay, "-tags", tags, "-vet=off"]
    if race:
        cmd.append("-race")
    if fuzz:
        cmd += ["-fuzz", "."]  # enables coverage instrumentation of the test binary
    cmd.append("./" + unit["pkg"])
    env = base_env()
    if unit.get("cgo") is False:
        env["CGO_ENABLED"] = "0"
    t0 = time.time()
    with slot("b"):
        r = subprocess.run(cmd, cwd=REPO, env=env, stdout=subprocess.PIPE, stderr=subprocess.STDOUT, text=True)
    if r.returncode != 0 and fuzz:
        # -fuzz with -c needs exactly one target match on some toolchains: fall back to no instrumentation
        cmd2 = [c for c in cmd if c not in ("-fuzz", ".")]
        r = subprocess.run(cmd2, cwd=REPO, env=env, stdout=subprocess.PIPE, stderr=subprocess.STDOUT, text=True)
    return r.returncode, out, r.stdout, time.time() - t0


class Run:
    def __init__(self, cid, unit, tier, seed, shard, binary, checks, race=False, run_regex=None, extra=None, timeout=None):
        self.cid, self.unit, self.tier, self.seed, self.shard = cid, unit, tier, seed, shard
        self.binary, self.checks, self.race = binary, checks, race
        self.run_regex = run_regex or unit.get("run", "^TestVerif" + cid)
        self.extra = extra or []
        self.timeout = timeout
        self.out = ""
        self.rc = None
        self.wdir = os.path.join(check_dir(cid), "%s-%s%d" % (unit["name"], "r" if race else "s", shard))
        self.stats = os.path.join(self.wdir, "stats.jsonl")
        self.hashes = os.path.join(self.wdir, "hashes.txt")
        self.timed_out = False

    def execute(self):
        shutil.rmtree(self.wdir, ignore_errors=True)
        os.makedirs(self.wdir, exist_ok=True)
        tcfg = self.unit.get(self.tier, {})
        timeout = self.timeout or tcfg.get("timeout_s", 900)
        eff = self.seed if self.shard == 0 and not self.race else self.seed * 1000 + self.shard + (500 if self.race else 0)
        if eff == 0:
            eff = 1
        env = base_env()
        env.update({"VERIF_TIER": self.tier, "VERIF_STATS_FILE": self.stats, "VERIF_HASH_FILE": self.hashes,
                    "VERIF_SEED_EFFECTIVE": str(eff), "VERIF_WORK": self.wdir, "VERIF_SHARD": str(self.shard),
                    "VERIF_SHARDS": str(tcfg.get("shards", 1)),
                    "VERIF_KNOWN_CLASSES": known_classes(self.cid), "VERIF_ROOT": VERIF,
                    "TMPDIR": os.path.join(self.wdir, "tmp")})
        os.makedirs(env["TMPDIR"], exist_ok=True)
        for k, v in self.unit.get("env", {}).items():
            env[k] = str(v)
        for k, v in tcfg.get("env", {}).items():
            env[k] = str(v)
        cmd = [self.binary, "-test.run", self.run_regex, "-test.v", "-test.timeout", "%ds" % timeout,
               "-rapid.seed=%d" % eff, "-rapid.checks=%d" % self.checks, "-rapid.shrinktime=%s" % tcfg.get("shrinktime", "20s"),
               "-test.count=1"] + self.extra
        self.cmd = cmd
        try:
            with slot("t"):
                t0 = time.time()
                r = subprocess.run(cmd, cwd=self.wdir, env=env, stdout=subprocess.PIPE, stderr=subprocess.STDOUT,
                                   text=True, errors="replace", timeout=timeout + 60)
            self.rc, self.out = r.returncode, r.stdout
        except subprocess.TimeoutExpired as e:
            self.rc, self.out, self.timed_out = -9, (e.stdout or b"").decode(errors="replace") if isinstance(e.stdout, bytes) else (e.stdout or ""), True
        self.wall = time.time() - t0
        with open(os.path.join(self.wdir, "output.log"), "w") as f:
            f.write(self.out)
        shutil.rmtree(env["TMPDIR"], ignore_errors=True)
        return self

    def classify(self):
        """-> 'ok' | 'violation' | 'inconclusive'"""
        tcfg = self.unit.get(self.tier, {})
        limit = self.timeout or tcfg.get("timeout_s", 900)
        if self.rc == 0:
            # rapid stops generating cases shortly before -test.timeout and still reports OK:
            # a run that used (almost) its whole time budget did not do the requested work
            if getattr(self, "wall", 0) > 0.9 * limit:
                self.out += "\nVERIF-INCONCLUSIVE: run used %.0fs of its %ds budget (rapid may have stopped early)\n" % (self.wall, limit)
                return "inconclusive"
            return "ok"
        o = self.out
        if self.timed_out or "panic: test timed out" in o or "VERIF-INCONCLUSIVE" in o:
            return "inconclusive"
        if self.rc in (-9, 137) or "signal: killed" in o or "cannot allocate memory" in o or "out of memory" in o:
            return "inconclusive"
        if "VERIF-HARNESS-BUG" in o:
            return "inconclusive"
        if "--- FAIL" in o or "panic:" in o or "fatal error:" in o or "DATA RACE" in o:
            return "violation"
        return "inconclusive"

    def failed_tests(self):
        return sorted(set(re.findall(r"--- FAIL: (\S+)", self.out)))


_known_cache = None


def known_findings():
    global _known_cache
    if _known_cache is None:
        p = os.path.join(VERIF, "known_findings.json")
        _known_cache = json.load(open(p)) if os.path.exists(p) else []
    return _known_cache


def known_classes(cid):
    return ",".join("%s/%s" % (k["signature"]["test"], k["signature"]["class"]) for k in known_findings()
                    if k.get("property") == cid and k.get("status") == "known")


def read_stats(runs):
    per_test = {}
    hashes = {}
    samples = []
    notes = []
    for r in runs:
        if os.path.exists(r.stats):
            for line in open(r.stats):
                try:
                    d = json.loads(line)
                except Exception:
                    continue
                t = per_test.setdefault(d["test"], {"evaluations": 0, "faults": 0, "nontrivial": 0, "classes": {},
                                                    "distinct_sum": 0, "overflow": 0, "excluded_known": 0, "exhaustive": False})
                t["evaluations"] += d.get("evaluations", 0)
                t["faults"] += d.get("faults", 0)
                t["nontrivial"] += d.get("nontrivial", 0)
                t["distinct_sum"] += d.get("distinct_nontrivial", 0)
                t["overflow"] += d.get("distinct_overflow", 0)
                t["excluded_known"] += d.get("excluded_known", 0)
                t["exhaustive"] = t["exhaustive"] or d.get("exhaustive", False)
                for k, v in (d.get("classes") or {}).items():
                    t["classes"][k] = t["classes"].get(k, 0) + v
                if len(samples) < 8:
                    for s in (d.get("samples") or [])[:3]:
                        if len(samples) < 8:
                            samples.append({"test": d["test"], "case": s})
                for n in d.get("notes") or []:
                    if n not in notes and len(notes) < 40:
                        notes.append(n)
        if os.path.exists(r.hashes):
            for line in open(r.hashes):
                parts = line.split()
                if len(parts) == 2:
                    hashes.setdefault(parts[0], set()).add(parts[1])
    distinct = 0
    for t, d in per_test.items():
        if t in hashes and d["overflow"] == 0:
            d["distinct_nontrivial"] = len(hashes[t])
        else:
            d["distinct_nontrivial"] = d["distinct_sum"]  # different seeds per shard; counted within shard
        distinct += d["distinct_nontrivial"]
        del d["distinct_sum"]
    return per_test, distinct, samples, notes


def write_evidence(cfg, tier, seed, runs, wall, violations, extra_notes=None, fuzz_info=None, replay_mode=False):
    per_test, distinct, samples, notes = read_stats(runs)
    evals = sum(d["evaluations"] for d in per_test.values())
    faults = sum(d["faults"] for d in per_test.values())
    cov = {
        "evaluations": evals + faults if cfg["level"] == "fault_enumeration" else evals,
        "distinct_nontrivial": distinct,
        "rule": cfg.get("rule", ""),
        "samples": samples,
        "generated_cases": evals,
        "fault_cases": faults,
        "per_test": per_test,
        "processes": len(runs),
        "excluded_known": sum(d.get("excluded_known", 0) for d in per_test.values()),
        "known_findings_listed": [k["signature"]["class"] for k in known_findings()
                                  if k.get("property") == cfg["id"] and k.get("status") == "known"],
        "notes": notes + (extra_notes or []),
    }
    if any(d.get("exhaustive") for d in per_test.values()):
        cov["exhaustive_subdomain"] = True
    if cfg["level"] == "other":
        cov["explanation"] = cfg.get("explanation", cfg.get("level_text", ""))
    if fuzz_info:
        cov["native_fuzz"] = fuzz_info
    ev = {
        "property_id": cfg["id"], "tier": tier, "seed": seed, "level": cfg["level"], "coverage": cov,
        "assumptions": cfg.get("assumptions", []), "wall_s": round(wall, 2), "violations": violations,
    }
    os.makedirs(os.path.join(VERIF, "evidence"), exist_ok=True)
    if REPO == "/repo" and not replay_mode:
        path = os.path.join(VERIF, "evidence", cfg["id"] + ".json")
    else:
        path = os.path.join(VERIF, "work", repo_tag(REPO), cfg["id"], "evidence.json")
        os.makedirs(os.path.dirname(path), exist_ok=True)
    with open(path, "w") as f:
        json.dump(ev, f, indent=1, sort_keys=True, default=str)
    return ev


def save_replay(cid, r):
    """Copy rapid fail files / fuzz crashers / output for a failed run; returns path."""
    rdir = os.path.join(VERIF, "replays", cid) if REPO == "/repo" else os.path.join(VERIF, "work", repo_tag(REPO), cid, "replays")
    os.makedirs(rdir, exist_ok=True)
    saved = None
    failed = r.failed_tests()
    for p in sorted(glob.glob(os.path.join(r.wdir, "testdata", "rapid", "*", "*.fail"))):
        dst = os.path.join(rdir, os.path.basename(p))
        shutil.copyfile(p, dst)
        if saved is None or (failed and os.path.basename(p).split("-")[0] in failed
                             and os.path.basename(saved).split("-")[0] not in failed):
            saved = dst
    for p in glob.glob(os.path.join(r.wdir, "testdata", "fuzz", "*", "*")):
        d = os.path.join(rdir, "fuzz", os.path.basename(os.path.dirname(p)))
        os.makedirs(d, exist_ok=True)
        dst = os.path.join(d, os.path.basename(p))
        shutil.copyfile(p, dst)
        saved = saved or dst
    logp = os.path.join(rdir, "last-failure-%s-%d.log" % (r.unit["name"], r.shard))
    with open(logp, "w") as f:
        f.write("cmd: %s\n" % " ".join(r.cmd))
        f.write(r.out[-200000:])
    return saved or logp


def tail(s, n=60):
    return "\n".join(s.splitlines()[-n:])


def interesting(out, n=80):
    lines = out.splitlines()
    keep = []
    for i, l in enumerate(lines):
        if ("--- FAIL" in l or "[rapid]" in l or "panic:" in l or "To reproduce" in l or "VERIF" in l
                or "DATA RACE" in l or "fatal error" in l):
            keep.extend(lines[i:i + 12])
    return "\n".join(keep[:n]) if keep else tail(out, 40)


def run_check(cid, tier, replay=None, build_only=False):
    cfg = load_check(cid)
    prune_run_dirs(cid)
    seed = int(os.environ.get("VERIF_SEED", "1") or "1")
    if seed == 0:
        seed = 1
    t0 = time.time()
    runs = []
    jobs = []
    extra_notes = []
    fuzz_jobs = []
    only_units = os.environ.get("VERIF_UNITS")
    for unit in cfg["units"]:
        tcfg = unit.get(tier)
        if tcfg is None:
            continue
        if only_units and unit["name"] not in only_units.split(","):
            continue  # development aid: run a subset of units (never used by registered commands)
        rc, binary, out, bt = build_unit(cid, unit)
        if rc != 0:
            print("BUILD FAILED (inconclusive) unit=%s\n%s" % (unit["name"], tail(out, 60)))
            return 2
        print("built %s/%s in %.1fs" % (cid, unit["name"], bt))
        if build_only:
            if tier == "thorough" or os.environ.get("VERIF_SETUP_ALL"):
                th = unit.get("thorough", {})
                if th.get("race_checks"):
                    build_unit(cid, unit, race=True)
            continue
        if replay:
            name = os.path.basename(replay)
            ap = os.path.abspath(replay)
            if "/fuzz/" in ap:
                target = os.path.basename(os.path.dirname(ap))
                if not re.search(unit.get("fuzz_regex", "FuzzVerif" + cid), target):
                    continue
                r = Run(cid, unit, tier, seed, 0, binary, 1, run_regex="^%s$" % target)
                r.pre_copy = (ap, os.path.join("testdata", "fuzz", target, name))
                jobs.append(r)
            else:
                m = re.match(r"(Test[A-Za-z0-9_]+)-", name)
                test = m.group(1) if m else unit.get("run", "^TestVerif" + cid)
                jobs.append(Run(cid, unit, tier, seed, 0, binary, 1, run_regex="^%s$" % test if m else test,
                                extra=["-rapid.failfile=" + ap]))
            continue
        shards = tcfg.get("shards", 1)
        for i in range(shards):
            jobs.append(Run(cid, unit, tier, seed, i, binary, tcfg.get("checks", 100)))
        if tcfg.get("race_checks"):
            rc, rbin, out, bt = build_unit(cid, unit, race=True)
            if rc != 0:
                print("RACE BUILD FAILED (inconclusive)\n%s" % tail(out, 40))
                return 2
            for i in range(tcfg.get("race_shards", 1)):
                jobs.append(Run(cid, unit, tier, seed, i, rbin, tcfg["race_checks"], race=True,
                                run_regex=tcfg.get("race_run", unit.get("run", "^TestVerif" + cid))))
        for fz in tcfg.get("fuzz", []):
            fuzz_jobs.append((unit, fz))
    if build_only:
        return 0

    def go(r):
        if getattr(r, "pre_copy", None):
            pass
        return r.execute()

    # replay of fuzz inputs needs the file in cwd/testdata/fuzz/<target>/
    for r in jobs:
        if getattr(r, "pre_copy", None):
            src, rel = r.pre_copy
            orig_execute = r.execute

            def ex(r=r, src=src, rel=rel, orig=orig_execute):
                shutil.rmtree(r.wdir, ignore_errors=True)
                os.makedirs(os.path.join(r.wdir, os.path.dirname(rel)), exist_ok=True)
                shutil.copyfile(src, os.path.join(r.wdir, rel))
                # execute() wipes wdir; emulate without wipe
                return run_no_wipe(r)
            r.execute = ex
    par = int(os.environ.get("VERIF_PAR", "16"))
    with ThreadPoolExecutor(max_workers=par) as ex:
        runs = list(ex.map(go, jobs))

    fuzz_info = []
    status = "ok"
    bad = []
    for r in runs:
        c = r.classify()
        if c == "violation":
            status = "violation"
            bad.append(r)
        elif c == "inconclusive" and status == "ok":
            status = "inconclusive"
            bad.append(r)
    # native fuzz (thorough only), skipped if something already failed
    if status == "ok" and fuzz_jobs and not replay:
        for unit, fz in fuzz_jobs:
            res = run_fuzz(cid, unit, fz, seed)
            fuzz_info.append(res["info"])
            if res["status"] == "violation":
                status = "violation"
                bad.append(res["run"])
            elif res["status"] == "inconclusive":
                extra_notes.append("native fuzz %s inconclusive: %s" % (fz["target"], res["info"].get("note", "")))

    # file comparisons across units (e.g. cgo vs nocgo transcripts)
    cmp_viol = None
    if status == "ok" and not replay and not only_units:
        for a, b in cfg.get("compare_files", []):
            pa = os.path.join(check_dir(cid), a)
            pb = os.path.join(check_dir(cid), b)
            if not (os.path.exists(pa) and os.path.exists(pb)):
                status = "inconclusive"
                extra_notes.append("compare_files: missing %s or %s" % (a, b))
                continue
            la, lb = open(pa).read().splitlines(), open(pb).read().splitlines()
            if la != lb:
                status = "violation"
                rdir = os.path.join(VERIF, "replays", cid) if REPO == "/repo" else os.path.join(VERIF, "work", repo_tag(REPO), cid, "replays")
                os.makedirs(rdir, exist_ok=True)
                cmp_viol = os.path.join(rdir, "transcript-diff.txt")
                with open(cmp_viol, "w") as f:
                    n = 0
                    for i, (x, y) in enumerate(zip(la, lb)):
                        if x != y:
                            f.write("line %d\n A: %s\n B: %s\n" % (i, x, y))
                            n += 1
                            if n > 20:
                                break
                    if len(la) != len(lb):
                        f.write("length differs: %d vs %d\n" % (len(la), len(lb)))
            else:
                extra_notes.append("compared %d transcript lines %s == %s" % (len(la), a, b))

    wall = time.time() - t0
    nviol = 1 if status == "violation" else 0
    ev = write_evidence(cfg, tier, seed, runs, wall, nviol, extra_notes, fuzz_info or None, replay_mode=bool(replay))
    cov = ev["coverage"]
    print("check %s tier=%s seed=%d: %s  evaluations=%d distinct_nontrivial=%d processes=%d wall=%.1fs" % (
        cid, tier, seed, status, cov["evaluations"], cov["distinct_nontrivial"], len(runs), wall))
    for k in known_findings():
        if k.get("property") == cid and k.get("status") == "known":
            print("KNOWN-FINDING: property=%s %s" % (cid, k.get("what", "")))
    if status == "violation":
        if cmp_viol:
            print("VIOLATION property=%s replay=%s" % (cid, cmp_viol))
            return 1
        r = bad[0]
        for b in bad:
            if b.classify() == "violation":
                r = b
                break
        path = save_replay(cid, r)
        print(interesting(r.out))
        print("VIOLATION property=%s replay=%s" % (cid, path))
        return 1
    if status == "inconclusive":
        r = bad[0] if bad else None
        if r is not None:
            print("INCONCLUSIVE run rc=%s timed_out=%s\n%s" % (r.rc, r.timed_out, tail(r.out, 40)))
        return 2
    if status == "ok":
        shutil.rmtree(check_dir(cid), ignore_errors=True)
    if not replay and (cov["evaluations"] < 1 or cov["distinct_nontrivial"] < 2 or not cov["samples"]):
        print("INCONCLUSIVE: vacuous run (evaluations=%d distinct_nontrivial=%d)" % (cov["evaluations"], cov["distinct_nontrivial"]))
        return 2
    return 0


def run_no_wipe(r):
    # same as Run.execute but keeps the prepared working directory
    tcfg = r.unit.get(r.tier, {})
    timeout = r.timeout or tcfg.get("timeout_s", 900)
    env = base_env()
    env.update({"VERIF_TIER": r.tier, "VERIF_STATS_FILE": r.stats, "VERIF_HASH_FILE": r.hashes,
                "VERIF_SEED_EFFECTIVE": str(r.seed or 1), "VERIF_WORK": r.wdir, "VERIF_ROOT": VERIF,
                "VERIF_KNOWN_CLASSES": known_classes(r.cid), "TMPDIR": os.path.join(r.wdir, "tmp")})
    os.makedirs(env["TMPDIR"], exist_ok=True)
    for k, v in r.unit.get("env", {}).items():
        env[k] = str(v)
    cmd = [r.binary, "-test.run", r.run_regex, "-test.v", "-test.timeout", "%ds" % timeout, "-test.count=1"] + r.extra
    r.cmd = cmd
    t0 = time.time()
    try:
        p = subprocess.run(cmd, cwd=r.wdir, env=env, stdout=subprocess.PIPE, stderr=subprocess.STDOUT, text=True,
                           errors="replace", timeout=timeout + 60)
        r.rc, r.out = p.returncode, p.stdout
    except subprocess.TimeoutExpired as e:
        r.rc, r.out, r.timed_out = -9, "", True
    r.wall = time.time() - t0
    shutil.rmtree(env["TMPDIR"], ignore_errors=True)
    return r


def run_fuzz(cid, unit, fz, seed):
    """Bounded native fuzz campaign of one target from a fresh corpus dir."""
    rc, binary, out, bt = build_unit(cid, unit, fuzz=True)
    info = {"target": fz["target"], "seconds": fz["seconds"]}
    if rc != 0:
        info["note"] = "fuzz build failed"
        return {"status": "inconclusive", "info": info, "run": None}
    r = Run(cid, unit, "thorough", seed, 0, binary, 1, run_regex="^$")
    r.wdir = os.path.join(check_dir(cid), "%s-fuzz-%s" % (unit["name"], fz["target"]))
    r.stats = os.path.join(r.wdir, "stats.jsonl")
    r.hashes = os.path.join(r.wdir, "hashes.txt")
    shutil.rmtree(r.wdir, ignore_errors=True)
    os.makedirs(r.wdir, exist_ok=True)
    # seed corpus
    cdir = os.path.join(VERIF, "corpus", cid, fz["target"])
    if os.path.isdir(cdir):
        shutil.copytree(cdir, os.path.join(r.wdir, "testdata", "fuzz", fz["target"]))
    cache = os.path.join(r.wdir, "fuzzcache")
    r.run_regex = "^$"
    r.extra = ["-test.fuzz=^%s$" % fz["target"], "-test.fuzztime=%ds" % fz["seconds"], "-test.fuzzcachedir=" + cache,
               "-test.parallel=%d" % fz.get("workers", 16)]
    r.timeout = fz["seconds"] + 300
    run_no_wipe(r)
    with open(os.path.join(r.wdir, "output.log"), "w") as f:
        f.write(r.out)
    m = re.findall(r"execs: (\d+)", r.out)
    info["execs"] = int(m[-1]) if m else 0
    m = re.findall(r"new interesting: (\d+)", r.out)
    info["new_interesting"] = int(m[-1]) if m else 0
    shutil.rmtree(cache, ignore_errors=True)
    if r.rc == 0:
        return {"status": "ok", "info": info, "run": r}
    if "VERIF-HARNESS-BUG" in r.out or "VERIF-INCONCLUSIVE" in r.out or "panic: test timed out" in r.out:
        info["note"] = "harness problem or timeout inside fuzz target"
        return {"status": "inconclusive", "info": info, "run": r}
    if "Failing input written to" in r.out or "--- FAIL" in r.out:
        if "context deadline exceeded" in r.out and "Failing input" not in r.out:
            info["note"] = "fuzz worker deadline"
            return {"status": "inconclusive", "info": info, "run": r}
        return {"status": "violation", "info": info, "run": r}
    info["note"] = "fuzz exited rc=%s" % r.rc
    return {"status": "inconclusive", "info": info, "run": r}


def gen_manifest():
    checks = []
    engines = {}
    for cid in all_ids():
        cfg = load_check(cid)
        if cfg.get("disabled") or not cfg.get("ready"):
            continue  # "ready": true is set by the lead once the check is reviewed and silent on the unchanged tree
        c = {
            "property_id": cid,
            "quick_cmd": "python3 check.py %s --tier quick" % cid,
            "thorough_cmd": "python3 check.py %s --tier thorough" % cid,
            "evidence_file": "/verif/evidence/%s.json" % cid,
            "replay_cmd_template": "python3 check.py %s --replay {path}" % cid,
            "engine": "rapid+gofuzz",
            "level_claimed": {"category": cfg["level"], "text": cfg["level_text"], "design_ref": cfg.get("design_ref", "DESIGN.md §3 " + cid)},
            "level_note": cfg["level_note"],
            "technique": cfg["technique"],
        }
        checks.append(c)
    na_path = os.path.join(VERIF, "not_applicable.json")
    na = json.load(open(na_path)) if os.path.exists(na_path) else []
    claimed = {c["property_id"] for c in checks}
    props = [json.loads(l)["id"] for l in open(os.path.join(VERIF, "properties.jsonl"))]
    na = [n for n in na if n["property_id"] not in claimed]
    listed = {n["property_id"] for n in na}
    for p in props:
        if p not in claimed and p not in listed:
            na.append({"property_id": p, "reason": "check not yet built in this session (planned in DESIGN.md §3); not claimed until its harness exists and is silent on the unchanged tree"})
    man = {
        "version": 1,
        "setup_cmd": "python3 check.py --setup",
        "hooks": {
            "guard": "verif",
            "enable": "no source hooks: harness files (//go:build verif) are compiled into go-ethereum packages with `go test -c -tags verif -overlay -modfile` from /repo's working tree (DESIGN.md §2.1)",
            "baseline_off_cmd": json.load(open("/root/.vp/BASELINE.json"))["cmd"],
            "source_commits": [],
            "add_only": True,
        },
        "engines": [
            {"name": "rapid+gofuzz", "path": "/verif/check.py", "serves_properties": sorted(claimed),
             "kind_free_text": "property-based testing with pgregory.net/rapid v1.3.0 (stateful where histories matter), exhaustive small-scope enumeration, native go fuzzing in the thorough tier; oracles are independent reference models, round-trips, differentials and invariants (kit/, harness/)"},
        ],
        "checks": checks,
        "not_applicable": na,
        "notes": "exit 0 held / 1 VIOLATION / 2 inconclusive (build failure, timeout, vacuous run). VERIF_SEED selects the rapid seed (0 is remapped to 1). VERIF_REPO may point the driver at a scratch worktree for mutation probes.",
    }
    with open(os.path.join(VERIF, "MANIFEST.json"), "w") as f:
        json.dump(man, f, indent=1)
    print("MANIFEST.json: %d checks, %d not_applicable" % (len(checks), len(na)))


def setup():
    ids = [c for c in all_ids() if not load_check(c).get("disabled") and load_check(c).get("ready")]
    os.environ["VERIF_SETUP_ALL"] = "1"
    failed = []

    def b(cid):
        try:
            return cid, run_check(cid, "quick", build_only=True)
        except Exception as e:  # noqa
            return cid, "exc %s" % e
    with ThreadPoolExecutor(max_workers=4) as ex:
        for cid, rc in ex.map(b, ids):
            if rc != 0:
                failed.append(cid)
    if failed:
        print("setup: build failed for", failed)
        return 1
    print("setup ok: %d checks built" % len(ids))
    return 0


def main():
    a = sys.argv[1:]
    if not a:
        print(__doc__)
        return 2
    if a[0] == "--setup":
        return setup()
    if a[0] == "--gen-manifest":
        gen_manifest()
        return 0
    if a[0] == "--list":
        print("\n".join(all_ids()))
        return 0
    cid = a[0]
    tier = os.environ.get("VERIF_TIER", "quick")
    replay = None
    build_only = False
    i = 1
    while i < len(a):
        if a[i] == "--tier":
            tier = a[i + 1]
            i += 2
        elif a[i] == "--replay":
            replay = a[i + 1]
            i += 2
        elif a[i] == "--build-only":
            build_only = True
            i += 1
        else:
            i += 1
    if tier not in ("quick", "thorough"):
        tier = "quick"
    return run_check(cid, tier, replay, build_only)


if __name__ == "__main__":
    sys.exit(main())
