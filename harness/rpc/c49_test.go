//go:build verif

package rpc

// C49: the JSON-RPC server answers every call exactly once.
//
// Two drivers share one script generator and one ledger oracle:
//   - TestVerifC49Conn: a persistent connection (ServeCodec over an in-memory conn whose
//     every Write is recorded): several frames in flight concurrently, batch limits,
//     subscriptions, graceful or abrupt end.
//   - TestVerifC49HTTP: single requests through Server.ServeHTTP with a recording
//     ResponseWriter and the request timeout derived from http.Server.WriteTimeout, with
//     timeouts drawn around the methods' sleep times.
//
// Time is an input only (sleep lengths, timeout settings). The oracle is a ledger over the
// raw JSON written by the server: counts per id, number of batch writes, ordering of
// subscription notifications relative to the response carrying the subscription id.

import (
	"bytes"
	"context"
	"encoding/json"
	"fmt"
	"io"
	"net/http"
	"net/http/httptest"
	"runtime"
	"sort"
	"strings"
	"sync"
	"testing"
	"time"

	"github.com/ethereum/go-ethereum/log"
	"pgregory.net/rapid"
	vs "verif.local/kit/stat"
)

// ---------------------------------------------------------------------------
// extra service with harness-controlled scheduling perturbation

type c49Service struct{}

// Spin burns a drawn number of scheduler yields before returning.
func (c49Service) Spin(n int) int {
	for i := 0; i < n; i++ {
		runtime.Gosched()
	}
	return n
}

// SleepCtx sleeps but returns early when the request context is cancelled.
func (c49Service) SleepCtx(ctx context.Context, d time.Duration) string {
	t := time.NewTimer(d)
	defer t.Stop()
	select {
	case <-t.C:
		return "slept"
	case <-ctx.Done():
		return "cancelled"
	}
}

// Eager is a subscription that notifies synchronously before the subscribe call returns
// (allowed: the notifier buffers until the response carrying the id has been sent).
func (c49Service) Eager(ctx context.Context, n int) (*Subscription, error) {
	notifier, ok := NotifierFromContext(ctx)
	if !ok {
		return nil, ErrNotificationsUnsupported
	}
	sub := notifier.CreateSubscription()
	for i := 0; i < n; i++ {
		notifier.Notify(sub.ID, i)
	}
	return sub, nil
}

// ---------------------------------------------------------------------------
// script model

type c49Entry struct {
	raw     string // JSON text
	kind    string // call | notif | resp | invalid
	id      string // raw id bytes as sent ("" when absent)
	echoID  bool   // invalid entry whose id is echoed in the error (scalar id)
	label   string // method/shape label for statistics
	sleepNs int64
	sub     bool
}

type c49Frame struct {
	batch   bool
	entries []c49Entry
	garbage bool
	raw     string
}

func (f *c49Frame) render() {
	if f.garbage {
		return
	}
	if !f.batch {
		f.raw = f.entries[0].raw
		return
	}
	parts := make([]string, len(f.entries))
	for i, e := range f.entries {
		parts[i] = e.raw
	}
	f.raw = "[" + strings.Join(parts, ",") + "]"
}

func (f *c49Frame) calls() (n int) {
	for _, e := range f.entries {
		if e.kind == "call" {
			n++
		}
	}
	return n
}

type c49Gen struct {
	http      bool // HTTP mode: no subscriptions, block allowed when a timeout is set
	timeout   bool
	single    bool // the entry being drawn is a whole (non-batch) frame
	sizeLimit int
	subsMade  *int
}

var c49Sleeps = []int64{0, 0, 200_000, 1_000_000, 1_000_000, 2_000_000, 5_000_000, 10_000_000, 30_000_000}

// genMethod returns method, params JSON (may be ""), label, sleep.
func (g *c49Gen) genMethod(rt *rapid.T) (method, params, label string, sleepNs int64, sub bool) {
	menu := []string{"echo", "echo", "null", "noargs", "rets", "nfecho", "modules", "error", "marshalerr", "unknown", "unknown2", "badparams",
		"objparams", "longname", "panic", "sleep", "sleep", "sleep", "sleepctx", "spin", "large", "large"}
	if g.sizeLimit != 0 {
		menu = append(menu, "large", "large", "large", "large", "large")
	}
	if g.http {
		menu = append(menu, "subscribe") // answered with an error over HTTP
		if g.timeout {
			menu = append(menu, "block", "block", "sleep", "sleep", "sleep", "sleepctx", "sleepctx", "sleepctx")
		}
	} else {
		menu = append(menu, "subscribe", "subscribe", "eagersubscribe", "eagersubscribe", "unsubscribe", "badsubscribe")
	}
	switch label = rapid.SampledFrom(menu).Draw(rt, "method"); label {
	case "echo":
		return "test_echo", `["x",1,{"S":"y"}]`, label, 0, false
	case "null":
		return "test_null", "", label, 0, false
	case "noargs":
		return "test_noArgsRets", `[]`, label, 0, false
	case "rets":
		return "test_rets", `null`, label, 0, false
	case "nfecho":
		return "nftest_echo", fmt.Sprintf("[%d]", rapid.IntRange(0, 9).Draw(rt, "n")), label, 0, false
	case "modules":
		return "rpc_modules", "", label, 0, false
	case "error":
		return "test_returnError", "", label, 0, false
	case "marshalerr":
		return "test_marshalError", "", label, 0, false
	case "unknown":
		return "test_nope", `[1]`, label, 0, false
	case "unknown2":
		return "nope", "", label, 0, false
	case "badparams":
		return "test_echo", `[1]`, label, 0, false
	case "objparams":
		return "test_echo", `{"a":1}`, label, 0, false
	case "longname":
		return "test_" + strings.Repeat("n", 2100), "", label, 0, false
	case "panic":
		return "test_panic", "", label, 0, false
	case "sleep":
		d := rapid.SampledFrom(c49Sleeps).Draw(rt, "sleepNs")
		return "test_sleep", fmt.Sprintf("[%d]", d), label, d, false
	case "sleepctx":
		d := rapid.SampledFrom(c49Sleeps).Draw(rt, "sleepNs")
		return "v_sleepCtx", fmt.Sprintf("[%d]", d), label, d, false
	case "spin":
		return "v_spin", fmt.Sprintf("[%d]", rapid.SampledFrom([]int{0, 1, 10, 100, 1000}).Draw(rt, "spin")), label, 0, false
	case "large":
		n := rapid.SampledFrom([]int{100, 600, 1100, 50_000, 110_000}).Draw(rt, "largeN")
		return "test_repeat", fmt.Sprintf(`["x",%d]`, n), fmt.Sprintf("large%d", n), 0, false
	case "block":
		return "test_block", "", label, 0, false
	case "subscribe":
		*g.subsMade++
		return "nftest_subscribe", fmt.Sprintf(`["someSubscription",%d,%d]`, rapid.SampledFrom([]int{0, 1, 3, 10, 25}).Draw(rt, "subN"), rapid.IntRange(0, 5).Draw(rt, "subVal")), label, 0, true
	case "eagersubscribe":
		*g.subsMade++
		return "v_subscribe", fmt.Sprintf(`["eager",%d]`, rapid.SampledFrom([]int{0, 1, 2, 7}).Draw(rt, "eagerN")), label, 0, true
	case "unsubscribe":
		return "nftest_unsubscribe", fmt.Sprintf(`[%q]`, rapid.SampledFrom([]string{"0x1", "0x1", "0x2", "0x3", "0xdead"}).Draw(rt, "unsubID")), label, 0, false
	case "badsubscribe":
		return rapid.SampledFrom([]string{"nftest_subscribe", "foo_subscribe", "nftest_subscribe"}).Draw(rt, "badSubM"),
			rapid.SampledFrom([]string{`["nope"]`, `[1]`, `{}`, ``}).Draw(rt, "badSubP"), label, 0, false
	}
	panic("unreachable")
}

func c49Msg(id, method, params string) string {
	var b strings.Builder
	b.WriteString(`{"jsonrpc":"2.0"`)
	if id != "" {
		b.WriteString(`,"id":` + id)
	}
	mj, _ := json.Marshal(method)
	b.WriteString(`,"method":` + string(mj))
	if params != "" {
		b.WriteString(`,"params":` + params)
	}
	b.WriteString("}")
	return b.String()
}

// genEntry draws one frame entry. callIDs are the ids usable for calls (and for the echoed
// ids of invalid entries) in this frame; forceCall/forceID pin the anchor call of a batch.
func (g *c49Gen) genEntry(rt *rapid.T, callIDs []string, forceCall bool, forceID string) c49Entry {
	e := g.genEntry0(rt, callIDs, forceCall, forceID)
	if g.single && e.label == "inv:array" { // a top-level array is a batch, not an invalid single message
		e.raw, e.label = `7`, "inv:number"
	}
	return e
}

func (g *c49Gen) genEntry0(rt *rapid.T, callIDs []string, forceCall bool, forceID string) c49Entry {
	kind := "call"
	if !forceCall {
		kind = rapid.SampledFrom([]string{"call", "call", "call", "call", "call", "call", "notif", "notif", "resp", "invalid", "invalid"}).Draw(rt, "entryKind")
	}
	switch kind {
	case "call":
		id := forceID
		if id == "" {
			id = rapid.SampledFrom(callIDs).Draw(rt, "callID")
		}
		m, p, label, sl, sub := g.genMethod(rt)
		return c49Entry{raw: c49Msg(id, m, p), kind: "call", id: id, label: label, sleepNs: sl, sub: sub}
	case "notif":
		m, p, label, sl, sub := g.genMethod(rt)
		if sub { // a subscription requested without id cannot be correlated by anyone: out of the domain
			m, p, label = "test_echo", `["n",2,null]`, "echo"
		}
		return c49Entry{raw: c49Msg("", m, p), kind: "notif", label: "notif:" + label, sleepNs: sl}
	case "resp":
		id := rapid.SampledFrom(append([]string{`77`, `"r"`}, callIDs...)).Draw(rt, "respID")
		body := rapid.SampledFrom([]string{`"result":1`, `"result":null`, `"error":{"code":-1,"message":"x"}`, `"result":"0x1"`}).Draw(rt, "respBody")
		return c49Entry{raw: `{"jsonrpc":"2.0","id":` + id + `,` + body + `}`, kind: "resp", id: id, label: "response-shaped"}
	}
	// invalid entries
	id := rapid.SampledFrom(callIDs).Draw(rt, "invID")
	switch shape := rapid.SampledFrom([]string{"version", "noversion", "nomethod", "idonly-noversion", "empty", "number", "string", "null", "bool", "array", "idobject", "idarray", "emptymethod"}).Draw(rt, "invalidShape"); shape {
	case "version":
		return c49Entry{raw: `{"jsonrpc":"1.0","id":` + id + `,"method":"test_echo"}`, kind: "invalid", id: id, echoID: true, label: "inv:" + shape}
	case "noversion":
		return c49Entry{raw: `{"id":` + id + `,"method":"test_echo","params":[]}`, kind: "invalid", id: id, echoID: true, label: "inv:" + shape}
	case "nomethod":
		return c49Entry{raw: `{"jsonrpc":"2.0","id":` + id + `}`, kind: "invalid", id: id, echoID: true, label: "inv:" + shape}
	case "idonly-noversion":
		return c49Entry{raw: `{"id":` + id + `}`, kind: "invalid", id: id, echoID: true, label: "inv:" + shape}
	case "emptymethod":
		return c49Entry{raw: `{"jsonrpc":"2.0","id":` + id + `,"method":"","params":[1]}`, kind: "invalid", id: id, echoID: true, label: "inv:" + shape}
	case "empty":
		return c49Entry{raw: `{}`, kind: "invalid", label: "inv:" + shape}
	case "number":
		return c49Entry{raw: `7`, kind: "invalid", label: "inv:" + shape}
	case "string":
		return c49Entry{raw: `"test_echo"`, kind: "invalid", label: "inv:" + shape}
	case "null":
		return c49Entry{raw: `null`, kind: "invalid", label: "inv:" + shape}
	case "bool":
		return c49Entry{raw: `true`, kind: "invalid", label: "inv:" + shape}
	case "array":
		return c49Entry{raw: `[1,2]`, kind: "invalid", label: "inv:" + shape}
	case "idobject":
		return c49Entry{raw: `{"jsonrpc":"2.0","id":{"a":1},"method":"test_echo"}`, kind: "invalid", id: `{"a":1}`, label: "inv:" + shape}
	default: // idarray
		return c49Entry{raw: `{"jsonrpc":"2.0","id":[1],"method":"test_echo"}`, kind: "invalid", id: `[1]`, label: "inv:" + shape}
	}
}

// ---------------------------------------------------------------------------
// parsing of the server's output

type c49Obj struct {
	id      string // raw id, "null" when absent
	hasID   bool
	method  string
	isErr   bool
	errCode int
	errMsg  string
	result  string // raw result
	params  string
}

type c49Write struct {
	array bool
	objs  []c49Obj
	raw   string
}

func c49ParseObj(raw json.RawMessage) (c49Obj, error) {
	var m struct {
		Version string          `json:"jsonrpc"`
		ID      json.RawMessage `json:"id"`
		Method  *string         `json:"method"`
		Params  json.RawMessage `json:"params"`
		Error   *struct {
			Code    int             `json:"code"`
			Message string          `json:"message"`
			Data    json.RawMessage `json:"data"`
		} `json:"error"`
		Result json.RawMessage `json:"result"`
	}
	dec := json.NewDecoder(bytes.NewReader(raw))
	dec.DisallowUnknownFields()
	if err := dec.Decode(&m); err != nil {
		return c49Obj{}, fmt.Errorf("not a JSON-RPC object: %v", err)
	}
	if m.Version != "2.0" {
		return c49Obj{}, fmt.Errorf("version %q", m.Version)
	}
	o := c49Obj{id: "null", result: string(m.Result), params: string(m.Params)}
	if m.ID != nil {
		o.id, o.hasID = string(m.ID), true
	}
	if m.Method != nil {
		o.method = *m.Method
		return o, nil
	}
	if (m.Error != nil) == (m.Result != nil) {
		return c49Obj{}, fmt.Errorf("response must carry exactly one of result/error")
	}
	if m.Error != nil {
		o.isErr, o.errCode, o.errMsg = true, m.Error.Code, m.Error.Message
	}
	return o, nil
}

// c49ParseWrite: one recorded write must be exactly one JSON value (object or array of objects).
func c49ParseWrite(b []byte) (c49Write, error) {
	w := c49Write{raw: string(b)}
	dec := json.NewDecoder(bytes.NewReader(b))
	var v json.RawMessage
	if err := dec.Decode(&v); err != nil {
		return w, fmt.Errorf("write is not a JSON value: %v", err)
	}
	var extra json.RawMessage
	if err := dec.Decode(&extra); err != io.EOF {
		return w, fmt.Errorf("write contains more than one JSON value")
	}
	t := bytes.TrimSpace(v)
	if len(t) > 0 && t[0] == '[' {
		w.array = true
		var elems []json.RawMessage
		if err := json.Unmarshal(t, &elems); err != nil {
			return w, err
		}
		for _, e := range elems {
			o, err := c49ParseObj(e)
			if err != nil {
				return w, err
			}
			w.objs = append(w.objs, o)
		}
		return w, nil
	}
	o, err := c49ParseObj(t)
	if err != nil {
		return w, err
	}
	w.objs = []c49Obj{o}
	return w, nil
}

func c49Clip(s string) string {
	for _, run := range []string{"x", "n"} { // long filler runs of large results / long method names
		if i := strings.Index(s, strings.Repeat(run, 64)); i >= 0 {
			j := i
			for j < len(s) && s[j] == run[0] {
				j++
			}
			return c49Clip(s[:i] + fmt.Sprintf("<%s*%d>", run, j-i) + s[j:])
		}
	}
	if len(s) > 6000 {
		return s[:6000] + fmt.Sprintf("...(%d bytes)", len(s))
	}
	return s
}

func c49Transcript(frames []*c49Frame, writes []c49Write) string {
	var b strings.Builder
	for i, f := range frames {
		fmt.Fprintf(&b, "  --> frame %d: %s\n", i, c49Clip(f.raw))
	}
	for i, w := range writes {
		fmt.Fprintf(&b, "  <-- write %d: %s\n", i, c49Clip(strings.TrimSpace(w.raw)))
	}
	return b.String()
}

// ---------------------------------------------------------------------------
// ledger for one batch frame (its single array write, already attributed)

// c49CheckBatch checks the objects written for a within-limit batch. exact=false (abrupt
// close) only checks upper bounds.
func c49CheckBatch(f *c49Frame, objs []c49Obj, exact bool) error {
	calls, slack, invalid := map[string]int{}, map[string]int{}, 0
	for _, e := range f.entries {
		switch {
		case e.kind == "call":
			calls[e.id]++
		case e.kind == "invalid":
			// may be answered by one error object, echoing the entry's id or with null/absent id
			invalid++
			slack["null"]++
			if e.id != "" && e.id != "null" {
				slack[e.id]++
			}
		}
	}
	if ncalls := f.calls(); len(objs) > ncalls+invalid {
		return fmt.Errorf("%d response objects for %d calls and %d invalid entries", len(objs), ncalls, invalid)
	}
	out := map[string]int{}
	for _, o := range objs {
		if o.method != "" {
			return fmt.Errorf("batch reply contains a request/notification object (method %q)", o.method)
		}
		out[o.id]++
	}
	keys := map[string]bool{}
	for k := range calls {
		keys[k] = true
	}
	for k := range out {
		keys[k] = true
	}
	sorted := make([]string, 0, len(keys))
	for k := range keys {
		sorted = append(sorted, k)
	}
	sort.Strings(sorted)
	for _, k := range sorted {
		if out[k] > calls[k]+slack[k] {
			return fmt.Errorf("id %s: %d response objects for %d calls (+%d invalid entries that may be answered)", k, out[k], calls[k], slack[k])
		}
		if exact && out[k] < calls[k] {
			return fmt.Errorf("id %s: %d response objects for %d calls (response missing)", k, out[k], calls[k])
		}
	}
	return nil
}

func c49FirstCallID(f *c49Frame) string {
	for _, e := range f.entries {
		if e.kind == "call" {
			return e.id
		}
	}
	return "null"
}

// ---------------------------------------------------------------------------
// persistent connection

type c49Conn struct {
	in     *io.PipeReader
	mu     sync.Mutex
	writes [][]byte
	closed bool
}

func (c *c49Conn) Read(p []byte) (int, error) { return c.in.Read(p) }
func (c *c49Conn) Write(p []byte) (int, error) {
	c.mu.Lock()
	defer c.mu.Unlock()
	if c.closed {
		return 0, io.ErrClosedPipe
	}
	c.writes = append(c.writes, append([]byte(nil), p...))
	return len(p), nil
}
func (c *c49Conn) Close() error {
	c.mu.Lock()
	c.closed = true
	c.mu.Unlock()
	return c.in.CloseWithError(io.ErrClosedPipe)
}
func (c *c49Conn) SetWriteDeadline(time.Time) error { return nil }
func (c *c49Conn) snapshot() [][]byte {
	c.mu.Lock()
	defer c.mu.Unlock()
	return append([][]byte(nil), c.writes...)
}

func c49Quiet() { log.SetDefault(log.NewLogger(log.DiscardHandler())) }

func c49Perturb(rt *rapid.T, label string) {
	for i, n := 0, rapid.SampledFrom([]int{0, 0, 1, 10, 200, 5000}).Draw(rt, label); i < n; i++ {
		runtime.Gosched()
	}
}

func TestVerifC49Conn(t *testing.T) {
	c49Quiet()
	st := vs.New("C49", t)
	defer runtime.GOMAXPROCS(runtime.GOMAXPROCS(0))
	vs.Check(t, 1, func(rt *rapid.T) {
		c := st.Case()
		runtime.GOMAXPROCS(rapid.SampledFrom([]int{1, 2, 4, 16}).Draw(rt, "gomaxprocs"))
		itemLimit := rapid.SampledFrom([]int{0, 0, 0, 3, 10, 10}).Draw(rt, "itemLimit")
		sizeLimit := rapid.SampledFrom([]int{0, 0, 1024, 200 * 1024}).Draw(rt, "sizeLimit")
		server := newTestServer()
		defer server.Stop()
		if err := server.RegisterName("v", c49Service{}); err != nil {
			rt.Fatalf("VERIF-HARNESS-BUG: %v", err)
		}
		server.SetBatchLimits(itemLimit, sizeLimit)

		// script
		subs := 0
		g := &c49Gen{subsMade: &subs, sizeLimit: sizeLimit}
		nframes := rapid.IntRange(1, 12).Draw(rt, "frames")
		singleIDs := []string{`1`, `1`, `2`, `"a"`, `null`, `1.5`, `true`, `""`, `"A"`, `-0`}
		var frames []*c49Frame
		for i := 0; i < nframes; i++ {
			f := &c49Frame{}
			switch shape := rapid.SampledFrom([]string{"single", "single", "single", "batch", "batch", "batch", "empty"}).Draw(rt, "frameShape"); shape {
			case "single":
				g.single = true
				e := g.genEntry(rt, singleIDs, false, "")
				g.single = false
				if e.kind == "invalid" && e.echoID { // keep the echoed ids of invalid frames apart from call ids
					e.raw = strings.Replace(e.raw, `"id":`+e.id, `"id":901`, 1)
					e.id = `901`
				}
				f.entries = []c49Entry{e}
			case "batch":
				f.batch = true
				ids := []string{fmt.Sprintf("%d", 1000*(i+1)), fmt.Sprintf("%d", 1000*(i+1)+1), fmt.Sprintf(`"b%d"`, i), `null`}
				n := rapid.IntRange(1, 20).Draw(rt, "batchLen")
				anchor := rapid.IntRange(0, n-1).Draw(rt, "anchorPos")
				firstCall := true
				for k := 0; k < n; k++ {
					var e c49Entry
					if k == anchor {
						e = g.genEntry(rt, ids, true, fmt.Sprintf("%d", 1000*(i+1)+2)) // unique anchor call id
					} else {
						e = g.genEntry(rt, ids, false, "")
					}
					if e.kind == "call" && firstCall {
						firstCall = false
						if e.id == `null` { // the first call's id names the batch in a "too large" reply
							e.raw = strings.Replace(e.raw, `"id":null`, `"id":`+ids[0], 1)
							e.id = ids[0]
						}
					}
					f.entries = append(f.entries, e)
				}
			case "empty":
				f.batch = true
			}
			f.render()
			frames = append(frames, f)
		}
		ending := rapid.SampledFrom([]string{"graceful", "graceful", "graceful", "graceful", "garbage", "abrupt"}).Draw(rt, "ending")
		if ending == "garbage" {
			frames = append(frames, &c49Frame{garbage: true, raw: rapid.SampledFrom([]string{`{"jsonrpc":"2.0",,}`, `]`, `{"id":1,"method":}`, `nul`}).Draw(rt, "garbage")})
		}

		// run
		pr, pw := io.Pipe()
		conn := &c49Conn{in: pr}
		codec := NewCodec(conn)
		done := make(chan struct{})
		go func() {
			server.ServeCodec(codec, 0)
			close(done)
		}()
		abruptAfter := -1
		if ending == "abrupt" {
			abruptAfter = rapid.IntRange(0, len(frames)-1).Draw(rt, "abruptAfter")
		}
		for i, f := range frames {
			if _, err := pw.Write([]byte(f.raw + "\n")); err != nil {
				break
			}
			c49Perturb(rt, "yieldsAfterFrame")
			if i == abruptAfter {
				conn.Close() // both directions at once
				break
			}
		}
		pw.Close() // EOF: the server finishes all dispatched calls, then closes the connection
		wait := time.NewTimer(120 * time.Second)
		select {
		case <-done:
			wait.Stop()
		case <-wait.C:
			rt.Fatalf("VERIF-INCONCLUSIVE: ServeCodec did not return within the bound (liveness is not decided here)")
		}
		raw := conn.snapshot()

		// parse
		var writes []c49Write
		for i, b := range raw {
			w, err := c49ParseWrite(b)
			if err != nil {
				rt.Fatalf("write %d is malformed (%v): %q\n%s", i, err, c49Clip(string(b)), c49Transcript(frames, writes))
			}
			writes = append(writes, w)
		}
		fail := func(format string, a ...any) {
			st.MarkFailed() // rapid re-runs the property while shrinking; stop counting
			rt.Fatalf("%s\nending=%s itemLimit=%d sizeLimit=%d\n%s", fmt.Sprintf(format, a...), ending, itemLimit, sizeLimit, c49Transcript(frames, writes))
		}
		exact := ending != "abrupt"

		// expectations
		singleCalls := map[string]int{}
		singleSlack := map[string]int{}
		batchOfID := map[string]int{}
		for i, f := range frames {
			switch {
			case f.garbage:
				singleSlack["null"]++ // parse error message
			case !f.batch:
				e := f.entries[0]
				switch {
				case e.kind == "call":
					singleCalls[e.id]++
				case e.kind == "invalid":
					singleSlack["null"]++
					if e.id != "" && e.id != "null" {
						singleSlack[e.id]++
					}
				}
			case len(f.entries) == 0:
				singleSlack["null"]++ // "empty batch" error object
			default:
				for _, e := range f.entries {
					if (e.kind == "call" || (e.kind == "invalid" && e.echoID)) && e.id != "null" {
						batchOfID[e.id] = i
					}
				}
			}
		}
		// attribute writes
		singleOut := map[string]int{}
		arraysOf := map[int]int{}
		subIDs := map[string]bool{}
		notifs, limitMid := 0, false
		for wi, w := range writes {
			if w.array {
				owner := -1
				for _, o := range w.objs {
					if o.id == "null" || o.id[0] == '{' || o.id[0] == '[' {
						continue // null and echoed non-scalar ids of invalid entries do not name a frame
					}
					fi, ok := batchOfID[o.id]
					if !ok {
						fail("write %d: batch reply carries id %s that no batch request used", wi, o.id)
					}
					if owner >= 0 && owner != fi {
						fail("write %d: batch reply mixes responses of frames %d and %d", wi, owner, fi)
					}
					owner = fi
				}
				if owner < 0 {
					fail("write %d: batch reply without any id of a batch request", wi)
				}
				arraysOf[owner]++
				if arraysOf[owner] > 1 {
					fail("frame %d: batch reply written %d times", owner, arraysOf[owner])
				}
				f := frames[owner]
				if itemLimit != 0 && len(f.entries) > itemLimit {
					if len(w.objs) != 1 || !w.objs[0].isErr || w.objs[0].id != c49FirstCallID(f) {
						fail("frame %d exceeds the item limit: expected exactly one error carrying the first call's id %s", owner, c49FirstCallID(f))
					}
				} else if err := c49CheckBatch(f, w.objs, exact); err != nil {
					fail("frame %d: %v", owner, err)
				}
				hasRes, hasTooLarge := false, false
				for _, o := range w.objs {
					if !o.isErr {
						hasRes = true
						if len(o.result) > 2 && o.result[0] == '"' {
							subIDs[o.result] = true
						}
					} else if o.errCode == -32003 {
						hasTooLarge = true
					}
				}
				if hasRes && hasTooLarge {
					limitMid = true
				}
				continue
			}
			o := w.objs[0]
			if o.method != "" {
				// subscription notification: only after the response that returned its id
				var p struct {
					Subscription string `json:"subscription"`
				}
				json.Unmarshal([]byte(o.params), &p)
				q, _ := json.Marshal(p.Subscription)
				if !strings.HasSuffix(o.method, "_subscription") || !subIDs[string(q)] {
					fail("write %d: notification for subscription %q BEFORE (or without) the response carrying that subscription id", wi, p.Subscription)
				}
				notifs++
				continue
			}
			singleOut[o.id]++
			if !o.isErr && len(o.result) > 2 && o.result[0] == '"' {
				subIDs[o.result] = true
			}
		}
		// single-frame ledger
		keys := map[string]bool{}
		for k := range singleCalls {
			keys[k] = true
		}
		for k := range singleOut {
			keys[k] = true
		}
		sorted := make([]string, 0, len(keys))
		for k := range keys {
			sorted = append(sorted, k)
		}
		sort.Strings(sorted)
		for _, k := range sorted {
			if singleOut[k] > singleCalls[k]+singleSlack[k] {
				fail("id %s: %d single responses written for %d single calls (+%d invalid frames that may be answered)", k, singleOut[k], singleCalls[k], singleSlack[k])
			}
			if exact && singleOut[k] < singleCalls[k] {
				fail("id %s: %d single responses written for %d single calls (response missing)", k, singleOut[k], singleCalls[k])
			}
		}
		// every batch with at least one call got its one reply
		for i, f := range frames {
			if exact && f.batch && f.calls() > 0 && arraysOf[i] != 1 {
				fail("frame %d: batch with %d calls got %d batch replies", i, f.calls(), arraysOf[i])
			}
		}

		// statistics
		nbatch, ncalls, dup := 0, 0, false
		for _, f := range frames {
			if f.batch {
				nbatch++
				seen := map[string]bool{}
				for _, e := range f.entries {
					if e.kind == "call" {
						if seen[e.id] {
							dup = true
						}
						seen[e.id] = true
					}
				}
			}
			ncalls += f.calls()
		}
		for _, n := range singleCalls {
			if n > 1 {
				dup = true
			}
		}
		nt := limitMid || notifs > 0
		c.NonTrivial(nt, fmt.Sprintf("%v|%d|%d|%s", frameSig(frames), itemLimit, sizeLimit, ending))
		c.Class("ending=" + ending)
		if limitMid {
			c.Class("size-limit-hit-midway")
		}
		if notifs > 0 {
			c.Class("subscription-notifications")
		}
		if dup {
			c.Class("duplicate-ids")
		}
		if nbatch > 0 {
			c.Class("has-batch")
		}
		for i, f := range frames {
			if f.batch && itemLimit != 0 && len(f.entries) > itemLimit && arraysOf[i] == 1 {
				c.Class("item-limit-exceeded")
				break
			}
		}
		c.Sample(nt, func() any {
			return map[string]any{"frames": len(frames), "calls": ncalls, "writes": len(writes), "notifications": notifs, "itemLimit": itemLimit, "sizeLimit": sizeLimit, "ending": ending,
				"first_frame": c49Clip(frames[0].raw)}
		})
	})
}

func frameSig(frames []*c49Frame) string {
	var b strings.Builder
	for _, f := range frames {
		if f.garbage {
			b.WriteString("G;")
			continue
		}
		if f.batch {
			b.WriteString("[")
		}
		for _, e := range f.entries {
			b.WriteString(e.label + ":" + e.id + ",")
		}
		b.WriteString(";")
	}
	return b.String()
}

// ---------------------------------------------------------------------------
// HTTP single requests with timeouts

type c49RespWriter struct {
	mu     sync.Mutex
	hdr    http.Header
	writes [][]byte
}

func (w *c49RespWriter) Header() http.Header { return w.hdr }
func (w *c49RespWriter) WriteHeader(int)     {}
func (w *c49RespWriter) Flush()              {}
func (w *c49RespWriter) Write(p []byte) (int, error) {
	w.mu.Lock()
	defer w.mu.Unlock()
	w.writes = append(w.writes, append([]byte(nil), p...))
	return len(p), nil
}

func TestVerifC49HTTP(t *testing.T) {
	c49Quiet()
	st := vs.New("C49", t)
	defer runtime.GOMAXPROCS(runtime.GOMAXPROCS(0))
	vs.Check(t, 1, func(rt *rapid.T) {
		c := st.Case()
		runtime.GOMAXPROCS(rapid.SampledFrom([]int{1, 2, 4, 16}).Draw(rt, "gomaxprocs"))
		itemLimit := rapid.SampledFrom([]int{0, 0, 0, 3, 10, 10}).Draw(rt, "itemLimit")
		sizeLimit := rapid.SampledFrom([]int{0, 0, 1024, 200 * 1024}).Draw(rt, "sizeLimit")
		server := newTestServer()
		defer server.Stop()
		if err := server.RegisterName("v", c49Service{}); err != nil {
			rt.Fatalf("VERIF-HARNESS-BUG: %v", err)
		}
		server.SetBatchLimits(itemLimit, sizeLimit)

		// one request: a single message or a batch
		hasTimeout := rapid.IntRange(0, 9).Draw(rt, "hasTimeout") < 8
		subs := 0
		g := &c49Gen{http: true, timeout: hasTimeout, subsMade: &subs, sizeLimit: sizeLimit}
		ids := []string{`1`, `1`, `2`, `"a"`, `null`, `1.5`, `true`, `""`}
		f := &c49Frame{}
		switch rapid.SampledFrom([]string{"single", "batch", "batch", "batch", "batch", "empty"}).Draw(rt, "frameShape") {
		case "single":
			g.single = true
			f.entries = []c49Entry{g.genEntry(rt, ids, false, "")}
			g.single = false
		case "batch":
			f.batch = true
			n := rapid.IntRange(1, 20).Draw(rt, "batchLen")
			for k := 0; k < n; k++ {
				f.entries = append(f.entries, g.genEntry(rt, ids, false, ""))
			}
		case "empty":
			f.batch = true
		}
		f.render()
		// timeout: drawn around the cumulative sleep at a drawn position of the script
		var timeout time.Duration
		near := false
		if hasTimeout {
			var cum []int64
			var sum int64
			for _, e := range f.entries {
				sum += e.sleepNs
				cum = append(cum, sum)
			}
			base := int64(0)
			if len(cum) > 0 {
				base = cum[rapid.IntRange(0, len(cum)-1).Draw(rt, "timeoutAt")]
			}
			delta := rapid.SampledFrom([]int64{-2_000_000, -1_000_000, -200_000, 0, 0, 200_000, 1_000_000, 2_000_000, 10_000_000}).Draw(rt, "timeoutDelta")
			timeout = time.Duration(base + delta)
			if rapid.IntRange(0, 9).Draw(rt, "fixedTimeout") == 0 {
				timeout = time.Duration(rapid.SampledFrom([]int64{-50_000_000, 0, 1, 500_000, 3_000_000, 40_000_000}).Draw(rt, "timeoutNs"))
			}
			near = sum > 0 && delta >= -2_000_000 && delta <= 2_000_000
		}
		ctx := context.Background()
		if hasTimeout {
			// the request timeout is WriteTimeout-100ms (ContextRequestTimeout); net/http puts the
			// *http.Server into every request context under ServerContextKey
			ctx = context.WithValue(ctx, http.ServerContextKey, &http.Server{WriteTimeout: timeout + 100*time.Millisecond})
		}
		req := httptest.NewRequest(http.MethodPost, "/", strings.NewReader(f.raw)).WithContext(ctx)
		req.Header.Set("content-type", "application/json")
		rw := &c49RespWriter{hdr: http.Header{}}
		c49Perturb(rt, "yieldsBefore")
		server.ServeHTTP(rw, req) // returns after every call goroutine has finished
		frames := []*c49Frame{f}

		var writes []c49Write
		for i, b := range rw.writes {
			w, err := c49ParseWrite(b)
			if err != nil {
				rt.Fatalf("write %d is malformed (%v): %q\n%s", i, err, c49Clip(string(b)), c49Transcript(frames, writes))
			}
			writes = append(writes, w)
		}
		fail := func(format string, a ...any) {
			st.MarkFailed() // rapid re-runs the property while shrinking; stop counting
			rt.Fatalf("%s\ntimeout=%v(set=%v) itemLimit=%d sizeLimit=%d\n%s", fmt.Sprintf(format, a...), timeout, hasTimeout, itemLimit, sizeLimit, c49Transcript(frames, writes))
		}
		for wi, w := range writes {
			for _, o := range w.objs {
				if o.method != "" {
					fail("write %d: server sent a request/notification over HTTP", wi)
				}
			}
		}
		timedOut, answered, tooLarge := 0, 0, 0
		for _, w := range writes {
			for _, o := range w.objs {
				switch {
				case o.isErr && o.errCode == -32002:
					timedOut++
				case o.isErr && o.errCode == -32003:
					tooLarge++
				default:
					answered++
				}
			}
		}
		switch {
		case !f.batch:
			e := f.entries[0]
			switch e.kind {
			case "call":
				if len(writes) != 1 || writes[0].array || writes[0].objs[0].id != e.id {
					fail("single call with id %s: expected exactly one response object with that id, got %d writes", e.id, len(writes))
				}
			case "notif", "resp":
				if len(writes) != 0 {
					fail("%s must not be answered, got %d writes", e.label, len(writes))
				}
			default:
				if len(writes) > 1 || (len(writes) == 1 && (writes[0].array || !writes[0].objs[0].isErr || (writes[0].objs[0].id != "null" && writes[0].objs[0].id != e.id))) {
					fail("invalid message: expected at most one error object with null or echoed id")
				}
			}
		case len(f.entries) == 0:
			if len(writes) > 1 || (len(writes) == 1 && (writes[0].array || !writes[0].objs[0].isErr)) {
				fail("empty batch: expected at most one (non-batch) error object")
			}
		default:
			arrays := 0
			for _, w := range writes {
				if !w.array {
					fail("batch request answered with a non-batch write")
				}
				arrays++
			}
			if arrays > 1 {
				fail("batch reply written %d times", arrays)
			}
			if itemLimit != 0 && len(f.entries) > itemLimit {
				if arrays != 1 || len(writes[0].objs) != 1 || !writes[0].objs[0].isErr || writes[0].objs[0].id != c49FirstCallID(f) {
					fail("batch over the item limit: expected exactly one error carrying the first call's id %s", c49FirstCallID(f))
				}
			} else {
				if f.calls() > 0 && arrays != 1 {
					fail("batch with %d calls got %d batch replies", f.calls(), arrays)
				}
				if arrays == 1 {
					if err := c49CheckBatch(f, writes[0].objs, true); err != nil {
						fail("%v", err)
					}
				}
			}
		}

		mid := timedOut > 0 && answered > 0
		nt := mid || (tooLarge > 0 && answered > 0) || (near && hasTimeout)
		c.NonTrivial(nt, fmt.Sprintf("%s|%v|%d|%d", frameSig(frames), timeout, itemLimit, sizeLimit))
		switch {
		case !hasTimeout:
			c.Class("no-timeout")
		case timedOut > 0 && answered > 0:
			c.Class("timeout-fired-midway")
		case timedOut > 0:
			c.Class("timeout-fired-all")
		default:
			c.Class("timeout-not-fired")
		}
		if near {
			c.Class("timeout-within-2ms-of-a-return")
		}
		if tooLarge > 0 && answered > 0 {
			c.Class("size-limit-hit-midway")
		}
		if f.batch {
			c.Class("batch")
		} else {
			c.Class("single:" + f.entries[0].kind)
		}
		if itemLimit != 0 && len(f.entries) > itemLimit {
			c.Class("item-limit-exceeded")
		}
		c.Sample(nt, func() any {
			return map[string]any{"request": c49Clip(f.raw), "timeout_ns": int64(timeout), "timeout_set": hasTimeout, "writes": len(writes),
				"timed_out": timedOut, "answered": answered, "too_large": tooLarge, "itemLimit": itemLimit, "sizeLimit": sizeLimit}
		})
	})
}

// TestVerifX49FindingNotificationTimeout is the minimal deterministic form of the finding
// "a single notification that outlives the request timeout is answered with an error
// object" (not part of the C49 run regex; see notes/C49.md).
func TestVerifX49FindingNotificationTimeout(t *testing.T) {
	c49Quiet()
	server := newTestServer()
	defer server.Stop()
	ctx := context.WithValue(context.Background(), http.ServerContextKey, &http.Server{WriteTimeout: 101 * time.Millisecond}) // request timeout 1ms
	req := httptest.NewRequest(http.MethodPost, "/", strings.NewReader(`{"jsonrpc":"2.0","method":"test_sleep","params":[30000000]}`)).WithContext(ctx)
	req.Header.Set("content-type", "application/json")
	rw := &c49RespWriter{hdr: http.Header{}}
	server.ServeHTTP(rw, req)
	for _, w := range rw.writes {
		t.Errorf("notification was answered: %s", w)
	}
}

// TestVerifX49FindingBatchTimeoutRace measures how often a batch loses responses when the
// request timeout fires while a context-aware method is running (not part of the C49 run
// regex; see notes/C49.md "Suspected defect").
func TestVerifX49FindingBatchTimeoutRace(t *testing.T) {
	c49Quiet()
	server := newTestServer()
	defer server.Stop()
	if err := server.RegisterName("v", c49Service{}); err != nil {
		t.Fatal(err)
	}
	body := `[{"jsonrpc":"2.0","id":1,"method":"v_sleepCtx","params":[30000000]},{"jsonrpc":"2.0","id":2,"method":"test_echo","params":["x",1,null]}]`
	lost := 0
	const rounds = 3000
	for i := 0; i < rounds; i++ {
		ctx := context.WithValue(context.Background(), http.ServerContextKey, &http.Server{WriteTimeout: 101 * time.Millisecond}) // request timeout 1ms
		req := httptest.NewRequest(http.MethodPost, "/", strings.NewReader(body)).WithContext(ctx)
		req.Header.Set("content-type", "application/json")
		rw := &c49RespWriter{hdr: http.Header{}}
		server.ServeHTTP(rw, req)
		n := 0
		for _, b := range rw.writes {
			if w, err := c49ParseWrite(b); err == nil {
				n += len(w.objs)
			}
		}
		if n != 2 {
			lost++
			if lost == 1 {
				t.Logf("first loss in round %d: writes=%q", i, rw.writes)
			}
		}
	}
	if lost > 0 {
		t.Errorf("%d of %d two-call batches were answered with fewer than 2 response objects", lost, rounds)
	}
}

// TestVerifC49TimeoutRepeat re-runs a few fixed batches whose timeout fires while a
// context-aware method is running, many times: the interleaving of the timeout callback
// with the batch loop cannot be steered, only sampled (DESIGN 2.8 d). Ledger oracle only.
func TestVerifC49TimeoutRepeat(t *testing.T) {
	c49Quiet()
	st := vs.New("C49", t)
	defer runtime.GOMAXPROCS(runtime.GOMAXPROCS(0))
	server := newTestServer()
	defer server.Stop()
	if err := server.RegisterName("v", c49Service{}); err != nil {
		t.Fatalf("VERIF-HARNESS-BUG: %v", err)
	}
	call := func(id, method, params string) c49Entry {
		return c49Entry{raw: c49Msg(id, method, params), kind: "call", id: id, label: method}
	}
	notif := func(method, params string) c49Entry {
		return c49Entry{raw: c49Msg("", method, params), kind: "notif", label: "notif:" + method}
	}
	shapes := [][]c49Entry{
		{call(`1`, "v_sleepCtx", `[30000000]`), call(`2`, "test_echo", `["x",1,null]`)},
		{call(`1`, "test_null", ``), call(`1`, "v_sleepCtx", `[30000000]`), notif("test_echo", `["n",1,null]`), call(`"a"`, "test_echo", `["x",1,null]`), call(`null`, "v_sleepCtx", `[30000000]`)},
		{call(`7`, "test_block", ``), call(`8`, "v_spin", `[10]`), call(`7`, "test_block", ``)},
		{notif("v_sleepCtx", `[30000000]`), call(`3`, "v_sleepCtx", `[30000000]`), call(`4`, "test_repeat", `["x",600]`)},
	}
	timeouts := []time.Duration{200 * time.Microsecond, time.Millisecond, 2 * time.Millisecond, 0}
	procs := []int{1, 2, 4, 16}
	rounds := 4000
	if vs.Thorough() {
		rounds = 8000
	}
	for i := 0; i < rounds; i++ {
		c := st.Case()
		if i%100 == 0 {
			runtime.GOMAXPROCS(procs[(i/100)%len(procs)])
		}
		f := &c49Frame{batch: true, entries: shapes[i%len(shapes)]}
		f.render()
		timeout := timeouts[(i/len(shapes))%len(timeouts)]
		ctx := context.WithValue(context.Background(), http.ServerContextKey, &http.Server{WriteTimeout: timeout + 100*time.Millisecond})
		req := httptest.NewRequest(http.MethodPost, "/", strings.NewReader(f.raw)).WithContext(ctx)
		req.Header.Set("content-type", "application/json")
		rw := &c49RespWriter{hdr: http.Header{}}
		server.ServeHTTP(rw, req)
		var writes []c49Write
		for _, b := range rw.writes {
			w, err := c49ParseWrite(b)
			if err != nil {
				t.Fatalf("round %d: malformed write %q: %v", i, b, err)
			}
			writes = append(writes, w)
		}
		bad := ""
		switch {
		case len(writes) != 1 || !writes[0].array:
			bad = fmt.Sprintf("expected exactly one batch reply, got %d writes", len(writes))
		default:
			if err := c49CheckBatch(f, writes[0].objs, true); err != nil {
				bad = err.Error()
			}
		}
		if bad != "" {
			st.MarkFailed()
			t.Fatalf("round %d (timeout %v, GOMAXPROCS %d): %s\n%s", i, timeout, runtime.GOMAXPROCS(0), bad, c49Transcript([]*c49Frame{f}, writes))
		}
		timedOut, answered := 0, 0
		for _, o := range writes[0].objs {
			if o.isErr && o.errCode == -32002 {
				timedOut++
			} else {
				answered++
			}
		}
		c.Classf("shape%d timedOut=%d answered=%d", i%len(shapes), timedOut, answered)
		c.NonTrivial(timedOut > 0, fmt.Sprintf("%d/%v/%d/%d", i%len(shapes), timeout, timedOut, answered))
	}
}
