//go:build verif

package core_test

// C32: ether is conserved by block execution.
//
// Blocks come from verifx/worldgen (chain maker). Every block is re-executed through
// BlockChain.InsertChain with a recording tracer. Three independent observations are
// then reconciled:
//
//   (1) the balance dumps (walk of the account trie) before and after the block;
//   (2) a ledger model fed only by the block's transactions, receipts (gas used,
//       status), header fee parameters and the tracer's *frame* events (CALL / CREATE
//       / CREATE2 / SELFDESTRUCT with from, to, value, and whether the frame or an
//       ancestor reverted) plus the per-fork self-destruct rules written down here;
//   (3) the tracer's OnBalanceChange stream (the audit log), with changes inside
//       reverted frames voided by the harness.
//
// The statement's equations are checked on (1) vs (2); (3) must be continuous, end at
// the dumped balances and agree with (2) transaction by transaction.

import (
	"fmt"
	"math/big"
	"sort"
	"strings"
	"testing"

	"github.com/ethereum/go-ethereum/common"
	"github.com/ethereum/go-ethereum/consensus/misc/eip4844"
	"github.com/ethereum/go-ethereum/core"
	"github.com/ethereum/go-ethereum/core/tracing"
	"github.com/ethereum/go-ethereum/core/types"
	"github.com/ethereum/go-ethereum/core/vm"
	"github.com/ethereum/go-ethereum/crypto"
	"github.com/ethereum/go-ethereum/internal/verifx/worldgen"
	"github.com/ethereum/go-ethereum/params"
	"pgregory.net/rapid"
	ep "verif.local/kit/evmprog"
	vs "verif.local/kit/stat"
)

// ---- recorder ---------------------------------------------------------------------

type c32Frame struct {
	typ      byte
	from, to common.Address
	value    *big.Int
	parent   int // index into txRec.frames, -1 for the top frame
	reverted bool
	closed   bool
}

type c32Event struct {
	addr      common.Address
	prev, new *big.Int
	reason    tracing.BalanceChangeReason
	frame     int // innermost open frame when the change happened, -1 outside frames
}

// c32Scope is a transaction, a system call or the block-level remainder.
type c32Scope struct {
	kind    string // "tx" | "system" | "block"
	tx      *types.Transaction
	from    common.Address
	receipt *types.Receipt
	frames  []*c32Frame
	events  []c32Event
	stack   []int
}

type c32Block struct {
	block  *types.Block
	scopes []*c32Scope
	cur    *c32Scope // open tx or system call
	tail   *c32Scope // block-level scope (events outside any tx/system call)
	ended  bool
	err    error
}

type c32Recorder struct {
	blocks []*c32Block
	cur    *c32Block
	bug    string
}

func (r *c32Recorder) scope() *c32Scope {
	if r.cur == nil {
		return nil
	}
	if r.cur.cur != nil {
		return r.cur.cur
	}
	if r.cur.tail == nil || r.cur.scopes[len(r.cur.scopes)-1] != r.cur.tail {
		r.cur.tail = &c32Scope{kind: "block"}
		r.cur.scopes = append(r.cur.scopes, r.cur.tail)
	}
	return r.cur.tail
}

func (r *c32Recorder) hooks() *tracing.Hooks {
	return &tracing.Hooks{
		OnBlockStart: func(ev tracing.BlockEvent) {
			r.cur = &c32Block{block: ev.Block}
			r.blocks = append(r.blocks, r.cur)
		},
		OnBlockEnd: func(err error) {
			if r.cur != nil {
				r.cur.ended, r.cur.err = true, err
			}
			r.cur = nil
		},
		OnTxStart: func(_ *tracing.VMContext, tx *types.Transaction, from common.Address) {
			if r.cur == nil {
				r.bug = "OnTxStart outside a block"
				return
			}
			r.cur.cur = &c32Scope{kind: "tx", tx: tx, from: from}
			r.cur.scopes = append(r.cur.scopes, r.cur.cur)
		},
		OnTxEnd: func(receipt *types.Receipt, err error) {
			if r.cur == nil || r.cur.cur == nil {
				r.bug = "OnTxEnd without OnTxStart"
				return
			}
			if err != nil {
				r.bug = "transaction rejected during traced insertion: " + err.Error()
			}
			r.cur.cur.receipt = receipt
			r.cur.cur = nil
		},
		OnSystemCallStartV2: func(*tracing.VMContext) {
			if r.cur == nil {
				return
			}
			r.cur.cur = &c32Scope{kind: "system"}
			r.cur.scopes = append(r.cur.scopes, r.cur.cur)
		},
		OnSystemCallEnd: func() {
			if r.cur != nil {
				r.cur.cur = nil
			}
		},
		OnEnter: func(depth int, typ byte, from, to common.Address, _ []byte, _ uint64, value *big.Int) {
			s := r.scope()
			if s == nil {
				return
			}
			f := &c32Frame{typ: typ, from: from, to: to, value: new(big.Int), parent: -1}
			if value != nil {
				f.value.Set(value)
			}
			if n := len(s.stack); n > 0 {
				f.parent = s.stack[n-1]
			}
			if depth != len(s.stack) {
				r.bug = fmt.Sprintf("OnEnter depth %d with %d open frames", depth, len(s.stack))
			}
			s.frames = append(s.frames, f)
			s.stack = append(s.stack, len(s.frames)-1)
		},
		OnExit: func(depth int, _ []byte, _ uint64, _ error, reverted bool) {
			s := r.scope()
			if s == nil {
				return
			}
			if len(s.stack) == 0 {
				r.bug = "OnExit without open frame"
				return
			}
			if depth != len(s.stack)-1 {
				r.bug = fmt.Sprintf("OnExit depth %d with %d open frames", depth, len(s.stack))
			}
			f := s.frames[s.stack[len(s.stack)-1]]
			f.reverted, f.closed = reverted, true
			s.stack = s.stack[:len(s.stack)-1]
		},
		OnBalanceChange: func(addr common.Address, before, after *big.Int, reason tracing.BalanceChangeReason) {
			s := r.scope()
			if s == nil {
				return // genesis allocation etc.
			}
			e := c32Event{addr: addr, prev: new(big.Int).Set(before), new: new(big.Int).Set(after), reason: reason, frame: -1}
			if n := len(s.stack); n > 0 {
				e.frame = s.stack[n-1]
			}
			s.events = append(s.events, e)
		},
	}
}

// void reports whether frame i or one of its ancestors reverted.
func (s *c32Scope) void(i int) bool {
	for ; i >= 0; i = s.frames[i].parent {
		if s.frames[i].reverted {
			return true
		}
	}
	return false
}

// ---- ledger model -------------------------------------------------------------------

type c32Ledger struct {
	pre   map[common.Hash]*big.Int    // dump before the block
	delta map[common.Address]*big.Int // model: change within the block
}

func (l *c32Ledger) abs(a common.Address) *big.Int {
	v := new(big.Int)
	if p := l.pre[crypto.Keccak256Hash(a[:])]; p != nil {
		v.Set(p)
	}
	if d := l.delta[a]; d != nil {
		v.Add(v, d)
	}
	return v
}

func (l *c32Ledger) add(a common.Address, x *big.Int) {
	d := l.delta[a]
	if d == nil {
		d = new(big.Int)
		l.delta[a] = d
	}
	d.Add(d, x)
}

func (l *c32Ledger) move(from, to common.Address, x *big.Int) {
	l.add(from, new(big.Int).Neg(x))
	l.add(to, x)
}

func c32Mul(a uint64, b *big.Int) *big.Int { return new(big.Int).Mul(new(big.Int).SetUint64(a), b) }

var (
	c32Gwei        = big.NewInt(1_000_000_000)
	c32BlockReward = new(big.Int).Mul(big.NewInt(2), new(big.Int).Exp(big.NewInt(10), big.NewInt(18), nil)) // EIP-1234
)

// c32Facts summarises what a block contained (for classes and the non-trivial rule).
type c32Facts struct {
	sdEffective, sdVoid            int
	createValueOK, createValueFail int
	failedTxWithValue              int
	burned                         *big.Int
	burnAfterDestruct              bool // a destructed account lost balance it received otherwise than by its own destruct-to-self
	txShapes                       []string
	// Effective SELFDESTRUCTs of accounts created by an EARLIER transaction of the same
	// block: all / to itself while holding ether / accounts paid after such a SELFDESTRUCT
	// within the same transaction.
	sdLate, sdLateSelfValue, sdLatePaidAfter int
	wdClasses                                []string
}

func c32SortedAddrs(m map[common.Address]*big.Int) []common.Address {
	out := make([]common.Address, 0, len(m))
	for a := range m {
		out = append(out, a)
	}
	sort.Slice(out, func(i, j int) bool { return string(out[i][:]) < string(out[j][:]) })
	return out
}

// c32CheckBlock reconciles one block. It returns a violation message or "".
func c32CheckBlock(w *worldgen.World, rec *c32Block, pre, post map[common.Hash]*big.Int, facts *c32Facts) string {
	var (
		block   = rec.block
		header  = block.Header()
		rules   = w.Config.Rules(header.Number, !w.Variant.PoW, header.Time)
		baseFee = new(big.Int)
		blobFee = new(big.Int)
		led     = &c32Ledger{pre: pre, delta: map[common.Address]*big.Int{}}
		issued  = new(big.Int) // withdrawals + rewards
		feeBurn = new(big.Int) // base fee and blob fee
		sdBurn  = new(big.Int) // destroyed by self-destruction
		errs    []string
	)
	facts.burned = sdBurn
	fail := func(format string, a ...any) {
		if len(errs) < 12 {
			errs = append(errs, fmt.Sprintf(format, a...))
		}
	}
	if header.BaseFee != nil {
		baseFee.Set(header.BaseFee)
	}
	if header.ExcessBlobGas != nil {
		blobFee = eip4844.CalcBlobFee(w.Config, header)
	}
	// Audit log: running balance per address across the whole block.
	running := map[common.Address]*big.Int{}
	cur := func(a common.Address) *big.Int {
		if v, ok := running[a]; ok {
			return v
		}
		v := new(big.Int)
		if p := pre[crypto.Keccak256Hash(a[:])]; p != nil {
			v.Set(p)
		}
		running[a] = v
		return v
	}

	txIndex := 0
	txs := block.Transactions()
	createdEarlier := map[common.Address]bool{} // created by an earlier transaction of this block
	for si, sc := range rec.scopes {
		if len(sc.stack) != 0 {
			return fmt.Sprintf("VERIF-HARNESS-BUG: scope %d (%s) ended with %d open frames", si, sc.kind, len(sc.stack))
		}
		before := map[common.Address]*big.Int{} // model delta at scope start
		for a, d := range led.delta {
			before[a] = new(big.Int).Set(d)
		}
		label := fmt.Sprintf("%s scope %d", sc.kind, si)
		switch sc.kind {
		case "tx":
			if txIndex >= len(txs) || txs[txIndex].Hash() != sc.tx.Hash() {
				return fmt.Sprintf("VERIF-HARNESS-BUG: traced tx %d is not the block's tx", txIndex)
			}
			label = fmt.Sprintf("tx %d (%s)", txIndex, sc.tx.Hash().Hex()[:10])
			txIndex++
			tx, r := sc.tx, sc.receipt
			if r == nil {
				return "VERIF-HARNESS-BUG: tx without receipt"
			}
			// Fees, from the transaction's own fields, the header and the receipt's gas used.
			price := new(big.Int).Set(tx.GasFeeCap())
			if rules.IsLondon {
				if withTip := new(big.Int).Add(baseFee, tx.GasTipCap()); withTip.Cmp(price) < 0 {
					price = withTip
				}
			}
			tipPerGas := new(big.Int).Set(price)
			if rules.IsLondon {
				tipPerGas.Sub(price, baseFee)
			}
			if tipPerGas.Sign() < 0 {
				fail("%s: effective price %v below base fee %v", label, price, baseFee)
			}
			blobGas := uint64(len(tx.BlobHashes())) * params.BlobTxBlobGasPerBlob
			senderFee := c32Mul(r.GasUsed, price)
			blobCost := c32Mul(blobGas, blobFee)
			tipTotal := c32Mul(r.GasUsed, tipPerGas)
			led.add(sc.from, new(big.Int).Neg(new(big.Int).Add(senderFee, blobCost)))
			led.add(header.Coinbase, tipTotal)
			if rules.IsLondon {
				feeBurn.Add(feeBurn, c32Mul(r.GasUsed, baseFee))
			}
			feeBurn.Add(feeBurn, blobCost)

			// Statement clauses on the audit log: what the sender paid for gas, what the
			// fee recipient was paid.
			gasPaid, tipPaid := new(big.Int), new(big.Int)
			for _, e := range sc.events {
				d := new(big.Int).Sub(e.new, e.prev)
				switch e.reason {
				case tracing.BalanceDecreaseGasBuy, tracing.BalanceIncreaseGasReturn:
					if e.addr != sc.from || e.frame != -1 {
						fail("%s: gas buy/return event for %s inside frame %d", label, e.addr.Hex(), e.frame)
					}
					gasPaid.Sub(gasPaid, d)
				case tracing.BalanceIncreaseRewardTransactionFee:
					if e.addr != header.Coinbase || e.frame != -1 {
						fail("%s: fee reward event for %s (coinbase %s)", label, e.addr.Hex(), header.Coinbase.Hex())
					}
					tipPaid.Add(tipPaid, d)
				}
			}
			if want := new(big.Int).Add(senderFee, blobCost); gasPaid.Cmp(want) != 0 {
				fail("%s: sender paid %v for gas+blobs, want gasUsed %d * price %v + blob %v = %v", label, gasPaid, r.GasUsed, price, blobCost, want)
			}
			if tipPaid.Cmp(tipTotal) != 0 {
				fail("%s: fee recipient was paid %v, want gasUsed %d * tip %v = %v", label, tipPaid, r.GasUsed, tipPerGas, tipTotal)
			}
			if r.Status == types.ReceiptStatusFailed && tx.Value().Sign() > 0 {
				facts.failedTxWithValue++
			}
		case "system", "block":
		}

		// Value movements of effective frames, and the self-destruct bookkeeping.
		created := map[common.Address]bool{}
		var destructed []common.Address
		isDestructed := map[common.Address]bool{}
		sdLateSeen := map[common.Address]bool{}
		nsd, ncv := 0, 0
		for fi, f := range sc.frames {
			if !f.closed {
				return "VERIF-HARNESS-BUG: unclosed frame"
			}
			op := vm.OpCode(f.typ)
			void := sc.void(fi)
			switch op {
			case vm.CALL:
				if !void && f.value.Sign() > 0 {
					led.move(f.from, f.to, f.value)
					if sdLateSeen[f.to] {
						facts.sdLatePaidAfter++
					}
				}
			case vm.CREATE, vm.CREATE2:
				if f.value.Sign() > 0 {
					if void {
						facts.createValueFail++
					} else {
						facts.createValueOK++
						ncv++
					}
				}
				if !void {
					created[f.to] = true
					if f.value.Sign() > 0 {
						led.move(f.from, f.to, f.value)
					}
				}
			case vm.SELFDESTRUCT:
				if void {
					facts.sdVoid++
					continue
				}
				facts.sdEffective++
				nsd++
				if createdEarlier[f.from] && !created[f.from] {
					facts.sdLate++
					sdLateSeen[f.from] = true
					if f.from == f.to && f.value.Sign() > 0 {
						facts.sdLateSelfValue++
					}
				}
				if f.from != f.to && f.value.Sign() > 0 {
					led.move(f.from, f.to, f.value)
				}
				deletes := !rules.IsCancun || created[f.from] // EIP-6780
				if deletes && !isDestructed[f.from] {
					isDestructed[f.from] = true
					destructed = append(destructed, f.from)
				}
			}
		}
		// End of transaction: destroyed accounts vanish with whatever they still hold.
		// From Amsterdam on (EIP-8246 as implemented) nothing is burned.
		if !rules.IsAmsterdam {
			for _, a := range destructed {
				if left := led.abs(a); left.Sign() > 0 {
					sdBurn.Add(sdBurn, left)
					led.add(a, new(big.Int).Neg(left))
				}
			}
		}
		for a := range created { // set union: iteration order is irrelevant
			createdEarlier[a] = true
		}
		if sc.kind == "tx" {
			facts.txShapes = append(facts.txShapes, fmt.Sprintf("%d/%d/sd%d/cv%d", sc.tx.Type(), sc.receipt.Status, nsd, ncv))
		}
		// No account may be overdrawn in the model.
		for _, a := range c32SortedAddrs(led.delta) {
			if led.abs(a).Sign() < 0 {
				fail("%s: model balance of %s negative (%v): a transfer without funds was reported effective", label, a.Hex(), led.abs(a))
			}
		}

		// Audit log for this scope: continuity, then net effect == model.
		audit := map[common.Address]*big.Int{}
		for _, e := range sc.events {
			if e.frame >= 0 && sc.void(e.frame) {
				continue
			}
			c := cur(e.addr)
			if c.Cmp(e.prev) != 0 {
				fail("%s: audit log discontinuity at %s: event (reason %d) starts from %v, last known balance %v", label, e.addr.Hex(), e.reason, e.prev, c)
			}
			c.Set(e.new)
			d := audit[e.addr]
			if d == nil {
				d = new(big.Int)
				audit[e.addr] = d
			}
			d.Add(d, new(big.Int).Sub(e.new, e.prev))
			if e.reason == tracing.BalanceDecreaseSelfdestructBurn && rules.IsAmsterdam {
				fail("%s: self-destruct burn event under Amsterdam rules", label)
			}
		}
		model := map[common.Address]*big.Int{}
		for a, d := range led.delta {
			x := new(big.Int).Set(d)
			if b := before[a]; b != nil {
				x.Sub(x, b)
			}
			model[a] = x
		}
		for a := range audit {
			if model[a] == nil {
				model[a] = new(big.Int)
			}
		}
		if sc.kind != "block" { // block-level scope is compared after rewards/withdrawals below
			for _, a := range c32SortedAddrs(model) {
				got := audit[a]
				if got == nil {
					got = new(big.Int)
				}
				if got.Cmp(model[a]) != 0 {
					fail("%s: account %s changed by %v according to the balance-change log, model (fees from receipt + effective value transfers + self-destruct rule) says %v", label, a.Hex(), got, model[a])
				}
			}
		}
	}
	if txIndex != len(txs) {
		return fmt.Sprintf("VERIF-HARNESS-BUG: traced %d of %d transactions", txIndex, len(txs))
	}

	// Consensus-level issuance.
	for _, wd := range block.Withdrawals() {
		amt := new(big.Int).Mul(new(big.Int).SetUint64(wd.Amount), c32Gwei)
		facts.wdClasses = append(facts.wdClasses, worldgen.BigWithdrawalClass(wd.Amount))
		led.add(wd.Address, amt)
		issued.Add(issued, amt)
	}
	if w.Variant.PoW {
		reward := new(big.Int).Set(c32BlockReward)
		for _, u := range block.Uncles() {
			// (U_n + 8 - B_n) * R / 8 to the uncle's miner, R/32 to the nephew's.
			ur := new(big.Int).Add(u.Number, big.NewInt(8))
			ur.Sub(ur, header.Number)
			ur.Mul(ur, c32BlockReward)
			ur.Div(ur, big.NewInt(8))
			led.add(u.Coinbase, ur)
			issued.Add(issued, ur)
			reward.Add(reward, new(big.Int).Div(c32BlockReward, big.NewInt(32)))
		}
		led.add(header.Coinbase, reward)
		issued.Add(issued, reward)
	}

	// (B) every account: pre + model delta == post; untouched accounts unchanged.
	known := map[common.Hash]common.Address{}
	for a := range led.delta {
		known[crypto.Keccak256Hash(a[:])] = a
	}
	for a := range running {
		known[crypto.Keccak256Hash(a[:])] = a
	}
	hashes := map[common.Hash]bool{}
	for h := range pre {
		hashes[h] = true
	}
	for h := range post {
		hashes[h] = true
	}
	for h := range known {
		hashes[h] = true
	}
	var hs []common.Hash
	for h := range hashes {
		hs = append(hs, h)
	}
	sort.Slice(hs, func(i, j int) bool { return string(hs[i][:]) < string(hs[j][:]) })
	sumPre, sumPost := new(big.Int), new(big.Int)
	zero := new(big.Int)
	get := func(m map[common.Hash]*big.Int, h common.Hash) *big.Int {
		if v := m[h]; v != nil {
			return v
		}
		return zero
	}
	for _, h := range hs {
		p, q := get(pre, h), get(post, h)
		sumPre.Add(sumPre, p)
		sumPost.Add(sumPost, q)
		a, ok := known[h]
		if !ok {
			if p.Cmp(q) != 0 {
				fail("account with address hash %s changed from %v to %v without any traced event", h.Hex(), p, q)
			}
			continue
		}
		if want := led.abs(a); want.Cmp(q) != 0 {
			fail("account %s: balance after the block is %v, model says %v (before: %v)", a.Hex(), q, want, p)
		}
		if c, ok := running[a]; ok && c.Cmp(q) != 0 {
			fail("account %s: balance-change log ends at %v, state has %v", a.Hex(), c, q)
		}
	}
	// (A) the statement's global equation.
	got := new(big.Int).Sub(sumPost, sumPre)
	want := new(big.Int).Sub(issued, feeBurn)
	want.Sub(want, sdBurn)
	if got.Cmp(want) != 0 {
		fail("total ether changed by %v, want withdrawals+rewards %v - burned fees %v - self-destruct burn %v = %v", got, issued, feeBurn, sdBurn, want)
	}
	if len(errs) == 0 {
		return ""
	}
	return strings.Join(errs, "\n  ")
}

// ---- property ---------------------------------------------------------------------------

func c32Options() worldgen.Options {
	// Both options are drawn after everything else: the cases of a given seed keep the
	// world they had before and gain hostile withdrawals / a create-then-destruct-later
	// arrangement on top.
	return worldgen.Options{BigWithdrawals: true, LateDestruct: true}
}

func TestVerifC32Conservation(t *testing.T) {
	st := vs.New("C32", t)
	vs.Check(t, 1, func(rt *rapid.T) {
		c := st.Case()
		w := worldgen.Draw(rt, c32Options())
		rec := &c32Recorder{}
		cfg := core.DefaultConfig()
		cfg.SnapshotLimit = 0
		cfg.VmConfig = vm.Config{Tracer: rec.hooks()}
		b, err := w.Build(worldgen.BuildOptions{Chain: cfg})
		if err != nil {
			if strings.Contains(err.Error(), "insert block") {
				rt.Fatalf("traced re-execution of a chain-maker block failed: %v\n%s", err, w.Describe())
			}
			rt.Fatalf("VERIF-HARNESS-BUG: worldgen build: %v\n%s", err, w.Describe())
		}
		defer b.Close()
		if rec.bug != "" {
			rt.Fatalf("VERIF-HARNESS-BUG: recorder: %s\n%s", rec.bug, w.Describe())
		}
		if len(rec.blocks) != len(b.Blocks) {
			rt.Fatalf("VERIF-HARNESS-BUG: traced %d blocks, built %d", len(rec.blocks), len(b.Blocks))
		}
		c.Class("variant:" + w.Variant.Name)
		for reason, n := range b.Skipped {
			if n > 0 {
				c.Class("plan-skipped:" + reason)
			}
		}
		nontrivial := false
		var desc []string
		for i, blk := range b.Blocks {
			rb := rec.blocks[i]
			if rb.block.Hash() != blk.Hash() || !rb.ended || rb.err != nil {
				rt.Fatalf("VERIF-HARNESS-BUG: block %d trace incomplete (ended=%v err=%v)", i+1, rb.ended, rb.err)
			}
			pre, err := worldgen.Balances(b.GenDB, b.Parent(i).Root())
			if err != nil {
				rt.Fatalf("VERIF-HARNESS-BUG: dump: %v", err)
			}
			post, err := worldgen.Balances(b.GenDB, blk.Root())
			if err != nil {
				rt.Fatalf("VERIF-HARNESS-BUG: dump: %v", err)
			}
			var facts c32Facts
			if msg := c32CheckBlock(w, rb, pre, post, &facts); msg != "" {
				if strings.HasPrefix(msg, "VERIF-HARNESS-BUG") {
					rt.Fatalf("%s\n%s", msg, w.Describe())
				}
				rt.Fatalf("C32 violated in block %d (%s):\n  %s\nworld: %s\ntxs:\n%s", i+1, w.Variant.Name, msg, w.Describe(), c32DescribeTxs(b, i))
			}
			c32Classes(c, w, b, i, &facts)
			if facts.sdEffective > 0 || facts.createValueOK > 0 || facts.failedTxWithValue > 0 {
				nontrivial = true
			}
			desc = append(desc, fmt.Sprintf("cb:%s|wd%d|un%d|%s", w.Blocks[i].CoinbaseClass, len(blk.Withdrawals()), len(blk.Uncles()), strings.Join(facts.txShapes, ",")))
		}
		d := w.Variant.Name + "|" + strings.Join(desc, "||")
		c.NonTrivial(nontrivial, d)
		c.Sample(nontrivial, func() any { return map[string]any{"descriptor": d, "world": w.Describe()} })
	})
}

func c32DescribeTxs(b *worldgen.Built, i int) string {
	var sb strings.Builder
	for j, info := range b.Txs[i] {
		r := b.Receipts[i][j]
		fmt.Fprintf(&sb, "  tx %d: %s -> status %d gasUsed %d (gas %d value %v feeCap %v tip %v clipped %v)\n", j, info.Plan.Describe(), r.Status, r.GasUsed,
			info.Tx.Gas(), info.Tx.Value(), info.Tx.GasFeeCap(), info.Tx.GasTipCap(), info.Clipped)
	}
	return sb.String()
}

func c32Classes(c *vs.Case, w *worldgen.World, b *worldgen.Built, i int, f *c32Facts) {
	blk := b.Blocks[i]
	flag := func(cond bool, label string) {
		if cond {
			c.Class(label)
		}
	}
	flag(len(blk.Transactions()) == 0, "block:empty")
	flag(f.sdEffective > 0, "block:selfdestruct-effective")
	flag(f.sdVoid > 0, "block:selfdestruct-reverted")
	flag(f.createValueOK > 0, "block:create-with-value")
	flag(f.createValueFail > 0, "block:failed-create-with-value")
	flag(f.failedTxWithValue > 0, "block:failed-tx-with-value")
	flag(f.burned.Sign() > 0, "block:selfdestruct-burn>0")
	flag(f.burned.Sign() > 0, "burn>0:"+w.Variant.Name)
	flag(f.sdEffective > 0, "selfdestruct:"+w.Variant.Name)
	flag(len(blk.Withdrawals()) > 0, "block:withdrawals")
	for _, wc := range f.wdClasses {
		c.Class("withdrawal:" + wc)
	}
	flag(f.sdLate > 0, "block:selfdestruct-of-contract-created-by-earlier-tx")
	flag(f.sdLate > 0, "late-selfdestruct:"+w.Variant.Name)
	flag(f.sdLateSelfValue > 0, "block:late-selfdestruct-to-self-with-balance")
	flag(f.sdLatePaidAfter > 0, "block:paid-after-late-selfdestruct")
	if l := w.Late; l != nil && l.Block == i {
		c.Class("late-plan:" + l.Shape())
		_, ok := b.Created[l.Create]
		flag(l.Via == "tx-create" && !ok, "late-plan:create-skipped")
	}
	flag(len(blk.Uncles()) > 0, "block:uncle")
	flag(blk.BaseFee() != nil && blk.BaseFee().Sign() == 0, "block:basefee-0")
	c.Class("coinbase:" + w.Blocks[i].CoinbaseClass)
	for j, info := range b.Txs[i] {
		r := b.Receipts[i][j]
		c.Classf("tx:type%d", info.Tx.Type())
		c.Class("tx:target-" + info.Plan.TargetClass)
		flag(r.Status == types.ReceiptStatusFailed, "tx:failed")
		if r.Status == types.ReceiptStatusFailed {
			c.Class("txfail:" + info.Plan.TargetClass + "/" + w.Variant.Name)
			c.Classf("txfail-gas:%d", info.Plan.GasClass)
		} else {
			c.Class("txok:" + info.Plan.TargetClass + "/" + w.Variant.Name)
			c.Classf("txok-gas:%d", info.Plan.GasClass)
		}
		flag(info.From == blk.Coinbase(), "tx:sender-is-coinbase")
		flag(info.Tx.GasTipCap().Sign() > 0 && info.Tx.GasFeeCap().Cmp(new(big.Int).Add(blk.BaseFee(), info.Tx.GasTipCap())) < 0, "tx:fee-cap-binds")
		flag(len(info.Tx.BlobHashes()) > 0, "tx:blob")
		flag(len(info.Tx.SetCodeAuthorizations()) > 0, "tx:setcode")
		flag(info.Tx.Gas() == r.GasUsed, "tx:all-gas-used")
	}
	_ = ep.London
}
