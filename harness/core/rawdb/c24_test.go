//go:build verif

package rawdb

// C24 - freezer tables survive crashes without corruption (fault enumeration).
//
// A rapid-generated history of ModifyAncients / TruncateHead / TruncateTail /
// SyncAncient / close+reopen is run against a real file-backed Freezer. The
// harness observes the directory (kit/crashfs) at every instant it controls -
// operation boundaries and, inside the ModifyAncients callback, after every
// AppendRaw - and derives crash images from those observations: per file a real
// prefix followed by an optional zero-filled extension, a metadata file in one
// of the versions seen since the last completed sync, the newest data file
// possibly missing. Each image is reopened by NewFreezer and compared with a
// model (list of items per table, head, per-group tail, head covered by the
// last completed sync).
//
// fsync calls cannot be observed without source hooks, so durability is
// modelled as: (1) everything is durable after a completed SyncAncient, Close
// or NewFreezer; (2) the documented contract of freezer_meta.go - a metadata
// record that states flushOffset F implies that the first F bytes of the index
// and all data referenced by them are on disk. Images therefore never zero-fill
// or drop data covered by the flushOffset of the metadata version they carry.

import (
	"bytes"
	"encoding/binary"
	"errors"
	"fmt"
	"os"
	"sort"
	"strings"
	"testing"
	"time"

	"github.com/ethereum/go-ethereum/ethdb"
	"github.com/ethereum/go-ethereum/rlp"
	"pgregory.net/rapid"
	"verif.local/kit/crashfs"
	vs "verif.local/kit/stat"
)

// ---------------------------------------------------------------- configuration

type c24Table struct {
	name     string
	noSnappy bool
	group    string
}

type c24Config struct {
	tables  []c24Table // sorted by name
	maxSize uint32
	limit   int // maximum raw item size
}

func (c *c24Config) tableMap() map[string]freezerTableConfig {
	m := map[string]freezerTableConfig{}
	for _, t := range c.tables {
		m[t.name] = freezerTableConfig{noSnappy: t.noSnappy, tailGroup: t.group}
	}
	return m
}

func (c *c24Config) groups() []string {
	seen := map[string]bool{}
	var gs []string
	for _, t := range c.tables {
		if t.group != "" && !seen[t.group] {
			seen[t.group] = true
			gs = append(gs, t.group)
		}
	}
	sort.Strings(gs)
	return gs
}

func (c *c24Config) singleGroup() string {
	g := c.tables[0].group
	for _, t := range c.tables {
		if t.group != g {
			return ""
		}
	}
	return g
}

func (c *c24Config) String() string {
	var sb strings.Builder
	fmt.Fprintf(&sb, "max=%d", c.maxSize)
	for _, t := range c.tables {
		kind := "snappy"
		if t.noSnappy {
			kind = "raw"
		}
		fmt.Fprintf(&sb, " %s(%s,%q)", t.name, kind, t.group)
	}
	return sb.String()
}

func (t *c24Table) idxName() string {
	if t.noSnappy {
		return t.name + ".ridx"
	}
	return t.name + ".cidx"
}

func (t *c24Table) metaName() string { return t.name + ".meta" }

func (t *c24Table) datName(n uint32) string {
	if t.noSnappy {
		return fmt.Sprintf("%s.%04d.rdat", t.name, n)
	}
	return fmt.Sprintf("%s.%04d.cdat", t.name, n)
}

func c24DrawConfig(rt *rapid.T) *c24Config {
	cfg := &c24Config{}
	switch rapid.IntRange(0, 5).Draw(rt, "maxSizeClass") {
	case 0, 1, 2:
		cfg.maxSize, cfg.limit = 64, 24
	case 3, 4:
		cfg.maxSize, cfg.limit = 200, 90
	default:
		cfg.maxSize, cfg.limit = 2049, 120
	}
	n := rapid.IntRange(2, 3).Draw(rt, "tables")
	for i := 0; i < n; i++ {
		cfg.tables = append(cfg.tables, c24Table{
			name:     "t" + string(rune('a'+i)),
			noSnappy: rapid.Bool().Draw(rt, "noSnappy"),
			group:    rapid.SampledFrom([]string{"", "g1", "g1", "g2"}).Draw(rt, "group"),
		})
	}
	return cfg
}

// ---------------------------------------------------------------- model

type c24Model struct {
	cfg        *c24Config
	items      map[string]map[uint64][]byte // committed items by table and position
	head       uint64
	tails      map[string]uint64 // by group
	syncedHead uint64            // head covered by the last completed sync, minus later head truncations
	syncedTail map[string]uint64 // tails as of the last completed sync (observation only)
	gen        int
}

func c24NewModel(cfg *c24Config) *c24Model {
	m := &c24Model{cfg: cfg, items: map[string]map[uint64][]byte{}, tails: map[string]uint64{}, syncedTail: map[string]uint64{}}
	for _, t := range cfg.tables {
		m.items[t.name] = map[uint64][]byte{}
	}
	return m
}

func (m *c24Model) maxTail() uint64 {
	var mt uint64
	for _, v := range m.tails {
		if v > mt {
			mt = v
		}
	}
	return mt
}

func (m *c24Model) markSynced() {
	m.syncedHead = m.head
	for g, v := range m.tails {
		m.syncedTail[g] = v
	}
}

// c24Expect is what a reopened crash image is compared against.
type c24Expect struct {
	loHead, hiHead uint64
	tails          map[string]uint64 // model tail per group at the instant
	syncedTail     map[string]uint64
	items          map[string]map[uint64][]byte // committed + pending
	rollover       bool                         // a data file appeared during the operation this point belongs to
	tailTrunc      bool                         // some group tail > 0
	where          string
}

func (m *c24Model) expect(pending map[string][][]byte, where string) *c24Expect {
	e := &c24Expect{loHead: m.syncedHead, hiHead: m.head, tails: map[string]uint64{}, syncedTail: map[string]uint64{},
		items: map[string]map[uint64][]byte{}, where: where}
	for g, v := range m.tails {
		e.tails[g] = v
		if v > 0 {
			e.tailTrunc = true
		}
	}
	for g, v := range m.syncedTail {
		e.syncedTail[g] = v
	}
	minPending := -1
	for _, t := range m.cfg.tables {
		cp := make(map[uint64][]byte, len(m.items[t.name])+len(pending[t.name]))
		for k, v := range m.items[t.name] {
			cp[k] = v
		}
		for i, v := range pending[t.name] {
			cp[m.head+uint64(i)] = v
		}
		e.items[t.name] = cp
		if minPending < 0 || len(pending[t.name]) < minPending {
			minPending = len(pending[t.name])
		}
	}
	if minPending > 0 {
		e.hiHead = m.head + uint64(minPending)
	}
	return e
}

// c24Data renders a deterministic non-zero payload identifying (table, position, generation).
func c24Data(salt uint64, table int, pos uint64, gen int, size int) []byte {
	x := salt ^ uint64(table+1)*0x9e3779b97f4a7c15 ^ (pos+1)*0xbf58476d1ce4e5b9 ^ uint64(gen+1)*0x94d049bb133111eb
	out := make([]byte, size)
	for i := range out {
		x ^= x << 13
		x ^= x >> 7
		x ^= x << 17
		out[i] = byte(1 + x%255)
	}
	return out
}

// ---------------------------------------------------------------- crash points

type c24Point struct {
	state  *crashfs.State
	expect *c24Expect
	ops    []string // operations issued up to this point
	// refs[table][metadata content] = index content when that metadata version was first observed
	refs map[string]map[string][]byte
}

type c24Run struct {
	rt      *rapid.T
	cfg     *c24Config
	dir     string
	f       *Freezer
	model   *c24Model
	tracker *crashfs.Tracker
	points  []c24Point
	salt    uint64
	opsDesc []string
	opDats  int // number of data files when the current operation started

	lastMeta map[string]string            // current metadata content per table
	metaRef  map[string]map[string][]byte // see c24Point.refs

	excluded         int  // draws reshaped because of a listed known finding
	tailBeyondSynced bool // history truncated a tail above the synced head
	zeroFirstItem    bool // history placed a zero-length item first in a non-tail data file
}

// Class labels of known-finding signatures (see notes/C24.md).
const (
	c24KnownTailBeyondSynced = "tail-truncation-beyond-synced-head"
	c24KnownEmptyNonPrunable = "nonprunable-table-empty-after-crash"
	c24KnownZeroFirstItem    = "zero-length-item-first-in-data-file-after-failed-batch"
)

func c24SameFiles(a, b *crashfs.State) bool {
	if len(a.Files) != len(b.Files) {
		return false
	}
	for i := range a.Files {
		if a.Files[i].Name != b.Files[i].Name || !bytes.Equal(a.Files[i].Data, b.Files[i].Data) {
			return false
		}
	}
	return true
}

func c24DatCount(s *crashfs.State) int {
	n := 0
	for i := range s.Files {
		if strings.HasSuffix(s.Files[i].Name, "dat") {
			n++
		}
	}
	return n
}

// observe records a crash point. dedupe drops the point if the directory did not
// change since the previous one (used inside the append callback).
func (r *c24Run) observe(e *c24Expect, dedupe bool) {
	s, err := r.tracker.Observe()
	if err != nil {
		r.rt.Fatalf("VERIF-HARNESS-BUG: observe: %v", err)
	}
	if n := len(r.points); n > 0 && dedupe && c24SameFiles(r.points[n-1].state, s) {
		return
	}
	if c24DatCount(s) > r.opDats {
		e.rollover = true
	}
	r.noteMeta(s, false)
	refs := map[string]map[string][]byte{}
	for tn, m := range r.metaRef {
		cp := make(map[string][]byte, len(m))
		for k, v := range m {
			cp[k] = v
		}
		refs[tn] = cp
	}
	r.points = append(r.points, c24Point{state: s, expect: e, ops: r.opsDesc[:len(r.opsDesc):len(r.opsDesc)], refs: refs})
}

func (r *c24Run) open() {
	f, err := NewFreezer(r.dir, "", false, r.cfg.maxSize, r.cfg.tableMap())
	if err != nil {
		r.rt.Fatalf("clean open failed: %v (config %s, ops %v)", err, r.cfg, r.opsDesc)
	}
	r.f = f
}

var errC24Injected = errors.New("c24 injected callback failure")

func (r *c24Run) opAppend() {
	rt, m := r.rt, r.model
	n := rapid.IntRange(1, 8).Draw(rt, "appendItems")
	failAt := -1
	if rapid.IntRange(0, 5).Draw(rt, "appendFails") == 0 {
		failAt = rapid.IntRange(0, n).Draw(rt, "failAt")
	}
	m.gen++
	sizes := make([][]int, n)
	for i := range sizes {
		sizes[i] = make([]int, len(r.cfg.tables))
		for j := range sizes[i] {
			switch rapid.IntRange(0, 7).Draw(rt, "sizeClass") {
			case 0:
				sizes[i][j] = 0
			case 1:
				sizes[i][j] = 1
			case 2:
				sizes[i][j] = r.cfg.limit
			default:
				sizes[i][j] = rapid.IntRange(0, r.cfg.limit).Draw(rt, "size")
			}
		}
	}
	// Trigger of a known-finding candidate: a zero-length item becomes the first item of
	// a data file other than the tail file (only reachable after a failed batch left the
	// head file advanced and empty).
	for j, t := range r.cfg.tables {
		tab := r.f.tables[t.name]
		if t.noSnappy && sizes[0][j] == 0 && tab.headBytes == 0 && tab.headId > tab.tailId && failAt != 0 {
			if vs.Known("TestVerifC24Crash", c24KnownZeroFirstItem) {
				sizes[0][j] = 1
				r.excluded++
			} else {
				r.zeroFirstItem = true
			}
		}
	}
	r.opsDesc = append(r.opsDesc, fmt.Sprintf("append(%d at %d, failAt=%d)", n, m.head, failAt))
	pending := map[string][][]byte{}
	_, err := r.f.ModifyAncients(func(op ethdb.AncientWriteOp) error {
		for i := 0; i < n; i++ {
			if i == failAt {
				return errC24Injected
			}
			for j, t := range r.cfg.tables {
				data := c24Data(r.salt, j, m.head+uint64(i), m.gen, sizes[i][j])
				if err := op.AppendRaw(t.name, m.head+uint64(i), data); err != nil {
					return err
				}
				pending[t.name] = append(pending[t.name], data)
				r.observe(m.expect(pending, fmt.Sprintf("op%d:append item %d table %s", len(r.opsDesc)-1, i, t.name)), true)
			}
		}
		if failAt == n {
			return errC24Injected
		}
		return nil
	})
	if failAt >= 0 {
		if !errors.Is(err, errC24Injected) {
			rt.Fatalf("ModifyAncients: want injected error, got %v", err)
		}
	} else {
		if err != nil {
			rt.Fatalf("ModifyAncients failed: %v (config %s, ops %v)", err, r.cfg, r.opsDesc)
		}
		for _, t := range r.cfg.tables {
			for i, d := range pending[t.name] {
				m.items[t.name][m.head+uint64(i)] = d
			}
		}
		m.head += uint64(n)
	}
	if got, _ := r.f.Ancients(); got != m.head {
		rt.Fatalf("after append: Ancients()=%d, model head %d (ops %v)", got, m.head, r.opsDesc)
	}
	r.observe(m.expect(nil, fmt.Sprintf("op%d:after append", len(r.opsDesc)-1)), false)
}

func (r *c24Run) opTruncateHead() {
	rt, m := r.rt, r.model
	lo := m.maxTail()
	var n uint64
	switch {
	case rapid.IntRange(0, 9).Draw(rt, "thNoop") == 0:
		n = m.head + uint64(rapid.IntRange(0, 2).Draw(rt, "thAbove"))
	default:
		n = rapid.Uint64Range(lo, m.head).Draw(rt, "thTarget")
	}
	r.opsDesc = append(r.opsDesc, fmt.Sprintf("truncateHead(%d) head=%d", n, m.head))
	old, err := r.f.TruncateHead(n)
	if err != nil {
		rt.Fatalf("TruncateHead(%d) failed: %v (ops %v)", n, err, r.opsDesc)
	}
	if old != m.head {
		rt.Fatalf("TruncateHead(%d) returned previous head %d, model %d", n, old, m.head)
	}
	if n < m.head {
		for _, t := range r.cfg.tables {
			for p := n; p < m.head; p++ {
				delete(m.items[t.name], p)
			}
		}
		m.head = n
		if m.syncedHead > n {
			m.syncedHead = n
		}
	}
	r.observe(m.expect(nil, fmt.Sprintf("op%d:after truncateHead", len(r.opsDesc)-1)), false)
}

func (r *c24Run) opTruncateTail() bool {
	rt, m := r.rt, r.model
	groups := r.cfg.groups()
	if len(groups) == 0 {
		return false
	}
	g := rapid.SampledFrom(groups).Draw(rt, "ttGroup")
	cur := m.tails[g]
	var n uint64
	switch {
	case m.head == 0 && r.cfg.singleGroup() != "" && rapid.Bool().Draw(rt, "ttInit"):
		// initialise an empty freezer at a non-zero position (pathdb does this for a
		// fresh trienode history): only valid when every table is in the group.
		n = uint64(rapid.IntRange(1, 9).Draw(rt, "ttInitTo"))
	case rapid.IntRange(0, 9).Draw(rt, "ttNoop") == 0:
		n = rapid.Uint64Range(0, cur).Draw(rt, "ttStale")
	default:
		hi := m.head
		if vs.Known("TestVerifC24Crash", c24KnownTailBeyondSynced) {
			// known finding: hiding/deleting items above the head covered by the last
			// completed sync; excluded by construction while it is listed
			if hi > m.syncedHead {
				hi = m.syncedHead
				r.excluded++
			}
		}
		if cur >= hi {
			return false
		}
		n = rapid.Uint64Range(cur+1, hi).Draw(rt, "ttTarget")
		if n > m.syncedHead {
			r.tailBeyondSynced = true
		}
	}
	r.opsDesc = append(r.opsDesc, fmt.Sprintf("truncateTail(%s,%d) tail=%d head=%d", g, n, cur, m.head))
	old, err := r.f.TruncateTail(g, n)
	if err != nil {
		rt.Fatalf("TruncateTail(%s,%d) failed: %v (ops %v)", g, n, err, r.opsDesc)
	}
	if old != cur {
		rt.Fatalf("TruncateTail(%s,%d) returned previous tail %d, model %d", g, n, old, cur)
	}
	if n > cur {
		// The hidden items stay in the model: a crash may lose the (unsynced) tail
		// marker, in which case they become readable again and must still be correct.
		m.tails[g] = n
		if n > m.head {
			m.head = n
		}
	}
	r.observe(m.expect(nil, fmt.Sprintf("op%d:after truncateTail", len(r.opsDesc)-1)), false)
	return true
}

func (r *c24Run) opSync() {
	r.opsDesc = append(r.opsDesc, "sync")
	if err := r.f.SyncAncient(); err != nil {
		r.rt.Fatalf("SyncAncient failed: %v", err)
	}
	r.model.markSynced()
	r.barrier()
	r.observe(r.model.expect(nil, fmt.Sprintf("op%d:after sync", len(r.opsDesc)-1)), false)
}

// barrier tells the tracker that everything currently in the directory is durable.
func (r *c24Run) barrier() {
	s, err := r.tracker.Observe()
	if err != nil {
		r.rt.Fatalf("VERIF-HARNESS-BUG: observe: %v", err)
	}
	r.tracker.Sync()
	r.noteMeta(s, true)
}

// noteMeta records, for every metadata content that newly became current, the index
// content at that observation; reset forgets older versions (after a barrier).
func (r *c24Run) noteMeta(s *crashfs.State, reset bool) {
	if r.metaRef == nil || reset {
		r.metaRef = map[string]map[string][]byte{}
		r.lastMeta = map[string]string{}
	}
	for i := range r.cfg.tables {
		t := &r.cfg.tables[i]
		meta, idx := s.File(t.metaName()), s.File(t.idxName())
		if meta == nil || idx == nil {
			continue
		}
		if r.metaRef[t.name] == nil {
			r.metaRef[t.name] = map[string][]byte{}
		}
		if cur := string(meta.Data); r.lastMeta[t.name] != cur || r.metaRef[t.name][cur] == nil {
			r.metaRef[t.name][cur] = idx.Data
			r.lastMeta[t.name] = cur
		}
	}
}

func (r *c24Run) opReopen() {
	r.opsDesc = append(r.opsDesc, "reopen")
	if err := r.f.Close(); err != nil {
		r.rt.Fatalf("Close failed: %v", err)
	}
	r.model.markSynced()
	r.barrier()
	r.observe(r.model.expect(nil, fmt.Sprintf("op%d:after close", len(r.opsDesc)-1)), false)
	r.open()
	c24CheckOpen(r.rt, r.f, r.cfg, r.model.expect(nil, "clean reopen"), true, fmt.Sprintf("clean reopen (config %s, ops %v)", r.cfg, r.opsDesc))
	r.barrier()
	r.observe(r.model.expect(nil, fmt.Sprintf("op%d:after reopen", len(r.opsDesc)-1)), false)
}

// ---------------------------------------------------------------- file formats (written from the format description, not via the table code)

type c24Meta struct {
	Version uint16
	Tail    uint64
	Offset  uint64
}

func c24ParseMeta(b []byte) (c24Meta, error) {
	var m c24Meta
	err := rlp.Decode(bytes.NewReader(b), &m)
	return m, err
}

type c24Entry struct {
	file   uint32
	offset uint32
}

func c24ParseIndex(b []byte) []c24Entry {
	var es []c24Entry
	for i := 0; i+6 <= len(b); i += 6 {
		es = append(es, c24Entry{file: uint32(binary.BigEndian.Uint16(b[i:])), offset: binary.BigEndian.Uint32(b[i+2:])})
	}
	return es
}

// ---------------------------------------------------------------- image construction

func c24CommonPrefix(a, b []byte) int64 {
	n := min(len(a), len(b))
	for i := 0; i < n; i++ {
		if a[i] != b[i] {
			return int64(i)
		}
	}
	return int64(n)
}

// c24Image draws one crash image of the point. mode: 0 kill (nothing lost),
// 1 everything unsynced lost, 2 lost with zero-filled extensions, 3 random,
// 4 metadata regress (oldest recorded metadata version, files intact).
//
// Metadata: every metadata write is fsynced except the virtual-tail update of a
// tail truncation, so the versions a crash can leave are the current one and its
// predecessors that differ only in the tail field (and whose index prefix was not
// rewritten since - a rewritten index can shift the flushOffset back to an old value). An older version with another
// flushOffset can only be left by a crash inside the operation that replaced it
// (e.g. between an index truncation and the flushOffset update); it is paired
// with otherwise intact files (modes 3 and 4).
//
// Coverage: the version's flushOffset F vouches for the first F index bytes as they
// were when that version was first observed; if the index changed below F since
// (which the unmodified code always accompanies with a new flushOffset), only the
// unchanged prefix counts as covered.
func c24Image(rt *rapid.T, cfg *c24Config, p *c24Point, mode int) crashfs.Cuts {
	s := p.state
	cuts := s.KeepAll()
	if mode == 0 {
		return cuts
	}
	for ti := range cfg.tables {
		t := &cfg.tables[ti]
		meta, idx := s.File(t.metaName()), s.File(t.idxName())
		if meta == nil || idx == nil {
			rt.Fatalf("VERIF-HARNESS-BUG: table %s lacks meta or index file", t.name)
		}
		parse := func(i int) c24Meta {
			mv, err := c24ParseMeta(meta.Versions[i])
			if err != nil {
				rt.Fatalf("VERIF-HARNESS-BUG: cannot parse observed metadata of %s: %v (%x)", t.name, err, meta.Versions[i])
			}
			return mv
		}
		// 1. metadata version
		last := len(meta.Versions) - 1
		chain := last
		unchanged := func(i int) bool { // index below the version's flushOffset untouched since it was first observed
			ref, ok := p.refs[t.name][string(meta.Versions[i])]
			if !ok {
				return false
			}
			n := min(int64(parse(i).Offset), int64(len(ref)))
			return c24CommonPrefix(ref[:n], idx.Data) == n
		}
		for chain > 0 && parse(chain-1).Offset == parse(last).Offset && unchanged(chain-1) {
			chain--
		}
		vi := last
		switch mode {
		case 1, 2:
			vi = chain
		case 3:
			vi = rapid.IntRange(0, last).Draw(rt, t.name+"/metaVersion")
		case 4:
			vi = 0
		}
		cuts[meta.Name] = crashfs.Cut{Version: vi}
		if vi < chain {
			continue // metadata regress: the table's other files stay intact
		}
		mv := parse(vi)
		// 2. index: everything below the version's flushOffset is durable by contract
		ref, ok := p.refs[t.name][string(meta.Versions[vi])]
		if !ok {
			rt.Fatalf("VERIF-HARNESS-BUG: no reference index recorded for metadata version %x of %s", meta.Versions[vi], t.name)
		}
		covered := int64(mv.Offset)
		if covered > int64(len(ref)) {
			covered = int64(len(ref))
		}
		covered = c24CommonPrefix(ref[:covered], idx.Data)
		var ic crashfs.Cut
		lo := idx.Durable
		if covered > lo {
			lo = covered
		}
		switch mode {
		case 1:
			ic = crashfs.Cut{Keep: lo, Len: lo}
		case 2:
			ic = crashfs.Cut{Keep: lo, Len: idx.Size()}
		default:
			ic = crashfs.DrawCut(rt, idx, covered, t.name+"/idx")
		}
		cuts[idx.Name] = ic
		// 3. data: everything referenced by index entries below min(flushOffset, kept) is durable by contract
		lim := covered
		if ic.Keep < lim {
			lim = ic.Keep
		}
		req := map[uint32]int64{}
		for i, e := range c24ParseIndex(idx.Data[:lim]) {
			if i == 0 {
				continue // entry 0 carries (tail file, deleted items)
			}
			if int64(e.offset) > req[e.file] {
				req[e.file] = int64(e.offset)
			}
		}
		if os.Getenv("VERIF_DEBUG") != "" {
			rt.Logf("DEBUG image %s mode %d: meta v%d %+v ref %d bytes idx %d bytes covered %d keep %d lim %d req %v entries %v",
				t.name, mode, vi, mv, len(ref), idx.Size(), covered, ic.Keep, lim, req, c24ParseIndex(idx.Data))
		}
		prefix := t.name + "."
		var newest *crashfs.File
		for fi := range s.Files {
			df := &s.Files[fi]
			if !strings.HasPrefix(df.Name, prefix) || !strings.HasSuffix(df.Name, "dat") {
				continue
			}
			newest = df // sorted by name, zero padded numbers
			var num uint32
			fmt.Sscanf(df.Name[len(prefix):], "%04d", &num)
			need := req[num]
			if need > df.Size() {
				rt.Fatalf("VERIF-HARNESS-BUG: index of %s below flushOffset references %d bytes of %s which has %d", t.name, need, df.Name, df.Size())
			}
			var dc crashfs.Cut
			lo := df.Durable
			if need > lo {
				lo = need
			}
			switch mode {
			case 1:
				dc = crashfs.Cut{Keep: lo, Len: lo}
			case 2:
				dc = crashfs.Cut{Keep: lo, Len: df.Size()}
			default:
				dc = crashfs.DrawCut(rt, df, need, df.Name)
			}
			cuts[df.Name] = dc
		}
		// 4. the newest data file may be missing if it was created since the last sync
		// and nothing below the flushOffset refers to it
		if newest != nil && newest.Fresh {
			var num uint32
			fmt.Sscanf(newest.Name[len(prefix):], "%04d", &num)
			if req[num] == 0 && newest.Durable == 0 {
				drop := mode == 1
				if mode == 3 {
					drop = rapid.IntRange(0, 3).Draw(rt, newest.Name+"/missing") == 0
				}
				if drop {
					cuts[newest.Name] = crashfs.Cut{Missing: true}
				}
			}
		}
	}
	return cuts
}

// ---------------------------------------------------------------- oracle

// c24CheckOpen compares an opened freezer with the expectation. exact demands
// head and tails equal to the model (clean reopen); otherwise the crash bounds apply.
// It returns the observed head and per-table tails.
func c24CheckOpen(rt *rapid.T, f *Freezer, cfg *c24Config, e *c24Expect, exact bool, ctx string) (uint64, map[string]uint64) {
	head, err := f.Ancients()
	if err != nil {
		rt.Fatalf("%s: Ancients: %v", ctx, err)
	}
	if exact {
		if head != e.hiHead {
			rt.Fatalf("%s: Ancients()=%d, model head %d", ctx, head, e.hiHead)
		}
	} else {
		if head < e.loHead {
			rt.Fatalf("%s: Ancients()=%d but %d items were covered by a completed sync and not truncated since [%s]", ctx, head, e.loHead, e.where)
		}
		if head > e.hiHead {
			rt.Fatalf("%s: Ancients()=%d exceeds the number of items ever appended (%d) [%s]", ctx, head, e.hiHead, e.where)
		}
	}
	tails := map[string]uint64{}
	for _, g := range cfg.groups() {
		gt, err := f.Tail(g)
		if err != nil {
			rt.Fatalf("%s: Tail(%q): %v", ctx, g, err)
		}
		tails[g] = gt
		if exact && gt != e.tails[g] {
			rt.Fatalf("%s: Tail(%q)=%d, model %d", ctx, g, gt, e.tails[g])
		}
		// every item covered by a completed sync and not truncated must be present
		if !exact && gt > e.tails[g] && e.tails[g] < e.loHead {
			rt.Fatalf("%s: Tail(%q)=%d hides items [%d,%d) that were covered by a completed sync and never truncated [%s]",
				ctx, g, gt, e.tails[g], min(gt, e.loHead), e.where)
		}
	}
	tableTail := map[string]uint64{}
	for _, t := range cfg.tables {
		tab := f.tables[t.name]
		if got := tab.items.Load(); got != head {
			rt.Fatalf("%s: table %s holds %d items, freezer head is %d: tables do not share one range [%s]", ctx, t.name, got, head, e.where)
		}
		want := tails[t.group] // 0 for the non-prunable group ""
		if got := tab.itemHidden.Load(); got != want {
			rt.Fatalf("%s: table %s (group %q) has tail %d, group tail is %d [%s]", ctx, t.name, t.group, got, want, e.where)
		}
		tableTail[t.name] = want
		// contents
		var all [][]byte
		for p := want; p < head; p++ {
			exp, ok := e.items[t.name][p]
			if !ok {
				rt.Fatalf("%s: table %s serves position %d (tail %d head %d) which the model never held [%s]", ctx, t.name, p, want, head, e.where)
			}
			got, err := f.Ancient(t.name, p)
			if err != nil {
				rt.Fatalf("%s: Ancient(%s,%d) failed: %v (tail %d head %d) [%s]", ctx, t.name, p, err, want, head, e.where)
			}
			if !bytes.Equal(got, exp) {
				rt.Fatalf("%s: Ancient(%s,%d)=%x, appended %x [%s]", ctx, t.name, p, got, exp, e.where)
			}
			all = append(all, exp)
			if len(exp) > 0 && p == want { // smoke test of the partial read on the first readable item
				off, l := uint64(len(exp)/3), uint64(len(exp)/2)
				part, err := f.AncientBytes(t.name, p, off, l)
				if err != nil || !bytes.Equal(part, exp[off:off+l]) {
					rt.Fatalf("%s: AncientBytes(%s,%d,%d,%d)=%x,%v want %x", ctx, t.name, p, off, l, part, err, exp[off:off+l])
				}
			}
		}
		if head > want {
			rng, err := f.AncientRange(t.name, want, head-want, 0)
			if err != nil {
				rt.Fatalf("%s: AncientRange(%s,%d,%d) failed: %v", ctx, t.name, want, head-want, err)
			}
			if len(rng) != len(all) {
				rt.Fatalf("%s: AncientRange(%s,%d,%d) returned %d items", ctx, t.name, want, head-want, len(rng))
			}
			for i := range rng {
				if !bytes.Equal(rng[i], all[i]) {
					rt.Fatalf("%s: AncientRange(%s) item %d = %x, appended %x", ctx, t.name, want+uint64(i), rng[i], all[i])
				}
			}
		}
		if _, err := f.Ancient(t.name, head); err == nil {
			rt.Fatalf("%s: Ancient(%s,%d) at head succeeded", ctx, t.name, head)
		}
		if want > 0 {
			if _, err := f.Ancient(t.name, want-1); err == nil {
				rt.Fatalf("%s: Ancient(%s,%d) below tail %d succeeded", ctx, t.name, want-1, want)
			}
		}
	}
	return head, tableTail
}

type c24Outcome struct {
	head       uint64
	lostUnsync uint64 // items present in the model at the instant but gone after recovery
	tailJump   bool   // some group tail moved above the model tail (only unsynced items hidden)
	tailBack   bool   // some group tail fell below the tail as of the last completed sync
}

// c24Open opens a freezer and turns a panic of the open path into an error so that
// the failing image is reported (and shrunk) instead of a bare stack trace.
func c24Open(dir string, cfg *c24Config) (f *Freezer, err error) {
	defer func() {
		if r := recover(); r != nil {
			f, err = nil, fmt.Errorf("NewFreezer panicked: %v", r)
		}
	}()
	return NewFreezer(dir, "", false, cfg.maxSize, cfg.tableMap())
}

// c24ItemsAfterIndexRepair predicts, from the image alone, how many items (including
// deleted ones) each table holds once its index is cut back to the flushOffset.
func c24ItemsAfterIndexRepair(cfg *c24Config, img *crashfs.Snapshot) map[string]uint64 {
	out := map[string]uint64{}
	for i := range cfg.tables {
		t := &cfg.tables[i]
		idx := img.Files[t.idxName()]
		mv, err := c24ParseMeta(img.Files[t.metaName()])
		if err != nil || len(idx) < 6 {
			out[t.name] = 0
			continue
		}
		n := int64(len(idx)) / 6 * 6
		if int64(mv.Offset) < n {
			n = int64(mv.Offset)
		}
		es := c24ParseIndex(idx[:n])
		if len(es) == 0 {
			out[t.name] = 0
			continue
		}
		out[t.name] = uint64(es[0].offset) + uint64(len(es)-1)
	}
	return out
}

// c24EmptyNonPrunable reports the trigger of a known-finding candidate: after index
// repair a non-prunable table is empty while another table still holds items.
func c24EmptyNonPrunable(cfg *c24Config, img *crashfs.Snapshot) bool {
	items := c24ItemsAfterIndexRepair(cfg, img)
	var nonEmpty, emptyNP bool
	for _, t := range cfg.tables {
		if items[t.name] > 0 {
			nonEmpty = true
		} else if t.group == "" {
			emptyNP = true
		}
	}
	return nonEmpty && emptyNP
}

// c24Reopen materialises the image, reopens it, checks it and continues using it.
func c24Reopen(rt *rapid.T, cfg *c24Config, p *c24Point, cuts crashfs.Cuts, salt uint64) c24Outcome {
	dir, err := os.MkdirTemp(c24TempRoot, "c24img")
	if err != nil {
		rt.Fatalf("VERIF-HARNESS-BUG: mkdir: %v", err)
	}
	defer os.RemoveAll(dir)
	if err := p.state.Image(dir, cuts); err != nil {
		rt.Fatalf("VERIF-HARNESS-BUG: image: %v", err)
	}
	e := p.expect
	ctx := fmt.Sprintf("crash image at %q (config %s, ops %v) cuts %s", e.where, cfg, p.ops, c24CutsString(p.state, cuts))
	f, err := c24Open(dir, cfg)
	if err != nil {
		rt.Fatalf("%s: reopen failed: %v", ctx, err)
	}
	closed := false
	defer func() {
		if !closed {
			f.Close()
		}
	}()
	head, tableTail := c24CheckOpen(rt, f, cfg, e, false, ctx)
	out := c24Outcome{head: head, lostUnsync: e.hiHead - head}
	for _, g := range cfg.groups() {
		gt, _ := f.Tail(g)
		if gt > e.tails[g] {
			out.tailJump = true
		}
		if gt < e.syncedTail[g] {
			out.tailBack = true
		}
	}
	// continue: append at Ancients(), read back, close, reopen cleanly, compare again
	after := &c24Expect{hiHead: head, tails: map[string]uint64{}, items: map[string]map[uint64][]byte{}, where: "after recovery"}
	for _, g := range cfg.groups() {
		after.tails[g], _ = f.Tail(g)
	}
	for _, t := range cfg.tables {
		cp := map[uint64][]byte{}
		for pos := tableTail[t.name]; pos < head; pos++ {
			cp[pos] = e.items[t.name][pos]
		}
		after.items[t.name] = cp
	}
	k := rapid.IntRange(1, 3).Draw(rt, "continueItems")
	_, err = f.ModifyAncients(func(op ethdb.AncientWriteOp) error {
		for i := 0; i < k; i++ {
			for j, t := range cfg.tables {
				size := int(((salt >> uint(8*j)) + uint64(i)*7 + head) % uint64(cfg.limit+1))
				data := c24Data(salt, j, head+uint64(i), 1<<20, size)
				if err := op.AppendRaw(t.name, head+uint64(i), data); err != nil {
					return err
				}
				after.items[t.name][head+uint64(i)] = data
			}
		}
		return nil
	})
	if err != nil {
		rt.Fatalf("%s: append at recovered head %d failed: %v", ctx, head, err)
	}
	after.hiHead = head + uint64(k)
	c24CheckOpen(rt, f, cfg, after, true, ctx+" after recovery+append")
	if err := f.Close(); err != nil {
		rt.Fatalf("%s: close after recovery failed: %v", ctx, err)
	}
	closed = true
	f2, err := c24Open(dir, cfg)
	if err != nil {
		rt.Fatalf("%s: second reopen failed: %v", ctx, err)
	}
	c24CheckOpen(rt, f2, cfg, after, true, ctx+" after recovery+append+clean reopen")
	if err := f2.Close(); err != nil {
		rt.Fatalf("%s: close after second reopen failed: %v", ctx, err)
	}
	// smoke test: a read-only open of the cleanly closed, recovered directory validates and serves the same
	f3, err := NewFreezer(dir, "", true, cfg.maxSize, cfg.tableMap())
	if err != nil {
		rt.Fatalf("%s: read-only open after recovery and clean close failed: %v", ctx, err)
	}
	defer f3.Close()
	c24CheckOpen(rt, f3, cfg, after, true, ctx+" read-only open after recovery")
	return out
}

func c24CutsString(s *crashfs.State, cuts crashfs.Cuts) string {
	var parts []string
	for i := range s.Files {
		f := &s.Files[i]
		c, ok := cuts[f.Name]
		switch {
		case !ok:
			continue
		case c.Missing:
			parts = append(parts, f.Name+":missing")
		case f.InPlace:
			vs := ""
			for _, v := range f.Versions {
				if mv, err := c24ParseMeta(v); err == nil {
					vs += fmt.Sprintf("(tail %d,flush %d)", mv.Tail, mv.Offset)
				}
			}
			parts = append(parts, fmt.Sprintf("%s:v%d of %s", f.Name, c.Version, vs))
		case c.Keep == f.Size() && c.Len == f.Size():
			continue
		default:
			parts = append(parts, fmt.Sprintf("%s:%d+0*%d/%d(dur %d)", f.Name, c.Keep, c.Len-c.Keep, f.Size(), f.Durable))
		}
	}
	return "{" + strings.Join(parts, " ") + "}"
}

// ---------------------------------------------------------------- the property

func c24History(rt *rapid.T) *c24Run {
	cfg := c24DrawConfig(rt)
	dir, err := os.MkdirTemp(c24TempRoot, "c24")
	if err != nil {
		rt.Fatalf("VERIF-HARNESS-BUG: mkdir: %v", err)
	}
	r := &c24Run{rt: rt, cfg: cfg, dir: dir, model: c24NewModel(cfg), salt: rapid.Uint64().Draw(rt, "salt")}
	r.tracker = crashfs.NewTracker(dir, func(n string) bool { return strings.HasSuffix(n, ".meta") },
		func(n string) bool { return n == "FLOCK" })
	// index files are only ever replaced through copyFrom/reset (temp file, fsync, rename, directory sync)
	r.tracker.AtomicReplace(func(n string) bool { return strings.HasSuffix(n, "idx") })
	r.open()
	r.opDats = 1 << 30
	r.barrier()
	r.observe(r.model.expect(nil, "after create"), false)
	nops := rapid.IntRange(2, 12).Draw(rt, "ops")
	for i := 0; i < nops; i++ {
		r.opDats = c24DatCount(r.points[len(r.points)-1].state)
		switch k := rapid.IntRange(0, 14).Draw(rt, "op"); {
		case k <= 5:
			r.opAppend()
		case k <= 8:
			if !r.opTruncateTail() {
				r.opAppend()
			}
		case r.model.head == 0:
			r.opAppend()
		case k <= 10:
			r.opTruncateHead()
		case k <= 13:
			r.opSync()
		default:
			r.opReopen()
		}
	}
	return r
}

func c24Property(rt *rapid.T, st *vs.S) {
	r := c24History(rt)
	defer os.RemoveAll(r.dir)
	defer func() {
		if r.f != nil {
			r.f.Close()
		}
	}()
	c := st.Case()
	c.Classf("max%d", r.cfg.maxSize)
	c.Classf("tables%d", len(r.cfg.tables))
	for i := 0; i < r.excluded; i++ {
		st.Excluded()
	}
	if r.tailBeyondSynced {
		c.Class("history:" + c24KnownTailBeyondSynced)
	}
	if r.zeroFirstItem {
		c.Class("history:" + c24KnownZeroFirstItem)
	}
	for _, d := range r.opsDesc {
		c.Class("op:" + strings.SplitN(d, "(", 2)[0])
	}

	// choose crash points: every point in the thorough tier, a drawn subset plus the
	// first and last in the quick tier
	var chosen []int
	if vs.Thorough() || len(r.points) <= 8 {
		for i := range r.points {
			chosen = append(chosen, i)
		}
	} else {
		pick := map[int]bool{0: true, len(r.points) - 1: true}
		for len(pick) < 8 {
			pick[rapid.IntRange(0, len(r.points)-1).Draw(rt, "crashPoint")] = true
		}
		for i := range pick {
			chosen = append(chosen, i)
		}
		sort.Ints(chosen)
	}
	modes := []int{0, 1, 2, 4, 3, 3}
	if vs.Thorough() {
		modes = []int{0, 1, 2, 4, 3, 3, 3}
	}
	nontrivial := 0
	for _, pi := range chosen {
		p := &r.points[pi]
		seen := map[uint64]bool{}
		for _, mode := range modes {
			cuts := c24Image(rt, r.cfg, p, mode)
			img, err := p.state.Render(cuts)
			if err != nil {
				rt.Fatalf("VERIF-HARNESS-BUG: render: %v", err)
			}
			dg := img.Digest()
			if seen[dg] {
				continue // identical to an image already checked at this point
			}
			seen[dg] = true
			if c24EmptyNonPrunable(r.cfg, img) {
				c.Class("image:" + c24KnownEmptyNonPrunable)
				if vs.Known("TestVerifC24Crash", c24KnownEmptyNonPrunable) {
					st.Excluded()
					continue
				}
			}
			c.Fault()
			out := c24Reopen(rt, r.cfg, p, cuts, r.salt)
			strict := p.state.StrictCut(cuts)
			nt := strict || p.expect.rollover || p.expect.tailTrunc
			if nt {
				nontrivial++
			}
			c.NonTrivial(nt, fmt.Sprintf("%s|%x", r.cfg, dg))
			c.Classf("image:mode%d", mode)
			if strict {
				c.Class("image:strict-cut")
			}
			if p.expect.rollover {
				c.Class("image:across-rollover")
			}
			if p.expect.tailTrunc {
				c.Class("image:after-tail-truncation")
			}
			if strings.Contains(p.expect.where, "append item") {
				c.Class("image:inside-append")
			}
			if out.lostUnsync > 0 {
				c.Class("recovered:lost-unsynced-items")
			}
			if out.head > p.expect.loHead {
				c.Class("recovered:kept-more-than-synced")
			}
			if out.tailJump {
				c.Class("recovered:tail-above-model(unsynced items hidden)")
			}
			if out.tailBack {
				c.Class("recovered:tail-below-last-synced-tail")
				st.Note("a recovered group tail was below the tail as of the last completed sync (not asserted: the statement only demands presence of synced items)")
			}
			c.Sample(nt, func() any {
				return map[string]any{"config": r.cfg.String(), "ops": r.opsDesc, "crash_at": p.expect.where,
					"cuts": c24CutsString(p.state, cuts), "recovered_head": out.head, "synced_head": p.expect.loHead, "model_head": p.expect.hiHead}
			})
		}
	}
	c.Classf("points:%d", min(len(r.points)/10*10, 50))
}

// c24TempRoot is where freezer directories and crash images are created: a private
// directory on tmpfs when available (the freezer fsyncs on every open, close and
// repair step, which dominates the run time on a disk-backed TMPDIR; durability is
// modelled by the harness, not by the device), the driver's TMPDIR otherwise ("").
var c24TempRoot string

func c24SetupTemp(t *testing.T) {
	const shm = "/dev/shm"
	if fi, err := os.Stat(shm); err != nil || !fi.IsDir() {
		return
	}
	// drop leftovers of runs that were killed (older than an hour)
	if ents, err := os.ReadDir(shm); err == nil {
		for _, e := range ents {
			if !strings.HasPrefix(e.Name(), "verif-c24-") {
				continue
			}
			if info, err := e.Info(); err == nil && time.Since(info.ModTime()) > time.Hour {
				os.RemoveAll(shm + "/" + e.Name())
			}
		}
	}
	dir, err := os.MkdirTemp(shm, "verif-c24-")
	if err != nil {
		return
	}
	c24TempRoot = dir
	t.Cleanup(func() { os.RemoveAll(dir); c24TempRoot = "" })
}

// TestVerifC24Crash runs random freezer histories and reopens crash images taken
// at every observed instant.
func TestVerifC24Crash(t *testing.T) {
	st := vs.New("C24", t)
	c24SetupTemp(t)
	vs.Check(t, 1, func(rt *rapid.T) { c24Property(rt, st) })
}

// TestVerifC24Repro replays the minimal scenarios of the suspected defects written up
// in notes/C24.md. It is skipped unless VERIF_C24_REPRO is set (it is documentation
// that runs, not part of the check): each sub-test FAILS while the defect is present.
func TestVerifC24Repro(t *testing.T) {
	if os.Getenv("VERIF_C24_REPRO") == "" {
		t.Skip("set VERIF_C24_REPRO=1 to run the defect reproductions")
	}
	appendN := func(t *testing.T, f *Freezer, tables []string, from uint64, sizes ...int) {
		t.Helper()
		_, err := f.ModifyAncients(func(op ethdb.AncientWriteOp) error {
			for i, sz := range sizes {
				for _, name := range tables {
					if err := op.AppendRaw(name, from+uint64(i), bytes.Repeat([]byte{0xab}, sz)); err != nil {
						return err
					}
				}
			}
			return nil
		})
		if err != nil {
			t.Fatalf("append: %v", err)
		}
	}
	copyDir := func(t *testing.T, src string) string {
		t.Helper()
		snap, err := crashfs.Snap(src)
		if err != nil {
			t.Fatal(err)
		}
		delete(snap.Files, "FLOCK")
		dst := t.TempDir()
		if err := snap.WriteTo(dst); err != nil {
			t.Fatal(err)
		}
		return dst
	}
	// 1. process kill (no data loss at all) after "append; TruncateTail" without a sync
	t.Run("TailAboveSyncedHead", func(t *testing.T) {
		tables := map[string]freezerTableConfig{"a": {noSnappy: true, tailGroup: "g"}}
		f, err := NewFreezer(t.TempDir(), "", false, 2049, tables)
		if err != nil {
			t.Fatal(err)
		}
		defer f.Close()
		appendN(t, f, []string{"a"}, 0, 10)
		if _, err := f.TruncateTail("g", 1); err != nil {
			t.Fatal(err)
		}
		img := copyDir(t, f.datadir) // what a kill -9 leaves behind
		if _, err := c24Open(img, &c24Config{maxSize: 2049, tables: []c24Table{{name: "a", noSnappy: true, group: "g"}}}); err != nil {
			t.Fatalf("reopen after process kill failed: %v", err)
		}
	})
	// 2. process kill inside the first batch, after one table rolled over to a new data file
	t.Run("EmptyNonPrunableTable", func(t *testing.T) {
		tables := map[string]freezerTableConfig{"big": {noSnappy: true}, "small": {noSnappy: true}}
		f, err := NewFreezer(t.TempDir(), "", false, 64, tables)
		if err != nil {
			t.Fatal(err)
		}
		defer f.Close()
		var img string
		f.ModifyAncients(func(op ethdb.AncientWriteOp) error {
			for i := uint64(0); i < 4; i++ {
				op.AppendRaw("big", i, bytes.Repeat([]byte{1}, 30)) // third item rolls "big" over (and syncs it)
				op.AppendRaw("small", i, []byte{2})
			}
			img = copyDir(t, f.datadir)
			return nil
		})
		cfg := &c24Config{maxSize: 64, tables: []c24Table{{name: "big", noSnappy: true}, {name: "small", noSnappy: true}}}
		if _, err := c24Open(img, cfg); err != nil {
			t.Fatalf("reopen after process kill inside the first batch failed: %v", err)
		}
	})
	// 3. no crash at all: failed batch after a rollover, then a zero-length item, then clean close/reopen
	t.Run("ZeroLengthFirstItem", func(t *testing.T) {
		tables := map[string]freezerTableConfig{"a": {noSnappy: true}}
		dir := t.TempDir()
		f, err := NewFreezer(dir, "", false, 64, tables)
		if err != nil {
			t.Fatal(err)
		}
		appendN(t, f, []string{"a"}, 0, 30, 30)
		f.ModifyAncients(func(op ethdb.AncientWriteOp) error {
			op.AppendRaw("a", 2, bytes.Repeat([]byte{3}, 30)) // does not fit: head advances to file 1
			return errC24Injected
		})
		appendN(t, f, []string{"a"}, 2, 0, 5, 5)
		if n, _ := f.Ancients(); n != 5 {
			t.Fatalf("head %d", n)
		}
		if err := f.Close(); err != nil {
			t.Fatal(err)
		}
		f, err = NewFreezer(dir, "", false, 64, tables)
		if err != nil {
			t.Fatal(err)
		}
		defer f.Close()
		if n, _ := f.Ancients(); n != 5 {
			t.Fatalf("clean close and reopen lost items: Ancients()=%d, want 5", n)
		}
	})
}
