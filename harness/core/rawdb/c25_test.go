//go:build verif

package rawdb

// C25 - chain data is unchanged by migration into the freezer (fault enumeration).
//
// One rapid case = one history on a database opened by the real rawdb.Open over a
// recording key-value store (internal/verifx/crashkv) and a file-backed chain
// freezer on a real directory: a synthetic chain with side branches is written
// with the rawdb writers, a finalized pointer is set and one freeze cycle is run
// (freezerdb.Freeze); then the chain is extended / reorganised above the finalized
// block, finality advances and the next cycle runs (1-4 cycles).
//
// Before each cycle the results of the chain accessors are recorded for every
// canonical block and every live side block (the "view"). After the cycle, and on
// every reopened crash image of the cycle, the same calls must return the same
// results for all canonical blocks; side blocks below the frozen boundary and their
// dangling descendants must be gone, side blocks that descend from the canonical
// chain above the boundary must be intact, and the freezer must hold exactly the
// canonical encodings.
//
// Crash images: the freezer operations of a cycle are recorded by wrapping
// chainFreezer.ancients (white-box field assignment, internal/verifx/recfreezer),
// which shares the event log with the key-value wrapper. A crash after Events[:i]
// sees the key-value store as the replay of that prefix (batches are atomic) and the
// freezer directory as observed at the last freezer operation before i, with the
// per-file cuts of kit/crashfs where data is not known durable. Crashes inside
// SyncAncient (some tables synced, others not) are synthesised from the observations
// before and after the sync. Reopened images are opened by plain rawdb.Open (no
// wrapper), checked, driven through a recovery Freeze, checked, driven through a
// further cycle with finality at the head, and checked again.
//
// The background freezer goroutine that rawdb.Open starts is kept from running at
// instants the harness does not control by a gate in the key-value wrapper: a read
// of the head-block key issued from chainFreezer.freezeThreshold blocks while the
// gate is closed. The harness opens the gate only around freezerdb.Freeze().

import (
	"bytes"
	"encoding/binary"
	"encoding/json"
	"errors"
	"fmt"
	"math/big"
	"os"
	"runtime"
	"sort"
	"strings"
	"sync"
	"testing"
	"time"

	"github.com/ethereum/go-ethereum/common"
	"github.com/ethereum/go-ethereum/core/types"
	"github.com/ethereum/go-ethereum/core/types/bal"
	"github.com/ethereum/go-ethereum/ethdb"
	"github.com/ethereum/go-ethereum/ethdb/memorydb"
	"github.com/ethereum/go-ethereum/ethdb/pebble"
	"github.com/ethereum/go-ethereum/internal/verifx/crashkv"
	"github.com/ethereum/go-ethereum/internal/verifx/recfreezer"
	"github.com/ethereum/go-ethereum/params"
	"github.com/ethereum/go-ethereum/rlp"
	"github.com/holiman/uint256"
	"pgregory.net/rapid"
	"verif.local/kit/crashfs"
	vs "verif.local/kit/stat"
)

// Class labels of known-finding signatures (see notes/C25.md).
const (
	// freeze() only cleans the key-value store for the range it froze in the same
	// cycle: after a stop between the freezer sync and the end of the cleanup the next
	// cycle finds everything frozen already and never resumes the cleanup.
	c25KnownCleanup = "interrupted-freeze-cleanup-not-resumed"
	// same root cause as C24's finding at Freezer.repair: a table that is empty after
	// index repair is treated as freshly added while another table holds items.
	c25KnownEmptyTable = "nonprunable-table-empty-after-crash"
)

const c25Test = "TestVerifC25Crash"

var c25NotedHasBAL bool

// ---------------------------------------------------------------- gated key-value store

const (
	c25GateClosed = iota // the freezer goroutine blocks at its next threshold computation
	c25GateOpen
	c25GatePoison // closing: the freezer goroutine sees no head and no finalized block
)

type c25KV struct {
	ethdb.KeyValueStore
	mu    sync.Mutex
	cond  *sync.Cond
	state int
}

func c25NewKV(inner ethdb.KeyValueStore) *c25KV {
	k := &c25KV{KeyValueStore: inner}
	k.cond = sync.NewCond(&k.mu)
	return k
}

func (k *c25KV) set(state int) {
	k.mu.Lock()
	k.state = state
	k.mu.Unlock()
	k.cond.Broadcast()
}

// c25FromFreezer reports whether the current call originates from the threshold
// computation of the background freezer.
func c25FromFreezer() bool {
	var pcs [32]uintptr
	n := runtime.Callers(3, pcs[:])
	frames := runtime.CallersFrames(pcs[:n])
	for {
		fr, more := frames.Next()
		if strings.HasSuffix(fr.Function, "(*chainFreezer).freezeThreshold") ||
			strings.HasSuffix(fr.Function, "(*chainFreezer).readHeadNumber") ||
			strings.HasSuffix(fr.Function, "(*chainFreezer).readFinalizedNumber") {
			return true
		}
		if !more {
			return false
		}
	}
}

func (k *c25KV) Get(key []byte) ([]byte, error) {
	if bytes.Equal(key, headBlockKey) && c25FromFreezer() {
		k.mu.Lock()
		for k.state == c25GateClosed {
			k.cond.Wait()
		}
		st := k.state
		k.mu.Unlock()
		if st == c25GatePoison {
			return nil, errors.New("c25: database is closing")
		}
	} else if bytes.Equal(key, headFinalizedBlockKey) && c25FromFreezer() {
		k.mu.Lock()
		st := k.state
		k.mu.Unlock()
		if st == c25GatePoison {
			return nil, errors.New("c25: database is closing")
		}
	}
	return k.KeyValueStore.Get(key)
}

// c25Resettable adapts *Freezer to the interface recfreezer wraps.
type c25Resettable struct{ *Freezer }

func (c25Resettable) Reset() error { return errors.New("c25: Reset is not supported") }

// c25DB is an opened database plus its gate.
type c25DB struct {
	ethdb.Database
	kv *c25KV
}

// c25Open opens the database through rawdb.Open with the gate closed; a panic of the
// open path is turned into an error so that the failing image is reported.
func c25Open(inner ethdb.KeyValueStore, ancient string) (d *c25DB, err error) {
	defer func() {
		if r := recover(); r != nil {
			d, err = nil, fmt.Errorf("rawdb.Open panicked: %v", r)
		}
	}()
	kv := c25NewKV(inner)
	db, err := Open(kv, OpenOptions{Ancient: ancient})
	if err != nil {
		return nil, err
	}
	return &c25DB{Database: db, kv: kv}, nil
}

// freeze runs one blocking freeze cycle (plus whatever cycle the background
// goroutine was about to start) and closes the gate again.
func (d *c25DB) freeze() error {
	d.kv.set(c25GateOpen)
	err := d.Database.(interface{ Freeze() error }).Freeze()
	d.kv.set(c25GateClosed)
	return err
}

func (d *c25DB) close() error {
	d.kv.set(c25GatePoison)
	return d.Database.Close()
}

// ---------------------------------------------------------------- chain model

type c25Block struct {
	num      uint64
	hash     common.Hash
	parent   *c25Block
	block    *types.Block
	receipts types.Receipts
	// canonical encodings, as the freezer must hold them
	headerRLP, bodyRLP, receiptsRLP, balRLP []byte
	txs                                     []*types.Transaction
	gone                                    bool // removed from the database (model)
	id                                      int  // creation order
}

type c25Model struct {
	canon    []*c25Block // index = number
	blocks   []*c25Block // every block ever created, creation order
	hasFinal bool
	final    uint64
	frozen   uint64 // expected Ancients()
	txSeq    uint64
	salt     uint64
	views    map[common.Hash]*c25View
}

func (m *c25Model) head() uint64 { return uint64(len(m.canon) - 1) }

func (m *c25Model) isCanon(b *c25Block) bool {
	return b.num < uint64(len(m.canon)) && m.canon[b.num] == b
}

// sides returns the live non-canonical blocks in creation order.
func (m *c25Model) sides() []*c25Block {
	var out []*c25Block
	for _, b := range m.blocks {
		if !b.gone && !m.isCanon(b) {
			out = append(out, b)
		}
	}
	return out
}

// ancestorAt returns the ancestor of b at height n (b itself if b.num == n).
func c25AncestorAt(b *c25Block, n uint64) *c25Block {
	for b != nil && b.num > n {
		b = b.parent
	}
	return b
}

// c25Removal is the set of side blocks a freeze cycle from f0 to f1 (Ancients before
// and after) removes: every non-canonical block at a height in [max(f0,1), f1) and,
// above, every descendant of a non-canonical block at height f1-1.
func c25Removal(m *c25Model, sides []*c25Block, f0, f1 uint64) map[*c25Block]bool {
	out := map[*c25Block]bool{}
	if f1 <= f0 {
		return out
	}
	for _, s := range sides {
		switch {
		case s.num == 0:
		case s.num < f1:
			if s.num >= f0 {
				out[s] = true
			}
		default:
			if a := c25AncestorAt(s, f1-1); a != nil && a.num == f1-1 && a.num != 0 && !m.isCanon(a) {
				out[s] = true
			}
		}
	}
	return out
}

func c25Bytes(x uint64, n int) []byte {
	out := make([]byte, n)
	for i := range out {
		x ^= x << 13
		x ^= x >> 7
		x ^= x << 17
		out[i] = byte(x)
	}
	return out
}

func (m *c25Model) rnd(tag uint64) uint64 {
	m.salt = m.salt*0x9e3779b97f4a7c15 + tag + 0x632be59bd9b4e019
	x := m.salt
	x ^= x >> 31
	x *= 0xbf58476d1ce4e5b9
	x ^= x >> 29
	return x
}

func c25Hash(x uint64) common.Hash { return common.BytesToHash(c25Bytes(x|1, 32)) }

func c25Addr(x uint64) common.Address { return common.BytesToAddress(c25Bytes(x|1, 20)) }

func u64p(v uint64) *uint64 { return &v }

// c25T is what the oracle needs from the test handle (*rapid.T inside a rapid
// property, *testing.T in the deterministic scenario).
type c25T interface {
	Fatalf(format string, args ...any)
}

// c25Src is the source of the generator's choices: rapid draws in the random
// histories, a seeded PRNG for the bulk chain of the big-backlog scenario.
type c25Src interface {
	c25T
	pick(lo, hi int, label string) int
}

type c25RapidSrc struct{ *rapid.T }

func (s c25RapidSrc) pick(lo, hi int, label string) int {
	return rapid.IntRange(lo, hi).Draw(s.T, label)
}

type c25PRNGSrc struct {
	testing.TB
	x uint64
}

func (s *c25PRNGSrc) next() uint64 {
	s.x += 0x9e3779b97f4a7c15
	z := s.x
	z = (z ^ z>>30) * 0xbf58476d1ce4e5b9
	z = (z ^ z>>27) * 0x94d049bb133111eb
	return z ^ z>>31
}

func (s *c25PRNGSrc) pick(lo, hi int, label string) int {
	return lo + int(s.next()%uint64(hi-lo+1))
}

// newTx draws one unsigned transaction with a unique nonce.
func (m *c25Model) newTx(rt c25Src) *types.Transaction {
	m.txSeq++
	to := c25Addr(m.rnd(1))
	var top *common.Address
	if rt.pick(0, 5, "txCreate") != 0 {
		top = &to
	}
	data := c25Bytes(m.rnd(2), rt.pick(0, 40, "txData"))
	switch rt.pick(0, 2, "txType") {
	case 0:
		return types.NewTx(&types.LegacyTx{Nonce: m.txSeq, GasPrice: big.NewInt(int64(1 + m.txSeq%7)), Gas: 21000 + m.txSeq, To: top, Value: big.NewInt(int64(m.txSeq)), Data: data})
	case 1:
		return types.NewTx(&types.AccessListTx{ChainID: big.NewInt(1), Nonce: m.txSeq, GasPrice: big.NewInt(3), Gas: 30000, To: top, Value: big.NewInt(1), Data: data,
			AccessList: types.AccessList{{Address: to, StorageKeys: []common.Hash{c25Hash(m.rnd(3))}}}})
	default:
		return types.NewTx(&types.DynamicFeeTx{ChainID: big.NewInt(1), Nonce: m.txSeq, GasTipCap: big.NewInt(2), GasFeeCap: big.NewInt(1000000007), Gas: 50000, To: top, Value: big.NewInt(0), Data: data})
	}
}

// newBlock draws a block on top of parent. share, if non-nil, is a sibling whose
// transactions may be included as well (the same transaction on two forks).
func (m *c25Model) newBlock(rt c25Src, parent *c25Block, share *c25Block) *c25Block {
	num := uint64(0)
	var parentHash common.Hash
	if parent != nil {
		num, parentHash = parent.num+1, parent.hash
	}
	shape := rt.pick(0, 3, "headerShape")
	h := &types.Header{
		ParentHash: parentHash, UncleHash: types.EmptyUncleHash, Coinbase: c25Addr(m.rnd(4)), Root: c25Hash(m.rnd(5)),
		TxHash: c25Hash(m.rnd(6)), ReceiptHash: c25Hash(m.rnd(7)), Difficulty: big.NewInt(int64(1 + num%3)), Number: new(big.Int).SetUint64(num),
		GasLimit: 30_000_000, GasUsed: 21000 * (num % 5), Time: 1_700_000_000 + 12*num,
		Extra: c25Bytes(m.rnd(8), rt.pick(1, 24, "extra")), MixDigest: c25Hash(m.rnd(9)),
	}
	if shape >= 1 {
		h.BaseFee = big.NewInt(int64(7 + num))
	}
	if shape >= 2 {
		wh, pb := c25Hash(m.rnd(10)), c25Hash(m.rnd(11))
		h.WithdrawalsHash, h.ParentBeaconRoot = &wh, &pb
		h.BlobGasUsed, h.ExcessBlobGas = u64p(0), u64p(131072*(num%4))
	}
	var balRLP []byte
	if shape >= 3 {
		rh := c25Hash(m.rnd(12))
		h.RequestsHash = &rh
		cb := bal.NewConstructionBlockAccessList()
		cb.AccountRead(c25Addr(m.rnd(13)))
		cb.NonceChange(c25Addr(m.rnd(14)), 1, 1+num)
		cb.BalanceChange(1, c25Addr(m.rnd(15)), uint256.NewInt(num+5))
		enc := cb.ToEncodingObj()
		bh := enc.Hash()
		h.BlockAccessListHash = &bh
		var err error
		if balRLP, err = rlp.EncodeToBytes(enc); err != nil {
			rt.Fatalf("VERIF-HARNESS-BUG: BAL encoding: %v", err)
		}
	}
	body := &types.Body{}
	ntx := rt.pick(0, 3, "txs")
	if num == 0 {
		ntx = 0
	}
	for i := 0; i < ntx; i++ {
		if share != nil && len(share.txs) > 0 && rt.pick(0, 2, "txShared") == 0 {
			tx := share.txs[rt.pick(0, len(share.txs)-1, "txSharedIdx")]
			dup := false
			for _, have := range body.Transactions {
				dup = dup || have.Hash() == tx.Hash()
			}
			if !dup {
				body.Transactions = append(body.Transactions, tx)
				continue
			}
		}
		body.Transactions = append(body.Transactions, m.newTx(rt))
	}
	if shape == 0 && num > 1 && rt.pick(0, 3, "uncle") == 0 {
		body.Uncles = []*types.Header{{ParentHash: c25Hash(m.rnd(16)), Difficulty: big.NewInt(2), Number: new(big.Int).SetUint64(num - 1), Extra: []byte{1}}}
	}
	if shape >= 2 {
		body.Withdrawals = types.Withdrawals{}
		if rt.pick(0, 1, "withdrawal") == 1 {
			body.Withdrawals = append(body.Withdrawals, &types.Withdrawal{Index: num, Validator: 3, Address: c25Addr(m.rnd(17)), Amount: 5})
		}
	}
	var receipts types.Receipts
	var cum uint64
	for i := range body.Transactions {
		cum += 21000 + uint64(i)*100
		r := &types.Receipt{Status: uint64(rt.pick(0, 1, "status")), CumulativeGasUsed: cum, Logs: []*types.Log{}}
		for l := rt.pick(0, 2, "logs"); l > 0; l-- {
			lg := &types.Log{Address: c25Addr(m.rnd(18)), Topics: []common.Hash{}, Data: c25Bytes(m.rnd(19), l*3)}
			for tp := 0; tp < l; tp++ {
				lg.Topics = append(lg.Topics, c25Hash(m.rnd(20)))
			}
			r.Logs = append(r.Logs, lg)
		}
		receipts = append(receipts, r)
	}
	b := &c25Block{num: num, parent: parent, receipts: receipts, balRLP: balRLP, txs: body.Transactions, id: len(m.blocks)}
	b.block = types.NewBlockWithHeader(h).WithBody(*body)
	b.hash = b.block.Hash()
	var err error
	if b.headerRLP, err = rlp.EncodeToBytes(h); err != nil {
		rt.Fatalf("VERIF-HARNESS-BUG: header encoding: %v", err)
	}
	if b.bodyRLP, err = rlp.EncodeToBytes(body); err != nil {
		rt.Fatalf("VERIF-HARNESS-BUG: body encoding: %v", err)
	}
	sr := make([]*types.ReceiptForStorage, len(receipts))
	for i, r := range receipts {
		sr[i] = (*types.ReceiptForStorage)(r)
	}
	if b.receiptsRLP, err = rlp.EncodeToBytes(sr); err != nil {
		rt.Fatalf("VERIF-HARNESS-BUG: receipts encoding: %v", err)
	}
	m.blocks = append(m.blocks, b)
	return b
}

// ---------------------------------------------------------------- database writes (what core.BlockChain does)

func c25WriteBlock(w ethdb.KeyValueWriter, b *c25Block) {
	WriteBlock(w, b.block)
	WriteReceipts(w, b.hash, b.num, b.receipts)
	if b.balRLP != nil {
		WriteAccessListRLP(w, b.hash, b.num, b.balRLP)
	}
}

func c25WriteCanon(w ethdb.KeyValueWriter, b *c25Block) {
	WriteCanonicalHash(w, b.hash, b.num)
	WriteTxLookupEntriesByBlock(w, b.block)
}

func c25WriteHead(w ethdb.KeyValueWriter, b *c25Block) {
	WriteHeadHeaderHash(w, b.hash)
	WriteHeadFastBlockHash(w, b.hash)
	WriteHeadBlockHash(w, b.hash)
}

// ---------------------------------------------------------------- accessor views

type c25Field struct {
	name string
	val  []byte
}

type c25View struct {
	canonical bool
	fields    []c25Field
}

func c25Enc(v any) []byte {
	b, err := rlp.EncodeToBytes(v)
	if err != nil {
		return []byte("encode error: " + err.Error())
	}
	return b
}

func c25JSON(v any) []byte {
	b, err := json.Marshal(v)
	if err != nil {
		return []byte("json error: " + err.Error())
	}
	return b
}

func c25Bool(v bool) []byte {
	if v {
		return []byte{1}
	}
	return []byte{0}
}

var c25ChainConfig = params.MergedTestChainConfig

// c25ReadView calls the chain accessors for (hash, num). The by-number and
// transaction-lookup accessors are included for canonical blocks only.
func c25ReadView(db ethdb.Database, hash common.Hash, num uint64, txs []*types.Transaction, canonical bool) *c25View {
	v := &c25View{canonical: canonical}
	add := func(name string, val []byte) { v.fields = append(v.fields, c25Field{name, val}) }
	add("ReadHeaderRLP", ReadHeaderRLP(db, hash, num))
	if h := ReadHeader(db, hash, num); h != nil {
		add("ReadHeader", append(h.Hash().Bytes(), c25Enc(h)...))
	} else {
		add("ReadHeader", nil)
	}
	add("HasHeader", c25Bool(HasHeader(db, hash, num)))
	add("HasBody", c25Bool(HasBody(db, hash, num)))
	add("HasReceipts", c25Bool(HasReceipts(db, hash, num)))
	add("ReadBodyRLP", ReadBodyRLP(db, hash, num))
	if b := ReadBody(db, hash, num); b != nil {
		add("ReadBody", c25Enc(b))
	} else {
		add("ReadBody", nil)
	}
	add("ReadReceiptsRLP", ReadReceiptsRLP(db, hash, num))
	if rs := ReadRawReceipts(db, hash, num); rs != nil {
		add("ReadRawReceipts", c25JSON(rs))
	} else {
		add("ReadRawReceipts", nil)
	}
	var time uint64
	if h := ReadHeader(db, hash, num); h != nil {
		time = h.Time
	}
	if rs := ReadReceipts(db, hash, num, time, c25ChainConfig); rs != nil {
		add("ReadReceipts", c25JSON(rs))
	} else {
		add("ReadReceipts", nil)
	}
	if lg := ReadLogs(db, hash, num); lg != nil {
		add("ReadLogs", c25JSON(lg))
	} else {
		add("ReadLogs", nil)
	}
	if n, ok := ReadHeaderNumber(db, hash); ok {
		add("ReadHeaderNumber", binary.BigEndian.AppendUint64(nil, n))
	} else {
		add("ReadHeaderNumber", nil)
	}
	if b := ReadBlock(db, hash, num); b != nil {
		add("ReadBlock", append(b.Hash().Bytes(), c25Enc(b)...))
	} else {
		add("ReadBlock", nil)
	}
	add("ReadAccessListRLP", ReadAccessListRLP(db, hash, num))
	if !canonical {
		return v
	}
	add("ReadCanonicalHash", ReadCanonicalHash(db, num).Bytes())
	add("ReadCanonicalBodyRLP(nil)", ReadCanonicalBodyRLP(db, num, nil))
	add("ReadCanonicalBodyRLP(hash)", ReadCanonicalBodyRLP(db, num, &hash))
	add("ReadCanonicalReceiptsRLP(nil)", ReadCanonicalReceiptsRLP(db, num, nil))
	add("ReadCanonicalReceiptsRLP(hash)", ReadCanonicalReceiptsRLP(db, num, &hash))
	for i, tx := range txs {
		pfx := fmt.Sprintf("tx%d:", i)
		if n := ReadTxLookupEntry(db, tx.Hash()); n != nil {
			add(pfx+"ReadTxLookupEntry", binary.BigEndian.AppendUint64(nil, *n))
		} else {
			add(pfx+"ReadTxLookupEntry", nil)
		}
		if t, bh, bn, idx := ReadCanonicalTransaction(db, tx.Hash()); t != nil {
			add(pfx+"ReadCanonicalTransaction", []byte(fmt.Sprintf("%x %x %d %d %x", t.Hash(), bh, bn, idx, c25Enc(t))))
		} else {
			add(pfx+"ReadCanonicalTransaction", nil)
		}
		if r, bh, bn, idx := ReadCanonicalReceipt(db, tx.Hash(), c25ChainConfig); r != nil {
			add(pfx+"ReadCanonicalReceipt", []byte(fmt.Sprintf("%x %d %d %s", bh, bn, idx, c25JSON(r))))
		} else {
			add(pfx+"ReadCanonicalReceipt", nil)
		}
		if r, ctx, err := ReadCanonicalRawReceipt(db, hash, num, uint64(i)); err == nil {
			add(pfx+"ReadCanonicalRawReceipt", []byte(fmt.Sprintf("%d %d %s", ctx.GasUsed, ctx.LogIndex, c25JSON(r))))
		} else {
			add(pfx+"ReadCanonicalRawReceipt", []byte("error"))
		}
	}
	return v
}

// c25CheckRanges compares ReadHeaderRange (canonical headers by number, descending)
// with the canonical header encodings for the whole chain and for short ranges
// around the frozen boundary. (One call allocates a 2 MB buffer, hence only a few.)
func c25CheckRanges(rt c25T, db ethdb.Database, m *c25Model, boundary uint64, ctx string) {
	type rng struct{ from, count uint64 }
	head := m.head()
	rs := []rng{{head, head + 1}}
	if from := min(boundary+1, head); from != 0 {
		rs = append(rs, rng{from, 3})
	}
	for _, r := range rs {
		got := ReadHeaderRange(db, r.from, r.count)
		want := min(r.count, r.from+1)
		if uint64(len(got)) != want {
			rt.Fatalf("%s: ReadHeaderRange(%d,%d) returned %d headers, want %d (frozen boundary %d)", ctx, r.from, r.count, len(got), want, boundary)
		}
		for i := range got {
			if b := m.canon[r.from-uint64(i)]; !bytes.Equal(got[i], b.headerRLP) {
				rt.Fatalf("%s: ReadHeaderRange(%d,%d)[%d] = %s, canonical header #%d is %s", ctx, r.from, r.count, i, c25Trunc(got[i]), b.num, c25Trunc(b.headerRLP))
			}
		}
	}
}

func c25Trunc(b []byte) string {
	if len(b) > 48 {
		return fmt.Sprintf("%x...(%d bytes)", b[:48], len(b))
	}
	return fmt.Sprintf("%x", b)
}

// diff returns a description of the first differing accessor, "" if equal.
func (v *c25View) diff(o *c25View) string {
	if len(v.fields) != len(o.fields) {
		return fmt.Sprintf("%d accessor results vs %d", len(v.fields), len(o.fields))
	}
	for i := range v.fields {
		if v.fields[i].name != o.fields[i].name {
			return fmt.Sprintf("accessor %s vs %s", v.fields[i].name, o.fields[i].name)
		}
		if !bytes.Equal(v.fields[i].val, o.fields[i].val) {
			return fmt.Sprintf("%s returned %s, before freezing %s", v.fields[i].name, c25Trunc(v.fields[i].val), c25Trunc(o.fields[i].val))
		}
	}
	return ""
}

// ---------------------------------------------------------------- the run

type c25Run struct {
	rt   *rapid.T
	root string
	log  *crashkv.Log
	db   *c25DB
	rec  *recfreezer.Recorder
	m    *c25Model
	desc []string // history description

	st *vs.S

	crossing bool // some cycle's boundary cut through a side branch
	stats    c25Stats
}

type c25Stats struct {
	cycles, worked, idle, images, excludedCleanup, excludedEmpty int
	reorgs, sideBlocks, removedBelow, removedDangling, kept      int
}

func c25Fake(h common.Hash) common.Hash {
	h[0] ^= 0xa5
	h[31] ^= 0x5a
	return h
}

// refreshViews records the accessor results of all canonical and live side blocks.
// A block whose role did not change must read exactly as it did before.
func (r *c25Run) refreshViews(where string) {
	m := r.m
	c25CheckRanges(r.rt, r.db, m, m.frozen, where)
	for _, b := range m.blocks {
		if b.gone {
			continue
		}
		canonical := m.isCanon(b)
		v := c25ReadView(r.db, b.hash, b.num, b.txs, canonical)
		if old, ok := m.views[b.hash]; ok && old.canonical == canonical {
			if d := v.diff(old); d != "" {
				r.rt.Fatalf("%s: block #%d %x (canonical=%v): %s [history %v]", where, b.num, b.hash[:4], canonical, d, r.desc)
			}
			continue
		}
		// self-check of the baseline against the model
		if !bytes.Equal(v.fields[0].val, b.headerRLP) {
			r.rt.Fatalf("VERIF-HARNESS-BUG: %s: fresh block #%d does not read back its header", where, b.num)
		}
		m.views[b.hash] = v
	}
}

// checkCanonical compares every canonical block with its recorded view.
func c25CheckCanonical(rt c25T, db ethdb.Database, m *c25Model, ctx string) {
	if fz, err := db.Ancients(); err == nil {
		c25CheckRanges(rt, db, m, fz, ctx)
	}
	c25CheckBlocks(rt, db, m, ctx)
}

func c25CheckBlocks(rt c25T, db ethdb.Database, m *c25Model, ctx string) {
	for _, b := range m.canon {
		v := c25ReadView(db, b.hash, b.num, b.txs, true)
		if d := v.diff(m.views[b.hash]); d != "" {
			rt.Fatalf("%s: canonical block #%d %x: %s", ctx, b.num, b.hash[:4], d)
		}
	}
}

// c25SidePresent reads a side block: 1 present and equal to its recorded view,
// 0 absent (reads like an unknown hash at that height); anything else fails.
func c25SidePresent(rt c25T, db ethdb.Database, m *c25Model, s *c25Block, ctx string) bool {
	v := c25ReadView(db, s.hash, s.num, nil, false)
	if v.diff(m.views[s.hash]) == "" {
		return true
	}
	absent := c25ReadView(db, c25Fake(s.hash), s.num, nil, false)
	if d := v.diff(absent); d != "" {
		rt.Fatalf("%s: side block #%d %x is neither intact (%s) nor absent (%s)", ctx, s.num, s.hash[:4], v.diff(m.views[s.hash]), d)
	}
	return false
}

// c25CheckFreezer compares the freezer tables with the canonical encodings.
func c25CheckFreezer(rt c25T, db ethdb.Database, m *c25Model, want uint64, ctx string) {
	got, err := db.Ancients()
	if err != nil {
		rt.Fatalf("%s: Ancients: %v", ctx, err)
	}
	if got != want {
		rt.Fatalf("%s: Ancients()=%d, want %d (finalized #%d, head #%d)", ctx, got, want, m.final, m.head())
	}
	for n := uint64(0); n < got; n++ {
		b := m.canon[n]
		for _, tc := range []struct {
			kind string
			want []byte
		}{
			{ChainFreezerHashTable, b.hash.Bytes()}, {ChainFreezerHeaderTable, b.headerRLP}, {ChainFreezerBodiesTable, b.bodyRLP},
			{ChainFreezerReceiptTable, b.receiptsRLP}, {ChainFreezerBALTable, b.balRLP},
		} {
			data, err := db.Ancient(tc.kind, n)
			if err != nil {
				rt.Fatalf("%s: Ancient(%s,%d): %v", ctx, tc.kind, n, err)
			}
			if !bytes.Equal(data, tc.want) {
				rt.Fatalf("%s: freezer table %s item %d = %s, canonical block %x has %s", ctx, tc.kind, n, c25Trunc(data), b.hash[:4], c25Trunc(tc.want))
			}
		}
	}
	// the genesis block stays in the key-value store
	if hs := ReadAllHashes(db, 0); len(hs) != 1 || hs[0] != m.canon[0].hash {
		rt.Fatalf("%s: genesis header is not in the key-value store any more (%x)", ctx, hs)
	}
}

// ---------------------------------------------------------------- history generation

func (r *c25Run) note(format string, a ...any) { r.desc = append(r.desc, fmt.Sprintf(format, a...)) }

func (r *c25Run) extend(n int) {
	m := r.m
	batch := r.db.NewBatch()
	for i := 0; i < n; i++ {
		var parent *c25Block
		if len(m.canon) > 0 {
			parent = m.canon[len(m.canon)-1]
		}
		b := m.newBlock(c25RapidSrc{r.rt}, parent, nil)
		m.canon = append(m.canon, b)
		c25WriteBlock(batch, b)
		c25WriteCanon(batch, b)
		c25WriteHead(batch, b)
		if i%4 == 3 {
			c25Must(r.rt, batch.Write())
			batch.Reset()
		}
	}
	c25Must(r.rt, batch.Write())
	if n > 0 {
		r.note("extend(%d)->head #%d", n, m.head())
	}
}

func c25Must(rt c25T, err error) {
	if err != nil {
		rt.Fatalf("VERIF-HARNESS-BUG: database write failed: %v", err)
	}
}

// lowFork is the lowest height a new fork may branch off at: the last frozen block
// (nothing is imported below the frozen boundary) and never below the finalized block.
func (m *c25Model) lowFork() uint64 {
	lo := uint64(0)
	if m.frozen > 0 {
		lo = m.frozen - 1
	}
	if m.hasFinal && m.final > lo {
		lo = m.final
	}
	return lo
}

func (r *c25Run) addSide() {
	m, rt := r.m, r.rt
	var parent *c25Block
	sides := m.sides()
	if len(sides) > 0 && rapid.IntRange(0, 9).Draw(rt, "sideOnSide") < 3 {
		parent = sides[rapid.IntRange(0, len(sides)-1).Draw(rt, "sideParent")]
	} else {
		lo := m.lowFork()
		parent = m.canon[rapid.Uint64Range(lo, m.head()).Draw(rt, "forkAt")]
	}
	length := rapid.IntRange(1, 5).Draw(rt, "sideLen")
	batch := r.db.NewBatch()
	made := 0
	for i := 0; i < length && parent.num+1 <= m.head()+2; i++ {
		var share *c25Block
		if parent.num+1 <= m.head() {
			share = m.canon[parent.num+1]
		}
		b := m.newBlock(c25RapidSrc{rt}, parent, share)
		c25WriteBlock(batch, b)
		parent = b
		made++
	}
	c25Must(rt, batch.Write())
	if made > 0 {
		r.stats.sideBlocks += made
		r.note("side(%d blocks up to #%d)", made, parent.num)
	}
}

// reorg makes a live side block the new head, as core.BlockChain.reorg does.
func (r *c25Run) reorg() bool {
	m, rt := r.m, r.rt
	lo := m.lowFork()
	var cands []*c25Block
	for _, s := range m.sides() {
		a := s
		for !m.isCanon(a) {
			a = a.parent
		}
		if a.num >= lo {
			cands = append(cands, s)
		}
	}
	if len(cands) == 0 {
		return false
	}
	tip := cands[rapid.IntRange(0, len(cands)-1).Draw(rt, "reorgTo")]
	var path []*c25Block
	a := tip
	for ; !m.isCanon(a); a = a.parent {
		path = append(path, a)
	}
	oldHead := m.head()
	batch := r.db.NewBatch()
	for n := a.num + 1; n <= oldHead; n++ {
		for _, tx := range m.canon[n].txs {
			DeleteTxLookupEntry(batch, tx.Hash())
		}
		if n > tip.num {
			DeleteCanonicalHash(batch, n)
		}
	}
	m.canon = m.canon[:a.num+1]
	for i := len(path) - 1; i >= 0; i-- {
		m.canon = append(m.canon, path[i])
		c25WriteCanon(batch, path[i])
	}
	c25WriteHead(batch, tip)
	c25Must(rt, batch.Write())
	r.stats.reorgs++
	r.note("reorg(fork #%d, old head #%d, new head #%d)", a.num, oldHead, tip.num)
	return true
}

func (r *c25Run) setFinal(f uint64) {
	r.m.hasFinal, r.m.final = true, f
	WriteFinalizedBlockHash(r.db, r.m.canon[f].hash)
	r.note("finalized #%d", f)
}

// drawFinal draws the next finalized height in [current, head], biased towards
// boundaries next to side blocks.
func (r *c25Run) drawFinal() uint64 {
	m, rt := r.m, r.rt
	lo := uint64(1)
	if m.hasFinal {
		lo = m.final
	}
	hi := m.head()
	if lo > hi {
		lo = hi
	}
	clamp := func(v uint64) uint64 { return min(max(v, lo), hi) }
	switch k := rapid.IntRange(0, 9).Draw(rt, "finalKind"); {
	case k == 0:
		return lo
	case k == 1:
		return hi
	case k <= 5:
		if sides := m.sides(); len(sides) > 0 {
			s := sides[rapid.IntRange(0, len(sides)-1).Draw(rt, "finalNear")]
			return clamp(s.num - uint64(rapid.IntRange(0, 1).Draw(rt, "finalOff")))
		}
	}
	return rapid.Uint64Range(lo, hi).Draw(rt, "final")
}

// ---------------------------------------------------------------- one freeze cycle on the live database

type c25Cycle struct {
	w0, w1     int // log window (w0 = index of the cycle mark)
	f0, f1     uint64
	worked     bool
	modIdx     int   // log index of the ModifyAncients mark, -1 if none
	syncIdx    int   // log index of the SyncAncient mark, -1 if none
	batches    []int // log indices of the key-value batches of the cycle
	sidesPre   []*c25Block
	removed    map[*c25Block]bool
	crossing   bool
	danglingCt int
}

func (r *c25Run) cycle(idx int) *c25Cycle {
	m, rt := r.m, r.rt
	r.refreshViews(fmt.Sprintf("before cycle %d", idx))
	c25Must(rt, r.db.SyncKeyValue())
	cy := &c25Cycle{modIdx: -1, syncIdx: -1, f0: m.frozen, sidesPre: m.sides()}
	cy.w0 = r.log.Mark(fmt.Sprintf("cycle %d", idx))
	if err := r.db.freeze(); err != nil {
		rt.Fatalf("Freeze failed: %v", err)
	}
	if err := r.rec.Err(); err != nil {
		rt.Fatalf("VERIF-HARNESS-BUG: %v", err)
	}
	cy.w1 = r.log.Len()
	evs := r.log.Events()
	for i := cy.w0 + 1; i < cy.w1; i++ {
		switch e := evs[i]; {
		case e.Kind == crashkv.Mark && e.Label == "fz:chain:modify":
			cy.modIdx = i
		case e.Kind == crashkv.Mark && e.Label == "fz:chain:sync":
			cy.syncIdx = i
		case e.Kind == crashkv.Mark:
		case e.Kind == crashkv.Sync:
		default:
			cy.batches = append(cy.batches, i)
		}
	}
	// expectation
	cy.f1 = cy.f0
	if m.hasFinal && (cy.f0 == 0 || cy.f0-1 < m.final) {
		cy.f1 = m.final + 1
		cy.worked = true
	}
	m.frozen = cy.f1
	cy.removed = c25Removal(m, cy.sidesPre, cy.f0, cy.f1)
	ctx := fmt.Sprintf("after freeze cycle %d (Ancients %d->%d) [history %v]", idx, cy.f0, cy.f1, r.desc)
	if !cy.worked && (cy.modIdx >= 0 || len(cy.batches) > 0) {
		rt.Fatalf("%s: nothing to freeze, but the cycle wrote to the database", ctx)
	}
	c25CheckFreezer(rt, r.db, m, cy.f1, ctx)
	c25CheckCanonical(rt, r.db, m, ctx)
	for _, s := range cy.sidesPre {
		present := c25SidePresent(rt, r.db, m, s, ctx)
		switch {
		case cy.removed[s] && present:
			what := "below the frozen boundary"
			if s.num >= cy.f1 {
				what = "dangling above the frozen boundary (its ancestor at #" + fmt.Sprint(cy.f1-1) + " is a removed side block)"
			}
			rt.Fatalf("%s: side block #%d %x %s is still in the database", ctx, s.num, s.hash[:4], what)
		case !cy.removed[s] && !present:
			rt.Fatalf("%s: side block #%d %x descends from the canonical chain at or above the boundary but was removed", ctx, s.num, s.hash[:4])
		}
		if cy.removed[s] {
			if s.num < cy.f1 {
				r.stats.removedBelow++
			} else {
				r.stats.removedDangling++
				cy.danglingCt++
			}
		} else {
			r.stats.kept++
		}
	}
	for n := uint64(1); n < cy.f1; n++ {
		for _, h := range ReadAllHashes(r.db, n) {
			if h != m.canon[n].hash {
				rt.Fatalf("%s: ReadAllHashes(%d) still lists the non-canonical block %x", ctx, n, h[:4])
			}
		}
	}
	// observation only (block access lists are not among the accessors of the statement)
	for n := uint64(1); n < cy.f1 && !c25NotedHasBAL; n++ {
		if b := m.canon[n]; b.balRLP != nil && !HasAccessList(r.db, b.hash, b.num) && len(ReadAccessListRLP(r.db, b.hash, b.num)) > 0 {
			c25NotedHasBAL = true
			r.st.Note("observation (not asserted): HasAccessList returns false for a frozen canonical block whose access list ReadAccessListRLP still returns (HasAccessList only looks at the key-value store)")
		}
	}
	// boundary crossing: a side branch with blocks on both sides of the new boundary
	for _, s := range cy.sidesPre {
		if cy.worked && s.num >= cy.f1 && s.parent != nil && !m.isCanon(s.parent) && s.parent.num < cy.f1 {
			cy.crossing = true
		}
	}
	r.crossing = r.crossing || cy.crossing
	r.stats.cycles++
	if cy.worked {
		r.stats.worked++
	} else {
		r.stats.idle++
	}
	return cy
}

// settle applies the removal of a cycle to the model (after its crash images were checked).
func (r *c25Run) settle(cy *c25Cycle) {
	for s := range cy.removed {
		s.gone = true
		delete(r.m.views, s.hash)
	}
}

// ---------------------------------------------------------------- crash images

type c25Image struct {
	kind     string // "modify" (after ModifyAncients, unsynced), "insync" (inside SyncAncient), "synced"
	desc     string
	files    *crashfs.Snapshot
	kvPrefix int
	kvStage  int // key-value batches of the cycle contained in the prefix
	strict   bool
}

func c25TableOf(name string) string {
	base := name[strings.LastIndex(name, "/")+1:]
	if i := strings.Index(base, "."); i >= 0 {
		return base[:i]
	}
	return base
}

// c25ItemsAfterIndexRepair predicts from the image alone how many items each chain
// freezer table holds once its index is cut back to the flushOffset.
func c25ItemsAfterIndexRepair(img *crashfs.Snapshot) map[string]uint64 {
	out := map[string]uint64{}
	for name := range chainFreezerTableConfigs {
		out[name] = 0
		meta, ok := img.Files["chain/"+name+".meta"]
		if !ok {
			continue
		}
		idx, ok := img.Files["chain/"+name+".cidx"]
		if !ok {
			idx = img.Files["chain/"+name+".ridx"]
		}
		mv, err := recfreezer.ParseMeta(meta)
		if err != nil || len(idx) < 6 {
			continue
		}
		n := uint64(len(idx)) / 6 * 6
		if mv.Offset < n {
			n = mv.Offset / 6 * 6
		}
		if n < 6 {
			continue
		}
		out[name] = uint64(binary.BigEndian.Uint32(idx[2:6])) + n/6 - 1
	}
	return out
}

// c25EmptyBesideNonEmpty is the trigger of the Freezer.repair finding: after index
// repair some table is empty while another one holds items.
func c25EmptyBesideNonEmpty(img *crashfs.Snapshot) bool {
	var empty, nonEmpty bool
	for _, n := range c25ItemsAfterIndexRepair(img) {
		if n == 0 {
			empty = true
		} else {
			nonEmpty = true
		}
	}
	return empty && nonEmpty
}

func (r *c25Run) render(p *recfreezer.Point, mode int) (*crashfs.Snapshot, crashfs.Cuts) {
	var cuts crashfs.Cuts
	func() {
		defer func() {
			if e := recover(); e != nil {
				r.rt.Fatalf("%v", e)
			}
		}()
		cuts = p.Cuts(r.rt, mode)
	}()
	img, err := p.State.Render(cuts)
	if err != nil {
		r.rt.Fatalf("VERIF-HARNESS-BUG: render: %v", err)
	}
	return img, cuts
}

// images enumerates the crash images of one cycle.
func (r *c25Run) images(cy *c25Cycle) []c25Image {
	rt := r.rt
	var out []c25Image
	seen := map[string]bool{}
	add := func(im c25Image) {
		key := fmt.Sprintf("%x/%d", im.files.Digest(), im.kvStage)
		if seen[key] {
			return
		}
		seen[key] = true
		out = append(out, im)
	}
	stage := func(prefix int) int {
		n := 0
		for _, b := range cy.batches {
			if b < prefix {
				n++
			}
		}
		return n
	}
	modes := []int{0, 1, 3}
	if vs.Thorough() {
		modes = []int{0, 1, 2, 3, 3}
	}
	// every event of the cycle is a crash point: the key-value store holds Events[:i],
	// the freezer directory is as observed at the last freezer operation before i
	evs := r.log.Events()
	for i := cy.w0 + 1; i <= cy.w1; i++ {
		if i > cy.w0+1 && evs[i-1].Kind == crashkv.Mark && !strings.HasPrefix(evs[i-1].Label, "fz:") {
			continue
		}
		p := r.rec.PointAt(i)
		if p == nil {
			rt.Fatalf("VERIF-HARNESS-BUG: no freezer observation before log index %d", i)
		}
		if !p.Unsynced() {
			img, _ := r.render(p, 0)
			kind := "synced"
			if cy.syncIdx < 0 || i <= cy.syncIdx {
				kind = "before"
				if !vs.Thorough() {
					continue // nothing of the cycle happened yet: thorough tier only
				}
			}
			add(c25Image{kind: kind, desc: fmt.Sprintf("crash after event %d/%d (%s), freezer durable", i-cy.w0, cy.w1-cy.w0, evs[i-1].Kind), files: img, kvPrefix: i, kvStage: stage(i)})
			continue
		}
		for _, mode := range modes {
			img, cuts := r.render(p, mode)
			add(c25Image{kind: "modify", desc: fmt.Sprintf("crash after event %d/%d (%s), freezer unsynced, image mode %d cuts %s", i-cy.w0, cy.w1-cy.w0, evs[i-1].Kind, mode, p.CutsString(cuts)),
				files: img, kvPrefix: i, kvStage: stage(i), strict: p.State.StrictCut(cuts)})
		}
	}
	// inside SyncAncient: tables are synced one after the other (map order)
	if cy.modIdx >= 0 && cy.syncIdx > cy.modIdx {
		pm, ps := r.rec.PointAt(cy.modIdx+1), r.rec.PointAt(cy.syncIdx+1)
		if pm != nil && ps != nil && pm.Unsynced() && !ps.Unsynced() {
			names := make([]string, 0, len(chainFreezerTableConfigs))
			for n := range chainFreezerTableConfigs {
				names = append(names, n)
			}
			sort.Strings(names)
			k := 2
			if vs.Thorough() {
				k = 4
			}
			for j := 0; j < k; j++ {
				mask := rapid.IntRange(1, 1<<len(names)-2).Draw(rt, "syncedTables")
				mode := rapid.SampledFrom([]int{0, 1, 3}).Draw(rt, "unsyncedMode")
				base, cuts := r.render(pm, mode)
				full, _ := r.render(ps, 0)
				merged := &crashfs.Snapshot{Files: map[string][]byte{}}
				var synced []string
				for fn, data := range base.Files {
					merged.Files[fn] = data
				}
				for ti, tn := range names {
					if mask&(1<<ti) == 0 {
						continue
					}
					synced = append(synced, tn)
					for fn := range merged.Files {
						if c25TableOf(fn) == tn {
							delete(merged.Files, fn)
						}
					}
					for fn, data := range full.Files {
						if c25TableOf(fn) == tn {
							merged.Files[fn] = data
						}
					}
				}
				add(c25Image{kind: "insync", desc: fmt.Sprintf("crash inside SyncAncient: tables %v synced, the others unsynced (image mode %d cuts %s)", synced, mode, pm.CutsString(cuts)),
					files: merged, kvPrefix: cy.syncIdx, kvStage: stage(cy.syncIdx), strict: pm.State.StrictCut(cuts)})
			}
		}
	}
	return out
}

// checkImage reopens one crash image and evaluates the recovery oracle.
func (r *c25Run) checkImage(c *vs.Case, st *vs.S, cy *c25Cycle, im *c25Image, cycleIdx int) {
	rt, m := r.rt, r.m
	if c25EmptyBesideNonEmpty(im.files) {
		c.Class("image:" + c25KnownEmptyTable)
		if vs.Known(c25Test, c25KnownEmptyTable) {
			st.Excluded()
			r.stats.excludedEmpty++
			return
		}
	}
	c.Fault()
	r.stats.images++
	dir, err := os.MkdirTemp(c25TempRoot, "c25img")
	if err != nil {
		rt.Fatalf("VERIF-HARNESS-BUG: mkdir: %v", err)
	}
	defer os.RemoveAll(dir)
	if err := im.files.WriteTo(dir); err != nil {
		rt.Fatalf("VERIF-HARNESS-BUG: image: %v", err)
	}
	ctx := fmt.Sprintf("crash image of cycle %d (Ancients %d->%d, finalized #%d, head #%d; %s; key-value store holds %d of %d cleanup batches) [history %v]",
		cycleIdx, cy.f0, cy.f1, m.final, m.head(), im.desc, im.kvStage, len(cy.batches), r.desc)
	db, err := c25Open(r.log.Materialize(im.kvPrefix), dir)
	if err != nil {
		rt.Fatalf("%s: reopen failed: %v", ctx, err)
	}
	closed := false
	defer func() {
		if !closed {
			db.close()
		}
	}()
	// 1. as found: every canonical block reads as before, side blocks are intact or gone
	fz0, err := db.Ancients()
	if err != nil {
		rt.Fatalf("%s: Ancients: %v", ctx, err)
	}
	if fz0 < cy.f0 || fz0 > cy.f1 {
		rt.Fatalf("%s: reopened freezer holds %d items, outside [%d,%d]", ctx, fz0, cy.f0, cy.f1)
	}
	c25CheckCanonical(rt, db, m, ctx+" as reopened")
	for _, s := range cy.sidesPre {
		c25SidePresent(rt, db, m, s, ctx+" as reopened")
	}
	// 2. recovery: the next freeze cycle
	if err := db.freeze(); err != nil {
		rt.Fatalf("%s: Freeze after reopen failed: %v", ctx, err)
	}
	c25CheckFreezer(rt, db, m, cy.f1, ctx+" after the recovery cycle")
	c25CheckCanonical(rt, db, m, ctx+" after the recovery cycle")
	// a stop after the freezer sync leaves the freezer complete: the recovery cycle has
	// nothing to freeze; cleanup that was not written yet is what the finding is about
	resumable := fz0 == cy.f1 && cy.worked && im.kvStage < len(cy.batches)
	leftover := map[*c25Block]bool{}
	for _, s := range cy.sidesPre {
		present := c25SidePresent(rt, db, m, s, ctx+" after the recovery cycle")
		switch {
		case !cy.removed[s] && !present:
			rt.Fatalf("%s after the recovery cycle: side block #%d %x descends from the canonical chain at or above the boundary but was removed", ctx, s.num, s.hash[:4])
		case cy.removed[s] && present:
			leftover[s] = true
			if !(resumable && vs.Known(c25Test, c25KnownCleanup)) {
				rt.Fatalf("%s after the recovery cycle: side block #%d %x (boundary %d) is still in the database although the uninterrupted cycle removes it [class %s]",
					ctx, s.num, s.hash[:4], cy.f1, c25KnownCleanup)
			}
		}
	}
	if len(leftover) > 0 {
		c.Class("recovered:" + c25KnownCleanup)
		st.Excluded()
		r.stats.excludedCleanup++
	}
	if fz0 == cy.f1 && cy.worked && im.kvStage == 0 {
		c.Class("recovered:canonical-copies-left-in-kv")
	}
	// 3. a further cycle with finality at the head
	head := m.head()
	WriteFinalizedBlockHash(db, m.canon[head].hash)
	if err := db.freeze(); err != nil {
		rt.Fatalf("%s: second Freeze after reopen failed: %v", ctx, err)
	}
	ctx2 := ctx + " after a further cycle finalizing the head"
	c25CheckFreezer(rt, db, m, head+1, ctx2)
	c25CheckBlocks(rt, db, m, ctx2)
	var stay []*c25Block
	for _, s := range cy.sidesPre {
		if !cy.removed[s] {
			stay = append(stay, s)
		}
	}
	removed2 := c25Removal(m, stay, cy.f1, head+1)
	for _, s := range cy.sidesPre {
		present := c25SidePresent(rt, db, m, s, ctx2)
		switch {
		case cy.removed[s]:
			// what the interrupted cycle left behind below its boundary stays for good; its
			// dangling descendants go away as soon as a later cycle has something to freeze
			if present && !(leftover[s] && (s.num < cy.f1 || head+1 <= cy.f1)) {
				rt.Fatalf("%s: side block #%d %x is still in the database", ctx2, s.num, s.hash[:4])
			}
		case removed2[s] && present:
			rt.Fatalf("%s: side block #%d %x is still in the database", ctx2, s.num, s.hash[:4])
		case !removed2[s] && !present:
			rt.Fatalf("%s: side block #%d %x descends from the canonical head but was removed", ctx2, s.num, s.hash[:4])
		}
	}
	closed = true
	if err := db.close(); err != nil {
		rt.Fatalf("%s: close failed: %v", ctx, err)
	}
	between := im.kind == "synced" && im.kvStage < len(cy.batches)
	nt := between || cy.crossing
	c.NonTrivial(nt, fmt.Sprintf("%x|%d|%x|%d", r.m.canon[m.head()].hash, cycleIdx, im.files.Digest(), im.kvStage))
	c.Class("image:" + im.kind)
	c.Classf("image:kv-batches-%d", im.kvStage)
	if between {
		c.Class("image:between-sync-and-last-deletion")
	}
	if im.strict {
		c.Class("image:strict-cut")
	}
	if fz0 < cy.f1 && cy.worked {
		c.Class("recovered:refrozen")
	}
	c.Sample(nt, func() any {
		return map[string]any{"history": r.desc, "cycle": cycleIdx, "ancients": []uint64{cy.f0, cy.f1}, "image": im.desc, "kv_batches": im.kvStage,
			"reopened_ancients": fz0, "leftover_side_blocks": len(leftover)}
	})
}

// ---------------------------------------------------------------- the property

func c25Property(rt *rapid.T, st *vs.S) {
	root, err := os.MkdirTemp(c25TempRoot, "c25")
	if err != nil {
		rt.Fatalf("VERIF-HARNESS-BUG: mkdir: %v", err)
	}
	defer os.RemoveAll(root)
	r := &c25Run{rt: rt, st: st, root: root, log: crashkv.NewLog(), m: &c25Model{views: map[common.Hash]*c25View{}, salt: rapid.Uint64().Draw(rt, "salt")}}
	kv := crashkv.Wrap(memorydb.New(), r.log)
	r.db, err = c25Open(kv, root)
	if err != nil {
		rt.Fatalf("opening an empty database failed: %v", err)
	}
	closed := false
	defer func() {
		if !closed {
			r.db.close()
		}
	}()
	// record the freezer operations of the chain freezer (the background goroutine is
	// parked at the gate and has not touched the field yet)
	r.rec = recfreezer.NewRecorder(r.log, root)
	r.rec.Barrier("open", "")
	fdb := r.db.Database.(*freezerdb)
	fz, ok := fdb.chainFreezer.ancients.(*Freezer)
	if !ok {
		rt.Fatalf("VERIF-HARNESS-BUG: chain freezer is not file backed")
	}
	fdb.chainFreezer.ancients = r.rec.Wrap(c25Resettable{fz}, "chain")

	c := st.Case()
	maxLen, maxCycles := 30, 3
	if vs.Thorough() {
		maxLen, maxCycles = 110, 4
	}
	ncycles := rapid.IntRange(1, maxCycles).Draw(rt, "cycles")
	for ci := 0; ci < ncycles; ci++ {
		if ci == 0 {
			r.extend(1 + rapid.IntRange(4, maxLen).Draw(rt, "length"))
			for i := rapid.IntRange(1, 4).Draw(rt, "sides"); i > 0; i-- {
				r.addSide()
			}
		} else {
			if rapid.IntRange(0, 9).Draw(rt, "doReorg") < 4 {
				r.reorg()
			}
			r.extend(rapid.IntRange(0, 10).Draw(rt, "grow"))
			for i := rapid.IntRange(0, 3).Draw(rt, "sides"); i > 0; i-- {
				r.addSide()
			}
		}
		if ci > 0 || rapid.IntRange(0, 19).Draw(rt, "noFinality") != 0 {
			r.setFinal(r.drawFinal())
		} else {
			r.note("no finalized block")
		}
		cy := r.cycle(ci)
		switch {
		case !cy.worked:
			c.Class("cycle:nothing-to-freeze")
		case cy.f1 == r.m.head()+1:
			c.Class("cycle:freeze-up-to-head")
		default:
			c.Class("cycle:freeze")
		}
		if cy.crossing {
			c.Class("cycle:side-branch-crosses-boundary")
		}
		if cy.danglingCt > 0 {
			c.Class("cycle:dangling-descendants-removed")
		}
		if cy.worked {
			ims := r.images(cy)
			for i := range ims {
				r.checkImage(c, st, cy, &ims[i], ci)
			}
		}
		r.settle(cy)
	}
	// clean close and reopen of the final state
	closed = true
	if err := r.db.close(); err != nil {
		rt.Fatalf("close failed: %v [history %v]", err, r.desc)
	}
	final, err := crashfs.Snap(root)
	if err != nil {
		rt.Fatalf("VERIF-HARNESS-BUG: snapshot: %v", err)
	}
	delete(final.Files, "chain/FLOCK")
	dir, err := os.MkdirTemp(c25TempRoot, "c25final")
	if err != nil {
		rt.Fatalf("VERIF-HARNESS-BUG: mkdir: %v", err)
	}
	defer os.RemoveAll(dir)
	if err := final.WriteTo(dir); err != nil {
		rt.Fatalf("VERIF-HARNESS-BUG: image: %v", err)
	}
	db2, err := c25Open(r.log.Materialize(r.log.Len()), dir)
	if err != nil {
		rt.Fatalf("reopening the cleanly closed database failed: %v [history %v]", err, r.desc)
	}
	ctx := fmt.Sprintf("after clean close and reopen [history %v]", r.desc)
	c25CheckFreezer(rt, db2, r.m, r.m.frozen, ctx)
	c25CheckCanonical(rt, db2, r.m, ctx)
	if err := db2.close(); err != nil {
		rt.Fatalf("close failed: %v", err)
	}

	c.NonTrivial(r.crossing, fmt.Sprintf("%x|%v", r.m.canon[r.m.head()].hash, r.desc))
	c.Classf("cycles:%d", ncycles)
	c.Classf("length:%d+", int(r.m.head())/20*20)
	if r.stats.reorgs > 0 {
		c.Class("history:reorg")
	}
	if r.stats.removedDangling > 0 {
		c.Class("history:dangling")
	}
	if r.stats.kept > 0 {
		c.Class("history:side-blocks-kept-above-boundary")
	}
	if r.stats.removedBelow > 0 {
		c.Class("history:side-blocks-removed-below-boundary")
	}
	c.Sample(r.crossing, func() any {
		return map[string]any{"history": r.desc, "head": r.m.head(), "frozen": r.m.frozen, "images": r.stats.images,
			"side_blocks": r.stats.sideBlocks, "removed_below": r.stats.removedBelow, "removed_dangling": r.stats.removedDangling, "kept": r.stats.kept}
	})
}

// ---------------------------------------------------------------- big backlog: several batches inside one cycle

// c25CheckLight compares the raw accessors of every canonical block with the model's
// encodings (the full accessor view is kept for a sample of heights only).
func c25CheckLight(t c25T, db ethdb.Database, blocks []*c25Block, ctx string) {
	for _, b := range blocks {
		if got := ReadCanonicalHash(db, b.num); got != b.hash {
			t.Fatalf("%s: ReadCanonicalHash(%d) = %x, canonical block is %x", ctx, b.num, got[:4], b.hash[:4])
		}
		for _, f := range []struct {
			name      string
			got, want []byte
		}{
			{"ReadHeaderRLP", ReadHeaderRLP(db, b.hash, b.num), b.headerRLP},
			{"ReadBodyRLP", ReadBodyRLP(db, b.hash, b.num), b.bodyRLP},
			{"ReadReceiptsRLP", ReadReceiptsRLP(db, b.hash, b.num), b.receiptsRLP},
			{"ReadAccessListRLP", ReadAccessListRLP(db, b.hash, b.num), b.balRLP},
		} {
			if !bytes.Equal(f.got, f.want) {
				t.Fatalf("%s: canonical block #%d %x: %s returned %s, the block was written with %s", ctx, b.num, b.hash[:4], f.name, c25Trunc(f.got), c25Trunc(f.want))
			}
		}
		if n, ok := ReadHeaderNumber(db, b.hash); !ok || n != b.num {
			t.Fatalf("%s: canonical block #%d %x: ReadHeaderNumber returned (%d,%v)", ctx, b.num, b.hash[:4], n, ok)
		}
	}
}

// c25CheckRangeAt compares ReadHeaderRange(from, count) with the canonical headers.
func c25CheckRangeAt(t c25T, db ethdb.Database, m *c25Model, from, count uint64, ctx string) {
	from = min(from, m.head())
	got := ReadHeaderRange(db, from, count)
	if want := min(count, from+1); uint64(len(got)) != want {
		t.Fatalf("%s: ReadHeaderRange(%d,%d) returned %d headers, want %d", ctx, from, count, len(got), want)
	}
	for i := range got {
		if b := m.canon[from-uint64(i)]; !bytes.Equal(got[i], b.headerRLP) {
			t.Fatalf("%s: ReadHeaderRange(%d,%d)[%d] = %s, canonical header #%d is %s", ctx, from, count, i, c25Trunc(got[i]), b.num, c25Trunc(b.headerRLP))
		}
	}
}

type c25Big struct {
	t      *testing.T
	src    *c25PRNGSrc
	db     *c25DB
	m      *c25Model
	desc   []string
	sample map[uint64]bool // canonical heights with a full accessor view
	head   uint64          // planned head of the current cycle
}

func (g *c25Big) note(format string, a ...any) { g.desc = append(g.desc, fmt.Sprintf(format, a...)) }

// mark adds heights to the sample. The sample of a cycle is fixed before its blocks are
// generated: blocks outside it keep their encodings only (see extend).
func (g *c25Big) mark(lo, hi uint64) {
	for n := lo; n <= hi && n <= g.head; n++ {
		if n < uint64(len(g.m.canon)) && !g.sample[n] {
			continue // generated by an earlier cycle without a full view
		}
		g.sample[n] = true
	}
}

func (g *c25Big) around(n, d uint64) { g.mark(n-min(n, d), n+d) }

func (g *c25Big) sampled() []uint64 {
	out := make([]uint64, 0, len(g.sample))
	for n := range g.sample {
		out = append(out, n)
	}
	sort.Slice(out, func(i, j int) bool { return out[i] < out[j] })
	return out
}

// extend appends canonical blocks up to the planned head. Blocks outside the sample
// are reduced to hash and encodings once written (the raw accessors and the freezer
// tables are compared for every height, the full accessor view for the sample).
func (g *c25Big) extend() {
	m := g.m
	batch := g.db.NewBatch()
	for len(m.canon) == 0 || m.head() < g.head {
		var parent *c25Block
		if len(m.canon) > 0 {
			parent = m.canon[len(m.canon)-1]
		}
		b := m.newBlock(g.src, parent, nil)
		m.canon = append(m.canon, b)
		c25WriteBlock(batch, b)
		c25WriteCanon(batch, b)
		b.block, b.receipts = nil, nil
		if !g.sample[b.num] {
			b.txs = nil
		}
		if batch.ValueSize() > ethdb.IdealBatchSize {
			c25Must(g.t, batch.Write())
			batch.Reset()
		}
	}
	c25WriteHead(batch, m.canon[m.head()])
	c25Must(g.t, batch.Write())
	g.note("extend->head #%d", m.head())
}

// c25BigFork is one planned side branch: length blocks on top of the canonical block
// at height from, or (onPrev) one block on top of the parent of the previous branch's tip.
type c25BigFork struct {
	from   uint64
	length int
	onPrev bool
	cross  uint64 // batch boundary the branch is meant to cross (0: none)
}

// side writes a side branch of the given length on top of parent (canonical or side).
func (g *c25Big) side(parent *c25Block, length int) *c25Block {
	m := g.m
	batch := g.db.NewBatch()
	from := parent.num
	for i := 0; i < length && parent.num+1 <= m.head()+2; i++ {
		var share *c25Block
		if parent.num+1 <= m.head() {
			share = m.canon[parent.num+1]
		}
		b := m.newBlock(g.src, parent, share)
		c25WriteBlock(batch, b)
		parent = b
	}
	c25Must(g.t, batch.Write())
	g.note("side(#%d..#%d)", from+1, parent.num)
	return parent
}

// refresh records the full accessor view of the sampled canonical heights and of all
// live side blocks; a view recorded earlier must not have changed.
func (g *c25Big) refresh(where string) {
	m := g.m
	check := func(b *c25Block, canonical bool) {
		v := c25ReadView(g.db, b.hash, b.num, b.txs, canonical)
		if old, ok := m.views[b.hash]; ok {
			if d := v.diff(old); d != "" {
				g.t.Fatalf("%s: block #%d %x (canonical=%v): %s [history %v]", where, b.num, b.hash[:4], canonical, d, g.desc)
			}
			return
		}
		if !bytes.Equal(v.fields[0].val, b.headerRLP) {
			g.t.Fatalf("VERIF-HARNESS-BUG: %s: fresh block #%d does not read back its header", where, b.num)
		}
		m.views[b.hash] = v
	}
	for _, n := range g.sampled() {
		check(m.canon[n], true)
	}
	for _, s := range m.sides() {
		check(s, false)
	}
}

func (g *c25Big) checkSampled(ctx string) {
	m := g.m
	for _, n := range g.sampled() {
		b := m.canon[n]
		v := c25ReadView(g.db, b.hash, b.num, b.txs, true)
		if d := v.diff(m.views[b.hash]); d != "" {
			g.t.Fatalf("%s: canonical block #%d %x: %s", ctx, b.num, b.hash[:4], d)
		}
	}
}

// cycle builds a freezable backlog of the given size on top of what is frozen already
// (side branches around every batch boundary of the cycle, around the finalized block
// and deep inside the first batch), finalizes, runs Freeze until the freezer stops
// growing and evaluates the oracle. It returns the number of capped batches.
func (g *c25Big) cycle(idx int, backlog uint64) (capped int, crossing bool) {
	t, m, src := g.t, g.m, g.src
	f0 := m.frozen
	final := f0 + backlog - 1
	g.head = final + 6 + uint64(src.pick(0, 10, "above"))
	// where the batches of this cycle start
	var bounds []uint64
	for b := f0 + freezerBatchLimit; b <= final; b += freezerBatchLimit {
		bounds = append(bounds, b)
	}
	capped = len(bounds)
	lo := m.lowFork()
	clamp := func(n uint64) uint64 { return min(max(n, lo), g.head) }
	var plan []c25BigFork
	for _, b := range bounds {
		// a branch crossing the batch boundary, a child of one of its blocks, a competitor of
		// the last block of the batch and a competitor of the first block of the next batch
		plan = append(plan,
			c25BigFork{from: clamp(b - uint64(src.pick(2, 5, "crossFrom"))), length: 6 + src.pick(0, 3, "crossLen"), cross: b},
			c25BigFork{onPrev: true},
			c25BigFork{from: clamp(b - 2), length: 1},
			c25BigFork{from: clamp(b - 1), length: 1 + src.pick(0, 1, "firstLen")})
	}
	if backlog > 200 {
		plan = append(plan, c25BigFork{from: clamp(f0 + uint64(src.pick(1, int(min(backlog, freezerBatchLimit))-100, "deep"))), length: 1 + src.pick(0, 3, "deepLen")})
	}
	plan = append(plan,
		c25BigFork{from: clamp(final - uint64(src.pick(1, 3, "finalFrom"))), length: 5}, // reaches above the finalized block: dangling part
		c25BigFork{from: clamp(final), length: 1 + src.pick(0, 1, "keptLen")},           // descends from the finalized block: stays
		c25BigFork{from: clamp(final + 1), length: 1})
	// sample: multiples of the batch limit, the batch boundaries, the old and new frozen
	// boundary, everything above, the heights of the side branches, scattered heights
	for n := uint64(0); n <= g.head+3; n += freezerBatchLimit {
		g.around(n, 3)
	}
	for _, b := range bounds {
		g.around(b, 3)
	}
	g.around(f0, 3)
	g.mark(final-min(final, 3), g.head)
	for _, f := range plan {
		if !f.onPrev {
			g.mark(f.from-min(f.from, 1), f.from+uint64(f.length)+1)
		}
	}
	for n := f0; n <= g.head; n += 499 {
		g.mark(n, n)
	}
	for i := 0; i < 150; i++ {
		n := f0 + src.next()%(g.head-f0+1)
		g.mark(n, n)
	}
	g.extend()
	var prev *c25Block
	for _, f := range plan {
		if f.onPrev {
			if prev != nil && prev.parent != nil && !m.isCanon(prev.parent) {
				g.side(prev.parent, 1)
			}
			continue
		}
		prev = g.side(m.canon[f.from], f.length)
		if a := c25AncestorAt(prev, f.cross-1); f.cross != 0 && prev.num >= f.cross && a != nil && !m.isCanon(a) {
			crossing = true
		}
	}
	where := fmt.Sprintf("before big cycle %d", idx)
	g.refresh(where)
	// the model's encodings are what the database holds (all heights once blocks are frozen,
	// the sampled ones while everything is still where the writers put it)
	if f0 > 0 {
		c25CheckLight(t, g.db, m.canon, where)
	} else {
		var blocks []*c25Block
		for _, n := range g.sampled() {
			blocks = append(blocks, m.canon[n])
		}
		c25CheckLight(t, g.db, blocks, "VERIF-HARNESS-BUG: "+where)
	}

	m.hasFinal, m.final = true, final
	WriteFinalizedBlockHash(g.db, m.canon[final].hash)
	g.note("finalized #%d (backlog %d = %d capped batches + %d)", final, backlog, capped, backlog-uint64(capped)*freezerBatchLimit)
	c25Must(t, g.db.SyncKeyValue())
	sidesPre := m.sides()
	// one trigger runs as many batches as needed; further triggers must not change anything
	for i := 0; i < capped+3; i++ {
		before, _ := g.db.Ancients()
		if err := g.db.freeze(); err != nil {
			t.Fatalf("Freeze failed: %v", err)
		}
		if got, _ := g.db.Ancients(); got == final+1 || got == before {
			break
		}
	}
	m.frozen = final + 1
	removed := c25Removal(m, sidesPre, f0, final+1)
	ctx := fmt.Sprintf("after big freeze cycle %d (Ancients %d->%d, batch limit %d) [history %v]", idx, f0, final+1, uint64(freezerBatchLimit), g.desc)
	g.checkSampled(ctx)
	c25CheckLight(t, g.db, m.canon, ctx)
	c25CheckFreezer(t, g.db, m, final+1, ctx)
	for _, b := range append(bounds, final+1) {
		c25CheckRangeAt(t, g.db, m, b+2, 6, ctx)
	}
	for _, s := range sidesPre {
		present := c25SidePresent(t, g.db, m, s, ctx)
		switch {
		case removed[s] && present:
			t.Fatalf("%s: side block #%d %x is still in the database (boundary %d)", ctx, s.num, s.hash[:4], final+1)
		case !removed[s] && !present:
			t.Fatalf("%s: side block #%d %x descends from the canonical chain at or above the boundary but was removed", ctx, s.num, s.hash[:4])
		}
	}
	for n := uint64(1); n <= final; n++ {
		for _, h := range ReadAllHashes(g.db, n) {
			if h != m.canon[n].hash {
				t.Fatalf("%s: ReadAllHashes(%d) still lists the non-canonical block %x", ctx, n, h[:4])
			}
		}
	}
	for s := range removed {
		s.gone = true
		delete(m.views, s.hash)
	}
	return capped, crossing
}

// TestVerifC25BigBacklog: one deterministic history whose freezable backlog exceeds
// freezerBatchLimit, so that one freeze cycle runs several batches (the first ones
// capped). The key-value store is a pebble database on the tmpfs directory: the
// cleanup loop opens one iterator per height, which the map-backed memory database
// answers by scanning all keys. No crash images here (TestVerifC25Crash has them).
func TestVerifC25BigBacklog(t *testing.T) {
	vs.OnlyShard0(t)
	st := vs.New("C25", t)
	c25SetupTemp(t)
	root, err := os.MkdirTemp(c25TempRoot, "c25big")
	if err != nil {
		t.Fatalf("VERIF-HARNESS-BUG: mkdir: %v", err)
	}
	defer os.RemoveAll(root)
	kv, err := pebble.New(root+"/kv", 16, 16, "", false)
	if err != nil {
		t.Fatalf("VERIF-HARNESS-BUG: pebble: %v", err)
	}
	src := &c25PRNGSrc{TB: t, x: vs.Seed() * 0x2545f4914f6cdd1d}
	g := &c25Big{t: t, src: src, sample: map[uint64]bool{}, m: &c25Model{views: map[common.Hash]*c25View{}, salt: src.next()}}
	if g.db, err = c25Open(kv, root+"/ancient"); err != nil {
		t.Fatalf("opening an empty database failed: %v", err)
	}
	closed := false
	defer func() {
		if !closed {
			g.db.close()
		}
	}()
	// backlogs: more than one batch; thorough adds exactly one batch, one block more
	// than a batch on top of a non-aligned boundary, and more than two batches
	backlogs := []uint64{freezerBatchLimit + 20 + uint64(src.pick(0, 130, "extra"))}
	if vs.Thorough() {
		backlogs = append(backlogs, freezerBatchLimit, freezerBatchLimit+1, 2*freezerBatchLimit+20+uint64(src.pick(0, 130, "extra")))
	}
	c := st.Case()
	capped, crossing := 0, false
	for i, bl := range backlogs {
		n, x := g.cycle(i, bl)
		capped += n
		crossing = crossing || x
		c.Classf("big:cycle-with-%d-capped-batches", n)
	}
	// clean close and reopen
	closed = true
	if err := g.db.close(); err != nil {
		t.Fatalf("close failed: %v [history %v]", err, g.desc)
	}
	kv, err = pebble.New(root+"/kv", 16, 16, "", false)
	if err != nil {
		t.Fatalf("VERIF-HARNESS-BUG: pebble: %v", err)
	}
	if g.db, err = c25Open(kv, root+"/ancient"); err != nil {
		t.Fatalf("reopening the cleanly closed database failed: %v [history %v]", err, g.desc)
	}
	ctx := fmt.Sprintf("after clean close and reopen [history %v]", g.desc)
	g.checkSampled(ctx)
	if vs.Thorough() {
		c25CheckLight(t, g.db, g.m.canon, ctx)
	}
	c25CheckFreezer(t, g.db, g.m, g.m.frozen, ctx)
	if err := g.db.close(); err != nil {
		t.Fatalf("close failed: %v", err)
	}
	nt := capped > 0 && crossing
	c.NonTrivial(nt, fmt.Sprintf("big|%x|%v", g.m.canon[g.m.head()].hash, backlogs))
	c.Class("big:backlog-exceeds-batch-limit")
	c.Sample(nt, func() any {
		return map[string]any{"history": g.desc, "head": g.m.head(), "frozen": g.m.frozen, "backlogs": backlogs, "capped_batches": capped,
			"sampled_heights_with_full_view": len(g.sample), "blocks": len(g.m.blocks)}
	})
}

// c25TempRoot is where freezer directories and crash images live: a private tmpfs
// directory when available (the freezer fsyncs on every open, close and sync;
// durability is modelled by the harness, not by the device), the driver's TMPDIR otherwise.
var c25TempRoot string

func c25SetupTemp(t *testing.T) {
	const shm = "/dev/shm"
	if fi, err := os.Stat(shm); err != nil || !fi.IsDir() {
		return
	}
	if ents, err := os.ReadDir(shm); err == nil {
		for _, e := range ents {
			if !strings.HasPrefix(e.Name(), "verif-c25-") {
				continue
			}
			if info, err := e.Info(); err == nil && time.Since(info.ModTime()) > 2*time.Hour {
				os.RemoveAll(shm + "/" + e.Name())
			}
		}
	}
	dir, err := os.MkdirTemp(shm, "verif-c25-")
	if err != nil {
		return
	}
	c25TempRoot = dir
	t.Cleanup(func() { os.RemoveAll(dir); c25TempRoot = "" })
}

// TestVerifC25Crash runs random chain/freeze histories and reopens the crash images
// of every freeze cycle.
func TestVerifC25Crash(t *testing.T) {
	st := vs.New("C25", t)
	c25SetupTemp(t)
	vs.Check(t, 1, func(rt *rapid.T) { c25Property(rt, st) })
}
