//go:build verif

package core_test

// C34: stateless re-execution with the collected witness.
//
// A worldgen chain is built; its last block is inserted by the harness with witness
// collection (BlockChain.InsertBlockWithoutSetHead(..., makeWitness=true)), under a
// drawn storage configuration (hash/path scheme, snapshots on/off, prefetcher on/off).
// The witness is shipped through its RLP encoding (the API boundary) and the block,
// with state root and receipt root zeroed, is re-executed by core.ExecuteStateless:
//
//   - full witness: no error, and both returned roots equal the block's;
//   - witness with one element removed (a state trie node, a bytecode, an ancestor
//     header; each in turn for small witnesses, a drawn subset otherwise): the call
//     returns an error (or the witness is rejected when decoded), or it returns the true
//     roots (the element was not needed) - never different roots, never a panic.
//
// About half of the worlds carry worldgen's engineered branch collapse (Options.Collapse):
// the witnessed block deletes a slot / an account whose parent branch node keeps exactly
// one other child, so that the witness holds a sibling node that no EVM read touches and
// that is resolved only while the tries are updated at the end of the block.

import (
	"bytes"
	"context"
	"fmt"
	"math/big"
	"sort"
	"strings"
	"testing"

	"github.com/ethereum/go-ethereum/common"
	"github.com/ethereum/go-ethereum/core"
	"github.com/ethereum/go-ethereum/core/rawdb"
	"github.com/ethereum/go-ethereum/core/stateless"
	"github.com/ethereum/go-ethereum/core/tracing"
	"github.com/ethereum/go-ethereum/core/types"
	"github.com/ethereum/go-ethereum/core/vm"
	"github.com/ethereum/go-ethereum/crypto"
	"github.com/ethereum/go-ethereum/ethdb"
	"github.com/ethereum/go-ethereum/internal/verifx/worldgen"
	"github.com/ethereum/go-ethereum/rlp"
	"github.com/ethereum/go-ethereum/trie"
	"github.com/ethereum/go-ethereum/triedb"
	"pgregory.net/rapid"
	ep "verif.local/kit/evmprog"
	vs "verif.local/kit/stat"
)

// c34Facts is filled by a light tracer during the witness-collecting execution; it
// only feeds class labels and the non-trivial rule.
type c34Facts struct {
	slotDeleted   int // storage slot went from non-zero to zero
	slotCreated   int
	frameToAbsent int // call/selfdestruct frame whose target is absent from the pre-state
	selfdestructs int
	creates       int
	blockhashes   int
	active        bool
	absent        func(common.Address) bool
}

func (f *c34Facts) hooks() *tracing.Hooks {
	return &tracing.Hooks{
		OnStorageChange: func(_ common.Address, _ common.Hash, prev, cur common.Hash) {
			if !f.active {
				return
			}
			if prev != (common.Hash{}) && cur == (common.Hash{}) {
				f.slotDeleted++
			}
			if prev == (common.Hash{}) && cur != (common.Hash{}) {
				f.slotCreated++
			}
		},
		OnEnter: func(_ int, typ byte, _, to common.Address, _ []byte, _ uint64, _ *big.Int) {
			if !f.active {
				return
			}
			switch vm.OpCode(typ) {
			case vm.SELFDESTRUCT:
				f.selfdestructs++
			case vm.CREATE, vm.CREATE2:
				f.creates++
				return
			}
			if f.absent != nil && f.absent(to) {
				f.frameToAbsent++
			}
		},
		OnBlockHashRead: func(uint64, common.Hash) {
			if f.active {
				f.blockhashes++
			}
		},
	}
}

// Class label of the FIXED finding "missing node or code, different roots, no error"
// (repo commit 5ce10c7297, see notes/C34.md): nothing is gated on it; the reversed
// commit serves as a mutation probe.
//   missing-node-different-root-no-error

// c34KnownHeader: "missing ancestor header, BLOCKHASH silently zero, different roots,
// no error" (see notes/C34.md).
const c34KnownHeader = "missing-ancestor-header-different-root-no-error"

type c34Removal struct {
	kind string // state | code | header
	idx  int
}

func c34SortedKeys(m map[string]struct{}) []string {
	out := make([]string, 0, len(m))
	for k := range m {
		out = append(out, k)
	}
	sort.Strings(out)
	return out
}

// c34Ship passes the witness through its wire encoding.
func c34Ship(w *stateless.Witness) (*stateless.Witness, error) {
	blob, err := rlp.EncodeToBytes(w)
	if err != nil {
		return nil, fmt.Errorf("encode: %w", err)
	}
	out := new(stateless.Witness)
	if err := rlp.DecodeBytes(blob, out); err != nil {
		return nil, err
	}
	return out, nil
}

// c34Run executes the task statelessly; a panic is reported as such.
func c34Run(w *worldgen.World, task *types.Block, wit *stateless.Witness) (sr, rr common.Hash, err error, panicked any) {
	defer func() {
		if r := recover(); r != nil {
			panicked = r
		}
	}()
	sr, rr, err = core.ExecuteStateless(context.Background(), w.Config, vm.Config{}, task, wit)
	return
}

func TestVerifC34Stateless(t *testing.T) {
	st := vs.New("C34", t)
	vs.Check(t, 1, func(rt *rapid.T) {
		c := st.Case()
		w := worldgen.Draw(rt, worldgen.Options{MaxBlocks: 4, Collapse: true})
		facts := &c34Facts{}
		cfg := core.DefaultConfig()
		scheme := []string{rawdb.HashScheme, rawdb.PathScheme}[ep.Uniform(rt, "scheme", 2)]
		cfg.StateScheme = scheme
		snap := ep.Uniform(rt, "snapshot", 2) == 1
		if !snap {
			cfg.SnapshotLimit = 0
		}
		cfg.NoPrefetch = ep.Uniform(rt, "noprefetch", 2) == 1
		traced := ep.Uniform(rt, "traced", 4) != 0 // mostly with the classifying tracer, sometimes without any
		if traced {
			cfg.VmConfig = vm.Config{Tracer: facts.hooks()}
		}
		b, err := w.Build(worldgen.BuildOptions{Chain: cfg, HoldLast: true})
		if err != nil {
			if strings.Contains(err.Error(), "insert block") {
				rt.Fatalf("re-execution of a chain-maker block failed: %v\n%s", err, w.Describe())
			}
			rt.Fatalf("VERIF-HARNESS-BUG: worldgen build: %v\n%s", err, w.Describe())
		}
		defer b.Close()
		n := len(b.Blocks)
		last := b.Blocks[n-1]
		pre, err := worldgen.Balances(b.GenDB, b.Parent(n-1).Root())
		if err != nil {
			rt.Fatalf("VERIF-HARNESS-BUG: dump: %v", err)
		}
		facts.absent = func(a common.Address) bool { _, ok := pre[crypto.Keccak256Hash(a[:])]; return !ok }
		facts.active = true
		witness, err := b.Chain.InsertBlockWithoutSetHead(context.Background(), last, true)
		facts.active = false
		if err != nil {
			rt.Fatalf("full execution with witness collection rejected a chain-maker block: %v\n%s", err, w.Describe())
		}
		if witness == nil {
			rt.Fatalf("VERIF-HARNESS-BUG: no witness returned")
		}
		c.Class("variant:" + w.Variant.Name)
		c.Classf("store:%s/snap=%v/noprefetch=%v", scheme, snap, cfg.NoPrefetch)

		hdr := last.Header()
		hdr.Root, hdr.ReceiptHash = common.Hash{}, common.Hash{}
		task := types.NewBlockWithHeader(hdr).WithBody(*last.Body())
		withBAL := false
		if al := last.AccessList(); al != nil && ep.Uniform(rt, "task-with-bal", 2) == 1 {
			// Amsterdam: with the block access list attached the stateless run takes the
			// BAL-driven parallel processor, without it the sequential one.
			task = task.WithAccessList(al)
			withBAL = true
		}
		if last.AccessList() != nil {
			c.Classf("amsterdam-task-with-bal=%v", withBAL)
		}
		describe := func() string {
			return fmt.Sprintf("variant=%s scheme=%s snapshot=%v noprefetch=%v traced=%v withBAL=%v blocks=%d witness: %d state nodes, %d codes, %d headers\nworld: %s",
				w.Variant.Name, scheme, snap, cfg.NoPrefetch, traced, withBAL, n, len(witness.State), len(witness.Codes), len(witness.Headers), w.Describe())
		}

		// Positive part.
		full, err := c34Ship(witness)
		if err != nil {
			rt.Fatalf("collected witness does not survive its own encoding: %v\n%s", err, describe())
		}
		sr, rr, err, p := c34Run(w, task, full)
		if p != nil {
			rt.Fatalf("C34 violated: stateless execution with the complete witness panicked: %v\n%s", p, describe())
		}
		if err != nil {
			rt.Fatalf("C34 violated: stateless execution with the complete witness failed: %v\n%s", err, describe())
		}
		if sr != last.Root() || rr != last.ReceiptHash() {
			rt.Fatalf("C34 violated: complete witness gives state root %x receipt root %x, full execution %x / %x\n%s", sr, rr, last.Root(), last.ReceiptHash(), describe())
		}

		// Negative part: remove one element at a time.
		states, codes := c34SortedKeys(witness.State), c34SortedKeys(witness.Codes)
		var removals []c34Removal
		for i := range states {
			removals = append(removals, c34Removal{"state", i})
		}
		for i := range codes {
			removals = append(removals, c34Removal{"code", i})
		}
		for i := range witness.Headers {
			removals = append(removals, c34Removal{"header", i})
		}
		// Single removals are cheap (a stateless run of one small block): witnesses of up
		// to c34Budget elements are covered completely, so that a node needed at one point
		// only (e.g. the sibling resolved when a branch node collapses while the tries are
		// hashed) cannot be skipped by the draw.
		budget := c34BudgetQuick
		if vs.Thorough() {
			budget = c34BudgetThorough
		}
		if len(removals) > budget {
			// keep every code and header removal, fill up with drawn state nodes
			keep := removals[len(states):]
			picked := map[int]bool{}
			for len(keep) < budget && len(picked) < len(states) {
				i := ep.Uniform(rt, "remove-state-node", len(states))
				if !picked[i] {
					picked[i] = true
					keep = append(keep, c34Removal{"state", i})
				}
			}
			if len(keep) > budget+8 {
				keep = keep[:budget+8]
			}
			removals = keep
			c.Class("removals:drawn-subset")
		} else {
			c.Class("removals:every-element")
		}
		required, needless := 0, 0
		for _, rm := range removals {
			c.Fault()
			mut := witness.Copy()
			var what string
			switch rm.kind {
			case "state":
				delete(mut.State, states[rm.idx])
				what = fmt.Sprintf("state node %x (%d bytes)", crypto.Keccak256(([]byte)(states[rm.idx])), len(states[rm.idx]))
			case "code":
				delete(mut.Codes, codes[rm.idx])
				what = fmt.Sprintf("code %x (%d bytes)", crypto.Keccak256(([]byte)(codes[rm.idx])), len(codes[rm.idx]))
			default:
				mut.Headers = append(append([]*types.Header{}, mut.Headers[:rm.idx]...), mut.Headers[rm.idx+1:]...)
				what = fmt.Sprintf("header #%d of %d (number %v)", rm.idx, len(witness.Headers), witness.Headers[rm.idx].Number)
			}
			shipped, err := c34Ship(mut)
			if err != nil {
				required++
				c.Class("removal:" + rm.kind + "/rejected-at-decode")
				continue
			}
			sr, rr, err, p := c34Run(w, task, shipped)
			switch {
			case p != nil:
				rt.Fatalf("C34 violated: stateless execution panicked after removing %s: %v\n%s", what, p, describe())
			case err != nil:
				required++
				c.Class("removal:" + rm.kind + "/error")
			case sr == last.Root() && rr == last.ReceiptHash():
				needless++
				c.Class("removal:" + rm.kind + "/not-needed")
			case rm.kind == "header" && rm.idx > 0 && vs.Known("TestVerifC34Stateless", c34KnownHeader):
				// Known finding (gate active only while known_findings.json lists it): BLOCKHASH
				// of an ancestor whose header is missing from the witness silently yields the
				// zero hash. Gated: a NON-PARENT ancestor header removed, nil error, different
				// roots. Usually only the receipt root differs (hash logged); the state root
				// differs too when the hash is stored and the block's gasUsed does not move
				// (Amsterdam: header gas = max(execution, state) hides a per-tx difference).
				// Headers serve nothing but BLOCKHASH (and the parent's state root, idx 0, not
				// gated), so no other defect can hide behind this.
				st.Excluded()
				required++
				if sr == last.Root() {
					c.Class("removal:header/KNOWN-different-receipt-root-no-error")
				} else {
					c.Class("removal:header/KNOWN-different-state-root-no-error")
				}
			default:
				rt.Fatalf("C34 violated: after removing %s stateless execution returned no error but state root %x receipt root %x (true: %x / %x)\n%s",
					what, sr, rr, last.Root(), last.ReceiptHash(), describe())
			}
		}

		// Classes and the non-trivial rule.
		postKeys, err := worldgen.Balances(b.GenDB, last.Root())
		if err != nil {
			rt.Fatalf("VERIF-HARNESS-BUG: dump: %v", err)
		}
		accCollapse, stoCollapse, err := c34BranchCollapses(b.GenDB, b.Parent(n-1).Root(), last.Root())
		if err != nil {
			rt.Fatalf("VERIF-HARNESS-BUG: trie dump: %v", err)
		}
		accountsDeleted := 0
		for h := range pre {
			if _, ok := postKeys[h]; !ok {
				accountsDeleted++
			}
		}
		flag := func(cond bool, label string) {
			if cond {
				c.Class(label)
			}
		}
		flag(accCollapse > 0, "block:branch-collapse/account-trie")
		flag(stoCollapse > 0, "block:branch-collapse/storage-trie")
		if cp := w.Collapse; cp != nil {
			included := false
			for _, tx := range last.Transactions() {
				if tx.To() != nil && *tx.To() == worldgen.CollapseAddr {
					included = true
				}
			}
			c.Classf("engineered-collapse:tx-included=%v", included)
			c.Classf("engineered-collapse:pair@%d+%d", cp.PairDepth, len(cp.Extras))
			c.Classf("engineered-collapse:victim=%s/twin@%d", cp.Victim, cp.TwinDepth)
		} else {
			c.Class("engineered-collapse:none")
		}
		flag(accountsDeleted > 0, "block:account-deleted")
		flag(facts.slotDeleted > 0, "block:slot-deleted")
		flag(facts.slotCreated > 0, "block:slot-created")
		flag(facts.frameToAbsent > 0, "block:frame-to-absent-account")
		flag(facts.selfdestructs > 0, "block:selfdestruct")
		flag(facts.creates > 0, "block:create")
		flag(len(witness.Headers) > 1, "witness:ancestor-headers")
		flag(len(last.Transactions()) == 0, "block:empty")
		flag(needless > 0, "witness:has-needless-element")
		c.Classf("witness-size:%s", c34Bucket(len(witness.State)))
		nontrivial := accountsDeleted > 0 || facts.slotDeleted > 0 || facts.frameToAbsent > 0
		if !traced {
			nontrivial = accountsDeleted > 0
		}
		var shapes []string
		for _, tx := range last.Transactions() {
			to := "create"
			if tx.To() != nil {
				to = fmt.Sprintf("%x", tx.To()[:2])
			}
			shapes = append(shapes, fmt.Sprintf("%d>%s", tx.Type(), to))
		}
		d := fmt.Sprintf("%s|%s|%v|n%d|del%d/%d|abs%d|w%d/%d/%d|%s", w.Variant.Name, scheme, snap, n, accountsDeleted, facts.slotDeleted, facts.frameToAbsent,
			len(witness.State), len(witness.Codes), len(witness.Headers), strings.Join(shapes, ","))
		c.NonTrivial(nontrivial, d)
		c.Sample(nontrivial, func() any {
			return map[string]any{"descriptor": d, "required": required, "not_needed": needless, "world": w.Describe()}
		})
	})
}

const (
	c34BudgetQuick    = 40
	c34BudgetThorough = 64
)

// c34Keys returns the (hashed) keys and values of the trie id in db (hash scheme).
func c34Keys(tdb *triedb.Database, id *trie.ID) (keys []common.Hash, vals [][]byte, err error) {
	tr, err := trie.New(id, tdb)
	if err != nil {
		return nil, nil, err
	}
	nit, err := tr.NodeIterator(nil)
	if err != nil {
		return nil, nil, err
	}
	it := trie.NewIterator(nit)
	for it.Next() {
		keys = append(keys, common.BytesToHash(it.Key))
		vals = append(vals, common.CopyBytes(it.Value))
	}
	return keys, vals, it.Err
}

func c34Nibble(h common.Hash, i int) byte {
	if i%2 == 0 {
		return h[i/2] >> 4
	}
	return h[i/2] & 0x0f
}

// c34CountCollapses compares the key sets of one trie before and after the block (both
// restricted to a common prefix of depth nibbles): it counts the positions at which the
// old trie has a branch node (the keys fan out into two or more next nibbles) while the
// new key set keeps exactly one of those children. geth applies a block's updates before
// its deletions, so that is exactly where a branch node collapses into a short node and
// the surviving child has to be resolved while the trie is updated - whether or not the
// EVM ever read below it. Only classifies cases; asserts nothing.
func c34CountCollapses(pre, post []common.Hash, depth int) int {
	if len(pre) < 2 || depth >= 64 {
		return 0
	}
	var preG, postG [16][]common.Hash
	for _, k := range pre {
		preG[c34Nibble(k, depth)] = append(preG[c34Nibble(k, depth)], k)
	}
	for _, k := range post {
		postG[c34Nibble(k, depth)] = append(postG[c34Nibble(k, depth)], k)
	}
	preN, postN, count := 0, 0, 0
	for i := 0; i < 16; i++ {
		if len(preG[i]) > 0 {
			preN++
		}
		if len(postG[i]) > 0 {
			postN++
		}
	}
	if preN >= 2 && postN == 1 {
		count++
	}
	for i := 0; i < 16; i++ {
		count += c34CountCollapses(preG[i], postG[i], depth+1)
	}
	return count
}

// c34BranchCollapses counts collapsed branch nodes of the account trie and of the
// storage tries of the accounts that exist before and after the block.
func c34BranchCollapses(db ethdb.Database, preRoot, postRoot common.Hash) (account, storage int, err error) {
	tdb := triedb.NewDatabase(db, triedb.HashDefaults)
	defer tdb.Close()
	preK, preV, err := c34Keys(tdb, trie.StateTrieID(preRoot))
	if err != nil {
		return 0, 0, err
	}
	postK, postV, err := c34Keys(tdb, trie.StateTrieID(postRoot))
	if err != nil {
		return 0, 0, err
	}
	account = c34CountCollapses(preK, postK, 0)
	postAcc := map[common.Hash][]byte{}
	for i, k := range postK {
		postAcc[k] = postV[i]
	}
	for i, owner := range preK {
		pv, ok := postAcc[owner]
		if !ok || bytes.Equal(pv, preV[i]) {
			continue
		}
		var a, b types.StateAccount
		if err := rlp.DecodeBytes(preV[i], &a); err != nil {
			return 0, 0, err
		}
		if err := rlp.DecodeBytes(pv, &b); err != nil {
			return 0, 0, err
		}
		if a.Root == b.Root || a.Root == types.EmptyRootHash || b.Root == types.EmptyRootHash {
			continue
		}
		sa, _, err := c34Keys(tdb, trie.StorageTrieID(preRoot, owner, a.Root))
		if err != nil {
			return 0, 0, err
		}
		sb, _, err := c34Keys(tdb, trie.StorageTrieID(postRoot, owner, b.Root))
		if err != nil {
			return 0, 0, err
		}
		storage += c34CountCollapses(sa, sb, 0)
	}
	return account, storage, nil
}

func c34Bucket(n int) string {
	switch {
	case n <= 8:
		return "<=8"
	case n <= 16:
		return "9-16"
	case n <= 32:
		return "17-32"
	case n <= 64:
		return "33-64"
	}
	return ">64"
}
