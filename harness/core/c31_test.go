//go:build verif

package core

import (
	"crypto/ecdsa"
	"errors"
	"fmt"
	"math/big"
	"strings"
	"testing"

	"github.com/ethereum/go-ethereum/common"
	"github.com/ethereum/go-ethereum/core/state"
	"github.com/ethereum/go-ethereum/core/tracing"
	"github.com/ethereum/go-ethereum/core/types"
	"github.com/ethereum/go-ethereum/core/vm"
	"github.com/ethereum/go-ethereum/crypto"
	"github.com/ethereum/go-ethereum/params"
	"github.com/holiman/uint256"
	"pgregory.net/rapid"
	"verif.local/kit/reffee"
	vs "verif.local/kit/stat"
)

// Settlement part of C31: signed transactions are applied one after the other to one
// state and one block gas pool through ApplyTransaction (the block processor's path);
// the refund and the pre-refund usage are observed through the gas-change tracer.

var (
	c31Keys = func() (ks []*c31Key) {
		for _, h := range []string{
			"b71c71a67e1177ad4e901695e1b4b9ee17ae16c6668d313eac2f96dbcda3f291",
			"8a1f9a8f95be41cd7ccb6168179afb4504aefe388d1e14474d32c45c72ce7b7a",
			"49a7b37aa6f6645917e7b807e9d1c00d4fa71f18343b0d4122a4d2df64dd6fee",
		} {
			k, _ := crypto.HexToECDSA(h)
			ks = append(ks, &c31Key{key: k, addr: crypto.PubkeyToAddress(k.PublicKey)})
		}
		return
	}()
	c31Setter   = common.HexToAddress("0x00000000000000000000000000000000000c3101")
	c31Clearers = []common.Address{common.HexToAddress("0x00000000000000000000000000000000000c3111"), common.HexToAddress("0x00000000000000000000000000000000000c3112"),
		common.HexToAddress("0x00000000000000000000000000000000000c3113"), common.HexToAddress("0x00000000000000000000000000000000000c3114")}
	c31Reverter   = common.HexToAddress("0x00000000000000000000000000000000000c3121")
	c31Halter     = common.HexToAddress("0x00000000000000000000000000000000000c3122")
	c31SetClear   = common.HexToAddress("0x00000000000000000000000000000000000c3123")
	c31CallRev    = common.HexToAddress("0x00000000000000000000000000000000000c3131")
	c31CallHalt   = common.HexToAddress("0x00000000000000000000000000000000000c3132")
	c31CallClear  = common.HexToAddress("0x00000000000000000000000000000000000c3133")
	c31PlainEOA   = common.HexToAddress("0x00000000000000000000000000000000000c31ee")
	c31Coinbase   = common.HexToAddress("0x00000000000000000000000000000000000c31cb")
	c31DeepClears = common.HexToAddress("0x00000000000000000000000000000000000c3115") // target of c31CallClear
)

type c31Key struct {
	key  *ecdsa.PrivateKey
	addr common.Address
}

func c31Asm(parts ...[]byte) []byte {
	var out []byte
	for _, p := range parts {
		out = append(out, p...)
	}
	return out
}

func c31Sstore(slot, val byte) []byte { return []byte{0x60, val, 0x60, slot, 0x55} }

// c31CallTo: CALL(gas=GAS, to, value 0, no args, no return); POP; STOP
func c31CallTo(to common.Address) []byte {
	return c31Asm([]byte{0x60, 0, 0x60, 0, 0x60, 0, 0x60, 0, 0x60, 0, 0x73}, to.Bytes(), []byte{0x5a, 0xf1, 0x50, 0x00})
}

func c31ClearerCode() []byte {
	var code []byte
	for k := byte(1); k <= 10; k++ {
		code = append(code, c31Sstore(k, 0)...)
	}
	return append(code, 0x00)
}

func c31Alloc() types.GenesisAlloc {
	rich := new(big.Int).Lsh(big.NewInt(1), 100)
	alloc := types.GenesisAlloc{
		// SSTORE(calldata[0:32], calldata[32:64]); STOP
		c31Setter:    {Code: []byte{0x60, 0x20, 0x35, 0x60, 0x00, 0x35, 0x55, 0x00}, Balance: big.NewInt(1), Storage: map[common.Hash]common.Hash{}},
		c31Reverter:  {Code: c31Asm(c31Sstore(0x70, 1), []byte{0x60, 0, 0x60, 0, 0xfd}), Balance: big.NewInt(1)},
		c31Halter:    {Code: c31Asm(c31Sstore(0x71, 1), []byte{0xfe}), Balance: big.NewInt(1)},
		c31SetClear:  {Code: c31Asm(c31Sstore(0x72, 1), c31Sstore(0x72, 0), []byte{0x00}), Balance: big.NewInt(1)},
		c31CallRev:   {Code: c31Asm(c31Sstore(0x73, 1), c31CallTo(c31Reverter)), Balance: big.NewInt(1)},
		c31CallHalt:  {Code: c31Asm(c31Sstore(0x74, 1), c31CallTo(c31Halter)), Balance: big.NewInt(1)},
		c31CallClear: {Code: c31CallTo(c31DeepClears), Balance: big.NewInt(1)},
		c31PlainEOA:  {Balance: big.NewInt(1)},
	}
	for i := byte(1); i <= 8; i++ { // pre-existing slots of the setter (clearing them earns a refund)
		alloc[c31Setter].Storage[common.BytesToHash([]byte{i})] = common.BytesToHash([]byte{0xaa})
	}
	full := map[common.Hash]common.Hash{}
	for k := byte(1); k <= 10; k++ {
		full[common.BytesToHash([]byte{k})] = common.BytesToHash([]byte{1})
	}
	for _, a := range append(append([]common.Address{}, c31Clearers...), c31DeepClears) {
		st := map[common.Hash]common.Hash{}
		for k, v := range full {
			st[k] = v
		}
		alloc[a] = types.Account{Code: c31ClearerCode(), Balance: big.NewInt(1), Storage: st}
	}
	for _, k := range c31Keys {
		alloc[k.addr] = types.Account{Balance: rich}
	}
	return alloc
}

// c31State commits the allocation so that the storage is "original" (committed) state.
func c31State(t interface{ Fatalf(string, ...any) }) *state.StateDB {
	db := state.NewDatabaseForTesting()
	sdb, _ := state.New(types.EmptyRootHash, db)
	for addr, acc := range c31Alloc() {
		sdb.CreateAccount(addr)
		sdb.AddBalance(addr, uint256.MustFromBig(acc.Balance), tracing.BalanceChangeUnspecified)
		if len(acc.Code) != 0 {
			sdb.SetCode(addr, acc.Code, tracing.CodeChangeUnspecified)
			sdb.SetNonce(addr, 1, tracing.NonceChangeGenesis)
		}
		for k, v := range acc.Storage {
			sdb.SetState(addr, k, v)
		}
	}
	root, err := sdb.Commit(params.Rules{IsEIP158: true}, 0)
	if err != nil {
		t.Fatalf("VERIF-HARNESS-BUG: commit prestate: %v", err)
	}
	sdb, err = state.New(root, db)
	if err != nil {
		t.Fatalf("VERIF-HARNESS-BUG: reopen prestate: %v", err)
	}
	return sdb
}

type c31TxPlan struct {
	kind     string
	to       *common.Address
	data     []byte
	value    int64
	gas      uint64
	sender   int
	zero, nz int64
}

func c31Word(v byte) []byte { return common.BytesToHash([]byte{v}).Bytes() }

func c31GenTx(rt *rapid.T, amsterdam bool, newSlot *byte) c31TxPlan {
	p := c31TxPlan{sender: rapid.IntRange(0, len(c31Keys)-1).Draw(rt, "sender")}
	to := func(a common.Address) *common.Address { return &a }
	switch rapid.IntRange(0, 12).Draw(rt, "txkind") {
	case 0:
		p.kind, p.to, p.value = "transfer", to(c31PlainEOA), int64(rapid.IntRange(0, 5).Draw(rt, "value"))
	case 1: // clear a pre-existing slot: 4800 refund (capped at 1/5)
		slot := byte(rapid.IntRange(1, 8).Draw(rt, "slot"))
		p.kind, p.to, p.data = "setter-clear", to(c31Setter), append(c31Word(slot), c31Word(0)...)
	case 2: // create a new slot (state gas under Amsterdam)
		*newSlot++
		p.kind, p.to, p.data = "setter-new", to(c31Setter), append(c31Word(0x80+*newSlot%0x70), c31Word(7)...)
	case 3:
		slot := byte(rapid.IntRange(1, 8).Draw(rt, "slot"))
		p.kind, p.to, p.data = "setter-overwrite", to(c31Setter), append(c31Word(slot), c31Word(byte(rapid.IntRange(1, 3).Draw(rt, "val")))...)
	case 4, 5: // ten clears: refund far above the cap
		p.kind, p.to = "clear10", to(c31Clearers[rapid.IntRange(0, len(c31Clearers)-1).Draw(rt, "clearer")])
	case 6:
		p.kind, p.to = "revert", to(c31Reverter)
	case 7:
		p.kind, p.to = "halt", to(c31Halter)
	case 8:
		p.kind, p.to = "set-then-clear", to(c31SetClear)
	case 9:
		p.kind, p.to = rapid.SampledFrom([]string{"call-revert", "call-halt", "call-clear10"}).Draw(rt, "nested"), nil
		switch p.kind {
		case "call-revert":
			p.to = to(c31CallRev)
		case "call-halt":
			p.to = to(c31CallHalt)
		default:
			p.to = to(c31CallClear)
		}
	case 10: // contract creation
		switch rapid.IntRange(0, 2).Draw(rt, "initkind") {
		case 0: // returns 10 bytes of runtime code
			p.kind, p.data = "create", c31Asm([]byte{0x60, 0x0a, 0x60, 0x0c, 0x60, 0x00, 0x39, 0x60, 0x0a, 0x60, 0x00, 0xf3}, []byte{0x60, 1, 0x60, 0, 0x55, 0, 0, 0, 0, 0})
		case 1: // stores then reverts
			p.kind, p.data = "create-revert", c31Asm(c31Sstore(1, 1), []byte{0x60, 0, 0x60, 0, 0xfd})
		default:
			p.kind, p.data = "create-halt", c31Asm(c31Sstore(1, 1), []byte{0xfe})
		}
	default: // calldata heavy: the EIP-7623 floor decides
		n := rapid.IntRange(1, 600).Draw(rt, "cdlen")
		p.kind, p.to = "calldata", to(c31PlainEOA)
		p.data = make([]byte, n)
		for i := range p.data {
			if i%4 != 3 {
				p.data[i] = byte(1 + i%200)
			}
		}
	}
	for _, b := range p.data {
		if b == 0 {
			p.zero++
		} else {
			p.nz++
		}
	}
	switch rapid.IntRange(0, 9).Draw(rt, "gaskind") {
	case 0:
		p.gas = uint64(rapid.IntRange(0, 30_000).Draw(rt, "gaslow")) // often below intrinsic/floor
	case 1, 2:
		p.gas = uint64(rapid.IntRange(21_000, 120_000).Draw(rt, "gasmid")) // may run out of gas mid-way
	case 3, 4:
		if amsterdam {
			p.gas = params.MaxTxGas + uint64(rapid.IntRange(1, 4_000_000).Draw(rt, "gashuge")) // above MaxTxGas: reservoir
		} else {
			p.gas = uint64(rapid.IntRange(1_000_000, 16_777_216).Draw(rt, "gashuge"))
		}
	default:
		hi := 600_000
		if amsterdam {
			hi = 3_000_000
		}
		p.gas = uint64(rapid.IntRange(100_000, hi).Draw(rt, "gas"))
	}
	return p
}

func c31Settlement(t *testing.T, amsterdam bool, mult float64) {
	st := vs.New("C31", t)
	cfg := params.MergedTestChainConfig
	if amsterdam {
		cfg = balChainConfig()
	}
	signer := types.LatestSigner(cfg)
	vs.Check(t, mult, func(rt *rapid.T) {
		c := st.Case()
		sdb := c31State(rt)
		var limit uint64
		switch rapid.IntRange(0, 3).Draw(rt, "limitkind") {
		case 0:
			limit = uint64(rapid.IntRange(50_000, 400_000).Draw(rt, "limit"))
		case 1:
			limit = uint64(rapid.IntRange(400_000, 3_000_000).Draw(rt, "limit"))
		case 2:
			if amsterdam { // around MaxTxGas: the state dimension reserves the whole gas limit, the execution dimension only MaxTxGas
				limit = params.MaxTxGas + uint64(rapid.IntRange(0, 4_000_000).Draw(rt, "limitextra"))
			} else {
				limit = uint64(rapid.IntRange(3_000_000, 60_000_000).Draw(rt, "limit"))
			}
		default:
			limit = uint64(rapid.IntRange(3_000_000, 60_000_000).Draw(rt, "limit"))
		}
		baseFee := big.NewInt(int64(rapid.SampledFrom([]int{0, 1, 7, 1_000_000_000}).Draw(rt, "basefee")))
		header := &types.Header{Number: big.NewInt(1), Time: 1, GasLimit: limit, BaseFee: baseFee, Difficulty: big.NewInt(0), Coinbase: c31Coinbase}
		// observation of the settlement through the tracer
		var obsPreLeft, obsRefund, obsFloorDiff uint64
		var sawRefundEvent bool
		hooks := &tracing.Hooks{OnGasChange: func(old, new uint64, reason tracing.GasChangeReason) {
			switch reason {
			case tracing.GasChangeTxRefunds:
				sawRefundEvent, obsPreLeft, obsRefund = true, old, new-old
			case tracing.GasChangeTxDataFloor:
				obsFloorDiff = old - new
			}
		}}
		ctx := NewEVMBlockContext(header, nil, &c31Coinbase)
		evm := vm.NewEVM(ctx, sdb, cfg, vm.Config{Tracer: hooks})
		gp := NewGasPool(limit)

		ntx := rapid.IntRange(1, 12).Draw(rt, "ntx")
		nonces := make([]uint64, len(c31Keys))
		var newSlot byte
		var cumulative uint64
		var desc []string
		included, rejected, refunded, capped, floored, failed, notFit, notFitStateOnly := 0, 0, 0, 0, 0, 0, 0, 0
		for i := 0; i < ntx; i++ {
			p := c31GenTx(rt, amsterdam, &newSlot)
			k := c31Keys[p.sender]
			price := new(big.Int).Add(baseFee, big.NewInt(2))
			tx, err := types.SignNewTx(k.key, signer, &types.LegacyTx{Nonce: nonces[p.sender], To: p.to, Value: big.NewInt(p.value), Gas: p.gas, GasPrice: price, Data: p.data})
			if err != nil {
				rt.Fatalf("VERIF-HARNESS-BUG: sign: %v", err)
			}
			desc = append(desc, fmt.Sprintf("%s/%d/s%d", p.kind, p.gas, p.sender))
			// predicted "does not fit" from the pool's own public state
			var mustNotFit bool
			if amsterdam {
				mustNotFit = limit-gp.CumulativeExecution() < min(p.gas, params.MaxTxGas) || limit-gp.CumulativeState() < p.gas
				if mustNotFit && limit-gp.CumulativeExecution() >= min(p.gas, params.MaxTxGas) {
					notFitStateOnly++
				}
			} else {
				mustNotFit = gp.Gas() < p.gas
			}
			snap, gpSnap := sdb.Snapshot(), gp.Snapshot()
			sawRefundEvent, obsPreLeft, obsRefund, obsFloorDiff = false, 0, 0, 0
			sdb.SetTxContext(tx.Hash(), included, uint32(included+1))
			receipt, _, err := ApplyTransaction(evm, gp, sdb, header, tx)
			if err != nil {
				if mustNotFit && !errors.Is(err, ErrGasLimitReached) {
					// another consensus error may legitimately come first (none is checked before the pool in preCheck
					// except nonce/EOA/fee checks, which the generator satisfies)
					rt.Fatalf("tx %d (%s gas=%d) does not fit the block (limit %d, pool %v) but was refused with %v", i, p.kind, p.gas, limit, gpSnap, err)
				}
				if errors.Is(err, ErrGasLimitReached) {
					notFit++
					if !mustNotFit {
						rt.Fatalf("tx %d (%s gas=%d) refused with %v although it fits (limit %d, pool %v)", i, p.kind, p.gas, err, limit, gpSnap)
					}
				}
				// a refused transaction leaves no trace: the caller (miner / block validator) rolls back
				sdb.RevertToSnapshot(snap)
				gp.Set(gpSnap)
				rejected++
				continue
			}
			if mustNotFit {
				rt.Fatalf("tx %d (%s gas=%d) was included although it does not fit: limit %d, pool before %v", i, p.kind, p.gas, limit, gpSnap)
			}
			included++
			nonces[p.sender]++
			// --- transaction level
			if receipt.GasUsed > p.gas {
				rt.Fatalf("tx %d (%s): gas used %d exceeds gas limit %d", i, p.kind, receipt.GasUsed, p.gas)
			}
			if receipt.GasUsed == 0 {
				rt.Fatalf("tx %d (%s): zero gas used", i, p.kind)
			}
			if !sawRefundEvent {
				rt.Fatalf("VERIF-HARNESS-BUG: no GasChangeTxRefunds event for tx %d", i)
			}
			preRefundUsed := p.gas - obsPreLeft
			if obsPreLeft > p.gas {
				rt.Fatalf("tx %d (%s): gas left before refund %d exceeds the gas limit %d", i, p.kind, obsPreLeft, p.gas)
			}
			if obsRefund > preRefundUsed/5 {
				rt.Fatalf("tx %d (%s): refund %d exceeds one fifth of the pre-refund usage %d", i, p.kind, obsRefund, preRefundUsed)
			}
			floor := reffee.FloorDataGas(reffee.TxShape{ZeroBytes: p.zero, NonZeroBytes: p.nz}).Uint64()
			if amsterdam {
				// EIP-7976/2780 floor: no independent reference available offline, use the client's own
				msg, _ := TransactionToMessage(tx, signer, baseFee)
				floor, _ = FloorDataGas(evm.GetRules(), msg.From, msg.To, msg.Value, msg.Data, msg.AccessList)
			}
			if receipt.GasUsed < floor {
				rt.Fatalf("tx %d (%s): gas used %d below the calldata floor %d", i, p.kind, receipt.GasUsed, floor)
			}
			wantUsed := preRefundUsed - obsRefund
			if wantUsed < floor {
				wantUsed = floor
			}
			if receipt.GasUsed != wantUsed {
				rt.Fatalf("tx %d (%s): receipt gas used %d, but pre-refund usage %d - refund %d (floor %d) gives %d", i, p.kind, receipt.GasUsed, preRefundUsed, obsRefund, floor, wantUsed)
			}
			// --- block level
			cumulative += receipt.GasUsed
			if receipt.CumulativeGasUsed != cumulative {
				rt.Fatalf("tx %d (%s): receipt cumulative gas %d, running sum %d", i, p.kind, receipt.CumulativeGasUsed, cumulative)
			}
			if gp.CumulativeUsed() != cumulative {
				rt.Fatalf("tx %d: pool cumulative used %d, running sum %d", i, gp.CumulativeUsed(), cumulative)
			}
			if amsterdam {
				if gp.CumulativeExecution() > limit || gp.CumulativeState() > limit || gp.Used() > limit {
					rt.Fatalf("tx %d: block dimensions exceed the limit %d: execution %d state %d", i, limit, gp.CumulativeExecution(), gp.CumulativeState())
				}
				if gp.Used() != max(gp.CumulativeExecution(), gp.CumulativeState()) {
					rt.Fatalf("tx %d: block gas used %d is not max(execution %d, state %d)", i, gp.Used(), gp.CumulativeExecution(), gp.CumulativeState())
				}
				if gp.CumulativeExecution() < gpSnap.CumulativeExecution() || gp.CumulativeState() < gpSnap.CumulativeState() {
					rt.Fatalf("tx %d: a block dimension decreased", i)
				}
			} else {
				if cumulative > limit {
					rt.Fatalf("tx %d: cumulative gas used %d exceeds the block gas limit %d", i, cumulative, limit)
				}
				if gp.Gas() != limit-cumulative || gp.Used() != cumulative {
					rt.Fatalf("tx %d: pool remaining %d / used %d, expected %d / %d", i, gp.Gas(), gp.Used(), limit-cumulative, cumulative)
				}
			}
			if obsRefund > 0 {
				refunded++
				if obsRefund == preRefundUsed/5 {
					capped++
				}
			}
			if obsFloorDiff > 0 {
				floored++
			}
			if receipt.Status == types.ReceiptStatusFailed {
				failed++
			}
		}
		c.Classf("included=%d", min(included, 6))
		if rejected > 0 {
			c.Class("has-rejected")
		}
		if notFit > 0 {
			c.Class("has-does-not-fit")
		}
		if notFitStateOnly > 0 {
			c.Class("has-does-not-fit-state-dimension-only")
		}
		if refunded > 0 {
			c.Class("has-refund")
		}
		if capped > 0 {
			c.Class("has-capped-refund")
		}
		if floored > 0 {
			c.Class("has-floor-applied")
		}
		if failed > 0 {
			c.Class("has-failed-tx")
		}
		d := fmt.Sprintf("ams=%v limit=%d bf=%v %s", amsterdam, limit, baseFee, strings.Join(desc, " "))
		c.NonTrivial(refunded > 0, d)
		c.Sample(refunded > 0, func() any {
			return map[string]any{"block": d, "included": included, "rejected": rejected, "refunded": refunded, "capped": capped, "blockGasUsed": gp.Used()}
		})
	})
}

// TestVerifC31SettlementOsaka: one-dimensional settlement (Prague/Osaka rules).
func TestVerifC31SettlementOsaka(t *testing.T) { c31Settlement(t, false, 1) }

// TestVerifC31SettlementAmsterdam: two-dimensional block accounting (EIP-8037).
func TestVerifC31SettlementAmsterdam(t *testing.T) { c31Settlement(t, true, 1) }
