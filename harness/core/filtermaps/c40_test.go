//go:build verif

package filtermaps

// C40 (sibling, white-box) — the matcher has no false negatives on the indexed range.
//
// eth/filters removes false positives from what GetPotentialMatches returns and
// trusts it to contain every true match inside the block range the index reports
// as indexed. Here the package's own testSetup/testChain is driven through chain
// growth, reorgs, rewinds, branch switches and indexer restarts with other history
// limits (tail unindexing / re-indexing); after every quiescence the indexed block
// range is read white-box and GetPotentialMatches is compared with the harness's
// own record of the canonical logs: every true match of the searched sub-range
// must be present, in chain order, without duplicates.

import (
	"context"
	"encoding/binary"
	"fmt"
	"math/big"
	"math/rand"
	"os"
	"slices"
	"strings"
	"sync/atomic"
	"testing"
	"time"

	"github.com/ethereum/go-ethereum/common"
	"github.com/ethereum/go-ethereum/consensus/ethash"
	"github.com/ethereum/go-ethereum/core"
	"github.com/ethereum/go-ethereum/core/rawdb"
	"github.com/ethereum/go-ethereum/core/types"
	"github.com/ethereum/go-ethereum/log"
	"github.com/ethereum/go-ethereum/params"
	"pgregory.net/rapid"
	vs "verif.local/kit/stat"
)

const c40xIdleBound = 10 * time.Minute

type c40xPreset struct {
	name string
	p    Params
}

// same presets (and preconditions) as the eth/filters harness
var c40xPresets = []c40xPreset{
	{"A-h2e4v4", testParams},
	{"B-h3e2v5", Params{logMapHeight: 3, logMapWidth: 24, logMapsPerEpoch: 2, logValuesPerMap: 5, baseRowGroupSize: 2, baseRowLengthRatio: 4, logLayerDiff: 1}},
	{"C-h4e1v6", Params{logMapHeight: 4, logMapWidth: 24, logMapsPerEpoch: 1, logValuesPerMap: 6, baseRowGroupSize: 2, baseRowLengthRatio: 8, logLayerDiff: 4}},
	{"D-h1e3v3", Params{logMapHeight: 1, logMapWidth: 24, logMapsPerEpoch: 3, logValuesPerMap: 3, baseRowGroupSize: 1, baseRowLengthRatio: 1, logLayerDiff: 1}},
	{"E-h2e0v5", Params{logMapHeight: 2, logMapWidth: 24, logMapsPerEpoch: 0, logValuesPerMap: 5, baseRowGroupSize: 1, baseRowLengthRatio: 4, logLayerDiff: 2}},
}

type c40xLog struct {
	addr   common.Address
	topics []common.Hash
	idx    uint
}

type c40xWorld struct {
	t       *testing.T
	rt      *rapid.T
	ts      *testSetup
	preset  c40xPreset
	logs    map[common.Hash][]c40xLog // per block hash
	saved   [][]common.Hash
	addrs   [4]common.Address
	tpool   [5]common.Hash
	nonce   uint64
	tag     int
	trace   []string
	lastOp  string
	reorged bool

	history  uint64
	disabled bool
}

func (w *c40xWorld) tracef(format string, a ...any) {
	w.trace = append(w.trace, fmt.Sprintf(format, a...))
}

func (w *c40xWorld) traceText() string {
	return "\n  trace: " + strings.Join(w.trace, "\n         ")
}

type c40xDensity struct{ txMax, logMax int }

// addBlocks is testChain.addBlocks with drawn (reproducible) contents from small
// pools, distinct sibling blocks (extra data) and receipt blooms.
func (w *c40xWorld) addBlocks(count int, seed uint64, d c40xDensity) {
	tc := w.ts.chain
	prng := rand.New(rand.NewSource(int64(seed)))
	w.tag++
	tag := w.tag
	var model [][]c40xLog
	blockGen := func(i int, gen *core.BlockGen) {
		gen.SetExtra([]byte{'c', '4', '0', byte(tag >> 8), byte(tag)})
		var (
			logs   []c40xLog
			logIdx uint
		)
		ntx := 0
		if d.txMax > 0 {
			ntx = prng.Intn(d.txMax + 1)
		}
		for k := 0; k < ntx; k++ {
			receipt := types.NewReceipt(nil, false, 0)
			nlogs := 0
			if d.logMax > 0 {
				nlogs = prng.Intn(d.logMax + 1)
			}
			for j := 0; j < nlogs; j++ {
				l := c40xLog{addr: w.addrs[prng.Intn(len(w.addrs))], idx: logIdx}
				logIdx++
				for n := prng.Intn(5); n > 0; n-- {
					l.topics = append(l.topics, w.tpool[prng.Intn(len(w.tpool))])
				}
				logs = append(logs, l)
				receipt.Logs = append(receipt.Logs, &types.Log{Address: l.addr, Topics: slices.Clone(l.topics), Data: binary.BigEndian.AppendUint64(nil, uint64(len(logs)))})
			}
			receipt.Bloom = types.CreateBloom(receipt)
			gen.AddUncheckedReceipt(receipt)
			w.nonce++
			gen.AddUncheckedTx(types.NewTransaction(w.nonce, common.HexToAddress("0x999"), big.NewInt(999), 999, gen.BaseFee(), nil))
		}
		model = append(model, logs)
	}
	tc.lock.Lock()
	var (
		blocks   []*types.Block
		receipts []types.Receipts
		engine   = ethash.NewFaker()
	)
	if len(tc.canonical) == 0 {
		gspec := &core.Genesis{
			Alloc:   types.GenesisAlloc{},
			BaseFee: big.NewInt(params.InitialBaseFee),
			Config:  params.TestChainConfig,
		}
		tc.db, blocks, receipts = core.GenerateChainWithGenesis(gspec, engine, count, blockGen)
		gblock := gspec.ToBlock()
		ghash := gblock.Hash()
		tc.canonical = []common.Hash{ghash}
		tc.blocks[ghash] = gblock
		tc.receipts[ghash] = types.Receipts{}
	} else {
		blocks, receipts = core.GenerateChain(params.TestChainConfig, tc.blocks[tc.canonical[len(tc.canonical)-1]], engine, tc.db, count, blockGen)
	}
	for i, block := range blocks {
		num, hash := int(block.NumberU64()), block.Hash()
		if len(tc.canonical) != num {
			panic("canonical chain length mismatch")
		}
		tc.canonical = append(tc.canonical, hash)
		tc.blocks[hash] = block
		if receipts[i] != nil {
			tc.receipts[hash] = receipts[i]
		} else {
			tc.receipts[hash] = types.Receipts{}
		}
		w.logs[hash] = model[i]
	}
	tc.lock.Unlock()
}

func (w *c40xWorld) canon() []common.Hash { return w.ts.chain.getCanonicalChain() }

func (w *c40xWorld) waitIdle() {
	fm := w.ts.fm
	done := make(chan struct{})
	go func() { fm.WaitIdle(); close(done) }()
	select {
	case <-done:
	case <-time.After(c40xIdleBound):
		w.t.Fatalf("VERIF-INCONCLUSIVE C40: log indexer not idle within %v", c40xIdleBound)
	}
}

type c40xCrit struct {
	addrs  []common.Address
	topics [][]common.Hash
}

func (c c40xCrit) match(l *c40xLog) bool {
	if len(c.addrs) > 0 && !slices.Contains(c.addrs, l.addr) {
		return false
	}
	if len(c.topics) > len(l.topics) {
		return false
	}
	for i, alts := range c.topics {
		if len(alts) > 0 && !slices.Contains(alts, l.topics[i]) {
			return false
		}
	}
	return true
}

func (c c40xCrit) matchAll() bool {
	if len(c.addrs) > 0 {
		return false
	}
	for _, a := range c.topics {
		if len(a) > 0 {
			return false
		}
	}
	return true
}

func (c c40xCrit) String() string {
	var sb strings.Builder
	sb.WriteString("addr[")
	for _, a := range c.addrs {
		fmt.Fprintf(&sb, "%x,", a[17:])
	}
	sb.WriteString("] topics[")
	for _, alts := range c.topics {
		sb.WriteString("(")
		for _, tp := range alts {
			fmt.Fprintf(&sb, "%x,", tp[29:])
		}
		sb.WriteString(")")
	}
	return sb.String() + "]"
}

func (w *c40xWorld) drawCrit(from *c40xLog) c40xCrit {
	rt := w.rt
	var c c40xCrit
	if from != nil {
		switch rapid.IntRange(0, 2).Draw(rt, "addrShape") {
		case 0:
		case 1:
			c.addrs = []common.Address{from.addr}
		case 2:
			c.addrs = []common.Address{w.addrs[rapid.IntRange(0, 3).Draw(rt, "addr")], from.addr}
		}
		npos := rapid.IntRange(0, len(from.topics)).Draw(rt, "npos")
		for i := 0; i < npos; i++ {
			var alts []common.Hash
			switch rapid.IntRange(0, 2).Draw(rt, "topicShape") {
			case 0:
			case 1:
				alts = []common.Hash{from.topics[i]}
			case 2:
				alts = []common.Hash{w.tpool[rapid.IntRange(0, 4).Draw(rt, "alt")], from.topics[i]}
			}
			c.topics = append(c.topics, alts)
		}
	} else {
		if n := rapid.IntRange(0, 3).Draw(rt, "naddr"); n > 0 {
			first := rapid.IntRange(0, 3).Draw(rt, "addr")
			for j := 0; j < n; j++ {
				c.addrs = append(c.addrs, w.addrs[(first+j)%4])
			}
		}
		npos := rapid.IntRange(0, 4).Draw(rt, "npos")
		for i := 0; i < npos; i++ {
			var alts []common.Hash
			if n := rapid.IntRange(0, 3).Draw(rt, "nalts"); n > 0 {
				first := rapid.IntRange(0, 4).Draw(rt, "alt")
				for j := 0; j < n; j++ {
					alts = append(alts, w.tpool[(first+j*2)%5])
				}
			}
			c.topics = append(c.topics, alts)
		}
	}
	if c.matchAll() { // the matcher refuses match-all patterns by contract (ErrMatchAll)
		c.addrs = []common.Address{w.addrs[rapid.IntRange(0, 3).Draw(rt, "addrFallback")]}
	}
	return c
}

func (w *c40xWorld) describeIndex() string {
	f := w.ts.fm
	f.indexLock.RLock()
	defer f.indexLock.RUnlock()
	r := f.indexedRange
	return fmt.Sprintf("disabled=%v initialized=%v headIndexed=%v headDelimiter=%d maps=[%d,%d) tailPartialEpoch=%d blocks=[%d,%d) history=%d preset=%s",
		f.disabled, r.initialized, r.headIndexed, r.headDelimiter, r.maps.First(), r.maps.AfterLast(), r.tailPartialEpoch, r.blocks.First(), r.blocks.AfterLast(), w.history, w.preset.name)
}

func (w *c40xWorld) pointers(from, to uint64) string {
	f := w.ts.fm
	var sb strings.Builder
	for n := from; n <= to; n++ {
		f.indexLock.RLock()
		p, err := f.getBlockLvPointer(n)
		f.indexLock.RUnlock()
		if err != nil {
			fmt.Fprintf(&sb, " #%d:-", n)
		} else {
			fmt.Fprintf(&sb, " #%d:%d(map %d+%d)", n, p, p>>f.logValuesPerMap, p&(f.valuesPerMap-1))
		}
	}
	return sb.String()
}

func (w *c40xWorld) mapsInfo(from, to uint32) string {
	f := w.ts.fm
	var sb strings.Builder
	for m := from; m <= to; m++ {
		n, id, err := f.getLastBlockOfMap(m)
		if err != nil {
			fmt.Fprintf(&sb, " map%d:-", m)
		} else {
			fmt.Fprintf(&sb, " map%d:last#%d/%x", m, n, id[:3])
		}
	}
	return sb.String()
}

// checkIndexed compares the matcher with the model on the block range the index
// reports as fully indexed.
func (w *c40xWorld) checkIndexed(st *vs.S, nchecks int) {
	f := w.ts.fm
	f.indexLock.RLock()
	r := f.indexedRange
	f.indexLock.RUnlock()
	if w.disabled {
		if r.initialized {
			w.rt.Fatalf("index range initialized although indexing is disabled: %s%s", w.describeIndex(), w.traceText())
		}
		return
	}
	if f.disabled {
		// The indexer hit an error and switched itself off (disableForError): matcher backends then
		// report no indexed range and eth/filters searches unindexed, so stale index data is never
		// served. Not a C40 matter; counted so that the evidence shows how often it happens.
		c40xGaveUp.Add(1)
		st.Note("indexer disabled itself after an error in some scenario (preset %s, history %d, last op %s)", w.preset.name, w.history, w.lastOp)
		return
	}
	if !r.hasIndexedBlocks() {
		return
	}
	first, last := r.blocks.First(), r.blocks.Last()
	if !r.headIndexed { // last block only partially indexed (same rule as FilterMapsMatcherBackend.synced)
		if last == first {
			return
		}
		last--
	}
	// known finding (only if listed): the first "indexed" block begins in an unindexed map
	// (see c40ClassTailPartial in the eth/filters harness)
	if first > 0 && vs.Known("TestVerifC40Index", "first-indexed-block-partially-unindexed") {
		for { // the lowered first can lie several blocks below the first rendered map
			f.indexLock.RLock()
			p, err := f.getBlockLvPointer(first)
			f.indexLock.RUnlock()
			if err != nil || uint32(p>>f.logValuesPerMap) >= r.maps.First() {
				break
			}
			st.Excluded()
			w.tracef("indexed block %d begins in unindexed map %d (known finding); skipped", first, p>>f.logValuesPerMap)
			if first == last {
				return
			}
			first++
		}
	}
	canon := w.canon()
	if last >= uint64(len(canon)) {
		w.rt.Fatalf("indexed block range [%d,%d] beyond the chain head %d: %s%s", first, last, len(canon)-1, w.describeIndex(), w.traceText())
	}
	for k := 0; k < nchecks; k++ {
		c := st.Case()
		// sub-range: biased to the boundaries of the indexed range
		a, b := first, last
		kind := rapid.IntRange(0, 5).Draw(w.rt, "subrange")
		switch kind {
		case 0: // whole indexed range
		case 1: // starts at the tail boundary
			b = first + uint64(rapid.IntRange(0, int(min(last-first, 6))).Draw(w.rt, "len"))
		case 2: // ends at the head
			a = last - uint64(rapid.IntRange(0, int(min(last-first, 6))).Draw(w.rt, "len"))
		case 3: // exactly the first indexed block
			b = first
		default:
			a = first + uint64(rapid.IntRange(0, int(last-first)).Draw(w.rt, "a"))
			b = a + uint64(rapid.IntRange(0, int(last-a)).Draw(w.rt, "len"))
		}
		var from *c40xLog
		if rapid.IntRange(0, 9).Draw(w.rt, "fromLog") < 7 {
			prng := rand.New(rand.NewSource(int64(rapid.Uint64().Draw(w.rt, "pick"))))
			for try := 0; try < 8 && from == nil; try++ {
				ls := w.logs[canon[a+uint64(prng.Int63n(int64(b-a+1)))]]
				if len(ls) > 0 {
					from = &ls[prng.Intn(len(ls))]
				}
			}
		}
		crit := w.drawCrit(from)

		type key struct {
			num uint64
			idx uint
		}
		var want []key
		for n := a; n <= b; n++ {
			ls := w.logs[canon[n]]
			for i := range ls {
				if crit.match(&ls[i]) {
					want = append(want, key{n, ls[i].idx})
				}
			}
		}
		mb := f.NewMatcherBackend()
		got, err := GetPotentialMatches(context.Background(), mb, a, b, crit.addrs, crit.topics)
		mb.Close()
		fail := func(msg string) {
			fm := r.maps.First()
			w.rt.Fatalf("GetPotentialMatches(blocks [%d,%d], %s) after %s: %s\n  index: %s\n  block pointers:%s\n  last blocks of maps:%s%s",
				a, b, crit, w.lastOp, msg, w.describeIndex(), w.pointers(max(a, 2)-2, min(b+1, a+24)), w.mapsInfo(max(fm, 3)-3, fm+3), w.traceText())
		}
		if err != nil {
			fail(fmt.Sprintf("error inside the indexed range: %v", err))
		}
		// every true match present, in order; the rest are false positives (allowed) but must be
		// canonical logs of the searched range, strictly ordered (no duplicates)
		wi := 0
		var prev key
		for i, l := range got {
			if l == nil {
				fail(fmt.Sprintf("entry %d is nil", i))
			}
			k := key{l.BlockNumber, l.Index}
			if l.BlockNumber < a || l.BlockNumber > b {
				fail(fmt.Sprintf("entry %d is from block %d, outside the searched range", i, l.BlockNumber))
			}
			if l.BlockHash != canon[l.BlockNumber] {
				fail(fmt.Sprintf("entry %d (log %d, addr %x, %d topics) is from non-canonical block %d/%x (canonical: %x with %d logs in the model; indexed view says %x; receipts of the canonical block hold %d logs)",
					i, l.Index, l.Address[17:], len(l.Topics), l.BlockNumber, l.BlockHash[:6], canon[l.BlockNumber][:6], len(w.logs[canon[l.BlockNumber]]), f.indexedView.BlockHash(l.BlockNumber).Bytes()[:6], c40xCountLogs(w.ts.chain.GetReceiptsByHash(canon[l.BlockNumber]))))
			}
			if i > 0 && (k.num < prev.num || (k.num == prev.num && k.idx <= prev.idx)) {
				fail(fmt.Sprintf("entry %d (block %d log %d) not after entry %d (block %d log %d): order/duplicates", i, k.num, k.idx, i-1, prev.num, prev.idx))
			}
			prev = k
			if wi < len(want) && want[wi] == k {
				wi++
			}
		}
		if wi != len(want) {
			fail(fmt.Sprintf("false negative: true match block %d log %d missing (%d potential matches, %d true matches, %d found)", want[wi].num, want[wi].idx, len(got), len(want), wi))
		}
		// statistics
		c.Class("preset:" + w.preset.name)
		c.Class("op:" + w.lastOp)
		c.Classf("subrange:%d", kind)
		tail := a == first && first > 0
		if tail {
			c.Class("at-index-tail")
		}
		f.indexLock.RLock()
		pa, erra := f.getBlockLvPointer(a)
		pb, errb := f.getBlockLvPointer(b)
		f.indexLock.RUnlock()
		spans := erra == nil && errb == nil && pa>>f.logValuesPerMap != pb>>f.logValuesPerMap
		if spans {
			c.Class("spans-map-boundary")
			if pa>>(f.logValuesPerMap+f.logMapsPerEpoch) != pb>>(f.logValuesPerMap+f.logMapsPerEpoch) {
				c.Class("spans-epoch-boundary")
			}
		}
		if w.reorged {
			c.Class("after-reorg")
		}
		if r.tailPartialEpoch > 0 {
			c.Class("tail-partial-epoch")
		}
		switch {
		case len(want) == 0:
			c.Class("true:0")
		case len(want) < 10:
			c.Class("true:1-9")
		default:
			c.Class("true:10+")
		}
		if len(got) > len(want) {
			c.Class("has-false-positives")
		}
		nt := spans || tail || w.reorged
		c.NonTrivial(nt, fmt.Sprintf("%x|%d|%d|%s|%s|%d", canon[len(canon)-1][:8], a, b, crit, w.preset.name, w.history))
		c.Sample(nt, func() any {
			return map[string]any{"blocks": []uint64{a, b}, "crit": crit.String(), "index": w.describeIndex(), "potential": len(got), "true": len(want), "op": w.lastOp}
		})
	}
}

func (w *c40xWorld) drawDensity() c40xDensity {
	switch rapid.IntRange(0, 5).Draw(w.rt, "density") {
	case 0:
		return c40xDensity{1, 1}
	case 1:
		return c40xDensity{6, 8}
	case 2:
		return c40xDensity{2, 8}
	case 3:
		return c40xDensity{0, 0}
	default:
		return c40xDensity{rapid.IntRange(0, 6).Draw(w.rt, "txMax"), rapid.IntRange(0, 8).Draw(w.rt, "logMax")}
	}
}

func (w *c40xWorld) drawHistory() uint64 {
	n := len(w.canon())
	switch rapid.IntRange(0, 9).Draw(w.rt, "historyKind") {
	case 0, 1, 2:
		return 0
	case 3, 4, 5:
		return uint64(rapid.IntRange(1, 30).Draw(w.rt, "history"))
	case 6, 7, 8:
		return uint64(rapid.IntRange(1, n).Draw(w.rt, "history"))
	default:
		return uint64(n + rapid.IntRange(0, 50).Draw(w.rt, "history"))
	}
}

func (w *c40xWorld) setHistory(history uint64, disabled bool) {
	w.history, w.disabled = history, disabled
	w.ts.setHistory(history, disabled)
	if os.Getenv("VERIF_C40_RANGELOG") != "" { // triage aid: print every change of the indexed range (indexer goroutine)
		f := w.ts.fm
		var last string
		f.testProcessEventsHook = func() {
			r := f.indexedRange
			cur := fmt.Sprintf("maps=[%d,%d) partial=%d blocks=[%d,%d) headIndexed=%v temp=%v target=%d", r.maps.First(), r.maps.AfterLast(), r.tailPartialEpoch, r.blocks.First(), r.blocks.AfterLast(), r.headIndexed, f.hasTempRange, f.targetView.HeadNumber())
			if cur != last {
				last = cur
				fmt.Fprintln(os.Stderr, "RANGE", cur)
			}
		}
	}
	w.tracef("indexer (re)started at head %d, history %d, disabled %v", len(w.canon())-1, history, disabled)
}

func c40xScenario(t *testing.T, rt *rapid.T, st *vs.S) {
	w := &c40xWorld{t: t, rt: rt, logs: map[common.Hash][]c40xLog{}}
	for i := range w.addrs {
		w.addrs[i] = common.BytesToAddress([]byte{0xa0 + byte(i), 0x40, byte(i)})
	}
	for i := range w.tpool {
		w.tpool[i] = common.BytesToHash([]byte{0x70 + byte(i), 0x40, byte(i)})
	}
	w.preset = rapid.SampledFrom(c40xPresets).Draw(rt, "preset")
	p := w.preset.p
	p.deriveFields()
	w.ts = &testSetup{t: t, db: rawdb.NewMemoryDatabase(), params: p, dbHashes: make(map[string]common.Hash)}
	w.ts.chain = w.ts.newTestChain()
	defer w.ts.close()

	maxInit, maxGrow, maxSteps := 80, 30, 8
	if vs.Thorough() {
		maxInit, maxGrow, maxSteps = 150, 40, 12
	}
	n0 := rapid.IntRange(10, maxInit).Draw(rt, "initial")
	w.addBlocks(n0, rapid.Uint64().Draw(rt, "seed"), w.drawDensity())
	w.lastOp = "initial"
	w.tracef("initial chain: head %d", n0)
	w.setHistory(w.drawHistory(), rapid.IntRange(0, 14).Draw(rt, "disabled") == 0)
	w.waitIdle()
	w.checkIndexed(st, 3)

	steps := rapid.IntRange(3, maxSteps).Draw(rt, "steps")
	for s := 0; s < steps; s++ {
		tc := w.ts.chain
		canon := w.canon()
		n := len(canon)
		kind := rapid.IntRange(0, 9).Draw(rt, "op")
		if kind >= 7 && kind <= 8 && len(w.saved) == 0 {
			kind = 3
		}
		if kind >= 3 && kind <= 6 && n < 8 {
			kind = 0
		}
		settle := rapid.IntRange(0, 3).Draw(rt, "settle") > 0 // otherwise the next op hits the indexer mid-way
		switch {
		case kind <= 2:
			cnt := rapid.IntRange(1, maxGrow).Draw(rt, "extend")
			w.addBlocks(cnt, rapid.Uint64().Draw(rt, "seed"), w.drawDensity())
			tc.setTargetHead()
			w.lastOp = "extend"
			w.tracef("extend by %d: head %d", cnt, len(w.canon())-1)
		case kind <= 6:
			k := rapid.IntRange(1, max(1, (n-1)/2)).Draw(rt, "drop")
			m := rapid.IntRange(0, min(k+10, maxGrow+k)).Draw(rt, "add")
			w.saved = append(w.saved, canon)
			// one target update for the whole reorg
			tc.lock.Lock()
			tc.canonical = tc.canonical[:n-k]
			tc.lock.Unlock()
			if m > 0 {
				w.addBlocks(m, rapid.Uint64().Draw(rt, "seed"), w.drawDensity())
				w.lastOp = "reorg"
			} else {
				w.lastOp = "rewind"
			}
			tc.setTargetHead()
			w.reorged = true
			w.tracef("%s: drop %d add %d: head %d", w.lastOp, k, m, len(w.canon())-1)
		case kind <= 8:
			sv := w.saved[rapid.IntRange(0, len(w.saved)-1).Draw(rt, "saved")]
			h := rapid.IntRange(min(3, len(sv)-1), len(sv)-1).Draw(rt, "savedHead")
			w.saved = append(w.saved, canon)
			if len(w.saved) > 6 {
				w.saved = w.saved[1:]
			}
			// restoring formerly canonical entries is only done with the indexer idle on the current
			// chain: ChainView.blockHash reads the canonical hash before it validates the view's tail,
			// an A->B->A switch inside that window (impossible for BlockChain) would hand it a stale hash
			w.waitIdle()
			tc.setCanonicalChain(sv[:h+1])
			w.lastOp = "switch-branch"
			w.reorged = true
			w.tracef("switch to remembered branch at height %d", h)
		default:
			w.setHistory(w.drawHistory(), rapid.IntRange(0, 9).Draw(rt, "disabled") == 0)
			w.lastOp = "restart"
		}
		if settle || s == steps-1 {
			w.waitIdle()
			w.tracef("idle: %s", w.describeIndex())
			w.checkIndexed(st, rapid.IntRange(1, 4).Draw(rt, "nchecks"))
			w.reorged = false
		}
	}
}

var c40xGaveUp atomic.Int64

func TestVerifC40Index(t *testing.T) {
	if os.Getenv("VERIF_C40_LOG") != "" { // triage aid: geth's own log output (warn and above) on stderr
		log.SetDefault(log.NewLogger(log.NewTerminalHandlerWithLevel(os.Stderr, log.LevelWarn, false)))
	}
	st := vs.New("C40", t)
	vs.Check(t, 1, func(rt *rapid.T) { c40xScenario(t, rt, st) })
	st.Note("quiescent points at which the indexer had disabled itself after an error: %d", c40xGaveUp.Load())
}

func c40xCountLogs(rs types.Receipts) int {
	n := 0
	for _, r := range rs {
		n += len(r.Logs)
	}
	return n
}
