//go:build verif

package core_test

// C33: parallel (block-access-list driven) block execution agrees with sequential
// execution, and a block whose access list differs from the true one is rejected.
//
// One case = one worldgen Amsterdam chain of 1-2 blocks, in half of the cases on top of
// 1-270 filler blocks without transactions (c33Deepen), whose LAST block (worldgen plans
// plus engineered interactions injected by this file: a contract created by tx i and
// called by tx j, an account funded by tx i that spends in tx j, the same contract
// called repeatedly, EIP-7002/7251/8282 request contracts, an account created and
// destroyed mid-block, 2-24 transactions folding the BLOCKHASH of many ancestors into
// storage and a log) is held back and examined:
//
//   - truth: the sequential processor (vm.Config.DisableParallelExecution) on the
//     parent state; it must reproduce the chain maker's header (sanity of the domain);
//   - positive part: the parallel processor, R times under drawn GOMAXPROCS values and
//     with background scheduling noise, must return receipts (every consensus and
//     derived field the processor fills, logs with their indices, bloom), logs, gas
//     used, requests and a rebuilt access list identical to the sequential ones and an
//     IntermediateRoot equal to the sequential root; ValidateState accepts it; finally
//     BlockChain.InsertChain (the real path: shared cached reader, access-list
//     prefetcher, trie prefetcher) accepts the block on a parallel and on a sequential
//     chain and both heads carry the true root;
//   - negative part: K drawn mutations of the true access list (dropped / spurious /
//     altered / shifted / swapped / duplicated entries, see c33Mutate), shipped through
//     its RLP encoding, attached to the block with a matching header hash (or, in a
//     labelled minority, with the stale true hash; header state root either the true
//     one or the root obtained by applying the mutated list): InsertChain must return
//     an error on the parallel chain AND on the sequential chain, the head must stay at
//     the parent and no state may be recorded for the mutated block.
//
// The oracle is schedule independent; schedules are sampled (GOMAXPROCS, repetition,
// noise goroutines, -race in the thorough tier) and, in half of the parallel runs,
// steered through the chain context handed to the processor (c33GatedChain: header
// lookups for old ancestors by different workers are made to alternate).

import (
	"bytes"
	"context"
	"fmt"
	"math/big"
	"runtime"
	"sort"
	"strings"
	"sync"
	"sync/atomic"
	"testing"

	"github.com/ethereum/go-ethereum/common"
	"github.com/ethereum/go-ethereum/core"
	"github.com/ethereum/go-ethereum/core/rawdb"
	"github.com/ethereum/go-ethereum/core/state"
	"github.com/ethereum/go-ethereum/core/types"
	"github.com/ethereum/go-ethereum/core/types/bal"
	"github.com/ethereum/go-ethereum/core/vm"
	"github.com/ethereum/go-ethereum/crypto"
	"github.com/ethereum/go-ethereum/internal/verifx/worldgen"
	"github.com/ethereum/go-ethereum/params"
	"github.com/ethereum/go-ethereum/rlp"
	"github.com/holiman/uint256"
	"pgregory.net/rapid"
	ep "verif.local/kit/evmprog"
	vs "verif.local/kit/stat"
)

// ---------------------------------------------------------------------------------
// Mirror of the access-list wire format (the encoding types of package bal are
// unexported). Conversion goes through RLP in both directions, so a mutated list is
// exactly what a peer could send.

type c33Write struct {
	Idx uint32
	Val *uint256.Int
}
type c33Slot struct {
	Slot    *uint256.Int
	Changes []c33Write
}
type c33Bal struct {
	Idx uint32
	Val *uint256.Int
}
type c33Nonce struct {
	Idx   uint32
	Nonce uint64
}
type c33Code struct {
	Idx  uint32
	Code []byte
}
type c33Acc struct {
	Addr    common.Address
	Storage []c33Slot
	Reads   []*uint256.Int
	Bal     []c33Bal
	Nonce   []c33Nonce
	Code    []c33Code
}

func c33ToMirror(l *bal.BlockAccessList) ([]c33Acc, []byte, error) {
	var buf bytes.Buffer
	if err := l.EncodeRLP(&buf); err != nil {
		return nil, nil, err
	}
	var m []c33Acc
	if err := rlp.DecodeBytes(buf.Bytes(), &m); err != nil {
		return nil, nil, err
	}
	return m, buf.Bytes(), nil
}

func c33FromMirror(m []c33Acc) (*bal.BlockAccessList, []byte, error) {
	blob, err := rlp.EncodeToBytes(m)
	if err != nil {
		return nil, nil, err
	}
	l := new(bal.BlockAccessList)
	if err := rlp.DecodeBytes(blob, l); err != nil {
		return nil, blob, err
	}
	if *l == nil {
		*l = bal.BlockAccessList{}
	}
	return l, blob, nil
}

func c33CopyMirror(m []c33Acc) []c33Acc {
	blob, err := rlp.EncodeToBytes(m)
	if err != nil {
		panic(err)
	}
	var out []c33Acc
	if err := rlp.DecodeBytes(blob, &out); err != nil {
		panic(err)
	}
	return out
}

// ---------------------------------------------------------------------------------
// Small generic helpers.

func c33Insert[T any](s []T, i int, v T) []T {
	s = append(s, v)
	copy(s[i+1:], s[i:])
	s[i] = v
	return s
}

func c33Remove[T any](s []T, i int) []T {
	out := make([]T, 0, len(s)-1)
	out = append(out, s[:i]...)
	return append(out, s[i+1:]...)
}

func c33Pick(rt *rapid.T, label string, weights []int) int {
	total := 0
	for _, w := range weights {
		total += w
	}
	x := ep.Uniform(rt, label, total)
	for i, w := range weights {
		if x < w {
			return i
		}
		x -= w
	}
	return len(weights) - 1
}

// ---------------------------------------------------------------------------------
// Engineered interactions injected into the last block's plan list.

var c33CounterRuntime = []byte{ep.PUSH0, ep.SLOAD, ep.PUSH1, 1, ep.ADD, ep.DUP1, ep.PUSH0, ep.SSTORE, ep.PUSH0, ep.MSTORE, ep.PUSH1, 32, ep.PUSH0, ep.LOG0, ep.STOP}

// c33Factory is a helper contract this file adds to the genesis allocation: every call
// runs CREATE2(value=CALLVALUE, salt=0, initcode="ORIGIN SELFDESTRUCT"), i.e. creates
// the account c33FactoryChild and destroys it in the same transaction, sweeping its
// whole balance (endowment plus anything it held before) to the transaction sender.
// Together with a transaction that pays c33FactoryChild beforehand this yields an
// account that exists in the middle of the block and is gone (empty, to be deleted
// from the trie) at its end.
var (
	c33Factory        = common.HexToAddress("0xfac7000000000000000000000000000000000033")
	c33FactoryInit    = []byte{0x32, 0xff} // ORIGIN SELFDESTRUCT
	c33FactoryRuntime = []byte{ep.PUSH2, 0x32, 0xff, ep.PUSH0, ep.MSTORE, ep.PUSH0, ep.PUSH1, 2, ep.PUSH1, 30, 0x34 /*CALLVALUE*/, 0xf5 /*CREATE2*/, 0x50 /*POP*/, ep.STOP}
	c33FactoryChild   = crypto.CreateAddress2(c33Factory, [32]byte{}, crypto.Keccak256(c33FactoryInit))
)

// c33Reader is a second helper contract in the genesis allocation: a call with calldata
// (slot, k0, count, step) folds the hashes of count ancestors into one word,
//
//	acc = 0; k = k0; repeat count times { acc = acc*3 + BLOCKHASH(NUMBER-k); k += step }
//
// stores it to slot and emits it as LOG0 data. 3 is odd, so a single wrong hash always
// changes acc. The block-hash resolver of the EVM block context walks the header chain
// backwards for ancestors older than the parent (and remembers what it has seen), so
// several such transactions in one block of a deep chain make the workers of the
// parallel processor resolve old ancestors at the same time.
var (
	c33Reader        = common.HexToAddress("0xb10c000000000000000000000000000000000033")
	c33ReaderRuntime = func() []byte {
		a := ep.NewAsm(true)
		top, end := a.NewLabel(), a.NewLabel()
		a.PushU(0)                          // acc
		a.PushU(0x20).Op(ep.CALLDATALOAD)   // k
		a.PushU(0x40).Op(ep.CALLDATALOAD)   // n          [acc k n]
		a.Bind(top)                         //
		a.Op(ep.DUP1, ep.ISZERO).Jumpi(end) // n == 0: done
		a.Op(ep.DUP1+1, ep.NUMBER, ep.SUB)  // NUMBER-k   [acc k n num-k]
		a.Op(ep.BLOCKHASH)                  //            [acc k n h]
		a.Op(ep.SWAP1 + 2)                  //            [h k n acc]
		a.PushU(3).Op(ep.MUL)               //            [h k n 3acc]
		a.Op(ep.DUP1+3, ep.ADD)             //            [h k n acc']
		a.Op(ep.SWAP1+2, ep.POP)            //            [acc' k n]
		a.Op(ep.SWAP1)                      //            [acc' n k]
		a.PushU(0x60).Op(ep.CALLDATALOAD)   // step
		a.Op(ep.ADD, ep.SWAP1)              //            [acc' k' n]
		a.PushU(1).Op(ep.SWAP1, ep.SUB)     //            [acc' k' n-1]
		a.Jump(top)                         //
		a.SetDepth(3).Bind(end)             //            [acc k n]
		a.Op(ep.POP, ep.POP)                //            [acc]
		a.Op(ep.DUP1)                       //            [acc acc]
		a.PushU(0).Op(ep.CALLDATALOAD)      //            [acc acc slot]
		a.Op(ep.SSTORE)                     //            [acc]
		a.PushU(0).Op(ep.MSTORE)            // mem[0:32] = acc
		a.PushU(32).PushU(0).Op(ep.LOG0, ep.STOP)
		return a.MustBytes()
	}()
)

// c33ReaderCall is one engineered call of c33Reader.
type c33ReaderCall struct {
	plan            *worldgen.TxPlan
	slot, k0, count uint64
	down            bool // step -1 instead of +1
}

func (rc *c33ReaderCall) data() []byte {
	out := make([]byte, 128)
	put := func(i int, v uint64) { new(big.Int).SetUint64(v).FillBytes(out[32*i : 32*i+32]) }
	put(0, rc.slot)
	put(1, rc.k0)
	put(2, rc.count)
	if rc.down {
		copy(out[96:], common.MaxHash[:]) // -1
	} else {
		put(3, 1)
	}
	return out
}

// older counts the lookups that go to an ancestor older than the parent and inside the
// 256 block window of block number n (the ones the resolver has to walk headers for).
func (rc *c33ReaderCall) older(n uint64) int {
	cnt := 0
	k := int64(rc.k0)
	for i := uint64(0); i < rc.count; i++ {
		if k >= 2 && k <= 256 && uint64(k) <= n {
			cnt++
		}
		if rc.down {
			k--
		} else {
			k++
		}
	}
	return cnt
}

// expected computes the word the call stores, from the canonical header chain.
func (rc *c33ReaderCall) expected(n uint64, hashOf func(number uint64) common.Hash) common.Hash {
	acc, three := new(uint256.Int), uint256.NewInt(3)
	k := int64(rc.k0)
	for i := uint64(0); i < rc.count; i++ {
		h := new(uint256.Int)
		if k >= 1 && k <= 256 && uint64(k) <= n {
			h.SetBytes32(hashOf(n - uint64(k)).Bytes())
		}
		acc.Mul(acc, three)
		acc.Add(acc, h)
		if rc.down {
			k--
		} else {
			k++
		}
	}
	return acc.Bytes32()
}

// c33Deepen puts filler blocks (no transactions) in front of the drawn chain, so that a
// share of the examined blocks sits on a deep chain (the drawn chain itself has 1-2
// blocks). Returns the number of filler blocks.
func c33Deepen(rt *rapid.T, w *worldgen.World) int {
	f := 0
	switch c33Pick(rt, "depth-class", []int{40, 13, 22, 4, 1}) {
	case 1:
		f = 1 + ep.Uniform(rt, "depth-small", 4)
	case 2:
		f = 5 + ep.Uniform(rt, "depth-medium", 16)
	case 3:
		f = 21 + ep.Uniform(rt, "depth-large", 60)
	case 4:
		f = 250 + ep.Uniform(rt, "depth-window", 12) // around the 256 block BLOCKHASH window
	}
	if f == 0 {
		return 0
	}
	filler := make([]*worldgen.BlockPlan, f)
	for i := range filler {
		filler[i] = &worldgen.BlockPlan{Coinbase: worldgen.FreshCoinbase, CoinbaseClass: "fresh"}
	}
	w.Blocks = append(filler, w.Blocks...)
	return f
}

type c33CreateCall struct {
	create, call *worldgen.TxPlan
}

func c33BasePlan(rt *rapid.T, w *worldgen.World) *worldgen.TxPlan {
	p := w.DrawPlan(rt)
	if p.Type == types.BlobTxType || p.Type == types.SetCodeTxType {
		p.Type = types.DynamicFeeTxType
	}
	p.Auths, p.Blobs = nil, 0
	p.To, p.ToCoinbase, p.Data, p.InitClass = nil, false, nil, ""
	return p
}

// c33Engineer adds plans to the last block and returns the labels of what was added
// (and the engineered calls of c33Reader).
func c33Engineer(rt *rapid.T, w *worldgen.World) ([]string, []*c33ReaderCall) {
	last := w.Blocks[len(w.Blocks)-1]
	var labels []string
	var pairs []c33CreateCall
	var readers []*c33ReaderCall
	addr := func(a common.Address) *common.Address { return &a }
	insertAfter := func(p *worldgen.TxPlan, minPos int) int {
		pos := minPos + ep.Uniform(rt, "eng-pos", len(last.Txs)-minPos+1)
		last.Txs = c33Insert(last.Txs, pos, p)
		return pos
	}
	w.Genesis.Alloc[c33Factory] = types.Account{Nonce: 1, Code: c33FactoryRuntime, Balance: new(big.Int)}
	w.Genesis.Alloc[c33Reader] = types.Account{Nonce: 1, Code: c33ReaderRuntime, Balance: new(big.Int)}
	n := c33Pick(rt, "eng-count", []int{1, 3, 3, 2})
	for k := 0; k < n; k++ {
		switch c33Pick(rt, "eng-kind", []int{3, 3, 3, 3, 2}) {
		case 4: // account paid by tx i, created and destroyed (swept) by tx j, maybe paid again by tx k
			pay := c33BasePlan(rt, w)
			pay.TargetClass, pay.To = "factory-child", addr(c33FactoryChild)
			pay.ValClass = worldgen.ValOne + ep.Uniform(rt, "eng-prefund-val", 2)
			pay.GasClass = worldgen.Gas250k
			pos := -1
			if ep.Uniform(rt, "eng-prefund", 4) != 0 {
				pos = insertAfter(pay, 0)
			}
			for c := 1 + ep.Uniform(rt, "eng-factory-calls", 2); c > 0; c-- {
				call := c33BasePlan(rt, w)
				call.TargetClass, call.To = "factory", addr(c33Factory)
				call.ValClass = c33Pick(rt, "eng-factory-val", []int{1, 1, 2})
				call.GasClass = worldgen.Gas1M
				pos = insertAfter(call, pos+1)
			}
			if ep.Uniform(rt, "eng-repay", 3) == 0 {
				again := c33BasePlan(rt, w)
				again.TargetClass, again.To = "factory-child", addr(c33FactoryChild)
				again.ValClass = worldgen.ValOne
				again.GasClass = worldgen.Gas250k
				insertAfter(again, pos+1)
			}
			labels = append(labels, "prefund-create-destroy")
		case 0: // the same contract called again (storage / balance conflicts)
			var cands []*worldgen.TxPlan
			for _, p := range last.Txs {
				if p.TargetClass == "prog" || p.TargetClass == "scenario" {
					cands = append(cands, p)
				}
			}
			p := c33BasePlan(rt, w)
			if len(cands) > 0 {
				src := cands[ep.Uniform(rt, "eng-dup-src", len(cands))]
				p.TargetClass, p.To, p.Data = src.TargetClass, src.To, src.Data
			} else {
				p.TargetClass, p.To = "prog", addr(common.Address(ep.ContractAddr(0)))
			}
			p.GasClass = worldgen.Gas250k + ep.Uniform(rt, "eng-dup-gas", 3)
			insertAfter(p, 0)
			labels = append(labels, "repeat-call")
		case 1: // request contracts
			p := c33BasePlan(rt, w)
			p.TargetClass = "sysreq"
			p.GasClass = worldgen.Gas3M
			p.ValClass = worldgen.ValSmall
			switch ep.Uniform(rt, "eng-sysreq", 4) {
			case 0:
				p.To = addr(params.WithdrawalQueueAddress)
				p.Data = rapid.SliceOfN(rapid.Byte(), 56, 56).Draw(rt, "eng-wreq")
			case 1:
				p.To = addr(params.ConsolidationQueueAddress)
				p.Data = rapid.SliceOfN(rapid.Byte(), 96, 96).Draw(rt, "eng-creq")
			case 2:
				p.To = addr(params.BuilderExitAddress)
				p.Data = rapid.SliceOfN(rapid.Byte(), 48, 48).Draw(rt, "eng-bexit")
			default:
				p.To = addr(params.BuilderDepositAddress)
				d := rapid.SliceOfN(rapid.Byte(), 184, 184).Draw(rt, "eng-bdep")
				copy(d[0x38:0x40], []byte{0, 0, 0, 0, 0x77, 0x35, 0x94, 0x00}) // 2e9 gwei
				p.Data = d
				p.ValClass = worldgen.ValLarge
			}
			insertAfter(p, 0)
			labels = append(labels, "sysreq")
		case 2: // contract created by tx i, called by tx j
			cr := c33BasePlan(rt, w)
			cr.TargetClass, cr.InitClass = "create", "eng-deploy"
			if ep.Uniform(rt, "eng-create-kind", 3) == 0 {
				cr.Data = ep.Deployer(worldgen.DrawScenario(rt, true, w.Pool, false).Code(), true)
			} else {
				cr.Data = ep.Deployer(c33CounterRuntime, true)
			}
			cr.GasClass = worldgen.Gas1M + ep.Uniform(rt, "eng-create-gas", 2)
			cr.ValClass = c33Pick(rt, "eng-create-val", []int{3, 1, 1})
			pos := insertAfter(cr, 0)
			ncalls := 1 + ep.Uniform(rt, "eng-ncalls", 2)
			for c := 0; c < ncalls; c++ {
				call := c33BasePlan(rt, w)
				call.TargetClass = "created"
				call.GasClass = worldgen.Gas250k + ep.Uniform(rt, "eng-call-gas", 2)
				pos = insertAfter(call, pos+1)
				pairs = append(pairs, c33CreateCall{cr, call})
			}
			labels = append(labels, "create-call")
		default: // account funded by tx i spends in tx j
			poor := w.PoorKey
			if poor < 0 {
				poor = 1 + ep.Uniform(rt, "eng-poor", len(worldgen.Keys)-1)
			}
			fund := c33BasePlan(rt, w)
			fund.Sender = (poor + 1 + ep.Uniform(rt, "eng-funder", len(worldgen.Keys)-1)) % len(worldgen.Keys)
			fund.TargetClass, fund.To = "key", addr(worldgen.Keys[poor].Addr)
			fund.ValClass = worldgen.ValLarge
			pos := insertAfter(fund, 0)
			spend := c33BasePlan(rt, w)
			spend.Sender = poor
			spend.TargetClass, spend.To = "eoa", addr(common.Address(ep.EOAAddr))
			spend.ValClass = worldgen.ValLarge + ep.Uniform(rt, "eng-spend-val", 2)
			insertAfter(spend, pos+1)
			labels = append(labels, "fund-spend")
		}
	}
	// blockhash-readers: several transactions of the block look up many ancestors (most
	// of them older than the parent) and store / log what they got. Always drawn on a
	// deep chain (that is what the filler blocks are for), sometimes on a shallow one.
	number := uint64(len(w.Blocks)) // number of the examined block
	readerOdds := []int{3, 1}
	if number >= 4 {
		readerOdds = []int{1, 2}
	}
	if c33Pick(rt, "eng-readers", readerOdds) == 1 {
		window := min(number, 256)
		span := func(label string) uint64 { // deepest distance looked at
			switch c33Pick(rt, label, []int{4, 1, 2}) {
			case 0:
				return window
			case 1:
				return window + 1 + uint64(ep.Uniform(rt, label+"-over", 3)) // beyond the chain / the window: zero hashes
			default:
				return 1 + uint64(ep.Uniform(rt, label+"-any", int(window)))
			}
		}
		mode := c33Pick(rt, "eng-readers-mode", []int{3, 3, 2})
		deepest := span("eng-readers-span")
		nr := 2 + ep.Uniform(rt, "eng-readers-few", 5)
		if c33Pick(rt, "eng-readers-many", []int{2, 1}) == 1 {
			nr = 7 + ep.Uniform(rt, "eng-readers-n", 18)
		}
		for i := 0; i < nr; i++ {
			rc := &c33ReaderCall{plan: c33BasePlan(rt, w), slot: 0x100 + uint64(i)}
			d := deepest
			if ep.Uniform(rt, "eng-readers-own-span", 4) == 0 {
				d = span("eng-readers-span-tx")
			}
			switch m := mode; {
			case m == 0 || d < 2: // oldest first: d, d-1, ..., 2 (one long walk, then remembered hashes)
				rc.k0, rc.count, rc.down = d, max(d, 2)-1, true
			case m == 1: // youngest first: 2, 3, ..., d (every lookup one step further back)
				rc.k0, rc.count = 2, d-1
			default: // anywhere
				rc.k0 = uint64(ep.Uniform(rt, "eng-readers-k0", int(d)+1))
				rc.down = ep.Uniform(rt, "eng-readers-down", 2) == 1
				if rc.down {
					rc.count = 1 + uint64(ep.Uniform(rt, "eng-readers-count", int(rc.k0)+1))
				} else {
					rc.count = 1 + uint64(ep.Uniform(rt, "eng-readers-count", int(d)+2))
				}
			}
			rc.plan.TargetClass, rc.plan.To, rc.plan.Data = "blockhash-reader", addr(c33Reader), rc.data()
			rc.plan.ValClass, rc.plan.GasClass = worldgen.ValZero, worldgen.Gas250k
			insertAfter(rc.plan, 0)
			readers = append(readers, rc)
		}
		labels = append(labels, "blockhash-readers")
	}
	// Resolve the addresses of created contracts: nonce of the creator when its create
	// plan runs = genesis nonce + number of its earlier plans (skipped plans and
	// authorizations make this a prediction, not a guarantee; hits are measured).
	for _, pr := range pairs {
		sender := pr.create.Sender
		nonce := w.Genesis.Alloc[worldgen.Keys[sender].Addr].Nonce
	count:
		for _, bp := range w.Blocks {
			for _, p := range bp.Txs {
				if p == pr.create {
					break count
				}
				if p.Sender == sender {
					nonce++
				}
			}
		}
		pr.call.To = addr(crypto.CreateAddress(worldgen.Keys[sender].Addr, nonce))
	}
	return labels, readers
}

// ---------------------------------------------------------------------------------
// Execution helpers.

type c33Outcome struct {
	res  *core.ProcessResult
	root common.Hash
	st   *state.StateDB
	err  error
	met  uint64 // gated header lookups that met another one (c33GatedChain)
}

func c33Rules(cfg *params.ChainConfig, b *types.Block) params.Rules {
	return cfg.Rules(b.Number(), b.Difficulty().Sign() == 0, b.Time())
}

// c33Setup selects how the state handed to the processor is built.
type c33Setup struct {
	real     bool // as BlockChain.ProcessBlock does: shared cached reader + access-list prefetcher + trie prefetcher
	threads  int  // prefetch threads of the shared reader
	trieWarm bool // StartPrefetcher
	gate     int  // > 0: the processor reads headers through a c33GatedChain with this per-lookup bound
}

func (s c33Setup) String() string {
	g := ""
	if s.gate > 0 {
		g = fmt.Sprintf("+header-gate(%d)", s.gate)
	}
	if !s.real {
		return "plain-state" + g
	}
	return fmt.Sprintf("shared-reader(threads=%d,trie-prefetcher=%v)%s", s.threads, s.trieWarm, g)
}

// c33GatedChain is the core.ChainContext handed to the processor in a share of the
// parallel runs: the chain itself, except that a header lookup for an ancestor older
// than the examined block's parent (these only come from BLOCKHASH resolution inside
// transactions) first waits, bounded, until another goroutine has arrived at such a
// lookup too. Workers that resolve old ancestors at the same time are thereby stepped
// through their header walks alternately instead of (most of the time) one after the
// other. Nothing but timing changes; when the bound (per lookup: step yields, per run:
// budget yields) expires the lookup simply proceeds, which only costs sensitivity.
type c33GatedChain struct {
	*core.BlockChain
	below    uint64 // lookups for numbers < below are gated
	step     int
	budget   atomic.Int64
	arrivals atomic.Uint64
	met      atomic.Uint64 // lookups that were released by another arrival
}

func (g *c33GatedChain) GetHeader(hash common.Hash, number uint64) *types.Header {
	if number < g.below {
		my := g.arrivals.Add(1)
		for i := 0; ; i++ {
			if g.arrivals.Load() != my {
				g.met.Add(1)
				break
			}
			if i >= g.step || g.budget.Add(-1) < 0 {
				break
			}
			runtime.Gosched()
		}
	}
	return g.BlockChain.GetHeader(hash, number)
}

// c33Process runs the block on the parent state of chain with the chosen processor.
func c33Process(chain *core.BlockChain, parent *types.Header, block *types.Block, sequential bool, setup c33Setup) (out c33Outcome) {
	defer func() {
		if r := recover(); r != nil {
			out.err = fmt.Errorf("PANIC: %v", r)
		}
	}()
	var (
		st  *state.StateDB
		err error
	)
	if !setup.real {
		st, err = chain.StateAt(parent)
	} else {
		// Mirrors BlockChain.setupExecutionState / ProcessBlock for the BAL-driven path.
		sdb := state.NewMPTDatabase(chain.TrieDB(), chain.CodeDB()).WithSnapshot(chain.Snapshots())
		var base state.Reader
		base, err = sdb.Reader(parent.Root)
		if err == nil {
			hint := make(map[common.Address][]common.Hash)
			for _, acc := range *block.AccessList() {
				slots := make([]common.Hash, 0, len(acc.StorageReads)+len(acc.StorageChanges))
				for _, r := range acc.StorageReads {
					slots = append(slots, r.Bytes32())
				}
				for _, w := range acc.StorageChanges {
					slots = append(slots, w.Slot.Bytes32())
				}
				hint[acc.Address] = slots
			}
			reader, stop := state.NewBlockExecutionReader(base, hint, setup.threads)
			defer stop()
			st, err = state.NewWithReader(parent.Root, sdb, reader)
			if err == nil && setup.trieWarm {
				st.StartPrefetcher("chain", nil)
				defer st.StopPrefetcher()
			}
		}
	}
	if err != nil {
		out.err = fmt.Errorf("VERIF-HARNESS-BUG: state at parent: %w", err)
		return
	}
	var cc core.ChainContext = chain
	if setup.gate > 0 {
		g := &c33GatedChain{BlockChain: chain, below: parent.Number.Uint64(), step: setup.gate}
		g.budget.Store(4096)
		defer func() { out.met = g.met.Load() }()
		cc = g
	}
	res, err := core.NewStateProcessor(cc).Process(context.Background(), block, st, nil, nil, vm.Config{DisableParallelExecution: sequential}, nil)
	if err != nil {
		out.err = err
		return
	}
	out.res, out.st = res, st
	out.root = st.IntermediateRoot(c33Rules(chain.Config(), block))
	return
}

func c33BalBytes(l *bal.ConstructionBlockAccessList) []byte {
	if l == nil {
		return nil
	}
	var buf bytes.Buffer
	if err := l.ToEncodingObj().EncodeRLP(&buf); err != nil {
		return []byte("encode error: " + err.Error())
	}
	return buf.Bytes()
}

func c33BigEq(a, b *big.Int) bool {
	if a == nil || b == nil {
		return a == nil && b == nil
	}
	return a.Cmp(b) == 0
}

func c33DiffLogs(where string, a, b []*types.Log) string {
	if len(a) != len(b) {
		return fmt.Sprintf("%s: %d logs vs %d", where, len(a), len(b))
	}
	for i := range a {
		x, y := a[i], b[i]
		if x.Address != y.Address || !bytes.Equal(x.Data, y.Data) || len(x.Topics) != len(y.Topics) ||
			x.BlockNumber != y.BlockNumber || x.TxHash != y.TxHash || x.TxIndex != y.TxIndex ||
			x.BlockHash != y.BlockHash || x.Index != y.Index || x.BlockTimestamp != y.BlockTimestamp || x.Removed != y.Removed {
			return fmt.Sprintf("%s: log %d differs: %+v vs %+v", where, i, *x, *y)
		}
		for k := range x.Topics {
			if x.Topics[k] != y.Topics[k] {
				return fmt.Sprintf("%s: log %d topic %d differs", where, i, k)
			}
		}
	}
	return ""
}

// c33Diff compares two processing results field by field ("" = identical).
func c33Diff(a, b *core.ProcessResult) string {
	if a.GasUsed != b.GasUsed {
		return fmt.Sprintf("gas used %d vs %d", a.GasUsed, b.GasUsed)
	}
	if len(a.Receipts) != len(b.Receipts) {
		return fmt.Sprintf("%d receipts vs %d", len(a.Receipts), len(b.Receipts))
	}
	for i := range a.Receipts {
		x, y := a.Receipts[i], b.Receipts[i]
		switch {
		case x.Type != y.Type:
			return fmt.Sprintf("receipt %d type %d vs %d", i, x.Type, y.Type)
		case !bytes.Equal(x.PostState, y.PostState):
			return fmt.Sprintf("receipt %d post state", i)
		case x.Status != y.Status:
			return fmt.Sprintf("receipt %d status %d vs %d", i, x.Status, y.Status)
		case x.CumulativeGasUsed != y.CumulativeGasUsed:
			return fmt.Sprintf("receipt %d cumulative gas %d vs %d", i, x.CumulativeGasUsed, y.CumulativeGasUsed)
		case x.GasUsed != y.GasUsed:
			return fmt.Sprintf("receipt %d gas used %d vs %d", i, x.GasUsed, y.GasUsed)
		case x.Bloom != y.Bloom:
			return fmt.Sprintf("receipt %d bloom", i)
		case x.TxHash != y.TxHash:
			return fmt.Sprintf("receipt %d tx hash", i)
		case x.ContractAddress != y.ContractAddress:
			return fmt.Sprintf("receipt %d contract address %x vs %x", i, x.ContractAddress, y.ContractAddress)
		case x.BlobGasUsed != y.BlobGasUsed:
			return fmt.Sprintf("receipt %d blob gas used %d vs %d", i, x.BlobGasUsed, y.BlobGasUsed)
		case !c33BigEq(x.BlobGasPrice, y.BlobGasPrice):
			return fmt.Sprintf("receipt %d blob gas price %v vs %v", i, x.BlobGasPrice, y.BlobGasPrice)
		case !c33BigEq(x.EffectiveGasPrice, y.EffectiveGasPrice):
			return fmt.Sprintf("receipt %d effective gas price %v vs %v", i, x.EffectiveGasPrice, y.EffectiveGasPrice)
		case x.BlockHash != y.BlockHash || !c33BigEq(x.BlockNumber, y.BlockNumber) || x.TransactionIndex != y.TransactionIndex:
			return fmt.Sprintf("receipt %d position (%x,%v,%d) vs (%x,%v,%d)", i, x.BlockHash, x.BlockNumber, x.TransactionIndex, y.BlockHash, y.BlockNumber, y.TransactionIndex)
		}
		if d := c33DiffLogs(fmt.Sprintf("receipt %d", i), x.Logs, y.Logs); d != "" {
			return d
		}
		xe, err1 := rlp.EncodeToBytes(x)
		ye, err2 := rlp.EncodeToBytes(y)
		if err1 != nil || err2 != nil || !bytes.Equal(xe, ye) {
			return fmt.Sprintf("receipt %d consensus encoding %x vs %x (%v %v)", i, xe, ye, err1, err2)
		}
	}
	if d := c33DiffLogs("block logs", a.Logs, b.Logs); d != "" {
		return d
	}
	if (a.Requests == nil) != (b.Requests == nil) || len(a.Requests) != len(b.Requests) {
		return fmt.Sprintf("requests %x vs %x", a.Requests, b.Requests)
	}
	for i := range a.Requests {
		if !bytes.Equal(a.Requests[i], b.Requests[i]) {
			return fmt.Sprintf("request %d: %x vs %x", i, a.Requests[i], b.Requests[i])
		}
	}
	if x, y := c33BalBytes(a.Bal), c33BalBytes(b.Bal); !bytes.Equal(x, y) {
		return fmt.Sprintf("rebuilt access list differs:\n%s\nvs\n%s", a.Bal.ToEncodingObj().PrettyPrint(), b.Bal.ToEncodingObj().PrettyPrint())
	}
	return ""
}

// c33Noise runs k goroutines that yield and spin until stop is called.
func c33Noise(k int, seed uint64) (stop func()) {
	var (
		quit atomic.Bool
		wg   sync.WaitGroup
	)
	for i := 0; i < k; i++ {
		wg.Add(1)
		go func(x uint64) {
			defer wg.Done()
			for !quit.Load() {
				x = x*6364136223846793005 + 1442695040888963407
				for j := uint64(0); j < x>>58; j++ {
					runtime.Gosched()
				}
				for j := uint64(0); j < (x>>40)&0x3ff; j++ {
					_ = j * x
				}
				runtime.Gosched()
			}
		}(seed + uint64(i)*0x9e3779b97f4a7c15)
	}
	return func() { quit.Store(true); wg.Wait() }
}

// c33InsertRes is the result of c33TryInsert.
func c33TryInsert(chain *core.BlockChain, block *types.Block) (err error, panicked any) {
	defer func() {
		if r := recover(); r != nil {
			panicked = r
		}
	}()
	_, err = chain.InsertChain(types.Blocks{block})
	return
}

// c33RejectClass maps a rejection to a coarse label for the histogram.
func c33RejectClass(err error) string {
	s := err.Error()
	for _, k := range []struct{ sub, label string }{
		{"access list hash mismatch, computed", "body:bal-hash"},
		{"invalid block access list", "body:bal-structure"},
		{"access list hash mismatch, local", "state:rebuilt-bal-hash"},
		{"invalid merkle root", "state:root"},
		{"invalid gas used", "state:gas-used"},
		{"invalid bloom", "state:bloom"},
		{"invalid receipt root", "state:receipts"},
		{"invalid requests hash", "state:requests"},
		{"could not apply tx", "exec:tx-invalid"},
		{"load account", "exec:apply-bal"},
		{"load storage", "exec:apply-bal"},
	} {
		if strings.Contains(s, k.sub) {
			return k.label
		}
	}
	return "other"
}

// ---------------------------------------------------------------------------------
// Dependencies between transactions, read off the true access list.

type c33Deps struct {
	labels []string
	strong bool
}

func c33FindDeps(m []c33Acc, block *types.Block, senders []common.Address) c33Deps {
	n := uint32(len(block.Transactions()))
	inTx := func(i uint32) bool { return i >= 1 && i <= n }
	set := map[string]bool{}
	// two writes of one field at different indices, the first one by a transaction:
	// the later frame starts from the value the earlier transaction left.
	twice := func(idx []uint32) bool {
		for k := 0; k+1 < len(idx); k++ {
			if inTx(idx[k]) && idx[k+1] > idx[k] {
				return true
			}
		}
		return false
	}
	for _, a := range m {
		var bi, ni, ci []uint32
		for _, c := range a.Bal {
			bi = append(bi, c.Idx)
		}
		for _, c := range a.Nonce {
			ni = append(ni, c.Idx)
		}
		for _, c := range a.Code {
			ci = append(ci, c.Idx)
		}
		if twice(ni) {
			set["nonce"] = true
		}
		if twice(bi) {
			if a.Addr == block.Coinbase() {
				set["coinbase-balance"] = true
			} else {
				set["balance"] = true
			}
		}
		if twice(ci) {
			set["code-twice"] = true
		}
		for _, s := range a.Storage {
			var si []uint32
			for _, c := range s.Changes {
				si = append(si, c.Idx)
			}
			if twice(si) {
				set["storage"] = true
			}
		}
		for _, c := range a.Code {
			if !inTx(c.Idx) {
				continue
			}
			for j, tx := range block.Transactions() {
				if uint32(j+1) > c.Idx && tx.To() != nil && *tx.To() == a.Addr {
					set["code-then-call"] = true
				}
			}
		}
		// funded by another transaction, then sender of a later one
		for j := range block.Transactions() {
			if senders[j] != a.Addr {
				continue
			}
			for _, c := range a.Bal {
				if inTx(c.Idx) && c.Idx < uint32(j+1) && senders[c.Idx-1] != a.Addr {
					set["funded-then-spends"] = true
				}
			}
		}
	}
	var d c33Deps
	for k := range set {
		d.labels = append(d.labels, k)
		if k != "coinbase-balance" {
			d.strong = true
		}
	}
	sort.Strings(d.labels)
	return d
}

// ---------------------------------------------------------------------------------
// Access-list mutations.

type c33MutEnv struct {
	ntx    int
	pool   []common.Address
	parent *state.StateDB // state at the parent root (for value-preserving spurious writes)
}

func c33U(x uint64) *uint256.Int { return uint256.NewInt(x) }

func c33Bump(rt *rapid.T, v *uint256.Int) *uint256.Int {
	out := new(uint256.Int).Set(v)
	switch c33Pick(rt, "mut-bump", []int{3, 2, 1, 1}) {
	case 0:
		out.AddUint64(out, 1)
	case 1:
		if out.IsZero() {
			out.SetUint64(1)
		} else {
			out.SubUint64(out, 1)
		}
	case 2:
		if out.IsZero() {
			out.SetUint64(7)
		} else {
			out.Clear()
		}
	default:
		out.Lsh(out, 1)
		out.AddUint64(out, 3)
	}
	return out
}

// c33FreeIndex returns an index in 0..ntx+1 not used by idx, or ok=false.
func c33FreeIndex(rt *rapid.T, ntx int, used []uint32) (uint32, bool) {
	var free []uint32
	for i := uint32(0); i <= uint32(ntx+1); i++ {
		taken := false
		for _, u := range used {
			if u == i {
				taken = true
			}
		}
		if !taken {
			free = append(free, i)
		}
	}
	if len(free) == 0 {
		return 0, false
	}
	return free[ep.Uniform(rt, "mut-free-index", len(free))], true
}

var c33MutKinds = []string{
	"drop-account", "drop-slot", "drop-read", "drop-change", "strip-index",
	"add-account", "add-read", "add-write", "add-meta", "read-to-noop-write", "write-to-read",
	"alter-value", "shift-index", "swap", "duplicate",
}

// c33Mutate applies one mutation of the drawn kind in place; if the kind has no
// site in this list the next kinds are tried. It returns the kind applied and a
// description, or "" if nothing applies (empty list and unlucky draws).
func c33Mutate(rt *rapid.T, m *[]c33Acc, env *c33MutEnv) (kind, desc string) {
	first := c33Pick(rt, "mut-kind", []int{2, 2, 2, 4, 2, 2, 2, 3, 3, 3, 2, 5, 3, 1, 1})
	for off := 0; off < len(c33MutKinds); off++ {
		kind = c33MutKinds[(first+off)%len(c33MutKinds)]
		if desc = c33Apply(rt, kind, m, env); desc != "" {
			return kind, desc
		}
	}
	return "", ""
}

type c33Site struct{ a, s, k int }

func c33Apply(rt *rapid.T, kind string, mp *[]c33Acc, env *c33MutEnv) string {
	m := *mp
	pickAcc := func(pred func(*c33Acc) bool) int {
		var c []int
		for i := range m {
			if pred(&m[i]) {
				c = append(c, i)
			}
		}
		if len(c) == 0 {
			return -1
		}
		return c[ep.Uniform(rt, "mut-acc", len(c))]
	}
	insertSorted := func(acc c33Acc) {
		pos := sort.Search(len(m), func(i int) bool { return bytes.Compare(m[i].Addr[:], acc.Addr[:]) >= 0 })
		*mp = c33Insert(m, pos, acc)
	}
	slotPos := func(a *c33Acc, slot *uint256.Int) int {
		return sort.Search(len(a.Storage), func(i int) bool { return a.Storage[i].Slot.Cmp(slot) >= 0 })
	}
	readPos := func(a *c33Acc, slot *uint256.Int) int {
		return sort.Search(len(a.Reads), func(i int) bool { return a.Reads[i].Cmp(slot) >= 0 })
	}
	drawSlot := func() *uint256.Int {
		switch c33Pick(rt, "mut-slot-class", []int{5, 1, 1}) {
		case 0:
			return c33U(uint64(ep.Uniform(rt, "mut-slot-small", 8)))
		case 1:
			return new(uint256.Int).SetAllOne()
		default:
			return c33U(rapid.Uint64().Draw(rt, "mut-slot-any"))
		}
	}
	switch kind {
	case "drop-account":
		if len(m) == 0 {
			return ""
		}
		i := ep.Uniform(rt, "mut-acc", len(m))
		d := fmt.Sprintf("drop account %x", m[i].Addr)
		*mp = c33Remove(m, i)
		return d
	case "drop-slot":
		i := pickAcc(func(a *c33Acc) bool { return len(a.Storage) > 0 })
		if i < 0 {
			return ""
		}
		s := ep.Uniform(rt, "mut-slot", len(m[i].Storage))
		d := fmt.Sprintf("drop storage changes of %x slot %s", m[i].Addr, m[i].Storage[s].Slot.Hex())
		m[i].Storage = c33Remove(m[i].Storage, s)
		return d
	case "drop-read":
		i := pickAcc(func(a *c33Acc) bool { return len(a.Reads) > 0 })
		if i < 0 {
			return ""
		}
		s := ep.Uniform(rt, "mut-read", len(m[i].Reads))
		d := fmt.Sprintf("drop storage read of %x slot %s", m[i].Addr, m[i].Reads[s].Hex())
		m[i].Reads = c33Remove(m[i].Reads, s)
		return d
	case "drop-change":
		i := pickAcc(func(a *c33Acc) bool { return len(a.Storage)+len(a.Bal)+len(a.Nonce)+len(a.Code) > 0 })
		if i < 0 {
			return ""
		}
		a := &m[i]
		switch f := c33PickField(rt, a); f {
		case "balance":
			k := ep.Uniform(rt, "mut-change", len(a.Bal))
			d := fmt.Sprintf("drop balance change of %x at index %d", a.Addr, a.Bal[k].Idx)
			a.Bal = c33Remove(a.Bal, k)
			return d
		case "nonce":
			k := ep.Uniform(rt, "mut-change", len(a.Nonce))
			d := fmt.Sprintf("drop nonce change of %x at index %d", a.Addr, a.Nonce[k].Idx)
			a.Nonce = c33Remove(a.Nonce, k)
			return d
		case "code":
			k := ep.Uniform(rt, "mut-change", len(a.Code))
			d := fmt.Sprintf("drop code change of %x at index %d", a.Addr, a.Code[k].Idx)
			a.Code = c33Remove(a.Code, k)
			return d
		default:
			s := ep.Uniform(rt, "mut-slot", len(a.Storage))
			sl := &a.Storage[s]
			if len(sl.Changes) == 0 {
				return ""
			}
			k := ep.Uniform(rt, "mut-change", len(sl.Changes))
			d := fmt.Sprintf("drop storage change of %x slot %s at index %d", a.Addr, sl.Slot.Hex(), sl.Changes[k].Idx)
			sl.Changes = c33Remove(sl.Changes, k)
			if len(sl.Changes) == 0 {
				switch c33Pick(rt, "mut-empty-slot", []int{2, 2, 1}) {
				case 0: // slot entry disappears
					a.Storage = c33Remove(a.Storage, s)
					d += " (slot removed)"
				case 1: // slot demoted to a read
					slot := sl.Slot
					a.Storage = c33Remove(a.Storage, s)
					a.Reads = c33Insert(a.Reads, readPos(a, slot), slot)
					d += " (slot demoted to read)"
				default:
					d += " (empty change list kept)"
				}
			}
			return d
		}
	case "strip-index":
		if env.ntx == 0 {
			return ""
		}
		idx := uint32(ep.Uniform(rt, "mut-strip-index", env.ntx+2))
		hit := 0
		for i := range m {
			a := &m[i]
			for k := len(a.Bal) - 1; k >= 0; k-- {
				if a.Bal[k].Idx == idx {
					a.Bal = c33Remove(a.Bal, k)
					hit++
				}
			}
			for k := len(a.Nonce) - 1; k >= 0; k-- {
				if a.Nonce[k].Idx == idx {
					a.Nonce = c33Remove(a.Nonce, k)
					hit++
				}
			}
			for k := len(a.Code) - 1; k >= 0; k-- {
				if a.Code[k].Idx == idx {
					a.Code = c33Remove(a.Code, k)
					hit++
				}
			}
			for s := len(a.Storage) - 1; s >= 0; s-- {
				sl := &a.Storage[s]
				for k := len(sl.Changes) - 1; k >= 0; k-- {
					if sl.Changes[k].Idx == idx {
						sl.Changes = c33Remove(sl.Changes, k)
						hit++
					}
				}
				if len(sl.Changes) == 0 {
					slot := sl.Slot
					a.Storage = c33Remove(a.Storage, s)
					a.Reads = c33Insert(a.Reads, readPos(a, slot), slot)
				}
			}
		}
		if hit == 0 {
			return ""
		}
		return fmt.Sprintf("strip all %d changes at index %d (emptied slots demoted to reads)", hit, idx)
	case "add-account":
		var addr common.Address
		switch c33Pick(rt, "mut-addr-class", []int{3, 2, 2}) {
		case 0:
			addr = env.pool[ep.Uniform(rt, "mut-pool-addr", len(env.pool))]
		case 1:
			addr = common.BytesToAddress(rapid.SliceOfN(rapid.Byte(), 20, 20).Draw(rt, "mut-rand-addr"))
		default:
			if len(m) == 0 {
				addr = common.Address{19: 0x42}
			} else {
				addr = m[ep.Uniform(rt, "mut-acc", len(m))].Addr
				addr[19] ^= 1
			}
		}
		for i := range m {
			if m[i].Addr == addr {
				return ""
			}
		}
		acc := c33Acc{Addr: addr}
		what := "empty"
		switch c33Pick(rt, "mut-new-acc-body", []int{3, 1, 1}) {
		case 1:
			acc.Reads = []*uint256.Int{drawSlot()}
			what = "with a storage read"
		case 2:
			bal := env.parent.GetBalance(addr)
			acc.Bal = []c33Bal{{Idx: uint32(ep.Uniform(rt, "mut-idx", env.ntx+2)), Val: new(uint256.Int).Set(bal)}}
			what = fmt.Sprintf("with a balance change to its parent-state balance %s at index %d", bal, acc.Bal[0].Idx)
		}
		insertSorted(acc)
		return fmt.Sprintf("add spurious account %x %s", addr, what)
	case "add-read":
		if len(m) == 0 {
			return ""
		}
		a := &m[ep.Uniform(rt, "mut-acc", len(m))]
		slot := drawSlot()
		if len(a.Storage) > 0 && ep.Uniform(rt, "mut-read-of-written", 6) == 0 {
			slot = new(uint256.Int).Set(a.Storage[ep.Uniform(rt, "mut-slot", len(a.Storage))].Slot)
		}
		p := readPos(a, slot)
		if p < len(a.Reads) && a.Reads[p].Eq(slot) {
			return ""
		}
		a.Reads = c33Insert(a.Reads, p, slot)
		return fmt.Sprintf("add spurious storage read of %x slot %s", a.Addr, slot.Hex())
	case "add-write":
		if len(m) == 0 {
			return ""
		}
		a := &m[ep.Uniform(rt, "mut-acc", len(m))]
		if len(a.Storage) > 0 && ep.Uniform(rt, "mut-write-existing-slot", 2) == 0 {
			sl := &a.Storage[ep.Uniform(rt, "mut-slot", len(a.Storage))]
			var used []uint32
			for _, c := range sl.Changes {
				used = append(used, c.Idx)
			}
			idx, ok := c33FreeIndex(rt, env.ntx, used)
			if !ok {
				return ""
			}
			pos := sort.Search(len(sl.Changes), func(i int) bool { return sl.Changes[i].Idx >= idx })
			// value: the value in force before (a no-op write) or a different one
			var val *uint256.Int
			if pos > 0 {
				val = new(uint256.Int).Set(sl.Changes[pos-1].Val)
			} else {
				val = new(uint256.Int).SetBytes(env.parent.GetState(a.Addr, sl.Slot.Bytes32()).Bytes())
			}
			what := "repeating the value in force"
			if ep.Uniform(rt, "mut-write-differs", 2) == 0 {
				val = c33Bump(rt, val)
				what = "with a new value"
			}
			sl.Changes = c33Insert(sl.Changes, pos, c33Write{Idx: idx, Val: val})
			return fmt.Sprintf("add spurious storage change of %x slot %s at index %d %s (%s)", a.Addr, sl.Slot.Hex(), idx, what, val.Hex())
		}
		slot := drawSlot()
		p := slotPos(a, slot)
		if p < len(a.Storage) && a.Storage[p].Slot.Eq(slot) {
			return ""
		}
		if rp := readPos(a, slot); rp < len(a.Reads) && a.Reads[rp].Eq(slot) {
			a.Reads = c33Remove(a.Reads, rp) // promote the read to a write
		}
		idx := uint32(ep.Uniform(rt, "mut-idx", env.ntx+2))
		if ep.Uniform(rt, "mut-idx-beyond", 12) == 0 {
			idx = uint32(env.ntx + 2)
		}
		val := new(uint256.Int).SetBytes(env.parent.GetState(a.Addr, slot.Bytes32()).Bytes())
		what := "repeating the parent-state value"
		if ep.Uniform(rt, "mut-write-differs", 2) == 0 {
			val = c33Bump(rt, val)
			what = "with a new value"
		}
		a.Storage = c33Insert(a.Storage, p, c33Slot{Slot: slot, Changes: []c33Write{{Idx: idx, Val: val}}})
		return fmt.Sprintf("add spurious storage slot %s to %x written at index %d %s (%s)", slot.Hex(), a.Addr, idx, what, val.Hex())
	case "add-meta":
		if len(m) == 0 {
			return ""
		}
		a := &m[ep.Uniform(rt, "mut-acc", len(m))]
		switch c33Pick(rt, "mut-meta-field", []int{3, 2, 1}) {
		case 0:
			var used []uint32
			for _, c := range a.Bal {
				used = append(used, c.Idx)
			}
			idx, ok := c33FreeIndex(rt, env.ntx, used)
			if !ok {
				return ""
			}
			pos := sort.Search(len(a.Bal), func(i int) bool { return a.Bal[i].Idx >= idx })
			var val *uint256.Int
			if pos > 0 {
				val = new(uint256.Int).Set(a.Bal[pos-1].Val)
			} else {
				val = new(uint256.Int).Set(env.parent.GetBalance(a.Addr))
			}
			what := "repeating the balance in force"
			if ep.Uniform(rt, "mut-meta-differs", 2) == 0 {
				val = c33Bump(rt, val)
				what = "with a new balance"
			}
			a.Bal = c33Insert(a.Bal, pos, c33Bal{Idx: idx, Val: val})
			return fmt.Sprintf("add spurious balance change of %x at index %d %s (%s)", a.Addr, idx, what, val)
		case 1:
			var used []uint32
			for _, c := range a.Nonce {
				used = append(used, c.Idx)
			}
			idx, ok := c33FreeIndex(rt, env.ntx, used)
			if !ok {
				return ""
			}
			pos := sort.Search(len(a.Nonce), func(i int) bool { return a.Nonce[i].Idx >= idx })
			val := env.parent.GetNonce(a.Addr)
			if pos > 0 {
				val = a.Nonce[pos-1].Nonce
			}
			if ep.Uniform(rt, "mut-meta-differs", 2) == 0 {
				val++
			}
			a.Nonce = c33Insert(a.Nonce, pos, c33Nonce{Idx: idx, Nonce: val})
			return fmt.Sprintf("add spurious nonce change of %x at index %d (%d)", a.Addr, idx, val)
		default:
			var used []uint32
			for _, c := range a.Code {
				used = append(used, c.Idx)
			}
			idx, ok := c33FreeIndex(rt, env.ntx, used)
			if !ok {
				return ""
			}
			pos := sort.Search(len(a.Code), func(i int) bool { return a.Code[i].Idx >= idx })
			code := env.parent.GetCode(a.Addr)
			if pos > 0 {
				code = a.Code[pos-1].Code
			}
			code = bytes.Clone(code)
			if ep.Uniform(rt, "mut-meta-differs", 2) == 0 {
				code = append(code, 0x00)
			}
			a.Code = c33Insert(a.Code, pos, c33Code{Idx: idx, Code: code})
			return fmt.Sprintf("add spurious code change of %x at index %d (%d bytes)", a.Addr, idx, len(code))
		}
	case "read-to-noop-write":
		i := pickAcc(func(a *c33Acc) bool { return len(a.Reads) > 0 })
		if i < 0 {
			return ""
		}
		a := &m[i]
		r := ep.Uniform(rt, "mut-read", len(a.Reads))
		slot := a.Reads[r]
		a.Reads = c33Remove(a.Reads, r)
		idx := uint32(ep.Uniform(rt, "mut-idx", env.ntx+2))
		val := new(uint256.Int).SetBytes(env.parent.GetState(a.Addr, slot.Bytes32()).Bytes())
		a.Storage = c33Insert(a.Storage, slotPos(a, slot), c33Slot{Slot: slot, Changes: []c33Write{{Idx: idx, Val: val}}})
		return fmt.Sprintf("turn storage read of %x slot %s into a write of its parent-state value %s at index %d", a.Addr, slot.Hex(), val.Hex(), idx)
	case "write-to-read":
		i := pickAcc(func(a *c33Acc) bool { return len(a.Storage) > 0 })
		if i < 0 {
			return ""
		}
		a := &m[i]
		s := ep.Uniform(rt, "mut-slot", len(a.Storage))
		slot := a.Storage[s].Slot
		a.Storage = c33Remove(a.Storage, s)
		a.Reads = c33Insert(a.Reads, readPos(a, slot), slot)
		return fmt.Sprintf("turn written slot %s of %x into a storage read", slot.Hex(), a.Addr)
	case "alter-value":
		i := pickAcc(func(a *c33Acc) bool { return len(a.Storage)+len(a.Bal)+len(a.Nonce)+len(a.Code) > 0 })
		if i < 0 {
			return ""
		}
		a := &m[i]
		switch f := c33PickField(rt, a); f {
		case "balance":
			k := ep.Uniform(rt, "mut-change", len(a.Bal))
			old := a.Bal[k].Val
			a.Bal[k].Val = c33Bump(rt, old)
			return fmt.Sprintf("alter balance of %x at index %d: %s -> %s", a.Addr, a.Bal[k].Idx, old, a.Bal[k].Val)
		case "nonce":
			k := ep.Uniform(rt, "mut-change", len(a.Nonce))
			old := a.Nonce[k].Nonce
			if old > 0 && ep.Uniform(rt, "mut-nonce-down", 2) == 0 {
				a.Nonce[k].Nonce = old - 1
			} else {
				a.Nonce[k].Nonce = old + 1
			}
			return fmt.Sprintf("alter nonce of %x at index %d: %d -> %d", a.Addr, a.Nonce[k].Idx, old, a.Nonce[k].Nonce)
		case "code":
			k := ep.Uniform(rt, "mut-change", len(a.Code))
			old := a.Code[k].Code
			nc := bytes.Clone(old)
			switch {
			case len(nc) == 0:
				nc = []byte{0x00}
			case ep.Uniform(rt, "mut-code-how", 3) == 0:
				nc = nc[:len(nc)-1]
			default:
				nc[ep.Uniform(rt, "mut-code-byte", len(nc))] ^= 0x01
			}
			a.Code[k].Code = nc
			return fmt.Sprintf("alter code of %x at index %d: %x -> %x", a.Addr, a.Code[k].Idx, old, nc)
		default:
			s := ep.Uniform(rt, "mut-slot", len(a.Storage))
			sl := &a.Storage[s]
			if len(sl.Changes) == 0 {
				return ""
			}
			k := ep.Uniform(rt, "mut-change", len(sl.Changes))
			old := sl.Changes[k].Val
			sl.Changes[k].Val = c33Bump(rt, old)
			return fmt.Sprintf("alter storage of %x slot %s at index %d: %s -> %s", a.Addr, sl.Slot.Hex(), sl.Changes[k].Idx, old.Hex(), sl.Changes[k].Val.Hex())
		}
	case "shift-index":
		i := pickAcc(func(a *c33Acc) bool { return len(a.Storage)+len(a.Bal)+len(a.Nonce)+len(a.Code) > 0 })
		if i < 0 {
			return ""
		}
		a := &m[i]
		shift := func(p *uint32) string {
			old := *p
			if old > 0 && ep.Uniform(rt, "mut-shift-down", 2) == 0 {
				*p = old - 1
			} else {
				*p = old + 1
			}
			return fmt.Sprintf("%d -> %d", old, *p)
		}
		switch f := c33PickField(rt, a); f {
		case "balance":
			k := ep.Uniform(rt, "mut-change", len(a.Bal))
			return fmt.Sprintf("shift index of balance change of %x: %s", a.Addr, shift(&a.Bal[k].Idx))
		case "nonce":
			k := ep.Uniform(rt, "mut-change", len(a.Nonce))
			return fmt.Sprintf("shift index of nonce change of %x: %s", a.Addr, shift(&a.Nonce[k].Idx))
		case "code":
			k := ep.Uniform(rt, "mut-change", len(a.Code))
			return fmt.Sprintf("shift index of code change of %x: %s", a.Addr, shift(&a.Code[k].Idx))
		default:
			s := ep.Uniform(rt, "mut-slot", len(a.Storage))
			sl := &a.Storage[s]
			if len(sl.Changes) == 0 {
				return ""
			}
			k := ep.Uniform(rt, "mut-change", len(sl.Changes))
			return fmt.Sprintf("shift index of storage change of %x slot %s: %s", a.Addr, sl.Slot.Hex(), shift(&sl.Changes[k].Idx))
		}
	case "swap":
		switch c33Pick(rt, "mut-swap-what", []int{2, 1, 1, 2}) {
		case 0:
			if len(m) < 2 {
				return ""
			}
			i := ep.Uniform(rt, "mut-acc", len(m)-1)
			m[i], m[i+1] = m[i+1], m[i]
			return fmt.Sprintf("swap accounts %x and %x", m[i+1].Addr, m[i].Addr)
		case 1:
			i := pickAcc(func(a *c33Acc) bool { return len(a.Storage) > 1 })
			if i < 0 {
				return ""
			}
			s := ep.Uniform(rt, "mut-slot", len(m[i].Storage)-1)
			m[i].Storage[s], m[i].Storage[s+1] = m[i].Storage[s+1], m[i].Storage[s]
			return fmt.Sprintf("swap two storage slots of %x", m[i].Addr)
		case 2:
			i := pickAcc(func(a *c33Acc) bool { return len(a.Reads) > 1 })
			if i < 0 {
				return ""
			}
			s := ep.Uniform(rt, "mut-read", len(m[i].Reads)-1)
			m[i].Reads[s], m[i].Reads[s+1] = m[i].Reads[s+1], m[i].Reads[s]
			return fmt.Sprintf("swap two storage reads of %x", m[i].Addr)
		default:
			// swap the VALUES of two changes of one field (indices stay sorted)
			i := pickAcc(func(a *c33Acc) bool { return len(a.Bal) > 1 })
			if i < 0 {
				return ""
			}
			k := ep.Uniform(rt, "mut-change", len(m[i].Bal)-1)
			if m[i].Bal[k].Val.Eq(m[i].Bal[k+1].Val) {
				return ""
			}
			m[i].Bal[k].Val, m[i].Bal[k+1].Val = m[i].Bal[k+1].Val, m[i].Bal[k].Val
			return fmt.Sprintf("swap the balances of %x at indices %d and %d", m[i].Addr, m[i].Bal[k].Idx, m[i].Bal[k+1].Idx)
		}
	case "duplicate":
		switch c33Pick(rt, "mut-dup-what", []int{2, 1, 1, 2}) {
		case 0:
			if len(m) == 0 {
				return ""
			}
			i := ep.Uniform(rt, "mut-acc", len(m))
			cp := c33CopyMirror([]c33Acc{m[i]})[0]
			*mp = c33Insert(m, i, cp)
			return fmt.Sprintf("duplicate account %x", cp.Addr)
		case 1:
			i := pickAcc(func(a *c33Acc) bool { return len(a.Storage) > 0 })
			if i < 0 {
				return ""
			}
			s := ep.Uniform(rt, "mut-slot", len(m[i].Storage))
			m[i].Storage = c33Insert(m[i].Storage, s, m[i].Storage[s])
			return fmt.Sprintf("duplicate a storage slot of %x", m[i].Addr)
		case 2:
			i := pickAcc(func(a *c33Acc) bool { return len(a.Reads) > 0 })
			if i < 0 {
				return ""
			}
			s := ep.Uniform(rt, "mut-read", len(m[i].Reads))
			m[i].Reads = c33Insert(m[i].Reads, s, m[i].Reads[s])
			return fmt.Sprintf("duplicate a storage read of %x", m[i].Addr)
		default:
			i := pickAcc(func(a *c33Acc) bool { return len(a.Bal) > 0 })
			if i < 0 {
				return ""
			}
			k := ep.Uniform(rt, "mut-change", len(m[i].Bal))
			m[i].Bal = c33Insert(m[i].Bal, k, m[i].Bal[k])
			return fmt.Sprintf("duplicate a balance change of %x", m[i].Addr)
		}
	}
	return ""
}

// c33PickField draws one of the change-carrying fields of a that is not empty.
func c33PickField(rt *rapid.T, a *c33Acc) string {
	var names []string
	var weights []int
	add := func(n string, l, w int) {
		if l > 0 {
			names = append(names, n)
			weights = append(weights, w)
		}
	}
	add("balance", len(a.Bal), 3)
	add("nonce", len(a.Nonce), 2)
	add("code", len(a.Code), 3)
	add("storage", len(a.Storage), 4)
	return names[c33Pick(rt, "mut-field", weights)]
}

// ---------------------------------------------------------------------------------

func c33ChainConfig(scheme string, snap bool, sequential bool) *core.BlockChainConfig {
	cfg := core.DefaultConfig()
	cfg.StateScheme = scheme
	if !snap {
		cfg.SnapshotLimit = 0
	}
	cfg.VmConfig = vm.Config{DisableParallelExecution: sequential}
	return cfg
}

var c33Procs = []int{1, 2, 4, 16}

func TestVerifC33Parallel(t *testing.T) {
	st := vs.New("C33", t)
	reps, muts := 3, 6
	if vs.Thorough() {
		reps, muts = 4, 12
	}
	oldProcs := runtime.GOMAXPROCS(0)
	defer runtime.GOMAXPROCS(oldProcs)

	logged, ncase := false, 0
	vs.Check(t, 1, func(rt *rapid.T) {
		defer runtime.GOMAXPROCS(oldProcs)
		ncase++
		// A schedule-dependent failure cannot be reproduced (hence not reported with its
		// message) by rapid: the first observed failure is logged on the test itself.
		viol := func(format string, args ...any) {
			msg := fmt.Sprintf(format, args...)
			if !logged {
				logged = true
				t.Logf("C33 FIRST OBSERVED FAILURE (seed %d, generated case #%d; rapid re-runs the case and cannot reproduce schedule-dependent failures):\n%s", vs.Seed(), ncase, msg)
			}
			rt.Fatalf("%s", msg)
		}
		c := st.Case()
		w := worldgen.Draw(rt, worldgen.Options{
			Variants:  []worldgen.Variant{worldgen.VariantByName("amsterdam")},
			MaxBlocks: 2, MaxTxs: 10,
		})
		filler := c33Deepen(rt, w)
		eng, readers := c33Engineer(rt, w)
		scheme := []string{rawdb.HashScheme, rawdb.PathScheme}[ep.Uniform(rt, "scheme", 2)]
		snap := ep.Uniform(rt, "snapshot", 2) == 1

		// Sequential chain: the chain maker's blocks re-executed sequentially.
		b, err := w.Build(worldgen.BuildOptions{Chain: c33ChainConfig(scheme, snap, true), HoldLast: true})
		if err != nil {
			rt.Fatalf("VERIF-HARNESS-BUG: worldgen build (sequential re-execution of chain-maker blocks): %v\n%s", err, w.Describe())
		}
		defer b.Close()
		seqChain := b.Chain
		n := len(b.Blocks)
		last, parent := b.Blocks[n-1], b.Parent(n-1).Header()
		txs := last.Transactions()
		describe := func() string {
			s := fmt.Sprintf("scheme=%s snapshot=%v engineered=%v blocks=%d (the first %d without transactions) last block: %d txs\n", scheme, snap, eng, n, filler, len(txs))
			for i, info := range b.Txs[n-1] {
				s += fmt.Sprintf("  tx %d (index %d): from %x nonce %d to %v gas %d value %v | %s\n", i, i+1, info.From, info.Tx.Nonce(), info.Tx.To(), info.Tx.Gas(), info.Tx.Value(), info.Plan.Describe())
			}
			if al := last.AccessList(); al != nil {
				s += "true access list:\n" + al.PrettyPrint()
			}
			return s + "world: " + w.Describe()
		}
		if last.AccessList() == nil || last.Header().BlockAccessListHash == nil {
			rt.Fatalf("VERIF-HARNESS-BUG: chain maker produced an Amsterdam block without access list\n%s", describe())
		}

		// Parallel chain: same genesis, the earlier blocks inserted through the
		// parallel processor (they carry their access lists).
		parChain, err := core.NewBlockChain(rawdb.NewMemoryDatabase(), w.Genesis, b.Engine, c33ChainConfig(scheme, snap, false))
		if err != nil {
			rt.Fatalf("VERIF-HARNESS-BUG: second chain: %v", err)
		}
		defer parChain.Stop()
		procs := c33Procs[ep.Uniform(rt, "procs-insert", len(c33Procs))]
		runtime.GOMAXPROCS(procs)
		for i := 0; i < n-1; i++ {
			if err, p := c33TryInsert(parChain, b.Blocks[i]); err != nil || p != nil {
				viol("C33 violated: block %d (true access list), accepted by the sequential chain, is not accepted by the parallel chain (GOMAXPROCS=%d): err=%v panic=%v\n%s", i+1, procs, err, p, describe())
			}
		}

		// Truth.
		seq := c33Process(seqChain, parent, last, true, c33Setup{})
		if seq.err != nil {
			rt.Fatalf("VERIF-HARNESS-BUG: sequential execution of the chain maker's block failed: %v\n%s", seq.err, describe())
		}
		if seq.root != last.Root() || seq.res.GasUsed != last.GasUsed() {
			rt.Fatalf("VERIF-HARNESS-BUG: sequential execution disagrees with the chain maker: root %x vs %x, gas %d vs %d\n%s", seq.root, last.Root(), seq.res.GasUsed, last.GasUsed(), describe())
		}
		if err := seqChain.Validator().ValidateState(last, seq.st, seq.res, false); err != nil {
			rt.Fatalf("VERIF-HARNESS-BUG: sequential result of the chain maker's block fails ValidateState: %v\n%s", err, describe())
		}
		trueList := last.AccessList()
		mirror, trueBlob, err := c33ToMirror(trueList)
		if err != nil {
			rt.Fatalf("VERIF-HARNESS-BUG: mirror decode: %v", err)
		}
		if back, blob, err := c33FromMirror(mirror); err != nil || !bytes.Equal(blob, trueBlob) || back.Hash() != trueList.Hash() {
			rt.Fatalf("VERIF-HARNESS-BUG: access list mirror does not round-trip: %v", err)
		}
		if trueList.Hash() != *last.Header().BlockAccessListHash {
			rt.Fatalf("VERIF-HARNESS-BUG: chain maker's list does not hash to its header field")
		}
		if !bytes.Equal(c33BalBytes(seq.res.Bal), trueBlob) {
			rt.Fatalf("VERIF-HARNESS-BUG: sequential rebuilt list differs from the chain maker's")
		}

		// Generator self-check for the blockhash-readers: what a successful call stored
		// is the fold of the canonical ancestors' hashes (i.e. BLOCKHASH resolved them).
		// walkers = successful reader transactions with lookups older than the parent.
		walkers, walkLookups := 0, 0
		if len(readers) > 0 {
			byPlan := map[*worldgen.TxPlan]*c33ReaderCall{}
			for _, rc := range readers {
				byPlan[rc.plan] = rc
			}
			hashOf := func(num uint64) common.Hash {
				if h := seqChain.GetHeaderByNumber(num); h != nil {
					return h.Hash()
				}
				return common.Hash{}
			}
			for i, info := range b.Txs[n-1] {
				rc := byPlan[info.Plan]
				if rc == nil || seq.res.Receipts[i].Status != types.ReceiptStatusSuccessful {
					continue
				}
				want := rc.expected(last.NumberU64(), hashOf)
				if got := seq.st.GetState(c33Reader, common.BigToHash(new(big.Int).SetUint64(rc.slot))); got != want {
					rt.Fatalf("VERIF-HARNESS-BUG: blockhash reader tx %d (k0=%d count=%d down=%v) stored %x under sequential execution, the header chain gives %x\n%s", i, rc.k0, rc.count, rc.down, got, want, describe())
				}
				if o := rc.older(last.NumberU64()); o > 0 {
					walkers++
					walkLookups += o
				}
			}
		}

		// Classes.
		senders := make([]common.Address, len(txs))
		for i, info := range b.Txs[n-1] {
			senders[i] = info.From
		}
		c.Classf("chain-depth:%s", c33DepthBucket(n))
		if len(readers) > 0 {
			c.Classf("blockhash-walkers:%s", c33Bucket(walkers))
			if walkers >= 2 && n >= 4 {
				c.Class("blockhash:concurrent-old-ancestor-lookups-possible")
			}
		}
		deps := c33FindDeps(mirror, last, senders)
		c.Classf("store:%s/snap=%v", scheme, snap)
		c.Classf("txs:%s", c33Bucket(len(txs)))
		for _, l := range eng {
			c.Class("engineered:" + l)
		}
		if len(deps.labels) == 0 {
			c.Class("dep:none")
		}
		for _, l := range deps.labels {
			c.Class("dep:" + l)
		}
		if len(seq.res.Requests) > 0 {
			nonEmpty := false
			for _, r := range seq.res.Requests {
				if len(r) > 1 {
					nonEmpty = true
				}
			}
			if nonEmpty {
				c.Class("requests:non-empty")
			}
		}
		for _, a := range mirror {
			if len(a.Bal)+len(a.Nonce)+len(a.Code) > 0 && !seq.st.Exist(a.Addr) {
				c.Class("account-changed-then-gone")
				break
			}
		}
		failed, nlogs := 0, 0
		for _, r := range seq.res.Receipts {
			if r.Status == types.ReceiptStatusFailed {
				failed++
			}
			nlogs += len(r.Logs)
		}
		if failed > 0 {
			c.Class("has-failed-tx")
		}
		if nlogs > 0 {
			c.Class("has-logs")
		}

		// Positive part: parallel processor, repeated under different schedules (more
		// often when several transactions resolve old ancestors: cheap blocks, and the
		// schedule matters most there).
		runs := reps
		if walkers >= 2 {
			runs += reps
		}
		for r := 0; r < runs; r++ {
			procs := c33Procs[ep.Uniform(rt, "procs", len(c33Procs))]
			noise := c33Pick(rt, "noise", []int{2, 1, 1})
			runtime.GOMAXPROCS(procs)
			setup := c33Setup{}
			if c33Pick(rt, "setup", []int{1, 2}) == 1 {
				setup = c33Setup{real: true, threads: []int{1, 4, runtime.NumCPU()}[ep.Uniform(rt, "setup-threads", 3)], trieWarm: ep.Uniform(rt, "setup-trie-prefetcher", 3) != 0}
			}
			if c33Pick(rt, "header-gate", []int{1, 1}) == 1 {
				setup.gate = []int{4, 32, 256}[ep.Uniform(rt, "header-gate-step", 3)]
			}
			stop := c33Noise(noise*2, rapid.Uint64().Draw(rt, "noise-seed"))
			par := c33Process(parChain, parent, last, false, setup)
			stop()
			c.Classf("procs:%d", procs)
			if setup.gate > 0 && walkers > 0 {
				if par.met > 0 {
					c.Class("header-gate:lookups-met")
				} else {
					c.Class("header-gate:never-met")
				}
			}
			if setup.real {
				c.Class("setup:shared-reader")
			} else {
				c.Class("setup:plain-state")
			}
			where := fmt.Sprintf("repetition %d, GOMAXPROCS=%d, noise goroutines=%d, %s", r, procs, noise*2, setup)
			if par.err != nil {
				viol("C33 violated: parallel execution of a block with its true access list failed (%s): %v\n%s", where, par.err, describe())
			}
			if d := c33Diff(par.res, seq.res); d != "" {
				viol("C33 violated: parallel result differs from sequential (%s): %s\n%s", where, d, describe())
			}
			if par.root != seq.root {
				viol("C33 violated: parallel state root %x != sequential %x (%s)\n%s", par.root, seq.root, where, describe())
			}
			if err := parChain.Validator().ValidateState(last, par.st, par.res, false); err != nil {
				viol("C33 violated: ValidateState rejects the parallel result of the true block (%s): %v\n%s", where, err, describe())
			}
		}

		// Negative part: mutated access lists.
		parentState, err := seqChain.StateAt(parent)
		if err != nil {
			rt.Fatalf("VERIF-HARNESS-BUG: parent state: %v", err)
		}
		env := &c33MutEnv{ntx: len(txs), pool: w.Pool, parent: parentState}
		validMuts := 0
		var mutDescs []string
		for k := 0; k < muts; k++ {
			m := c33CopyMirror(mirror)
			steps := 1 + c33Pick(rt, "mut-steps", []int{6, 1}) // mostly single mutations, sometimes two
			var kinds, descs []string
			for s := 0; s < steps; s++ {
				kind, desc := c33Mutate(rt, &m, env)
				if kind != "" {
					kinds = append(kinds, kind)
					descs = append(descs, desc)
				}
			}
			if len(kinds) == 0 {
				c.Class("mut:none-applicable")
				continue
			}
			mdesc := strings.Join(descs, "; ")
			ml, mblob, err := c33FromMirror(m)
			if err != nil {
				rt.Fatalf("VERIF-HARNESS-BUG: mutated list does not decode: %v (%s)", err, mdesc)
			}
			if bytes.Equal(mblob, trueBlob) {
				c.Class("mut:no-op")
				continue
			}
			structural := ml.Validate(last.GasLimit(), len(txs)) == nil
			hdr := last.Header()
			mode := "hash-matching/true-root"
			switch c33Pick(rt, "mut-header-mode", []int{6, 3, 1}) {
			case 0:
				h := ml.Hash()
				hdr.BlockAccessListHash = &h
			case 1:
				h := ml.Hash()
				hdr.BlockAccessListHash = &h
				if structural {
					// the root a node that trusts the list would compute
					if root, ok := c33RootOfList(seqChain, parent, last, ml); ok {
						hdr.Root = root
						mode = "hash-matching/list-root"
					}
				}
			default:
				mode = "stale-hash/true-root" // header still commits to the true list
			}
			mb := types.NewBlockWithHeader(hdr).WithBody(*last.Body()).WithAccessList(ml)
			for _, kd := range kinds {
				c.Class("mut:" + kd)
			}
			c.Class("mut-mode:" + mode)
			if structural {
				validMuts++
				c.Class("mut-structure:valid")
			} else {
				c.Class("mut-structure:invalid")
			}
			c.Fault()
			mutDescs = append(mutDescs, mdesc)

			procs := c33Procs[ep.Uniform(rt, "procs-mut", len(c33Procs))]
			runtime.GOMAXPROCS(procs)
			for _, side := range []struct {
				name  string
				chain *core.BlockChain
			}{{"parallel", parChain}, {"sequential", seqChain}} {
				err, p := c33TryInsert(side.chain, mb)
				where := fmt.Sprintf("%s chain, GOMAXPROCS=%d, header mode %s, structurally valid=%v", side.name, procs, mode, structural)
				if p != nil {
					viol("C33 violated: inserting a block with a mutated access list panicked (%s): %v\nmutation: %s\nmutated list:\n%s\n%s", where, p, mdesc, ml.PrettyPrint(), describe())
				}
				head := side.chain.CurrentBlock()
				if err == nil {
					viol("C33 violated: block with a mutated access list was ACCEPTED (%s); head now %x root %x (true root %x)\nmutation: %s\nmutated list:\n%s\n%s",
						where, head.Hash(), head.Root, last.Root(), mdesc, ml.PrettyPrint(), describe())
				}
				if head.Hash() != parent.Hash() {
					viol("C33 violated: insertion of a mutated block returned %v but moved the head to %x (%s)\nmutation: %s\n%s", err, head.Hash(), where, mdesc, describe())
				}
				if mb.Hash() != last.Hash() && side.chain.HasBlockAndState(mb.Hash(), mb.NumberU64()) {
					viol("C33 violated: rejected mutated block left block+state behind (%s)\nmutation: %s\n%s", where, mdesc, describe())
				}
				c.Classf("reject:%s:%s", side.name, c33RejectClass(err))
			}
		}

		// The true block through the real insertion path, on both chains.
		procs = c33Procs[ep.Uniform(rt, "procs-final", len(c33Procs))]
		runtime.GOMAXPROCS(procs)
		for _, side := range []struct {
			name  string
			chain *core.BlockChain
		}{{"parallel", parChain}, {"sequential", seqChain}} {
			err, p := c33TryInsert(side.chain, last)
			if err != nil || p != nil {
				viol("C33 violated: the true block is not accepted by InsertChain on the %s chain (GOMAXPROCS=%d, after %d rejected mutants): err=%v panic=%v\n%s", side.name, procs, len(mutDescs), err, p, describe())
			}
			if head := side.chain.CurrentBlock(); head.Hash() != last.Hash() || head.Root != seq.root {
				viol("C33 violated: after inserting the true block the %s chain's head is %x root %x, want %x root %x\n%s", side.name, head.Hash(), head.Root, last.Hash(), seq.root, describe())
			}
			if _, err := side.chain.StateAt(side.chain.CurrentBlock()); err != nil {
				viol("C33 violated: committed state of the true block not readable on the %s chain: %v\n%s", side.name, err, describe())
			}
		}

		nontrivial := deps.strong && validMuts > 0
		d := c33Descriptor(last, seq.res, deps, mirror)
		c.NonTrivial(nontrivial, d)
		c.Sample(nontrivial, func() any {
			return map[string]any{"descriptor": d, "engineered": eng, "deps": deps.labels, "txs": len(txs), "blocks": n, "blockhash_walkers": walkers, "blockhash_old_lookups": walkLookups, "mutations": mutDescs}
		})
	})
}

func c33DepthBucket(n int) string {
	switch {
	case n <= 3:
		return fmt.Sprint(n)
	case n <= 16:
		return "4-16"
	case n <= 64:
		return "17-64"
	case n <= 255:
		return "65-255"
	default:
		return "256+"
	}
}

func c33Bucket(n int) string {
	switch {
	case n == 0:
		return "0"
	case n == 1:
		return "1"
	case n <= 4:
		return "2-4"
	case n <= 8:
		return "5-8"
	default:
		return "9+"
	}
}

// c33RootOfList computes the state root obtained by installing the list's post
// values on the parent state (what the parallel path derives its root from).
func c33RootOfList(chain *core.BlockChain, parent *types.Header, block *types.Block, l *bal.BlockAccessList) (root common.Hash, ok bool) {
	defer func() {
		if recover() != nil {
			ok = false
		}
	}()
	st, err := chain.StateAt(parent)
	if err != nil {
		return common.Hash{}, false
	}
	if err := st.ApplyBlockAccessList(l.Copy()); err != nil {
		return common.Hash{}, false
	}
	root = st.IntermediateRoot(c33Rules(chain.Config(), block))
	if st.Error() != nil {
		return common.Hash{}, false
	}
	return root, true
}

func c33Descriptor(block *types.Block, res *core.ProcessResult, deps c33Deps, m []c33Acc) string {
	var sb strings.Builder
	for i, tx := range block.Transactions() {
		to := "create"
		if tx.To() != nil {
			to = fmt.Sprintf("%x", tx.To()[:3])
		}
		fmt.Fprintf(&sb, "%d/%s/%d/%d;", tx.Type(), to, res.Receipts[i].Status, len(res.Receipts[i].Logs))
	}
	slots, changes := 0, 0
	for _, a := range m {
		slots += len(a.Storage) + len(a.Reads)
		changes += len(a.Bal) + len(a.Nonce) + len(a.Code)
		for _, s := range a.Storage {
			changes += len(s.Changes)
		}
	}
	fmt.Fprintf(&sb, "|deps=%s|accounts=%d slots=%d changes=%d wd=%d", strings.Join(deps.labels, ","), len(m), slots, changes, len(block.Withdrawals()))
	return sb.String()
}
