//go:build verif

package core

// C39 — blockchain restarts consistently after a crash (fault enumeration).
//
// The scenario struct of blockchain_repair_test.go / blockchain_sethead_test.go
// (canonical length, side chain, commit block, freeze threshold, pivot marker,
// optional SetHead) is *drawn* instead of tabulated. The chain runs on a recording
// key-value store (verifx/crashkv) plus a real file freezer; the freezer directory
// is snapshotted at sampled key-value events. A crash image is
//   key-value store = replay of a log prefix n, lastSync(e) <= n <= e
//   freezer files   = exactly as they were at event e
// (process kill: n == e; power failure: unsynced key-value suffix lost while the
// freezer files, which the chain freezer fsyncs itself, survived). Every image is
// reopened with rawdb.Open + NewBlockChain and the five clauses of the property are
// evaluated; nothing is asserted about how far the repair rewinds.

import (
	"context"
	"crypto/ecdsa"
	"fmt"
	"log/slog"
	"math/big"
	"math/rand"
	"os"
	"path/filepath"
	"sort"
	"strings"
	"testing"

	"github.com/ethereum/go-ethereum/common"
	"github.com/ethereum/go-ethereum/consensus/ethash"
	"github.com/ethereum/go-ethereum/core/rawdb"
	"github.com/ethereum/go-ethereum/core/types"
	"github.com/ethereum/go-ethereum/crypto"
	"github.com/ethereum/go-ethereum/ethdb"
	"github.com/ethereum/go-ethereum/ethdb/memorydb"
	"github.com/ethereum/go-ethereum/internal/verifx/crashkv"
	"github.com/ethereum/go-ethereum/log"
	"github.com/ethereum/go-ethereum/params"
	"github.com/ethereum/go-ethereum/rlp"
	"github.com/ethereum/go-ethereum/trie"
	"github.com/ethereum/go-ethereum/triedb"
	"pgregory.net/rapid"
	"verif.local/kit/crashfs"
	vs "verif.local/kit/stat"
)

// ---------------------------------------------------------------------------
// log.Crit would os.Exit(1); turn it into a panic that names the message.

type c39CritHandler struct{}

type c39Crit struct{ msg string }

func (c39CritHandler) Enabled(_ context.Context, l slog.Level) bool { return l >= log.LevelCrit }
func (c39CritHandler) Handle(_ context.Context, r slog.Record) error {
	if r.Level >= log.LevelCrit {
		var sb strings.Builder
		sb.WriteString(r.Message)
		r.Attrs(func(a slog.Attr) bool { fmt.Fprintf(&sb, " %s=%v", a.Key, a.Value); return true })
		panic(c39Crit{sb.String()})
	}
	return nil
}
func (h c39CritHandler) WithAttrs([]slog.Attr) slog.Handler { return h }
func (h c39CritHandler) WithGroup(string) slog.Handler      { return h }

// ---------------------------------------------------------------------------
// key-value hook layer on top of crashkv (observes, changes nothing)
//
// infl > 1 additionally makes every batch report ValueSize()*infl: all the
// "batch >= ethdb.IdealBatchSize -> Write, Reset" branches of the code under test
// (hashdb Commit/Cap, snapshot generator, freezer index clean-up, ...) then fire after
// a few hundred bytes instead of 100 KB, exactly as if the values were that much
// larger. The stored data is unchanged; only the batch boundaries (= possible crash
// points, each recorded by crashkv as one atomic event) move closer together.

type c39KV struct {
	*crashkv.Store
	after func() // called after every recorded event
	infl  int
}

func (s *c39KV) Put(k, v []byte) error {
	err := s.Store.Put(k, v)
	if err == nil {
		s.after()
	}
	return err
}
func (s *c39KV) Delete(k []byte) error {
	err := s.Store.Delete(k)
	if err == nil {
		s.after()
	}
	return err
}
func (s *c39KV) DeleteRange(a, b []byte) error {
	err := s.Store.DeleteRange(a, b)
	if err == nil {
		s.after()
	}
	return err
}
func (s *c39KV) SyncKeyValue() error {
	err := s.Store.SyncKeyValue()
	if err == nil {
		s.after()
	}
	return err
}
func (s *c39KV) NewBatch() ethdb.Batch {
	return &c39Batch{Batch: s.Store.NewBatch(), after: s.after, infl: s.infl}
}
func (s *c39KV) NewBatchWithSize(n int) ethdb.Batch {
	return &c39Batch{Batch: s.Store.NewBatchWithSize(n), after: s.after, infl: s.infl}
}

type c39Batch struct {
	ethdb.Batch
	after func()
	infl  int
}

func (b *c39Batch) ValueSize() int {
	if b.infl > 1 {
		return b.Batch.ValueSize() * b.infl
	}
	return b.Batch.ValueSize()
}

func (b *c39Batch) Write() error {
	err := b.Batch.Write()
	if err == nil {
		b.after()
	}
	return err
}

// ---------------------------------------------------------------------------
// scenario

type c39Scenario struct {
	Scheme     string
	Snapshots  bool
	CanonL     int     // canonical chain length
	ForkAt     int     // side chain forks off canonical block ForkAt (0 = genesis)
	SideLen    int     // 0 = no side chain
	Commit     int     // triedb.Commit after this canonical block (0 = never)
	SnapCap    int     // snaps.Cap after this canonical block (hash scheme + snapshots; 0 = never)
	Finalized  int     // SetFinalized(canon[Finalized]) + Freeze() at the end (0 = no freeze)
	Pivot      *uint64 // snap-sync pivot marker
	SetHead    *uint64 // SetHead issued before the crash
	ChunkSeed  uint64
	TxBlocks   uint64 // bitmask: canonical block i carries a transfer
	Slots      int    // > 0: genesis holds a storage contract; tx blocks also write Slots fresh slots of it
	Infl       int    // > 1: batches of the history's database report ValueSize()*Infl (multi-batch commits)
	CrashSeed  uint64
	CrashCount int
}

func (sc *c39Scenario) String() string {
	p, h := "-", "-"
	if sc.Pivot != nil {
		p = fmt.Sprint(*sc.Pivot)
	}
	if sc.SetHead != nil {
		h = fmt.Sprint(*sc.SetHead)
	}
	return fmt.Sprintf("%s/snap=%v canon=%d fork=%d side=%d commit=%d cap=%d final=%d pivot=%s sethead=%s slots=%d infl=%d", sc.Scheme, sc.Snapshots,
		sc.CanonL, sc.ForkAt, sc.SideLen, sc.Commit, sc.SnapCap, sc.Finalized, p, h, sc.Slots, sc.Infl)
}

func c39DrawScenario(rt *rapid.T, maxL int) *c39Scenario {
	sc := &c39Scenario{}
	sc.Scheme = rapid.SampledFrom([]string{rawdb.HashScheme, rawdb.PathScheme}).Draw(rt, "scheme")
	sc.Snapshots = rapid.Bool().Draw(rt, "snapshots")
	sc.CanonL = rapid.IntRange(1, maxL).Draw(rt, "canonL")
	if rapid.IntRange(0, 3).Draw(rt, "hasSide") > 0 {
		sc.ForkAt = rapid.IntRange(0, sc.CanonL-1).Draw(rt, "forkAt")
		maxSide := sc.CanonL - sc.ForkAt + 5
		if maxSide > 16 {
			maxSide = 16
		}
		sc.SideLen = rapid.IntRange(1, maxSide).Draw(rt, "sideLen")
	}
	if rapid.IntRange(0, 4).Draw(rt, "hasCommit") > 0 {
		sc.Commit = rapid.IntRange(1, sc.CanonL).Draw(rt, "commit")
	}
	if sc.Scheme == rawdb.HashScheme && sc.Snapshots && rapid.IntRange(0, 2).Draw(rt, "hasCap") > 0 {
		sc.SnapCap = rapid.IntRange(1, sc.CanonL).Draw(rt, "snapCap")
	}
	if rapid.IntRange(0, 3).Draw(rt, "hasFreeze") > 0 {
		sc.Finalized = rapid.IntRange(1, sc.CanonL).Draw(rt, "finalized")
	}
	if rapid.IntRange(0, 4).Draw(rt, "hasPivot") == 0 {
		p := uint64(rapid.IntRange(1, sc.CanonL).Draw(rt, "pivot"))
		sc.Pivot = &p
	}
	if rapid.IntRange(0, 2).Draw(rt, "hasSetHead") == 0 {
		h := uint64(rapid.IntRange(0, sc.CanonL).Draw(rt, "setHead"))
		sc.SetHead = &h
	}
	sc.ChunkSeed = rapid.Uint64().Draw(rt, "chunkSeed")
	sc.TxBlocks = rapid.Uint64().Draw(rt, "txBlocks")
	// state shape: accounts only, or a contract whose storage trie grows with every tx block
	if rapid.IntRange(0, 2).Draw(rt, "hasStorage") > 0 {
		sc.Slots = rapid.IntRange(1, 16).Draw(rt, "slots")
	}
	// batch granularity (hash scheme, whose only crash safety is the write order of the trie
	// nodes): 0 = real sizes (one batch per commit for these states), otherwise a batch is
	// "full" after roughly 100KB/Infl bytes, i.e. after every node (2048) up to every ~5 nodes (128)
	if sc.Scheme == rawdb.HashScheme {
		sc.Infl = rapid.SampledFrom([]int{0, 128, 512, 2048}).Draw(rt, "infl")
	}
	sc.CrashSeed = rapid.Uint64().Draw(rt, "crashSeed")
	return sc
}

// ---------------------------------------------------------------------------
// history

type c39Point struct {
	event int               // number of key-value events issued when the files were captured
	files *crashfs.Snapshot // freezer directory at that instant
	label string
}

type c39Hist struct {
	sc         *c39Scenario
	gspec      *Genesis
	option     *BlockChainConfig
	canon      types.Blocks
	side       types.Blocks
	klog       *crashkv.Log
	points     []c39Point
	commitFrom int // log length right before triedb.Commit was called
	commitAt   int // log length right after triedb.Commit returned (0 = never)
	setHeadAt  int // log length right before SetHead was called (0 = never)
	byHash     map[common.Hash]*types.Block
	onCanon    map[common.Hash]bool
	excluded   int // assertions skipped because of a known finding

	refAccounts, refSlots int // size of the head state of the node that never crashed

	lastFrozen uint64 // Ancients() right after rawdb.Open of the image being checked
}

// Classes of suspected geth defects (notes/C39.md); honoured only when listed in
// known_findings.json. They are registered for both tests of this file.
const (
	c39ClassReorgGap         = "reorg-markers-deleted-before-head-update"
	c39ClassSetHeadAbove     = "sethead-crash-leaves-canonical-above-head"
	c39ClassGenesisInit      = "pathdb-genesis-init-crash-unopenable"
	c39ClassGenesisStateless = "pathdb-rewind-to-genesis-crash-stateless-head"
)

// cutAfterReorgDelete reports whether the key-value prefix ends right after a batch
// that only deletes number->hash and tx-lookup entries, i.e. after reorg()'s
// "delete useless indexes" batch and before the writeHeadBlock batch that follows it.
func (h *c39Hist) cutAfterReorgDelete(prefix int) bool {
	evs := h.klog.Events()
	if prefix < 1 || prefix > len(evs) {
		return false
	}
	e := evs[prefix-1]
	if e.Kind != crashkv.Batch || len(e.Ops) == 0 {
		return false
	}
	canon := 0
	for _, op := range e.Ops {
		switch {
		case op.Kind == crashkv.Delete && len(op.Key) == 10 && op.Key[0] == 'h' && op.Key[9] == 'n':
			canon++
		case op.Kind == crashkv.Delete && len(op.Key) == 33 && op.Key[0] == 'l':
		default:
			return false
		}
	}
	return canon > 0
}

func c39Known(class string) bool {
	return vs.Known("TestVerifC39Crash", class)
}

var (
	c39Key, _ = crypto.ToECDSA(common.LeftPadBytes([]byte{0x39}, 32))
	c39Addr   = crypto.PubkeyToAddress(c39Key.PublicKey)
)

// c39StoreCode: for i = calldata[0:32]-1 .. 0: SSTORE((NUMBER<<8)|i, calldata[32:64]).
// Every call writes n slots that no other block height touches.
var (
	c39StoreAddr = common.HexToAddress("0xc0de000000000000000000000000000000000039")
	c39StoreCode = []byte{
		0x60, 0x00, 0x35, // PUSH1 0 CALLDATALOAD            [n]
		0x5b,                         // JUMPDEST (3)
		0x80, 0x15, 0x60, 0x1a, 0x57, // DUP1 ISZERO PUSH1 end JUMPI
		0x60, 0x01, 0x90, 0x03, // PUSH1 1 SWAP1 SUB           [n-1]
		0x60, 0x20, 0x35, // PUSH1 32 CALLDATALOAD           [n-1 salt]
		0x43, 0x60, 0x08, 0x1b, // NUMBER PUSH1 8 SHL          [n-1 salt num<<8]
		0x82, 0x17, // DUP3 OR                              [n-1 salt key]
		0x55,             // SSTORE
		0x60, 0x03, 0x56, // PUSH1 3 JUMP
		0x5b, 0x00, // JUMPDEST (0x1a) STOP
	}
)

func c39Genesis(sc *c39Scenario) *Genesis {
	g := &Genesis{
		BaseFee: big.NewInt(params.InitialBaseFee),
		Config:  params.AllEthashProtocolChanges,
		Alloc:   types.GenesisAlloc{c39Addr: {Balance: new(big.Int).Mul(big.NewInt(1000), big.NewInt(params.Ether))}},
	}
	if sc.Slots > 0 {
		st := map[common.Hash]common.Hash{}
		for i := 0; i < sc.Slots; i++ {
			st[common.BigToHash(big.NewInt(int64(i)))] = common.BigToHash(big.NewInt(int64(0x39 + i)))
		}
		g.Alloc[c39StoreAddr] = types.Account{Balance: big.NewInt(1), Code: c39StoreCode, Storage: st}
	}
	return g
}

// c39StoreTx calls the storage contract: n fresh slots set to salt.
func c39StoreTx(b *BlockGen, signer types.Signer, key *ecdsa.PrivateKey, n int, salt int64) *types.Transaction {
	data := append(common.BigToHash(big.NewInt(int64(n))).Bytes(), common.BigToHash(big.NewInt(salt)).Bytes()...)
	return types.MustSignNewTx(key, signer, &types.LegacyTx{Nonce: b.TxNonce(c39Addr), To: &c39StoreAddr, Data: data,
		Gas: uint64(100000 + 25000*n), GasPrice: new(big.Int).Add(b.BaseFee(), big.NewInt(1))})
}

func c39Option(sc *c39Scenario) *BlockChainConfig {
	o := DefaultConfig().WithStateScheme(sc.Scheme).WithNoAsyncFlush(true)
	o.SnapshotLimit = 0
	o.TxLookupLimit = -1
	if sc.Snapshots {
		o.SnapshotLimit = 256
		o.SnapshotWait = true
	}
	return o
}

func c39MakeBlocks(sc *c39Scenario, gspec *Genesis, key *ecdsa.PrivateKey) (canon, side types.Blocks, genDb ethdb.Database) {
	engine := ethash.NewFaker()
	signer := types.LatestSigner(gspec.Config)
	genDb, canon, _ = GenerateChainWithGenesis(gspec, engine, sc.CanonL, func(i int, b *BlockGen) {
		b.SetCoinbase(common.Address{0x02})
		if sc.TxBlocks&(1<<uint(i%64)) != 0 {
			tx := types.MustSignNewTx(key, signer, &types.LegacyTx{Nonce: b.TxNonce(c39Addr), To: &common.Address{0xee}, Value: big.NewInt(1), Gas: params.TxGas, GasPrice: new(big.Int).Add(b.BaseFee(), big.NewInt(1))})
			b.AddTx(tx)
			if sc.Slots > 0 {
				b.AddTx(c39StoreTx(b, signer, key, sc.Slots, int64(0x1000+i)))
			}
		}
	})
	if sc.SideLen > 0 {
		parent := gspec.ToBlock()
		if sc.ForkAt > 0 {
			parent = canon[sc.ForkAt-1]
		}
		side, _ = GenerateChain(gspec.Config, parent, engine, genDb, sc.SideLen, func(i int, b *BlockGen) {
			b.SetCoinbase(common.Address{0x01})
			if i%3 == 1 {
				tx := types.MustSignNewTx(key, signer, &types.LegacyTx{Nonce: b.TxNonce(c39Addr), To: &common.Address{0xef}, Value: big.NewInt(2), Gas: params.TxGas, GasPrice: new(big.Int).Add(b.BaseFee(), big.NewInt(1))})
				b.AddTx(tx)
				if sc.Slots > 0 {
					b.AddTx(c39StoreTx(b, signer, key, 1+sc.Slots/2, int64(0x51de00+i)))
				}
			}
		})
	}
	return canon, side, genDb
}

// c39T is satisfied by *rapid.T and *testing.T.
type c39T interface {
	Fatalf(format string, args ...any)
}

type c39Freezer interface {
	Freeze() error
	Ancients() (uint64, error)
}

// c39RunHistory executes the scenario on a recording store and captures crash points.
// wantPoints < 0 captures a crash point at every key-value event.
func c39RunHistory(rt c39T, sc *c39Scenario, wantPoints int) *c39Hist {
	h := &c39Hist{sc: sc, gspec: c39Genesis(sc), option: c39Option(sc), klog: crashkv.NewLog(),
		byHash: map[common.Hash]*types.Block{}, onCanon: map[common.Hash]bool{}}
	var genDb ethdb.Database
	h.canon, h.side, genDb = c39MakeBlocks(sc, h.gspec, c39Key)
	// the node that never crashed: the chain maker's own database holds every state
	{
		ref := triedb.NewDatabase(genDb, triedb.HashDefaults)
		var err error
		if h.refAccounts, h.refSlots, err = c39IterateState(ref, genDb, h.canon[sc.CanonL-1].Root()); err != nil {
			rt.Fatalf("VERIF-HARNESS-BUG: reference head state does not iterate: %v", err)
		}
		ref.Close()
		wantSlots := 0
		if sc.Slots > 0 {
			wantSlots = sc.Slots
			for i := 0; i < sc.CanonL; i++ {
				if sc.TxBlocks&(1<<uint(i%64)) != 0 {
					wantSlots += sc.Slots
				}
			}
		}
		if h.refSlots != wantSlots {
			rt.Fatalf("VERIF-HARNESS-BUG: reference head state has %d storage slots, the generator intended %d (%s)", h.refSlots, wantSlots, sc)
		}
	}
	for _, b := range h.canon {
		h.byHash[b.Hash()] = b
		h.onCanon[b.Hash()] = true
	}
	for _, b := range h.side {
		h.byHash[b.Hash()] = b
	}
	g := h.gspec.ToBlock()
	h.byHash[g.Hash()] = g
	h.onCanon[g.Hash()] = true

	dir, err := os.MkdirTemp("", "c39-hist-")
	if err != nil {
		rt.Fatalf("VERIF-HARNESS-BUG: %v", err)
	}
	defer os.RemoveAll(dir)
	ancient := filepath.Join(dir, "ancient")

	// crash point sampling: expected wantPoints captures over an estimated event count
	rng := rand.New(rand.NewSource(int64(sc.CrashSeed)))
	est := float64(12*(sc.CanonL+sc.SideLen) + 40)
	prob := float64(wantPoints) / est
	force := false
	capture := func(label string) {
		snap, err := crashfs.Snap(ancient)
		if err != nil {
			panic(fmt.Sprintf("VERIF-HARNESS-BUG: snapshot of the freezer directory failed: %v", err))
		}
		h.points = append(h.points, c39Point{event: h.klog.Len(), files: snap, label: label})
	}
	phase := "open"
	kv := &c39KV{Store: crashkv.Wrap(memorydb.New(), h.klog), infl: sc.Infl}
	// Every key-value event of the explicit state commit (= every batch write of it) and of
	// the SetHead is a candidate crash point; a PRNG-chosen subset (uniform over the events
	// of that operation) is kept once the operation has returned.
	var cands []c39Point
	keepCands := func() {
		keep := wantPoints/2 + 1
		rng.Shuffle(len(cands), func(a, b int) { cands[a], cands[b] = cands[b], cands[a] })
		if len(cands) > keep {
			cands = cands[:keep]
		}
		h.points = append(h.points, cands...)
		cands = nil
	}
	kv.after = func() {
		if (phase == "commit" || phase == "sethead") && wantPoints >= 0 {
			pts := h.points
			capture(phase)
			cands, h.points = append(cands, h.points[len(pts):]...), pts
			return
		}
		if force || wantPoints < 0 || rng.Float64() < prob {
			force = false
			capture(phase)
		}
	}
	db, err := rawdb.Open(kv, rawdb.OpenOptions{Ancient: ancient})
	if err != nil {
		rt.Fatalf("VERIF-HARNESS-BUG: rawdb.Open on a fresh store failed: %v", err)
	}
	engine := ethash.NewFaker()
	chain, err := NewBlockChain(db, h.gspec, engine, h.option)
	if err != nil {
		rt.Fatalf("VERIF-HARNESS-BUG: NewBlockChain on a fresh store failed: %v", err)
	}
	insert := func(blocks types.Blocks, what string) {
		if len(blocks) == 0 {
			return
		}
		phase = what
		if _, err := chain.InsertChain(blocks); err != nil {
			rt.Fatalf("VERIF-HARNESS-BUG: importing %s failed: %v", what, err)
		}
	}
	chunkRng := rand.New(rand.NewSource(int64(sc.ChunkSeed)))
	// canonical import in chunks; side chain, commit and snapshot cap at their positions
	i := 0
	if sc.SideLen > 0 && sc.ForkAt == 0 {
		insert(h.side, "side")
	}
	for i < sc.CanonL {
		// next boundary
		end := sc.CanonL
		for _, b := range []int{sc.ForkAt, sc.Commit, sc.SnapCap} {
			if b > i && b < end {
				end = b
			}
		}
		if n := end - i; n > 1 && chunkRng.Intn(3) == 0 {
			end = i + 1 + chunkRng.Intn(n-1)
		}
		insert(h.canon[i:end], fmt.Sprintf("canon[%d:%d]", i+1, end))
		i = end
		if sc.SideLen > 0 && sc.ForkAt > 0 && i == sc.ForkAt {
			insert(h.side, "side")
		}
		if sc.Commit > 0 && i == sc.Commit && h.commitAt == 0 {
			phase = "commit"
			h.commitFrom = h.klog.Len()
			if err := chain.triedb.Commit(h.canon[i-1].Root(), false); err != nil {
				rt.Fatalf("VERIF-HARNESS-BUG: triedb.Commit failed: %v", err)
			}
			h.commitAt = h.klog.Len()
			h.klog.Mark("commit-done")
			phase = "committed"
			keepCands()
		}
		if sc.SnapCap > 0 && i == sc.SnapCap && chain.snaps != nil {
			phase = "snapcap"
			// the side chain may have made another layer the head; Cap needs the root in the tree
			if chain.snaps.Snapshot(h.canon[i-1].Root()) != nil {
				if err := chain.snaps.Cap(h.canon[i-1].Root(), 0); err != nil {
					rt.Fatalf("VERIF-HARNESS-BUG: snaps.Cap failed: %v", err)
				}
			}
		}
	}
	if sc.Finalized > 0 {
		phase = "freeze"
		force = true
		chain.SetFinalized(h.canon[sc.Finalized-1].Header())
		if err := db.(c39Freezer).Freeze(); err != nil {
			rt.Fatalf("VERIF-HARNESS-BUG: Freeze failed: %v", err)
		}
	}
	if sc.Pivot != nil {
		phase = "pivot"
		rawdb.WriteLastPivotNumber(db, *sc.Pivot)
	}
	if sc.SetHead != nil {
		phase = "sethead"
		h.setHeadAt = h.klog.Len()
		h.klog.Mark("sethead-begin")
		if err := chain.SetHead(*sc.SetHead); err != nil {
			rt.Fatalf("SetHead(%d) before the crash failed: %v (scenario %s)", *sc.SetHead, err, sc)
		}
		phase = "sethead-done"
		keepCands()
	}
	// the crash at the very end ("pull the plug", as the repair tests do)
	capture("end")
	sort.SliceStable(h.points, func(a, b int) bool { return h.points[a].event < h.points[b].event })
	// self-check of the recording layer: replaying the whole log reproduces the store
	if d := c39DiffKV(h.klog.Materialize(h.klog.Len()), kv.Store.Inner()); d != "" {
		rt.Fatalf("VERIF-HARNESS-BUG: replay of the complete key-value log differs from the live store: %s", d)
	}
	chain.triedb.Close()
	db.Close()
	chain.stopWithoutSaving()
	return h
}

func c39DiffKV(a, b ethdb.KeyValueStore) string {
	ia, ib := a.NewIterator(nil, nil), b.NewIterator(nil, nil)
	defer ia.Release()
	defer ib.Release()
	for {
		na, nb := ia.Next(), ib.Next()
		if !na && !nb {
			return ""
		}
		if na != nb {
			if na {
				return fmt.Sprintf("extra key in replay %x", ia.Key())
			}
			return fmt.Sprintf("key missing in replay %x", ib.Key())
		}
		if string(ia.Key()) != string(ib.Key()) || string(ia.Value()) != string(ib.Value()) {
			return fmt.Sprintf("replay has %x, live store has %x", ia.Key(), ib.Key())
		}
	}
}

// ---------------------------------------------------------------------------
// recovery oracle

type c39Image struct {
	point  c39Point
	prefix int // key-value log prefix
}

func (h *c39Hist) failf(rt c39T, img c39Image, format string, a ...any) {
	var files []string
	for _, n := range img.point.files.Names() {
		if sz := len(img.point.files.Files[n]); sz > 0 && strings.HasPrefix(n, "chain/") {
			files = append(files, fmt.Sprintf("%s:%d", strings.TrimPrefix(n, "chain/"), sz))
		}
	}
	rt.Fatalf("%s\n  scenario: %s\n  crash: phase=%s kv-events=%d kv-prefix=%d (lastSync=%d, total=%d) commitAt=%d setHeadAt=%d frozen-on-open=%d\n  freezer files: %s",
		fmt.Sprintf(format, a...), h.sc, img.point.label, img.point.event, img.prefix, h.klog.LastSync(img.point.event), h.klog.Len(), h.commitAt, h.setHeadAt, h.lastFrozen,
		strings.Join(files, " "))
}

func c39Name(b *types.Block, canon bool) string {
	c := "side"
	if canon {
		c = "canon"
	}
	return fmt.Sprintf("#%d/%s/%x", b.NumberU64(), c, b.Hash().Bytes()[:3])
}

// persistedBlock returns P: the number of the canonical block whose state was the
// last one durably persisted in the image (0 if none / genesis).
func (h *c39Hist) persistedBlock(img c39Image, kv ethdb.KeyValueStore) uint64 {
	if h.sc.Scheme == rawdb.HashScheme {
		if h.commitAt == 0 || h.commitAt > img.prefix {
			return 0
		}
		if h.sc.Snapshots {
			// With the legacy snapshot enabled, startup repair deliberately rewinds below the
			// snapshot's persistent layer (issue 23496 policy) before it accepts a trie state, so
			// a committed trie state ABOVE that layer is not a usable restart point. Only a
			// commit at or below the snapshot disk layer counts as the persisted state.
			if sroot := rawdb.ReadSnapshotRoot(kv); sroot != (common.Hash{}) {
				layer := -1
				if sroot == h.gspec.ToBlock().Root() {
					layer = 0
				}
				for _, b := range h.canon {
					if b.Root() == sroot {
						layer = int(b.NumberU64())
					}
				}
				if h.sc.Commit > layer {
					return 0
				}
				// ... and the repair only crosses that layer if it lies on the chain below the
				// head it starts from (a SetHead below the layer, or a head on a side chain that
				// forked below it, makes the layer unreachable: the repair then ends at genesis
				// and, with frozen blocks, wipes the chain - policy, not asserted).
				head, ok := h.byHash[rawdb.ReadHeadBlockHash(kv)]
				if !ok {
					return 0
				}
				reach := int(head.NumberU64())
				if !h.onCanon[head.Hash()] && h.sc.ForkAt < reach {
					reach = h.sc.ForkAt
				}
				if layer > reach {
					return 0
				}
			}
		}
		return uint64(h.sc.Commit)
	}
	id := rawdb.ReadPersistentStateID(kv)
	if id == 0 {
		return 0
	}
	for _, b := range h.canon {
		if sid := rawdb.ReadStateID(kv, b.Root()); sid != nil && *sid == id {
			return b.NumberU64()
		}
	}
	return 0
}

// reopen reopens one crash image and evaluates the five clauses. It returns
// whether the image satisfied the non-trivial rule.
func (h *c39Hist) reopen(rt c39T, img c39Image) (nontrivial bool, class string) {
	defer func() {
		if r := recover(); r != nil {
			if c, ok := r.(c39Crit); ok {
				h.failf(rt, img, "log.Crit during recovery (would exit the node): %s", c.msg)
			}
			panic(r)
		}
	}()
	sc := h.sc
	kv := h.klog.Materialize(img.prefix)
	P := h.persistedBlock(img, kv)
	if sc.SetHead != nil && h.setHeadAt <= img.prefix && *sc.SetHead < P {
		if sc.Scheme == rawdb.HashScheme {
			// the committed state belongs to a block the SetHead removes on purpose; the hash
			// scheme cannot roll a state back, so nothing persisted remains below the new head
			P = 0
		} else {
			P = *sc.SetHead // blocks above the SetHead target were removed on purpose
		}
	}
	dir, err := os.MkdirTemp("", "c39-img-")
	if err != nil {
		rt.Fatalf("VERIF-HARNESS-BUG: %v", err)
	}
	defer os.RemoveAll(dir)
	ancient := filepath.Join(dir, "ancient")
	if err := img.point.files.WriteTo(ancient); err != nil {
		rt.Fatalf("VERIF-HARNESS-BUG: writing the freezer image failed: %v", err)
	}
	if rawdb.ReadHeadBlockHash(kv) == (common.Hash{}) && sc.Scheme == rawdb.PathScheme && c39Known(c39ClassGenesisInit) {
		// known finding: a crash between flushAlloc's triedb.Commit and the genesis block
		// batch leaves a path database that Genesis.Commit can never initialise again
		h.excluded++
		return false, "excluded"
	}
	if sc.Scheme == rawdb.HashScheme && sc.Snapshots {
		h.reopenWithoutSnapshots(rt, img)
	}
	// (1) open succeeds
	db, err := rawdb.Open(kv, rawdb.OpenOptions{Ancient: ancient})
	if err != nil {
		if (strings.Contains(err.Error(), "ancient chain segments already extracted") || strings.Contains(err.Error(), "gap in the chain between ancients")) &&
			h.cutAfterReorgDelete(img.prefix) && c39Known(c39ClassReorgGap) {
			// known finding (same root cause as the marker gap): a reorg was cut between
			// deleting the old number->hash entries and writing the new head; rawdb.Open
			// takes the missing entry next to the freezer boundary for a sign of a misplaced
			// or gapped ancient store and refuses to start
			h.excluded++
			return false, "excluded"
		}
		h.failf(rt, img, "rawdb.Open on the crash image failed: %v", err)
	}
	defer db.Close()
	frozen, _ := db.Ancients()
	h.lastFrozen = frozen
	chain, err := NewBlockChain(db, h.gspec, ethash.NewFaker(), h.option)
	if err != nil {
		h.failf(rt, img, "NewBlockChain on the crash image failed: %v", err)
	}
	defer chain.Stop()

	midCommit := h.commitAt > 0 && h.commitFrom < img.prefix && img.prefix < h.commitAt
	nontrivial = frozen > P+1 || sc.ForkAt+sc.SideLen > sc.CanonL || midCommit
	class = "kill"
	if img.prefix < img.point.event {
		class = "powerloss"
	}
	if midCommit {
		class += "+mid-commit" // some but not all batch writes of the state commit survived
	}

	H := chain.CurrentBlock()
	hdr := chain.CurrentHeader()
	snapB := chain.CurrentSnapBlock()
	for _, x := range []*types.Header{H, hdr, snapB} {
		if _, ok := h.byHash[x.Hash()]; !ok {
			h.failf(rt, img, "a head (#%d %x) is not a block of the history", x.Number, x.Hash())
		}
	}
	// (1) head state available, opens and iterates
	if !chain.HasState(H.Root) && H.Number.Sign() == 0 && sc.Scheme == rawdb.PathScheme && img.point.label == "sethead" &&
		chain.StateRecoverable(H.Root) && c39Known(c39ClassGenesisStateless) {
		// known finding: a rewind to genesis cut inside triedb.Recover leaves head = genesis
		// with a state that is only recoverable; NewBlockChain treats a stateless genesis as
		// "waiting for state sync" and does not finish the rollback
		h.excluded++
		return false, "excluded"
	}
	if !chain.HasState(H.Root) {
		h.failf(rt, img, "state of the head block #%d is not available after recovery", H.Number)
	}
	if _, _, err := c39IterateState(chain.triedb, db, H.Root); err != nil {
		h.failf(rt, img, "state of the head block #%d (HasState says available) is incomplete: %v", H.Number, err)
	}
	// (2) header >= snap block >= block, on one chain
	if hdr.Number.Uint64() < snapB.Number.Uint64() || snapB.Number.Uint64() < H.Number.Uint64() {
		h.failf(rt, img, "head order violated: header #%d, snap block #%d, block #%d", hdr.Number, snapB.Number, H.Number)
	}
	// (3) canonical index parent-linked from the head header to genesis, nothing above
	h.checkCanonical(rt, img, chain, db, "after recovery")

	// (4) blocks at or below the last persisted state are still readable
	for n := uint64(1); n <= P; n++ {
		b := h.canon[n-1]
		if chain.GetHeader(b.Hash(), n) == nil || chain.GetBody(b.Hash()) == nil || chain.GetReceiptsByHash(b.Hash()) == nil {
			h.failf(rt, img, "canonical block %s at or below the last persisted state (#%d) is no longer readable (header %v body %v receipts %v)",
				c39Name(b, true), P, chain.GetHeader(b.Hash(), n) != nil, chain.GetBody(b.Hash()) != nil, chain.GetReceiptsByHash(b.Hash()) != nil)
		}
	}

	// (5) re-import the remaining canonical blocks
	from := 0 // index into canon of the first block to import
	if h.onCanon[H.Hash()] {
		from = int(H.Number.Uint64())
	} else {
		from = sc.ForkAt // head is on the side chain: resume after the common ancestor
	}
	if from < sc.CanonL {
		if idx, err := chain.InsertChain(h.canon[from:]); err != nil {
			h.failf(rt, img, "re-importing canonical blocks #%d..#%d after recovery (head block #%d %x) failed at index %d: %v", from+1, sc.CanonL, H.Number, H.Hash().Bytes()[:3], idx, err)
		}
	}
	last := h.canon[sc.CanonL-1]
	if got := chain.CurrentBlock(); got.Hash() != last.Hash() || got.Root != last.Root() {
		h.failf(rt, img, "after re-import the head block is #%d %x, want %s", got.Number, got.Hash().Bytes()[:3], c39Name(last, true))
	}
	if !chain.HasState(last.Root()) {
		h.failf(rt, img, "after re-import the head state is not available")
	}
	accs, slots, err := c39IterateState(chain.triedb, db, last.Root())
	if err != nil {
		h.failf(rt, img, "after re-import the head state is incomplete: %v", err)
	}
	if h.refAccounts == 0 {
		rt.Fatalf("VERIF-HARNESS-BUG: reference state size not recorded")
	}
	if accs != h.refAccounts || slots != h.refSlots {
		h.failf(rt, img, "after re-import the head state has %d accounts / %d storage slots, the node that never crashed has %d / %d", accs, slots, h.refAccounts, h.refSlots)
	}
	if chain.snaps != nil {
		if err := chain.snaps.Verify(last.Root()); err != nil {
			h.failf(rt, img, "after re-import the flat snapshot does not reproduce the head state root: %v", err)
		}
	}
	// side chain blocks never canonical, canonical index == reference chain up to the head block
	for n := uint64(1); n <= uint64(sc.CanonL); n++ {
		if got := rawdb.ReadCanonicalHash(db, n); got != h.canon[n-1].Hash() {
			h.failf(rt, img, "after re-import canonical hash #%d is %x, want %s", n, got.Bytes()[:3], c39Name(h.canon[n-1], true))
		}
		b := h.canon[n-1]
		if chain.GetBlockByNumber(n) == nil || chain.GetReceiptsByHash(b.Hash()) == nil {
			h.failf(rt, img, "after re-import canonical block %s is not readable (block %v receipts %v)", c39Name(b, true), chain.GetBlockByNumber(n) != nil, chain.GetReceiptsByHash(b.Hash()) != nil)
		}
	}
	return nontrivial, class
}

// reopenWithoutSnapshots evaluates the first clause (head state available and complete)
// for the same crash image reopened by a node that runs with the flat snapshot switched
// off (a second, independent copy of the image; "configurations: snapshots on/off").
// With snapshots on, NewBlockChain blocks in the snapshot generator (SnapshotWait) when
// the state of the head it selected has holes, so such an image would only ever show up
// as a timeout; the head selection itself does not depend on the snapshot. Everything
// else (open errors, the other clauses, the known-finding gates) is left to the main pass.
func (h *c39Hist) reopenWithoutSnapshots(rt c39T, img c39Image) {
	dir, err := os.MkdirTemp("", "c39-img0-")
	if err != nil {
		rt.Fatalf("VERIF-HARNESS-BUG: %v", err)
	}
	defer os.RemoveAll(dir)
	ancient := filepath.Join(dir, "ancient")
	if err := img.point.files.WriteTo(ancient); err != nil {
		rt.Fatalf("VERIF-HARNESS-BUG: writing the freezer image failed: %v", err)
	}
	db, err := rawdb.Open(h.klog.Materialize(img.prefix), rawdb.OpenOptions{Ancient: ancient})
	if err != nil {
		return
	}
	defer db.Close()
	opt := *h.option
	opt.SnapshotLimit, opt.SnapshotWait = 0, false
	chain, err := NewBlockChain(db, h.gspec, ethash.NewFaker(), &opt)
	if err != nil {
		return
	}
	defer chain.Stop()
	H := chain.CurrentBlock()
	if !chain.HasState(H.Root) {
		h.failf(rt, img, "reopened with snapshots off: state of the head block #%d is not available after recovery", H.Number)
	}
	if _, _, err := c39IterateState(chain.triedb, db, H.Root); err != nil {
		h.failf(rt, img, "reopened with snapshots off: state of the head block #%d (HasState says available) is incomplete: %v", H.Number, err)
	}
}

// checkCanonical verifies clause (3).
func (h *c39Hist) checkCanonical(rt c39T, img c39Image, chain *BlockChain, db ethdb.Database, when string) {
	hdr := chain.CurrentHeader()
	snapB := chain.CurrentSnapBlock()
	H := chain.CurrentBlock()
	want := hdr.Hash()
	for n := hdr.Number.Uint64(); ; n-- {
		got := rawdb.ReadCanonicalHash(db, n)
		if got == (common.Hash{}) && when == "after recovery" && h.cutAfterReorgDelete(img.prefix) {
			if c39Known(c39ClassReorgGap) {
				// known finding: reorg() deletes the canonical markers of the old fork in one
				// batch and writeHeadBlock moves the head markers in the next one; a crash in
				// between leaves the head header on the old fork without number->hash entries
				h.excluded++
				got = want
			}
		}
		if got != want {
			h.failf(rt, img, "%s: canonical hash at #%d is %x, but walking parents from the head header #%d gives %x", when, n, got.Bytes()[:4], hdr.Number, want.Bytes()[:4])
		}
		b, ok := h.byHash[got]
		if !ok {
			h.failf(rt, img, "%s: canonical hash at #%d is not a block of the history", when, n)
		}
		x := chain.GetHeader(got, n)
		if x == nil {
			h.failf(rt, img, "%s: canonical header #%d %x is not readable", when, n, got.Bytes()[:4])
		}
		if n == snapB.Number.Uint64() && got != snapB.Hash() {
			h.failf(rt, img, "%s: snap block #%d is not on the canonical chain of the head header", when, n)
		}
		if n == H.Number.Uint64() && got != H.Hash() {
			h.failf(rt, img, "%s: head block #%d is not on the canonical chain of the head header", when, n)
		}
		if n <= snapB.Number.Uint64() && n > 0 {
			if chain.GetBody(got) == nil || chain.GetReceiptsByHash(got) == nil {
				h.failf(rt, img, "%s: canonical block %s at or below the snap block #%d lacks body or receipts (body %v receipts %v)", when,
					c39Name(b, h.onCanon[got]), snapB.Number, chain.GetBody(got) != nil, chain.GetReceiptsByHash(got) != nil)
			}
		}
		if n == 0 {
			break
		}
		want = x.ParentHash
	}
	top := uint64(h.sc.CanonL + h.sc.SideLen + 3)
	below := hdr.Hash()
	for n := hdr.Number.Uint64() + 1; n <= top; n++ {
		got := rawdb.ReadCanonicalHash(db, n)
		if got == (common.Hash{}) {
			below = common.Hash{}
			continue
		}
		if b, ok := h.byHash[got]; ok && (b.ParentHash() == below || below == (common.Hash{})) && img.point.label == "sethead" && c39Known(c39ClassSetHeadAbove) {
			// known finding: SetHead lowers the head markers block by block but deletes the
			// number->hash entries only in its final batch; a crash in between leaves entries of
			// the old chain above the head header (possibly after a gap where frozen entries
			// were truncated), and startup does not remove them
			h.excluded++
			below = got
			continue
		}
		h.failf(rt, img, "%s: canonical hash %x present at #%d above the head header #%d", when, got.Bytes()[:4], n, hdr.Number)
	}
}

// c39IterateState walks the whole state below root, resolving every trie node: the
// account trie, the storage trie of every account that has one, and the code of every
// contract. It returns the number of accounts and storage slots reached.
func c39IterateState(tdb *triedb.Database, db ethdb.KeyValueReader, root common.Hash) (accounts, slots int, err error) {
	t, err := trie.NewStateTrie(trie.StateTrieID(root), tdb)
	if err != nil {
		return 0, 0, err
	}
	it, err := t.NodeIterator(nil)
	if err != nil {
		return 0, 0, err
	}
	for it.Next(true) {
		if !it.Leaf() {
			continue
		}
		accounts++
		var acc types.StateAccount
		if err := rlp.DecodeBytes(it.LeafBlob(), &acc); err != nil {
			return accounts, slots, fmt.Errorf("account leaf %x does not decode: %v", it.LeafKey(), err)
		}
		owner := common.BytesToHash(it.LeafKey())
		if acc.Root != types.EmptyRootHash {
			st, err := trie.NewStateTrie(trie.StorageTrieID(root, owner, acc.Root), tdb)
			if err != nil {
				return accounts, slots, fmt.Errorf("storage trie of account %x: %v", owner.Bytes()[:4], err)
			}
			sit, err := st.NodeIterator(nil)
			if err != nil {
				return accounts, slots, fmt.Errorf("storage trie of account %x: %v", owner.Bytes()[:4], err)
			}
			for sit.Next(true) {
				if sit.Leaf() {
					slots++
				}
			}
			if sit.Error() != nil {
				return accounts, slots, fmt.Errorf("storage trie of account %x: %v", owner.Bytes()[:4], sit.Error())
			}
		}
		if ch := common.BytesToHash(acc.CodeHash); ch != types.EmptyCodeHash {
			if len(rawdb.ReadCode(db, ch)) == 0 {
				return accounts, slots, fmt.Errorf("code %x of account %x is missing", ch.Bytes()[:4], owner.Bytes()[:4])
			}
		}
	}
	if it.Error() != nil {
		return accounts, slots, fmt.Errorf("account trie: %v", it.Error())
	}
	return accounts, slots, nil
}

// ---------------------------------------------------------------------------

func c39Case(rt *rapid.T, st *vs.S, maxL, points int) {
	c := st.Case()
	sc := c39DrawScenario(rt, maxL)
	sc.CrashCount = points
	h := c39RunHistory(rt, sc, points)
	c.Classf("scheme:%s/snap=%v", sc.Scheme, sc.Snapshots)
	c.Classf("side:%s", c39SideClass(sc))
	c.Classf("sethead:%v", sc.SetHead != nil)
	c.Classf("freeze:%v", sc.Finalized > 0)
	c.Classf("pivot:%v", sc.Pivot != nil)
	c.Classf("storage:%v", sc.Slots > 0)
	if sc.Scheme == rawdb.HashScheme {
		c.Classf("batch-inflation:%d", sc.Infl)
		if sc.Commit > 0 {
			n := h.commitAt - h.commitFrom
			switch {
			case n <= 1:
				c.Class("commit-batches:1")
			case n <= 4:
				c.Class("commit-batches:2-4")
			default:
				c.Class("commit-batches:5+")
			}
		}
	}
	anyNT := false
	var descs []string
	// Kill vs power loss and the lost suffix come from a PRNG seeded by the drawn crash
	// seed: the number of rapid draws must not depend on the number of events.
	irng := rand.New(rand.NewSource(int64(sc.CrashSeed ^ 0x5bd1e995)))
	for _, p := range h.points {
		lo := h.klog.LastSync(p.event)
		prefix := p.event // process kill: nothing lost
		// (points inside the state commit are always kill images: an earlier prefix within the
		// commit is the kill image of an earlier batch write of it, and those are sampled uniformly)
		if p.label != "commit" && irng.Intn(3) > 0 && lo < p.event {
			prefix = lo + irng.Intn(p.event-lo+1) // power failure: unsynced suffix lost
			// boundary choice: everything up to the explicit state commit survived, nothing after
			if h.commitAt >= lo && h.commitAt < p.event && irng.Intn(3) == 0 {
				prefix = h.commitAt
				c.Class("prefix:at-commit")
			}
		}
		c.Fault()
		nt, class := h.reopen(rt, c39Image{point: p, prefix: prefix})
		c.Class("crash:" + class)
		c.Class("phase:" + strings.SplitN(p.label, "[", 2)[0])
		if nt {
			anyNT = true
		}
		descs = append(descs, fmt.Sprintf("%s@%d/%d", p.label, p.event, prefix))
	}
	for k := 0; k < h.excluded; k++ {
		st.Excluded()
	}
	desc := sc.String() + "|" + strings.Join(descs, ",")
	c.NonTrivial(anyNT, desc)
	c.Sample(anyNT, func() any { return map[string]any{"scenario": sc.String(), "crashes": descs} })
}

func c39SideClass(sc *c39Scenario) string {
	switch {
	case sc.SideLen == 0:
		return "none"
	case sc.ForkAt+sc.SideLen > sc.CanonL:
		return "longer"
	case sc.ForkAt+sc.SideLen == sc.CanonL:
		return "equal"
	default:
		return "shorter"
	}
}

// c39Collector turns Fatalf into a recoverable panic so that a debugging run
// (VERIF_C39_COLLECT=1) can list every failing image instead of stopping at the first.
type c39Collector struct{ msgs []string }
type c39Collected struct{ msg string }

func (c *c39Collector) Fatalf(format string, a ...any) {
	panic(c39Collected{fmt.Sprintf(format, a...)})
}

func (c *c39Collector) try(f func()) {
	defer func() {
		if r := recover(); r != nil {
			if cc, ok := r.(c39Collected); ok {
				c.msgs = append(c.msgs, cc.msg)
				return
			}
			panic(r)
		}
	}()
	f()
}

// c39Fixed are hand-picked scenarios for which EVERY key-value event is a crash point
// (kill image, plus the maximal power-loss image back to the last sync).
func c39Fixed() []*c39Scenario {
	u := func(n uint64) *uint64 { return &n }
	return []*c39Scenario{
		{Scheme: rawdb.HashScheme, Snapshots: true, CanonL: 8, ForkAt: 2, SideLen: 3, Commit: 4, SnapCap: 3, Finalized: 5, SetHead: u(3), TxBlocks: 0x55},
		{Scheme: rawdb.PathScheme, Snapshots: false, CanonL: 8, ForkAt: 0, SideLen: 10, Commit: 4, Finalized: 6, SetHead: u(5), TxBlocks: 0xaa},
		{Scheme: rawdb.HashScheme, Snapshots: false, CanonL: 18, Commit: 4, Finalized: 10, SetHead: u(8), TxBlocks: 0x0f0f},
		{Scheme: rawdb.PathScheme, Snapshots: true, CanonL: 12, ForkAt: 6, SideLen: 4, Commit: 8, Finalized: 9, Pivot: u(4), TxBlocks: 0x3c3c},
		// hash scheme, contract storage, a batch is full after every 1-2 trie nodes: the explicit
		// commit is spread over dozens of batch writes and each of them is a crash point
		{Scheme: rawdb.HashScheme, Snapshots: false, CanonL: 5, Commit: 4, TxBlocks: 0x1f, Slots: 5, Infl: 512},
		// path scheme, SetHead to a block below the persisted state (rollback through state histories)
		{Scheme: rawdb.PathScheme, Snapshots: false, CanonL: 7, Commit: 6, SetHead: u(2), TxBlocks: 0x7f, Slots: 3},
	}
}

// TestVerifC39EveryEvent enumerates every crash point of a few fixed scenarios.
func TestVerifC39EveryEvent(t *testing.T) {
	vs.OnlyShard0(t)
	log.SetDefault(log.NewLogger(c39CritHandler{}))
	st := vs.New("C39", t)
	scs := c39Fixed()
	if !vs.Thorough() {
		scs = append(scs[1:3:3], scs[4:]...)
	}
	var collect *c39Collector
	if os.Getenv("VERIF_C39_COLLECT") != "" {
		collect = &c39Collector{}
		scs = c39Fixed()
		defer func() {
			for _, m := range collect.msgs {
				t.Logf("COLLECTED: %s", m)
			}
			t.Logf("COLLECTED %d failing images", len(collect.msgs))
		}()
	}
	for i, sc := range scs {
		c := st.Case()
		h := c39RunHistory(t, sc, -1)
		anyNT := false
		for _, p := range h.points {
			lo := h.klog.LastSync(p.event)
			prefixes := []int{p.event}
			if lo < p.event {
				prefixes = append(prefixes, lo)
			}
			if h.commitAt > lo && h.commitAt < p.event && (p.label == "freeze" || p.label == "end") {
				prefixes = append(prefixes, h.commitAt) // survived exactly up to the state commit
			}
			for _, n := range prefixes {
				c.Fault()
				if collect != nil {
					collect.try(func() { h.reopen(collect, c39Image{point: p, prefix: n}) })
					continue
				}
				nt, class := h.reopen(t, c39Image{point: p, prefix: n})
				c.Class("crash:" + class)
				anyNT = anyNT || nt
			}
		}
		for k := 0; k < h.excluded; k++ {
			st.Excluded()
		}
		c.Classf("fixed:%d", i)
		c.NonTrivial(anyNT, "fixed|"+sc.String())
		c.Sample(anyNT, func() any { return map[string]any{"scenario": sc.String(), "crashPoints": len(h.points)} })
	}
	st.Exhaustive("every key-value event of the fixed scenarios is a crash point (kill + maximal power-loss prefix)")
}

// TestVerifC39Crash is the main property.
func TestVerifC39Crash(t *testing.T) {
	log.SetDefault(log.NewLogger(c39CritHandler{}))
	st := vs.New("C39", t)
	maxL, points := 24, 4
	if vs.Thorough() {
		maxL, points = 40, 12
	}
	vs.Check(t, 1, func(rt *rapid.T) {
		c39Case(rt, st, maxL, points)
	})
}
