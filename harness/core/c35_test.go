//go:build verif

package core

import (
	"fmt"
	"math/big"
	"testing"

	"github.com/ethereum/go-ethereum/common"
	"github.com/ethereum/go-ethereum/core/types"
	"github.com/ethereum/go-ethereum/params"
	"github.com/holiman/uint256"
	"pgregory.net/rapid"
	"verif.local/kit/reffee"
	vs "verif.local/kit/stat"
)

// c35Rules builds the rule set of a fork by hand (cumulative flags).
func c35Rules(f reffee.Fork) params.Rules {
	return params.Rules{
		IsHomestead:      f >= reffee.Homestead,
		IsEIP150:         f >= reffee.TangerineWhistle,
		IsEIP155:         f >= reffee.SpuriousDragon,
		IsEIP158:         f >= reffee.SpuriousDragon,
		IsByzantium:      f >= reffee.Byzantium,
		IsConstantinople: f >= reffee.Constantinople,
		IsPetersburg:     f >= reffee.Petersburg,
		IsIstanbul:       f >= reffee.Istanbul,
		IsBerlin:         f >= reffee.Berlin,
		IsEIP2929:        f >= reffee.Berlin,
		IsLondon:         f >= reffee.London,
		IsMerge:          f >= reffee.Paris,
		IsShanghai:       f >= reffee.Shanghai,
		IsCancun:         f >= reffee.Cancun,
		IsPrague:         f >= reffee.Prague,
		IsOsaka:          f >= reffee.Osaka,
	}
}

// c35RulesFromConfig cross-checks the hand-built rule set against the one geth
// derives from a chain configuration in which exactly the forks up to f are active.
func c35ConfigRules(f reffee.Fork) params.Rules {
	far := big.NewInt(1 << 40)
	blk := func(at reffee.Fork) *big.Int {
		if f >= at {
			return big.NewInt(0)
		}
		return far
	}
	tm := func(at reffee.Fork) *uint64 {
		if f >= at {
			return new(uint64)
		}
		return nil
	}
	cfg := &params.ChainConfig{
		ChainID: big.NewInt(1), HomesteadBlock: blk(reffee.Homestead), EIP150Block: blk(reffee.TangerineWhistle),
		EIP155Block: blk(reffee.SpuriousDragon), EIP158Block: blk(reffee.SpuriousDragon), ByzantiumBlock: blk(reffee.Byzantium),
		ConstantinopleBlock: blk(reffee.Constantinople), PetersburgBlock: blk(reffee.Petersburg), IstanbulBlock: blk(reffee.Istanbul),
		BerlinBlock: blk(reffee.Berlin), LondonBlock: blk(reffee.London),
		ShanghaiTime: tm(reffee.Shanghai), CancunTime: tm(reffee.Cancun), PragueTime: tm(reffee.Prague), OsakaTime: tm(reffee.Osaka),
	}
	return cfg.Rules(big.NewInt(1), f >= reffee.Paris, 1)
}

type c35Tx struct {
	fork   reffee.Fork
	shape  reffee.TxShape
	data   []byte
	al     types.AccessList
	auths  []types.SetCodeAuthorization
	to     *common.Address
	from   common.Address
	value  *uint256.Int
	alNil  bool
	auNil  bool
	dclass string
}

func c35GenTx(rt *rapid.T) *c35Tx {
	tx := &c35Tx{}
	tx.fork = reffee.Fork(rapid.IntRange(0, reffee.NumForks-1).Draw(rt, "fork"))
	if rapid.Bool().Draw(rt, "recentFork") {
		tx.fork = reffee.Fork(rapid.IntRange(int(reffee.Istanbul), reffee.NumForks-1).Draw(rt, "fork2"))
	}
	// calldata: counts first, then a deterministic placement
	var z, nz int
	switch rapid.IntRange(0, 9).Draw(rt, "datakind") {
	case 0:
		tx.dclass = "data=empty"
	case 1:
		z, tx.dclass = rapid.IntRange(1, 300).Draw(rt, "z"), "data=zeros"
	case 2:
		nz, tx.dclass = rapid.IntRange(1, 300).Draw(rt, "nz"), "data=nonzeros"
	case 3: // word boundaries for EIP-3860
		total := rapid.SampledFrom([]int{1, 31, 32, 33, 63, 64, 65, 49151, 49152, 49153}).Draw(rt, "total")
		z = rapid.IntRange(0, total).Draw(rt, "z")
		nz, tx.dclass = total-z, "data=word-boundary"
	case 4: // large
		hi := 1 << 17
		if vs.Thorough() {
			hi = 1 << 20
		}
		total := rapid.IntRange(1<<12, hi).Draw(rt, "total")
		z = rapid.IntRange(0, total).Draw(rt, "z")
		nz, tx.dclass = total-z, "data=large"
	default:
		z = rapid.IntRange(0, 400).Draw(rt, "z")
		nz, tx.dclass = rapid.IntRange(0, 400).Draw(rt, "nz"), "data=mixed"
	}
	tx.shape.ZeroBytes, tx.shape.NonZeroBytes = int64(z), int64(nz)
	if z+nz > 0 {
		tx.data = make([]byte, z+nz)
		// place nz non-zero bytes: stride pattern seeded by a drawn value, then fix up the count
		seed := rapid.Uint64().Draw(rt, "seed")
		idx := make([]int, z+nz)
		for i := range idx {
			idx[i] = i
		}
		x := seed | 1
		for i := len(idx) - 1; i > 0; i-- { // Fisher-Yates with an xorshift stream
			x ^= x << 13
			x ^= x >> 7
			x ^= x << 17
			j := int(x % uint64(i+1))
			idx[i], idx[j] = idx[j], idx[i]
		}
		for k := 0; k < nz; k++ {
			x ^= x << 13
			x ^= x >> 7
			x ^= x << 17
			tx.data[idx[k]] = byte(x%255) + 1
		}
	} else if rapid.Bool().Draw(rt, "dataNil") {
		tx.data = nil
	} else {
		tx.data = []byte{}
	}
	tx.shape.Create = rapid.IntRange(0, 2).Draw(rt, "create") == 0
	if !tx.shape.Create {
		a := common.BytesToAddress([]byte{byte(rapid.IntRange(1, 5).Draw(rt, "to"))})
		tx.to = &a
	}
	tx.from = common.BytesToAddress([]byte{byte(rapid.IntRange(1, 5).Draw(rt, "from"))})
	tx.value = uint256.NewInt(uint64(rapid.IntRange(0, 2).Draw(rt, "value")))
	// access list: Berlin+
	tx.alNil = true
	if tx.fork >= reffee.Berlin && rapid.Bool().Draw(rt, "hasAL") {
		tx.alNil = false
		tx.al = types.AccessList{}
		na := rapid.IntRange(0, 12).Draw(rt, "alAddrs")
		for i := 0; i < na; i++ {
			nk := rapid.SampledFrom([]int{0, 0, 1, 2, 3, 17}).Draw(rt, "alKeys")
			keys := make([]common.Hash, nk)
			for k := range keys {
				keys[k] = common.BigToHash(big.NewInt(int64(k % 3))) // duplicates are charged too
			}
			tx.al = append(tx.al, types.AccessTuple{Address: common.BytesToAddress([]byte{byte(i % 4)}), StorageKeys: keys})
			tx.shape.AccessListStorageKeys += int64(nk)
		}
		tx.shape.AccessListAddresses = int64(na)
	}
	// authorizations: Prague+ (set-code transactions cannot be creations, the gas formula does not care)
	tx.auNil = true
	if tx.fork >= reffee.Prague && rapid.Bool().Draw(rt, "hasAuth") {
		tx.auNil = false
		n := rapid.IntRange(0, 9).Draw(rt, "auths")
		tx.auths = make([]types.SetCodeAuthorization, n)
		tx.shape.Authorizations = int64(n)
	}
	return tx
}

// TestVerifC35Intrinsic: IntrinsicGas and FloorDataGas against g_0 of the Yellow Paper
// as amended by EIP-2, 2028, 2930, 3860, 7702 and the EIP-7623 floor.
func TestVerifC35Intrinsic(t *testing.T) {
	st := vs.New("C35", t)
	for f := 0; f < reffee.NumForks; f++ {
		if a, b := c35Rules(reffee.Fork(f)), c35ConfigRules(reffee.Fork(f)); a != b {
			t.Fatalf("VERIF-HARNESS-BUG: hand-built rules for %v differ from ChainConfig.Rules: %+v vs %+v", reffee.Fork(f), a, b)
		}
	}
	vs.Check(t, 0.5, func(rt *rapid.T) {
		c := st.Case()
		tx := c35GenTx(rt)
		rules := c35Rules(tx.fork)
		got, err := IntrinsicGas(tx.data, tx.al, tx.auths, tx.from, tx.to, tx.value, rules)
		want := reffee.IntrinsicGas(tx.fork, tx.shape)
		if !want.IsUint64() {
			rt.Fatalf("VERIF-HARNESS-BUG: reference intrinsic gas does not fit 64 bits for a materialised transaction")
		}
		if err != nil {
			rt.Fatalf("IntrinsicGas(%v %+v) returned error %v although the true value %v fits in 64 bits", tx.fork, tx.shape, err, want)
		}
		if got != want.Uint64() {
			rt.Fatalf("IntrinsicGas(fork=%v %+v alNil=%v authNil=%v) = %d, specification = %v", tx.fork, tx.shape, tx.alNil, tx.auNil, got, want)
		}
		if tx.fork >= reffee.Prague {
			gotFloor, err := FloorDataGas(rules, tx.from, tx.to, tx.value, tx.data, tx.al)
			wantFloor := reffee.FloorDataGas(tx.shape)
			if err != nil || gotFloor != wantFloor.Uint64() {
				rt.Fatalf("FloorDataGas(fork=%v %+v) = %d, %v; EIP-7623 floor = %v", tx.fork, tx.shape, gotFloor, err, wantFloor)
			}
			if gotFloor < 21000 {
				rt.Fatalf("floor %d below the transaction base cost", gotFloor)
			}
		}
		c.Classf("fork=%v", tx.fork)
		c.Classf("%s create=%v", tx.dclass, tx.shape.Create)
		c.Classf("al=%v auth=%v", tx.shape.AccessListAddresses > 0, tx.shape.Authorizations > 0)
		nt := (tx.shape.ZeroBytes > 0 && tx.shape.NonZeroBytes > 0) || tx.dclass == "data=word-boundary" || tx.shape.AccessListAddresses > 0 || tx.shape.Authorizations > 0
		c.NonTrivial(nt, fmt.Sprintf("%v/%+v", tx.fork, tx.shape))
		c.Sample(nt, func() any {
			return map[string]any{"fork": tx.fork.String(), "shape": fmt.Sprintf("%+v", tx.shape), "intrinsic": got}
		})
	})
}
