//go:build verif

package state

import (
	"bytes"
	"fmt"
	"sort"
	"strings"
	"testing"

	"github.com/ethereum/go-ethereum/common"
	"github.com/ethereum/go-ethereum/core/rawdb"
	"github.com/ethereum/go-ethereum/core/state/snapshot"
	"github.com/ethereum/go-ethereum/core/tracing"
	"github.com/ethereum/go-ethereum/core/types"
	"github.com/ethereum/go-ethereum/crypto"
	"github.com/ethereum/go-ethereum/rlp"
	"github.com/ethereum/go-ethereum/trie"
	"pgregory.net/rapid"
	"verif.local/kit/refrlp"
	"verif.local/kit/refstate"
	"verif.local/kit/reftrie"
	vs "verif.local/kit/stat"
)

// c14Env is one database configuration under test.
type c14Env struct {
	rt     *rapid.T
	cfg    string // hash | hash+snap | path
	db     *vDB
	snaps  *snapshot.Tree
	bulkN  int
	tracer []string
	hist   []string
}

func c14Bulk(i int) common.Hash {
	return crypto.Keccak256Hash([]byte{'b', 'u', 'l', 'k', byte(i), byte(i >> 8)})
}

func c14NewEnv(rt *rapid.T, cfg string) *c14Env {
	e := &c14Env{rt: rt, cfg: cfg}
	if cfg == "path" {
		e.db = vNewDB(rawdb.PathScheme)
	} else {
		e.db = vNewDB(rawdb.HashScheme)
	}
	if cfg == "hash+snap" {
		snaps, err := snapshot.New(snapshot.Config{CacheSize: 1, Recovery: false, NoBuild: false, AsyncBuild: false},
			e.db.disk, e.db.tdb, types.EmptyRootHash)
		if err != nil {
			rt.Fatalf("VERIF-HARNESS-BUG: snapshot.New: %v", err)
		}
		e.snaps = snaps
		e.db.sdb = NewMPTDatabase(e.db.tdb, nil).WithSnapshot(snaps)
	}
	return e
}

func (e *c14Env) close() {
	if e.snaps != nil {
		e.snaps.Release()
	}
	e.db.Close()
}

// readers returns every reader flavour available for root: the database's default
// (flat first, trie fallback), trie only, and flat only where a flat state exists.
func (e *c14Env) readers(root common.Hash) map[string]Reader {
	out := map[string]Reader{}
	def, err := e.db.sdb.Reader(root)
	if err != nil {
		e.rt.Fatalf("Reader(%x) on %s: %v", root, e.cfg, err)
	}
	out["default"] = def
	codes := e.db.sdb.(*MPTDatabase).codedb.Reader()
	tr, err := newMPTTrieReader(root, e.db.tdb)
	if err != nil {
		e.rt.Fatalf("trie reader for committed root %x on %s: %v", root, e.cfg, err)
	}
	out["trie"] = newReader(codes, tr)
	switch e.cfg {
	case "path":
		fr, err := e.db.tdb.StateReader(root)
		if err != nil {
			e.rt.Fatalf("path database has no flat state reader for committed root %x: %v", root, err)
		}
		out["flat"] = newReader(codes, newFlatReader(fr))
	case "hash+snap":
		sn := e.snaps.Snapshot(root)
		if sn == nil {
			e.rt.Fatalf("snapshot tree has no layer for committed root %x", root)
		}
		out["flat"] = newReader(codes, newFlatReader(sn))
	}
	return out
}

// c14CheckCommitted verifies that the state at root, seen through every reader,
// the raw tries and the iterators, is exactly accts.
func (e *c14Env) checkCommitted(root common.Hash, accts map[refstate.Addr]*refstate.Account, rs vRuleSet, what string) {
	rt := e.rt
	if want := common.Hash(refstate.RootOf(accts)); root != want {
		rt.Fatalf("%s: committed root %x, reference root of the model %x", what, root, want)
	}
	// 1. getters through each reader
	rdrs := e.readers(root)
	names := make([]string, 0, len(rdrs))
	for n := range rdrs {
		names = append(names, n)
	}
	sort.Strings(names)
	for _, n := range names {
		sdb, err := NewWithReader(root, e.db.sdb, rdrs[n])
		if err != nil {
			rt.Fatalf("%s: NewWithReader(%s): %v", what, n, err)
		}
		w := vNewWorld(rt, rs, sdb, refstate.FromAccounts(accts))
		w.trace = []string{what + " reader=" + n + " cfg=" + e.cfg}
		w.checkAll()
		// bulk slots and code by hash
		for a, acc := range accts {
			for k, v := range acc.Storage {
				if g := sdb.GetState(common.Address(a), common.Hash(k)); g != common.Hash(v) {
					w.fail("GetState(%x,%x)=%x model %x", a, k, g, v)
				}
			}
			if len(acc.Code) > 0 {
				h := common.Hash(reftrie.Keccak256(acc.Code))
				if g := rdrs[n].Code(common.Address(a), h); !bytes.Equal(g, acc.Code) {
					w.fail("reader.Code(%x,%x)=%x model %x", a, h, g, acc.Code)
				}
				if g := rdrs[n].CodeSize(common.Address(a), h); g != len(acc.Code) {
					w.fail("reader.CodeSize(%x,%x)=%d model %d", a, h, g, len(acc.Code))
				}
			}
		}
		if err := sdb.Error(); err != nil {
			w.fail("database error while reading committed state: %v", err)
		}
	}
	// 2. raw tries
	wantAccts := map[common.Hash][]byte{}
	for a, acc := range accts {
		wantAccts[common.Hash(reftrie.Keccak256(a[:]))] = refstate.AccountRLP(acc)
	}
	atr, err := trie.NewStateTrie(trie.StateTrieID(root), e.db.tdb)
	if err != nil {
		rt.Fatalf("%s: open account trie %x: %v", what, root, err)
	}
	c14CompareTrie(rt, what+": account trie", atr, wantAccts)
	for a, acc := range accts {
		sroot := common.Hash(refstate.StorageRoot(acc.Storage))
		if sroot == types.EmptyRootHash {
			continue
		}
		ah := common.Hash(reftrie.Keccak256(a[:]))
		str, err := trie.NewStateTrie(trie.StorageTrieID(root, ah, sroot), e.db.tdb)
		if err != nil {
			rt.Fatalf("%s: open storage trie of %x root %x: %v", what, a, sroot, err)
		}
		c14CompareTrie(rt, fmt.Sprintf("%s: storage trie of %x", what, a), str, c14SlotSet(acc.Storage))
	}
	// 3. iterators (flat where available, merkle otherwise); every pool address, also
	// the ones that do not exist any more, must enumerate exactly the model's slots
	itee, err := e.db.sdb.Iteratee(root)
	if err != nil {
		rt.Fatalf("%s: Iteratee: %v", what, err)
	}
	ait, err := itee.NewAccountIterator(common.Hash{})
	if err != nil {
		rt.Fatalf("%s: NewAccountIterator: %v", what, err)
	}
	gotAccts := map[common.Hash][]byte{}
	var prev common.Hash
	first := true
	for ait.Next() {
		h := ait.Hash()
		if !first && bytes.Compare(prev[:], h[:]) >= 0 {
			rt.Fatalf("%s: account iterator not strictly ascending at %x", what, h)
		}
		prev, first = h, false
		acc := ait.Account()
		if acc == nil {
			rt.Fatalf("%s: account iterator returned nil account at %x", what, h)
		}
		blob, err := rlp.EncodeToBytes(acc)
		if err != nil {
			rt.Fatalf("%s: encode account: %v", what, err)
		}
		gotAccts[h] = blob
	}
	if err := ait.Error(); err != nil {
		rt.Fatalf("%s: account iterator: %v", what, err)
	}
	ait.Release()
	c14CompareSets(rt, what+": account iterator", gotAccts, wantAccts)

	addrs := map[refstate.Addr]bool{}
	for _, a := range vAddrs {
		addrs[ra(a)] = true
	}
	for a := range accts {
		addrs[a] = true
	}
	for a := range addrs {
		ah := common.Hash(reftrie.Keccak256(a[:]))
		sit, err := itee.NewStorageIterator(ah, common.Hash{})
		if err != nil {
			rt.Fatalf("%s: NewStorageIterator(%x): %v", what, a, err)
		}
		got := map[common.Hash][]byte{}
		for sit.Next() {
			v := sit.Slot()
			got[sit.Hash()] = refrlp.EncodeString(bytes.TrimLeft(v[:], "\x00"))
		}
		if err := sit.Error(); err != nil {
			rt.Fatalf("%s: storage iterator of %x: %v", what, a, err)
		}
		sit.Release()
		want := map[common.Hash][]byte{}
		if acc := accts[a]; acc != nil {
			want = c14SlotSet(acc.Storage)
		}
		c14CompareSets(rt, fmt.Sprintf("%s: storage iterator of %x", what, a), got, want)
	}
}

// c14Held is a state opened right after a commit and not read until later.
type c14Held struct {
	sdb       *StateDB
	accts     map[refstate.Addr]*refstate.Account
	root      common.Hash
	block     int
	flushedAt int
}

// checkHeld reads everything through a long-held state. Each value must be the
// model's value at the state's own root unless the state has recorded a database
// error (stale layer and unreadable trie); it returns whether an error was recorded.
func (e *c14Env) checkHeld(s *StateDB, h *c14Held, what string) bool {
	bad := func(format string, a ...any) {
		if s.Error() == nil {
			tr := e.hist
			if len(tr) > 200 {
				tr = tr[len(tr)-200:]
			}
			e.rt.Fatalf("%s opened at block %d root %x (cfg %s), read after later commits: %s and StateDB.Error() is nil\nhistory: %s",
				what, h.block, h.root, e.cfg, fmt.Sprintf(format, a...), strings.Join(tr, "; "))
		}
	}
	addrs := map[refstate.Addr]bool{}
	for _, a := range vAddrs {
		addrs[ra(a)] = true
	}
	for a := range h.accts {
		addrs[a] = true
	}
	sorted := make([]refstate.Addr, 0, len(addrs))
	for a := range addrs {
		sorted = append(sorted, a)
	}
	sort.Slice(sorted, func(i, j int) bool { return bytes.Compare(sorted[i][:], sorted[j][:]) < 0 })
	m := refstate.FromAccounts(h.accts)
	for _, ma := range sorted {
		a := common.Address(ma)
		// storage first: nothing of this account is cached yet
		slots := map[refstate.Word]bool{}
		for _, k := range vSlots {
			slots[rw(k)] = true
		}
		if acc := h.accts[ma]; acc != nil {
			for k := range acc.Storage {
				slots[k] = true
			}
		}
		keys := make([]refstate.Word, 0, len(slots))
		for k := range slots {
			keys = append(keys, k)
		}
		// highest keys first so that slot 0x00..00 is not the first one cached
		sort.Slice(keys, func(i, j int) bool { return bytes.Compare(keys[i][:], keys[j][:]) > 0 })
		for _, k := range keys {
			if g, want := s.GetState(a, common.Hash(k)), m.GetState(ma, k); g != common.Hash(want) {
				bad("GetState(%x,%x)=%x, value at that root %x", a, k, g, want)
			}
			if g, want := s.GetCommittedState(a, common.Hash(k)), m.GetCommittedState(ma, k); g != common.Hash(want) {
				bad("GetCommittedState(%x,%x)=%x, value at that root %x", a, k, g, want)
			}
		}
		if g, want := s.Exist(a), m.Exist(ma); g != want {
			bad("Exist(%x)=%v, at that root %v", a, g, want)
		}
		if g, want := s.GetBalance(a), m.GetBalance(ma); g.ToBig().Cmp(want) != 0 {
			bad("GetBalance(%x)=%v, at that root %v", a, g, want)
		}
		if g, want := s.GetNonce(a), m.GetNonce(ma); g != want {
			bad("GetNonce(%x)=%d, at that root %d", a, g, want)
		}
		if g, want := s.GetCodeHash(a), m.GetCodeHash(ma); g != common.Hash(want) {
			bad("GetCodeHash(%x)=%x, at that root %x", a, g, want)
		}
		if g, want := s.GetCode(a), m.GetCode(ma); !bytes.Equal(g, want) {
			bad("GetCode(%x)=%x, at that root %x", a, g, want)
		}
	}
	return s.Error() != nil
}

func c14SlotSet(st map[refstate.Word]refstate.Word) map[common.Hash][]byte {
	out := map[common.Hash][]byte{}
	for k, v := range st {
		out[common.Hash(reftrie.Keccak256(k[:]))] = refrlp.EncodeString(bytes.TrimLeft(v[:], "\x00"))
	}
	return out
}

func c14CompareTrie(rt *rapid.T, what string, tr *trie.StateTrie, want map[common.Hash][]byte) {
	nit, err := tr.NodeIterator(nil)
	if err != nil {
		rt.Fatalf("%s: NodeIterator: %v", what, err)
	}
	it := trie.NewIterator(nit)
	got := map[common.Hash][]byte{}
	for it.Next() {
		got[common.BytesToHash(it.Key)] = common.CopyBytes(it.Value)
	}
	if it.Err != nil {
		rt.Fatalf("%s: iteration failed (missing node?): %v", what, it.Err)
	}
	c14CompareSets(rt, what, got, want)
}

func c14CompareSets(rt *rapid.T, what string, got, want map[common.Hash][]byte) {
	for k, v := range want {
		g, ok := got[k]
		if !ok {
			rt.Fatalf("%s: entry %x missing (model value %x)", what, k, v)
		}
		if !bytes.Equal(g, v) {
			rt.Fatalf("%s: entry %x = %x, model %x", what, k, g, v)
		}
	}
	for k, v := range got {
		if _, ok := want[k]; !ok {
			rt.Fatalf("%s: leftover entry %x = %x not in the model", what, k, v)
		}
	}
}

// c14CheckUpdate compares the StateUpdate handed to the trie database with the
// model's difference between block start and block end: every changed account,
// slot and code must be listed, and every listed entry must carry the model's
// post value and pre-block original.
func c14CheckUpdate(rt *rapid.T, upd *StateUpdate, pre, post map[refstate.Addr]*refstate.Account, cancun bool) {
	if want := StorageKeyHashed; (upd.StorageKeyType == StorageKeyPlain) != cancun {
		rt.Fatalf("StateUpdate.StorageKeyType=%v (cancun=%v, hashed=%v)", upd.StorageKeyType, cancun, want)
	}
	slim := func(acc *refstate.Account) []byte {
		if acc == nil {
			return nil
		}
		return types.SlimAccountRLP(types.StateAccount{Nonce: acc.Nonce, Balance: vU256(acc.Balance),
			Root: common.Hash(refstate.StorageRoot(acc.Storage)), CodeHash: reftrie2(acc.Code)})
	}
	enc := func(a *types.StateAccount) []byte {
		if a == nil {
			return nil
		}
		return types.SlimAccountRLP(*a)
	}
	addrs := map[refstate.Addr]bool{}
	for a := range pre {
		addrs[a] = true
	}
	for a := range post {
		addrs[a] = true
	}
	for _, a := range vAddrs {
		addrs[ra(a)] = true
	}
	seenAcct := 0
	for a := range addrs {
		ah := common.Hash(reftrie.Keccak256(a[:]))
		p, q := pre[a], post[a]
		data, listed := upd.Accounts[ah]
		origin, olisted := upd.AccountsOrigin[common.Address(a)]
		if listed != olisted {
			rt.Fatalf("StateUpdate: account %x listed=%v but origin listed=%v", a, listed, olisted)
		}
		changed := !bytes.Equal(slim(p), slim(q))
		if changed && !listed {
			rt.Fatalf("StateUpdate: account %x changed (%x -> %x) but is not listed", a, slim(p), slim(q))
		}
		if listed {
			seenAcct++
			if !bytes.Equal(enc(data), slim(q)) {
				rt.Fatalf("StateUpdate.Accounts[%x]=%x, model post %x", a, enc(data), slim(q))
			}
			if !bytes.Equal(enc(origin), slim(p)) {
				rt.Fatalf("StateUpdate.AccountsOrigin[%x]=%x, model pre-block %x", a, enc(origin), slim(p))
			}
			if p == nil && q == nil {
				rt.Fatalf("StateUpdate lists the null->null transition of %x", a)
			}
		}
		// storage
		var ps, qs map[refstate.Word]refstate.Word
		if p != nil {
			ps = p.Storage
		}
		if q != nil {
			qs = q.Storage
		}
		slots := map[refstate.Word]bool{}
		for k := range ps {
			slots[k] = true
		}
		for k := range qs {
			slots[k] = true
		}
		for _, k := range vSlots {
			slots[rw(k)] = true
		}
		nListed := 0
		for k := range slots {
			kh := common.Hash(reftrie.Keccak256(k[:]))
			val, sl := upd.Storages[ah][kh]
			okey := kh
			if upd.StorageKeyType == StorageKeyPlain {
				okey = common.Hash(k)
			}
			orig, ol := upd.StoragesOrigin[common.Address(a)][okey]
			if !ol && upd.StorageKeyType == StorageKeyPlain {
				// slots wiped by account destruction are always keyed by hash
				orig, ol = upd.StoragesOrigin[common.Address(a)][kh]
			}
			if sl != ol {
				rt.Fatalf("StateUpdate: slot %x/%x listed=%v origin listed=%v", a, k, sl, ol)
			}
			if ps[k] != qs[k] && !sl {
				rt.Fatalf("StateUpdate: slot %x/%x changed (%x -> %x) but is not listed", a, k, ps[k], qs[k])
			}
			if sl {
				nListed++
				if val != common.Hash(qs[k]) {
					rt.Fatalf("StateUpdate.Storages[%x][%x]=%x, model post %x", a, k, val, qs[k])
				}
				if orig != common.Hash(ps[k]) {
					rt.Fatalf("StateUpdate.StoragesOrigin[%x][%x]=%x, model pre-block %x", a, k, orig, ps[k])
				}
			}
		}
		if n := len(upd.Storages[ah]); n != nListed {
			rt.Fatalf("StateUpdate.Storages[%x] lists %d slots, only %d are known to the model", a, n, nListed)
		}
		// code
		var pc, qc []byte
		if p != nil {
			pc = p.Code
		}
		if q != nil {
			qc = q.Code
		}
		code := upd.Codes[common.Address(a)]
		if q != nil && len(qc) > 0 && !bytes.Equal(pc, qc) && code == nil {
			rt.Fatalf("StateUpdate: code of %x changed to %x but is not listed", a, qc)
		}
		if code != nil && q != nil {
			if !bytes.Equal(code.Blob, qc) || code.Hash != common.Hash(reftrie.Keccak256(qc)) {
				rt.Fatalf("StateUpdate.Codes[%x]={%x,%x}, model post code %x", a, code.Hash, code.Blob, qc)
			}
		}
	}
	if seenAcct != len(upd.Accounts) {
		rt.Fatalf("StateUpdate lists %d accounts, only %d are known to the model", len(upd.Accounts), seenAcct)
	}
}

func reftrie2(code []byte) []byte {
	h := reftrie.Keccak256(code)
	return h[:]
}

// vActBulkStore writes many slots to one account (large storage to be wiped later).
func (e *c14Env) actBulkStore(w *vWorld) {
	a, ok := w.drawAddrWhere("addr", func(_ common.Address, acc *refstate.Account) bool { return acc != nil && acc.Nonce >= 1 })
	if !ok && w.strict {
		return
	}
	n := rapid.SampledFrom([]int{3, 17, e.bulkN}).Draw(w.rt, "bulkN")
	off := rapid.IntRange(0, 2).Draw(w.rt, "bulkOff") * 10
	v := rapid.SampledFrom(vVals).Draw(w.rt, "val")
	for i := 0; i < n; i++ {
		k := c14Bulk(off + i)
		g := w.sdb.SetState(a, k, v)
		m := w.m.SetState(ra(a), rw(k), rw(v))
		if g != common.Hash(m) {
			w.fail("SetState(bulk) returned %x model %x", g, m)
		}
	}
	w.logf("BulkStore %s n=%d off=%d %s", vShortAddr(a), n, off, vShortVal(v))
	w.after(&a)
}

// TestVerifC14Blocks: multi-block histories; each block is committed, the root is
// compared with the preceding IntermediateRoot and the reference root, the state
// is reopened through every reader/iterator, and copies taken between
// transactions evolve independently of the original.
func TestVerifC14Blocks(t *testing.T) {
	st := vs.New("C14", t)
	maxBlocks, maxSteps, bulkN := 4, 20, 40
	if vs.Thorough() {
		maxBlocks, maxSteps, bulkN = 6, 30, 200
	}
	vs.Check(t, 1, func(rt *rapid.T) {
		c := st.Case()
		cfg := rapid.SampledFrom([]string{"hash", "hash+snap", "path", "path"}).Draw(rt, "cfg")
		prefetch := rapid.Bool().Draw(rt, "prefetch")
		e := c14NewEnv(rt, cfg)
		e.bulkN = bulkN
		defer e.close()

		actions := append([]vAction{}, vActions...)
		actions = append(actions, vAction{"BulkStore", 3, e.actBulkStore})
		table := vActionTable(actions)

		nBlocks := rapid.IntRange(1, maxBlocks).Draw(rt, "blocks")
		// fork schedule: non-decreasing rule sets, usually constant
		ri := rapid.IntRange(0, len(vRuleSets)-1).Draw(rt, "rules")
		strict := false
		schedule := make([]vRuleSet, nBlocks)
		for b := range schedule {
			if b > 0 && ri < len(vRuleSets)-1 && rapid.IntRange(0, 4).Draw(rt, "forkAdvance") == 0 {
				ri += rapid.IntRange(1, len(vRuleSets)-1-ri).Draw(rt, "forkStep")
			}
			schedule[b] = vRuleSets[ri]
			strict = strict || schedule[b].m.EIP158
		}
		var (
			root          = types.EmptyRootHash
			accts         = map[refstate.Addr]*refstate.Account{}
			everDestroyed = map[common.Address]bool{}
			trace         []string
			ntRecreate    bool
			ntCopy        bool
			crossRecreate bool
			flushed       bool
			siblings      int
			lastFlushed   common.Hash // a root that already is the disk layer cannot be flushed again
			held          []*c14Held
			nFlush        int
		)
		for b := 0; b < nBlocks; b++ {
			rs := schedule[b]
			sdb, err := New(root, e.db.sdb)
			if err != nil {
				rt.Fatalf("block %d: New(%x): %v", b, root, err)
			}
			if prefetch {
				sdb.StartPrefetcher("verif", nil)
			}
			w := vNewWorld(rt, rs, sdb, refstate.FromAccounts(accts))
			w.st = st
			w.strict = strict
			w.salt = byte(2 * b)
			w.mode = rapid.SampledFrom([]int{0, 1, 2, 2}).Draw(rt, "checkMode")
			w.logf("BLOCK %d rules=%s", b, rs.name)
			pre := refstate.CopyAccounts(accts)
			w.beginTx(true)
			n := rapid.IntRange(1, maxSteps).Draw(rt, "steps")
			copyAt := -1
			if rapid.IntRange(0, 2).Draw(rt, "withCopy") == 0 {
				copyAt = rapid.IntRange(0, n-1).Draw(rt, "copyAt")
			}
			for i := 0; i < n; i++ {
				if i == copyAt {
					// fork between transactions; both sides then receive different actions
					w.finalise()
					w2 := vNewWorld(rt, rs, w.sdb.Copy(), w.m.Copy())
					w2.st, w2.strict, w2.mode, w2.txN = st, strict, 0, w.txN
					w2.salt = byte(2*b + 1)
					w2.trace = append(append([]string{}, w.trace...), "COPY-FORK")
					w2.destroyed = map[common.Address]bool{}
					w.beginTx(true)
					w2.beginTx(true)
					k := rapid.IntRange(1, maxSteps).Draw(rt, "forkSteps")
					wrote := [2]bool{}
					for j := 0; j < k; j++ {
						side := rapid.IntRange(0, 1).Draw(rt, "side")
						tgt := []*vWorld{w, w2}[side]
						before := len(tgt.trace)
						tgt.step(actions, table)
						wrote[side] = wrote[side] || len(tgt.trace) > before
						// neither side may see the other's writes
						w.checkAll()
						w2.checkAll()
					}
					ntCopy = ntCopy || (wrote[0] && wrote[1])
					if w2.inTx {
						w2.finalise()
					}
					ir2 := w2.intermediateRoot()
					w.checkAll()
					if rapid.Bool().Draw(rt, "commitCopy") {
						r2, err := w2.sdb.Commit(rs.r, uint64(b+1))
						if err != nil {
							w2.fail("Commit of the copy failed: %v", err)
						}
						if r2 != ir2 {
							w2.fail("copy: Commit root %x != preceding IntermediateRoot %x", r2, ir2)
						}
						e.checkCommitted(r2, w2.m.Accounts(), rs, fmt.Sprintf("block %d sibling (copy)", b))
						siblings++
						w.checkAll()
					}
				}
				w.step(actions, table)
			}
			if w.inTx {
				w.finalise()
			}
			ir := w.intermediateRoot()
			newRoot, upd, err := w.sdb.CommitWithUpdate(rs.r, uint64(b+1))
			if err != nil {
				w.fail("Commit failed: %v", err)
			}
			if prefetch {
				w.sdb.StopPrefetcher()
			}
			if newRoot != ir {
				w.fail("Commit root %x != preceding IntermediateRoot %x", newRoot, ir)
			}
			post := refstate.CopyAccounts(w.m.Accounts())
			c14CheckUpdate(rt, upd, pre, post, rs.r.IsCancun)
			e.tracer = w.trace
			e.checkCommitted(newRoot, post, rs, fmt.Sprintf("block %d", b))
			if rapid.IntRange(0, 2).Draw(rt, "flush") == 0 && newRoot != types.EmptyRootHash && newRoot != root && newRoot != lastFlushed {
				// push everything to disk (path: flatten the layer tree; hash: write nodes;
				// snapshot: flatten into the disk layer) and read again
				if err := e.db.tdb.Commit(newRoot, false); err != nil {
					w.fail("triedb.Commit(%x): %v", newRoot, err)
				}
				if e.snaps != nil {
					if err := e.snaps.Cap(newRoot, 0); err != nil {
						w.fail("snapshot Cap(%x,0): %v", newRoot, err)
					}
				}
				flushed, lastFlushed = true, newRoot
				nFlush++
				e.checkCommitted(newRoot, post, rs, fmt.Sprintf("block %d after flush", b))
			}
			// keep some states open (unread) while later blocks are committed and flattened
			hold := rapid.Bool().Draw(rt, "hold") && len(held) < 3
			if hold {
				hs, err := New(newRoot, e.db.sdb)
				if err != nil {
					w.fail("New(%x) right after its commit: %v", newRoot, err)
				}
				held = append(held, &c14Held{sdb: hs, accts: post, root: newRoot, block: b, flushedAt: nFlush})
			}
			ntRecreate = ntRecreate || w.destructRecreate
			for a := range w.destroyed {
				everDestroyed[a] = true
			}
			for a := range everDestroyed {
				if post[ra(a)] != nil && !w.destroyed[a] {
					crossRecreate = true
				}
			}
			trace = append(trace, w.trace...)
			e.hist = append(e.hist, w.trace...)
			e.hist = append(e.hist, fmt.Sprintf("COMMIT block %d root %x flushes=%d held=%d", b, newRoot, nFlush, len(held)))
			root, accts = newRoot, post
		}
		// states held open since an earlier block: optionally flatten everything once
		// more, then read through them (and through a copy): every read is the value
		// at THEIR root, or the state reports a database error
		if len(held) > 0 && rapid.Bool().Draw(rt, "finalFlush") && root != types.EmptyRootHash && root != lastFlushed {
			if err := e.db.tdb.Commit(root, false); err != nil {
				rt.Fatalf("triedb.Commit(%x): %v", root, err)
			}
			if e.snaps != nil {
				if err := e.snaps.Cap(root, 0); err != nil {
					rt.Fatalf("snapshot Cap(%x,0): %v", root, err)
				}
			}
			nFlush++
		}
		var heldOK, heldErr, heldStale int
		for _, h := range held {
			if h.block == nBlocks-1 && h.flushedAt == nFlush {
				continue // nothing happened since it was opened
			}
			if h.flushedAt != nFlush {
				heldStale++
			}
			cp := h.sdb.Copy()
			for i, s := range []*StateDB{h.sdb, cp} {
				if e.checkHeld(s, h, []string{"held state", "copy of held state"}[i]) {
					heldErr++
				} else {
					heldOK++
				}
			}
		}
		nt := ntRecreate || ntCopy
		c.NonTrivial(nt, cfg+fmt.Sprint(prefetch)+strings.Join(trace, ";"))
		if heldStale > 0 {
			c.Class("held-state-read-after-flatten")
		}
		if heldOK > 0 {
			c.Class("held-state-read-ok")
		}
		if heldErr > 0 {
			c.Class("held-state-reported-db-error")
		}
		c.Classf("cfg=%s prefetch=%v", cfg, prefetch)
		c.Classf("blocks=%d", nBlocks)
		c.Classf("rules(last)=%s", schedule[nBlocks-1].name)
		if schedule[0].name != schedule[nBlocks-1].name {
			c.Class("fork-transition-in-history")
		}
		if ntRecreate {
			c.Class("nt:destruct+recreate-in-one-block")
		}
		if ntCopy {
			c.Class("nt:copy-with-divergent-writes")
		}
		if crossRecreate {
			c.Class("recreate-in-later-block")
		}
		if flushed {
			c.Class("flushed-to-disk")
		}
		if siblings > 0 {
			c.Class("sibling-commit")
		}
		for _, l := range trace {
			if strings.HasPrefix(l, "BulkStore") {
				c.Class("bulk-storage")
				break
			}
		}
		c.Sample(nt, func() any {
			tr := trace
			if len(tr) > 50 {
				tr = tr[:50]
			}
			return map[string]any{"cfg": cfg, "prefetch": prefetch, "blocks": nBlocks, "trace": strings.Join(tr, "; "),
				"final_root": fmt.Sprintf("%x", root)}
		})
	})
}

// TestVerifC14ReturnToDiskRoot is the minimal history of the defect found by the
// randomized check and fixed in /repo commit c5f17e5d89 (notes/C14.md): on the path
// scheme a block whose post-state root equals the root of the current disk layer
// must commit like any other block, also after an explicit flush (A -> B -> A).
func TestVerifC14ReturnToDiskRoot(t *testing.T) {
	vs.OnlyShard0(t)
	st := vs.New("C14", t)
	for _, scheme := range []string{rawdb.PathScheme, rawdb.HashScheme} {
		for _, flushFirst := range []bool{false, true} {
			c := st.Case()
			c.Classf("disk-root-return scheme=%s flushFirst=%v", scheme, flushFirst)
			c.NonTrivial(true, fmt.Sprintf("%s/%v", scheme, flushFirst))
			db := vNewDB(scheme)
			rules := vRuleByName("cancun").r
			parent := types.EmptyRootHash
			if flushFirst {
				// persist a non-empty state A first, so that the disk layer is A
				s0, _ := New(parent, db.sdb)
				s0.AddBalance(vAddrs[1], vAmounts[2], tracing.BalanceChangeUnspecified)
				r0, err := s0.Commit(rules, 1)
				if err != nil {
					t.Fatalf("VERIF-HARNESS-BUG: commit of state A: %v", err)
				}
				if err := db.tdb.Commit(r0, false); err != nil {
					t.Fatalf("VERIF-HARNESS-BUG: flush of state A: %v", err)
				}
				parent = r0
			}
			s1, err := New(parent, db.sdb)
			if err != nil {
				t.Fatalf("open %x: %v", parent, err)
			}
			s1.AddBalance(vAddrs[0], vAmounts[1], tracing.BalanceChangeUnspecified)
			r1, err := s1.Commit(rules, 2)
			if err != nil {
				t.Fatalf("[%s flushFirst=%v] commit A->B: %v", scheme, flushFirst, err)
			}
			s2, err := New(r1, db.sdb)
			if err != nil {
				t.Fatalf("open %x: %v", r1, err)
			}
			s2.SubBalance(vAddrs[0], vAmounts[1], tracing.BalanceChangeUnspecified) // the account becomes empty and is removed
			ir := s2.IntermediateRoot(rules)
			if ir != parent {
				t.Fatalf("VERIF-HARNESS-BUG: B->A did not return to root %x (got %x)", parent, ir)
			}
			r2, err := s2.Commit(rules, 3)
			if err != nil || r2 != ir {
				t.Fatalf("[%s flushFirst=%v] committing a block whose post-state root is the disk layer root: Commit=(%x, %v), preceding IntermediateRoot=%x",
					scheme, flushFirst, r2, err, ir)
			}
			s3, err := New(r2, db.sdb)
			if err != nil {
				t.Fatalf("[%s flushFirst=%v] reopen at %x: %v", scheme, flushFirst, r2, err)
			}
			if s3.Exist(vAddrs[0]) || (flushFirst && s3.GetBalance(vAddrs[1]).Uint64() != 2) {
				t.Fatalf("[%s flushFirst=%v] state reopened at %x does not read state A", scheme, flushFirst, r2)
			}
			db.Close()
		}
	}
}

// TestVerifC14HeldSnapshotLayer is the minimal history of the defect found by the
// held-state class and fixed in /repo commit e1acebc185 (notes/C14.md): a state held
// open at a middle snapshot diff layer must not read a LATER block's storage value
// after the snapshot tree was flattened (value at its own root, or a database error).
func TestVerifC14HeldSnapshotLayer(t *testing.T) {
	vs.OnlyShard0(t)
	st := vs.New("C14", t)
	c := st.Case()
	c.Class("held-middle-snapshot-layer-after-flatten")
	c.NonTrivial(true, "held-snapshot-layer")
	e := c14NewEnv(nil, "hash+snap")
	defer e.close()
	rules := vRuleByName("cancun").r
	a, k := vAddrs[0], vSlots[1]
	commit := func(parent common.Hash, n uint64, f func(s *StateDB)) common.Hash {
		s, err := New(parent, e.db.sdb)
		if err != nil {
			t.Fatalf("VERIF-HARNESS-BUG: open %x: %v", parent, err)
		}
		f(s)
		r, err := s.Commit(rules, n)
		if err != nil {
			t.Fatalf("VERIF-HARNESS-BUG: commit block %d: %v", n, err)
		}
		return r
	}
	r1 := commit(types.EmptyRootHash, 1, func(s *StateDB) { s.SetNonce(a, 1, tracing.NonceChangeUnspecified) })
	r2 := commit(r1, 2, func(s *StateDB) { s.SetState(a, k, vVals[1]) })
	held, err := New(r2, e.db.sdb) // opened, nothing read yet
	if err != nil {
		t.Fatalf("VERIF-HARNESS-BUG: open %x: %v", r2, err)
	}
	r3 := commit(r2, 3, func(s *StateDB) { s.SetState(a, k, vVals[2]) })
	if err := e.snaps.Cap(r3, 0); err != nil {
		t.Fatalf("VERIF-HARNESS-BUG: Cap: %v", err)
	}
	got := held.GetState(a, k)
	msg := fmt.Sprintf("state opened at block 2 (slot=%x), read after block 3 (slot=%x) and snapshot Cap(head,0): GetState=%x Error()=%v",
		vVals[1], vVals[2], got, held.Error())
	t.Log(msg)
	if got != vVals[1] && held.Error() == nil {
		t.Fatalf("held state silently reads another state's value: %s", msg)
	}
}
