//go:build verif

package state

import (
	"bytes"
	"fmt"
	"math/big"
	"sort"
	"strings"
	"testing"

	"github.com/ethereum/go-ethereum/common"
	"github.com/ethereum/go-ethereum/core/rawdb"
	"github.com/ethereum/go-ethereum/core/tracing"
	"github.com/ethereum/go-ethereum/core/types"
	"github.com/ethereum/go-ethereum/core/types/bal"
	"github.com/ethereum/go-ethereum/rlp"
	"pgregory.net/rapid"
	"verif.local/kit/refstate"
	"verif.local/kit/reftrie"
	vs "verif.local/kit/stat"
)

// c15Acct / c15Block: the model's block-level access list (merge of the per-tx
// net-change records), written independently of bal.ConstructionBlockAccessList.
type c15Acct struct {
	writes map[refstate.Word]map[uint32]refstate.Word
	reads  map[refstate.Word]bool
	bal    map[uint32]*big.Int
	nonce  map[uint32]uint64
	code   map[uint32][]byte
}

type c15Block struct {
	accts    map[refstate.Addr]*c15Acct
	maxIndex uint32
	slotTxs  map[string]map[uint32]bool // "addr/slot" -> scopes that accessed it
}

func newC15Block() *c15Block {
	return &c15Block{accts: map[refstate.Addr]*c15Acct{}, slotTxs: map[string]map[uint32]bool{}}
}

func (b *c15Block) add(d *refstate.TxDiff) {
	if d.Index > b.maxIndex {
		b.maxIndex = d.Index
	}
	for a, ad := range d.Accounts {
		acc := b.accts[a]
		if acc == nil {
			acc = &c15Acct{writes: map[refstate.Word]map[uint32]refstate.Word{}, reads: map[refstate.Word]bool{},
				bal: map[uint32]*big.Int{}, nonce: map[uint32]uint64{}, code: map[uint32][]byte{}}
			b.accts[a] = acc
		}
		if ad.Balance != nil {
			acc.bal[d.Index] = ad.Balance
		}
		if ad.Nonce != nil {
			acc.nonce[d.Index] = *ad.Nonce
		}
		if ad.Code != nil {
			acc.code[d.Index] = *ad.Code
		}
		note := func(k refstate.Word) {
			key := fmt.Sprintf("%x/%x", a, k)
			if b.slotTxs[key] == nil {
				b.slotTxs[key] = map[uint32]bool{}
			}
			b.slotTxs[key][d.Index] = true
		}
		for k, v := range ad.Writes {
			if acc.writes[k] == nil {
				acc.writes[k] = map[uint32]refstate.Word{}
			}
			acc.writes[k][d.Index] = v
			delete(acc.reads, k)
			note(k)
		}
		for k := range ad.Reads {
			if acc.writes[k] == nil {
				acc.reads[k] = true
			}
			note(k)
		}
	}
}

func c15SortedIdx[V any](m map[uint32]V) []uint32 {
	out := make([]uint32, 0, len(m))
	for i := range m {
		out = append(out, i)
	}
	sort.Slice(out, func(i, j int) bool { return out[i] < out[j] })
	return out
}

func c15SortedWords[V any](m map[refstate.Word]V) []refstate.Word {
	out := make([]refstate.Word, 0, len(m))
	for k := range m {
		out = append(out, k)
	}
	sort.Slice(out, func(i, j int) bool { return bytes.Compare(out[i][:], out[j][:]) < 0 })
	return out
}

// render gives a canonical text form of the model's block list, in the order the
// specification prescribes (addresses, slots and indices ascending).
func (b *c15Block) render() string {
	var sb strings.Builder
	addrs := make([]refstate.Addr, 0, len(b.accts))
	for a := range b.accts {
		addrs = append(addrs, a)
	}
	sort.Slice(addrs, func(i, j int) bool { return bytes.Compare(addrs[i][:], addrs[j][:]) < 0 })
	for _, a := range addrs {
		acc := b.accts[a]
		fmt.Fprintf(&sb, "%x:\n", a)
		for _, k := range c15SortedWords(acc.writes) {
			fmt.Fprintf(&sb, " w %x:", k)
			for _, i := range c15SortedIdx(acc.writes[k]) {
				v := acc.writes[k][i]
				fmt.Fprintf(&sb, " %d=%x", i, new(big.Int).SetBytes(v[:]))
			}
			sb.WriteString("\n")
		}
		for _, k := range c15SortedWords(acc.reads) {
			fmt.Fprintf(&sb, " r %x\n", k)
		}
		for _, i := range c15SortedIdx(acc.bal) {
			fmt.Fprintf(&sb, " b %d=%x\n", i, acc.bal[i])
		}
		for _, i := range c15SortedIdx(acc.nonce) {
			fmt.Fprintf(&sb, " n %d=%d\n", i, acc.nonce[i])
		}
		for _, i := range c15SortedIdx(acc.code) {
			fmt.Fprintf(&sb, " c %d=%x\n", i, acc.code[i])
		}
	}
	return sb.String()
}

// c15RenderEncoded renders the implementation's encoding object in the same text
// form, in the order in which it stores the entries (so ordering is compared too).
func c15RenderEncoded(e *bal.BlockAccessList) string {
	var sb strings.Builder
	for _, acc := range *e {
		fmt.Fprintf(&sb, "%x:\n", acc.Address)
		for _, sc := range acc.StorageChanges {
			fmt.Fprintf(&sb, " w %x:", sc.Slot.Bytes32())
			for _, c := range sc.SlotChanges {
				fmt.Fprintf(&sb, " %d=%x", c.BlockAccessIndex, c.PostValue.ToBig())
			}
			sb.WriteString("\n")
		}
		for _, k := range acc.StorageReads {
			fmt.Fprintf(&sb, " r %x\n", k.Bytes32())
		}
		for _, c := range acc.BalanceChanges {
			fmt.Fprintf(&sb, " b %d=%x\n", c.BlockAccessIndex, c.PostBalance.ToBig())
		}
		for _, c := range acc.NonceChanges {
			fmt.Fprintf(&sb, " n %d=%d\n", c.BlockAccessIndex, c.PostNonce)
		}
		for _, c := range acc.CodeChanges {
			fmt.Fprintf(&sb, " c %d=%x\n", c.BlockAccessIndex, c.NewCode)
		}
	}
	return sb.String()
}

// c15CompareTx compares the list returned by Finalise with the model's record of
// the same transaction, field by field.
func c15CompareTx(w *vWorld, real *bal.ConstructionBlockAccessList, d *refstate.TxDiff) {
	if (real == nil) != (d == nil) {
		w.fail("Finalise returned list=%v, model expects list=%v (scope prepared=%v)", real != nil, d != nil, w.prepared)
	}
	if real == nil {
		return
	}
	idx := d.Index
	for a := range d.Accounts {
		if real.Accounts[common.Address(a)] == nil {
			w.fail("tx %d: accessed account %s missing from the access list", idx, vShortAddr(common.Address(a)))
		}
	}
	for a, acc := range real.Accounts {
		ad := d.Accounts[ra(a)]
		name := vShortAddr(a)
		if ad == nil {
			w.fail("tx %d: access list contains %s, which the model never accessed", idx, name)
		}
		// balance
		switch {
		case ad.Balance == nil && len(acc.BalanceChanges) != 0:
			w.fail("tx %d: %s balance recorded %v but start and end balances are equal", idx, name, acc.BalanceChanges)
		case ad.Balance != nil:
			g, ok := acc.BalanceChanges[idx]
			if !ok || len(acc.BalanceChanges) != 1 || g.ToBig().Cmp(ad.Balance) != 0 {
				w.fail("tx %d: %s balance changes %v, model {%d: %v}", idx, name, acc.BalanceChanges, idx, ad.Balance)
			}
		}
		// nonce
		switch {
		case ad.Nonce == nil && len(acc.NonceChanges) != 0:
			w.fail("tx %d: %s nonce recorded %v but start and end nonces are equal", idx, name, acc.NonceChanges)
		case ad.Nonce != nil:
			g, ok := acc.NonceChanges[idx]
			if !ok || len(acc.NonceChanges) != 1 || g != *ad.Nonce {
				w.fail("tx %d: %s nonce changes %v, model {%d: %d}", idx, name, acc.NonceChanges, idx, *ad.Nonce)
			}
		}
		// code
		switch {
		case ad.Code == nil && len(acc.CodeChange) != 0:
			w.fail("tx %d: %s code recorded %x but start and end code are equal", idx, name, acc.CodeChange)
		case ad.Code != nil:
			g, ok := acc.CodeChange[idx]
			if !ok || len(acc.CodeChange) != 1 || !bytes.Equal(g, *ad.Code) {
				w.fail("tx %d: %s code changes %x, model {%d: %x}", idx, name, acc.CodeChange, idx, *ad.Code)
			}
		}
		// storage
		for k, v := range ad.Writes {
			g, ok := acc.StorageWrites[common.Hash(k)]
			if !ok {
				w.fail("tx %d: %s slot %s changed to %x but no write is recorded", idx, name, vShortSlot(common.Hash(k)), v)
			}
			if gv, ok := g[idx]; !ok || len(g) != 1 || gv != common.Hash(v) {
				w.fail("tx %d: %s slot %s writes %v, model {%d: %x}", idx, name, vShortSlot(common.Hash(k)), g, idx, v)
			}
		}
		for k := range acc.StorageWrites {
			if _, ok := ad.Writes[rw(k)]; !ok {
				w.fail("tx %d: %s slot %s recorded as written (%v) but its value did not change in the transaction", idx, name, vShortSlot(k), acc.StorageWrites[k])
			}
		}
		for k := range ad.Reads {
			if _, ok := acc.StorageReads[common.Hash(k)]; !ok {
				w.fail("tx %d: %s slot %s accessed without net change but not recorded as read", idx, name, vShortSlot(common.Hash(k)))
			}
		}
		for k := range acc.StorageReads {
			if !ad.Reads[rw(k)] {
				_, written := ad.Writes[rw(k)]
				w.fail("tx %d: %s slot %s recorded as read but the model has it as %s", idx, name, vShortSlot(k),
					map[bool]string{true: "written", false: "never accessed"}[written])
			}
		}
	}
}

// c15CheckStash: white-box, the pre-transaction originals stashed in the journal
// are the model's start-of-transaction values.
func c15CheckStash(w *vWorld) {
	for a, st := range w.sdb.journal.mutations {
		pre := w.m.TxStart()[ra(a)]
		preBal, preNonce, preCode := new(big.Int), uint64(0), []byte(nil)
		if pre != nil {
			preBal, preNonce, preCode = pre.Balance, pre.Nonce, pre.Code
		}
		if st.balanceSet && st.balance.ToBig().Cmp(preBal) != 0 {
			w.fail("journal stash: pre-tx balance of %s = %v, model start-of-tx balance %v", vShortAddr(a), st.balance, preBal)
		}
		if st.nonceSet && st.nonce != preNonce {
			w.fail("journal stash: pre-tx nonce of %s = %d, model start-of-tx nonce %d", vShortAddr(a), st.nonce, preNonce)
		}
		if st.codeSet && !bytes.Equal(st.code, preCode) {
			w.fail("journal stash: pre-tx code of %s = %x, model start-of-tx code %x", vShortAddr(a), st.code, preCode)
		}
	}
}

// vActRestore sets a field or slot that currently differs from its
// start-of-transaction value back to that value (A -> B -> A); if nothing
// differs it performs a change and the restoration back to back.
func vActRestore(w *vWorld) {
	type cand struct {
		a    common.Address
		kind string
		k    common.Hash
	}
	var cands []cand
	for _, a := range vAddrs {
		cur, pre := w.m.Account(ra(a)), w.m.TxStart()[ra(a)]
		if cur == nil || pre == nil || cur.SelfDestructed {
			continue
		}
		if cur.Balance.Cmp(pre.Balance) != 0 {
			cands = append(cands, cand{a, "bal", common.Hash{}})
		}
		if !bytes.Equal(cur.Code, pre.Code) && (len(pre.Code) == 0 || cur.Nonce >= 1 || !w.strict) {
			cands = append(cands, cand{a, "code", common.Hash{}})
		}
		for _, k := range vSlots {
			if cur.Storage[rw(k)] != pre.Storage[rw(k)] && (cur.Nonce >= 1 || !w.strict) {
				cands = append(cands, cand{a, "slot", k})
			}
		}
	}
	if len(cands) == 0 {
		// change + restore back to back on a slot of an account with a nonce
		a, ok := w.drawAddrWhere("addr", func(_ common.Address, acc *refstate.Account) bool { return acc != nil && acc.Nonce >= 1 && !acc.SelfDestructed })
		if !ok {
			return
		}
		k := rapid.SampledFrom(vSlots).Draw(w.rt, "slot")
		old := w.sdb.GetState(a, k)
		if m := w.m.GetState(ra(a), rw(k)); old != common.Hash(m) {
			w.fail("GetState(%s,%s)=%x model %x", vShortAddr(a), vShortSlot(k), old, m)
		}
		v := vVals[1]
		if old == v {
			v = vVals[2]
		}
		w.sdb.SetState(a, k, v)
		w.m.SetState(ra(a), rw(k), rw(v))
		w.sdb.SetState(a, k, old)
		w.m.SetState(ra(a), rw(k), rw(old))
		w.wrote[vShortAddr(a)+"/"+vShortSlot(k)] = true
		w.logf("Change+Restore %s %s", vShortAddr(a), vShortSlot(k))
		w.after(&a)
		return
	}
	c := cands[rapid.IntRange(0, len(cands)-1).Draw(w.rt, "restore")]
	pre := w.m.TxStart()[ra(c.a)]
	switch c.kind {
	case "bal":
		amt := vU256(pre.Balance)
		w.sdb.SetBalance(c.a, amt, tracing.BalanceChangeUnspecified)
		w.m.SetBalance(ra(c.a), pre.Balance)
	case "code":
		if g, e := w.sdb.GetCode(c.a), w.m.GetCode(ra(c.a)); !bytes.Equal(g, e) {
			w.fail("GetCode(%s)=%x model %x", vShortAddr(c.a), g, e)
		}
		w.sdb.SetCode(c.a, pre.Code, tracing.CodeChangeUnspecified)
		w.m.SetCode(ra(c.a), pre.Code)
	case "slot":
		v := common.Hash(pre.Storage[rw(c.k)])
		w.sdb.SetState(c.a, c.k, v)
		w.m.SetState(ra(c.a), rw(c.k), rw(v))
	}
	w.logf("Restore %s %s %s", vShortAddr(c.a), c.kind, vShortSlot(c.k))
	w.after(&c.a)
}

var c15Inner = []vAction{
	{"AddBalance", 4, vActAddBalance}, {"SubBalance", 3, vActSubBalance}, {"SetBalance", 2, vActSetBalance},
	{"SetNonce", 4, vActSetNonce}, {"SetCode", 4, vActSetCode}, {"SetState", 8, vActSetState},
	{"Create", 3, vActCreate}, {"SelfDestruct", 3, vActSelfDestruct}, {"CreateAccount", 2, vActCreateAccount},
	{"Read", 2, vActRead},
}
var c15InnerTable = vActionTable(c15Inner)

// vActRevertedChange performs 1..3 drawn mutations inside a frame that is reverted.
func vActRevertedChange(w *vWorld) {
	w.snapshot()
	live := w.m.LiveSnapshots()
	id := live[len(live)-1]
	n := rapid.IntRange(1, 3).Draw(w.rt, "inner")
	for i := 0; i < n; i++ {
		w.step(c15Inner, c15InnerTable)
	}
	// inner actions may have taken further snapshots; revert to ours
	w.sdb.RevertToSnapshot(id)
	if !w.m.RevertToSnapshot(id) {
		w.rt.Fatalf("VERIF-HARNESS-BUG: model lost snapshot %d", id)
	}
	w.reverts++
	w.logf("RevertedFrame->%d", id)
	w.after(nil)
}

// TestVerifC15Changes: Amsterdam-rule histories; the per-transaction access list
// returned by Finalise must equal the model's net-change record, and the merged
// block list must equal the model's merge, validate, and round-trip through RLP.
func TestVerifC15Changes(t *testing.T) {
	st := vs.New("C15", t)
	rs := vRuleByName("amsterdam")
	var actions []vAction
	for _, a := range vActions {
		switch a.name {
		case "IntermediateRoot":
			continue // discards the transaction's list
		case "Copy":
			a.weight = 1
		case "Finalise":
			a.weight = 7
		}
		actions = append(actions, a)
	}
	actions = append(actions, vAction{"Restore", 9, vActRestore}, vAction{"RevertedChange", 7, vActRevertedChange})
	table := vActionTable(actions)
	maxSteps := 50
	if vs.Thorough() {
		maxSteps = 100
	}
	vs.Check(t, 1, func(rt *rapid.T) {
		c := st.Case()
		scheme := rapid.SampledFrom([]string{rawdb.HashScheme, rawdb.PathScheme}).Draw(rt, "scheme")
		withBase := rapid.Bool().Draw(rt, "base")
		db := vNewDB(scheme)
		defer db.Close()
		root, m := types.EmptyRootHash, refstate.New()
		if withBase {
			root, m, _ = vDrawBase(rt, db, true)
		}
		sdb, err := New(root, db.sdb)
		if err != nil {
			rt.Fatalf("VERIF-HARNESS-BUG: open state %x: %v", root, err)
		}
		w := vNewWorld(rt, rs, sdb, m)
		w.st = st
		w.mode = rapid.SampledFrom([]int{2, 2, 2, 1, 0}).Draw(rt, "checkMode")
		w.balBase = rapid.IntRange(0, 1).Draw(rt, "firstIndex")
		w.noIRoot = true

		merged := bal.NewConstructionBlockAccessList()
		mm := newC15Block()
		var netZero, revertedOnly, recorded int
		w.onStep = func() { c15CheckStash(w) }
		w.onFin = func(real *bal.ConstructionBlockAccessList, d *refstate.TxDiff) {
			c15CompareTx(w, real, d)
			if real == nil {
				return
			}
			recorded++
			// coverage: a field/slot that an action changed during the scope but that
			// shows no net change
			for key := range w.wrote {
				parts := strings.SplitN(key, "/", 2)
				var ad *refstate.AcctDiff
				for _, a := range vAddrs {
					if vShortAddr(a) == parts[0] {
						ad = d.Accounts[ra(a)]
					}
				}
				if ad == nil {
					continue
				}
				switch parts[1] {
				case "bal":
					if ad.Balance == nil {
						netZero++
					}
				case "nonce":
					if ad.Nonce == nil {
						netZero++
					}
				case "code":
					if ad.Code == nil {
						netZero++
					}
				default:
					for _, k := range vSlots {
						if vShortSlot(k) == parts[1] {
							if _, written := ad.Writes[rw(k)]; !written {
								netZero++
							}
						}
					}
				}
			}
			merged.Merge(real)
			mm.add(d)
		}
		w.beginTx(true)
		n := rapid.IntRange(1, maxSteps).Draw(rt, "steps")
		used := map[string]int{}
		for i := 0; i < n; i++ {
			used[w.step(actions, table)]++
		}
		revertedOnly = used["RevertedChange"]
		if w.inTx {
			w.finalise()
		}
		w.checkAll()

		// block level
		enc := merged.ToEncodingObj()
		if got, want := c15RenderEncoded(enc), mm.render(); got != want {
			w.fail("merged block access list differs from the model\n--- implementation\n%s--- model\n%s", got, want)
		}
		txCount := 0
		if mm.maxIndex > 1 {
			txCount = int(mm.maxIndex) - 1
		}
		if err := enc.Validate(1<<40, txCount); err != nil {
			w.fail("Validate rejects the list built during execution: %v\n%s", err, c15RenderEncoded(enc))
		}
		blob, err := rlp.EncodeToBytes(enc)
		if err != nil {
			w.fail("encode: %v", err)
		}
		var dec bal.BlockAccessList
		if err := rlp.DecodeBytes(blob, &dec); err != nil {
			w.fail("decode of own encoding failed: %v", err)
		}
		blob2, err := rlp.EncodeToBytes(&dec)
		if err != nil || !bytes.Equal(blob, blob2) {
			w.fail("RLP round trip not byte-identical (err=%v)\n%x\n%x", err, blob, blob2)
		}
		if got, want := c15RenderEncoded(&dec), mm.render(); got != want {
			w.fail("decoded block access list differs from the model\n--- decoded\n%s--- model\n%s", got, want)
		}
		if h, want := enc.Hash(), common.Hash(reftrie.Keccak256(blob)); h != want || dec.Hash() != want {
			w.fail("Hash()=%x decoded.Hash()=%x, keccak of the encoding=%x", h, dec.Hash(), want)
		}
		var cblob bytes.Buffer
		if err := merged.EncodeRLP(&cblob); err != nil || !bytes.Equal(cblob.Bytes(), blob) {
			w.fail("ConstructionBlockAccessList.EncodeRLP differs from the encoding object's encoding (err=%v)", err)
		}

		sameSlot := 0
		for _, txs := range mm.slotTxs {
			if len(txs) >= 2 {
				sameSlot++
			}
		}
		nt := netZero > 0 || revertedOnly > 0 || sameSlot > 0
		c.NonTrivial(nt, scheme+strings.Join(w.trace, ";"))
		c.Classf("scheme=%s base=%v firstIndex=%d", scheme, withBase, w.balBase)
		c.Classf("checkmode=%d", w.mode)
		if netZero > 0 {
			c.Class("nt:value-changed-and-restored-or-reverted")
		}
		if revertedOnly > 0 {
			c.Class("nt:changes-inside-reverted-frame")
		}
		if sameSlot > 0 {
			c.Class("nt:>=2-scopes-touch-same-slot")
		}
		if recorded >= 2 {
			c.Class(">=2-recorded-scopes")
		}
		if recorded < w.txs {
			c.Class("scope-without-prepare")
		}
		if w.sdKeptBalance {
			c.Class("selfdestruct-kept-balance")
		}
		if len(w.destroyed) > 0 {
			c.Class("selfdestruct-removed-account")
		}
		if w.copies > 0 {
			c.Class("copy")
		}
		for name, k := range used {
			if k > 0 {
				c.Class("act:" + name)
			}
		}
		c.Sample(nt, func() any {
			tr := w.trace
			if len(tr) > 50 {
				tr = tr[:50]
			}
			return map[string]any{"scheme": scheme, "base": withBase, "scopes": w.txs, "trace": strings.Join(tr, "; "),
				"block_access_list": mm.render()}
		})
	})
}
