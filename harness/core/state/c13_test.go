//go:build verif

package state

import (
	"fmt"
	"strings"
	"testing"

	"github.com/ethereum/go-ethereum/common"
	"github.com/ethereum/go-ethereum/core/rawdb"
	"github.com/ethereum/go-ethereum/core/types"
	"pgregory.net/rapid"
	"verif.local/kit/refstate"
	vs "verif.local/kit/stat"
)

// TestVerifC13Model runs random histories of account operations, nested
// snapshots/reverts, transaction boundaries and copies on a real StateDB and on
// the reference account model, comparing every getter after each step and the
// intermediate state root with the root of the reference trie over the model.
func TestVerifC13Model(t *testing.T) {
	st := vs.New("C13", t)
	table := vActionTable(vActions)
	maxSteps := 80
	if vs.Thorough() {
		maxSteps = 160
	}
	vs.Check(t, 1, func(rt *rapid.T) {
		c := st.Case()
		rs := vRuleSets[rapid.IntRange(0, len(vRuleSets)-1).Draw(rt, "rules")]
		scheme := rapid.SampledFrom([]string{rawdb.HashScheme, rawdb.PathScheme}).Draw(rt, "scheme")
		withBase := rapid.Bool().Draw(rt, "base")
		db := vNewDB(scheme)
		defer db.Close()

		var (
			root  = types.EmptyRootHash
			m     = refstate.New()
			facts = map[string]bool{}
		)
		if withBase {
			root, m, facts = vDrawBase(rt, db, rs.m.EIP158)
		}
		sdb, err := New(root, db.sdb)
		if err != nil {
			rt.Fatalf("VERIF-HARNESS-BUG: open state %x: %v", root, err)
		}
		w := vNewWorld(rt, rs, sdb, m)
		w.st = st
		w.mode = rapid.SampledFrom([]int{0, 0, 0, 1, 1, 2}).Draw(rt, "checkMode")
		w.beginTx(true)
		n := rapid.IntRange(1, maxSteps).Draw(rt, "steps")
		used := map[string]int{}
		for i := 0; i < n; i++ {
			used[w.step(vActions, table)]++
		}
		// close the block: every getter once more, then the final root
		w.checkAll()
		w.intermediateRoot()
		w.checkAll()

		nt := w.deepRevertUndo || w.destructRecreate || w.txs >= 2
		c.NonTrivial(nt, rs.name+scheme+strings.Join(w.trace, ";"))
		c.Classf("rules=%s", rs.name)
		c.Classf("scheme=%s base=%v", scheme, withBase)
		c.Classf("checkmode=%d", w.mode)
		if w.deepRevertUndo {
			c.Class("nt:revert>=2-snapshots-undoing-create/selfdestruct")
		}
		if w.destructRecreate {
			c.Class("nt:destruct+recreate-in-block")
		}
		if w.txs >= 2 {
			c.Class("nt:>=2-txs")
		}
		if w.mixedBoundaries == 3 {
			c.Class("hot-slot-rewritten-across-mixed-boundaries")
		}
		if w.midTxCopy {
			c.Class("copy-mid-tx")
		}
		if w.copies > 0 {
			c.Class("copy")
		}
		if w.emptyDeleted {
			c.Class("finalise-removed-account")
		}
		if w.sdKeptBalance {
			c.Class("amsterdam-selfdestruct-kept-balance")
		}
		if w.ripemdSticky {
			c.Class("ripemd-touch")
		}
		for f := range facts {
			c.Class(f)
		}
		for name, k := range used {
			if k > 0 {
				c.Class("act:" + name)
			}
		}
		c.Sample(nt, func() any {
			tr := w.trace
			if len(tr) > 60 {
				tr = tr[:60]
			}
			return map[string]any{"rules": rs.name, "scheme": scheme, "base": withBase, "steps": n, "txs": w.txs,
				"reverts": w.reverts, "trace": strings.Join(tr, "; "), "final_root": fmt.Sprintf("%x", common.Hash(w.m.Root()))}
		})
	})
}
