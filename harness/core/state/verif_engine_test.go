//go:build verif

package state

// Shared engine of the C13/C14/C15 harnesses: drives a real *StateDB and the
// reference account model (verif.local/kit/refstate) with the same drawn actions
// and compares every observable.

import (
	"bytes"
	"fmt"
	"math/big"
	"strings"

	"github.com/ethereum/go-ethereum/common"
	"github.com/ethereum/go-ethereum/core/rawdb"
	"github.com/ethereum/go-ethereum/core/tracing"
	"github.com/ethereum/go-ethereum/core/types"
	"github.com/ethereum/go-ethereum/core/types/bal"
	"github.com/ethereum/go-ethereum/ethdb"
	"github.com/ethereum/go-ethereum/params"
	"github.com/ethereum/go-ethereum/triedb"
	"github.com/ethereum/go-ethereum/triedb/pathdb"
	"github.com/holiman/uint256"
	"pgregory.net/rapid"
	"verif.local/kit/refstate"
	vs "verif.local/kit/stat"
)

// ---- rule sets -----------------------------------------------------------------

type vRuleSet struct {
	name string
	r    params.Rules
	m    refstate.Rules
}

func vMakeRules() []vRuleSet {
	frontier := params.Rules{IsHomestead: true, IsEIP150: true}
	byz := frontier
	byz.IsEIP155, byz.IsEIP158, byz.IsByzantium = true, true, true
	london := byz
	london.IsConstantinople, london.IsPetersburg, london.IsIstanbul = true, true, true
	london.IsBerlin, london.IsEIP2929, london.IsLondon = true, true, true
	shanghai := london
	shanghai.IsMerge, shanghai.IsShanghai = true, true
	cancun := shanghai
	cancun.IsCancun = true
	prague := cancun
	prague.IsPrague = true
	amsterdam := prague
	amsterdam.IsOsaka, amsterdam.IsAmsterdam = true, true
	return []vRuleSet{
		{"frontier", frontier, refstate.Rules{}},
		{"byzantium", byz, refstate.Rules{EIP158: true}},
		{"london", london, refstate.Rules{EIP158: true, Berlin: true}},
		{"shanghai", shanghai, refstate.Rules{EIP158: true, Berlin: true, Shanghai: true}},
		{"cancun", cancun, refstate.Rules{EIP158: true, Berlin: true, Shanghai: true, Cancun: true}},
		{"prague", prague, refstate.Rules{EIP158: true, Berlin: true, Shanghai: true, Cancun: true}},
		{"amsterdam", amsterdam, refstate.Rules{EIP158: true, Berlin: true, Shanghai: true, Cancun: true, Amsterdam: true}},
	}
}

var vRuleSets = vMakeRules()

func vRuleByName(name string) vRuleSet {
	for _, r := range vRuleSets {
		if r.name == name {
			return r
		}
	}
	panic("unknown rule set " + name)
}

// ---- pools -----------------------------------------------------------------------

var (
	vAddrs = []common.Address{
		common.HexToAddress("0xa100000000000000000000000000000000000001"),
		common.HexToAddress("0xa200000000000000000000000000000000000002"),
		common.HexToAddress("0xb300000000000000000000000000000000000003"),
		common.HexToAddress("0xc400000000000000000000000000000000000004"),
		common.HexToAddress("0xd500000000000000000000000000000000000005"),
		common.HexToAddress("0x0000000000000000000000000000000000000003"), // RIPEMD-160 (touch quirk)
		common.HexToAddress("0x0000000000000000000000000000000000000001"), // a precompile
	}
	vSlots = []common.Hash{
		{},
		common.HexToHash("0x01"),
		common.HexToHash("0xffffffffffffffffffffffffffffffffffffffffffffffffffffffffffffffff"),
		common.HexToHash("0x8000000000000000000000000000000000000000000000000000000000000100"),
	}
	vVals = []common.Hash{
		{},
		common.HexToHash("0x01"),
		common.HexToHash("0x80"),
		common.HexToHash("0x0100"),
		common.HexToHash("0xffffffffffffffffffffffffffffffffffffffffffffffffffffffffffffffff"),
	}
	vCodes = [][]byte{
		nil,
		{0x00},
		{0x60, 0x00, 0x60, 0x00, 0xf3},
		append([]byte{0xef, 0x01, 0x00}, common.HexToAddress("0xa100000000000000000000000000000000000001").Bytes()...),
		bytes.Repeat([]byte{0x5b}, 33),
	}
	vAmounts = []*uint256.Int{
		uint256.NewInt(0), uint256.NewInt(1), uint256.NewInt(2), uint256.NewInt(1000),
		new(uint256.Int).Lsh(uint256.NewInt(1), 64),
	}
	vMaxU256 = new(uint256.Int).SetAllOne()
)

func ra(a common.Address) refstate.Addr { return refstate.Addr(a) }
func rw(h common.Hash) refstate.Word    { return refstate.Word(h) }

func vShortAddr(a common.Address) string {
	for i, p := range vAddrs {
		if p == a {
			return fmt.Sprintf("A%d", i)
		}
	}
	return a.Hex()
}

func vShortSlot(k common.Hash) string {
	for i, p := range vSlots {
		if p == k {
			return fmt.Sprintf("k%d", i)
		}
	}
	return k.Hex()
}

func vShortVal(v common.Hash) string {
	for i, p := range vVals {
		if p == v {
			return fmt.Sprintf("v%d", i)
		}
	}
	return v.Hex()
}

// ---- databases --------------------------------------------------------------------

type vDB struct {
	scheme string
	disk   ethdb.Database
	tdb    *triedb.Database
	sdb    Database
}

func vNewDB(scheme string) *vDB {
	disk := rawdb.NewMemoryDatabase()
	var cfg *triedb.Config
	if scheme == rawdb.PathScheme {
		cfg = &triedb.Config{PathDB: &pathdb.Config{
			TrieCleanSize: 0, StateCleanSize: 0, WriteBufferSize: 1 << 20,
			TrienodeHistory: -1, FullValueCheckpoint: 8,
			NoAsyncFlush: true, NoAsyncGeneration: true,
		}}
	} else {
		cfg = triedb.HashDefaults
	}
	tdb := triedb.NewDatabase(disk, cfg)
	return &vDB{scheme: scheme, disk: disk, tdb: tdb, sdb: NewMPTDatabase(tdb, nil)}
}

func (d *vDB) Close() {
	d.tdb.Close()
	d.disk.Close()
}

// ---- world ----------------------------------------------------------------------

// vWorld couples a real StateDB with the model.
type vWorld struct {
	rt   *rapid.T
	st   *vs.S
	rs   vRuleSet
	sdb  *StateDB
	m    *refstate.State
	mode int // 0 = compare everything after each step, 1 = only the touched address, 2 = only at boundaries

	strict bool // keep "code or storage implies nonce >= 1" and monotone nonces (post EIP-161 reality)

	txN    int
	thash  common.Hash
	trace  []string
	inTx   bool
	onFin  func(real *bal.ConstructionBlockAccessList, model *refstate.TxDiff) // C15 hook
	onStep func()                                                              // C15 hook, runs after every action

	balBase  int             // block access index of the first transaction scope (1, or 0 = pre-execution system scope)
	balIndex uint32          // block access index of the current scope
	prepared bool            // current scope started with Prepare
	wrote    map[string]bool // fields/slots whose value an action changed in this scope ("A1/bal", "A1/k2", ...)

	hotSet   bool // hot slot of this history (vActHotSlotBurst)
	hotAddr  common.Address
	hotSlot  common.Hash
	hotHist  []common.Hash
	noIRoot  bool // never call IntermediateRoot inside the block (C15)
	salt     byte // distinguishes fresh code blobs of different blocks / forks

	// coverage facts
	mixedBoundaries  int // bit 1: Finalise-only boundary, bit 2: IntermediateRoot boundary after a hot-slot write
	txs              int
	deepRevertUndo   bool
	destructRecreate bool
	copies           int
	midTxCopy        bool
	reverts          int
	emptyDeleted     bool
	sdKeptBalance    bool
	ripemdSticky     bool
	destroyed        map[common.Address]bool // removed by self-destruct in this block
}

func vNewWorld(rt *rapid.T, rs vRuleSet, sdb *StateDB, m *refstate.State) *vWorld {
	return &vWorld{rt: rt, rs: rs, sdb: sdb, m: m, strict: rs.m.EIP158, destroyed: map[common.Address]bool{}, balBase: 1, wrote: map[string]bool{}}
}

func (w *vWorld) logf(format string, a ...any) {
	w.trace = append(w.trace, fmt.Sprintf(format, a...))
}

func (w *vWorld) fail(format string, a ...any) {
	if w.st != nil {
		w.st.MarkFailed() // rapid re-runs the property while shrinking: stop counting
	}
	tr := w.trace
	if len(tr) > 120 {
		tr = tr[len(tr)-120:]
	}
	w.rt.Fatalf("[%s] %s\ntrace: %s", w.rs.name, fmt.Sprintf(format, a...), strings.Join(tr, "; "))
}

func vBig(u *uint256.Int) *big.Int { return u.ToBig() }

// checkAddr compares every per-account observable of one pool address.
func (w *vWorld) checkAddr(a common.Address) {
	s, m, ma := w.sdb, w.m, ra(a)
	if g, e := s.Exist(a), m.Exist(ma); g != e {
		w.fail("Exist(%s)=%v model %v", vShortAddr(a), g, e)
	}
	if g, e := s.Empty(a), m.Empty(ma); g != e {
		w.fail("Empty(%s)=%v model %v", vShortAddr(a), g, e)
	}
	if g, e := s.GetBalance(a), m.GetBalance(ma); vBig(g).Cmp(e) != 0 {
		w.fail("GetBalance(%s)=%v model %v", vShortAddr(a), g, e)
	}
	if g, e := s.GetNonce(a), m.GetNonce(ma); g != e {
		w.fail("GetNonce(%s)=%d model %d", vShortAddr(a), g, e)
	}
	if g, e := s.GetCode(a), m.GetCode(ma); !bytes.Equal(g, e) {
		w.fail("GetCode(%s)=%x model %x", vShortAddr(a), g, e)
	}
	if g, e := s.GetCodeSize(a), m.GetCodeSize(ma); g != e {
		w.fail("GetCodeSize(%s)=%d model %d", vShortAddr(a), g, e)
	}
	if g, e := s.GetCodeHash(a), m.GetCodeHash(ma); g != common.Hash(e) {
		w.fail("GetCodeHash(%s)=%x model %x", vShortAddr(a), g, e)
	}
	if g, e := s.HasSelfDestructed(a), m.HasSelfDestructed(ma); g != e {
		w.fail("HasSelfDestructed(%s)=%v model %v", vShortAddr(a), g, e)
	}
	if w.rs.m.Cancun {
		if g, e := s.IsNewContract(a), m.IsNewContract(ma); g != e {
			w.fail("IsNewContract(%s)=%v model %v", vShortAddr(a), g, e)
		}
	}
	if w.rs.m.Berlin {
		if g, e := s.AddressInAccessList(a), m.AddressInAccessList(ma); g != e {
			w.fail("AddressInAccessList(%s)=%v model %v", vShortAddr(a), g, e)
		}
	}
	for _, k := range vSlots {
		mk := rw(k)
		if g, e := s.GetState(a, k), m.GetState(ma, mk); g != common.Hash(e) {
			w.fail("GetState(%s,%s)=%x model %x", vShortAddr(a), vShortSlot(k), g, e)
		}
		if g, e := s.GetCommittedState(a, k), m.GetCommittedState(ma, mk); g != common.Hash(e) {
			w.fail("GetCommittedState(%s,%s)=%x model %x", vShortAddr(a), vShortSlot(k), g, e)
		}
		gc, go_ := s.GetStateAndCommittedState(a, k)
		if ec, eo := m.GetState(ma, mk), m.GetCommittedState(ma, mk); gc != common.Hash(ec) || go_ != common.Hash(eo) {
			w.fail("GetStateAndCommittedState(%s,%s)=%x,%x model %x,%x", vShortAddr(a), vShortSlot(k), gc, go_, ec, eo)
		}
		if g, e := s.GetTransientState(a, k), m.GetTransientState(ma, mk); g != common.Hash(e) {
			w.fail("GetTransientState(%s,%s)=%x model %x", vShortAddr(a), vShortSlot(k), g, e)
		}
		if w.rs.m.Berlin {
			ga, gs := s.SlotInAccessList(a, k)
			ea, es := m.SlotInAccessList(ma, mk)
			if ga != ea || gs != es {
				w.fail("SlotInAccessList(%s,%s)=%v,%v model %v,%v", vShortAddr(a), vShortSlot(k), ga, gs, ea, es)
			}
		}
	}
}

func (w *vWorld) checkGlobals() {
	if g, e := w.sdb.GetRefund(), w.m.GetRefund(); g != e {
		w.fail("GetRefund()=%d model %d", g, e)
	}
	w.checkLogs(w.sdb.GetLogs(w.thash, 0, common.Hash{}, 0), w.m.TxLogs(rw(w.thash)), "GetLogs(current tx)")
	w.checkLogs(w.sdb.Logs(), w.m.Logs(), "Logs()")
	vCheckJournal(w)
}

func (w *vWorld) checkLogs(got []*types.Log, want []refstate.Log, what string) {
	if len(got) != len(want) {
		w.fail("%s: %d logs, model %d", what, len(got), len(want))
	}
	for i, l := range got {
		e := want[i]
		ok := l.Address == common.Address(e.Addr) && bytes.Equal(l.Data, e.Data) && l.TxHash == common.Hash(e.TxHash) &&
			l.TxIndex == e.TxIndex && l.Index == e.Index && len(l.Topics) == len(e.Topics)
		if ok {
			for j := range l.Topics {
				ok = ok && l.Topics[j] == common.Hash(e.Topics[j])
			}
		}
		if !ok {
			w.fail("%s: log %d = %+v, model %+v", what, i, *l, e)
		}
	}
}

func (w *vWorld) checkAll() {
	for _, a := range vAddrs {
		w.checkAddr(a)
	}
	w.checkGlobals()
}

// after is called after each action on address a.
func (w *vWorld) after(a *common.Address) {
	if w.onStep != nil {
		defer w.onStep()
	}
	switch w.mode {
	case 0:
		w.checkAll()
	case 1:
		if a != nil {
			w.checkAddr(*a)
		}
		w.checkGlobals()
	default:
		vCheckJournal(w)
	}
}

// vCheckJournal is the white-box invariant: journal.mutations holds, per account,
// exactly the number of live journal entries of each kind (RIPEMD's touch marker may
// exceed it), never an all-zero record, and a stashed original exists iff entries
// of that kind are live.
func vCheckJournal(w *vWorld) {
	j := w.sdb.journal
	want := map[common.Address]*journalMutationCounts{}
	for _, e := range j.entries {
		if a, k, ok := e.mutation(); ok {
			if want[a] == nil {
				want[a] = new(journalMutationCounts)
			}
			want[a][k]++
		}
	}
	for a, st := range j.mutations {
		exp := journalMutationCounts{}
		if want[a] != nil {
			exp = *want[a]
		}
		if a == ripemd {
			for k := range exp {
				if journalMutationKind(k) == journalMutationKindTouch {
					if st.counts[k] < exp[k] {
						w.fail("journal.mutations[ripemd] touch count %d < live entries %d", st.counts[k], exp[k])
					}
				} else if st.counts[k] != exp[k] {
					w.fail("journal.mutations[ripemd] kind %d count %d, live entries %d", k, st.counts[k], exp[k])
				}
			}
		} else {
			if st.counts != exp {
				w.fail("journal.mutations[%s] counts %v, live entries %v", vShortAddr(a), st.counts, exp)
			}
			if st.counts == (journalMutationCounts{}) {
				w.fail("journal.mutations[%s] has an all-zero record", vShortAddr(a))
			}
		}
		if st.balanceSet != (st.counts[journalMutationKindBalance] > 0) || st.nonceSet != (st.counts[journalMutationKindNonce] > 0) ||
			st.codeSet != (st.counts[journalMutationKindCode] > 0) {
			w.fail("journal.mutations[%s] stash flags %v/%v/%v inconsistent with counts %v", vShortAddr(a), st.balanceSet, st.nonceSet, st.codeSet, st.counts)
		}
	}
	for a := range want {
		if j.mutations[a] == nil {
			w.fail("journal has live entries for %s but no mutation record", vShortAddr(a))
		}
	}
}

// ---- transaction boundaries --------------------------------------------------------

func (w *vWorld) beginTx(prepare bool) {
	rt := w.rt
	w.txN++
	w.txs++
	w.thash = common.BigToHash(big.NewInt(int64(0x7100 + w.txN)))
	if prepare {
		sender := rapid.SampledFrom(vAddrs).Draw(rt, "sender")
		coinbase := rapid.SampledFrom(vAddrs).Draw(rt, "coinbase")
		var dst *common.Address
		if rapid.Bool().Draw(rt, "hasDst") {
			d := rapid.SampledFrom(vAddrs).Draw(rt, "dst")
			dst = &d
		}
		var (
			list  types.AccessList
			mlist []refstate.AccessTuple
		)
		if rapid.IntRange(0, 3).Draw(rt, "alist") == 0 {
			a := rapid.SampledFrom(vAddrs).Draw(rt, "alAddr")
			k := rapid.SampledFrom(vSlots).Draw(rt, "alSlot")
			list = types.AccessList{{Address: a, StorageKeys: []common.Hash{k}}}
			mlist = []refstate.AccessTuple{{Addr: ra(a), Slots: []refstate.Word{rw(k)}}}
		}
		pre := []common.Address{vAddrs[6]}
		w.sdb.Prepare(w.rs.r, sender, coinbase, dst, pre, list)
		var mdst *refstate.Addr
		if dst != nil {
			d := ra(*dst)
			mdst = &d
		}
		w.m.Prepare(w.rs.m, ra(sender), ra(coinbase), mdst, []refstate.Addr{ra(vAddrs[6])}, mlist)
		w.logf("PREPARE s=%s cb=%s", vShortAddr(sender), vShortAddr(coinbase))
	} else {
		w.logf("TX(no prepare)")
	}
	w.balIndex = uint32(w.txN - 1 + w.balBase)
	w.sdb.SetTxContext(w.thash, w.txN-1, w.balIndex)
	w.m.SetTxContext(rw(w.thash), w.txN-1, w.balIndex)
	w.prepared = prepare
	w.wrote = map[string]bool{}
	w.inTx = true
}

// noteFinalise records coverage facts about what the coming Finalise will do.
func (w *vWorld) noteFinalise() {
	for _, a := range vAddrs {
		acc := w.m.Account(ra(a))
		if acc == nil {
			continue
		}
		if acc.SelfDestructed {
			if w.rs.m.Amsterdam && acc.Balance.Sign() != 0 {
				w.sdKeptBalance = true
			} else {
				w.destroyed[a] = true
			}
		}
	}
}

func (w *vWorld) finalise() {
	w.noteFinalise()
	before := len(w.m.Accounts())
	realBAL := w.sdb.Finalise(w.rs.r)
	diff := w.m.Finalise(w.rs.m)
	if len(w.m.Accounts()) < before {
		w.emptyDeleted = true
	}
	w.logf("FINALISE")
	w.inTx = false
	if w.onFin != nil {
		w.onFin(realBAL, diff)
	}
}

func (w *vWorld) intermediateRoot() common.Hash {
	w.noteFinalise()
	got := w.sdb.IntermediateRoot(w.rs.r)
	w.m.Finalise(w.rs.m)
	want := common.Hash(w.m.Root())
	w.logf("IROOT")
	w.inTx = false
	if err := w.sdb.Error(); err != nil {
		w.fail("IntermediateRoot: database error %v", err)
	}
	if got != want {
		w.fail("IntermediateRoot=%x, reference root of the model=%x (accounts: %s)", got, want, w.dumpModel())
	}
	return got
}

func (w *vWorld) dumpModel() string {
	var sb strings.Builder
	for _, a := range w.m.SortedAddrs() {
		acc := w.m.Account(a)
		fmt.Fprintf(&sb, "%s{n=%d b=%v code=%x st=%d} ", vShortAddr(common.Address(a)), acc.Nonce, acc.Balance, acc.Code, len(acc.Storage))
	}
	return sb.String()
}

// ---- actions ------------------------------------------------------------------------

type vAction struct {
	name   string
	weight int
	run    func(w *vWorld)
}

func (w *vWorld) drawAddr(label string) common.Address {
	return rapid.SampledFrom(vAddrs).Draw(w.rt, label)
}

// drawAddrWhere prefers a pool address satisfying pred (falls back to any address).
func (w *vWorld) drawAddrWhere(label string, pred func(a common.Address, acc *refstate.Account) bool) (common.Address, bool) {
	var ok []common.Address
	for _, a := range vAddrs {
		if pred(a, w.m.Account(ra(a))) {
			ok = append(ok, a)
		}
	}
	if len(ok) == 0 {
		return w.drawAddr(label), false
	}
	return rapid.SampledFrom(ok).Draw(w.rt, label), true
}

func (w *vWorld) nonceOf(a common.Address) uint64 {
	if acc := w.m.Account(ra(a)); acc != nil {
		return acc.Nonce
	}
	return 0
}

func vActAddBalance(w *vWorld) {
	a := w.drawAddr("addr")
	amt := rapid.SampledFrom(vAmounts).Draw(w.rt, "amt")
	if amt.IsZero() && a == ripemd {
		if acc := w.m.Account(ra(a)); acc == nil || acc.Empty() {
			w.ripemdSticky = true
		}
	}
	g := w.sdb.AddBalance(a, amt, tracing.BalanceChangeUnspecified)
	e := w.m.AddBalance(ra(a), amt.ToBig())
	w.logf("AddBalance %s %v", vShortAddr(a), amt)
	if !amt.IsZero() {
		w.wrote[vShortAddr(a)+"/bal"] = true
	}
	if g.ToBig().Cmp(e) != 0 {
		w.fail("AddBalance returned previous balance %v, model %v", &g, e)
	}
	w.after(&a)
}

func vActSubBalance(w *vWorld) {
	a := w.drawAddr("addr")
	bal := new(big.Int)
	if acc := w.m.Account(ra(a)); acc != nil {
		bal = acc.Balance
	}
	// the EVM only subtracts what CanTransfer allowed
	var cands []*uint256.Int
	for _, c := range vAmounts {
		if c.ToBig().Cmp(bal) <= 0 {
			cands = append(cands, c)
		}
	}
	cands = append(cands, uint256.MustFromBig(bal))
	amt := rapid.SampledFrom(cands).Draw(w.rt, "amt")
	g := w.sdb.SubBalance(a, amt, tracing.BalanceChangeUnspecified)
	e := w.m.SubBalance(ra(a), amt.ToBig())
	w.logf("SubBalance %s %v", vShortAddr(a), amt)
	if !amt.IsZero() {
		w.wrote[vShortAddr(a)+"/bal"] = true
	}
	if g.ToBig().Cmp(e) != 0 {
		w.fail("SubBalance returned previous balance %v, model %v", &g, e)
	}
	w.after(&a)
}

func vActSetBalance(w *vWorld) {
	a := w.drawAddr("addr")
	amt := rapid.SampledFrom(append(append([]*uint256.Int{}, vAmounts...), vMaxU256)).Draw(w.rt, "amt")
	if w.m.GetBalanceQuiet(ra(a)).Cmp(amt.ToBig()) != 0 {
		w.wrote[vShortAddr(a)+"/bal"] = true
	}
	w.sdb.SetBalance(a, amt, tracing.BalanceChangeUnspecified)
	w.m.SetBalance(ra(a), amt.ToBig())
	w.logf("SetBalance %s %v", vShortAddr(a), amt)
	w.after(&a)
}

func vActSetNonce(w *vWorld) {
	a := w.drawAddr("addr")
	cur := w.nonceOf(a)
	var n uint64
	if w.strict {
		// nonces never decrease outside reverts
		n = cur + uint64(rapid.IntRange(0, 2).Draw(w.rt, "inc"))
		if n < cur {
			n = cur
		}
	} else {
		n = rapid.SampledFrom([]uint64{0, 1, 2, cur + 1, 1<<64 - 1}).Draw(w.rt, "nonce")
	}
	if n != cur {
		w.wrote[vShortAddr(a)+"/nonce"] = true
	}
	w.sdb.SetNonce(a, n, tracing.NonceChangeUnspecified)
	w.m.SetNonce(ra(a), n)
	w.logf("SetNonce %s %d", vShortAddr(a), n)
	w.after(&a)
}

func vActSetCode(w *vWorld) {
	var a common.Address
	if w.strict {
		a, _ = w.drawAddrWhere("addr", func(_ common.Address, acc *refstate.Account) bool { return acc != nil && acc.Nonce >= 1 })
	} else {
		a = w.drawAddr("addr")
	}
	code := vCodes[rapid.IntRange(0, len(vCodes)-1).Draw(w.rt, "code")]
	if w.strict && w.nonceOf(a) == 0 {
		code = nil // code only lives on accounts with a nonce (EIP-161 era)
	}
	if len(code) > 0 && rapid.Bool().Draw(w.rt, "freshCode") {
		// a blob no earlier block or sibling state can have stored already
		code = append(append([]byte{}, code...), 0xfe, w.salt, byte(w.txN), byte(len(w.trace)), byte(len(w.trace)>>8))
	}
	// Callers (EVM create after the collision check, EIP-7702 after validation) have
	// always resolved the current code before replacing it.
	if g, e := w.sdb.GetCode(a), w.m.GetCode(ra(a)); !bytes.Equal(g, e) {
		w.fail("GetCode(%s)=%x model %x", vShortAddr(a), g, e)
	}
	g := w.sdb.SetCode(a, code, tracing.CodeChangeUnspecified)
	e := w.m.SetCode(ra(a), code)
	w.logf("SetCode %s %x", vShortAddr(a), code)
	if !bytes.Equal(g, e) {
		w.fail("SetCode returned previous code %x, model %x", g, e)
	}
	if !bytes.Equal(e, code) {
		w.wrote[vShortAddr(a)+"/code"] = true
	}
	w.after(&a)
}

func vActSetState(w *vWorld) {
	var a common.Address
	if w.strict {
		a, _ = w.drawAddrWhere("addr", func(_ common.Address, acc *refstate.Account) bool { return acc != nil && acc.Nonce >= 1 })
	} else {
		a = w.drawAddr("addr")
	}
	k := rapid.SampledFrom(vSlots).Draw(w.rt, "slot")
	v := rapid.SampledFrom(vVals).Draw(w.rt, "val")
	if w.strict && w.nonceOf(a) == 0 {
		v = common.Hash{} // storage only lives on accounts with a nonce (EIP-161 era)
	}
	g := w.sdb.SetState(a, k, v)
	e := w.m.SetState(ra(a), rw(k), rw(v))
	w.logf("SetState %s %s %s", vShortAddr(a), vShortSlot(k), vShortVal(v))
	if g != common.Hash(e) {
		w.fail("SetState returned previous value %x, model %x", g, e)
	}
	if g != v {
		w.wrote[vShortAddr(a)+"/"+vShortSlot(k)] = true
	}
	w.after(&a)
}

func vActSetTransient(w *vWorld) {
	a := w.drawAddr("addr")
	k := rapid.SampledFrom(vSlots).Draw(w.rt, "slot")
	v := rapid.SampledFrom(vVals).Draw(w.rt, "val")
	w.sdb.SetTransientState(a, k, v)
	w.m.SetTransientState(ra(a), rw(k), rw(v))
	w.logf("TStore %s %s %s", vShortAddr(a), vShortSlot(k), vShortVal(v))
	w.after(&a)
}

func vActAccessListAddr(w *vWorld) {
	if !w.rs.m.Berlin {
		return
	}
	a := w.drawAddr("addr")
	w.sdb.AddAddressToAccessList(a)
	w.m.AddAddressToAccessList(ra(a))
	w.logf("ALAddr %s", vShortAddr(a))
	w.after(&a)
}

func vActAccessListSlot(w *vWorld) {
	if !w.rs.m.Berlin {
		return
	}
	a := w.drawAddr("addr")
	k := rapid.SampledFrom(vSlots).Draw(w.rt, "slot")
	w.sdb.AddSlotToAccessList(a, k)
	w.m.AddSlotToAccessList(ra(a), rw(k))
	w.logf("ALSlot %s %s", vShortAddr(a), vShortSlot(k))
	w.after(&a)
}

func vActAddRefund(w *vWorld) {
	g := rapid.SampledFrom([]uint64{0, 1, 4800, 15000}).Draw(w.rt, "gas")
	w.sdb.AddRefund(g)
	w.m.AddRefund(g)
	w.logf("AddRefund %d", g)
	w.after(nil)
}

func vActSubRefund(w *vWorld) {
	cur := w.m.GetRefund()
	g := rapid.SampledFrom([]uint64{0, 1, cur / 2, cur}).Draw(w.rt, "gas")
	if g > cur {
		g = cur // SubRefund below zero panics by contract
	}
	w.sdb.SubRefund(g)
	w.m.SubRefund(g)
	w.logf("SubRefund %d", g)
	w.after(nil)
}

func vActAddLog(w *vWorld) {
	a := w.drawAddr("addr")
	nt := rapid.IntRange(0, 2).Draw(w.rt, "topics")
	var topics []common.Hash
	var mt []refstate.Word
	for i := 0; i < nt; i++ {
		t := rapid.SampledFrom(vVals).Draw(w.rt, "topic")
		topics = append(topics, t)
		mt = append(mt, rw(t))
	}
	data := vCodes[rapid.IntRange(0, len(vCodes)-1).Draw(w.rt, "data")]
	w.sdb.AddLog(&types.Log{Address: a, Topics: topics, Data: data})
	w.m.AddLog(ra(a), mt, data)
	w.logf("AddLog %s t=%d", vShortAddr(a), nt)
	w.after(nil)
}

func (w *vWorld) exist(a common.Address) bool {
	g, e := w.sdb.Exist(a), w.m.Exist(ra(a))
	if g != e {
		w.fail("Exist(%s)=%v model %v", vShortAddr(a), g, e)
	}
	return g
}

func (w *vWorld) noteCreate(a common.Address) {
	if w.destroyed[a] {
		w.destructRecreate = true
	}
}

func vActCreateAccount(w *vWorld) {
	a, ok := w.drawAddrWhere("addr", func(_ common.Address, acc *refstate.Account) bool { return acc == nil })
	if !ok || w.exist(a) {
		return // CreateAccount assumes the account does not exist (evm.create checks Exist first)
	}
	w.sdb.CreateAccount(a)
	w.m.CreateAccount(ra(a))
	w.noteCreate(a)
	w.logf("CreateAccount %s", vShortAddr(a))
	w.after(&a)
}

// vActCreate mirrors the state effects of evm.create up to the start of the init
// code: collision check, optional snapshot, CreateAccount if absent, CreateContract,
// nonce := 1 (EIP-158+).
func vActCreate(w *vWorld) {
	a, ok := w.drawAddrWhere("addr", func(_ common.Address, acc *refstate.Account) bool {
		return acc == nil || (acc.Nonce == 0 && len(acc.Code) == 0 && len(acc.Storage) == 0)
	})
	if !ok {
		return
	}
	if w.rs.m.Berlin {
		w.sdb.AddAddressToAccessList(a)
		w.m.AddAddressToAccessList(ra(a))
	}
	// collision check as in evm.create (plus EIP-7610 empty storage, see drawAddrWhere;
	// the start-of-tx storage must be empty as well)
	if old := w.m.TxStart()[ra(a)]; old != nil && w.m.Account(ra(a)) != nil && len(old.Storage) != 0 {
		return
	}
	gh, eh := w.sdb.GetCodeHash(a), w.m.GetCodeHash(ra(a))
	gn, en := w.sdb.GetNonce(a), w.m.GetNonce(ra(a))
	if gh != common.Hash(eh) || gn != en {
		w.fail("create collision check: codehash %x nonce %d, model %x %d", gh, gn, eh, en)
	}
	if rapid.Bool().Draw(w.rt, "snapBeforeCreate") {
		w.snapshot()
	}
	if !w.exist(a) {
		w.sdb.CreateAccount(a)
		w.m.CreateAccount(ra(a))
		w.noteCreate(a)
	}
	w.sdb.CreateContract(a)
	w.m.CreateContract(ra(a))
	if w.rs.m.EIP158 {
		w.sdb.SetNonce(a, 1, tracing.NonceChangeNewContract)
		w.m.SetNonce(ra(a), 1)
	} else {
		// pre-EIP-158 the endowment transfer follows; a zero-value transfer still touches
		w.sdb.AddBalance(a, uint256.NewInt(0), tracing.BalanceChangeTransfer)
		w.m.AddBalance(ra(a), new(big.Int))
	}
	w.logf("Create %s", vShortAddr(a))
	w.after(&a)
}

// vActSelfDestruct mirrors opSelfdestruct / opSelfdestruct6780.
func vActSelfDestruct(w *vWorld) {
	var a common.Address
	if w.rs.m.Cancun {
		var ok bool
		a, ok = w.drawAddrWhere("addr", func(_ common.Address, acc *refstate.Account) bool { return acc != nil && acc.NewContract })
		if !ok {
			// EIP-6780: only contracts created in this transaction are destroyed; create one first
			vActCreate(w)
			a, ok = w.drawAddrWhere("addr2", func(_ common.Address, acc *refstate.Account) bool { return acc != nil && acc.NewContract })
			if !ok {
				return
			}
		}
		if g, e := w.sdb.IsNewContract(a), w.m.IsNewContract(ra(a)); g != e || !g {
			w.fail("IsNewContract(%s)=%v model %v", vShortAddr(a), g, e)
		}
	} else {
		a = w.drawAddr("addr")
	}
	if rapid.IntRange(0, 2).Draw(w.rt, "snapBeforeSD") == 0 {
		w.snapshot()
	}
	if rapid.Bool().Draw(w.rt, "moveBalance") {
		ben := w.drawAddr("beneficiary")
		gb, eb := w.sdb.GetBalance(a), w.m.GetBalance(ra(a))
		if gb.ToBig().Cmp(eb) != 0 {
			w.fail("GetBalance(%s)=%v model %v", vShortAddr(a), gb, eb)
		}
		bal := gb.Clone()
		if ben != a {
			w.sdb.AddBalance(ben, bal, tracing.BalanceIncreaseSelfdestruct)
			w.m.AddBalance(ra(ben), bal.ToBig())
			w.sdb.SubBalance(a, bal, tracing.BalanceDecreaseSelfdestruct)
			w.m.SubBalance(ra(a), bal.ToBig())
		} else if !w.rs.m.Amsterdam {
			w.sdb.SubBalance(a, bal, tracing.BalanceDecreaseSelfdestruct)
			w.m.SubBalance(ra(a), bal.ToBig())
		}
		w.logf("SDmove %s->%s", vShortAddr(a), vShortAddr(ben))
	}
	w.sdb.SelfDestruct(a)
	w.m.SelfDestruct(ra(a))
	w.logf("SelfDestruct %s", vShortAddr(a))
	w.after(&a)
}

// vActRipemdTouchRevert is the mainnet block-1714175 pattern: RIPEMD-160 is touched
// inside a frame that is reverted; the touch nevertheless survives to Finalise.
func vActRipemdTouchRevert(w *vWorld) {
	w.snapshot()
	live := w.m.LiveSnapshots()
	id := live[len(live)-1]
	if acc := w.m.Account(ra(ripemd)); acc == nil || acc.Empty() {
		w.ripemdSticky = true
	}
	g := w.sdb.AddBalance(ripemd, uint256.NewInt(0), tracing.BalanceChangeTouchAccount)
	e := w.m.AddBalance(ra(ripemd), new(big.Int))
	if g.ToBig().Cmp(e) != 0 {
		w.fail("AddBalance returned previous balance %v, model %v", &g, e)
	}
	w.sdb.RevertToSnapshot(id)
	w.m.RevertToSnapshot(id)
	w.logf("RipemdTouch+Revert")
	a := ripemd
	w.after(&a)
}

// vActDestructRecreate destroys an account (one with storage where the rules allow
// it), ends the transaction and recreates a contract with fresh storage at the same
// address in the next transaction of the same block.
func vActDestructRecreate(w *vWorld) {
	var a common.Address
	if w.rs.m.Cancun {
		// only a contract created in this very transaction can be destroyed
		var ok bool
		a, ok = w.drawAddrWhere("addr", func(_ common.Address, acc *refstate.Account) bool {
			return acc == nil || (acc.Nonce == 0 && len(acc.Code) == 0 && len(acc.Storage) == 0)
		})
		if !ok {
			return
		}
		if old := w.m.TxStart()[ra(a)]; old != nil && len(old.Storage) != 0 {
			return
		}
		if !w.exist(a) {
			w.sdb.CreateAccount(a)
			w.m.CreateAccount(ra(a))
		}
		w.sdb.CreateContract(a)
		w.m.CreateContract(ra(a))
		w.sdb.SetNonce(a, 1, tracing.NonceChangeNewContract)
		w.m.SetNonce(ra(a), 1)
		k := rapid.SampledFrom(vSlots).Draw(w.rt, "slot0")
		w.sdb.SetState(a, k, vVals[1])
		w.m.SetState(ra(a), rw(k), rw(vVals[1]))
	} else {
		a, _ = w.drawAddrWhere("addr", func(_ common.Address, acc *refstate.Account) bool { return acc != nil && len(acc.Storage) > 0 })
	}
	if rapid.Bool().Draw(w.rt, "zeroBalance") {
		// as the opcode does: move the balance away first
		bal := w.sdb.GetBalance(a).Clone()
		w.m.GetBalance(ra(a))
		w.sdb.SubBalance(a, bal, tracing.BalanceDecreaseSelfdestruct)
		w.m.SubBalance(ra(a), bal.ToBig())
	}
	w.sdb.SelfDestruct(a)
	w.m.SelfDestruct(ra(a))
	w.logf("DestructRecreate %s: SelfDestruct", vShortAddr(a))
	w.after(&a)
	w.finalise()
	w.checkAll()
	w.beginTx(true)
	// recreate (if it is gone or eligible: Amsterdam may have kept a balance-only account)
	acc := w.m.Account(ra(a))
	if acc != nil && (acc.Nonce != 0 || len(acc.Code) != 0 || len(acc.Storage) != 0) {
		return
	}
	if !w.exist(a) {
		w.sdb.CreateAccount(a)
		w.m.CreateAccount(ra(a))
		w.noteCreate(a)
	}
	w.sdb.CreateContract(a)
	w.m.CreateContract(ra(a))
	if w.rs.m.EIP158 || w.strict {
		w.sdb.SetNonce(a, 1, tracing.NonceChangeNewContract)
		w.m.SetNonce(ra(a), 1)
	}
	n := rapid.IntRange(0, 2).Draw(w.rt, "newSlots")
	for i := 0; i < n; i++ {
		k := rapid.SampledFrom(vSlots).Draw(w.rt, "slot")
		v := rapid.SampledFrom(vVals).Draw(w.rt, "val")
		g := w.sdb.SetState(a, k, v)
		e := w.m.SetState(ra(a), rw(k), rw(v))
		if g != common.Hash(e) {
			w.fail("SetState returned previous value %x, model %x", g, e)
		}
	}
	w.logf("DestructRecreate %s: recreated with %d slots", vShortAddr(a), n)
	w.after(&a)
}

// vActHotSlotBurst writes one "hot" slot (drawn once per history) several times in a
// row from a tiny value pool biased towards values the slot held earlier in the
// block (A -> B -> A patterns), separating the writes by drawn transaction
// boundaries of both kinds (Finalise only / IntermediateRoot), so that a slot is
// repeatedly re-dirtied across mixed boundaries and returns to earlier values.
func vActHotSlotBurst(w *vWorld) {
	if !w.hotSet {
		w.hotAddr = rapid.SampledFrom(vAddrs[:5]).Draw(w.rt, "hotAddr")
		w.hotSlot = rapid.SampledFrom(vSlots).Draw(w.rt, "hotSlot")
		w.hotSet = true
	}
	a, k := w.hotAddr, w.hotSlot
	n := rapid.IntRange(2, 5).Draw(w.rt, "burst")
	for i := 0; i < n; i++ {
		if w.strict && w.nonceOf(a) == 0 {
			// storage only lives on accounts with a nonce (EIP-161 era)
			w.sdb.SetNonce(a, 1, tracing.NonceChangeUnspecified)
			w.m.SetNonce(ra(a), 1)
			w.wrote[vShortAddr(a)+"/nonce"] = true
		}
		var v common.Hash
		if len(w.hotHist) > 0 && rapid.Bool().Draw(w.rt, "fromHistory") {
			v = w.hotHist[rapid.IntRange(0, len(w.hotHist)-1).Draw(w.rt, "histIdx")]
		} else {
			v = rapid.SampledFrom(vVals[:3]).Draw(w.rt, "hotVal")
		}
		g := w.sdb.SetState(a, k, v)
		e := w.m.SetState(ra(a), rw(k), rw(v))
		w.logf("HotSetState %s %s %s", vShortAddr(a), vShortSlot(k), vShortVal(v))
		if g != common.Hash(e) {
			w.fail("SetState returned previous value %x, model %x", g, e)
		}
		if g != v {
			w.wrote[vShortAddr(a)+"/"+vShortSlot(k)] = true
		}
		w.hotHist = append(w.hotHist, v)
		if len(w.hotHist) > 4 {
			w.hotHist = w.hotHist[1:]
		}
		w.after(&a)
		switch b := rapid.IntRange(0, 4).Draw(w.rt, "boundary"); {
		case b <= 1:
			w.finalise()
			w.checkAddr(a)
			w.beginTx(rapid.IntRange(0, 5).Draw(w.rt, "prepare") != 0)
			w.mixedBoundaries |= 1
		case b <= 3 && !w.noIRoot:
			w.intermediateRoot()
			w.checkAddr(a)
			w.beginTx(rapid.IntRange(0, 5).Draw(w.rt, "prepare") != 0)
			w.mixedBoundaries |= 2
		}
	}
}

func (w *vWorld) snapshot() {
	id := w.sdb.Snapshot()
	w.m.Snapshot(id)
	w.logf("Snap=%d", id)
}

func vActSnapshot(w *vWorld) {
	w.snapshot()
	w.after(nil)
}

func vActRevert(w *vWorld) {
	live := w.m.LiveSnapshots()
	if len(live) == 0 {
		return
	}
	idx := rapid.IntRange(0, len(live)-1).Draw(w.rt, "revertTo")
	if j := rapid.IntRange(0, len(live)-1).Draw(w.rt, "revertTo2"); j < idx {
		idx = j // prefer deep reverts
	}
	popped := len(live) - idx
	// what does the revert undo?
	type fact struct{ exist, sd bool }
	before := map[common.Address]fact{}
	for _, a := range vAddrs {
		acc := w.m.Account(ra(a))
		before[a] = fact{acc != nil, acc != nil && acc.SelfDestructed}
	}
	w.sdb.RevertToSnapshot(live[idx])
	if !w.m.RevertToSnapshot(live[idx]) {
		w.rt.Fatalf("VERIF-HARNESS-BUG: model lost snapshot %d", live[idx])
	}
	w.reverts++
	for _, a := range vAddrs {
		acc := w.m.Account(ra(a))
		now := fact{acc != nil, acc != nil && acc.SelfDestructed}
		if popped >= 2 && (before[a].exist && !now.exist || before[a].sd && !now.sd) {
			w.deepRevertUndo = true
		}
	}
	w.logf("Revert->%d(pop %d)", live[idx], popped)
	if w.mode == 1 {
		w.checkAll()
	} else {
		w.after(nil)
	}
}

func vActRead(w *vWorld) {
	a := w.drawAddr("addr")
	w.logf("Read %s", vShortAddr(a))
	w.checkAddr(a)
}

func vActCopy(w *vWorld) {
	mid := rapid.IntRange(0, 2).Draw(w.rt, "midTx") == 0
	if !mid && w.inTx {
		w.finalise()
		w.sdb = w.sdb.Copy()
		w.m = w.m.Copy()
		w.logf("COPY(between txs)")
		w.copies++
		w.beginTx(rapid.IntRange(0, 5).Draw(w.rt, "prepare") != 0)
		return
	}
	// "Snapshots of the copied state cannot be applied to the copy."
	w.sdb = w.sdb.Copy()
	w.m = w.m.Copy()
	w.m.DropSnapshots()
	w.copies++
	w.midTxCopy = true
	w.logf("COPY(mid tx)")
	w.after(nil)
}

func vActFinalise(w *vWorld) {
	w.finalise()
	w.checkAll()
	w.beginTx(rapid.IntRange(0, 5).Draw(w.rt, "prepare") != 0)
}

func vActIntermediateRoot(w *vWorld) {
	w.intermediateRoot()
	w.checkAll()
	w.beginTx(rapid.IntRange(0, 5).Draw(w.rt, "prepare") != 0)
}

var vActions = []vAction{
	{"AddBalance", 8, vActAddBalance},
	{"SubBalance", 5, vActSubBalance},
	{"SetBalance", 3, vActSetBalance},
	{"SetNonce", 6, vActSetNonce},
	{"SetCode", 6, vActSetCode},
	{"SetState", 13, vActSetState},
	{"TStore", 4, vActSetTransient},
	{"ALAddr", 2, vActAccessListAddr},
	{"ALSlot", 2, vActAccessListSlot},
	{"AddRefund", 2, vActAddRefund},
	{"SubRefund", 2, vActSubRefund},
	{"AddLog", 3, vActAddLog},
	{"CreateAccount", 3, vActCreateAccount},
	{"Create", 8, vActCreate},
	{"SelfDestruct", 8, vActSelfDestruct},
	{"DestructRecreate", 3, vActDestructRecreate},
	{"HotSlotBurst", 6, vActHotSlotBurst},
	{"Snapshot", 9, vActSnapshot},
	{"Revert", 7, vActRevert},
	{"RipemdTouchRevert", 2, vActRipemdTouchRevert},
	{"Read", 3, vActRead},
	{"Copy", 2, vActCopy},
	{"Finalise", 5, vActFinalise},
	{"IntermediateRoot", 4, vActIntermediateRoot},
}

func vActionTable(actions []vAction) []int {
	var idx []int
	for i, a := range actions {
		for j := 0; j < a.weight; j++ {
			idx = append(idx, i)
		}
	}
	return idx
}

// step draws and runs one action from the table.
func (w *vWorld) step(actions []vAction, table []int) string {
	i := table[rapid.IntRange(0, len(table)-1).Draw(w.rt, "action")]
	actions[i].run(w)
	return actions[i].name
}

// ---- base states -----------------------------------------------------------------------

// vDrawBase draws a small world and commits it (pre-EIP-158 rules, so empty accounts
// survive) into db; it returns the committed root and the model holding it.
func vDrawBase(rt *rapid.T, db *vDB, strict bool) (common.Hash, *refstate.State, map[string]bool) {
	m := refstate.New()
	facts := map[string]bool{}
	sdb, err := New(types.EmptyRootHash, db.sdb)
	if err != nil {
		rt.Fatalf("VERIF-HARNESS-BUG: open empty state: %v", err)
	}
	for _, a := range vAddrs {
		kind := rapid.IntRange(0, 5).Draw(rt, "baseKind")
		switch kind {
		case 0, 1: // absent
			continue
		case 2: // empty account (only possible from the pre-EIP-158 era)
			sdb.CreateAccount(a)
			m.CreateAccount(ra(a))
			facts["base-empty-account"] = true
		case 3: // balance only
			amt := rapid.SampledFrom(vAmounts[1:]).Draw(rt, "baseBal")
			sdb.SetBalance(a, amt, tracing.BalanceChangeUnspecified)
			m.SetBalance(ra(a), amt.ToBig())
		default: // contract-like: nonce >= 1, maybe code, maybe storage
			n := uint64(rapid.IntRange(1, 3).Draw(rt, "baseNonce"))
			if !strict && rapid.Bool().Draw(rt, "baseNonce0") {
				n = 0
			}
			sdb.SetNonce(a, n, tracing.NonceChangeUnspecified)
			m.SetNonce(ra(a), n)
			amt := rapid.SampledFrom(vAmounts).Draw(rt, "baseBal")
			sdb.SetBalance(a, amt, tracing.BalanceChangeUnspecified)
			m.SetBalance(ra(a), amt.ToBig())
			code := vCodes[rapid.IntRange(0, len(vCodes)-1).Draw(rt, "baseCode")]
			sdb.SetCode(a, code, tracing.CodeChangeUnspecified)
			m.SetCode(ra(a), code)
			for _, k := range vSlots {
				if rapid.Bool().Draw(rt, "baseSlot") {
					v := rapid.SampledFrom(vVals[1:]).Draw(rt, "baseVal")
					sdb.SetState(a, k, v)
					m.SetState(ra(a), rw(k), rw(v))
					facts["base-storage"] = true
				}
			}
		}
	}
	root, err := sdb.Commit(vRuleByName("frontier").r, 0)
	if err != nil {
		rt.Fatalf("commit of the drawn base state failed: %v", err)
	}
	m.Finalise(refstate.Rules{})
	if want := common.Hash(m.Root()); root != want {
		rt.Fatalf("base state: Commit root %x, reference root of the model %x", root, want)
	}
	return root, m, facts
}

func vU256(b *big.Int) *uint256.Int { return uint256.MustFromBig(b) }
