//go:build verif

package snapshot

// C22 (legacy snapshot tree part): flat-state iterators enumerate exactly the live
// entries. A linear history of flat-state diffs (create / modify / delete accounts
// and slots, destruct+recreate with explicit nil slots, as core/state hands them to
// Tree.Update) is stacked on an empty disk layer; Tree.Cap with drawn depths and
// aggregator limit pushes the bottom of the stack into the accumulator layer or to
// disk. For every layer still in the tree the merged (fast) iterators of the public
// API, the binary iterators and the single-layer disk iterators are compared with
// the model state of that root at drawn seek positions.

import (
	"bytes"
	"fmt"
	"math/big"
	"sort"
	"strings"
	"testing"

	"github.com/VictoriaMetrics/fastcache"
	"github.com/ethereum/go-ethereum/common"
	"github.com/ethereum/go-ethereum/core/rawdb"
	"pgregory.net/rapid"
	"verif.local/kit/reftrie"
	vs "verif.local/kit/stat"
)

const (
	c22NumAccounts = 9
	c22NumSlots    = 6
)

var (
	c22Accounts []common.Hash
	c22Slots    []common.Hash
)

func init() {
	for i := 0; i < c22NumAccounts+1; i++ {
		c22Accounts = append(c22Accounts, common.Hash(reftrie.Keccak256([]byte{'a', byte(i)})))
	}
	for i := 0; i < c22NumSlots+1; i++ {
		c22Slots = append(c22Slots, common.Hash(reftrie.Keccak256([]byte{'s', byte(i)})))
	}
	// the last entry of each pool is never written ("absent" probes)
}

type c22State struct {
	accounts map[common.Hash][]byte
	storage  map[common.Hash]map[common.Hash][]byte
}

func (s *c22State) clone() *c22State {
	c := &c22State{accounts: map[common.Hash][]byte{}, storage: map[common.Hash]map[common.Hash][]byte{}}
	for k, v := range s.accounts {
		c.accounts[k] = v
	}
	for a, sub := range s.storage {
		c.storage[a] = map[common.Hash][]byte{}
		for k, v := range sub {
			c.storage[a][k] = v
		}
	}
	return c
}

func c22Sorted(m map[common.Hash][]byte) []common.Hash {
	out := make([]common.Hash, 0, len(m))
	for k := range m {
		out = append(out, k)
	}
	sort.Slice(out, func(i, j int) bool { return bytes.Compare(out[i][:], out[j][:]) < 0 })
	return out
}

type c22Entry struct {
	Hash common.Hash
	Val  []byte
}

func c22Expect(m map[common.Hash][]byte, seek common.Hash) []c22Entry {
	var out []c22Entry
	for _, k := range c22Sorted(m) {
		if bytes.Compare(k[:], seek[:]) >= 0 {
			out = append(out, c22Entry{k, m[k]})
		}
	}
	return out
}

func c22Drain(it Iterator, value func() []byte, limit int) ([]c22Entry, error) {
	var out []c22Entry
	for len(out) < limit && it.Next() {
		out = append(out, c22Entry{it.Hash(), common.CopyBytes(value())})
	}
	return out, it.Error()
}

func c22Compare(got, want []c22Entry) string {
	for i := 1; i < len(got); i++ {
		if bytes.Compare(got[i-1].Hash[:], got[i].Hash[:]) >= 0 {
			return fmt.Sprintf("not strictly ascending at position %d", i)
		}
	}
	if len(got) != len(want) {
		return fmt.Sprintf("yielded %d entries, expected %d", len(got), len(want))
	}
	for i := range got {
		if got[i].Hash != want[i].Hash {
			return fmt.Sprintf("entry %d has hash %x, expected %x", i, got[i].Hash, want[i].Hash)
		}
		if !bytes.Equal(got[i].Val, want[i].Val) {
			return fmt.Sprintf("entry %d (%x) has value %x, expected %x", i, got[i].Hash, got[i].Val, want[i].Val)
		}
	}
	return ""
}

func c22Render(es []c22Entry) string {
	var sb strings.Builder
	for _, e := range es {
		fmt.Fprintf(&sb, " %x=%x", e.Hash[:3], e.Val)
	}
	return sb.String()
}

func c22HashAdd(h common.Hash, d int64) common.Hash {
	v := new(big.Int).SetBytes(h[:])
	v.Add(v, big.NewInt(d))
	if v.Sign() < 0 {
		return common.Hash{}
	}
	if v.BitLen() > 256 {
		return common.MaxHash
	}
	return common.BigToHash(v)
}

// c22DrawDiff draws a state transition and returns the new state together with the
// diff in the form Tree.Update expects (nil = deleted).
func c22DrawDiff(rt *rapid.T, st *c22State, serial int) (*c22State, map[common.Hash][]byte, map[common.Hash]map[common.Hash][]byte, []string) {
	next := st.clone()
	accounts := map[common.Hash][]byte{}
	storage := map[common.Hash]map[common.Hash][]byte{}
	var desc []string
	setSlot := func(a, s common.Hash, v []byte) {
		if storage[a] == nil {
			storage[a] = map[common.Hash][]byte{}
		}
		storage[a][s] = v
		if v == nil {
			delete(next.storage[a], s)
			if len(next.storage[a]) == 0 {
				delete(next.storage, a)
			}
		} else {
			if next.storage[a] == nil {
				next.storage[a] = map[common.Hash][]byte{}
			}
			next.storage[a][s] = v
		}
	}
	blob := func(k int) []byte { return []byte{0xc3, byte(serial), byte(serial >> 8), byte(k)} }
	for k, n := 0, rapid.IntRange(1, 5).Draw(rt, "nops"); k < n; k++ {
		ai := rapid.IntRange(0, c22NumAccounts-1).Draw(rt, "acct")
		a := c22Accounts[ai]
		_, exists := next.accounts[a]
		switch op := rapid.IntRange(0, 9).Draw(rt, "op"); {
		case !exists || op < 2: // create or modify
			next.accounts[a] = blob(k)
			accounts[a] = next.accounts[a]
			desc = append(desc, fmt.Sprintf("put(a%d)", ai))
		case op < 6: // slot write
			si := rapid.IntRange(0, c22NumSlots-1).Draw(rt, "slot")
			setSlot(a, c22Slots[si], []byte{0x80 | byte(k), byte(serial)})
			next.accounts[a] = blob(k)
			accounts[a] = next.accounts[a]
			desc = append(desc, fmt.Sprintf("set(a%d,s%d)", ai, si))
		case op < 7: // slot delete
			keys := c22Sorted(next.storage[a])
			if len(keys) == 0 {
				continue
			}
			s := keys[rapid.IntRange(0, len(keys)-1).Draw(rt, "delSlot")]
			setSlot(a, s, nil)
			next.accounts[a] = blob(k)
			accounts[a] = next.accounts[a]
			desc = append(desc, fmt.Sprintf("del(a%d,%x)", ai, s[:2]))
		default: // destruct, optionally re-created in the same transition
			for _, s := range c22Sorted(next.storage[a]) {
				setSlot(a, s, nil)
			}
			delete(next.accounts, a)
			accounts[a] = nil
			desc = append(desc, fmt.Sprintf("destruct(a%d)", ai))
			if op == 9 {
				next.accounts[a] = blob(k + 100)
				accounts[a] = next.accounts[a]
				for j, m := 0, rapid.IntRange(0, 3).Draw(rt, "reslots"); j < m; j++ {
					si := rapid.IntRange(0, c22NumSlots-1).Draw(rt, "slot")
					setSlot(a, c22Slots[si], []byte{0x90 | byte(j), byte(serial)})
				}
				desc = append(desc, fmt.Sprintf("recreate(a%d)", ai))
			}
		}
	}
	return next, accounts, storage, desc
}

func TestVerifC22Snapshot(t *testing.T) {
	st := vs.New("C22", t)
	defer func(old uint64) { aggregatorMemoryLimit = old }(aggregatorMemoryLimit)
	vs.Check(t, 1, func(rt *rapid.T) {
		c := st.Case()
		aggregatorMemoryLimit = rapid.SampledFrom([]uint64{0, 4 * 1024 * 1024}).Draw(rt, "aggregatorMemoryLimit")
		layers := rapid.IntRange(0, 12).Draw(rt, "layers")
		capEvery := rapid.SampledFrom([]int{0, 1, 2, 3, 5}).Draw(rt, "capEvery")
		capDepth := rapid.IntRange(0, 4).Draw(rt, "capDepth")

		rootOf := func(i int) common.Hash { return common.BigToHash(big.NewInt(int64(i) + 1)) }
		base := &diskLayer{diskdb: rawdb.NewMemoryDatabase(), root: rootOf(0), cache: fastcache.New(64 * 1024)}
		snaps := &Tree{layers: map[common.Hash]snapshot{base.root: base}}
		states := []*c22State{{accounts: map[common.Hash][]byte{}, storage: map[common.Hash]map[common.Hash][]byte{}}}
		var (
			trace []string
		)
		fail := func(format string, a ...any) {
			rt.Fatalf("%s\nhistory:\n  %s", fmt.Sprintf(format, a...), strings.Join(trace, "\n  "))
		}
		for i := 1; i <= layers; i++ {
			next, accounts, storage, desc := c22DrawDiff(rt, states[i-1], i)
			states = append(states, next)
			// Tree.Update keeps the maps: hand over copies so the statistics below stay independent
			ca := map[common.Hash][]byte{}
			for k, v := range accounts {
				ca[k] = v
			}
			cs := map[common.Hash]map[common.Hash][]byte{}
			for a, sub := range storage {
				cs[a] = map[common.Hash][]byte{}
				for k, v := range sub {
					cs[a][k] = v
				}
			}
			if err := snaps.Update(rootOf(i), rootOf(i-1), ca, cs); err != nil {
				fail("Update #%d: %v", i, err)
			}
			trace = append(trace, fmt.Sprintf("#%d update %v", i, desc))
			if capEvery > 0 && i%capEvery == 0 {
				if err := snaps.Cap(rootOf(i), capDepth); err != nil {
					fail("Cap(#%d, %d): %v", i, capDepth, err)
				}
				trace = append(trace, fmt.Sprintf("#%d cap(%d)", i, capDepth))
			}
		}
		seeksOnTombstone, iterators := 0, 0
		seeksFor := func(keys []common.Hash, extra []common.Hash, label string, n int) []common.Hash {
			out := []common.Hash{{}}
			cands := []common.Hash{common.MaxHash}
			for _, k := range keys {
				cands = append(cands, k, c22HashAdd(k, 1), c22HashAdd(k, -1))
			}
			cands = append(cands, extra...)
			for i := 0; i < n && len(cands) > 0; i++ {
				j := rapid.IntRange(0, len(cands)-1).Draw(rt, label)
				out = append(out, cands[j])
				cands = append(cands[:j], cands[j+1:]...)
			}
			return out
		}
		liveLayers, diskIdx, recreated := 0, 0, false
		for i := 0; i <= layers; i++ {
			root := rootOf(i)
			layer := snaps.Snapshot(root)
			if layer == nil {
				continue // flattened away
			}
			liveLayers++
			if _, ok := layer.(*diskLayer); ok {
				diskIdx = i
			}
			model := states[i]
			// tombstones physically present in the diff layers of this stack
			tombA := map[common.Hash]bool{}
			tombS := map[common.Hash]map[common.Hash]bool{}
			for l := layer.(snapshot); l != nil; l = l.Parent() {
				d, ok := l.(*diffLayer)
				if !ok {
					break
				}
				for a, blob := range d.accountData {
					if len(blob) == 0 {
						if _, ok := model.accounts[a]; !ok {
							tombA[a] = true
						} else {
							recreated = true // deleted below, live at this root: re-created above
						}
					}
				}
				for a, sub := range d.storageData {
					for s, blob := range sub {
						if len(blob) == 0 {
							if _, ok := model.storage[a][s]; !ok {
								if tombS[a] == nil {
									tombS[a] = map[common.Hash]bool{}
								}
								tombS[a][s] = true
							} else {
								recreated = true
							}
						}
					}
				}
			}
			var tombs []common.Hash
			for a := range tombA {
				tombs = append(tombs, a)
			}
			sort.Slice(tombs, func(i, j int) bool { return bytes.Compare(tombs[i][:], tombs[j][:]) < 0 })
			for _, seek := range seeksFor(c22Sorted(model.accounts), append(tombs, c22Accounts[c22NumAccounts]), "accountSeek", 3) {
				if tombA[seek] {
					seeksOnTombstone++
				}
				want := c22Expect(model.accounts, seek)
				fast, err := snaps.AccountIterator(root, seek)
				if err != nil {
					fail("AccountIterator(#%d, %x): %v", i, seek, err)
				}
				got, ierr := c22Drain(fast, fast.Account, 1000)
				fast.Release()
				if ierr != nil {
					fail("fast account iterator at #%d seek %x failed: %v", i, seek, ierr)
				}
				if d := c22Compare(got, want); d != "" {
					fail("fast account iterator at #%d seek %x: %s\n got:%s\nwant:%s", i, seek, d, c22Render(got), c22Render(want))
				}
				iterators++
				if d, ok := layer.(*diffLayer); ok {
					bin := d.newBinaryAccountIterator(seek)
					gotB, berr := c22Drain(bin, bin.Account, 1000)
					bin.Release()
					if berr != nil {
						fail("binary account iterator at #%d seek %x failed: %v", i, seek, berr)
					}
					if d := c22Compare(gotB, want); d != "" {
						fail("binary account iterator at #%d seek %x: %s\n got:%s\nwant:%s", i, seek, d, c22Render(gotB), c22Render(want))
					}
					iterators++
				} else {
					single := layer.(snapshot).AccountIterator(seek)
					gotD, derr := c22Drain(single, single.Account, 1000)
					single.Release()
					if derr != nil {
						fail("disk account iterator at #%d seek %x failed: %v", i, seek, derr)
					}
					if d := c22Compare(gotD, want); d != "" {
						fail("disk account iterator at #%d seek %x: %s\n got:%s\nwant:%s", i, seek, d, c22Render(gotD), c22Render(want))
					}
					iterators++
				}
			}
			for ai, a := range c22Accounts {
				slots := model.storage[a]
				if len(slots) == 0 && len(tombS[a]) == 0 && ai%4 != i%4 {
					continue
				}
				var stombs []common.Hash
				for s := range tombS[a] {
					stombs = append(stombs, s)
				}
				sort.Slice(stombs, func(i, j int) bool { return bytes.Compare(stombs[i][:], stombs[j][:]) < 0 })
				for _, seek := range seeksFor(c22Sorted(slots), append(stombs, c22Slots[c22NumSlots]), "slotSeek", 2) {
					if tombS[a][seek] {
						seeksOnTombstone++
					}
					want := c22Expect(slots, seek)
					fast, err := snaps.StorageIterator(root, a, seek)
					if err != nil {
						fail("StorageIterator(#%d, a%d, %x): %v", i, ai, seek, err)
					}
					got, ierr := c22Drain(fast, fast.Slot, 1000)
					fast.Release()
					if ierr != nil {
						fail("fast storage iterator at #%d a%d seek %x failed: %v", i, ai, seek, ierr)
					}
					if d := c22Compare(got, want); d != "" {
						fail("fast storage iterator at #%d a%d seek %x: %s\n got:%s\nwant:%s", i, ai, seek, d, c22Render(got), c22Render(want))
					}
					iterators++
					if d, ok := layer.(*diffLayer); ok {
						bin := d.newBinaryStorageIterator(a, seek)
						gotB, berr := c22Drain(bin, bin.Slot, 1000)
						bin.Release()
						if berr != nil {
							fail("binary storage iterator at #%d a%d seek %x failed: %v", i, ai, seek, berr)
						}
						if d := c22Compare(gotB, want); d != "" {
							fail("binary storage iterator at #%d a%d seek %x: %s\n got:%s\nwant:%s", i, ai, seek, d, c22Render(gotB), c22Render(want))
						}
						iterators++
					}
				}
			}
		}
		nt := recreated || seeksOnTombstone > 0
		c.NonTrivial(nt, strings.Join(trace, ";"))
		c.Classf("snap layers=%d", liveLayers-1)
		switch {
		case liveLayers == 1:
			c.Class("snap stack=disk-only")
		case diskIdx > 0:
			c.Class("snap stack=diffs+written-disk")
		default:
			c.Class("snap stack=diffs+empty-disk")
		}
		if recreated {
			c.Class("snap deleted-then-recreated-above")
		}
		if seeksOnTombstone > 0 {
			c.Class("snap seek-on-tombstone")
		}
		c.Sample(nt, func() any {
			return map[string]any{"layers": layers, "capEvery": capEvery, "capDepth": capDepth, "aggregatorMemoryLimit": aggregatorMemoryLimit,
				"live_layers": liveLayers, "iterators_checked": iterators, "seeks_on_tombstone": seeksOnTombstone, "steps": trace}
		})
	})
}
