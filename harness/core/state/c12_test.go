//go:build verif

package state

import (
	"bytes"
	"errors"
	"fmt"
	"math/big"
	"sort"
	"testing"

	"github.com/ethereum/go-ethereum/common"
	"github.com/ethereum/go-ethereum/core/rawdb"
	"github.com/ethereum/go-ethereum/core/types"
	"github.com/ethereum/go-ethereum/ethdb"
	"github.com/ethereum/go-ethereum/trie"
	"github.com/ethereum/go-ethereum/triedb"
	"pgregory.net/rapid"
	"verif.local/kit/refrlp"
	"verif.local/kit/reftrie"
	vs "verif.local/kit/stat"
)

// ---- model of a state: accounts with storage and code, reference tries ----

type c12Acct struct {
	nonce   uint64
	balance uint64
	code    []byte
	slots   map[common.Hash][]byte
}

type c12State struct {
	accts    map[common.Hash]*c12Acct
	acctRef  *reftrie.Result
	storRef  map[common.Hash]*reftrie.Result // by account hash
	codes    map[common.Hash][]byte          // by code hash
	leafRLP  map[common.Hash][]byte
	root     common.Hash
	nodeHash map[common.Hash]bool // every node hash of the state (account + storage tries)
}

func c12Nibbles(h common.Hash) []byte {
	out := make([]byte, 64)
	for i, b := range h {
		out[2*i], out[2*i+1] = b>>4, b&0x0f
	}
	return out
}

func (s *c12State) build() {
	s.storRef = map[common.Hash]*reftrie.Result{}
	s.codes = map[common.Hash][]byte{}
	s.leafRLP = map[common.Hash][]byte{}
	s.nodeHash = map[common.Hash]bool{}
	kv := map[string][]byte{}
	for h, a := range s.accts {
		skv := map[string][]byte{}
		for k, v := range a.slots {
			skv[string(k[:])] = v
		}
		sr := reftrie.Build(skv)
		s.storRef[h] = sr
		for nh := range sr.ByHash {
			s.nodeHash[common.Hash(nh)] = true
		}
		codeHash := types.EmptyCodeHash
		if len(a.code) > 0 {
			codeHash = common.Hash(reftrie.Keccak256(a.code))
			s.codes[codeHash] = a.code
		}
		leaf := refrlp.Encode(refrlp.L(refrlp.Uint(a.nonce), refrlp.BigInt(new(big.Int).SetUint64(a.balance)), refrlp.S(sr.Root[:]), refrlp.S(codeHash[:])))
		s.leafRLP[h] = leaf
		kv[string(h[:])] = leaf
	}
	s.acctRef = reftrie.Build(kv)
	for nh := range s.acctRef.ByHash {
		s.nodeHash[common.Hash(nh)] = true
	}
	s.root = common.Hash(s.acctRef.Root)
}

// writeAccountSubtrie writes every account-trie node whose path has the given prefix, and the
// complete storage tries and codes of every account below that prefix (a closed sub-state).
func (s *c12State) writeClosed(db ethdb.KeyValueStore, scheme string, prefix []byte) int {
	n := 0
	for p, blob := range s.acctRef.Nodes {
		if bytes.HasPrefix([]byte(p), prefix) {
			rawdb.WriteTrieNode(db, common.Hash{}, []byte(p), common.Hash(reftrie.Keccak256(blob)), blob, scheme)
			n++
		}
	}
	for h, a := range s.accts {
		if !bytes.HasPrefix(c12Nibbles(h), prefix) {
			continue
		}
		for p, blob := range s.storRef[h].Nodes {
			rawdb.WriteTrieNode(db, h, []byte(p), common.Hash(reftrie.Keccak256(blob)), blob, scheme)
			n++
		}
		if len(a.code) > 0 {
			rawdb.WriteCode(db, common.Hash(reftrie.Keccak256(a.code)), a.code)
		}
	}
	return n
}

// deleteUnder removes (path scheme) every account-trie node under prefix and every storage node
// of accounts whose hash lies under prefix, so that a closed target sub-state can be laid on top
// of an older version without leaving foreign nodes inside it.
func c12DeleteUnder(db ethdb.KeyValueStore, prefix []byte) {
	it := db.NewIterator(rawdb.TrieNodeAccountPrefix, nil)
	var dels [][]byte
	for it.Next() {
		if p := it.Key()[len(rawdb.TrieNodeAccountPrefix):]; bytes.HasPrefix(p, prefix) {
			dels = append(dels, common.CopyBytes(it.Key()))
		}
	}
	it.Release()
	it = db.NewIterator(rawdb.TrieNodeStoragePrefix, nil)
	for it.Next() {
		rest := it.Key()[len(rawdb.TrieNodeStoragePrefix):]
		if len(rest) >= 32 && bytes.HasPrefix(c12Nibbles(common.BytesToHash(rest[:32])), prefix) {
			dels = append(dels, common.CopyBytes(it.Key()))
		}
	}
	it.Release()
	for _, k := range dels {
		db.Delete(k)
	}
}

func c12GenState(rt *rapid.T, maxAcc int) *c12State {
	s := &c12State{accts: map[common.Hash]*c12Acct{}}
	nAcc := rapid.IntRange(1, maxAcc).Draw(rt, "nAcc")
	shared := rapid.SliceOfN(rapid.Byte(), 0, 3).Draw(rt, "sharedPrefix")
	codes := [][]byte{nil, nil, {0x60, 0x00}, {0x60, 0x01, 0x60, 0x02, 0x01}, bytes.Repeat([]byte{0x5b}, 40)}
	// a few storage layouts shared among accounts (identical storage tries = shared subtrees)
	nLayouts := rapid.IntRange(1, 3).Draw(rt, "nLayouts")
	layouts := make([]map[common.Hash][]byte, nLayouts)
	for i := range layouts {
		layouts[i] = map[common.Hash][]byte{}
		ns := rapid.SampledFrom([]int{0, 1, 2, 5, 12, 40}).Draw(rt, "nSlots")
		for j := 0; j < ns; j++ {
			var k common.Hash
			copy(k[:], rapid.SliceOfN(rapid.Byte(), 32, 32).Draw(rt, "slot"))
			if j%3 == 0 {
				k[0] = 0xaa // cluster
			}
			layouts[i][k] = rapid.SliceOfN(rapid.Byte(), 1, 33).Draw(rt, "val")
		}
	}
	for i := 0; i < nAcc; i++ {
		var h common.Hash
		copy(h[:], rapid.SliceOfN(rapid.Byte(), 32, 32).Draw(rt, "acct"))
		if rapid.Bool().Draw(rt, "prefixed") {
			copy(h[:], shared)
		}
		if h == (common.Hash{}) {
			h[31] = 1
		}
		a := &c12Acct{nonce: rapid.Uint64Range(0, 2).Draw(rt, "nonce"), balance: rapid.Uint64Range(0, 1000).Draw(rt, "bal"),
			code: codes[rapid.IntRange(0, len(codes)-1).Draw(rt, "code")], slots: map[common.Hash][]byte{}}
		switch rapid.IntRange(0, 3).Draw(rt, "storKind") {
		case 0: // none
		case 1, 2: // shared layout
			for k, v := range layouts[rapid.IntRange(0, nLayouts-1).Draw(rt, "layout")] {
				a.slots[k] = v
			}
		case 3: // own slots
			for j := rapid.IntRange(1, 4).Draw(rt, "own"); j > 0; j-- {
				var k common.Hash
				copy(k[:], rapid.SliceOfN(rapid.Byte(), 32, 32).Draw(rt, "oslot"))
				a.slots[k] = rapid.SliceOfN(rapid.Byte(), 1, 33).Draw(rt, "oval")
			}
		}
		s.accts[h] = a
	}
	s.build()
	return s
}

// older derives an older version of the state sharing structure with it.
func (s *c12State) older(rt *rapid.T) *c12State {
	o := &c12State{accts: map[common.Hash]*c12Acct{}}
	var order []common.Hash
	for h := range s.accts {
		order = append(order, h)
	}
	sort.Slice(order, func(i, j int) bool { return bytes.Compare(order[i][:], order[j][:]) < 0 })
	for _, h := range order {
		a := s.accts[h]
		switch rapid.IntRange(0, 5).Draw(rt, "oldKind") {
		case 0: // account did not exist yet
			continue
		case 1: // different balance
			c := *a
			c.balance++
			c.slots = a.slots
			o.accts[h] = &c
		case 2: // different storage
			c := *a
			c.slots = map[common.Hash][]byte{}
			for k, v := range a.slots {
				c.slots[k] = v
			}
			var k common.Hash
			copy(k[:], rapid.SliceOfN(rapid.Byte(), 32, 32).Draw(rt, "oldslot"))
			c.slots[k] = []byte{0x07}
			for k2 := range a.slots {
				delete(c.slots, k2)
				break
			}
			o.accts[h] = &c
		default:
			o.accts[h] = a
		}
	}
	// accounts that were deleted since
	for j := rapid.IntRange(0, 3).Draw(rt, "goneAccts"); j > 0; j-- {
		var h common.Hash
		copy(h[:], rapid.SliceOfN(rapid.Byte(), 32, 32).Draw(rt, "gone"))
		if _, ok := s.accts[h]; !ok && h != (common.Hash{}) {
			o.accts[h] = &c12Acct{nonce: 1, balance: 5, slots: map[common.Hash][]byte{{1}: {1}}}
		}
	}
	o.build()
	return o
}

type c12Req struct {
	path   string
	hash   common.Hash
	isCode bool
}

func TestVerifC12StateSync(t *testing.T) {
	st := vs.New("C12", t)
	vs.Check(t, 1, func(rt *rapid.T) {
		c := st.Case()
		scheme := rapid.SampledFrom([]string{rawdb.HashScheme, rawdb.PathScheme}).Draw(rt, "scheme")
		maxAcc := 30
		if vs.Thorough() {
			maxAcc = 80
		}
		target := c12GenState(rt, maxAcc)
		db := rawdb.NewMemoryDatabase()

		// --- pre-population (always closed: a present node implies its whole sub-state) ---
		prepop := rapid.SampledFrom([]string{"empty", "older", "partial", "older+partial", "complete"}).Draw(rt, "prepop")
		if prepop == "older" || prepop == "older+partial" {
			old := target.older(rt)
			old.writeClosed(db, scheme, nil)
		}
		if prepop == "partial" || prepop == "older+partial" {
			// a closed account sub-trie: pick the path of an existing account-trie node
			var paths []string
			for p := range target.acctRef.Nodes {
				paths = append(paths, p)
			}
			sort.Strings(paths)
			if len(paths) > 0 {
				for k := rapid.IntRange(1, 2).Draw(rt, "nPartial"); k > 0; k-- {
					p := []byte(paths[rapid.IntRange(0, len(paths)-1).Draw(rt, "partialPath")])
					if len(p) == 0 && len(paths) > 1 {
						continue // the whole trie: covered by "complete"
					}
					if scheme == rawdb.PathScheme {
						c12DeleteUnder(db, p)
					}
					target.writeClosed(db, scheme, p)
				}
			}
			// a complete storage trie + code of some account, without its account-trie path
			var hs []common.Hash
			for h := range target.accts {
				hs = append(hs, h)
			}
			sort.Slice(hs, func(i, j int) bool { return bytes.Compare(hs[i][:], hs[j][:]) < 0 })
			h := hs[rapid.IntRange(0, len(hs)-1).Draw(rt, "fullStorageOf")]
			if scheme == rawdb.PathScheme {
				it := db.NewIterator(append(append([]byte{}, rawdb.TrieNodeStoragePrefix...), h[:]...), nil)
				var dels [][]byte
				for it.Next() {
					dels = append(dels, common.CopyBytes(it.Key()))
				}
				it.Release()
				for _, k := range dels {
					db.Delete(k)
				}
			}
			for p, blob := range target.storRef[h].Nodes {
				rawdb.WriteTrieNode(db, h, []byte(p), common.Hash(reftrie.Keccak256(blob)), blob, scheme)
			}
		}
		if prepop == "complete" {
			target.writeClosed(db, scheme, nil)
		}
		// snapshot of what was present before the sync (for "nothing else requested")
		prePath := map[string][]byte{} // path scheme: full db key -> blob
		preHash := map[common.Hash]bool{}
		preCode := map[common.Hash]bool{}
		{
			it := db.NewIterator(nil, nil)
			for it.Next() {
				prePath[string(it.Key())] = common.CopyBytes(it.Value())
			}
			it.Release()
			for h := range target.nodeHash {
				if scheme == rawdb.HashScheme && rawdb.HasLegacyTrieNode(db, h) {
					preHash[h] = true
				}
			}
			for ch := range target.codes {
				if rawdb.HasCodeWithPrefix(db, ch) {
					preCode[ch] = true
				}
			}
		}

		// --- run the scheduler ---
		sched := NewStateSync(target.root, db, nil, scheme)
		var outstanding []c12Req
		requested := 0
		dupes, garbage := 0, 0
		totalItems := len(target.nodeHash) + len(target.codes)
		// path -> expected node for validation of requests
		lookupTarget := func(path string) ([]byte, bool) {
			p := []byte(path)
			if len(p) < 64 {
				b, ok := target.acctRef.Nodes[path]
				return b, ok
			}
			owner := common.BytesToHash(c12HexToBytes(p[:64]))
			sr, ok := target.storRef[owner]
			if !ok {
				return nil, false
			}
			b, ok := sr.Nodes[string(p[64:])]
			return b, ok
		}
		var delivered []c12Req
		maxRounds := 6*totalItems + 200
		rounds := 0
		for {
			rounds++
			if rounds > maxRounds {
				rt.Fatalf("sync did not terminate within %d rounds: pending=%d outstanding=%d", maxRounds, sched.Pending(), len(outstanding))
			}
			k := rapid.SampledFrom([]int{1, 2, 7, 100}).Draw(rt, "missingK")
			paths, hashes, codes := sched.Missing(k)
			for i, p := range paths {
				blob, ok := lookupTarget(p)
				if !ok {
					rt.Fatalf("scheduler requested node at path %x (hash %x) which is not a node path of the target state", p, hashes[i])
				}
				if common.Hash(reftrie.Keccak256(blob)) != hashes[i] {
					rt.Fatalf("scheduler requested path %x with hash %x, target node there has hash %x", p, hashes[i], reftrie.Keccak256(blob))
				}
				// nothing already present (and identical) before the sync may be requested
				if scheme == rawdb.HashScheme && preHash[hashes[i]] {
					rt.Fatalf("scheduler requested node %x that was already present locally (hash scheme)", hashes[i])
				}
				if scheme == rawdb.PathScheme {
					owner, inner := trie.ResolvePath([]byte(p))
					var key []byte
					if owner == (common.Hash{}) {
						key = append(append([]byte{}, rawdb.TrieNodeAccountPrefix...), inner...)
					} else {
						key = append(append(append([]byte{}, rawdb.TrieNodeStoragePrefix...), owner[:]...), inner...)
					}
					if pre, ok := prePath[string(key)]; ok && bytes.Equal(pre, blob) {
						rt.Fatalf("scheduler requested node at path %x that was already present and identical locally", p)
					}
				}
				outstanding = append(outstanding, c12Req{path: p, hash: hashes[i]})
				requested++
			}
			for _, ch := range codes {
				if _, ok := target.codes[ch]; !ok {
					rt.Fatalf("scheduler requested code %x which the target state does not reference", ch)
				}
				if preCode[ch] {
					rt.Fatalf("scheduler requested code %x that was already present locally", ch)
				}
				outstanding = append(outstanding, c12Req{hash: ch, isCode: true})
				requested++
			}
			if len(outstanding) == 0 {
				if sched.Pending() == 0 {
					break
				}
				continue
			}
			// deliver a drawn subset in a drawn order
			nDeliver := rapid.IntRange(1, len(outstanding)).Draw(rt, "nDeliver")
			for j := 0; j < nDeliver; j++ {
				idx := rapid.IntRange(0, len(outstanding)-1).Draw(rt, "pick")
				r := outstanding[idx]
				outstanding = append(outstanding[:idx], outstanding[idx+1:]...)
				action := rapid.SampledFrom([]string{"ok", "ok", "ok", "ok", "garbage-then-ok", "ok-then-dup"}).Draw(rt, "action")
				if action == "garbage-then-ok" && !r.isCode {
					// undecodable data: must be rejected, request stays open
					bad := rapid.SampledFrom([][]byte{{}, {0x01}, {0xc1, 0xc0}, {0xf8, 0x01}}).Draw(rt, "garbageBlob")
					if err := sched.ProcessNode(trie.NodeSyncResult{Path: r.path, Data: bad}); err == nil {
						rt.Fatalf("undecodable node data %x accepted for path %x", bad, r.path)
					}
					garbage++
				}
				var err error
				if r.isCode {
					err = sched.ProcessCode(trie.CodeSyncResult{Hash: r.hash, Data: target.codes[r.hash]})
				} else {
					blob, _ := lookupTarget(r.path)
					err = sched.ProcessNode(trie.NodeSyncResult{Path: r.path, Data: blob})
				}
				if err != nil {
					rt.Fatalf("honest delivery rejected (code=%v path=%x hash=%x): %v", r.isCode, r.path, r.hash, err)
				}
				delivered = append(delivered, r)
				if action == "ok-then-dup" {
					dupes++
					d := delivered[rapid.IntRange(0, len(delivered)-1).Draw(rt, "dupIdx")]
					var derr error
					if d.isCode {
						derr = sched.ProcessCode(trie.CodeSyncResult{Hash: d.hash, Data: target.codes[d.hash]})
					} else {
						blob, _ := lookupTarget(d.path)
						derr = sched.ProcessNode(trie.NodeSyncResult{Path: d.path, Data: blob})
					}
					if derr != nil && !errors.Is(derr, trie.ErrNotRequested) && !errors.Is(derr, trie.ErrAlreadyProcessed) {
						rt.Fatalf("duplicate delivery: unexpected error %v", derr)
					}
					if derr == nil {
						// a re-delivery can only be accepted if the same item is requested again
						// (e.g. the same code hash/path requested anew); tolerated.
						c.Class("dup-accepted")
					}
				}
			}
			if rapid.IntRange(0, 3).Draw(rt, "commitNow") == 0 {
				batch := db.NewBatch()
				if err := sched.Commit(batch); err != nil {
					rt.Fatalf("commit: %v", err)
				}
				if err := batch.Write(); err != nil {
					rt.Fatalf("batch write: %v", err)
				}
			}
		}
		batch := db.NewBatch()
		if err := sched.Commit(batch); err != nil {
			rt.Fatalf("final commit: %v", err)
		}
		batch.Write()

		// --- final oracle ---
		for ch, code := range target.codes {
			if got := rawdb.ReadCodeWithPrefix(db, ch); !bytes.Equal(got, code) {
				rt.Fatalf("code %x missing after sync", ch)
			}
		}
		if scheme == rawdb.HashScheme {
			for _, ref := range append([]*reftrie.Result{target.acctRef}, c12Refs(target)...) {
				for h, blob := range ref.ByHash {
					if got := rawdb.ReadLegacyTrieNode(db, common.Hash(h)); !bytes.Equal(got, blob) {
						rt.Fatalf("hash scheme: target node %x missing after sync", h)
					}
				}
			}
			// geth's own trie opens at the target root and yields exactly the model
			tdb := triedb.NewDatabase(db, triedb.HashDefaults)
			tr, err := trie.New(trie.StateTrieID(target.root), tdb)
			if err != nil {
				rt.Fatalf("open synced trie: %v", err)
			}
			nit, _ := tr.NodeIterator(nil)
			li := trie.NewIterator(nit)
			n := 0
			for li.Next() {
				if !bytes.Equal(target.leafRLP[common.BytesToHash(li.Key)], li.Value) {
					rt.Fatalf("synced account trie leaf %x differs from model", li.Key)
				}
				n++
			}
			if li.Err != nil || n != len(target.accts) {
				rt.Fatalf("synced account trie: %d leaves want %d err %v", n, len(target.accts), li.Err)
			}
			tdb.Close()
		} else {
			check := func(owner common.Hash, ref *reftrie.Result) {
				get := func(p []byte) []byte {
					if owner == (common.Hash{}) {
						return rawdb.ReadAccountTrieNode(db, p)
					}
					return rawdb.ReadStorageTrieNode(db, owner, p)
				}
				for p, blob := range ref.Nodes {
					if got := get([]byte(p)); !bytes.Equal(got, blob) {
						rt.Fatalf("path scheme: node of owner %x at path %x after sync is %x.., want target node", owner, p, got[:min(len(got), 8)])
					}
					// no node strictly inside an extension node's key range
					if key, ok := c12ExtensionKey(blob); ok {
						for i := 1; i < len(key); i++ {
							inner := append(append([]byte{}, p...), key[:i]...)
							if got := get(inner); len(got) != 0 {
								rt.Fatalf("path scheme: dangling node left at %x inside the key range of the extension at %x (owner %x)", inner, p, owner)
							}
						}
					}
				}
			}
			check(common.Hash{}, target.acctRef)
			for h, ref := range target.storRef {
				check(h, ref)
			}
		}
		nontrivial := prepop == "partial" || prepop == "older+partial" || dupes > 0 || garbage > 0
		c.Classf("scheme=%s", scheme)
		c.Classf("prepop=%s", prepop)
		if dupes > 0 {
			c.Class("duplicate-delivery")
		}
		if garbage > 0 {
			c.Class("garbage-delivery")
		}
		if requested == 0 {
			c.Class("nothing-requested")
		}
		desc := fmt.Sprintf("%s/%s/%x/%d/%d/%d", scheme, prepop, target.root[:6], requested, dupes, garbage)
		c.NonTrivial(nontrivial, desc)
		c.Sample(nontrivial, func() any {
			return map[string]any{"scheme": scheme, "prepopulated": prepop, "accounts": len(target.accts), "target_nodes": len(target.nodeHash),
				"codes": len(target.codes), "requested": requested, "duplicates": dupes, "garbage": garbage, "rounds": rounds, "root": fmt.Sprintf("%x", target.root)}
		})
	})
}

func c12Refs(s *c12State) []*reftrie.Result {
	var out []*reftrie.Result
	for _, r := range s.storRef {
		out = append(out, r)
	}
	return out
}

func c12HexToBytes(nib []byte) []byte {
	out := make([]byte, len(nib)/2)
	for i := range out {
		out[i] = nib[2*i]<<4 | nib[2*i+1]
	}
	return out
}

// c12ExtensionKey decodes a node blob with the reference RLP decoder and, if it is an
// extension node (2 items, hex-prefix flag without terminator, child is a 32-byte hash),
// returns its nibble key.
func c12ExtensionKey(blob []byte) ([]byte, bool) {
	it, err := refrlp.Decode(blob)
	if err != nil || !it.IsList || len(it.List) != 2 || it.List[0].IsList || len(it.List[0].Str) == 0 {
		return nil, false
	}
	hp := it.List[0].Str
	flag := hp[0] >> 4
	if flag&2 != 0 { // leaf
		return nil, false
	}
	if it.List[1].IsList || len(it.List[1].Str) != 32 {
		return nil, false
	}
	var key []byte
	if flag&1 == 1 {
		key = append(key, hp[0]&0x0f)
	}
	for _, b := range hp[1:] {
		key = append(key, b>>4, b&0x0f)
	}
	return key, true
}
