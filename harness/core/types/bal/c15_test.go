//go:build verif

package bal

import (
	"bytes"
	"fmt"
	"sort"
	"strings"
	"testing"

	"github.com/ethereum/go-ethereum/common"
	"github.com/ethereum/go-ethereum/params"
	"github.com/ethereum/go-ethereum/rlp"
	"github.com/holiman/uint256"
	"pgregory.net/rapid"
	"verif.local/kit/reftrie"
	vs "verif.local/kit/stat"
)

// ---- model: plain maps, rendered in the order the specification prescribes -------

type c15mAcct struct {
	writes map[common.Hash]map[uint32]common.Hash
	reads  map[common.Hash]bool
	bal    map[uint32]*uint256.Int
	nonce  map[uint32]uint64
	code   map[uint32][]byte
}

type c15Model map[common.Address]*c15mAcct

func (m c15Model) acct(a common.Address) *c15mAcct {
	if m[a] == nil {
		m[a] = &c15mAcct{writes: map[common.Hash]map[uint32]common.Hash{}, reads: map[common.Hash]bool{},
			bal: map[uint32]*uint256.Int{}, nonce: map[uint32]uint64{}, code: map[uint32][]byte{}}
	}
	return m[a]
}

// c15Op is one recorder call.
type c15Op struct {
	kind  int // 0 AccountRead 1 StorageRead 2 StorageWrite 3 Balance 4 Nonce 5 Code
	addr  common.Address
	slot  common.Hash
	idx   uint32
	val   common.Hash
	nonce uint64
	code  []byte
}

func (op c15Op) applyReal(b *ConstructionBlockAccessList) {
	switch op.kind {
	case 0:
		b.AccountRead(op.addr)
	case 1:
		b.StorageRead(op.addr, op.slot)
	case 2:
		b.StorageWrite(op.idx, op.addr, op.slot, op.val)
	case 3:
		b.BalanceChange(op.idx, op.addr, new(uint256.Int).SetBytes(op.val[:]))
	case 4:
		b.NonceChange(op.addr, op.idx, op.nonce)
	case 5:
		b.CodeChange(op.addr, op.idx, op.code)
	}
}

// applyModel: reads are a set, writes a map; "read and written" means written only
// (resolved when rendering, independent of call order).
func (op c15Op) applyModel(m c15Model) {
	a := m.acct(op.addr)
	switch op.kind {
	case 1:
		a.reads[op.slot] = true
	case 2:
		if a.writes[op.slot] == nil {
			a.writes[op.slot] = map[uint32]common.Hash{}
		}
		a.writes[op.slot][op.idx] = op.val
	case 3:
		a.bal[op.idx] = new(uint256.Int).SetBytes(op.val[:])
	case 4:
		a.nonce[op.idx] = op.nonce
	case 5:
		a.code[op.idx] = op.code
	}
}

func c15Idx[V any](m map[uint32]V) []uint32 {
	out := make([]uint32, 0, len(m))
	for i := range m {
		out = append(out, i)
	}
	sort.Slice(out, func(i, j int) bool { return out[i] < out[j] })
	return out
}

func c15Hashes[V any](m map[common.Hash]V) []common.Hash {
	out := make([]common.Hash, 0, len(m))
	for k := range m {
		out = append(out, k)
	}
	sort.Slice(out, func(i, j int) bool { return bytes.Compare(out[i][:], out[j][:]) < 0 })
	return out
}

func (m c15Model) render() string {
	var sb strings.Builder
	addrs := make([]common.Address, 0, len(m))
	for a := range m {
		addrs = append(addrs, a)
	}
	sort.Slice(addrs, func(i, j int) bool { return bytes.Compare(addrs[i][:], addrs[j][:]) < 0 })
	for _, a := range addrs {
		acc := m[a]
		fmt.Fprintf(&sb, "%x:\n", a)
		for _, k := range c15Hashes(acc.writes) {
			fmt.Fprintf(&sb, " w %x:", k)
			for _, i := range c15Idx(acc.writes[k]) {
				fmt.Fprintf(&sb, " %d=%x", i, acc.writes[k][i])
			}
			sb.WriteString("\n")
		}
		for _, k := range c15Hashes(acc.reads) {
			if _, written := acc.writes[k]; !written {
				fmt.Fprintf(&sb, " r %x\n", k)
			}
		}
		for _, i := range c15Idx(acc.bal) {
			fmt.Fprintf(&sb, " b %d=%x\n", i, acc.bal[i].Bytes32())
		}
		for _, i := range c15Idx(acc.nonce) {
			fmt.Fprintf(&sb, " n %d=%d\n", i, acc.nonce[i])
		}
		for _, i := range c15Idx(acc.code) {
			fmt.Fprintf(&sb, " c %d=%x\n", i, acc.code[i])
		}
	}
	return sb.String()
}

func c15Render(e *BlockAccessList) string {
	var sb strings.Builder
	for _, acc := range *e {
		fmt.Fprintf(&sb, "%x:\n", acc.Address)
		for _, sc := range acc.StorageChanges {
			fmt.Fprintf(&sb, " w %x:", sc.Slot.Bytes32())
			for _, c := range sc.SlotChanges {
				fmt.Fprintf(&sb, " %d=%x", c.BlockAccessIndex, c.PostValue.Bytes32())
			}
			sb.WriteString("\n")
		}
		for _, k := range acc.StorageReads {
			fmt.Fprintf(&sb, " r %x\n", k.Bytes32())
		}
		for _, c := range acc.BalanceChanges {
			fmt.Fprintf(&sb, " b %d=%x\n", c.BlockAccessIndex, c.PostBalance.Bytes32())
		}
		for _, c := range acc.NonceChanges {
			fmt.Fprintf(&sb, " n %d=%d\n", c.BlockAccessIndex, c.PostNonce)
		}
		for _, c := range acc.CodeChanges {
			fmt.Fprintf(&sb, " c %d=%x\n", c.BlockAccessIndex, c.NewCode)
		}
	}
	return sb.String()
}

// ---- generators -------------------------------------------------------------------

var (
	c15Addrs = []common.Address{
		common.HexToAddress("0x0000000000000000000000000000000000000001"),
		common.HexToAddress("0x00000000000000000000000000000000000000ff"),
		common.HexToAddress("0x0100000000000000000000000000000000000000"),
		common.HexToAddress("0xa100000000000000000000000000000000000001"),
		common.HexToAddress("0xa100000000000000000000000000000000000002"),
		common.HexToAddress("0xffffffffffffffffffffffffffffffffffffffff"),
	}
	c15Slots = []common.Hash{
		{},
		common.HexToHash("0x01"),
		common.HexToHash("0x0100"),
		common.HexToHash("0x80"),
		common.HexToHash("0x8000000000000000000000000000000000000000000000000000000000000000"),
		common.HexToHash("0xffffffffffffffffffffffffffffffffffffffffffffffffffffffffffffffff"),
	}
	c15Vals = []common.Hash{
		{},
		common.HexToHash("0x01"),
		common.HexToHash("0x7f"),
		common.HexToHash("0x80"),
		common.HexToHash("0xffffffffffffffffffffffffffffffffffffffffffffffffffffffffffffffff"),
	}
	c15CodePool = [][]byte{{}, {0x00}, {0x7f}, {0x80}, bytes.Repeat([]byte{0x5b}, 56), {0xef, 0x01, 0x00}}
)

func c15DrawOps(rt *rapid.T, txCount int) []c15Op {
	n := rapid.IntRange(0, 40).Draw(rt, "ops")
	ops := make([]c15Op, 0, n)
	for i := 0; i < n; i++ {
		op := c15Op{
			kind: rapid.SampledFrom([]int{0, 1, 1, 2, 2, 2, 3, 3, 4, 5}).Draw(rt, "kind"),
			addr: rapid.SampledFrom(c15Addrs).Draw(rt, "addr"),
			slot: rapid.SampledFrom(c15Slots).Draw(rt, "slot"),
			idx:  uint32(rapid.IntRange(0, txCount+1).Draw(rt, "idx")),
			val:  rapid.SampledFrom(c15Vals).Draw(rt, "val"),
		}
		op.nonce = rapid.SampledFrom([]uint64{0, 1, 127, 128, 1<<64 - 1}).Draw(rt, "nonce")
		op.code = c15CodePool[rapid.IntRange(0, len(c15CodePool)-1).Draw(rt, "code")]
		ops = append(ops, op)
	}
	return ops
}

func c15Build(ops []c15Op) (*ConstructionBlockAccessList, c15Model) {
	b, m := NewConstructionBlockAccessList(), c15Model{}
	for _, op := range ops {
		op.applyReal(b)
		op.applyModel(m)
	}
	return b, m
}

// c15CheckShape asserts the ordering rules directly on the encoding object.
func c15CheckShape(rt *rapid.T, e *BlockAccessList) {
	for i, acc := range *e {
		if i > 0 && bytes.Compare((*e)[i-1].Address[:], acc.Address[:]) >= 0 {
			rt.Fatalf("accounts not strictly ascending at %d: %x then %x", i, (*e)[i-1].Address, acc.Address)
		}
		written := map[common.Hash]bool{}
		for j, sc := range acc.StorageChanges {
			if j > 0 && acc.StorageChanges[j-1].Slot.Cmp(sc.Slot) >= 0 {
				rt.Fatalf("%x: written slots not strictly ascending at %d", acc.Address, j)
			}
			written[sc.Slot.Bytes32()] = true
			if len(sc.SlotChanges) == 0 {
				rt.Fatalf("%x: slot %x has an empty change list", acc.Address, sc.Slot.Bytes32())
			}
			for k := 1; k < len(sc.SlotChanges); k++ {
				if sc.SlotChanges[k-1].BlockAccessIndex >= sc.SlotChanges[k].BlockAccessIndex {
					rt.Fatalf("%x slot %x: indices not strictly ascending", acc.Address, sc.Slot.Bytes32())
				}
			}
		}
		for j, r := range acc.StorageReads {
			if j > 0 && acc.StorageReads[j-1].Cmp(r) >= 0 {
				rt.Fatalf("%x: read slots not strictly ascending at %d", acc.Address, j)
			}
			if written[r.Bytes32()] {
				rt.Fatalf("%x: slot %x listed both as read and as written", acc.Address, r.Bytes32())
			}
		}
		for k := 1; k < len(acc.BalanceChanges); k++ {
			if acc.BalanceChanges[k-1].BlockAccessIndex >= acc.BalanceChanges[k].BlockAccessIndex {
				rt.Fatalf("%x: balance indices not strictly ascending", acc.Address)
			}
		}
		for k := 1; k < len(acc.NonceChanges); k++ {
			if acc.NonceChanges[k-1].BlockAccessIndex >= acc.NonceChanges[k].BlockAccessIndex {
				rt.Fatalf("%x: nonce indices not strictly ascending", acc.Address)
			}
		}
		for k := 1; k < len(acc.CodeChanges); k++ {
			if acc.CodeChanges[k-1].BlockAccessIndex >= acc.CodeChanges[k].BlockAccessIndex {
				rt.Fatalf("%x: code indices not strictly ascending", acc.Address)
			}
		}
	}
}

func c15NonTrivial(e *BlockAccessList) bool {
	if len(*e) < 2 {
		return false
	}
	for _, acc := range *e {
		if len(acc.StorageReads) > 0 {
			return true
		}
		for _, sc := range acc.StorageChanges {
			if len(sc.SlotChanges) >= 2 {
				return true
			}
		}
	}
	return false
}

const c15GasLimit = 1 << 40

// c15RoundTrip checks encode -> decode -> encode and the hash.
func c15RoundTrip(rt *rapid.T, e *BlockAccessList, want string) []byte {
	blob, err := rlp.EncodeToBytes(e)
	if err != nil {
		rt.Fatalf("encode: %v", err)
	}
	var dec BlockAccessList
	if err := rlp.DecodeBytes(blob, &dec); err != nil {
		rt.Fatalf("decode of own encoding failed: %v\n%x", err, blob)
	}
	if got := c15Render(&dec); got != want {
		rt.Fatalf("decoded list differs\n--- decoded\n%s--- expected\n%s", got, want)
	}
	blob2, err := rlp.EncodeToBytes(&dec)
	if err != nil || !bytes.Equal(blob, blob2) {
		rt.Fatalf("RLP round trip not byte-identical (err=%v)\n%x\n%x", err, blob, blob2)
	}
	k := common.Hash(reftrie.Keccak256(blob))
	if h1, h2, h3 := e.Hash(), e.Hash(), dec.Hash(); h1 != k || h2 != k || h3 != k {
		rt.Fatalf("Hash()=%x/%x decoded=%x, keccak(encoding)=%x", h1, h2, h3, k)
	}
	return blob
}

// TestVerifC15Encoding: lists built through the public recorders in random order.
func TestVerifC15Encoding(t *testing.T) {
	st := vs.New("C15", t)
	vs.Check(t, 1, func(rt *rapid.T) {
		c := st.Case()
		txCount := rapid.IntRange(0, 5).Draw(rt, "txCount")
		ops := c15DrawOps(rt, txCount)
		b, m := c15Build(ops)
		want := m.render()
		enc := b.ToEncodingObj()
		if got := c15Render(enc); got != want {
			rt.Fatalf("ToEncodingObj differs from the model\n--- implementation\n%s--- model\n%s", got, want)
		}
		c15CheckShape(rt, enc)
		if err := enc.Validate(c15GasLimit, txCount); err != nil {
			rt.Fatalf("Validate rejects a list built through the recorders: %v\n%s", err, want)
		}
		blob := c15RoundTrip(rt, enc, want)
		var cb bytes.Buffer
		if err := b.EncodeRLP(&cb); err != nil || !bytes.Equal(cb.Bytes(), blob) {
			rt.Fatalf("ConstructionBlockAccessList.EncodeRLP differs from its encoding object (err=%v)", err)
		}
		// the same ops in another order give the same list when no (slot,index) or
		// (field,index) is recorded twice with different values
		perm := rapid.Permutation(ops).Draw(rt, "perm")
		type key struct {
			kind int
			a    common.Address
			s    common.Hash
			i    uint32
		}
		seen, conflict := map[key]string{}, false
		for _, op := range ops {
			if op.kind < 2 {
				continue
			}
			k := key{op.kind, op.addr, common.Hash{}, op.idx}
			if op.kind == 2 {
				k.s = op.slot
			}
			v := fmt.Sprintf("%x/%d/%x", op.val, op.nonce, op.code)
			if old, ok := seen[k]; ok && old != v {
				conflict = true
			}
			seen[k] = v
		}
		if !conflict {
			b2, _ := c15Build(perm)
			if got := c15Render(b2.ToEncodingObj()); got != want {
				rt.Fatalf("recording order changes the list\n--- permuted\n%s--- original\n%s", got, want)
			}
		}
		// Copy independence (both the construction list and the encoding object)
		cp, ecp := b.Copy(), enc.Copy()
		extra := c15Op{kind: 2, addr: c15Addrs[0], slot: c15Slots[1], idx: 0, val: c15Vals[4]}
		extra.applyReal(cp)
		c15Op{kind: 3, addr: c15Addrs[5], idx: 1, val: c15Vals[4]}.applyReal(cp)
		if got := c15Render(b.ToEncodingObj()); got != want {
			rt.Fatalf("mutating a Copy changed the original\n%s--- expected\n%s", got, want)
		}
		if got := c15Render(ecp); got != want {
			rt.Fatalf("BlockAccessList.Copy differs from the original")
		}
		for i := range *ecp {
			(*ecp)[i].Address[0] ^= 0xff
			for j := range (*ecp)[i].StorageChanges {
				(*ecp)[i].StorageChanges[j].Slot.SetAllOne()
				for k := range (*ecp)[i].StorageChanges[j].SlotChanges {
					(*ecp)[i].StorageChanges[j].SlotChanges[k].PostValue.SetAllOne()
				}
			}
			for j := range (*ecp)[i].StorageReads {
				(*ecp)[i].StorageReads[j].SetAllOne()
			}
			for j := range (*ecp)[i].BalanceChanges {
				(*ecp)[i].BalanceChanges[j].PostBalance.SetAllOne()
			}
			for j := range (*ecp)[i].CodeChanges {
				for k := range (*ecp)[i].CodeChanges[j].NewCode {
					(*ecp)[i].CodeChanges[j].NewCode[k] ^= 0xff
				}
			}
		}
		if got := c15Render(enc); got != want {
			rt.Fatalf("mutating BlockAccessList.Copy changed the original\n%s--- expected\n%s", got, want)
		}
		// Merge == recording the second half after the first
		cut := rapid.IntRange(0, len(ops)).Draw(rt, "cut")
		left, _ := c15Build(ops[:cut])
		right, _ := c15Build(ops[cut:])
		left.Merge(right)
		if got := c15Render(left.ToEncodingObj()); got != want {
			rt.Fatalf("Merge(first %d ops, rest) differs from recording all ops in sequence\n--- merged\n%s--- sequential\n%s", cut, got, want)
		}
		// Lookup vs linear scan
		lk := enc.Lookup()
		for _, a := range c15Addrs {
			for limit := uint32(0); limit <= uint32(txCount)+3; limit++ {
				acc := m[a]
				var (
					wb         *uint256.Int
					wn         uint64
					wc         []byte
					hb, hn, hc bool
				)
				if acc != nil {
					for _, i := range c15Idx(acc.bal) {
						if i < limit {
							wb, hb = acc.bal[i], true
						}
					}
					for _, i := range c15Idx(acc.nonce) {
						if i < limit {
							wn, hn = acc.nonce[i], true
						}
					}
					for _, i := range c15Idx(acc.code) {
						if i < limit {
							wc, hc = acc.code[i], true
						}
					}
				}
				gb, gn, gc, ghb, ghn, ghc := lk.AccountChanges(a, limit)
				if ghb != hb || ghn != hn || ghc != hc || (hb && gb.Cmp(wb) != 0) || (hn && gn != wn) || (hc && !bytes.Equal(gc, wc)) {
					rt.Fatalf("Lookup.AccountChanges(%x,%d)=(%v,%d,%x,%v,%v,%v) linear scan (%v,%d,%x,%v,%v,%v)", a, limit, gb, gn, gc, ghb, ghn, ghc, wb, wn, wc, hb, hn, hc)
				}
				if g, ok := lk.Code(a, limit); ok != hc || (hc && !bytes.Equal(g, wc)) {
					rt.Fatalf("Lookup.Code(%x,%d)=(%x,%v) linear scan (%x,%v)", a, limit, g, ok, wc, hc)
				}
				for _, s := range c15Slots {
					var (
						wv common.Hash
						hv bool
					)
					if acc != nil {
						for _, i := range c15Idx(acc.writes[s]) {
							if i < limit {
								wv, hv = acc.writes[s][i], true
							}
						}
					}
					if g, ok := lk.Storage(a, s, limit); ok != hv || g != wv {
						rt.Fatalf("Lookup.Storage(%x,%x,%d)=(%x,%v) linear scan (%x,%v)", a, s, limit, g, ok, wv, hv)
					}
				}
			}
		}
		nt := c15NonTrivial(enc)
		c.NonTrivial(nt, want)
		c.Classf("accounts=%d", len(*enc))
		if conflict {
			c.Class("same-index-recorded-twice")
		}
		c.Sample(nt, func() any { return map[string]any{"txCount": txCount, "list": want, "rlp": fmt.Sprintf("%x", blob)} })
	})
}

// ---- structural mutations ----------------------------------------------------------

type c15Mut struct {
	name  string
	apply func(e *BlockAccessList)
}

// c15Mutations lists the mutations applicable to e (each yields an invalid list).
func c15Mutations(e *BlockAccessList, txCount int) []c15Mut {
	var out []c15Mut
	beyond := uint32(txCount + 2)
	if len(*e) >= 2 {
		out = append(out, c15Mut{"accounts-unsorted", func(e *BlockAccessList) { (*e)[0], (*e)[1] = (*e)[1], (*e)[0] }})
	}
	if len(*e) >= 1 {
		out = append(out, c15Mut{"account-duplicated", func(e *BlockAccessList) {
			cp := (*e)[0].Copy()
			*e = append(BlockAccessList{cp}, *e...)
		}})
	}
	for i := range *e {
		i := i
		acc := &(*e)[i]
		if len(acc.StorageChanges) >= 2 {
			out = append(out, c15Mut{"slots-unsorted", func(e *BlockAccessList) {
				sc := (*e)[i].StorageChanges
				sc[0], sc[1] = sc[1], sc[0]
			}})
		}
		if len(acc.StorageChanges) >= 1 {
			out = append(out,
				c15Mut{"slot-duplicated", func(e *BlockAccessList) {
					a := &(*e)[i]
					cp := a.Copy()
					a.StorageChanges = append(cp.StorageChanges[:1], a.StorageChanges...)
				}},
				c15Mut{"slot-both-read-and-written", func(e *BlockAccessList) {
					a := &(*e)[i]
					s := a.StorageChanges[0].Slot.Clone()
					a.StorageReads = append(a.StorageReads, s)
					sort.Slice(a.StorageReads, func(x, y int) bool { return a.StorageReads[x].Cmp(a.StorageReads[y]) < 0 })
				}},
				c15Mut{"slot-empty-change-list", func(e *BlockAccessList) { (*e)[i].StorageChanges[0].SlotChanges = nil }},
				c15Mut{"slot-index-duplicated", func(e *BlockAccessList) {
					sc := &(*e)[i].StorageChanges[0]
					sc.SlotChanges = append(sc.SlotChanges, sc.SlotChanges[len(sc.SlotChanges)-1])
				}},
				c15Mut{"slot-index-beyond-tx-count", func(e *BlockAccessList) {
					sc := &(*e)[i].StorageChanges[0]
					sc.SlotChanges[len(sc.SlotChanges)-1].BlockAccessIndex = beyond
				}},
			)
			if len(acc.StorageChanges[0].SlotChanges) >= 2 {
				out = append(out, c15Mut{"slot-indices-unsorted", func(e *BlockAccessList) {
					w := (*e)[i].StorageChanges[0].SlotChanges
					w[0], w[1] = w[1], w[0]
				}})
			}
		}
		if len(acc.StorageReads) >= 2 {
			out = append(out, c15Mut{"reads-unsorted", func(e *BlockAccessList) {
				r := (*e)[i].StorageReads
				r[0], r[1] = r[1], r[0]
			}})
		}
		if len(acc.StorageReads) >= 1 {
			out = append(out, c15Mut{"read-duplicated", func(e *BlockAccessList) {
				a := &(*e)[i]
				a.StorageReads = append([]*uint256.Int{a.StorageReads[0].Clone()}, a.StorageReads...)
			}})
		}
		if len(acc.BalanceChanges) >= 1 {
			out = append(out,
				c15Mut{"balance-index-duplicated", func(e *BlockAccessList) {
					a := &(*e)[i]
					a.BalanceChanges = append(a.BalanceChanges, a.BalanceChanges[len(a.BalanceChanges)-1])
				}},
				c15Mut{"balance-index-beyond-tx-count", func(e *BlockAccessList) {
					a := &(*e)[i]
					a.BalanceChanges[len(a.BalanceChanges)-1].BlockAccessIndex = beyond
				}})
		}
		if len(acc.BalanceChanges) >= 2 {
			out = append(out, c15Mut{"balance-indices-unsorted", func(e *BlockAccessList) {
				b := (*e)[i].BalanceChanges
				b[0], b[1] = b[1], b[0]
			}})
		}
		if len(acc.NonceChanges) >= 1 {
			out = append(out,
				c15Mut{"nonce-index-duplicated", func(e *BlockAccessList) {
					a := &(*e)[i]
					a.NonceChanges = append(a.NonceChanges, a.NonceChanges[len(a.NonceChanges)-1])
				}},
				c15Mut{"nonce-index-beyond-tx-count", func(e *BlockAccessList) {
					a := &(*e)[i]
					a.NonceChanges[len(a.NonceChanges)-1].BlockAccessIndex = beyond
				}})
		}
		if len(acc.NonceChanges) >= 2 {
			out = append(out, c15Mut{"nonce-indices-unsorted", func(e *BlockAccessList) {
				n := (*e)[i].NonceChanges
				n[0], n[1] = n[1], n[0]
			}})
		}
		if len(acc.CodeChanges) >= 1 {
			out = append(out,
				c15Mut{"code-index-duplicated", func(e *BlockAccessList) {
					a := &(*e)[i]
					a.CodeChanges = append(a.CodeChanges, a.CodeChanges[len(a.CodeChanges)-1])
				}},
				c15Mut{"code-index-beyond-tx-count", func(e *BlockAccessList) {
					a := &(*e)[i]
					a.CodeChanges[len(a.CodeChanges)-1].BlockAccessIndex = beyond
				}},
				c15Mut{"code-oversized", func(e *BlockAccessList) {
					(*e)[i].CodeChanges[0].NewCode = make([]byte, params.MaxCodeSizeAmsterdam+1)
				}})
		}
		if len(acc.CodeChanges) >= 2 {
			out = append(out, c15Mut{"code-indices-unsorted", func(e *BlockAccessList) {
				cc := (*e)[i].CodeChanges
				cc[0], cc[1] = cc[1], cc[0]
			}})
		}
	}
	return out
}

// TestVerifC15Mutations: every structurally invalid variant of a valid list is
// rejected by decoding or by Validate; a list exceeding the size budget is rejected.
func TestVerifC15Mutations(t *testing.T) {
	st := vs.New("C15", t)
	vs.Check(t, 0.5, func(rt *rapid.T) {
		c := st.Case()
		txCount := rapid.IntRange(0, 5).Draw(rt, "txCount")
		b, m := c15Build(c15DrawOps(rt, txCount))
		enc := b.ToEncodingObj()
		if err := enc.Validate(c15GasLimit, txCount); err != nil {
			rt.Fatalf("Validate rejects a list built through the recorders: %v\n%s", err, m.render())
		}
		muts := c15Mutations(enc, txCount)
		if len(muts) == 0 {
			c.Class("nothing-to-mutate")
			return
		}
		// draw the kind first so that rare kinds are not drowned by frequent ones
		var names []string
		byName := map[string][]c15Mut{}
		for _, mu := range muts {
			if byName[mu.name] == nil {
				names = append(names, mu.name)
			}
			byName[mu.name] = append(byName[mu.name], mu)
		}
		sort.Strings(names)
		group := byName[rapid.SampledFrom(names).Draw(rt, "mutationKind")]
		mu := group[rapid.IntRange(0, len(group)-1).Draw(rt, "mutation")]
		bad := enc.Copy()
		mu.apply(bad)
		c.Fault()
		if err := bad.Validate(c15GasLimit, txCount); err == nil {
			rt.Fatalf("mutation %q accepted by Validate\n%s", mu.name, c15Render(bad))
		}
		blob, err := rlp.EncodeToBytes(bad)
		if err == nil {
			var dec BlockAccessList
			if err := rlp.DecodeBytes(blob, &dec); err == nil {
				if err := dec.Validate(c15GasLimit, txCount); err == nil {
					rt.Fatalf("mutation %q: encoding accepted by decode and Validate\n%s", mu.name, c15Render(&dec))
				}
			}
		}
		// the original is still fine (Copy is deep)
		if err := enc.Validate(c15GasLimit, txCount); err != nil {
			rt.Fatalf("mutating a copy invalidated the original: %v", err)
		}
		// size budget: items = accounts + written slots + read slots
		items := uint64(len(*enc))
		for _, a := range *enc {
			items += uint64(len(a.StorageChanges) + len(a.StorageReads))
		}
		if items > 0 {
			if err := enc.Validate(items*params.BALItemCost-1, txCount); err == nil {
				rt.Fatalf("list with %d items accepted under gas limit %d", items, items*params.BALItemCost-1)
			}
			if err := enc.Validate(items*params.BALItemCost, txCount); err != nil {
				rt.Fatalf("list with %d items rejected at gas limit %d: %v", items, items*params.BALItemCost, err)
			}
		}
		c.NonTrivial(true, mu.name+"|"+m.render())
		c.Class("mut:" + mu.name)
		c.Sample(true, func() any { return map[string]any{"mutation": mu.name, "list": c15Render(bad)} })
	})
}

// c15CheckBytes is the oracle for arbitrary input bytes: decoding and validation
// never panic, and whatever is accepted re-encodes to a fixed point with a stable hash.
func c15CheckBytes(t interface{ Fatalf(string, ...any) }, data []byte) (accepted bool) {
	var dec BlockAccessList
	if err := rlp.DecodeBytes(data, &dec); err != nil {
		return false
	}
	_ = dec.Validate(c15GasLimit, 4)
	blob, err := rlp.EncodeToBytes(&dec)
	if err != nil {
		t.Fatalf("decoded list does not encode: %v (input %x)", err, data)
	}
	var dec2 BlockAccessList
	if err := rlp.DecodeBytes(blob, &dec2); err != nil {
		t.Fatalf("re-encoding of an accepted input does not decode: %v (input %x)", err, data)
	}
	if c15Render(&dec) != c15Render(&dec2) {
		t.Fatalf("decode(encode(decode(x))) differs from decode(x) for %x", data)
	}
	blob2, _ := rlp.EncodeToBytes(&dec2)
	if !bytes.Equal(blob, blob2) {
		t.Fatalf("encoding is not a fixed point for %x", data)
	}
	if h := dec.Hash(); h != common.Hash(reftrie.Keccak256(blob)) {
		t.Fatalf("Hash()=%x, keccak(encoding)=%x", h, reftrie.Keccak256(blob))
	}
	dec.Lookup()
	return true
}

// TestVerifC15Bytes: byte-level mutations of valid encodings.
func TestVerifC15Bytes(t *testing.T) {
	st := vs.New("C15", t)
	vs.Check(t, 0.5, func(rt *rapid.T) {
		c := st.Case()
		b, _ := c15Build(c15DrawOps(rt, 4))
		blob, _ := rlp.EncodeToBytes(b.ToEncodingObj())
		data := append([]byte{}, blob...)
		kind := rapid.SampledFrom([]string{"flip", "truncate", "extend", "splice", "len+1", "len-1", "dup-tail"}).Draw(rt, "mutation")
		pos := 0
		if len(data) > 0 {
			pos = rapid.IntRange(0, len(data)-1).Draw(rt, "pos")
		}
		switch kind {
		case "flip":
			data[pos] ^= byte(1 << rapid.IntRange(0, 7).Draw(rt, "bit"))
		case "truncate":
			data = data[:pos]
		case "extend":
			data = append(data, rapid.SliceOfN(rapid.Byte(), 1, 4).Draw(rt, "tail")...)
		case "splice":
			ins := rapid.SliceOfN(rapid.Byte(), 1, 4).Draw(rt, "ins")
			data = append(append(append([]byte{}, data[:pos]...), ins...), data[pos:]...)
		case "len+1":
			data[pos]++
		case "len-1":
			data[pos]--
		case "dup-tail":
			data = append(data, data[pos:]...)
		}
		c.Fault()
		acc := c15CheckBytes(rt, data)
		c.NonTrivial(!bytes.Equal(data, blob), fmt.Sprintf("%s/%x", kind, data))
		c.Classf("bytes:%s accepted=%v", kind, acc)
	})
}

// FuzzVerifC15Decode feeds coverage-guided bytes to decode + Validate.
func FuzzVerifC15Decode(f *testing.F) {
	f.Add([]byte{0xc0})
	b := NewConstructionBlockAccessList()
	b.AccountRead(c15Addrs[0])
	b.StorageWrite(1, c15Addrs[3], c15Slots[1], c15Vals[2])
	b.StorageRead(c15Addrs[3], c15Slots[2])
	b.BalanceChange(1, c15Addrs[3], uint256.NewInt(5))
	b.NonceChange(c15Addrs[3], 2, 7)
	b.CodeChange(c15Addrs[5], 0, []byte{0x60, 0x00})
	blob, _ := rlp.EncodeToBytes(b.ToEncodingObj())
	f.Add(blob)
	f.Fuzz(func(t *testing.T, data []byte) {
		c15CheckBytes(t, data)
	})
}
