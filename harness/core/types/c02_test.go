//go:build verif

package types

// C02: transaction envelopes are canonical and hashes are stable.
//
// Reference side: a plain description of a transaction (c02Tx) is turned into an
// item tree and encoded by verif.local/kit/refrlp; hashes are computed with
// golang.org/x/crypto's Keccak. Nothing on the reference side uses the rlp
// package or the hashing code under test.
//
//   (a) constructed txs: MarshalBinary == reference bytes; Hash == keccak of the
//       reference bytes without sidecar; Size of the freshly constructed object ==
//       len(encoding); Unmarshal(Marshal) gives back equal fields; network form
//       (rlp list element) round trip; sidecar stripping; JSON round trip.
//   (b) bytes: every input accepted by UnmarshalBinary / rlp.DecodeBytes re-marshals
//       to exactly the input, hashes to keccak(input) (without sidecar), has
//       Size == len(input), and the decoded fields re-encoded by the reference
//       encoder give the input again.

import (
	"bytes"
	"encoding/json"
	"fmt"
	"math/big"
	"strings"
	"testing"

	"github.com/ethereum/go-ethereum/common"
	"github.com/ethereum/go-ethereum/crypto/kzg4844"
	"github.com/ethereum/go-ethereum/rlp"
	"github.com/holiman/uint256"
	"golang.org/x/crypto/sha3"
	"pgregory.net/rapid"
	"verif.local/kit/refrlp"
	vs "verif.local/kit/stat"
)

type c02Fataler interface {
	Fatalf(format string, args ...any)
}

// ---------------------------------------------------------------------------
// reference description of a transaction

type c02Sidecar struct {
	version     byte
	blobs       [][]byte // 131072 bytes each
	commitments [][]byte // 48 bytes each
	proofs      [][]byte // 48 bytes each
}

type c02Auth struct {
	chainID *big.Int
	addr    common.Address
	nonce   uint64
	v       uint8
	r, s    *big.Int
}

type c02Tx struct {
	typ        byte
	chainID    *big.Int // typed only
	nonce, gas uint64
	gasPrice   *big.Int // legacy, access list
	tip, cap   *big.Int // 1559-style
	to         *common.Address
	value      *big.Int
	data       []byte
	al         []c02Tuple
	blobCap    *big.Int
	blobHashes []common.Hash
	auths      []c02Auth
	v, r, s    *big.Int
	sidecar    *c02Sidecar
}

type c02Tuple struct {
	addr common.Address
	keys []common.Hash
}

func c02Keccak(parts ...[]byte) (h common.Hash) {
	k := sha3.NewLegacyKeccak256()
	for _, p := range parts {
		k.Write(p)
	}
	k.Sum(h[:0])
	return h
}

func c02AddrItem(a *common.Address) refrlp.Item {
	if a == nil {
		return refrlp.S(nil)
	}
	return refrlp.S(a[:])
}

func c02ALItem(al []c02Tuple) refrlp.Item {
	l := refrlp.Item{IsList: true, List: []refrlp.Item{}}
	for _, t := range al {
		keys := refrlp.Item{IsList: true, List: []refrlp.Item{}}
		for _, k := range t.keys {
			keys.List = append(keys.List, refrlp.S(k[:]))
		}
		l.List = append(l.List, refrlp.L(refrlp.S(t.addr[:]), keys))
	}
	return l
}

func c02BytesList(bs [][]byte) refrlp.Item {
	l := refrlp.Item{IsList: true, List: []refrlp.Item{}}
	for _, b := range bs {
		l.List = append(l.List, refrlp.Item{Str: b}) // no copy: blobs are large
	}
	return l
}

// inner returns the item of the signed transaction payload (without sidecar).
func (x *c02Tx) inner() refrlp.Item {
	u, b := refrlp.Uint, refrlp.BigInt
	switch x.typ {
	case LegacyTxType:
		return refrlp.L(u(x.nonce), b(x.gasPrice), u(x.gas), c02AddrItem(x.to), b(x.value), refrlp.S(x.data), b(x.v), b(x.r), b(x.s))
	case AccessListTxType:
		return refrlp.L(b(x.chainID), u(x.nonce), b(x.gasPrice), u(x.gas), c02AddrItem(x.to), b(x.value), refrlp.S(x.data), c02ALItem(x.al), b(x.v), b(x.r), b(x.s))
	case DynamicFeeTxType:
		return refrlp.L(b(x.chainID), u(x.nonce), b(x.tip), b(x.cap), u(x.gas), c02AddrItem(x.to), b(x.value), refrlp.S(x.data), c02ALItem(x.al), b(x.v), b(x.r), b(x.s))
	case BlobTxType:
		hashes := refrlp.Item{IsList: true, List: []refrlp.Item{}}
		for _, h := range x.blobHashes {
			hashes.List = append(hashes.List, refrlp.S(h[:]))
		}
		return refrlp.L(b(x.chainID), u(x.nonce), b(x.tip), b(x.cap), u(x.gas), c02AddrItem(x.to), b(x.value), refrlp.S(x.data), c02ALItem(x.al), b(x.blobCap), hashes, b(x.v), b(x.r), b(x.s))
	case SetCodeTxType:
		auths := refrlp.Item{IsList: true, List: []refrlp.Item{}}
		for _, a := range x.auths {
			auths.List = append(auths.List, refrlp.L(b(a.chainID), refrlp.S(a.addr[:]), u(a.nonce), u(uint64(a.v)), b(a.r), b(a.s)))
		}
		return refrlp.L(b(x.chainID), u(x.nonce), b(x.tip), b(x.cap), u(x.gas), c02AddrItem(x.to), b(x.value), refrlp.S(x.data), c02ALItem(x.al), auths, b(x.v), b(x.r), b(x.s))
	}
	panic("c02: bad type")
}

// encoding returns the reference binary envelope, with or without the sidecar.
func (x *c02Tx) encoding(withSidecar bool) []byte {
	in := x.inner()
	if x.typ == LegacyTxType {
		return refrlp.Encode(in)
	}
	if x.sidecar == nil || !withSidecar {
		return append([]byte{x.typ}, refrlp.Encode(in)...)
	}
	sc := x.sidecar
	var wrapper refrlp.Item
	if sc.version == 0 {
		wrapper = refrlp.L(in, c02BytesList(sc.blobs), c02BytesList(sc.commitments), c02BytesList(sc.proofs))
	} else {
		wrapper = refrlp.L(in, refrlp.Uint(uint64(sc.version)), c02BytesList(sc.blobs), c02BytesList(sc.commitments), c02BytesList(sc.proofs))
	}
	return append([]byte{x.typ}, refrlp.Encode(wrapper)...)
}

// hash is keccak over the envelope without sidecar.
func (x *c02Tx) hash() common.Hash { return c02Keccak(x.encoding(false)) }

func c02U256(v *big.Int) *uint256.Int {
	u, overflow := uint256.FromBig(v)
	if overflow {
		panic("c02: generator produced a value over 256 bits for a uint256 field")
	}
	return u
}

func c02Big(v *big.Int) *big.Int { return new(big.Int).Set(v) }

// txdata builds the TxData for NewTx.
func (x *c02Tx) txdata() TxData {
	var al AccessList
	if x.al != nil {
		al = AccessList{}
		for _, t := range x.al {
			tuple := AccessTuple{Address: t.addr}
			if t.keys != nil {
				tuple.StorageKeys = append([]common.Hash{}, t.keys...)
			}
			al = append(al, tuple)
		}
	}
	var to *common.Address
	if x.to != nil {
		cp := *x.to
		to = &cp
	}
	data := append([]byte(nil), x.data...)
	switch x.typ {
	case LegacyTxType:
		return &LegacyTx{Nonce: x.nonce, GasPrice: c02Big(x.gasPrice), Gas: x.gas, To: to, Value: c02Big(x.value), Data: data, V: c02Big(x.v), R: c02Big(x.r), S: c02Big(x.s)}
	case AccessListTxType:
		return &AccessListTx{ChainID: c02Big(x.chainID), Nonce: x.nonce, GasPrice: c02Big(x.gasPrice), Gas: x.gas, To: to, Value: c02Big(x.value), Data: data, AccessList: al, V: c02Big(x.v), R: c02Big(x.r), S: c02Big(x.s)}
	case DynamicFeeTxType:
		return &DynamicFeeTx{ChainID: c02Big(x.chainID), Nonce: x.nonce, GasTipCap: c02Big(x.tip), GasFeeCap: c02Big(x.cap), Gas: x.gas, To: to, Value: c02Big(x.value), Data: data, AccessList: al, V: c02Big(x.v), R: c02Big(x.r), S: c02Big(x.s)}
	case BlobTxType:
		tx := &BlobTx{ChainID: c02U256(x.chainID), Nonce: x.nonce, GasTipCap: c02U256(x.tip), GasFeeCap: c02U256(x.cap), Gas: x.gas, To: *to, Value: c02U256(x.value), Data: data, AccessList: al,
			BlobFeeCap: c02U256(x.blobCap), BlobHashes: append([]common.Hash(nil), x.blobHashes...), V: c02U256(x.v), R: c02U256(x.r), S: c02U256(x.s)}
		if sc := x.sidecar; sc != nil {
			gsc := sc.geth()
			tx.Sidecar = gsc
		}
		return tx
	case SetCodeTxType:
		tx := &SetCodeTx{ChainID: c02U256(x.chainID), Nonce: x.nonce, GasTipCap: c02U256(x.tip), GasFeeCap: c02U256(x.cap), Gas: x.gas, To: *to, Value: c02U256(x.value), Data: data, AccessList: al,
			V: c02U256(x.v), R: c02U256(x.r), S: c02U256(x.s)}
		if x.auths != nil {
			tx.AuthList = []SetCodeAuthorization{}
		}
		for _, a := range x.auths {
			tx.AuthList = append(tx.AuthList, SetCodeAuthorization{ChainID: *c02U256(a.chainID), Address: a.addr, Nonce: a.nonce, V: a.v, R: *c02U256(a.r), S: *c02U256(a.s)})
		}
		return tx
	}
	panic("c02: bad type")
}

// geth builds the package's sidecar object from the reference description.
func (sc *c02Sidecar) geth() *BlobTxSidecar {
	gsc := &BlobTxSidecar{Version: sc.version}
	for _, b := range sc.blobs {
		var blob kzg4844.Blob
		copy(blob[:], b)
		gsc.Blobs = append(gsc.Blobs, blob)
	}
	for _, c := range sc.commitments {
		var cm kzg4844.Commitment
		copy(cm[:], c)
		gsc.Commitments = append(gsc.Commitments, cm)
	}
	for _, p := range sc.proofs {
		var pr kzg4844.Proof
		copy(pr[:], p)
		gsc.Proofs = append(gsc.Proofs, pr)
	}
	return gsc
}

func c02FromAL(al AccessList) []c02Tuple {
	out := []c02Tuple{}
	for _, t := range al {
		out = append(out, c02Tuple{addr: t.Address, keys: append([]common.Hash{}, t.StorageKeys...)})
	}
	return out
}

func c02BigOrZero(v *big.Int) *big.Int {
	if v == nil {
		return new(big.Int)
	}
	return v
}

// c02FromTx extracts the fields of a decoded transaction (white-box) into the
// reference description.
func c02FromTx(tx *Transaction) *c02Tx {
	switch in := tx.inner.(type) {
	case *LegacyTx:
		return &c02Tx{typ: LegacyTxType, nonce: in.Nonce, gasPrice: c02BigOrZero(in.GasPrice), gas: in.Gas, to: in.To, value: c02BigOrZero(in.Value), data: in.Data,
			v: c02BigOrZero(in.V), r: c02BigOrZero(in.R), s: c02BigOrZero(in.S)}
	case *AccessListTx:
		return &c02Tx{typ: AccessListTxType, chainID: c02BigOrZero(in.ChainID), nonce: in.Nonce, gasPrice: c02BigOrZero(in.GasPrice), gas: in.Gas, to: in.To, value: c02BigOrZero(in.Value), data: in.Data,
			al: c02FromAL(in.AccessList), v: c02BigOrZero(in.V), r: c02BigOrZero(in.R), s: c02BigOrZero(in.S)}
	case *DynamicFeeTx:
		return &c02Tx{typ: DynamicFeeTxType, chainID: c02BigOrZero(in.ChainID), nonce: in.Nonce, tip: c02BigOrZero(in.GasTipCap), cap: c02BigOrZero(in.GasFeeCap), gas: in.Gas, to: in.To,
			value: c02BigOrZero(in.Value), data: in.Data, al: c02FromAL(in.AccessList), v: c02BigOrZero(in.V), r: c02BigOrZero(in.R), s: c02BigOrZero(in.S)}
	case *BlobTx:
		to := in.To
		x := &c02Tx{typ: BlobTxType, chainID: in.ChainID.ToBig(), nonce: in.Nonce, tip: in.GasTipCap.ToBig(), cap: in.GasFeeCap.ToBig(), gas: in.Gas, to: &to,
			value: in.Value.ToBig(), data: in.Data, al: c02FromAL(in.AccessList), blobCap: in.BlobFeeCap.ToBig(), blobHashes: in.BlobHashes,
			v: in.V.ToBig(), r: in.R.ToBig(), s: in.S.ToBig()}
		if sc := in.Sidecar; sc != nil {
			xs := &c02Sidecar{version: sc.Version}
			for i := range sc.Blobs {
				xs.blobs = append(xs.blobs, sc.Blobs[i][:])
			}
			for i := range sc.Commitments {
				xs.commitments = append(xs.commitments, sc.Commitments[i][:])
			}
			for i := range sc.Proofs {
				xs.proofs = append(xs.proofs, sc.Proofs[i][:])
			}
			x.sidecar = xs
		}
		return x
	case *SetCodeTx:
		to := in.To
		x := &c02Tx{typ: SetCodeTxType, chainID: in.ChainID.ToBig(), nonce: in.Nonce, tip: in.GasTipCap.ToBig(), cap: in.GasFeeCap.ToBig(), gas: in.Gas, to: &to,
			value: in.Value.ToBig(), data: in.Data, al: c02FromAL(in.AccessList), v: in.V.ToBig(), r: in.R.ToBig(), s: in.S.ToBig()}
		for _, a := range in.AuthList {
			x.auths = append(x.auths, c02Auth{chainID: a.ChainID.ToBig(), addr: a.Address, nonce: a.Nonce, v: a.V, r: a.R.ToBig(), s: a.S.ToBig()})
		}
		return x
	}
	panic(fmt.Sprintf("c02: unknown inner type %T", tx.inner))
}

// ---------------------------------------------------------------------------
// generators

var c02N, _ = new(big.Int).SetString("fffffffffffffffffffffffffffffffebaaedce6af48a03bbfd25e8cd0364141", 16)

func c02Pick(rt *rapid.T, label string, n int) int {
	x := rapid.Uint64().Draw(rt, label)
	x += 0x9e3779b97f4a7c15
	x = (x ^ (x >> 30)) * 0xbf58476d1ce4e5b9
	x = (x ^ (x >> 27)) * 0x94d049bb133111eb
	x ^= x >> 31
	return int(x % uint64(n))
}

func c02Fill(b []byte, seed uint64) {
	x := seed | 1
	for i := range b {
		x ^= x << 13
		x ^= x >> 7
		x ^= x << 17
		b[i] = byte(x >> 32)
	}
}

func c02GenBytes(rt *rapid.T, label string, max int) []byte {
	var n int
	switch c02Pick(rt, label+"-lenmode", 4) {
	case 0:
		n = 0
	case 1:
		n = rapid.IntRange(1, 8).Draw(rt, label+"-len")
	case 2:
		n = rapid.SampledFrom([]int{1, 31, 32, 33, 54, 55, 56, 57, 255, 256, 257, 1024}).Draw(rt, label+"-hlen")
	default:
		n = rapid.IntRange(0, max).Draw(rt, label+"-len2")
	}
	if n > max {
		n = max
	}
	b := make([]byte, n)
	if n == 0 {
		return b
	}
	c02Fill(b, rapid.Uint64().Draw(rt, label+"-seed"))
	switch c02Pick(rt, label+"-first", 6) {
	case 0:
		b[0] = 0
	case 1:
		b[0] = 0x7f
	case 2:
		b[0] = 0x80
	}
	return b
}

// c02GenBig draws a non-negative integer of at most maxBytes bytes.
func c02GenBig(rt *rapid.T, label string, maxBytes int) *big.Int {
	switch c02Pick(rt, label+"-mode", 5) {
	case 0:
		return new(big.Int)
	case 1:
		return new(big.Int).SetUint64(rapid.SampledFrom([]uint64{1, 27, 28, 35, 36, 37, 38, 127, 128, 255, 256, 1<<32 - 1, 1 << 32, 1<<63 - 1, 1<<64 - 1}).Draw(rt, label+"-small"))
	case 2:
		b := make([]byte, maxBytes)
		for i := range b {
			b[i] = 0xff
		}
		v := new(big.Int).SetBytes(b)
		if rapid.Bool().Draw(rt, label+"-max-1") {
			v.Sub(v, big.NewInt(1))
		}
		return v
	default:
		n := rapid.IntRange(1, maxBytes).Draw(rt, label+"-len")
		b := make([]byte, n)
		c02Fill(b, rapid.Uint64().Draw(rt, label+"-seed"))
		return new(big.Int).SetBytes(b)
	}
}

func c02GenUint64(rt *rapid.T, label string) uint64 {
	if rapid.Bool().Draw(rt, label+"-h") {
		return rapid.SampledFrom([]uint64{0, 1, 127, 128, 255, 256, 21000, 1<<32 - 1, 1 << 32, 1<<56 - 1, 1 << 56, 1<<63 - 1, 1 << 63, 1<<64 - 1}).Draw(rt, label+"-hv")
	}
	return rapid.Uint64().Draw(rt, label+"-v") >> uint(rapid.IntRange(0, 63).Draw(rt, label+"-sh"))
}

var c02AddrPool = []common.Address{
	{}, common.HexToAddress("0x0000000000000000000000000000000000000001"), common.HexToAddress("0xffffffffffffffffffffffffffffffffffffffff"),
	common.HexToAddress("0x00000000000000000000000000000000000000ff"), common.HexToAddress("0x8000000000000000000000000000000000000000"),
}

func c02GenAddr(rt *rapid.T, label string) common.Address {
	if rapid.Bool().Draw(rt, label+"-pool") {
		return c02AddrPool[c02Pick(rt, label+"-idx", len(c02AddrPool))]
	}
	var a common.Address
	c02Fill(a[:], rapid.Uint64().Draw(rt, label+"-seed"))
	return a
}

func c02GenHash(rt *rapid.T, label string) common.Hash {
	var h common.Hash
	switch c02Pick(rt, label+"-mode", 4) {
	case 0:
	case 1:
		h[31] = 1
	default:
		c02Fill(h[:], rapid.Uint64().Draw(rt, label+"-seed"))
	}
	return h
}

func c02GenAL(rt *rapid.T) []c02Tuple {
	n := rapid.IntRange(0, 3).Draw(rt, "al-n")
	if n == 0 {
		if rapid.Bool().Draw(rt, "al-nil") {
			return nil
		}
		return []c02Tuple{}
	}
	al := make([]c02Tuple, n)
	for i := range al {
		al[i].addr = c02GenAddr(rt, "al-addr")
		k := rapid.IntRange(0, 3).Draw(rt, "al-keys")
		if k > 0 || rapid.Bool().Draw(rt, "al-keys-empty-nonnil") {
			al[i].keys = []common.Hash{}
		}
		for j := 0; j < k; j++ {
			al[i].keys = append(al[i].keys, c02GenHash(rt, "al-key"))
		}
	}
	return al
}

// c02GenSig draws v, r, s; class "valid" satisfies the sanity check used by the
// JSON decoder, "zero" is an unsigned transaction.
func c02GenSig(rt *rapid.T, typ byte, maxBytes int) (v, r, s *big.Int, class string) {
	switch c02Pick(rt, "sig-class", 4) {
	case 0:
		return new(big.Int), new(big.Int), new(big.Int), "zero"
	case 1:
		return c02GenBig(rt, "sig-v", 9), c02GenBig(rt, "sig-r", maxBytes), c02GenBig(rt, "sig-s", maxBytes), "arbitrary"
	default:
		one := big.NewInt(1)
		rng := new(big.Int).Sub(c02N, one)
		draw := func(label string) *big.Int {
			switch c02Pick(rt, label+"-edge", 4) {
			case 0:
				return big.NewInt(1)
			case 1:
				return new(big.Int).Set(rng)
			default:
				b := make([]byte, 32)
				c02Fill(b, rapid.Uint64().Draw(rt, label+"-seed"))
				x := new(big.Int).SetBytes(b)
				return x.Add(x.Mod(x, rng), one)
			}
		}
		r, s = draw("sig-r"), draw("sig-s")
		parity := uint64(c02Pick(rt, "sig-parity", 2))
		if typ != LegacyTxType {
			return new(big.Int).SetUint64(parity), r, s, "valid"
		}
		switch c02Pick(rt, "sig-legacy", 3) {
		case 0:
			return new(big.Int).SetUint64(27 + parity), r, s, "valid"
		default:
			chain := c02GenChainID(rt, 8)
			if chain.Sign() == 0 {
				chain = big.NewInt(1)
			}
			v = new(big.Int).Lsh(chain, 1)
			v.Add(v, new(big.Int).SetUint64(35+parity))
			return v, r, s, "valid"
		}
	}
}

func c02GenChainID(rt *rapid.T, maxBytes int) *big.Int {
	switch c02Pick(rt, "chain-mode", 4) {
	case 0:
		return new(big.Int)
	case 1:
		return big.NewInt(1)
	case 2:
		return big.NewInt(1337)
	default:
		return c02GenBig(rt, "chain", maxBytes)
	}
}

func c02GenSidecar(rt *rapid.T, allowZeroBlobs bool) *c02Sidecar {
	sc := &c02Sidecar{version: byte(c02Pick(rt, "sc-version", 2))}
	nb := rapid.IntRange(1, 2).Draw(rt, "sc-blobs")
	if allowZeroBlobs && c02Pick(rt, "sc-zero", 8) == 0 {
		nb = 0
	}
	for i := 0; i < nb; i++ {
		b := make([]byte, 131072)
		switch c02Pick(rt, "blob-mode", 3) {
		case 0: // all zero
		default:
			c02Fill(b, rapid.Uint64().Draw(rt, "blob-seed"))
		}
		sc.blobs = append(sc.blobs, b)
	}
	mk := func(label string, n int) [][]byte {
		out := [][]byte{}
		for i := 0; i < n; i++ {
			b := make([]byte, 48)
			if c02Pick(rt, label+"-zero", 4) != 0 {
				c02Fill(b, rapid.Uint64().Draw(rt, label+"-seed"))
			}
			out = append(out, b)
		}
		return out
	}
	// counts need not match the number of blobs for the encoding
	nc, np := nb, nb
	if c02Pick(rt, "sc-mismatch", 4) == 0 {
		nc, np = rapid.IntRange(0, 3).Draw(rt, "sc-nc"), rapid.IntRange(0, 3).Draw(rt, "sc-np")
	}
	sc.commitments, sc.proofs = mk("sc-commit", nc), mk("sc-proof", np)
	return sc
}

// c02GenTx draws a transaction description. blobShare is the chance (in %) that a
// blob tx carries a sidecar.
func c02GenTx(rt *rapid.T, sidecarPct int, allowZeroBlobs bool) (*c02Tx, string) {
	return c02GenTxOf(rt, byte(c02Pick(rt, "type", 5)), sidecarPct, allowZeroBlobs)
}

// c02GenTxOf draws a transaction description of the given type.
func c02GenTxOf(rt *rapid.T, typ byte, sidecarPct int, allowZeroBlobs bool) (*c02Tx, string) {
	x := &c02Tx{typ: typ}
	wide := 40 // big.Int fields have no size limit in RLP
	if x.typ == BlobTxType || x.typ == SetCodeTxType {
		wide = 32
	}
	x.nonce, x.gas = c02GenUint64(rt, "nonce"), c02GenUint64(rt, "gas")
	x.value = c02GenBig(rt, "value", wide)
	x.data = c02GenBytes(rt, "data", 300)
	if c02Pick(rt, "data-nil", 8) == 0 && len(x.data) == 0 {
		x.data = nil
	}
	if x.typ == BlobTxType || x.typ == SetCodeTxType || c02Pick(rt, "to-nil", 3) != 0 {
		a := c02GenAddr(rt, "to")
		x.to = &a
	}
	var sigClass string
	x.v, x.r, x.s, sigClass = c02GenSig(rt, x.typ, wide)
	switch x.typ {
	case LegacyTxType:
		x.gasPrice = c02GenBig(rt, "gasprice", wide)
	case AccessListTxType:
		x.chainID, x.gasPrice, x.al = c02GenChainID(rt, wide), c02GenBig(rt, "gasprice", wide), c02GenAL(rt)
	default:
		x.chainID, x.tip, x.cap, x.al = c02GenChainID(rt, wide), c02GenBig(rt, "tip", wide), c02GenBig(rt, "cap", wide), c02GenAL(rt)
	}
	if x.typ == BlobTxType {
		x.blobCap = c02GenBig(rt, "blobcap", 32)
		n := rapid.IntRange(0, 3).Draw(rt, "blobhashes")
		if n > 0 || rapid.Bool().Draw(rt, "blobhashes-nonnil") {
			x.blobHashes = []common.Hash{}
		}
		for i := 0; i < n; i++ {
			h := c02GenHash(rt, "blobhash")
			if rapid.Bool().Draw(rt, "blobhash-v1") {
				h[0] = 1
			}
			x.blobHashes = append(x.blobHashes, h)
		}
		if c02Pick(rt, "sidecar", 100) < sidecarPct {
			x.sidecar = c02GenSidecar(rt, allowZeroBlobs)
		}
	}
	if x.typ == SetCodeTxType {
		n := rapid.IntRange(0, 3).Draw(rt, "auths")
		if n == 0 && rapid.Bool().Draw(rt, "auths-nonnil") {
			x.auths = []c02Auth{}
		}
		for i := 0; i < n; i++ {
			x.auths = append(x.auths, c02Auth{chainID: c02GenChainID(rt, 32), addr: c02GenAddr(rt, "auth-addr"), nonce: c02GenUint64(rt, "auth-nonce"),
				v: uint8(rapid.SampledFrom([]int{0, 1, 27, 127, 128, 255}).Draw(rt, "auth-v")), r: c02GenBig(rt, "auth-r", 32), s: c02GenBig(rt, "auth-s", 32)})
		}
	}
	return x, sigClass
}

// hasNilKeys reports whether some access tuple has a nil (not merely empty) key slice.
func (x *c02Tx) hasNilKeys() bool {
	for _, t := range x.al {
		if t.keys == nil {
			return true
		}
	}
	return false
}

// fits256 reports whether every integer field fits into 256 bits.
func (x *c02Tx) fits256() bool {
	for _, v := range []*big.Int{x.chainID, x.gasPrice, x.tip, x.cap, x.value, x.blobCap, x.v, x.r, x.s} {
		if v != nil && v.BitLen() > 256 {
			return false
		}
	}
	return true
}

func (x *c02Tx) typeName() string {
	n := [...]string{"legacy", "accesslist", "dynamicfee", "blob", "setcode"}[x.typ]
	if x.sidecar != nil {
		n += fmt.Sprintf("+sidecar-v%d", x.sidecar.version)
	}
	return n
}

func c02Hex(b []byte) string {
	if len(b) > 120 {
		return fmt.Sprintf("%x...(%d bytes)", b[:120], len(b))
	}
	return fmt.Sprintf("%x", b)
}

// ---------------------------------------------------------------------------
// oracles on a decoded transaction

// c02Ctx names the running test for known-finding gating (tests run one at a time).
var c02Ctx struct {
	test string
	st   *vs.S
}

// c02SkipKnown reports whether the trigger class is listed as a known finding for
// the running test ($VERIF_KNOWN_CLASSES, from known_findings.json); if so the
// caller skips exactly that assertion and one exclusion is counted. If it is not
// listed the assertion stays in force.
func c02SkipKnown(class string) bool {
	if !vs.Known(c02Ctx.test, class) {
		return false
	}
	if c02Ctx.st != nil {
		c02Ctx.st.Excluded()
	}
	return true
}

// c02NetworkForm returns the encoding of the transaction as an RLP list element
// (legacy: the list itself; typed: the envelope wrapped as an RLP string).
func c02NetworkForm(env []byte) []byte {
	if len(env) > 0 && env[0] >= 0xc0 {
		return env
	}
	return refrlp.EncodeString(env)
}

// c02ExpectedHash derives the hash the statement demands from accepted bytes:
// keccak(b), or for the blob form with sidecar keccak(type || first list element).
func c02ExpectedHash(t c02Fataler, b []byte, hasSidecar bool) common.Hash {
	if !hasSidecar {
		return c02Keccak(b)
	}
	h, err := refrlp.SplitHeader(b[1:])
	if err != nil || !h.IsList {
		t.Fatalf("VERIF-HARNESS-BUG: accepted sidecar tx %s is not a list: %v", c02Hex(b), err)
	}
	content := b[1+h.HeaderLen:]
	fh, err := refrlp.SplitHeader(content)
	if err != nil || !fh.IsList {
		t.Fatalf("VERIF-HARNESS-BUG: accepted sidecar tx %s has no inner list: %v", c02Hex(b), err)
	}
	return c02Keccak(b[:1], content[:fh.HeaderLen+fh.ContentLen])
}

// c02CheckAccepted asserts everything the statement says about a transaction
// that was decoded from the binary envelope b.
func c02CheckAccepted(t c02Fataler, tx *Transaction, b []byte, via string) *c02Tx {
	x := c02FromTx(tx)
	out, err := tx.MarshalBinary()
	if err != nil {
		t.Fatalf("%s: MarshalBinary of accepted tx %s failed: %v", via, c02Hex(b), err)
	}
	if !bytes.Equal(out, b) {
		t.Fatalf("%s: accepted input re-marshals differently\n in  %s\n out %s", via, c02Hex(b), c02Hex(out))
	}
	if sz := tx.Size(); sz != uint64(len(b)) {
		t.Fatalf("%s: accepted %s tx of %d bytes reports Size() = %d (input %s)", via, x.typeName(), len(b), sz, c02Hex(b))
	}
	want := c02ExpectedHash(t, b, x.sidecar != nil)
	if h := tx.Hash(); h != want {
		t.Fatalf("%s: accepted %s tx: Hash() = %x, keccak of the canonical bytes = %x (input %s)", via, x.typeName(), h, want, c02Hex(b))
	}
	if h := tx.Hash(); h != want { // cached path
		t.Fatalf("%s: second Hash() call = %x, want %x", via, h, want)
	}
	// independent canonicality: the decoded fields re-encoded by the reference give b
	if ref := x.encoding(true); !bytes.Equal(ref, b) {
		t.Fatalf("%s: accepted input is not the reference encoding of its decoded fields\n in  %s\n ref %s", via, c02Hex(b), c02Hex(ref))
	}
	// list-element form
	nf, err := rlp.EncodeToBytes(tx)
	if err != nil || !bytes.Equal(nf, c02NetworkForm(b)) {
		t.Fatalf("%s: EncodeRLP = %s, %v; want %s", via, c02Hex(nf), err, c02Hex(c02NetworkForm(b)))
	}
	var ibuf bytes.Buffer
	Transactions{tx}.EncodeIndex(0, &ibuf)
	if !bytes.Equal(ibuf.Bytes(), b) {
		t.Fatalf("%s: Transactions.EncodeIndex = %s, want %s", via, c02Hex(ibuf.Bytes()), c02Hex(b))
	}
	// sidecar stripping: same hash; size of the stripped tx is its own length
	if x.sidecar != nil {
		stripped := tx.WithoutBlobTxSidecar()
		sb, err := stripped.MarshalBinary()
		if err != nil || !bytes.Equal(sb, x.encoding(false)) {
			t.Fatalf("%s: WithoutBlobTxSidecar().MarshalBinary = %s, %v; want %s", via, c02Hex(sb), err, c02Hex(x.encoding(false)))
		}
		if stripped.Hash() != want {
			t.Fatalf("%s: WithoutBlobTxSidecar().Hash() = %x, with sidecar %x", via, stripped.Hash(), want)
		}
		// known finding "sidecar-zero-blobs": the size bookkeeping of WithoutBlobTxSidecar
		// is off for a sidecar without any blob
		if len(x.sidecar.blobs) > 0 || !c02SkipKnown("sidecar-zero-blobs") {
			if sz := stripped.Size(); sz != uint64(len(sb)) {
				cls := ""
				if len(x.sidecar.blobs) == 0 {
					cls = " [class sidecar-zero-blobs]"
				}
				t.Fatalf("%s%s: WithoutBlobTxSidecar().Size() = %d, its encoding has %d bytes (full tx %d bytes)", via, cls, sz, len(sb), len(b))
			}
		}
		if tx.BlobTxSidecar() == nil || stripped.BlobTxSidecar() != nil {
			t.Fatalf("%s: sidecar presence wrong after WithoutBlobTxSidecar", via)
		}
	} else if tx.WithoutBlobTxSidecar() != tx {
		t.Fatalf("%s: WithoutBlobTxSidecar on a tx without sidecar returned a different object", via)
	}
	return x
}

// c02TryBinary feeds b to UnmarshalBinary and, if accepted, checks the statement.
func c02TryBinary(t c02Fataler, b []byte) (*c02Tx, bool) {
	in := append([]byte{}, b...)
	tx := new(Transaction)
	if err := tx.UnmarshalBinary(in); err != nil {
		return nil, false
	}
	if !bytes.Equal(in, b) {
		t.Fatalf("UnmarshalBinary modified its input")
	}
	return c02CheckAccepted(t, tx, b, "UnmarshalBinary"), true
}

// c02TryNetwork feeds nb to rlp.DecodeBytes(*Transaction) (the list-element form).
func c02TryNetwork(t c02Fataler, nb []byte) (*c02Tx, bool) {
	tx := new(Transaction)
	if err := rlp.DecodeBytes(nb, tx); err != nil {
		return nil, false
	}
	// the envelope is the list itself (legacy) or the string content (typed)
	h, err := refrlp.SplitHeader(nb)
	if err != nil || h.HeaderLen+h.ContentLen != len(nb) {
		t.Fatalf("rlp.DecodeBytes accepted %s as a transaction but it is not one well-delimited canonical value: %v", c02Hex(nb), err)
	}
	env := nb
	if !h.IsList {
		env = nb[h.HeaderLen:]
	}
	x := c02CheckAccepted(t, tx, env, "DecodeRLP")
	re, err := rlp.EncodeToBytes(tx)
	if err != nil || !bytes.Equal(re, nb) {
		t.Fatalf("DecodeRLP: accepted %s re-encodes to %s (%v)", c02Hex(nb), c02Hex(re), err)
	}
	return x, true
}

// ---------------------------------------------------------------------------
// derived transactions: chains of WithBlobTxSidecar / WithoutBlobTxSidecar

// c02CheckDerived asserts the statement's clauses on a transaction obtained by
// attaching/replacing/stripping sidecars: its size is the length of its own
// encoding, its hash is unchanged, its encoding decodes back (passing the whole
// byte-level oracle) to a transaction of the same size, and stripping it gives a
// transaction that is consistent in the same way.
func c02CheckDerived(t c02Fataler, d *Transaction, wantHash common.Hash, via string) {
	enc, err := d.MarshalBinary()
	if err != nil {
		t.Fatalf("%s: MarshalBinary: %v", via, err)
	}
	if sz := d.Size(); sz != uint64(len(enc)) {
		t.Fatalf("%s: Size() = %d but the transaction's own encoding has %d bytes", via, sz, len(enc))
	}
	if h := d.Hash(); h != wantHash {
		t.Fatalf("%s: Hash() = %x, want %x (hash must not depend on the sidecar)", via, h, wantHash)
	}
	fresh := new(Transaction)
	if err := fresh.UnmarshalBinary(enc); err != nil {
		t.Fatalf("%s: encoding of the derived tx does not decode: %v", via, err)
	}
	c02CheckAccepted(t, fresh, enc, via+" -> fresh decode")
	if fresh.Size() != d.Size() {
		t.Fatalf("%s: Size() = %d, the same bytes decoded afresh report %d", via, d.Size(), fresh.Size())
	}
	stripped := d.WithoutBlobTxSidecar()
	sb, err := stripped.MarshalBinary()
	if err != nil {
		t.Fatalf("%s: stripped MarshalBinary: %v", via, err)
	}
	if sz := stripped.Size(); sz != uint64(len(sb)) {
		t.Fatalf("%s: WithoutBlobTxSidecar().Size() = %d, its encoding has %d bytes (with sidecar: Size %d, %d bytes)", via, sz, len(sb), d.Size(), len(enc))
	}
	if stripped.Hash() != wantHash || stripped.BlobTxSidecar() != nil {
		t.Fatalf("%s: stripped tx has hash %x (want %x) or still carries a sidecar", via, stripped.Hash(), wantHash)
	}
}

// c02DerivedChain applies a drawn chain of sidecar operations to a blob
// transaction and checks every (observed) intermediate and the final result.
// Whether an intermediate is observed matters: observing calls Size()/Hash() and
// thereby fills the caches the next step may carry over.
func c02DerivedChain(rt *rapid.T, tx *Transaction, origin string) (steps string) {
	if tx.Type() != BlobTxType {
		return ""
	}
	if sc := tx.BlobTxSidecar(); sc != nil && len(sc.Blobs) == 0 && c02SkipKnown("sidecar-zero-blobs") {
		return "" // the start object already carries the known size defect
	}
	wantHash := c02FromTx(tx).hash()
	cur := tx
	n := rapid.IntRange(1, 4).Draw(rt, "chain-len")
	steps = origin
	for i := 0; i < n; i++ {
		op := []string{"replace", "replace", "copy", "convert", "strip", "attach-after-strip"}[c02Pick(rt, "chain-op", 6)]
		have := cur.BlobTxSidecar()
		switch {
		case op == "strip":
			cur = cur.WithoutBlobTxSidecar()
		case op == "copy" && have != nil:
			cur = cur.WithBlobTxSidecar(have.Copy())
		case op == "convert" && have != nil:
			// the v0 <-> v1 conversion flow (eth_sendRawTransaction): same blobs and commitments,
			// other version, other number of proofs. (BlobTxSidecar.ToV1 itself needs valid KZG
			// blobs; only its effect on the object matters here.)
			conv := have.Copy()
			conv.Version = 1 - have.Version
			np := len(have.Blobs)
			if conv.Version == 1 {
				np = len(have.Blobs) * rapid.SampledFrom([]int{1, 2, kzg4844.CellProofsPerBlob}).Draw(rt, "chain-cellproofs")
			}
			conv.Proofs = make([]kzg4844.Proof, np)
			for j := range conv.Proofs {
				c02Fill(conv.Proofs[j][:], uint64(j)+rapid.Uint64().Draw(rt, "chain-proof-seed"))
			}
			cur = cur.WithBlobTxSidecar(conv)
		case op == "attach-after-strip":
			cur = cur.WithoutBlobTxSidecar().WithBlobTxSidecar(c02GenSidecar(rt, false).geth())
		default:
			cur = cur.WithBlobTxSidecar(c02GenSidecar(rt, false).geth())
			op = "replace"
		}
		steps += ">" + op
		if i == n-1 || rapid.Bool().Draw(rt, "chain-observe") {
			c02CheckDerived(rt, cur, wantHash, steps)
		}
	}
	return steps
}

// ---------------------------------------------------------------------------
// (a) constructed transactions

func c02SameBig(a, b *big.Int) bool { return a.Cmp(b) == 0 }

func c02CheckAccessors(t c02Fataler, tx *Transaction, x *c02Tx) {
	if tx.Type() != x.typ || tx.Nonce() != x.nonce || tx.Gas() != x.gas || !bytes.Equal(tx.Data(), x.data) || !c02SameBig(tx.Value(), x.value) {
		t.Fatalf("accessor mismatch (type/nonce/gas/data/value) for %s", c02Hex(x.encoding(false)))
	}
	if (tx.To() == nil) != (x.to == nil) || (x.to != nil && *tx.To() != *x.to) {
		t.Fatalf("To() mismatch: %v vs %v", tx.To(), x.to)
	}
	v, r, s := tx.RawSignatureValues()
	if !c02SameBig(v, x.v) || !c02SameBig(r, x.r) || !c02SameBig(s, x.s) {
		t.Fatalf("RawSignatureValues mismatch: %v %v %v vs %v %v %v", v, r, s, x.v, x.r, x.s)
	}
	switch x.typ {
	case LegacyTxType, AccessListTxType:
		if !c02SameBig(tx.GasPrice(), x.gasPrice) || !c02SameBig(tx.GasTipCap(), x.gasPrice) || !c02SameBig(tx.GasFeeCap(), x.gasPrice) {
			t.Fatalf("gas price accessors mismatch")
		}
	default:
		if !c02SameBig(tx.GasTipCap(), x.tip) || !c02SameBig(tx.GasFeeCap(), x.cap) || !c02SameBig(tx.GasPrice(), x.cap) {
			t.Fatalf("fee cap accessors mismatch")
		}
	}
	if x.typ != LegacyTxType && !c02SameBig(tx.ChainId(), x.chainID) {
		t.Fatalf("ChainId() = %v want %v", tx.ChainId(), x.chainID)
	}
	if got := c02FromAL(tx.AccessList()); !refrlp.Equal(c02ALItem(got), c02ALItem(x.al)) {
		t.Fatalf("AccessList() mismatch")
	}
	if x.typ == BlobTxType {
		if len(tx.BlobHashes()) != len(x.blobHashes) || !c02SameBig(tx.BlobGasFeeCap(), x.blobCap) {
			t.Fatalf("blob accessors mismatch")
		}
		for i, h := range tx.BlobHashes() {
			if h != x.blobHashes[i] {
				t.Fatalf("BlobHashes()[%d] mismatch", i)
			}
		}
	}
	if x.typ == SetCodeTxType && len(tx.SetCodeAuthorizations()) != len(x.auths) {
		t.Fatalf("SetCodeAuthorizations() length mismatch")
	}
}

func c02PropConstructed(st *vs.S) func(rt *rapid.T) {
	return func(rt *rapid.T) {
		var c *vs.Case
		if st != nil {
			c = st.Case()
		}
		sidecarPct := 30 // of blob txs (a fifth of all): ~6% of all cases carry 128-256 KiB
		x, sigClass := c02GenTx(rt, sidecarPct, true)
		want := x.encoding(true)
		wantHash := x.hash()
		zeroBlobSidecar := x.sidecar != nil && len(x.sidecar.blobs) == 0
		// known finding "sidecar-zero-blobs": cache-miss Size() of a blob tx whose sidecar has no blobs
		zeroSkip := zeroBlobSidecar && c02SkipKnown("sidecar-zero-blobs")

		// --- freshly constructed object: Size() on the cache-miss path first
		tx := NewTx(x.txdata())
		if !zeroSkip {
			if sz := tx.Size(); sz != uint64(len(want)) {
				cls := ""
				if zeroBlobSidecar {
					cls = " [class sidecar-zero-blobs]"
				}
				rt.Fatalf("fresh %s tx%s: Size() = %d, encoding has %d bytes (%s)", x.typeName(), cls, sz, len(want), c02Hex(want))
			}
		} else if st != nil {
			if sz := NewTx(x.txdata()).Size(); sz != uint64(len(want)) {
				st.Note("known finding sidecar-zero-blobs: freshly constructed blob tx with an empty sidecar reports Size()=%d, encoding has %d bytes", sz, len(want))
			}
		}
		got, err := tx.MarshalBinary()
		if err != nil {
			rt.Fatalf("MarshalBinary(%s): %v", x.typeName(), err)
		}
		if !bytes.Equal(got, want) {
			rt.Fatalf("%s tx: MarshalBinary differs from the reference encoding\n got  %s\n want %s", x.typeName(), c02Hex(got), c02Hex(want))
		}
		if h := tx.Hash(); h != wantHash {
			rt.Fatalf("%s tx: Hash() = %x, reference keccak = %x (%s)", x.typeName(), h, wantHash, c02Hex(x.encoding(false)))
		}
		// a second fresh object: Hash first, then Size (other cache order)
		tx2 := NewTx(x.txdata())
		if h := tx2.Hash(); h != wantHash {
			rt.Fatalf("%s tx: Hash() on fresh object = %x want %x", x.typeName(), h, wantHash)
		}
		if !zeroSkip && tx2.Size() != uint64(len(want)) {
			rt.Fatalf("%s tx: Size() after Hash() = %d want %d", x.typeName(), tx2.Size(), len(want))
		}
		c02CheckAccessors(rt, tx, x)

		// --- Unmarshal(Marshal(tx)) is field-equal and satisfies the byte-level statement
		dx, ok := c02TryBinary(rt, want)
		if !ok {
			rt.Fatalf("UnmarshalBinary rejects the encoding of a constructed %s tx: %s", x.typeName(), c02Hex(want))
		}
		if !bytes.Equal(dx.encoding(true), want) {
			rt.Fatalf("fields changed by Unmarshal(Marshal(tx)) for %s", c02Hex(want))
		}
		dtx := new(Transaction)
		if err := dtx.UnmarshalBinary(want); err != nil {
			rt.Fatalf("UnmarshalBinary: %v", err)
		}
		c02CheckAccessors(rt, dtx, x)
		if zeroSkip && st != nil {
			stripped := dtx.WithoutBlobTxSidecar()
			if sb, _ := stripped.MarshalBinary(); stripped.Size() != uint64(len(sb)) {
				st.Note("known finding sidecar-zero-blobs: blob tx decoded from bytes with an empty sidecar: WithoutBlobTxSidecar().Size()=%d, its encoding has %d bytes", stripped.Size(), len(sb))
			}
		}
		// --- network form
		if _, ok := c02TryNetwork(rt, c02NetworkForm(want)); !ok {
			rt.Fatalf("rlp.DecodeBytes rejects the list-element form of a constructed %s tx: %s", x.typeName(), c02Hex(c02NetworkForm(want)))
		}
		// --- a list of transactions (this one plus a small legacy one)
		small := (&c02Tx{typ: LegacyTxType, gasPrice: big.NewInt(1), value: new(big.Int), v: big.NewInt(27), r: big.NewInt(1), s: big.NewInt(1)}).encoding(true)
		listEnc := refrlp.WrapList(append(append([]byte{}, c02NetworkForm(want)...), small...))
		var txs Transactions
		if err := rlp.DecodeBytes(listEnc, &txs); err != nil || len(txs) != 2 {
			rt.Fatalf("decoding a Transactions list failed: %v (%d txs)", err, len(txs))
		}
		if re, err := rlp.EncodeToBytes(txs); err != nil || !bytes.Equal(re, listEnc) {
			rt.Fatalf("Transactions list re-encodes differently (%v)", err)
		}
		if txs[0].Hash() != wantHash || txs[0].Size() != uint64(len(want)) || txs[1].Size() != uint64(len(small)) {
			rt.Fatalf("Transactions list: hash/size of elements wrong: %x/%d/%d want %x/%d/%d", txs[0].Hash(), txs[0].Size(), txs[1].Size(), wantHash, len(want), len(small))
		}
		// --- sidecar handling on the constructed object
		if x.sidecar != nil {
			stripped := tx.WithoutBlobTxSidecar()
			if stripped.Hash() != wantHash {
				rt.Fatalf("WithoutBlobTxSidecar().Hash() differs")
			}
			sb, _ := stripped.MarshalBinary()
			if !bytes.Equal(sb, x.encoding(false)) {
				rt.Fatalf("WithoutBlobTxSidecar().MarshalBinary differs from the reference")
			}
			if !zeroSkip && stripped.Size() != uint64(len(sb)) {
				rt.Fatalf("constructed: WithoutBlobTxSidecar().Size() = %d, encoding %d bytes", stripped.Size(), len(sb))
			}
			// stripping a fresh object whose size was never computed
			fresh := NewTx(x.txdata()).WithoutBlobTxSidecar()
			if fresh.Size() != uint64(len(sb)) || fresh.Hash() != wantHash {
				rt.Fatalf("fresh.WithoutBlobTxSidecar(): Size %d Hash %x; want %d %x", fresh.Size(), fresh.Hash(), len(sb), wantHash)
			}
			// adding the sidecar back gives the full encoding again
			back := stripped.WithBlobTxSidecar(tx.BlobTxSidecar())
			bb, _ := back.MarshalBinary()
			if !bytes.Equal(bb, want) || back.Hash() != wantHash || (!zeroSkip && back.Size() != uint64(len(want))) {
				rt.Fatalf("WithBlobTxSidecar(WithoutBlobTxSidecar(tx)) differs: size %d want %d", back.Size(), len(want))
			}
		}
		// --- derived transactions: chains of sidecar replacement / stripping / re-attachment from
		// an object that was never sized, one whose Size()/Hash() were computed, or a decoded one
		chain := ""
		if x.typ == BlobTxType && rapid.IntRange(0, 2).Draw(rt, "chain") != 0 {
			switch c02Pick(rt, "chain-start", 3) {
			case 0:
				chain = c02DerivedChain(rt, NewTx(x.txdata()), "fresh")
			case 1:
				chain = c02DerivedChain(rt, tx, "sized")
			default:
				chain = c02DerivedChain(rt, dtx, "decoded")
			}
		}
		// --- JSON (signature-valid or unsigned inputs; consensus-shaped blob/auth lists)
		// (hexutil.Big, the JSON integer type, is documented to reject values over 256 bits)
		jsonOK := (sigClass == "valid" || sigClass == "zero") && x.fits256() &&
			(x.typ != BlobTxType || len(x.blobHashes) > 0) && (x.typ != SetCodeTxType || len(x.auths) > 0)
		nilKeysSkipped := false
		if jsonOK && x.hasNilKeys() && c02SkipKnown("json-nil-storagekeys") {
			// known finding "json-nil-storagekeys": a tuple built locally with a nil
			// StorageKeys slice marshals to "storageKeys":null, which UnmarshalJSON rejects
			jsonOK, nilKeysSkipped = false, true
			if st != nil {
				if js, err := tx.MarshalJSON(); err == nil && json.Unmarshal(js, new(Transaction)) != nil {
					st.Note("known finding json-nil-storagekeys: tx built with AccessTuple{StorageKeys: nil} marshals to JSON that UnmarshalJSON rejects (\"storageKeys\":null)")
				}
			}
		}
		if jsonOK {
			js, err := tx.MarshalJSON()
			if err != nil {
				rt.Fatalf("MarshalJSON(%s): %v", x.typeName(), err)
			}
			jtx := new(Transaction)
			if err := json.Unmarshal(js, jtx); err != nil {
				cls := ""
				if x.hasNilKeys() {
					cls = " [class json-nil-storagekeys]"
				}
				rt.Fatalf("UnmarshalJSON(MarshalJSON(%s tx)) failed%s: %v\n json %s", x.typeName(), cls, err, c02Trunc(string(js)))
			}
			if jtx.Hash() != wantHash {
				rt.Fatalf("JSON round trip changes the hash of a %s tx: %x -> %x", x.typeName(), wantHash, jtx.Hash())
			}
			jb, _ := jtx.MarshalBinary()
			if !bytes.Equal(jb, x.encoding(false)) {
				rt.Fatalf("JSON round trip changes fields of a %s tx\n before %s\n after  %s", x.typeName(), c02Hex(x.encoding(false)), c02Hex(jb))
			}
			if jtx.Size() != uint64(len(jb)) {
				rt.Fatalf("JSON-decoded tx Size() = %d, encoding %d", jtx.Size(), len(jb))
			}
			var m map[string]any
			if err := json.Unmarshal(js, &m); err != nil || m["hash"] != wantHash.Hex() {
				rt.Fatalf("JSON hash field = %v, want %s", m["hash"], wantHash.Hex())
			}
		}
		if c != nil {
			nt := (x.typ != LegacyTxType && len(x.al) > 0) || x.sidecar != nil
			c.Class("type:" + x.typeName())
			c.Class("sig:" + sigClass)
			if len(x.al) > 0 {
				c.Class("accesslist-nonempty")
			}
			if x.to == nil {
				c.Class("to-nil")
			}
			if jsonOK {
				c.Class("json-roundtrip")
			}
			if chain != "" {
				c.Class("derived-chain")
				c.Classf("derived-chain-start:%s", chain[:strings.Index(chain+">", ">")])
			}
			if zeroSkip {
				c.Class("excluded-known:sidecar-zero-blobs")
			} else if zeroBlobSidecar {
				c.Class("sidecar-zero-blobs")
			}
			if nilKeysSkipped {
				c.Class("excluded-known:json-nil-storagekeys")
			}
			c.NonTrivial(nt, string(c02Keccak(want).Bytes()))
			c.Sample(nt, func() any {
				return map[string]any{"type": x.typeName(), "sig": sigClass, "bytes": len(want), "envelope": c02Hex(x.encoding(false)), "hash": wantHash.Hex()}
			})
		}
	}
}

func c02Trunc(s string) string {
	if len(s) > 600 {
		return s[:600] + "..."
	}
	return s
}

func TestVerifC02Constructed(t *testing.T) {
	st := vs.New("C02", t)
	c02Ctx.test, c02Ctx.st = "TestVerifC02Constructed", st
	vs.Check(t, 1, c02PropConstructed(st))
}

// ---------------------------------------------------------------------------
// (b) mutated / forged / arbitrary byte strings

// c02MutateItem changes one node of the item tree of an envelope: integer with a
// leading zero, wider/narrower field, dropped/duplicated/added element,
// string<->list swap.
func c02MutateItem(rt *rapid.T, it refrlp.Item, depth int) (refrlp.Item, string) {
	if it.IsList && len(it.List) > 0 && (depth == 0 || rapid.IntRange(0, 3).Draw(rt, "im-descend") != 0) {
		i := rapid.IntRange(0, len(it.List)-1).Draw(rt, "im-child")
		cp := refrlp.Item{IsList: true, List: append([]refrlp.Item{}, it.List...)}
		var what string
		cp.List[i], what = c02MutateItem(rt, cp.List[i], depth+1)
		return cp, what
	}
	if it.IsList {
		cp := refrlp.Item{IsList: true, List: append([]refrlp.Item{}, it.List...)}
		switch rapid.IntRange(0, 3).Draw(rt, "im-list") {
		case 0:
			if len(cp.List) > 0 {
				i := rapid.IntRange(0, len(cp.List)-1).Draw(rt, "im-drop")
				cp.List = append(cp.List[:i], cp.List[i+1:]...)
				return cp, "drop-elem"
			}
			cp.List = append(cp.List, refrlp.S(nil))
			return cp, "add-elem"
		case 1:
			if len(cp.List) > 0 {
				i := rapid.IntRange(0, len(cp.List)-1).Draw(rt, "im-dup")
				cp.List = append(cp.List[:i+1], cp.List[i:]...)
				return cp, "dup-elem"
			}
			cp.List = append(cp.List, refrlp.L())
			return cp, "add-elem"
		case 2:
			cp.List = append(cp.List, refrlp.S(c02GenBytes(rt, "im-extra", 33)))
			return cp, "add-elem"
		default:
			return refrlp.S(nil), "list-to-string"
		}
	}
	if len(it.Str) > 4096 {
		// blob-sized strings: cheap edits only
		switch rapid.IntRange(0, 1).Draw(rt, "im-blob") {
		case 0:
			return refrlp.Item{Str: it.Str[:len(it.Str)-1]}, "blob-shorter"
		default:
			return refrlp.Item{Str: append(append(make([]byte, 0, len(it.Str)+1), it.Str...), 0)}, "blob-longer"
		}
	}
	switch rapid.IntRange(0, 5).Draw(rt, "im-str") {
	case 0:
		return refrlp.S(append([]byte{0}, it.Str...)), "leading-zero"
	case 1:
		return refrlp.S(append(append([]byte{}, it.Str...), 0x01)), "wider-field"
	case 2:
		if len(it.Str) > 0 {
			return refrlp.S(it.Str[1:]), "narrower-field"
		}
		return refrlp.S([]byte{0}), "leading-zero"
	case 3:
		return refrlp.L(it), "string-to-list"
	case 4:
		w := rapid.SampledFrom([]int{1, 8, 9, 19, 20, 21, 31, 32, 33}).Draw(rt, "im-width")
		b := make([]byte, w)
		c02Fill(b, rapid.Uint64().Draw(rt, "im-width-seed"))
		return refrlp.S(b), "field-width"
	default:
		return refrlp.S(nil), "field-emptied"
	}
}

// c02SloppyEncode re-encodes the tree with one or more non-canonical headers.
func c02SloppyEncode(rt *rapid.T, it refrlp.Item) []byte {
	nodes := 0
	var count func(refrlp.Item)
	count = func(n refrlp.Item) {
		nodes++
		for _, c := range n.List {
			count(c)
		}
	}
	count(it)
	forced := rapid.IntRange(0, nodes-1).Draw(rt, "sl-node")
	if rapid.IntRange(0, 2).Draw(rt, "sl-top") == 0 {
		forced = nodes - 1 // EncodeForm asks for the outermost header last
	}
	idx := 0
	return refrlp.EncodeForm(it, func(n refrlp.Item, payloadLen int) refrlp.Form {
		me := idx
		idx++
		if me != forced {
			return refrlp.Form{}
		}
		switch rapid.IntRange(0, 2).Draw(rt, "sl-kind") {
		case 0:
			return refrlp.Form{Long: true}
		case 1:
			return refrlp.Form{Long: true, LenBytes: rapid.IntRange(2, 8).Draw(rt, "sl-lenbytes")}
		default:
			return refrlp.Form{WrapSingle: true, Long: !(!n.IsList && payloadLen == 1 && n.Str[0] < 0x80)}
		}
	})
}

// c02Mutate derives a (probably invalid) envelope from a valid one.
func c02Mutate(rt *rapid.T, x *c02Tx) ([]byte, string) {
	valid := x.encoding(true)
	body := valid
	prefix := []byte{}
	if x.typ != LegacyTxType {
		prefix, body = valid[:1], valid[1:]
	}
	mode := []string{"item", "item", "sloppy", "sloppy", "type-byte", "trailing", "truncate", "flip", "wrap-string", "unwrap-or-rewrap", "len+-1"}[c02Pick(rt, "mut-mode", 11)]
	switch mode {
	case "item":
		it, err := refrlp.Decode(body)
		if err != nil {
			panic("c02: reference cannot decode its own encoding")
		}
		it2, what := c02MutateItem(rt, it, 0)
		return append(append([]byte{}, prefix...), refrlp.Encode(it2)...), "item:" + what
	case "sloppy":
		it, _ := refrlp.Decode(body)
		enc := c02SloppyEncode(rt, it)
		if refrlp.Classify(enc) == refrlp.Canonical {
			return append(append([]byte{}, prefix...), enc...), "sloppy-noop"
		}
		return append(append([]byte{}, prefix...), enc...), "sloppy-header"
	case "type-byte":
		nb := rapid.SampledFrom([]byte{0x00, 0x01, 0x02, 0x03, 0x04, 0x05, 0x7f, 0x80, 0xc0}).Draw(rt, "mut-type")
		if len(prefix) == 0 {
			return append([]byte{nb}, body...), "type-byte-added"
		}
		return append([]byte{nb}, body...), "type-byte-changed"
	case "trailing":
		return append(append([]byte{}, valid...), c02GenBytes(rt, "mut-trail", 3)...), "trailing"
	case "truncate":
		n := len(valid) - 1 - rapid.IntRange(0, min(len(valid)-1, 40)).Draw(rt, "mut-cut")
		return append([]byte{}, valid[:n]...), "truncate"
	case "flip":
		out := append([]byte{}, valid...)
		// bias to the first 300 bytes (headers and small fields), not blob content
		i := rapid.IntRange(0, min(len(out), 300)-1).Draw(rt, "mut-pos")
		out[i] ^= 1 << uint(rapid.IntRange(0, 7).Draw(rt, "mut-bit"))
		return out, "flip"
	case "wrap-string":
		return refrlp.EncodeString(valid), "wrapped-as-rlp-string"
	case "unwrap-or-rewrap":
		// typed payload without the type byte, or a legacy tx with a type byte in front
		if len(prefix) == 1 {
			return append([]byte{}, body...), "type-byte-removed"
		}
		return append([]byte{0x02}, body...), "type-byte-added"
	default:
		out := append([]byte{}, valid...)
		i := rapid.IntRange(0, min(len(out)-1, 6)).Draw(rt, "mut-hpos")
		if rapid.Bool().Draw(rt, "mut-up") {
			out[i]++
		} else {
			out[i]--
		}
		return out, "len+-1"
	}
}

// c02ForgeSidecar builds blob-tx envelopes whose sidecar wrapper deviates from the
// two accepted layouts (v0: [tx, blobs, commitments, proofs]; v1: [tx, 1, blobs,
// commitments, proofs]). The last return value says whether the result is valid.
func c02ForgeSidecar(rt *rapid.T, x *c02Tx) ([]byte, string, bool) {
	sc := x.sidecar
	in := x.inner()
	blobs, comms, proofs := c02BytesList(sc.blobs), c02BytesList(sc.commitments), c02BytesList(sc.proofs)
	var w refrlp.Item
	what, valid := "", false
	switch c02Pick(rt, "sc-forge", 7) {
	case 0:
		w, what = refrlp.L(in, refrlp.S(nil), blobs, comms, proofs), "sidecar-version-0-in-v1-layout"
	case 1:
		v := rapid.SampledFrom([]uint64{2, 3, 0x7f, 0x80, 0xff, 0x100}).Draw(rt, "sc-forge-version")
		w, what = refrlp.L(in, refrlp.Uint(v), blobs, comms, proofs), "sidecar-version-unsupported"
	case 2:
		w, what = refrlp.L(in, refrlp.S([]byte{0, 1}), blobs, comms, proofs), "sidecar-version-leading-zero"
	case 3:
		w, what = refrlp.L(in, refrlp.Uint(1), blobs, comms), "sidecar-missing-list"
	case 4:
		w, what = refrlp.L(in, blobs, comms, proofs, refrlp.S(nil)), "sidecar-extra-elem"
	case 5:
		w, what = refrlp.L(in, refrlp.L(refrlp.Uint(1)), blobs, comms, proofs), "sidecar-version-as-list"
	default:
		// the same content under the other (valid) layout
		if sc.version == 0 {
			w = refrlp.L(in, refrlp.Uint(1), blobs, comms, proofs)
		} else {
			w = refrlp.L(in, blobs, comms, proofs)
		}
		what, valid = "sidecar-other-valid-layout", true
	}
	return append([]byte{BlobTxType}, refrlp.Encode(w)...), what, valid
}

func c02PropBytes(st *vs.S) func(rt *rapid.T) {
	return func(rt *rapid.T) {
		var c *vs.Case
		if st != nil {
			c = st.Case()
		}
		var b []byte
		var what string
		mode := []string{"mutated", "mutated", "mutated", "mutated", "mutated", "valid", "arbitrary", "arbitrary-typed", "sidecar-forged"}[c02Pick(rt, "mode", 9)]
		var x *c02Tx
		mustAccept := false
		switch mode {
		case "sidecar-forged":
			x, _ = c02GenTxOf(rt, BlobTxType, 100, true)
			b, what, mustAccept = c02ForgeSidecar(rt, x)
		case "valid":
			x, _ = c02GenTx(rt, 25, true)
			b = x.encoding(true)
		case "mutated":
			x, _ = c02GenTx(rt, 25, true)
			b, what = c02Mutate(rt, x)
		case "arbitrary":
			b = rapid.SliceOfN(rapid.Byte(), 0, 300).Draw(rt, "arbitrary")
		default:
			b = append([]byte{byte(rapid.IntRange(0, 5).Draw(rt, "arb-type"))}, refrlp.Encode(c02GenArbItem(rt, 2))...)
		}
		// binary envelope
		dx, accepted := c02TryBinary(rt, b)
		if (mode == "valid" || mustAccept) && !accepted {
			rt.Fatalf("valid %s envelope (%s %s) rejected: %s", x.typeName(), mode, what, c02Hex(b))
		}
		// derived transactions from a decoded blob tx (sidecar replaced / converted / stripped / re-attached)
		chain := ""
		if accepted && dx.typ == BlobTxType && rapid.Bool().Draw(rt, "chain") {
			dtx := new(Transaction)
			if err := dtx.UnmarshalBinary(b); err != nil {
				rt.Fatalf("second UnmarshalBinary of an accepted input failed: %v", err)
			}
			chain = c02DerivedChain(rt, dtx, "decoded")
		}
		// list-element form of the same bytes, plus forged string headers around typed payloads
		nb := c02NetworkForm(b)
		netMode := "canonical-wrap"
		if len(b) > 0 && b[0] < 0xc0 {
			switch c02Pick(rt, "net-mode", 6) {
			case 0:
				nb = refrlp.EncodeForm(refrlp.Item{Str: b}, func(refrlp.Item, int) refrlp.Form { return refrlp.Form{Long: true, WrapSingle: true} })
				netMode = "long-form-string-header"
			case 1:
				nb = refrlp.EncodeForm(refrlp.Item{Str: b}, func(refrlp.Item, int) refrlp.Form {
					return refrlp.Form{Long: true, LenBytes: 1 + rapid.IntRange(1, 7).Draw(rt, "net-lenbytes")}
				})
				netMode = "leading-zero-string-length"
			case 2:
				nb = b
				netMode = "unwrapped-typed"
			}
		}
		_, netAccepted := c02TryNetwork(rt, nb)
		if netMode == "canonical-wrap" && accepted != netAccepted {
			rt.Fatalf("binary and list-element decoding disagree on %s: UnmarshalBinary accepted=%v, rlp.DecodeBytes accepted=%v", c02Hex(b), accepted, netAccepted)
		}
		if netMode != "canonical-wrap" && netMode != "unwrapped-typed" && netAccepted && !bytes.Equal(nb, c02NetworkForm(b)) {
			rt.Fatalf("rlp.DecodeBytes accepted a typed tx behind a non-canonical string header: %s", c02Hex(nb))
		}
		if c != nil {
			c.Class("mode:" + mode)
			if what != "" {
				c.Class("mut:" + what)
			}
			c.Classf("accepted:%v", accepted)
			if accepted {
				c.Class("accepted-type:" + dx.typeName())
				if mode == "mutated" || mode == "sidecar-forged" {
					c.Class("mutated-but-accepted:" + what)
				}
			}
			c.Class("net:" + netMode)
			if chain != "" {
				c.Class("derived-chain")
			}
			forged := what == "sloppy-header" || ((netMode == "long-form-string-header" || netMode == "leading-zero-string-length") && !bytes.Equal(nb, c02NetworkForm(b)))
			forged = forged || (mode == "sidecar-forged" && !mustAccept)
			nt := ((mode == "mutated" || mode == "sidecar-forged") && accepted) || forged
			c.NonTrivial(nt, string(c02Keccak(b, []byte(netMode)).Bytes()))
			c.Sample(nt, func() any {
				return map[string]any{"mode": mode, "mutation": what, "input": c02Hex(b), "accepted": accepted, "network_form": netMode, "network_accepted": netAccepted}
			})
		}
	}
}

func c02GenArbItem(rt *rapid.T, depth int) refrlp.Item {
	if depth == 0 || rapid.IntRange(0, 2).Draw(rt, "arb-kind") == 0 {
		return refrlp.S(c02GenBytes(rt, "arb", 40))
	}
	n := rapid.IntRange(0, 14).Draw(rt, "arb-n")
	it := refrlp.Item{IsList: true, List: []refrlp.Item{}}
	for i := 0; i < n; i++ {
		it.List = append(it.List, c02GenArbItem(rt, depth-1))
	}
	return it
}

func TestVerifC02Bytes(t *testing.T) {
	st := vs.New("C02", t)
	c02Ctx.test, c02Ctx.st = "TestVerifC02Bytes", st
	vs.Check(t, 2.5, c02PropBytes(st))
}

// ---------------------------------------------------------------------------
// native fuzz targets

// FuzzVerifC02Unmarshal: raw bytes into UnmarshalBinary and the list-element decoder.
func FuzzVerifC02Unmarshal(f *testing.F) {
	c02Ctx.test, c02Ctx.st = "TestVerifC02Bytes", nil // same known-finding classes as the rapid test
	for _, s := range c02FuzzSeeds() {
		f.Add(s)
	}
	f.Fuzz(func(t *testing.T, data []byte) {
		if len(data) > 1<<20 {
			return
		}
		c02TryBinary(t, data)
		c02TryNetwork(t, data)
		c02TryNetwork(t, c02NetworkForm(data))
	})
}

// FuzzVerifC02Constructed drives the constructive property from fuzzer bytes.
func FuzzVerifC02Constructed(f *testing.F) {
	c02Ctx.test, c02Ctx.st = "TestVerifC02Constructed", nil
	f.Fuzz(rapid.MakeFuzz(c02PropConstructed(nil)))
}

func c02FuzzSeeds() [][]byte {
	one, zero := big.NewInt(1), new(big.Int)
	addr := common.HexToAddress("0x00000000000000000000000000000000000000aa")
	base := c02Tx{nonce: 1, gas: 21000, gasPrice: one, tip: one, cap: big.NewInt(2), to: &addr, value: zero, chainID: one, blobCap: one, v: one, r: one, s: one}
	var out [][]byte
	for typ := byte(0); typ <= 4; typ++ {
		x := base
		x.typ = typ
		if typ == LegacyTxType {
			x.v = big.NewInt(27)
		}
		if typ != LegacyTxType {
			x.al = []c02Tuple{{addr: addr, keys: []common.Hash{{1}}}}
		}
		if typ == BlobTxType {
			x.blobHashes = []common.Hash{{1, 2}}
		}
		if typ == SetCodeTxType {
			x.auths = []c02Auth{{chainID: one, addr: addr, nonce: 1, v: 1, r: one, s: one}}
		}
		out = append(out, x.encoding(true))
	}
	// a blob tx with a (short, invalid-size) sidecar shape to show the wrapper form
	out = append(out, []byte{0x03, 0xc4, 0xc0, 0xc0, 0xc0, 0xc0}, []byte{0x03, 0xc5, 0xc0, 0x01, 0xc0, 0xc0, 0xc0}, []byte{0x02}, []byte{0xc0}, []byte{})
	return out
}
