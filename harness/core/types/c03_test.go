//go:build verif

package types

import (
	"crypto/ecdsa"
	"errors"
	"fmt"
	"math/big"
	"testing"

	"github.com/ethereum/go-ethereum/common"
	"github.com/ethereum/go-ethereum/crypto"
	"github.com/ethereum/go-ethereum/params"
	"github.com/holiman/uint256"
	"pgregory.net/rapid"
	"verif.local/kit/refkeccak"
	"verif.local/kit/refsecp"
	vs "verif.local/kit/stat"
	"verif.local/kit/transcript"
)

// C03 (core/types part): for every tx type x signer x chain id, Sender(SignTx(tx))
// is the key's address when the signer supports the type (ErrTxTypeNotSupported
// otherwise); the signing hash ignores V,R,S; high-s, out-of-range r/s, bad v and
// foreign chain ids are rejected. Built with cgo and with CGO_ENABLED=0; both
// builds write a transcript (signed tx bytes, senders, error classes) which the
// driver compares.

var (
	c03N      = crypto.S256().Params().N
	c03HalfN  = new(big.Int).Rsh(crypto.S256().Params().N, 1)
	c03Two256 = new(big.Int).Lsh(big.NewInt(1), 256)
)

// c03RefSender is the sender an independent implementation (kit/refsecp: math/big
// secp256k1, kit/refkeccak) derives for signature values (r, s, recid) over a signing
// hash: address of Q = r^-1 (s*R - z*G). No low-s policy is applied by the reference.
func c03RefSender(sighash common.Hash, r, s *big.Int, recid byte) (common.Address, bool) {
	q, ok := refsecp.Recover(sighash[:], r, s, recid)
	if !ok {
		return common.Address{}, false
	}
	return common.BytesToAddress(refkeccak.Keccak256(refsecp.Uncompressed(q))[12:]), true
}

// c03VFor renders the V field of a tx of type typ for recovery id 0/1:
// typed txs carry the id itself, unprotected legacy 27+id, protected legacy 35+2c+id.
func c03VFor(typ byte, signedChain *big.Int, recid int) *big.Int {
	switch {
	case typ != LegacyTxType:
		return big.NewInt(int64(recid))
	case signedChain == nil:
		return big.NewInt(int64(27 + recid))
	default:
		v := new(big.Int).Lsh(signedChain, 1)
		return v.Add(v, big.NewInt(int64(35+recid)))
	}
}

// boundary values of s around the EIP-2 limit floor(n/2): the low ones are ordinary
// valid signatures (for the key the reference recovers), the high ones are malleable twins.
var (
	c03LowS = []struct {
		name string
		s    *big.Int
	}{
		{"s=n/2", c03HalfN}, {"s=n/2-1", new(big.Int).Sub(c03HalfN, big.NewInt(1))}, {"s=1", big.NewInt(1)}, {"s=2", big.NewInt(2)},
	}
	c03HighS = []struct {
		name string
		s    *big.Int
	}{
		{"s=n/2+1", new(big.Int).Add(c03HalfN, big.NewInt(1))}, {"s=n/2+2", new(big.Int).Add(c03HalfN, big.NewInt(2))}, {"s=n-1", new(big.Int).Sub(c03N, big.NewInt(1))},
	}
)

func c03Pow2(k uint, add int64) *big.Int {
	x := new(big.Int).Lsh(big.NewInt(1), k)
	return x.Add(x, big.NewInt(add))
}

// chain ids that fit a uint256 (usable with every tx type) ...
var c03ChainIDs = []*big.Int{
	big.NewInt(1), big.NewInt(2), big.NewInt(1337), c03Pow2(31, 0), c03Pow2(63, -1), c03Pow2(63, 0),
	c03Pow2(64, 5), c03Pow2(128, 1), c03Pow2(255, 3),
}

// ... and beyond 256 bits (only legacy / access-list / dynamic-fee carry a big.Int chain id).
var c03HugeChainIDs = []*big.Int{c03Pow2(256, 7), c03Pow2(300, 1)}

// signer fork ranks
const (
	c03Frontier = iota
	c03Homestead
	c03EIP155
	c03Berlin
	c03London
	c03Cancun
	c03Prague
)

var c03RankName = []string{"frontier", "homestead", "eip155", "berlin", "london", "cancun", "prague"}

func c03MinRank(typ byte) int {
	switch typ {
	case LegacyTxType:
		return c03Frontier
	case AccessListTxType:
		return c03Berlin
	case DynamicFeeTxType:
		return c03London
	case BlobTxType:
		return c03Cancun
	default:
		return c03Prague
	}
}

func c03Canonical(rank int, chain *big.Int) Signer {
	switch rank {
	case c03Frontier:
		return FrontierSigner{}
	case c03Homestead:
		return HomesteadSigner{}
	case c03EIP155:
		return NewEIP155Signer(chain)
	case c03Berlin:
		return NewEIP2930Signer(chain)
	case c03London:
		return NewLondonSigner(chain)
	case c03Cancun:
		return NewCancunSigner(chain)
	default:
		return NewPragueSigner(chain)
	}
}

// c03RankOf identifies a signer obtained from MakeSigner/LatestSigner* by probing
// Equal against the canonical constructors (no assumption about which fork the
// factory *should* pick).
func c03RankOf(s Signer, chain *big.Int) int {
	for r := c03Frontier; r <= c03Prague; r++ {
		if s.Equal(c03Canonical(r, chain)) {
			return r
		}
	}
	return -1
}

type c03SignerChoice struct {
	s     Signer
	rank  int
	chain *big.Int // nil for frontier/homestead
	how   string
	via   string
}

// c03DrawSigner draws a signer for chain id c (c >= 1) through one of the
// constructors / factories.
func c03DrawSigner(rt *rapid.T, c *big.Int, label string) c03SignerChoice {
	k := rapid.IntRange(0, 10).Draw(rt, label+"Ctor")
	switch k {
	case 0, 1, 2, 3, 4, 5, 6:
		ch := c03SignerChoice{s: c03Canonical(k, c), rank: k, how: "ctor-" + c03RankName[k], via: "constructor"}
		if k >= c03EIP155 {
			ch.chain = c
		}
		return ch
	case 7:
		return c03SignerChoice{s: LatestSignerForChainID(c), rank: c03Prague, chain: c, how: "LatestSignerForChainID", via: "LatestSignerForChainID"}
	case 8:
		return c03SignerChoice{s: LatestSignerForChainID(nil), rank: c03Homestead, how: "LatestSignerForChainID(nil)", via: "LatestSignerForChainID(nil)"}
	case 9:
		cfg := &params.ChainConfig{ChainID: c, HomesteadBlock: big.NewInt(10), EIP155Block: big.NewInt(20), BerlinBlock: big.NewInt(30), LondonBlock: big.NewInt(40)}
		ct, pt := uint64(1000), uint64(2000)
		cfg.CancunTime, cfg.PragueTime = &ct, &pt
		num := rapid.SampledFrom([]int64{0, 9, 10, 19, 20, 29, 30, 39, 40, 100}).Draw(rt, label+"Num")
		tm := rapid.SampledFrom([]uint64{0, 999, 1000, 1999, 2000, 5000}).Draw(rt, label+"Time")
		s := MakeSigner(cfg, big.NewInt(num), tm)
		r := c03RankOf(s, c)
		if r < 0 {
			rt.Fatalf("VERIF-HARNESS-BUG: MakeSigner result %T equals no canonical signer", s)
		}
		ch := c03SignerChoice{s: s, rank: r, how: fmt.Sprintf("MakeSigner(num=%d,time=%d)", num, tm), via: "MakeSigner"}
		if r >= c03EIP155 {
			ch.chain = c
		}
		return ch
	default:
		cfg := &params.ChainConfig{ChainID: c}
		upto := rapid.IntRange(c03Homestead, c03Prague).Draw(rt, label+"LatestUpTo")
		t0 := uint64(0)
		if upto >= c03EIP155 {
			cfg.EIP155Block = big.NewInt(0)
		}
		if upto >= c03Berlin {
			cfg.BerlinBlock = big.NewInt(0)
		}
		if upto >= c03London {
			cfg.LondonBlock = big.NewInt(0)
		}
		if upto >= c03Cancun {
			cfg.CancunTime = &t0
		}
		if upto >= c03Prague {
			cfg.PragueTime = &t0
		}
		s := LatestSigner(cfg)
		r := c03RankOf(s, c)
		if r < 0 {
			rt.Fatalf("VERIF-HARNESS-BUG: LatestSigner result %T equals no canonical signer", s)
		}
		ch := c03SignerChoice{s: s, rank: r, how: fmt.Sprintf("LatestSigner(upto=%s)", c03RankName[upto]), via: "LatestSigner"}
		if r >= c03EIP155 {
			ch.chain = c
		}
		return ch
	}
}

func c03Key(rt *rapid.T) (*ecdsa.PrivateKey, *big.Int) {
	var d *big.Int
	switch rapid.IntRange(0, 5).Draw(rt, "keyKind") {
	case 0:
		d = big.NewInt(rapid.SampledFrom([]int64{1, 2, 3}).Draw(rt, "keySmall"))
	case 1:
		d = new(big.Int).Sub(c03N, big.NewInt(rapid.SampledFrom([]int64{1, 2, 3}).Draw(rt, "keyTop")))
	default:
		d = new(big.Int).SetBytes(rapid.SliceOfN(rapid.Byte(), 32, 32).Draw(rt, "keyRaw"))
		d.Mod(d, new(big.Int).Sub(c03N, big.NewInt(1)))
		d.Add(d, big.NewInt(1))
	}
	buf := make([]byte, 32)
	d.FillBytes(buf)
	k, err := crypto.ToECDSA(buf)
	if err != nil {
		rt.Fatalf("VERIF-HARNESS-BUG: ToECDSA(%x): %v", d, err)
	}
	return k, d
}

func c03Big(rt *rapid.T, label string) *big.Int {
	switch rapid.IntRange(0, 3).Draw(rt, label+"Kind") {
	case 0:
		return new(big.Int)
	case 1:
		return big.NewInt(int64(rapid.IntRange(1, 1000).Draw(rt, label+"Small")))
	default:
		return new(big.Int).SetBytes(rapid.SliceOfN(rapid.Byte(), 1, 32).Draw(rt, label+"Raw"))
	}
}

func c03U256(rt *rapid.T, label string) *uint256.Int {
	return uint256.MustFromBig(c03Big(rt, label))
}

func c03Addr(rt *rapid.T, label string) common.Address {
	var a common.Address
	copy(a[:], rapid.SliceOfN(rapid.Byte(), 20, 20).Draw(rt, label))
	return a
}

func c03AccessList(rt *rapid.T) AccessList {
	n := rapid.IntRange(0, 2).Draw(rt, "alLen")
	var al AccessList
	for i := 0; i < n; i++ {
		t := AccessTuple{Address: c03Addr(rt, "alAddr")}
		for j := rapid.IntRange(0, 2).Draw(rt, "alKeys"); j > 0; j-- {
			t.StorageKeys = append(t.StorageKeys, common.BytesToHash(rapid.SliceOfN(rapid.Byte(), 32, 32).Draw(rt, "alKey")))
		}
		al = append(al, t)
	}
	return al
}

// c03DrawTx builds an unsigned transaction of the given type; innerChain is the
// chain id stored in the tx body for typed txs (nil = left unspecified).
func c03DrawTx(rt *rapid.T, typ byte, innerChain *big.Int) TxData {
	nonce := rapid.Uint64().Draw(rt, "nonce")
	gas := rapid.Uint64().Draw(rt, "gas")
	var to *common.Address
	if rapid.IntRange(0, 3).Draw(rt, "create") != 0 || typ >= BlobTxType {
		a := c03Addr(rt, "to")
		to = &a
	}
	data := rapid.SliceOfN(rapid.Byte(), 0, 40).Draw(rt, "data")
	switch typ {
	case LegacyTxType:
		return &LegacyTx{Nonce: nonce, GasPrice: c03Big(rt, "gasPrice"), Gas: gas, To: to, Value: c03Big(rt, "value"), Data: data}
	case AccessListTxType:
		return &AccessListTx{ChainID: innerChain, Nonce: nonce, GasPrice: c03Big(rt, "gasPrice"), Gas: gas, To: to, Value: c03Big(rt, "value"), Data: data, AccessList: c03AccessList(rt)}
	case DynamicFeeTxType:
		return &DynamicFeeTx{ChainID: innerChain, Nonce: nonce, GasTipCap: c03Big(rt, "tip"), GasFeeCap: c03Big(rt, "feeCap"), Gas: gas, To: to, Value: c03Big(rt, "value"), Data: data, AccessList: c03AccessList(rt)}
	case BlobTxType:
		tx := &BlobTx{Nonce: nonce, GasTipCap: c03U256(rt, "tip"), GasFeeCap: c03U256(rt, "feeCap"), Gas: gas, To: *to, Value: c03U256(rt, "value"), Data: data,
			AccessList: c03AccessList(rt), BlobFeeCap: c03U256(rt, "blobFee")}
		if innerChain != nil {
			tx.ChainID = uint256.MustFromBig(innerChain)
		}
		for j := rapid.IntRange(1, 2).Draw(rt, "blobs"); j > 0; j-- {
			h := common.BytesToHash(rapid.SliceOfN(rapid.Byte(), 32, 32).Draw(rt, "blobHash"))
			h[0] = 1
			tx.BlobHashes = append(tx.BlobHashes, h)
		}
		return tx
	default:
		tx := &SetCodeTx{Nonce: nonce, GasTipCap: c03U256(rt, "tip"), GasFeeCap: c03U256(rt, "feeCap"), Gas: gas, To: *to, Value: c03U256(rt, "value"), Data: data,
			AccessList: c03AccessList(rt)}
		if innerChain != nil {
			tx.ChainID = uint256.MustFromBig(innerChain)
		}
		for j := rapid.IntRange(0, 2).Draw(rt, "auths"); j > 0; j-- {
			tx.AuthList = append(tx.AuthList, SetCodeAuthorization{
				ChainID: *c03U256(rt, "authChain"), Address: c03Addr(rt, "authAddr"), Nonce: rapid.Uint64().Draw(rt, "authNonce"),
				V: uint8(rapid.IntRange(0, 1).Draw(rt, "authV")), R: *c03U256(rt, "authR"), S: *c03U256(rt, "authS"),
			})
		}
		return tx
	}
}

// c03WithRawSig returns a copy of tx with the signature fields overwritten
// (white-box); ok=false if the values do not fit the type's uint256 fields.
func c03WithRawSig(tx *Transaction, v, r, s *big.Int) (*Transaction, bool) {
	cpy := tx.inner.copy()
	fits := func(x *big.Int) bool { return x.Sign() >= 0 && x.Cmp(c03Two256) < 0 }
	switch in := cpy.(type) {
	case *LegacyTx:
		in.V, in.R, in.S = v, r, s
	case *AccessListTx:
		in.V, in.R, in.S = v, r, s
	case *DynamicFeeTx:
		in.V, in.R, in.S = v, r, s
	case *BlobTx:
		if !fits(v) || !fits(r) || !fits(s) {
			return nil, false
		}
		in.V, in.R, in.S = uint256.MustFromBig(v), uint256.MustFromBig(r), uint256.MustFromBig(s)
	case *SetCodeTx:
		if !fits(v) || !fits(r) || !fits(s) {
			return nil, false
		}
		in.V, in.R, in.S = uint256.MustFromBig(v), uint256.MustFromBig(r), uint256.MustFromBig(s)
	}
	return NewTx(cpy), true
}

// c03Fresh re-decodes the transaction from its canonical encoding (empty sender cache).
func c03Fresh(rt interface{ Fatalf(string, ...any) }, tx *Transaction) *Transaction {
	b, err := tx.MarshalBinary()
	if err != nil {
		rt.Fatalf("MarshalBinary: %v", err)
	}
	var out Transaction
	if err := out.UnmarshalBinary(b); err != nil {
		rt.Fatalf("UnmarshalBinary(MarshalBinary(tx)) failed: %v (tx %x)", err, b)
	}
	return &out
}

func c03ErrClass(err error) string {
	switch {
	case err == nil:
		return "ok"
	case errors.Is(err, ErrTxTypeNotSupported):
		return "unsupported-type"
	case errors.Is(err, ErrInvalidChainId):
		return "invalid-chain-id"
	case errors.Is(err, ErrInvalidSig):
		return "invalid-sig"
	default:
		return "err"
	}
}

func c03SenderStr(a common.Address, err error) string {
	if err != nil {
		return c03ErrClass(err)
	}
	return fmt.Sprintf("%x", a)
}

// c03ExpectCross: what Sender(s2, tx) must yield for a tx of type typ signed as
// (protected with chain `signedChain`, or unprotected if signedChain == nil).
// Returns "addr", or the error class.
func c03ExpectCross(typ byte, signedChain *big.Int, s2 c03SignerChoice) string {
	if s2.rank < c03MinRank(typ) {
		return "unsupported-type"
	}
	if typ == LegacyTxType {
		if signedChain == nil {
			return "addr" // unprotected legacy signatures are valid under every signer
		}
		if s2.chain == nil {
			return "anyerr" // replay-protected V under a pre-EIP155 signer is not a valid v
		}
	}
	if s2.chain.Cmp(signedChain) != 0 {
		return "invalid-chain-id"
	}
	return "addr"
}

func TestVerifC03SignRecover(t *testing.T) {
	st := vs.New("C03", t)
	tr := transcript.Open(t, "transcript.txt")
	n := 0
	vs.Check(t, 1, func(rt *rapid.T) {
		c := st.Case()
		n++
		id := n
		key, d := c03Key(rt)
		addr := crypto.PubkeyToAddress(key.PublicKey)
		// chain id and signer first, then a tx type the signer supports (80%) or any type (20%);
		// chain ids beyond 256 bits only go with the types that carry a big.Int chain id.
		pool, maxTyp := c03ChainIDs, SetCodeTxType
		if rapid.IntRange(0, 9).Draw(rt, "hugeChain") == 0 {
			pool, maxTyp = c03HugeChainIDs, DynamicFeeTxType
		}
		chain := pool[rapid.IntRange(0, len(pool)-1).Draw(rt, "chain")]
		sc := c03DrawSigner(rt, chain, "signer")
		var typ byte
		if rapid.IntRange(0, 4).Draw(rt, "anyType") == 0 {
			typ = byte(rapid.IntRange(0, maxTyp).Draw(rt, "txType"))
		} else {
			hi := 0
			for t := 0; t <= maxTyp; t++ {
				if c03MinRank(byte(t)) <= sc.rank {
					hi = t
				}
			}
			typ = byte(rapid.IntRange(0, hi).Draw(rt, "txTypeSupported"))
		}

		// chain id stored in the body of typed txs: unspecified / same / foreign
		var innerChain *big.Int
		innerKind := "n/a"
		if typ != LegacyTxType {
			switch rapid.IntRange(0, 3).Draw(rt, "innerChain") {
			case 0:
				innerKind = "unspecified"
			case 1:
				innerKind = "foreign"
				innerChain = new(big.Int).Add(chain, big.NewInt(1))
				if innerChain.Cmp(c03Two256) >= 0 && typ > DynamicFeeTxType {
					innerChain = big.NewInt(77)
				}
			default:
				innerKind = "same"
				innerChain = new(big.Int).Set(chain)
			}
		}
		unsigned := NewTx(c03DrawTx(rt, typ, innerChain))
		supports := sc.rank >= c03MinRank(typ)
		hashBefore := sc.s.Hash(unsigned)

		signed, err := SignTx(unsigned, sc.s, key)
		tr.Linef("%d sign type=%d signer=%s chain=%s inner=%s d=%x sighash=%x -> %s", id, typ, sc.how, chain, innerKind, d, hashBefore, c03ErrClass(err))
		class := fmt.Sprintf("type%d/%s", typ, c03RankName[sc.rank])
		c.Class(class)
		c.Class("via " + sc.via)
		desc := fmt.Sprintf("%d|%s|%s|%s|%x|%x", typ, sc.how, chain, innerKind, d, hashBefore)

		switch {
		case !supports:
			if !errors.Is(err, ErrTxTypeNotSupported) {
				rt.Fatalf("SignTx(type %d, %s signer): got (%v, %v), want ErrTxTypeNotSupported", typ, c03RankName[sc.rank], signed, err)
			}
			// an unsupported type is also refused on recovery, for a tx signed by a capable signer
			capable := NewPragueSigner(chain)
			var body TxData = unsigned.inner
			if innerKind == "foreign" {
				body = c03DrawTx(rt, typ, chain)
			}
			s2, err := SignTx(NewTx(body), capable, key)
			if err != nil {
				rt.Fatalf("SignTx with Prague signer failed: %v", err)
			}
			if got, err := Sender(sc.s, s2); !errors.Is(err, ErrTxTypeNotSupported) {
				rt.Fatalf("Sender(%s signer, type %d tx) = (%x, %v), want ErrTxTypeNotSupported", c03RankName[sc.rank], typ, got, err)
			}
			c.Class("unsupported type refused")
			c.NonTrivial(true, desc)
			return
		case innerKind == "foreign":
			if !errors.Is(err, ErrInvalidChainId) {
				rt.Fatalf("SignTx(type %d with body chain id %s, signer chain %s): got err %v, want ErrInvalidChainId", typ, innerChain, chain, err)
			}
			c.Class("foreign body chain id refused")
			c.NonTrivial(true, desc)
			return
		}
		if err != nil {
			rt.Fatalf("SignTx(type %d, signer %s chain %s) failed: %v", typ, sc.how, chain, err)
		}

		// 1. inverse
		bin, _ := signed.MarshalBinary()
		got, err := Sender(sc.s, signed)
		tr.Linef("%d signed=%x hash=%x sender=%s", id, bin, signed.Hash(), c03SenderStr(got, err))
		if err != nil || got != addr {
			rt.Fatalf("Sender(SignTx(tx)) = (%x, %v), want %x [type %d signer %s chain %s key %x tx %x]", got, err, addr, typ, sc.how, chain, d, bin)
		}
		// 2. signing hash independent of signature fields
		if h := sc.s.Hash(signed); h != hashBefore {
			rt.Fatalf("signer.Hash changed by WithSignature: %x -> %x [type %d signer %s]", hashBefore, h, typ, sc.how)
		}
		V, R, S := signed.RawSignatureValues()
		junkV := big.NewInt(int64(rapid.IntRange(0, 300).Draw(rt, "junkV")))
		junkR, junkS := c03Big(rt, "junkR"), c03Big(rt, "junkS")
		if over, ok := c03WithRawSig(signed, junkV, junkR, junkS); ok {
			if h := sc.s.Hash(over); h != hashBefore {
				rt.Fatalf("signer.Hash depends on V,R,S: %x -> %x after overwriting with (%v,%v,%v) [type %d signer %s]", hashBefore, h, junkV, junkR, junkS, typ, sc.how)
			}
		}
		// 3. chain id bookkeeping
		var signedChain *big.Int // nil = unprotected legacy
		if typ != LegacyTxType {
			signedChain = chain
			if signed.ChainId().Cmp(chain) != 0 {
				rt.Fatalf("signed typed tx has chain id %s, signer %s", signed.ChainId(), chain)
			}
		} else if sc.chain != nil {
			signedChain = chain
			if !signed.Protected() || signed.ChainId().Cmp(chain) != 0 {
				rt.Fatalf("legacy tx signed with %s chain %s: Protected=%v ChainId=%s V=%s", sc.how, chain, signed.Protected(), signed.ChainId(), V)
			}
		} else if signed.Protected() {
			rt.Fatalf("legacy tx signed with %s is replay-protected (V=%s)", sc.how, V)
		}
		// 4. independent of the sender cache: fresh decode
		fresh := c03Fresh(rt, signed)
		if got, err := Sender(sc.s, fresh); err != nil || got != addr {
			rt.Fatalf("Sender on re-decoded tx = (%x, %v), want %x [tx %x]", got, err, addr, bin)
		}
		if fresh.Hash() != signed.Hash() {
			rt.Fatalf("tx hash changed by re-decoding")
		}

		// 5. a second signer, first on the object whose cache was filled by sc.s, then fresh
		chain2 := chain
		if rapid.IntRange(0, 2).Draw(rt, "otherChain") == 0 {
			chain2 = c03ChainIDs[rapid.IntRange(0, len(c03ChainIDs)-1).Draw(rt, "chain2")]
		}
		s2 := c03DrawSigner(rt, chain2, "signer2")
		want := c03ExpectCross(typ, signedChain, s2)
		for i, obj := range []*Transaction{signed, c03Fresh(rt, signed)} {
			got, err := Sender(s2.s, obj)
			if i == 1 {
				tr.Linef("%d cross signer2=%s chain2=%s -> %s", id, s2.how, chain2, c03SenderStr(got, err))
			}
			okRes := false
			switch want {
			case "addr":
				okRes = err == nil && got == addr
			case "anyerr":
				okRes = err != nil && got == (common.Address{})
			default:
				okRes = c03ErrClass(err) == want && got == (common.Address{})
			}
			if !okRes {
				rt.Fatalf("Sender(%s chain %s) on tx signed by (%s chain %s) [cached=%v] = (%x, %v), want %s (addr %x) [type %d tx %x]",
					s2.how, chain2, sc.how, chain, i == 0, got, err, want, addr, typ, bin)
			}
		}
		c.Class("cross-signer expect " + want)

		// 6. strictness: mutate the valid signature, recover with the signer that made it
		mut := rapid.IntRange(0, 8).Draw(rt, "strict")
		var mv, mr, ms *big.Int = V, R, S
		mutClass := ""
		mustFail := true
		mustSucceed := false // Sender must return wantAddr
		wantAddr := addr     // address expected when recovery succeeds
		flipV := func(v *big.Int) *big.Int {
			switch {
			case typ != LegacyTxType: // 0 <-> 1
				return new(big.Int).Xor(v, big.NewInt(1))
			case signedChain == nil: // 27 <-> 28
				return big.NewInt(55 - v.Int64())
			default: // 35+2c <-> 36+2c
				base := new(big.Int).Add(new(big.Int).Lsh(chain, 1), big.NewInt(35))
				if v.Cmp(base) == 0 {
					return base.Add(base, big.NewInt(1))
				}
				return base
			}
		}
		hostile := []*big.Int{big.NewInt(0), c03N, new(big.Int).Add(c03N, big.NewInt(1)), new(big.Int).Sub(c03Two256, big.NewInt(1)), c03Two256, c03Pow2(264, 1)}
		switch mut {
		case 0:
			mutClass = "high-s"
			ms = new(big.Int).Sub(c03N, S)
			mv = flipV(V)
			if sc.rank == c03Frontier {
				mustFail = false // Frontier rules accept the upper half of s
				mutClass = "high-s under frontier"
			}
		case 1:
			mutClass = "r out of range"
			mr = hostile[rapid.IntRange(0, len(hostile)-1).Draw(rt, "hostileR")]
		case 2:
			mutClass = "s out of range"
			ms = hostile[rapid.IntRange(0, len(hostile)-1).Draw(rt, "hostileS")]
		case 3, 4:
			mutClass = "v unsupported"
			switch {
			case typ != LegacyTxType:
				mv = []*big.Int{big.NewInt(2), big.NewInt(3), big.NewInt(4), big.NewInt(27), big.NewInt(28), big.NewInt(228), big.NewInt(229), big.NewInt(255), big.NewInt(256), c03Pow2(64, 0), c03Pow2(64, 1)}[rapid.IntRange(0, 10).Draw(rt, "badVTyped")]
			case signedChain == nil:
				mv = []*big.Int{big.NewInt(0), big.NewInt(1), big.NewInt(2), big.NewInt(3), big.NewInt(4), big.NewInt(26), big.NewInt(29), big.NewInt(30), big.NewInt(34), big.NewInt(255), big.NewInt(256 + 27), c03Pow2(64, 27)}[rapid.IntRange(0, 11).Draw(rt, "badVLegacy")]
			default:
				base := new(big.Int).Add(new(big.Int).Lsh(chain, 1), big.NewInt(35))
				delta := rapid.SampledFrom([]int64{-2, -1, 2, 3, 4, 256}).Draw(rt, "badVDelta")
				mv = base.Add(base, big.NewInt(delta))
				if rapid.IntRange(0, 3).Draw(rt, "badVPlain") == 0 {
					mv = big.NewInt(rapid.SampledFrom([]int64{0, 1, 26, 29}).Draw(rt, "badVPlainVal"))
				}
			}
		case 5:
			mutClass = "unmodified signature via raw fields" // sanity: still recovers
			mustFail = false
			mustSucceed = true
		default:
			// (r of the genuine signature, chosen s at the low-s limit, either recovery id): ECDSA
			// recovery yields a key for any such triple, i.e. it IS a signature by that key. Low s
			// (<= floor(n/2)) must recover exactly the address an independent implementation derives;
			// s above the limit must be refused by every signer but Frontier.
			recid := rapid.IntRange(0, 1).Draw(rt, "boundaryRecid")
			mv = c03VFor(typ, signedChain, recid)
			if mut != 8 {
				b := c03LowS[0] // the limit itself: half of the low cases
				if rapid.Bool().Draw(rt, "lowSOther") {
					b = c03LowS[rapid.IntRange(1, len(c03LowS)-1).Draw(rt, "lowS")]
				}
				ms, mutClass = b.s, "boundary low "+b.name
				mustFail, mustSucceed = false, true
			} else {
				b := c03HighS[0]
				if rapid.Bool().Draw(rt, "highSOther") {
					b = c03HighS[rapid.IntRange(1, len(c03HighS)-1).Draw(rt, "highS")]
				}
				ms, mutClass = b.s, "boundary high "+b.name
				if sc.rank == c03Frontier {
					mustFail = false // full range under Frontier rules: an error or the reference address
					mutClass += " under frontier"
				}
			}
			ref, ok := c03RefSender(hashBefore, mr, ms, byte(recid))
			if !ok {
				rt.Fatalf("VERIF-HARNESS-BUG: reference recovery failed for r=%x s=%x recid=%d hash=%x", mr, ms, recid, hashBefore)
			}
			wantAddr = ref
		}
		if mtx, ok := c03WithRawSig(signed, mv, mr, ms); ok {
			if rapid.Bool().Draw(rt, "strictFresh") {
				mtx = c03Fresh(rt, mtx)
			}
			got, err := Sender(sc.s, mtx)
			tr.Linef("%d strict %s v=%s r=%x s=%x -> %s", id, mutClass, mv, mr, ms, c03SenderStr(got, err))
			if mustFail {
				if err == nil || got != (common.Address{}) {
					rt.Fatalf("strictness (%s): Sender accepted v=%s r=%x s=%x -> (%x, %v) [type %d signer %s chain %s tx %x]", mutClass, mv, mr, ms, got, err, typ, sc.how, chain, bin)
				}
			} else if err == nil && got != wantAddr {
				rt.Fatalf("(%s): Sender returned a foreign address %x (want %x) for v=%s r=%x s=%x [type %d signer %s chain %s sighash %x]", mutClass, got, wantAddr, mv, mr, ms, typ, sc.how, chain, hashBefore)
			} else if mustSucceed && err != nil {
				rt.Fatalf("(%s): Sender refused a valid signature v=%s r=%x s=%x: %v (want %x) [type %d signer %s chain %s sighash %x]", mutClass, mv, mr, ms, err, wantAddr, typ, sc.how, chain, hashBefore)
			}
			c.Class("strict: " + mutClass)
		} else {
			c.Class("strict: value does not fit uint256 field")
		}
		newer := sc.rank > c03MinRank(typ)
		if newer {
			c.Class("signer newer than the type's fork")
		}
		c.NonTrivial(newer || mustFail || mut >= 6 || want != "addr", desc+"|"+mutClass+"|"+s2.how)
		c.Sample(true, func() any {
			return map[string]any{"type": typ, "signer": sc.how, "chain": chain.String(), "key": fmt.Sprintf("%x", d), "tx": fmt.Sprintf("%x", bin),
				"sender": fmt.Sprintf("%x", addr), "second_signer": s2.how, "expect_second": want, "strict": mutClass}
		})
	})
	if tr != nil {
		st.Note("transcript lines written: %d", tr.Lines())
	}
}

// TestVerifC03ChainIDZero: chain id 0 / nil with the EIP155 signer (the modern
// constructors refuse chain id <= 0 by panicking, so 0 only exists for
// EIP155Signer, Frontier/Homestead and LatestSignerForChainID(nil)).
func TestVerifC03ChainIDZero(t *testing.T) {
	st := vs.New("C03", t)
	// History: on the original tree EIP155Signer with chain id 0 signed over the EIP-155 hash
	// (.., 0, 0, 0) but emitted an unprotected V and recovered over the Frontier hash, so
	// Sender(SignTx(tx)) was a foreign address (fixed in /repo b05b89a375). Fully strict, ungated.
	vs.Check(t, 0.25, func(rt *rapid.T) {
		c := st.Case()
		key, d := c03Key(rt)
		addr := crypto.PubkeyToAddress(key.PublicKey)
		var s Signer
		how := ""
		switch rapid.IntRange(0, 3).Draw(rt, "zeroSigner") {
		case 0:
			s, how = NewEIP155Signer(nil), "NewEIP155Signer(nil)"
		case 1:
			s, how = NewEIP155Signer(new(big.Int)), "NewEIP155Signer(0)"
		case 2:
			s, how = LatestSignerForChainID(nil), "LatestSignerForChainID(nil)"
		default:
			s, how = MakeSigner(&params.ChainConfig{ChainID: new(big.Int), HomesteadBlock: new(big.Int), EIP155Block: new(big.Int)}, big.NewInt(1), 0), "MakeSigner(chain 0, EIP155 active)"
		}
		unsigned := NewTx(c03DrawTx(rt, LegacyTxType, nil))
		h0 := s.Hash(unsigned)
		signed, err := SignTx(unsigned, s, key)
		if err != nil {
			rt.Fatalf("SignTx(legacy, %s) failed: %v", how, err)
		}
		bin, _ := signed.MarshalBinary()
		got, err := Sender(s, c03Fresh(rt, signed))
		if err != nil || got != addr {
			rt.Fatalf("chain id 0: Sender(s, SignTx(tx, s, key)) = (%x, %v), want %x [signer %s key %x tx %x]", got, err, addr, how, d, bin)
		}
		if h := s.Hash(signed); h != h0 {
			rt.Fatalf("chain id 0: signer.Hash changed by signing: %x -> %x [%s]", h0, h, how)
		}
		c.Class(how)
		c.NonTrivial(true, fmt.Sprintf("%s|%x|%x", how, d, h0))
	})
}

// c03PlainTx is a fixed, draw-free body of the given type (body chain id = chain for typed txs).
func c03PlainTx(typ byte, chain *big.Int, nonce uint64) TxData {
	to := common.Address{0xaa, 19: byte(typ)}
	al := AccessList{{Address: common.Address{0xbb}, StorageKeys: []common.Hash{{1}}}}
	switch typ {
	case LegacyTxType:
		return &LegacyTx{Nonce: nonce, GasPrice: big.NewInt(3), Gas: 21000, To: &to, Value: big.NewInt(5), Data: []byte{1, 2, 3}}
	case AccessListTxType:
		return &AccessListTx{ChainID: chain, Nonce: nonce, GasPrice: big.NewInt(3), Gas: 21000, To: &to, Value: big.NewInt(5), AccessList: al}
	case DynamicFeeTxType:
		return &DynamicFeeTx{ChainID: chain, Nonce: nonce, GasTipCap: big.NewInt(2), GasFeeCap: big.NewInt(3), Gas: 21000, To: &to, Value: big.NewInt(5), AccessList: al}
	case BlobTxType:
		return &BlobTx{ChainID: uint256.MustFromBig(chain), Nonce: nonce, GasTipCap: uint256.NewInt(2), GasFeeCap: uint256.NewInt(3), Gas: 21000, To: to, Value: uint256.NewInt(5),
			AccessList: al, BlobFeeCap: uint256.NewInt(7), BlobHashes: []common.Hash{{1, 2}}}
	default:
		return &SetCodeTx{ChainID: uint256.MustFromBig(chain), Nonce: nonce, GasTipCap: uint256.NewInt(2), GasFeeCap: uint256.NewInt(3), Gas: 21000, To: to, Value: uint256.NewInt(5),
			AccessList: al, AuthList: []SetCodeAuthorization{{ChainID: *uint256.NewInt(1), Address: to, Nonce: 1}}}
	}
}

// TestVerifC03SBoundaryGrid enumerates the low-s limit completely over the finite grid
// tx type x signer fork (every fork that supports the type) x chain id x recovery id x
// s in {1, 2, n/2-1, n/2 | n/2+1, n/2+2, n-1}: r comes from a genuine signature over the same
// signing hash (so it is an x coordinate of a curve point), the signature is injected through
// the public path Transaction.WithSignature(signer, r||s||recid) and recovered on a freshly
// decoded copy. Low s: Sender must succeed and equal the address derived by kit/refsecp
// (independent math/big recovery); high s: refused by every signer but Frontier (Frontier: an
// error or the reference address). Key and nonce depend on the seed only.
func TestVerifC03SBoundaryGrid(t *testing.T) {
	vs.OnlyShard0(t)
	st := vs.New("C03", t)
	tr := transcript.Open(t, "transcript-boundary.txt")
	seed := vs.Seed()
	d := new(big.Int).SetBytes(refkeccak.Keccak256([]byte(fmt.Sprintf("c03-grid-%d", seed))))
	d.Mod(d, new(big.Int).Sub(c03N, big.NewInt(1)))
	d.Add(d, big.NewInt(1))
	kb := make([]byte, 32)
	d.FillBytes(kb)
	key, err := crypto.ToECDSA(kb)
	if err != nil {
		t.Fatalf("VERIF-HARNESS-BUG: ToECDSA(%x): %v", d, err)
	}
	type sval struct {
		name string
		s    *big.Int
		low  bool
	}
	var svals []sval
	for _, b := range c03LowS {
		svals = append(svals, sval{b.name, b.s, true})
	}
	for _, b := range c03HighS {
		svals = append(svals, sval{b.name, b.s, false})
	}
	chains := []*big.Int{big.NewInt(1), big.NewInt(1337), c03Pow2(255, 3), c03HugeChainIDs[0]}
	n := 0
	for typ := byte(LegacyTxType); typ <= SetCodeTxType; typ++ {
		for rank := c03MinRank(typ); rank <= c03Prague; rank++ {
			for ci, chain := range chains {
				if rank < c03EIP155 && ci > 0 {
					continue // no chain id in the signer nor in the (legacy) tx
				}
				if chain.Cmp(c03Two256) >= 0 && typ > DynamicFeeTxType {
					continue // uint256 chain id field
				}
				signer := c03Canonical(rank, chain)
				unsigned := NewTx(c03PlainTx(typ, chain, seed+uint64(typ)))
				h := signer.Hash(unsigned)
				genuine, err := SignTx(unsigned, signer, key)
				if err != nil {
					t.Fatalf("SignTx(type %d, %s signer chain %s) failed: %v", typ, c03RankName[rank], chain, err)
				}
				_, r, _ := genuine.RawSignatureValues()
				for recid := byte(0); recid < 2; recid++ {
					for _, sv := range svals {
						c := st.Case()
						n++
						sig := make([]byte, 65)
						r.FillBytes(sig[:32])
						sv.s.FillBytes(sig[32:64])
						sig[64] = recid
						where := fmt.Sprintf("type %d signer %s chain %s recid %d %s r=%x sighash=%x", typ, c03RankName[rank], chain, recid, sv.name, r, h)
						ref, ok := c03RefSender(h, r, sv.s, recid)
						if !ok {
							t.Fatalf("VERIF-HARNESS-BUG: reference recovery failed [%s]", where)
						}
						tx, err := unsigned.WithSignature(signer, sig)
						if err != nil {
							t.Fatalf("WithSignature refused a 65-byte signature: %v [%s]", err, where)
						}
						if h2 := signer.Hash(tx); h2 != h {
							t.Fatalf("signer.Hash changed by WithSignature: %x [%s]", h2, where)
						}
						got, err := Sender(signer, c03Fresh(t, tx))
						tr.Linef("grid %s -> %s", where, c03SenderStr(got, err))
						switch {
						case sv.low:
							if err != nil || got != ref {
								t.Fatalf("low-s signature (s <= n/2): Sender = (%x, %v), want %x as derived by the reference recovery [%s]", got, err, ref, where)
							}
						case rank >= c03Homestead:
							if err == nil || got != (common.Address{}) {
								t.Fatalf("high-s signature accepted: Sender = (%x, %v) [%s]", got, err, where)
							}
						default:
							if err == nil && got != ref {
								t.Fatalf("frontier, high s: Sender = %x, want %x or an error [%s]", got, ref, where)
							}
						}
						c.Class("grid " + sv.name)
						c.Class(fmt.Sprintf("grid type%d/%s", typ, c03RankName[rank]))
						c.NonTrivial(true, where)
					}
				}
			}
		}
	}
	st.Exhaustive(fmt.Sprintf("low-s limit: every tx type x supporting signer fork x chain id {1,1337,2^255+3,2^256+7} x recovery id x s in {1,2,n/2-1,n/2,n/2+1,n/2+2,n-1} (%d signatures, reference: kit/refsecp)", n))
}
