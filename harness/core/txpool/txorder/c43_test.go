//go:build verif

package txorder

import (
	"fmt"
	"math/big"
	"sort"
	"strings"
	"testing"
	"time"

	"github.com/ethereum/go-ethereum/common"
	"github.com/ethereum/go-ethereum/core/txpool"
	"github.com/ethereum/go-ethereum/core/types"
	"github.com/holiman/uint256"
	"pgregory.net/rapid"
	vs "verif.local/kit/stat"
)

// ---- reference model -------------------------------------------------------------
//
// Written from the property statement, with math/big only: every account has a
// cursor into its nonce-sorted list; the account is a candidate while its cursor tx
// can pay the base fee; the best candidate is the one with the highest effective
// tip min(tipCap, feeCap-baseFee) (tipCap when there is no base fee), earlier
// arrival first among equal tips.

type c43Tx struct {
	acct, pos   int
	nonce       uint64
	cap, tip    *big.Int
	timeOff     int64 // nanoseconds after c43Epoch
	lazy        *txpool.LazyTransaction
	underpriced bool
}

type c43Model struct {
	base   *big.Int // nil = no base fee
	lists  [][]*c43Tx
	cursor []int
	alive  []bool
}

func (m *c43Model) payable(tx *c43Tx) bool {
	return m.base == nil || tx.cap.Cmp(m.base) >= 0
}

func (m *c43Model) effTip(tx *c43Tx) *big.Int {
	if m.base == nil {
		return new(big.Int).Set(tx.tip)
	}
	d := new(big.Int).Sub(tx.cap, m.base)
	if d.Cmp(tx.tip) > 0 {
		return new(big.Int).Set(tx.tip)
	}
	return d
}

func newC43Model(base *big.Int, lists [][]*c43Tx) *c43Model {
	m := &c43Model{base: base, lists: lists, cursor: make([]int, len(lists)), alive: make([]bool, len(lists))}
	for i, l := range lists {
		m.alive[i] = m.payable(l[0])
	}
	return m
}

// best returns the set of acceptable next transactions (more than one only if the
// effective tip and the arrival time are both equal) and the expected tip.
func (m *c43Model) best() ([]*c43Tx, *big.Int) {
	var (
		out     []*c43Tx
		bestTip *big.Int
	)
	for i := range m.lists {
		if !m.alive[i] {
			continue
		}
		tx := m.lists[i][m.cursor[i]]
		tip := m.effTip(tx)
		switch {
		case bestTip == nil || tip.Cmp(bestTip) > 0:
			out, bestTip = []*c43Tx{tx}, tip
		case tip.Cmp(bestTip) == 0:
			if tx.timeOff < out[0].timeOff {
				out = []*c43Tx{tx}
			} else if tx.timeOff == out[0].timeOff {
				out = append(out, tx)
			}
		}
	}
	return out, bestTip
}

// shift advances the account; reports whether the account ended because its next
// transaction cannot pay the base fee.
func (m *c43Model) shift(acct int) (endedUnderpriced bool) {
	m.cursor[acct]++
	if m.cursor[acct] >= len(m.lists[acct]) {
		m.alive[acct] = false
		return false
	}
	if !m.payable(m.lists[acct][m.cursor[acct]]) {
		m.alive[acct] = false
		return true
	}
	return false
}

func (m *c43Model) pop(acct int) { m.alive[acct] = false }

// ---- generator -------------------------------------------------------------------

var c43Epoch = time.Unix(1_700_000_000, 0)

func c43Addr(i int) common.Address {
	var a common.Address
	a[0] = 0xc4
	a[18] = byte(i >> 8)
	a[19] = byte(i)
	return a
}

var c43Max256 = new(big.Int).Sub(new(big.Int).Lsh(big.NewInt(1), 256), big.NewInt(1))

type c43Case struct {
	base      *big.Int
	baseClass string
	lists     [][]*c43Tx
	timeClass string
}

func c43Gen(rt *rapid.T) *c43Case {
	c := &c43Case{}
	c.baseClass = rapid.SampledFrom([]string{"small", "small", "small", "gwei", "gwei", "huge", "nil", "zero"}).Draw(rt, "baseClass")
	switch c.baseClass {
	case "nil":
	case "zero":
		c.base = big.NewInt(0)
	case "small":
		c.base = big.NewInt(int64(rapid.IntRange(1, 12).Draw(rt, "base")))
	case "gwei":
		c.base = big.NewInt(int64(rapid.IntRange(1, 50).Draw(rt, "baseGwei")) * 1_000_000_000)
	case "huge":
		// close to the top of the uint256 range (header base fees never get there, the
		// arithmetic must nevertheless not wrap)
		c.base = new(big.Int).Sub(c43Max256, big.NewInt(int64(rapid.IntRange(4, 40).Draw(rt, "baseBelowMax"))))
	}
	nAcc := rapid.SampledFrom([]int{4, 3, 5, 6, 8, 12, 20, 16, 10, 7, 3, 5, 2, 2, 1, 0}).Draw(rt, "accounts")
	spread := rapid.SampledFrom([]int{2, 4, 10}).Draw(rt, "spread") // small spread = many price ties
	underPct := rapid.SampledFrom([]int{15, 30, 10, 0}).Draw(rt, "underPct")
	c.timeClass = rapid.SampledFrom([]string{"distinct", "distinct", "distinct", "collide"}).Draw(rt, "timeClass")

	baseOrZero := new(big.Int)
	if c.base != nil {
		baseOrZero.Set(c.base)
	}
	usedTimes := map[int64]bool{}
	for a := 0; a < nAcc; a++ {
		n := rapid.SampledFrom([]int{4, 3, 5, 8, 2, 6, 7, 1}).Draw(rt, "ntx")
		nonce := uint64(rapid.IntRange(0, 1000).Draw(rt, "nonce0"))
		var list []*c43Tx
		for p := 0; p < n; p++ {
			tx := &c43Tx{acct: a, pos: p, nonce: nonce + uint64(p)}
			// fee cap relative to the base fee: below / equal / above
			rel := rapid.IntRange(0, spread).Draw(rt, "capAbove")
			under := c.base != nil && c.base.Sign() > 0 && rapid.IntRange(0, 99).Draw(rt, "under") < underPct
			if under {
				below := int64(rapid.IntRange(1, 3).Draw(rt, "capBelow"))
				tx.cap = new(big.Int).Sub(baseOrZero, big.NewInt(below))
				if tx.cap.Sign() < 0 {
					tx.cap.SetInt64(0)
				}
				tx.underpriced = tx.cap.Cmp(baseOrZero) < 0
			} else {
				tx.cap = new(big.Int).Add(baseOrZero, big.NewInt(int64(rel)))
				if tx.cap.Cmp(c43Max256) > 0 {
					tx.cap.Set(c43Max256)
				}
			}
			// tip cap: 0..cap (txpool validation guarantees tip <= cap); choose so that both
			// "tip is binding" and "cap-base is binding" occur
			switch rapid.IntRange(0, 3).Draw(rt, "tipKind") {
			case 0: // legacy-like: tip == cap
				tx.tip = new(big.Int).Set(tx.cap)
			case 1: // small absolute tip
				tx.tip = big.NewInt(int64(rapid.IntRange(0, spread+2).Draw(rt, "tipAbs")))
			default: // around cap-base
				d := new(big.Int).Sub(tx.cap, baseOrZero)
				d.Add(d, big.NewInt(int64(rapid.IntRange(-2, 2).Draw(rt, "tipDelta"))))
				tx.tip = d
			}
			if tx.tip.Sign() < 0 {
				tx.tip.SetInt64(0)
			}
			if tx.tip.Cmp(tx.cap) > 0 {
				tx.tip.Set(tx.cap)
			}
			// arrival time
			var off int64
			if c.timeClass == "collide" {
				off = int64(rapid.IntRange(0, 5).Draw(rt, "time"))
			} else {
				off = int64(rapid.IntRange(0, 1_000_000).Draw(rt, "time"))
				for usedTimes[off] {
					off++
				}
			}
			usedTimes[off] = true
			tx.timeOff = off
			inner := types.NewTx(&types.DynamicFeeTx{
				ChainID: big.NewInt(1), Nonce: tx.nonce, To: &common.Address{}, Gas: 21000,
				GasFeeCap: new(big.Int).Set(tx.cap), GasTipCap: new(big.Int).Set(tx.tip),
			})
			tx.lazy = &txpool.LazyTransaction{
				Hash:      inner.Hash(),
				Tx:        inner,
				Time:      c43Epoch.Add(time.Duration(off)),
				GasFeeCap: uint256.MustFromBig(tx.cap),
				GasTipCap: uint256.MustFromBig(tx.tip),
				Gas:       21000,
			}
			list = append(list, tx)
		}
		c.lists = append(c.lists, list)
	}
	return c
}

func (c *c43Case) descriptor(ops string) string {
	var sb strings.Builder
	if c.base == nil {
		sb.WriteString("nil")
	} else {
		sb.WriteString(c.base.String())
	}
	for _, l := range c.lists {
		sb.WriteString("|")
		for _, tx := range l {
			fmt.Fprintf(&sb, "%s/%s@%d,", tx.cap, tx.tip, tx.timeOff)
		}
	}
	sb.WriteString("#")
	sb.WriteString(ops)
	return sb.String()
}

func (c *c43Case) render(ops string) any {
	base := "nil"
	if c.base != nil {
		base = c.base.String()
	}
	var accts []any
	for _, l := range c.lists {
		var txs []string
		for _, tx := range l {
			txs = append(txs, fmt.Sprintf("nonce=%d cap=%s tip=%s t=%d", tx.nonce, tx.cap, tx.tip, tx.timeOff))
		}
		accts = append(accts, txs)
	}
	return map[string]any{"baseFee": base, "accounts": accts, "ops": ops}
}

// ---- the property ----------------------------------------------------------------

func TestVerifC43Order(t *testing.T) {
	st := vs.New("C43", t)
	signer := types.LatestSignerForChainID(big.NewInt(1))
	vs.Check(t, 1, func(rt *rapid.T) {
		sc := st.Case()
		c := c43Gen(rt)
		popPct := rapid.SampledFrom([]int{10, 25, 10, 60, 0}).Draw(rt, "popPct")
		clearAt := -1
		if rapid.IntRange(0, 19).Draw(rt, "doClear") == 0 {
			clearAt = rapid.IntRange(0, 30).Draw(rt, "clearAt")
		}

		// hand the pending map over (the constructor takes ownership of map and slices)
		byPtr := map[*txpool.LazyTransaction]*c43Tx{}
		pending := map[common.Address][]*txpool.LazyTransaction{}
		total := 0
		for a, l := range c.lists {
			lazies := make([]*txpool.LazyTransaction, len(l))
			for i, tx := range l {
				lazies[i] = tx.lazy
				byPtr[tx.lazy] = tx
				total++
			}
			pending[c43Addr(a)] = lazies
		}
		var baseArg *big.Int
		if c.base != nil {
			baseArg = new(big.Int).Set(c.base)
		}
		model := newC43Model(c.base, c.lists)
		set := NewTransactionsByPriceAndNonce(signer, pending, baseArg)
		if baseArg != nil && baseArg.Cmp(c.base) != 0 {
			rt.Fatalf("constructor modified the base fee argument")
		}

		var (
			ops          strings.Builder
			yielded      = make([]int, len(c.lists)) // per account: number of txs yielded so far
			lastNonce    = make([]uint64, len(c.lists))
			order        []int // account of every yielded tx
			pops         int
			underHit     int
			tieTime      int
			tieTip       int
			capBinding   bool
			tipBinding   bool
			accountsSeen = map[int]bool{}
		)
		for step := 0; ; step++ {
			if step > total+1 {
				rt.Fatalf("iterator yielded more than the %d transactions handed in", total)
			}
			if step == clearAt {
				set.Clear()
				ops.WriteString("C")
				if !set.Empty() {
					rt.Fatalf("Empty()==false after Clear")
				}
				if tx, tip := set.Peek(); tx != nil || tip != nil {
					rt.Fatalf("Peek after Clear returned %v,%v", tx, tip)
				}
				break
			}
			want, wantTip := model.best()
			got, gotTip := set.Peek()
			if set.Empty() != (got == nil) {
				rt.Fatalf("step %d: Empty()=%v but Peek()=%v", step, set.Empty(), got)
			}
			if len(want) == 0 {
				if got != nil {
					g := byPtr[got]
					rt.Fatalf("step %d: no candidate remains but Peek yields account %d pos %d", step, g.acct, g.pos)
				}
				if gotTip != nil {
					rt.Fatalf("step %d: nil transaction with non-nil tip", step)
				}
				break
			}
			if got == nil {
				rt.Fatalf("step %d: iterator ended but account %d pos %d (tip %s) is still available", step, want[0].acct, want[0].pos, wantTip)
			}
			g, ok := byPtr[got]
			if !ok {
				rt.Fatalf("step %d: Peek returned a transaction that was not handed in", step)
			}
			// nonce order / predecessor rule (independent of the model)
			if g.pos != yielded[g.acct] {
				rt.Fatalf("step %d: account %d yielded list position %d, but %d of its transactions were yielded before", step, g.acct, g.pos, yielded[g.acct])
			}
			if got.Tx.Nonce() != g.nonce || (g.pos > 0 && got.Tx.Nonce() <= lastNonce[g.acct]) {
				rt.Fatalf("step %d: account %d nonce %d after %d", step, g.acct, got.Tx.Nonce(), lastNonce[g.acct])
			}
			// best available head
			match := false
			for _, w := range want {
				if w == g {
					match = true
				}
			}
			if !match {
				rt.Fatalf("step %d: Peek yields account %d pos %d (cap %s tip %s eff %s t %d), expected account %d pos %d (cap %s tip %s eff %s t %d); base fee %v",
					step, g.acct, g.pos, g.cap, g.tip, model.effTip(g), g.timeOff,
					want[0].acct, want[0].pos, want[0].cap, want[0].tip, wantTip, want[0].timeOff, c.base)
			}
			if gotTip == nil || gotTip.ToBig().Cmp(wantTip) != 0 {
				rt.Fatalf("step %d: Peek tip %v, expected effective tip %s (cap %s tip %s base %v)", step, gotTip, wantTip, g.cap, g.tip, c.base)
			}
			// the handed-out lazy transaction must be untouched
			if got.GasFeeCap.ToBig().Cmp(g.cap) != 0 || got.GasTipCap.ToBig().Cmp(g.tip) != 0 {
				rt.Fatalf("step %d: iterator modified the fee fields of a transaction", step)
			}
			// statistics about how the winner was decided
			if c.base != nil {
				if new(big.Int).Sub(g.cap, c.base).Cmp(g.tip) < 0 {
					capBinding = true
				} else {
					tipBinding = true
				}
			}
			for i := range c.lists {
				if model.alive[i] && i != g.acct {
					o := c.lists[i][model.cursor[i]]
					if model.effTip(o).Cmp(wantTip) == 0 {
						tieTip++
						if o.timeOff == g.timeOff {
							tieTime++
						}
					}
				}
			}
			yielded[g.acct]++
			lastNonce[g.acct] = g.nonce
			order = append(order, g.acct)
			accountsSeen[g.acct] = true

			if rapid.IntRange(0, 99).Draw(rt, "op") < popPct {
				set.Pop()
				model.pop(g.acct)
				ops.WriteString("P")
				pops++
			} else {
				set.Shift()
				if model.shift(g.acct) {
					underHit++
				}
				ops.WriteString("S")
			}
		}

		// ---- statistics
		switches := 0
		for i := 1; i < len(order); i++ {
			if order[i] != order[i-1] {
				switches++
			}
		}
		interleaved := len(accountsSeen) >= 3 && switches > len(accountsSeen)-1
		nt := interleaved && pops > 0 && underHit > 0
		sc.NonTrivial(nt, c.descriptor(ops.String()))
		sc.Classf("base=%s", c.baseClass)
		switch {
		case len(c.lists) == 0:
			sc.Class("accounts=0")
		case len(c.lists) < 3:
			sc.Class("accounts=1-2")
		case len(c.lists) <= 6:
			sc.Class("accounts=3-6")
		default:
			sc.Class("accounts=7-20")
		}
		if interleaved {
			sc.Class("interleaved")
		}
		if pops > 0 {
			sc.Class("has-pop")
		}
		if underHit > 0 {
			sc.Class("underpriced-midlist-reached")
		}
		if tieTip > 0 {
			sc.Class("tip-tie-decided-by-time")
		}
		if tieTime > 0 {
			sc.Class("tip-and-time-tie")
		}
		if capBinding && tipBinding {
			sc.Class("both-cap-and-tip-binding")
		}
		if clearAt >= 0 && strings.HasSuffix(ops.String(), "C") {
			sc.Class("cleared")
		}
		if len(order) == total && total > 0 {
			sc.Class("all-yielded")
		}
		sc.Sample(nt, func() any { return c.render(ops.String()) })
	})
}

// TestVerifC43ShiftOnly drains the iterator with Shift only and compares the whole
// yielded sequence with a sort-based reference: repeatedly pick the best head by a
// full scan. With no Pop the set of yielded transactions must be, per account,
// exactly the prefix before the first transaction that cannot pay the base fee.
func TestVerifC43ShiftOnly(t *testing.T) {
	st := vs.New("C43", t)
	signer := types.LatestSignerForChainID(big.NewInt(1))
	vs.Check(t, 0.5, func(rt *rapid.T) {
		sc := st.Case()
		c := c43Gen(rt)
		byPtr := map[*txpool.LazyTransaction]*c43Tx{}
		pending := map[common.Address][]*txpool.LazyTransaction{}
		wantCount := make([]int, len(c.lists))
		for a, l := range c.lists {
			lazies := make([]*txpool.LazyTransaction, len(l))
			prefix := true
			for i, tx := range l {
				lazies[i] = tx.lazy
				byPtr[tx.lazy] = tx
				if c.base != nil && tx.cap.Cmp(c.base) < 0 {
					prefix = false
				}
				if prefix {
					wantCount[a]++
				}
			}
			pending[c43Addr(a)] = lazies
		}
		set := NewTransactionsByPriceAndNonce(signer, pending, c.base)
		got := make([]int, len(c.lists))
		var prevTip *big.Int
		var prev *c43Tx
		n := 0
		for ltx, tip := set.Peek(); ltx != nil; ltx, tip = set.Peek() {
			g := byPtr[ltx]
			if g.pos != got[g.acct] {
				rt.Fatalf("account %d: position %d yielded after %d transactions", g.acct, g.pos, got[g.acct])
			}
			got[g.acct]++
			// Across *different* accounts whose transactions were both available, tips never
			// increase: if the previous winner belongs to another account and this tx was
			// already its account's head at that time, its tip cannot be higher.
			if prev != nil && prev.acct != g.acct && tip.ToBig().Cmp(prevTip) > 0 {
				rt.Fatalf("account %d pos %d with tip %s yielded after account %d pos %d with lower tip %s although both were available", g.acct, g.pos, tip, prev.acct, prev.pos, prevTip)
			}
			prev, prevTip = g, tip.ToBig()
			set.Shift()
			if n++; n > 200 {
				rt.Fatalf("iterator does not terminate")
			}
		}
		under := false
		for a := range c.lists {
			if got[a] != wantCount[a] {
				rt.Fatalf("account %d: %d transactions yielded, want the payable prefix of %d (list of %d, base fee %v)", a, got[a], wantCount[a], len(c.lists[a]), c.base)
			}
			if wantCount[a] > 0 && wantCount[a] < len(c.lists[a]) {
				under = true
			}
		}
		keys := make([]int, 0, len(c.lists))
		for a := range c.lists {
			if got[a] > 0 {
				keys = append(keys, a)
			}
		}
		sort.Ints(keys)
		nt := len(keys) >= 3 && under
		sc.NonTrivial(nt, c.descriptor("shift-only"))
		sc.Classf("base=%s", c.baseClass)
		if under {
			sc.Class("underpriced-midlist-reached")
		}
		sc.Sample(nt, func() any { return c.render("shift-only") })
	})
}
