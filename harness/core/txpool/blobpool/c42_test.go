//go:build verif

package blobpool

// C42 — blob pool consistency across operations and restarts.
//
// A rapid-drawn history (submissions incl. replacements, gapped nonces, overdrafts;
// head changes with inclusion; reorgs that re-include or drop transactions; finality
// advances; tip changes; clean restarts; abrupt restarts on file-level images of the
// datadir taken at operation boundaries, at store-mutation boundaries inside an
// operation, and in the middle of a slot write) is applied to a real BlobPool on a
// real billy store. After every action white-box invariants plus a small reference
// model (recheck / tip filter / eviction order / limbo retention) are evaluated.

import (
	"bytes"
	"crypto/ecdsa"
	"encoding/binary"
	"errors"
	"fmt"
	"math"
	"math/big"
	"os"
	"path/filepath"
	"sort"
	"strings"
	"sync"
	"testing"

	"github.com/ethereum/go-ethereum/common"
	"github.com/ethereum/go-ethereum/consensus/misc/eip4844"
	"github.com/ethereum/go-ethereum/core/state"
	"github.com/ethereum/go-ethereum/core/tracing"
	"github.com/ethereum/go-ethereum/core/txpool"
	"github.com/ethereum/go-ethereum/core/types"
	"github.com/ethereum/go-ethereum/crypto"
	"github.com/ethereum/go-ethereum/crypto/kzg4844"
	"github.com/ethereum/go-ethereum/params"
	"github.com/ethereum/go-ethereum/rlp"
	"github.com/ethereum/go-ethereum/trie"
	"github.com/holiman/billy"
	"github.com/holiman/uint256"
	"pgregory.net/rapid"
	"verif.local/kit/crashfs"
	vs "verif.local/kit/stat"
)

const (
	c42NAcct  = 3
	c42NBlobs = 4
)

type c42Acct struct {
	key  *ecdsa.PrivateKey
	addr common.Address
}

var c42Accts = func() [c42NAcct]c42Acct {
	var out [c42NAcct]c42Acct
	for i := range out {
		k, err := crypto.ToECDSA(crypto.Keccak256([]byte(fmt.Sprintf("verif-c42-key-%d", i))))
		if err != nil {
			panic(err)
		}
		out[i] = c42Acct{key: k, addr: crypto.PubkeyToAddress(k.PublicKey)}
	}
	return out
}()

func c42AcctIndex(a common.Address) int {
	for i := range c42Accts {
		if c42Accts[i].addr == a {
			return i
		}
	}
	return -1
}

var (
	c42Once   sync.Once
	c42Cells  [c42NBlobs][]kzg4844.Cell
	c42Signer = types.LatestSigner(params.MergedTestChainConfig)
)

// c42Material computes (once) the cells of the first few package test blobs, so
// that pooled transactions can be assembled without per-case KZG work.
func c42Material(t testing.TB) {
	c42Once.Do(func() {
		for i := 0; i < c42NBlobs; i++ {
			cells, err := kzg4844.ComputeCells([]kzg4844.Blob{*testBlobs[i]})
			if err != nil {
				t.Fatalf("VERIF-HARNESS-BUG: ComputeCells: %v", err)
			}
			c42Cells[i] = cells
		}
	})
}

// ---- transactions ----

type c42Tx struct {
	full  *types.Transaction // with blob sidecar (network form)
	ptx   *BlobTxForPool     // pool form (cells)
	enc   []byte             // rlp(ptx): the exact store payload
	acct  int
	nonce uint64
	hash  common.Hash
}

func c42MakeTx(acct int, nonce, tip, feeCap, blobFeeCap, gas uint64, value *uint256.Int, blobIdx []int) *c42Tx {
	var (
		blobs   []kzg4844.Blob
		commits []kzg4844.Commitment
		proofs  []kzg4844.Proof
		cells   []kzg4844.Cell
		vhashes []common.Hash
	)
	for _, b := range blobIdx {
		blobs = append(blobs, *testBlobs[b])
		commits = append(commits, testBlobCommits[b])
		proofs = append(proofs, testBlobCellProofs[b]...)
		cells = append(cells, c42Cells[b]...)
		vhashes = append(vhashes, testBlobVHashes[b])
	}
	inner := &types.BlobTx{
		ChainID:    uint256.MustFromBig(params.MergedTestChainConfig.ChainID),
		Nonce:      nonce,
		GasTipCap:  uint256.NewInt(tip),
		GasFeeCap:  uint256.NewInt(feeCap),
		Gas:        gas,
		BlobFeeCap: uint256.NewInt(blobFeeCap),
		BlobHashes: vhashes,
		Value:      value,
		Sidecar:    types.NewBlobTxSidecar(types.BlobSidecarVersion1, blobs, commits, proofs),
	}
	full := types.MustSignNewTx(c42Accts[acct].key, c42Signer, inner)
	ptx := &BlobTxForPool{
		Tx: full.WithoutBlobTxSidecar(),
		CellSidecar: &types.BlobTxCellSidecar{
			Version:     types.BlobSidecarVersion1,
			Cells:       cells,
			Commitments: commits,
			Proofs:      proofs,
			Custody:     types.CustodyBitmapAll,
		},
	}
	enc, err := rlp.EncodeToBytes(ptx)
	if err != nil {
		panic(err)
	}
	return &c42Tx{full: full, ptx: ptx, enc: enc, acct: acct, nonce: nonce, hash: full.Hash()}
}

func (x *c42Tx) String() string {
	return fmt.Sprintf("{a%d n%d tip%v cap%v blobcap%v blobs%d cost%v %x}", x.acct, x.nonce, x.full.GasTipCap(), x.full.GasFeeCap(),
		x.full.BlobGasFeeCap(), len(x.full.BlobHashes()), x.full.Cost(), x.hash[:4])
}

// ---- harness chain ----

type c42AcctState struct {
	nonce   uint64
	balance *uint256.Int
}

type c42Block struct {
	block  *types.Block
	header *types.Header
	parent *c42Block
	st     [c42NAcct]c42AcctState
}

type c42Chain struct {
	config  *params.ChainConfig
	blocks  map[common.Hash]*c42Block
	head    *c42Block
	final   *c42Block
	genesis *c42Block
	salt    uint64
}

func (c *c42Chain) Config() *params.ChainConfig  { return c.config }
func (c *c42Chain) CurrentBlock() *types.Header  { return c.head.header }
func (c *c42Chain) Genesis() *types.Block        { return c.genesis.block }
func (c *c42Chain) CurrentFinalBlock() *types.Header { return c.final.header }
func (c *c42Chain) GetBlock(hash common.Hash, number uint64) *types.Block {
	b := c.blocks[hash]
	if b == nil || b.header.Number.Uint64() != number {
		return nil
	}
	return b.block
}
func (c *c42Chain) StateAt(header *types.Header) (*state.StateDB, error) {
	b := c.blocks[header.Hash()]
	if b == nil {
		return nil, fmt.Errorf("unknown header %x", header.Hash())
	}
	sdb, err := state.New(types.EmptyRootHash, state.NewDatabaseForTesting())
	if err != nil {
		return nil, err
	}
	for i, a := range c42Accts {
		sdb.SetNonce(a.addr, b.st[i].nonce, tracing.NonceChangeUnspecified)
		sdb.SetBalance(a.addr, b.st[i].balance.Clone(), tracing.BalanceChangeUnspecified)
	}
	return sdb, nil
}

func (c *c42Chain) newBlock(parent *c42Block, txs []*types.Transaction, baseFee uint64, excessBlobGas uint64, st [c42NAcct]c42AcctState) *c42Block {
	c.salt++
	ebg := excessBlobGas
	var used uint64
	h := &types.Header{
		Difficulty:    new(big.Int),
		GasLimit:      30_000_000,
		GasUsed:       15_000_000, // == target: the next base fee equals this header's base fee
		BaseFee:       new(big.Int).SetUint64(baseFee),
		ExcessBlobGas: &ebg,
		BlobGasUsed:   &used,
		Extra:         []byte(fmt.Sprintf("c42-%d", c.salt)),
	}
	if parent == nil {
		h.Number = new(big.Int)
		h.Time = 1
	} else {
		h.Number = new(big.Int).Add(parent.header.Number, big.NewInt(1))
		h.ParentHash = parent.header.Hash()
		h.Time = parent.header.Time + 12
	}
	blk := types.NewBlock(h, &types.Body{Transactions: txs}, nil, trie.NewStackTrie(nil))
	b := &c42Block{block: blk, header: blk.Header(), parent: parent, st: st}
	c.blocks[b.header.Hash()] = b
	return b
}

// canonicalBlockOf returns the number of the canonical block containing the tx.
func (c *c42Chain) canonicalBlockOf(h common.Hash) (uint64, bool) {
	for b := c.head; b != nil; b = b.parent {
		for _, tx := range b.block.Transactions() {
			if tx.Hash() == h {
				return b.header.Number.Uint64(), true
			}
		}
	}
	return 0, false
}

type c42Reserver struct {
	accounts map[common.Address]struct{}
	breaches []string
}

func (r *c42Reserver) Hold(addr common.Address) error {
	if _, ok := r.accounts[addr]; ok {
		r.breaches = append(r.breaches, "double hold")
		return errors.New("already reserved")
	}
	r.accounts[addr] = struct{}{}
	return nil
}
func (r *c42Reserver) Release(addr common.Address) error {
	if _, ok := r.accounts[addr]; !ok {
		r.breaches = append(r.breaches, "release of unreserved")
		return errors.New("not reserved")
	}
	delete(r.accounts, addr)
	return nil
}
func (r *c42Reserver) Has(addr common.Address) bool { _, ok := r.accounts[addr]; return ok }

// ---- recording store (crash points at store-mutation boundaries) ----

type c42RecStore struct {
	billy.Database
	m    *c42Machine
	name string
}

func (s *c42RecStore) Put(data []byte) (uint64, error) {
	s.m.beforePut(s.name)
	id, err := s.Database.Put(data)
	s.m.storeEvent(s.name+":put", true)
	return id, err
}

func (s *c42RecStore) Delete(key uint64) error {
	err := s.Database.Delete(key)
	s.m.storeEvent(s.name+":del", false)
	return err
}

// ---- reference-model helpers ----

type c42Entry struct {
	hash        common.Hash
	nonce       uint64
	cost        *uint256.Int
	tip         *uint256.Int
	feeCap      *uint256.Int
	blobFeeCap  *uint256.Int
	storageSize uint32
}

func c42EntryOf(x *c42Tx, storageSize uint32) c42Entry {
	return c42Entry{hash: x.hash, nonce: x.nonce, cost: uint256.MustFromBig(x.full.Cost()), tip: uint256.MustFromBig(x.full.GasTipCap()),
		feeCap: uint256.MustFromBig(x.full.GasFeeCap()), blobFeeCap: uint256.MustFromBig(x.full.BlobGasFeeCap()), storageSize: storageSize}
}

type c42Lists [c42NAcct][]c42Entry

func (l c42Lists) hashes(i int) []common.Hash {
	var out []common.Hash
	for _, e := range l[i] {
		out = append(out, e.hash)
	}
	return out
}

func (l c42Lists) stored() uint64 {
	var s uint64
	for i := range l {
		for _, e := range l[i] {
			s += uint64(e.storageSize)
		}
	}
	return s
}

func (l c42Lists) String() string {
	var sb []string
	for i := range l {
		var xs []string
		for _, e := range l[i] {
			xs = append(xs, fmt.Sprintf("n%d:%x", e.nonce, e.hash[:3]))
		}
		sb = append(sb, fmt.Sprintf("a%d[%s]", i, strings.Join(xs, " ")))
	}
	return strings.Join(sb, " ")
}

func c42HashesEqual(a, b []common.Hash) bool {
	if len(a) != len(b) {
		return false
	}
	for i := range a {
		if a[i] != b[i] {
			return false
		}
	}
	return true
}

func c42IsPrefix(p, full []common.Hash) bool {
	if len(p) > len(full) {
		return false
	}
	for i := range p {
		if p[i] != full[i] {
			return false
		}
	}
	return true
}

// c42RecheckModel is the documented per-account revalidation: nothing below the
// state nonce, contiguous from it, no overdraft (highest nonces go first), at most
// maxTxsPerAccount. Returns the kept list, the entries with a nonce below the state
// nonce (candidates for the limbo) and whether a duplicate nonce made the outcome
// unspecified.
func c42RecheckModel(list []c42Entry, next uint64, balance *uint256.Int) (kept, below []c42Entry, ambiguous bool) {
	l := append([]c42Entry{}, list...)
	sort.SliceStable(l, func(i, j int) bool { return l[i].nonce < l[j].nonce })
	for len(l) > 0 && l[0].nonce < next {
		below = append(below, l[0])
		l = l[1:]
	}
	if len(l) == 0 || l[0].nonce > next {
		return nil, below, false
	}
	kept = append(kept, l[0])
	for i := 1; i < len(l); i++ {
		prev := kept[len(kept)-1]
		if l[i].nonce == prev.nonce {
			ambiguous = true
			continue
		}
		if l[i].nonce != prev.nonce+1 {
			break
		}
		kept = append(kept, l[i])
	}
	sum := new(uint256.Int)
	for _, e := range kept {
		sum.Add(sum, e.cost)
	}
	for len(kept) > 0 && sum.Gt(balance) {
		sum.Sub(sum, kept[len(kept)-1].cost)
		kept = kept[:len(kept)-1]
	}
	if len(kept) > maxTxsPerAccount {
		kept = kept[:maxTxsPerAccount]
	}
	return kept, below, ambiguous
}

// c42TipModel drops the first entry below the tip and everything after it.
func c42TipModel(list []c42Entry, tip *uint256.Int) []c42Entry {
	for i, e := range list {
		if e.tip.Lt(tip) {
			return append([]c42Entry{}, list[:i]...)
		}
	}
	return list
}

var (
	c42Log1125 = math.Log(1.125)
	c42Log117  = math.Log(1.125) * 4 / 3
)

func c42Jumps(fee *uint256.Int, logBase float64) float64 {
	if fee.IsZero() {
		return 0
	}
	return math.Log(fee.Float64()) / logBase
}

func c42Prio1D(cur, tx float64) int {
	j := tx - cur
	if j <= 0 {
		return int(math.Floor(j))
	}
	return int(math.Ceil(j))
}

type c42Key struct {
	prio int
	tip  *uint256.Int
}

func (k c42Key) less(o c42Key) bool {
	if k.prio != o.prio {
		return k.prio < o.prio
	}
	return k.tip.Lt(o.tip)
}

// c42AccountKey recomputes, from the raw fees of an account's pooled txs, the
// documented eviction key: priority = min(0, jumps to base fee, jumps to blob fee)
// over the worst fee caps of the nonce sequence, tie-broken by the worst tip.
func c42AccountKey(list []c42Entry, basefee, blobfee *uint256.Int) (c42Key, float64, float64) {
	minTip := list[0].tip
	minFee := c42Jumps(list[0].feeCap, c42Log1125)
	minBlob := c42Jumps(list[0].blobFeeCap, c42Log117)
	for _, e := range list[1:] {
		if e.tip.Lt(minTip) {
			minTip = e.tip
		}
		if j := c42Jumps(e.feeCap, c42Log1125); j < minFee {
			minFee = j
		}
		if j := c42Jumps(e.blobFeeCap, c42Log117); j < minBlob {
			minBlob = j
		}
	}
	p := min(0, c42Prio1D(c42Jumps(basefee, c42Log1125), minFee), c42Prio1D(c42Jumps(blobfee, c42Log117), minBlob))
	return c42Key{prio: p, tip: minTip}, minFee, minBlob
}

// c42EvictModel evicts, while over the cap, the last tx of an account with the
// minimal key. ok=false if a tie between accounts makes the victim unspecified.
func c42EvictModel(l c42Lists, datacap uint64, basefee, blobfee *uint256.Int) (out c42Lists, evicted []common.Hash, ok bool) {
	out = l
	for i := range out {
		out[i] = append([]c42Entry{}, l[i]...)
	}
	ok = true
	for out.stored() > datacap {
		best := -1
		var bestKey c42Key
		tie := false
		for i := range out {
			if len(out[i]) == 0 {
				continue
			}
			k, _, _ := c42AccountKey(out[i], basefee, blobfee)
			switch {
			case best < 0 || k.less(bestKey):
				best, bestKey, tie = i, k, false
			case !bestKey.less(k):
				tie = true
			}
		}
		if best < 0 {
			break
		}
		if tie {
			ok = false
		}
		evicted = append(evicted, out[best][len(out[best])-1].hash)
		out[best] = out[best][:len(out[best])-1]
	}
	return out, evicted, ok
}

// ---- the machine ----

type c42Machine struct {
	rt    *rapid.T
	t     *testing.T
	st    *vs.S
	c     *vs.Case
	chain *c42Chain
	pool  *BlobPool
	res   *c42Reserver
	dir   string // current datadir
	root  string // parent of all datadirs of this case
	ndirs int

	datacap uint64
	bump    uint64
	gasTip  uint64

	known    map[common.Hash]*c42Tx
	byNonce  [c42NAcct]map[uint64][]*c42Tx
	limboSet map[common.Hash]bool            // hashes the model expects to be retained in the limbo
	everIncl map[common.Hash]map[uint64]bool // blocks a tx was ever included in (any branch)

	trace []string

	// crash instrumentation
	armed     string // "", "event", "cut"
	crashAt   int
	evCount   int
	image     *crashfs.Snapshot
	imageNote string
	cutBefore *crashfs.Snapshot
	cutK      float64
	cutZero   bool
	inflight  map[common.Hash]bool // txs touched by the operation during which the image was taken
	forceInclude bool              // next head block includes at least one pooled tx per populated account
	tornOK    map[common.Hash]bool // txs whose stored payload was torn by an interrupted slot write (content not asserted)
	crashed   bool                 // an abrupt restart happened: deleted store items may have been resurrected

	// non-trivial markers
	evictions, limboTrips, abruptMulti, tipOnlyRepl, midRepl int

	// feeFocus: submission-dense history profile (TestVerifC42Fees): several txs per account, replacements of
	// any pooled nonce that are acceptable by price, tips close together, overflow, restarts
	feeFocus bool
}

func (m *c42Machine) tracef(format string, a ...any) { m.trace = append(m.trace, fmt.Sprintf(format, a...)) }
func (m *c42Machine) traceString() string            { return strings.Join(m.trace, "\n") }

func (m *c42Machine) fail(format string, a ...any) {
	m.rt.Helper()
	m.rt.Fatalf("%s\ndatacap=%d bump=%d gasTip=%d\ntrace:\n%s", fmt.Sprintf(format, a...), m.datacap, m.bump, m.gasTip, m.traceString())
}

// guard turns a panic of the pool into a reported failure with the history.
func (m *c42Machine) guard(what string, fn func()) {
	defer func() {
		if r := recover(); r != nil {
			m.fail("panic in %s: %v", what, r)
		}
	}()
	fn()
}

func (m *c42Machine) basefee() *uint256.Int {
	return uint256.MustFromBig(m.chain.head.header.BaseFee) // GasUsed == target, so the next base fee is the header's
}

func (m *c42Machine) blobfee() *uint256.Int {
	return uint256.MustFromBig(eip4844.CalcBlobFee(m.chain.config, m.chain.head.header))
}

func (m *c42Machine) newDir() string {
	m.ndirs++
	d := filepath.Join(m.root, fmt.Sprintf("d%d", m.ndirs))
	if err := os.MkdirAll(d, 0o755); err != nil {
		m.rt.Fatalf("VERIF-HARNESS-BUG: mkdir: %v", err)
	}
	return d
}

// open creates a pool on m.dir at the current head and instruments its stores.
func (m *c42Machine) open() error {
	m.res = &c42Reserver{accounts: map[common.Address]struct{}{}}
	pool := New(Config{Datadir: m.dir, Datacap: m.datacap, PriceBump: m.bump}, m.chain, nil)
	var err error
	func() {
		defer func() {
			if r := recover(); r != nil {
				err = fmt.Errorf("panic during Init: %v", r)
			}
		}()
		err = pool.Init(m.gasTip, m.chain.head.header, m.res)
	}()
	if err != nil {
		return err
	}
	pool.store = &c42RecStore{Database: pool.store, m: m, name: "queue"}
	pool.limbo.store = &c42RecStore{Database: pool.limbo.store, m: m, name: "limbo"}
	m.pool = pool
	return nil
}

func (m *c42Machine) beforePut(store string) {
	if m.armed == "cut" && m.image == nil && m.cutBefore == nil && m.evCount+1 == m.crashAt {
		s, err := crashfs.Snap(m.dir)
		if err != nil {
			m.rt.Fatalf("VERIF-HARNESS-BUG: snap: %v", err)
		}
		m.cutBefore = s
	}
}

func (m *c42Machine) storeEvent(kind string, isPut bool) {
	m.evCount++
	if m.armed == "" || m.image != nil || m.evCount != m.crashAt {
		return
	}
	s, err := crashfs.Snap(m.dir)
	if err != nil {
		m.rt.Fatalf("VERIF-HARNESS-BUG: snap: %v", err)
	}
	if m.armed == "cut" && isPut && m.cutBefore != nil {
		m.image = c42CutImage(m.cutBefore, s, m.cutK, m.cutZero)
		m.imageNote = fmt.Sprintf("torn %s k=%.2f zero=%v", kind, m.cutK, m.cutZero)
		return
	}
	m.image = s
	m.imageNote = fmt.Sprintf("after event %d (%s)", m.evCount, kind)
}

// c42CutImage builds the image of a slot write interrupted after a fraction k of
// the written region: bytes before the first difference are as after the write,
// then k of the changed region is new, the rest is what was there before (old
// slot content for an in-place write; nothing — or zeros if zeroExt — for an append).
func c42CutImage(before, after *crashfs.Snapshot, k float64, zeroExt bool) *crashfs.Snapshot {
	out := &crashfs.Snapshot{Files: map[string][]byte{}}
	for name, a := range after.Files {
		b, ok := before.Files[name]
		if !ok || bytes.Equal(a, b) {
			out.Files[name] = a
			continue
		}
		d0 := 0
		for d0 < len(a) && d0 < len(b) && a[d0] == b[d0] {
			d0++
		}
		keep := d0 + int(k*float64(len(a)-d0))
		img := append([]byte{}, a[:keep]...)
		switch {
		case len(b) > keep:
			img = append(img, b[keep:]...)
			if len(img) < len(a) && zeroExt {
				img = append(img, make([]byte, len(a)-len(img))...)
			}
		case zeroExt:
			img = append(img, make([]byte, len(a)-keep)...)
		}
		out.Files[name] = img
	}
	return out
}

// lists reads the pool's per-account contents.
func (m *c42Machine) lists() c42Lists {
	var l c42Lists
	for i, a := range c42Accts {
		for _, meta := range m.pool.index[a.addr] {
			l[i] = append(l[i], c42Entry{hash: meta.hash, nonce: meta.nonce, cost: meta.costCap, tip: meta.execTipCap,
				feeCap: meta.execFeeCap, blobFeeCap: meta.blobFeeCap, storageSize: meta.storageSize})
		}
	}
	return l
}

func (m *c42Machine) gappedHashes() map[common.Hash]bool {
	out := map[common.Hash]bool{}
	for h := range m.pool.gappedSource {
		out[h] = true
	}
	return out
}

// ---- invariants ----

func (m *c42Machine) checkInvariants() {
	p := m.pool
	head := m.chain.head
	if p.head.Load().Hash() != head.header.Hash() {
		m.fail("VERIF-HARNESS-BUG: pool head differs from chain head")
	}
	seenID := map[uint64]common.Hash{}
	var stored uint64
	total := 0
	for addr := range p.index {
		if c42AcctIndex(addr) < 0 {
			m.fail("index holds unknown account %x", addr)
		}
	}
	lists := m.lists()
	for i, a := range c42Accts {
		txs := p.index[a.addr]
		st := head.st[i]
		if got := p.state.GetNonce(a.addr); got != st.nonce {
			m.fail("VERIF-HARNESS-BUG: pool state nonce of a%d is %d, model %d", i, got, st.nonce)
		}
		if _, ok := p.index[a.addr]; ok && len(txs) == 0 {
			m.fail("a%d: empty tx list kept in the index", i)
		}
		if _, reserved := m.res.accounts[a.addr]; reserved != (len(txs) > 0) {
			m.c.Class("reservation-mismatch") // not part of the statement: recorded only
		}
		if len(txs) == 0 {
			if _, ok := p.spent[a.addr]; ok {
				m.fail("a%d: spent entry without pooled txs", i)
			}
			if _, ok := p.evict.index[a.addr]; ok {
				m.fail("a%d: eviction heap tracks an account without pooled txs", i)
			}
			continue
		}
		if len(txs) > maxTxsPerAccount {
			m.fail("a%d: %d pooled txs > per-account cap", i, len(txs))
		}
		spent := new(uint256.Int)
		for j, meta := range txs {
			if meta.nonce != st.nonce+uint64(j) {
				m.fail("a%d: pooled nonces not contiguous from state nonce %d: position %d has nonce %d (%s)", i, st.nonce, j, meta.nonce, lists)
			}
			x := m.known[meta.hash]
			if x == nil {
				m.fail("a%d: pooled tx %x was never submitted", i, meta.hash)
			}
			if x.acct != i || x.nonce != meta.nonce {
				m.fail("a%d: pooled tx %x indexed under the wrong account/nonce", i, meta.hash)
			}
			if !meta.costCap.Eq(uint256.MustFromBig(x.full.Cost())) || !meta.execTipCap.Eq(uint256.MustFromBig(x.full.GasTipCap())) ||
				!meta.execFeeCap.Eq(uint256.MustFromBig(x.full.GasFeeCap())) || !meta.blobFeeCap.Eq(uint256.MustFromBig(x.full.BlobGasFeeCap())) {
				m.fail("a%d: metadata of %s disagrees with the transaction", i, x)
			}
			spent.Add(spent, meta.costCap)
			// index <-> lookup <-> store
			lm, ok := p.lookup.txIndex[meta.hash]
			if !ok || lm.id != meta.id {
				m.fail("a%d: lookup entry of %s missing or pointing to another store id", i, x)
			}
			if prev, dup := seenID[meta.id]; dup {
				m.fail("store id %d shared by %x and %x", meta.id, prev, meta.hash)
			}
			seenID[meta.id] = meta.hash
			data, err := p.store.Get(meta.id)
			if err != nil {
				m.fail("a%d: store item %d of %s unreadable: %v", i, meta.id, x, err)
			}
			if !bytes.Equal(data, x.enc) {
				if m.inflight[meta.hash] && !m.tornOK[meta.hash] {
					m.tornOK[meta.hash] = true
					m.c.Class("abrupt:torn-entry-indexed")
				}
				if !m.tornOK[meta.hash] {
					m.fail("a%d: store item %d does not hold %s (stored %d bytes, want %d)", i, meta.id, x, len(data), len(x.enc))
				}
			}
			if sz := p.store.Size(meta.id); sz != meta.storageSize {
				m.fail("a%d: storageSize %d != slot size %d for %s", i, meta.storageSize, sz, x)
			}
			if meta.size != x.full.Size() {
				m.fail("a%d: recorded network size %d != %d for %s", i, meta.size, x.full.Size(), x)
			}
			for _, vh := range meta.vhashes {
				if _, ok := p.lookup.blobIndex[vh][meta.hash]; !ok {
					m.fail("a%d: blob %x of %s missing from the blob lookup", i, vh, x)
				}
			}
			stored += uint64(meta.storageSize)
			total++
		}
		if !p.spent[a.addr].Eq(spent) {
			m.fail("a%d: spent %v != sum of costs %v", i, p.spent[a.addr], spent)
		}
		if spent.Gt(st.balance) {
			m.fail("a%d: pooled txs cost %v > balance %v (%s)", i, spent, st.balance, lists)
		}
		// rolling eviction fields of EVERY pooled tx vs the minima recomputed from the raw fees of the
		// nonce prefix ending at it (white-box). The tail's values are the account's eviction key; the
		// inner ones become the key as soon as the tail is evicted, included-and-reorged or dropped.
		for j := range txs {
			key, minFee, minBlob := c42AccountKey(lists[i][:j+1], m.basefee(), m.blobfee())
			mt := txs[j]
			if mt.evictionExecTip == nil || !mt.evictionExecTip.Eq(key.tip) || math.Abs(mt.evictionExecFeeJumps-minFee) > 1e-9 || math.Abs(mt.evictionBlobFeeJumps-minBlob) > 1e-9 {
				where := "inner tx"
				if j == len(txs)-1 {
					where = "tail"
				}
				m.fail("a%d: rolling eviction thresholds of the %s at position %d/%d, nonce %d (tip %v, feejumps %f, blobjumps %f) != minima recomputed from the raw fees of nonces %d..%d (tip %v, %f, %f); %s",
					i, where, j, len(txs), mt.nonce, mt.evictionExecTip, mt.evictionExecFeeJumps, mt.evictionBlobFeeJumps, txs[0].nonce, mt.nonce, key.tip, minFee, minBlob, lists)
			}
		}
	}
	if len(p.lookup.txIndex) != total {
		m.fail("tx lookup holds %d entries, index %d", len(p.lookup.txIndex), total)
	}
	for vh, set := range p.lookup.blobIndex {
		for h := range set {
			lm, ok := p.lookup.txIndex[h]
			if !ok {
				m.fail("blob lookup %x refers to untracked tx %x", vh, h)
			}
			found := false
			for _, v := range lm.vhashes {
				found = found || v == vh
			}
			if !found {
				m.fail("blob lookup %x -> %x but the tx does not carry that blob", vh, h)
			}
		}
	}
	if p.stored != stored {
		m.fail("stored counter %d != sum of slot sizes %d", p.stored, stored)
	}
	var filled uint64
	for _, sh := range p.store.Infos().Shelves {
		if sh.SlotSize > 8 {
			filled += sh.FilledSlots
		}
	}
	if filled != uint64(total) {
		m.fail("store holds %d live items, index %d txs", filled, total)
	}
	// eviction heap: membership, index map, order against recomputed keys
	h := p.evict
	if len(h.addrs) != len(p.index) || len(h.index) != len(h.addrs) {
		m.fail("eviction heap has %d addrs / %d index entries for %d accounts", len(h.addrs), len(h.index), len(p.index))
	}
	bf, blf := m.basefee(), m.blobfee()
	if math.Abs(h.basefeeJumps-c42Jumps(bf, c42Log1125)) > 1e-9 || math.Abs(h.blobfeeJumps-c42Jumps(blf, c42Log117)) > 1e-9 {
		m.fail("eviction heap fee levels (%f,%f) != head fees basefee %v blobfee %v", h.basefeeJumps, h.blobfeeJumps, bf, blf)
	}
	keys := make([]c42Key, len(h.addrs))
	for pos, addr := range h.addrs {
		if h.index[addr] != pos {
			m.fail("eviction heap index of %x is %d, position %d", addr, h.index[addr], pos)
		}
		ai := c42AcctIndex(addr)
		if ai < 0 || len(lists[ai]) == 0 {
			m.fail("eviction heap holds account %x without pooled txs", addr)
		}
		keys[pos], _, _ = c42AccountKey(lists[ai], bf, blf)
	}
	for pos := 1; pos < len(keys); pos++ {
		if keys[pos].less(keys[(pos-1)/2]) {
			m.fail("eviction heap order violated: slot %d (prio %d tip %v) below its parent slot %d (prio %d tip %v); %s", pos, keys[pos].prio,
				keys[pos].tip, (pos-1)/2, keys[(pos-1)/2].prio, keys[(pos-1)/2].tip, lists)
		}
	}
	// limbo: indices consistent with each other and the store
	lb := p.limbo
	n := 0
	for blk, ids := range lb.groups {
		if len(ids) == 0 {
			m.fail("limbo keeps an empty group for block %d", blk)
		}
		for id, owner := range ids {
			n++
			if lb.index[owner] != id {
				m.fail("limbo group %d lists %x under id %d, index says %d", blk, owner, id, lb.index[owner])
			}
			data, err := lb.store.Get(id)
			if err != nil {
				m.fail("limbo item %d unreadable: %v", id, err)
			}
			item := new(limboBlob)
			if err := rlp.DecodeBytes(data, item); err != nil {
				m.fail("limbo item %d undecodable: %v", id, err)
			}
			if item.TxHash != owner || item.Block != blk || item.Ptx.Tx.Hash() != owner {
				m.fail("limbo item %d holds %x@%d, indexed as %x@%d", id, item.TxHash, item.Block, owner, blk)
			}
			x := m.known[owner]
			if x == nil {
				m.fail("limbo holds a tx %x that was never submitted", owner)
			}
			if enc, _ := rlp.EncodeToBytes(item.Ptx); !bytes.Equal(enc, x.enc) && !m.tornOK[owner] {
				m.fail("limbo copy of %s differs from the submitted transaction", x)
			}
			if !m.everIncl[owner][blk] {
				m.fail("limbo tracks %s under block %d in which it was never included", x, blk)
			}
		}
	}
	if n != len(lb.index) {
		m.fail("limbo index has %d entries, groups %d", len(lb.index), n)
	}
	var lfilled uint64
	for _, sh := range lb.store.Infos().Shelves {
		if sh.SlotSize > 8 {
			lfilled += sh.FilledSlots
		}
	}
	if lfilled != uint64(n) {
		m.fail("limbo store holds %d live items, index %d", lfilled, n)
	}
	// retention until finality (statement): every tracked, canonically included,
	// not yet finalized tx is in the limbo
	final := m.chain.final.header.Number.Uint64()
	for _, hsh := range m.sortedLimboSet() {
		blk, ok := m.chain.canonicalBlockOf(hsh)
		if !ok {
			m.fail("VERIF-HARNESS-BUG: model limbo tracks non-canonical tx %x", hsh)
		}
		if blk <= final {
			continue
		}
		id, ok := lb.index[hsh]
		if !ok {
			m.fail("included tx %s (block %d, finalized %d) is not retained in the limbo", m.known[hsh], blk, final)
		}
		// retention until finality of the *canonical* block needs the limbo to track the tx under a block
		// that is not older than it (crash-resurrected stale copies are exempt)
		if !m.crashed {
			for rec, ids := range lb.groups {
				if _, in := ids[id]; in && rec < blk {
					m.fail("included tx %s sits in canonical block %d but the limbo tracks it under block %d: it would be dropped before its block is final", m.known[hsh], blk, rec)
				}
			}
		}
	}
	// a pooled tx is not at the same time in the limbo (after an abrupt restart deleted
	// limbo items may legitimately reappear: billy does not journal deletes)
	for hsh := range lb.index {
		if p.lookup.exists(hsh) && !m.crashed {
			m.fail("tx %s is both pooled and in the limbo", m.known[hsh])
		}
	}
}

func (m *c42Machine) sortedLimboSet() []common.Hash {
	var out []common.Hash
	for h := range m.limboSet {
		out = append(out, h)
	}
	sort.Slice(out, func(i, j int) bool { return bytes.Compare(out[i][:], out[j][:]) < 0 })
	return out
}

// checkViews compares the exported accessors with the white-box contents.
func (m *c42Machine) checkViews(deep bool) {
	p := m.pool
	lists := m.lists()
	pending, queued := p.Stats()
	total := 0
	for i := range lists {
		total += len(lists[i])
	}
	if pending != total || queued != len(p.gappedSource) {
		m.fail("Stats() = %d/%d, contents %d/%d", pending, queued, total, len(p.gappedSource))
	}
	lazy, count := p.Pending(txpool.PendingFilter{BlobTxs: true, BlobVersion: types.BlobSidecarVersion1})
	if count != total {
		m.fail("Pending count %d != pooled %d", count, total)
	}
	for i, a := range c42Accts {
		ls := lazy[a.addr]
		if len(ls) != len(lists[i]) {
			m.fail("Pending(a%d) has %d txs, index %d", i, len(ls), len(lists[i]))
		}
		for j := range ls {
			if ls[j].Hash != lists[i][j].hash {
				m.fail("Pending(a%d)[%d] differs from the index", i, j)
			}
		}
		want := head42Nonce(m, i, lists)
		if got := p.Nonce(a.addr); got != want {
			m.fail("Nonce(a%d) = %d, want %d", i, got, want)
		}
		for _, e := range lists[i] {
			x := m.known[e.hash]
			if !p.Has(e.hash) || p.Status(e.hash) != txpool.TxStatusPending {
				m.fail("Has/Status disagree for pooled %s", x)
			}
			if md := p.GetMetadata(e.hash); md == nil || md.Size != x.full.Size() || md.Type != types.BlobTxType {
				m.fail("GetMetadata wrong for %s", x)
			}
			if !c42HashesEqual(p.GetBlobHashes(e.hash), x.full.BlobHashes()) {
				m.fail("GetBlobHashes wrong for %s", x)
			}
			if deep && !m.tornOK[e.hash] {
				got := p.Get(e.hash)
				if got == nil || got.Hash() != e.hash {
					m.fail("Get(%s) failed", x)
				}
				a1, _ := rlp.EncodeToBytes(got)
				a2, _ := rlp.EncodeToBytes(x.full)
				if !bytes.Equal(a1, a2) {
					m.fail("Get(%s) returns a different transaction/sidecar", x)
				}
			}
		}
	}
	if deep {
		var vhs []common.Hash
		for i := range lists {
			for _, e := range lists[i] {
				if !m.tornOK[e.hash] {
					vhs = append(vhs, m.known[e.hash].full.BlobHashes()...)
				}
			}
		}
		if len(vhs) > 0 {
			blobs, commits, proofs, err := p.getBlobs(vhs, types.BlobSidecarVersion1)
			if err != nil {
				m.fail("getBlobs: %v", err)
			}
			for j, vh := range vhs {
				idx := testBlobIndices[vh]
				if blobs[j] == nil || *blobs[j] != *testBlobs[idx] || commits[j] != testBlobCommits[idx] || len(proofs[j]) != len(testBlobCellProofs[idx]) {
					m.fail("getBlobs returned a wrong blob/commitment/proofs for %x", vh)
				}
				for q := range proofs[j] {
					if proofs[j][q] != testBlobCellProofs[idx][q] {
						m.fail("getBlobs returned a wrong proof for %x", vh)
					}
				}
			}
		}
	}
}

func head42Nonce(m *c42Machine, i int, lists c42Lists) uint64 {
	if n := len(lists[i]); n > 0 {
		return lists[i][n-1].nonce + 1
	}
	return m.chain.head.st[i].nonce
}

// ---- actions ----

var (
	c42FeeCaps  = []uint64{7, 50, 100, 500, 2000}
	c42Tips     = []uint64{1, 2, 5, 10, 50}
	c42BlobCaps = []uint64{1, 2, 10, 100, 1000}
	c42BaseFees = []uint64{1, 7, 50, 100, 1000}
	c42Excess   = []uint64{0, 10_000_000, 30_000_000, 60_000_000}
)

func (m *c42Machine) genTx() *c42Tx {
	rt := m.rt
	ai := rapid.IntRange(0, c42NAcct-1).Draw(rt, "acct")
	st := m.chain.head.st[ai]
	lists := m.lists()
	next := head42Nonce(m, ai, lists)
	var nonce uint64
	kinds := []string{"next", "next", "next", "next", "next", "replace", "replace", "replaceMid", "replaceMid", "replaceMid", "gap", "gap2", "low"}
	if m.feeFocus {
		kinds = []string{"next", "next", "next", "next", "next", "replaceMid", "replaceMid", "replaceMid", "replaceMid", "replace", "gap"}
	}
	switch rapid.SampledFrom(kinds).Draw(rt, "nonceKind") {
	case "next":
		nonce = next
	case "replaceMid":
		// a NON-TAIL nonce of an account holding >= 2 pooled txs (the account is redrawn among those):
		// the rolling eviction minima of all followers have to be refreshed by the pool
		var cand []int
		for i := range lists {
			if len(lists[i]) >= 2 {
				cand = append(cand, i)
			}
		}
		if len(cand) > 0 {
			ai = rapid.SampledFrom(cand).Draw(rt, "midAcct")
			st = m.chain.head.st[ai]
			next = head42Nonce(m, ai, lists)
			nonce = lists[ai][rapid.IntRange(0, len(lists[ai])-2).Draw(rt, "midIdx")].nonce
			break
		}
		fallthrough
	case "replace":
		if n := len(lists[ai]); n > 0 {
			nonce = lists[ai][rapid.IntRange(0, n-1).Draw(rt, "replaceIdx")].nonce
		} else {
			nonce = next
		}
	case "gap":
		nonce = next + 1
	case "gap2":
		nonce = next + 2
	case "low":
		if st.nonce > 0 {
			nonce = st.nonce - 1
		}
	}
	tip := rapid.SampledFrom(c42Tips).Draw(rt, "tip")
	feeCap := rapid.SampledFrom(c42FeeCaps).Draw(rt, "feeCap")
	blobCap := rapid.SampledFrom(c42BlobCaps).Draw(rt, "blobCap")
	if ct := rapid.IntRange(0, 2).Draw(rt, "closeTips"); ct == 0 || (m.feeFocus && ct == 1) {
		// generous fee caps (same priority bucket for most fee levels), tips close together and
		// different per tx: the worst TIP alone decides the order between and inside accounts
		tip = uint64(rapid.IntRange(1, 12).Draw(rt, "closeTip"))
		feeCap = rapid.SampledFrom([]uint64{500, 2000, 2000}).Draw(rt, "genFeeCap")
		blobCap = rapid.SampledFrom([]uint64{100, 1000, 1000}).Draw(rt, "genBlobCap")
	}
	// replacement variants around the bump boundary of the last tx generated for this nonce
	var oldTx *types.Transaction
	for _, e := range lists[ai] {
		if e.nonce == nonce {
			oldTx = m.known[e.hash].full
		}
	}
	if prev := m.byNonce[ai][nonce]; oldTx == nil && len(prev) > 0 {
		oldTx = prev[len(prev)-1].full
	}
	bumpVariant := -1
	if oldTx != nil {
		bumpVariant = rapid.IntRange(0, 9).Draw(rt, "bumpVariant")
	}
	around := 4
	if m.feeFocus {
		around = 2
	}
	switch {
	case bumpVariant >= 0 && bumpVariant < around:
		// each cap independently on / just around its bump threshold (mostly rejected)
		old := oldTx
		variant := func(o *big.Int, label string) uint64 {
			thr := new(big.Int).Mul(o, big.NewInt(int64(100+m.bump)))
			thr.Div(thr, big.NewInt(100))
			switch rapid.SampledFrom([]string{"thr", "thr", "thr", "thr-1", "thr+1", "same", "old+1"}).Draw(rt, label) {
			case "thr-1":
				return thr.Uint64() - 1
			case "thr+1":
				return thr.Uint64() + 1
			case "same":
				return o.Uint64()
			case "old+1":
				return o.Uint64() + 1
			}
			return thr.Uint64()
		}
		tip = variant(old.GasTipCap(), "tipVariant")
		feeCap = variant(old.GasFeeCap(), "feeCapVariant")
		blobCap = variant(old.BlobGasFeeCap(), "blobCapVariant")
	case bumpVariant >= around && bumpVariant < 9:
		// all three caps at or above the bump threshold, each by its own margin (acceptable as far as
		// the price rule goes): which of the account's rolling minima move, and how far, varies freely
		up := func(o *big.Int, label string) uint64 {
			thr := new(big.Int).Mul(o, big.NewInt(int64(100+m.bump)))
			thr.Div(thr, big.NewInt(100))
			v := thr.Uint64()
			if v <= o.Uint64() {
				v = o.Uint64() + 1
			}
			switch rapid.SampledFrom([]string{"thr", "thr", "thr+1", "x2", "x5+3"}).Draw(rt, label) {
			case "thr+1":
				return v + 1
			case "x2":
				return 2 * v
			case "x5+3":
				return 5*v + 3
			}
			return v
		}
		tip = up(oldTx.GasTipCap(), "tipUp")
		feeCap = up(oldTx.GasFeeCap(), "feeCapUp")
		blobCap = up(oldTx.BlobGasFeeCap(), "blobCapUp")
	}
	if tip > feeCap && rapid.IntRange(0, 9).Draw(rt, "tipAboveCap") > 0 {
		tip = feeCap
	}
	nBlobs := rapid.SampledFrom([]int{1, 1, 1, 2}).Draw(rt, "nBlobs")
	var blobIdx []int
	for j := 0; j < nBlobs; j++ {
		blobIdx = append(blobIdx, rapid.IntRange(0, c42NBlobs-1).Draw(rt, "blob"))
	}
	gas := uint64(21000)
	if !m.feeFocus && rapid.IntRange(0, 19).Draw(rt, "gasOdd") == 0 {
		gas = rapid.SampledFrom([]uint64{20999, 30_000_001}).Draw(rt, "gas")
	}
	// value around the cumulative affordability boundary
	spent := new(uint256.Int)
	for _, e := range lists[ai] {
		if e.nonce != nonce {
			spent.Add(spent, e.cost)
		}
	}
	fees := new(uint256.Int).SetUint64(gas * feeCap)
	fees.Add(fees, new(uint256.Int).Mul(uint256.NewInt(uint64(nBlobs)*params.BlobTxBlobGasPerBlob), uint256.NewInt(blobCap)))
	value := uint256.NewInt(100)
	room := new(uint256.Int)
	if need := new(uint256.Int).Add(spent, fees); st.balance.Gt(need) {
		room.Sub(st.balance, need)
	}
	valueKinds := []string{"small", "small", "small", "small", "zero", "exact", "exact+1", "half"}
	if m.feeFocus {
		valueKinds = []string{"small", "small", "small", "small", "small", "small", "zero", "half", "exact"}
	}
	switch rapid.SampledFrom(valueKinds).Draw(rt, "valueKind") {
	case "zero":
		value = new(uint256.Int)
	case "exact":
		value = room.Clone()
	case "exact+1":
		value = new(uint256.Int).AddUint64(room, 1)
	case "half":
		value = new(uint256.Int).Rsh(room, 1)
	}
	x := c42MakeTx(ai, nonce, tip, feeCap, blobCap, gas, value, blobIdx)
	m.known[x.hash] = x
	m.byNonce[ai][nonce] = append(m.byNonce[ai][nonce], x)
	return x
}

func c42ErrClass(err error) string {
	switch {
	case err == nil:
		return "ok"
	case errors.Is(err, txpool.ErrReplaceUnderpriced):
		return "replace-underpriced"
	case errors.Is(err, txpool.ErrAlreadyKnown):
		return "already-known"
	case errors.Is(err, txpool.ErrAccountLimitExceeded):
		return "account-limit"
	case errors.Is(err, txpool.ErrTxGasPriceTooLow):
		return "tip-too-low"
	case errors.Is(err, txpool.ErrGasLimit):
		return "gas-limit"
	case strings.Contains(err.Error(), "insufficient funds"):
		return "insufficient-funds"
	case strings.Contains(err.Error(), "nonce too low"):
		return "nonce-too-low"
	case strings.Contains(err.Error(), "nonce too high"):
		return "nonce-too-high"
	case strings.Contains(err.Error(), "intrinsic gas"):
		return "intrinsic-gas"
	case strings.Contains(err.Error(), "higher than max fee"):
		return "tip-above-cap"
	default:
		return "other:" + err.Error()
	}
}

// submit pushes one transaction through the pool's admission path: the stateless
// checks on the network form, then AddPooledTx with the pre-computed cells (this is
// Add minus the KZG cell computation/verification).
func (m *c42Machine) submit(x *c42Tx, viaAdd bool) (err error) {
	defer func() {
		if r := recover(); r != nil {
			m.fail("panic while submitting %s: %v; pool before: %s", x, r, m.lists())
		}
	}()
	if viaAdd {
		return m.pool.Add([]*types.Transaction{x.full}, true)[0]
	}
	if err := m.pool.ValidateTxBasics(x.full); err != nil {
		return err
	}
	return m.pool.AddPooledTx(x.ptx)
}

func (m *c42Machine) bumpOK(old c42Entry, x *c42Tx) bool {
	ok := func(o *uint256.Int, n *big.Int) bool {
		nn := uint256.MustFromBig(n)
		if !nn.Gt(o) {
			return false
		}
		thr := new(uint256.Int).Mul(o, uint256.NewInt(100+m.bump))
		thr.Div(thr, uint256.NewInt(100))
		return !nn.Lt(thr)
	}
	return ok(old.feeCap, x.full.GasFeeCap()) && ok(old.tip, x.full.GasTipCap()) && ok(old.blobFeeCap, x.full.BlobGasFeeCap())
}

func (m *c42Machine) actAdd() {
	x := m.genTx()
	viaAdd := rapid.IntRange(0, 79).Draw(m.rt, "viaFullAdd") == 41 // rapid favours the range ends: a mid value keeps this rare
	m.doAdd(x, viaAdd)
}

func (m *c42Machine) doAdd(x *c42Tx, viaAdd bool) {
	pre := m.lists()
	preGapped := m.gappedHashes()
	var old *c42Entry
	for _, e := range pre[x.acct] {
		if e.nonce == x.nonce {
			ee := e
			old = &ee
		}
	}
	err := m.submit(x, viaAdd)
	post := m.lists()
	cls := c42ErrClass(err)
	m.tracef("add %s full=%v replace=%v -> %s; pool %s", x, viaAdd, old != nil, cls, post)
	m.c.Class("add:" + cls)
	if viaAdd {
		m.c.Class("add:via-full-Add")
	}
	_, nowGapped := m.pool.gappedSource[x.hash]
	if err != nil {
		for i := range pre {
			if !c42HashesEqual(pre.hashes(i), post.hashes(i)) {
				m.fail("rejected submission (%v) changed the pool content of a%d: %s -> %s", err, i, pre, post)
			}
		}
		if old != nil && errors.Is(err, txpool.ErrReplaceUnderpriced) {
			m.c.Class("replace:rejected")
			if m.bumpOK(*old, x) {
				m.fail("replacement meeting the %d%% bump on all three fee caps rejected as underpriced: %s over %x", m.bump, x, old.hash[:4])
			}
		}
		if old == nil && errors.Is(err, txpool.ErrReplaceUnderpriced) {
			m.fail("ErrReplaceUnderpriced without a pooled tx at that nonce: %s", x)
		}
		return
	}
	if nowGapped {
		m.c.Class("add:gapped-buffer")
		for i := range pre {
			if !c42HashesEqual(pre.hashes(i), post.hashes(i)) {
				m.fail("gapped submission changed the pool content of a%d", i)
			}
		}
		return
	}
	if old != nil {
		m.c.Class("replace:accepted")
		if !m.bumpOK(*old, x) {
			m.fail("replacement accepted without the %d%% bump on all three fee caps: %s over tip %v cap %v blobcap %v", m.bump, x, old.tip, old.feeCap, old.blobFeeCap)
		}
		if m.pool.lookup.exists(old.hash) {
			m.fail("replaced tx %x still tracked after %s", old.hash[:4], x)
		}
		thr := func(o *uint256.Int) *uint256.Int {
			t := new(uint256.Int).Mul(o, uint256.NewInt(100+m.bump))
			return t.Div(t, uint256.NewInt(100))
		}
		if uint256.MustFromBig(x.full.GasFeeCap()).Eq(thr(old.feeCap)) || uint256.MustFromBig(x.full.GasTipCap()).Eq(thr(old.tip)) ||
			uint256.MustFromBig(x.full.BlobGasFeeCap()).Eq(thr(old.blobFeeCap)) {
			m.c.Class("replace:at-boundary")
		}
		// shape of the replacement with respect to the account's rolling eviction minima
		for j, e := range pre[x.acct] {
			if e.nonce != x.nonce || j == len(pre[x.acct])-1 {
				continue
			}
			m.c.Class("replace:non-tail")
			m.midRepl++
			repl := append([]c42Entry{}, pre[x.acct]...)
			repl[j] = c42EntryOf(x, e.storageSize)
			_, f0, b0 := c42AccountKey(pre[x.acct][:j+2], m.basefee(), m.blobfee())
			_, f1, b1 := c42AccountKey(repl[:j+2], m.basefee(), m.blobfee())
			k0, _, _ := c42AccountKey(pre[x.acct], m.basefee(), m.blobfee())
			k1, _, _ := c42AccountKey(repl, m.basefee(), m.blobfee())
			if !k0.tip.Eq(k1.tip) {
				m.c.Class("replace:non-tail-moves-account-worst-tip")
				if f0 == f1 && b0 == b1 {
					// the replaced tx was the bottleneck of the followers for the tip only
					m.c.Class("replace:non-tail-moves-worst-tip-only")
					m.tipOnlyRepl++
				}
			}
		}
	}
	if m.pool.stored > m.datacap {
		m.fail("stored %d > datacap %d after a submission", m.pool.stored, m.datacap)
	}
	// eviction order: replay the submission on the model and evict by recomputed keys
	hadGapped := false
	for h := range preGapped {
		if m.known[h].acct == x.acct {
			hadGapped = true
		}
	}
	if hadGapped {
		m.c.Class("add:with-gapped-promotion")
		return
	}
	model := pre
	for i := range model {
		model[i] = append([]c42Entry{}, pre[i]...)
	}
	slot := m.slotSizeOf(x)
	if old != nil {
		for j := range model[x.acct] {
			if model[x.acct][j].nonce == x.nonce {
				model[x.acct][j] = c42EntryOf(x, slot)
			}
		}
	} else {
		model[x.acct] = append(model[x.acct], c42EntryOf(x, slot))
	}
	want, evicted, ok := c42EvictModel(model, m.datacap, m.basefee(), m.blobfee())
	if len(evicted) > 0 {
		m.evictions++
		m.c.Class("add:evicting")
	}
	if !ok {
		m.c.Class("evict:tie-unspecified")
		return
	}
	for i := range want {
		if !c42HashesEqual(want.hashes(i), post.hashes(i)) {
			m.fail("after %s (evicting %d) a%d holds %v, the documented eviction order gives %v; before: %s", x, len(evicted), i, post.hashes(i), want.hashes(i), pre)
		}
	}
}

func (m *c42Machine) slotSizeOf(x *c42Tx) uint32 {
	// slot size of the shelf the payload lands on (slotter of the pool)
	fn := newSlotterEIP7594(params.BlobTxMaxBlobs)
	for {
		sz, done := fn()
		if uint32(len(x.enc)+4) <= sz {
			return sz
		}
		if done {
			m.rt.Fatalf("VERIF-HARNESS-BUG: no shelf for %d bytes", len(x.enc))
		}
	}
}

func (m *c42Machine) actSetGasTip() {
	tip := rapid.SampledFrom([]uint64{1, 1, 2, 5, 10}).Draw(m.rt, "gasTip")
	pre := m.lists()
	old := m.gasTip
	m.guard("SetGasTip", func() { m.pool.SetGasTip(new(big.Int).SetUint64(tip)) })
	m.gasTip = tip
	post := m.lists()
	m.tracef("setGasTip %d; pool %s", tip, post)
	m.c.Class("setGasTip")
	for i := range pre {
		want := pre[i]
		if tip > old {
			want = c42TipModel(pre[i], uint256.NewInt(tip))
		}
		var w c42Lists
		w[i] = want
		if !c42HashesEqual(w.hashes(i), post.hashes(i)) {
			m.fail("SetGasTip(%d -> %d): a%d holds %v, want %v", old, tip, i, post.hashes(i), w.hashes(i))
		}
	}
}

// resetModel predicts the pool and limbo contents after Reset(old, new).
func (m *c42Machine) resetModel(pre c42Lists, oldB, newB *c42Block) (want c42Lists, ambiguous bool, inflight map[common.Hash]bool) {
	inflight = map[common.Hash]bool{}
	// walk both branches to the common ancestor
	var discarded, included []*types.Transaction
	inclusions := map[common.Hash]uint64{}
	rem, add := oldB, newB
	for rem.header.Number.Uint64() > add.header.Number.Uint64() {
		discarded = append(discarded, rem.block.Transactions()...)
		rem = rem.parent
	}
	for add.header.Number.Uint64() > rem.header.Number.Uint64() {
		for _, tx := range add.block.Transactions() {
			included = append(included, tx)
			inclusions[tx.Hash()] = add.header.Number.Uint64()
		}
		add = add.parent
	}
	for rem != add {
		discarded = append(discarded, rem.block.Transactions()...)
		rem = rem.parent
		for _, tx := range add.block.Transactions() {
			included = append(included, tx)
			inclusions[tx.Hash()] = add.header.Number.Uint64()
		}
		add = add.parent
	}
	inIncluded := map[common.Hash]bool{}
	for _, tx := range included {
		inIncluded[tx.Hash()] = true
		inflight[tx.Hash()] = true
	}
	transactor := [c42NAcct]bool{}
	lost := [c42NAcct][]*c42Tx{}
	for _, tx := range discarded {
		inflight[tx.Hash()] = true
		from, _ := types.Sender(c42Signer, tx)
		ai := c42AcctIndex(from)
		transactor[ai] = true
		if !inIncluded[tx.Hash()] && tx.Type() == types.BlobTxType {
			lost[ai] = append(lost[ai], m.known[tx.Hash()])
		}
	}
	for _, tx := range included {
		from, _ := types.Sender(c42Signer, tx)
		transactor[c42AcctIndex(from)] = true
	}
	want = pre
	for i := range want {
		if !transactor[i] {
			continue
		}
		l := append([]c42Entry{}, pre[i]...)
		for _, x := range lost[i] {
			delete(m.limboSet, x.hash) // no longer canonical
			if _, ok := m.pool.limbo.index[x.hash]; ok { // blobs available: pulled out of the limbo and reinjected
				l = append(l, c42EntryOf(x, m.slotSizeOf(x)))
			}
		}
		if len(l) == 0 {
			continue
		}
		kept, below, amb := c42RecheckModel(l, newB.st[i].nonce, newB.st[i].balance)
		ambiguous = ambiguous || amb
		want[i] = kept
		for _, e := range below {
			if _, ok := inclusions[e.hash]; ok {
				m.limboSet[e.hash] = true
			}
		}
	}
	return want, ambiguous, inflight
}

func (m *c42Machine) applyReset(oldB, newB *c42Block, label string) {
	pre := m.lists()
	preLimbo := len(m.limboSet)
	want, ambiguous, _ := m.resetModel(pre, oldB, newB)
	for b := newB; b != nil; b = b.parent {
		for _, tx := range b.block.Transactions() {
			if m.everIncl[tx.Hash()] == nil {
				m.everIncl[tx.Hash()] = map[uint64]bool{}
			}
			m.everIncl[tx.Hash()][b.header.Number.Uint64()] = true
		}
		if b == m.chain.final {
			break
		}
	}
	m.chain.head = newB
	m.guard(label, func() { m.pool.Reset(oldB.header, newB.header) })
	// finalized entries leave the model's retention set
	final := m.chain.final.header.Number.Uint64()
	for h := range m.limboSet {
		if blk, ok := m.chain.canonicalBlockOf(h); ok && blk <= final {
			delete(m.limboSet, h)
		}
	}
	post := m.lists()
	m.tracef("%s -> #%d final=#%d basefee=%v blobfee=%v txs=%d state=%s; pool %s limbo=%d", label, newB.header.Number, final, m.basefee(), m.blobfee(),
		len(newB.block.Transactions()), c42StateString(newB.st), post, len(m.pool.limbo.index))
	if len(m.limboSet) > preLimbo {
		m.c.Class("reset:offloaded-to-limbo")
	}
	if ambiguous {
		m.c.Class("reset:duplicate-nonce-unspecified")
		return
	}
	for i := range want {
		if !c42HashesEqual(want.hashes(i), post.hashes(i)) {
			m.fail("%s: a%d holds %v, the model (reinject + recheck) gives %v; before: %s", label, i, post.hashes(i), want.hashes(i), pre)
		}
	}
	// limbo entries whose recorded block is final must be gone
	for blk := range m.pool.limbo.groups {
		if blk <= final {
			m.fail("%s: limbo still tracks block %d <= finalized %d", label, blk, final)
		}
	}
}

func c42StateString(st [c42NAcct]c42AcctState) string {
	var sb []string
	for i, s := range st {
		sb = append(sb, fmt.Sprintf("a%d{n%d b%v}", i, s.nonce, s.balance))
	}
	return strings.Join(sb, " ")
}

var c42BigBalance = uint256.MustFromDecimal("1000000000000000000")

// nextState draws the post-block state: only transactors change.
func (m *c42Machine) nextState(base [c42NAcct]c42AcctState, included [c42NAcct]int, touched [c42NAcct]bool, label string) [c42NAcct]c42AcctState {
	st := base
	lists := m.lists()
	for i := range st {
		st[i].balance = base[i].balance.Clone()
		st[i].nonce += uint64(included[i])
		if !touched[i] {
			continue
		}
		balKinds := []string{"keep", "keep", "keep", "big", "big", "sum", "sum-1", "first", "zero"}
		if m.feeFocus {
			balKinds = []string{"keep", "keep", "keep", "keep", "big", "big", "big", "sum", "first"}
		}
		balKind := rapid.SampledFrom(balKinds).Draw(m.rt, label+"Balance")
		switch balKind {
		case "big":
			st[i].balance = c42BigBalance.Clone()
		case "zero":
			st[i].balance = new(uint256.Int)
		case "sum", "sum-1", "first":
			// balance at the cumulative cost of the txs that stay pooled
			sum := new(uint256.Int)
			for _, e := range lists[i] {
				if e.nonce >= st[i].nonce {
					sum.Add(sum, e.cost)
					if balKind == "first" {
						break
					}
				}
			}
			if sum.IsZero() {
				break
			}
			if balKind == "sum-1" {
				sum.SubUint64(sum, 1)
			}
			st[i].balance = sum
		}
	}
	return st
}

func (m *c42Machine) drawFees(label string) (uint64, uint64) {
	return rapid.SampledFrom(c42BaseFees).Draw(m.rt, label+"BaseFee"), rapid.SampledFrom(c42Excess).Draw(m.rt, label+"Excess")
}

func (m *c42Machine) foreignTx(ai int, nonce uint64) *types.Transaction {
	to := common.Address{0xee}
	return types.MustSignNewTx(c42Accts[ai].key, c42Signer, &types.DynamicFeeTx{ChainID: m.chain.config.ChainID, Nonce: nonce,
		GasTipCap: big.NewInt(1), GasFeeCap: big.NewInt(1000), Gas: 21000, To: &to, Value: big.NewInt(1)})
}

func (m *c42Machine) buildChild(parent *c42Block, label string) *c42Block {
	rt := m.rt
	lists := m.lists()
	var txs []*types.Transaction
	var included [c42NAcct]int
	var touched [c42NAcct]bool
	for i := 0; i < c42NAcct; i++ {
		k := rapid.SampledFrom([]int{0, 0, 1, 1, 2, 3}).Draw(rt, label+"Include")
		if m.forceInclude && k == 0 {
			k = 1
		}
		if k == 0 {
			continue
		}
		if !m.forceInclude && rapid.IntRange(0, 5).Draw(rt, label+"Foreign") == 0 {
			txs = append(txs, m.foreignTx(i, parent.st[i].nonce))
			included[i], touched[i] = 1, true
			continue
		}
		for j := 0; j < k && j < len(lists[i]); j++ {
			if lists[i][j].nonce != parent.st[i].nonce+uint64(j) {
				break
			}
			txs = append(txs, m.known[lists[i][j].hash].full.WithoutBlobTxSidecar())
			included[i]++
			touched[i] = true
		}
	}
	st := m.nextState(parent.st, included, touched, label)
	bf, ex := m.drawFees(label)
	return m.chain.newBlock(parent, txs, bf, ex, st)
}

func (m *c42Machine) drawFinal() {
	// finality may advance to any ancestor of the head not older than the current one
	var cands []*c42Block
	for b := m.chain.head; b != nil; b = b.parent {
		cands = append(cands, b)
		if b == m.chain.final {
			break
		}
	}
	if rapid.IntRange(0, 2).Draw(m.rt, "advanceFinal") == 0 {
		m.chain.final = cands[rapid.IntRange(0, len(cands)-1).Draw(m.rt, "finalDepth")]
	}
}

func (m *c42Machine) actNewHead() {
	m.drawFinal()
	parent := m.chain.head
	nb := m.buildChild(parent, "head")
	m.c.Class("newHead")
	m.applyReset(parent, nb, "newHead")
}

func (m *c42Machine) actReorg() {
	rt := m.rt
	old := m.chain.head
	if old == m.chain.final || old.parent == nil {
		m.actNewHead()
		return
	}
	depth := 1
	if old.parent != m.chain.final && old.parent.parent != nil && rapid.Bool().Draw(rt, "deep") {
		depth = 2
	}
	fork := old
	var discarded []*types.Transaction
	for d := 0; d < depth; d++ {
		discarded = append(discarded, fork.block.Transactions()...)
		fork = fork.parent
	}
	var per [c42NAcct][]*types.Transaction
	for _, tx := range discarded {
		from, _ := types.Sender(c42Signer, tx)
		per[c42AcctIndex(from)] = append(per[c42AcctIndex(from)], tx)
	}
	length := rapid.IntRange(1, 2).Draw(rt, "branchLen")
	lateAt := rapid.IntRange(1, length).Draw(rt, "reincludeAt") // block of the new branch that re-includes
	cur := fork
	wasInLimbo := 0
	for _, tx := range discarded {
		if m.limboSet[tx.Hash()] {
			wasInLimbo++
		}
	}
	// retained txs re-included one block later than before: first-class scenario
	later := wasInLimbo > 0 && rapid.Bool().Draw(rt, "reincludeLater")
	if later {
		length, lateAt = 2, 2
		m.c.Class("reorg:reinclude-later")
	}
	for bi := 1; bi <= length; bi++ {
		var txs []*types.Transaction
		var included [c42NAcct]int
		var touched [c42NAcct]bool
		// a block changes the state only of accounts that have a transaction in it (then every account whose
		// state differs between two heads is a transactor of the Reset between them, which is what the pool rechecks)
		if bi == lateAt {
			for i := range per {
				sort.Slice(per[i], func(a, b int) bool { return per[i][a].Nonce() < per[i][b].Nonce() })
				k := rapid.IntRange(0, len(per[i])).Draw(rt, "reinclude")
				if later {
					k = len(per[i])
				}
				for j := 0; j < k; j++ {
					if per[i][j].Nonce() != cur.st[i].nonce+uint64(j) {
						break
					}
					txs = append(txs, per[i][j])
					included[i]++
					touched[i] = true
				}
			}
		}
		st := m.nextState(cur.st, included, touched, fmt.Sprintf("reorg%d", bi))
		bf, ex := m.drawFees(fmt.Sprintf("reorg%d", bi))
		cur = m.chain.newBlock(cur, txs, bf, ex, st)
	}
	m.c.Class("reorg")
	m.applyReset(old, cur, fmt.Sprintf("reorg depth=%d len=%d reincludeAt=%d discarded=%d", depth, length, lateAt, len(discarded)))
	back := 0
	for _, tx := range discarded {
		if m.pool.lookup.exists(tx.Hash()) {
			back++
		}
	}
	if back > 0 && wasInLimbo > 0 {
		m.limboTrips++
		m.c.Class("reorg:limbo-round-trip")
	}
}

// ---- restarts ----

type c42PreRestart struct {
	lists  c42Lists
	limbo  map[common.Hash]bool
	stored uint64
}

func (m *c42Machine) captureRestart() c42PreRestart {
	p := c42PreRestart{lists: m.lists(), limbo: map[common.Hash]bool{}, stored: m.pool.stored}
	for h := range m.pool.limbo.index {
		p.limbo[h] = true
	}
	return p
}

// cleanModel predicts the content after Init on a cleanly closed store.
func (m *c42Machine) cleanModel(pre c42Lists) (c42Lists, bool) {
	want := pre
	for i := range want {
		want[i] = c42TipModel(pre[i], uint256.NewInt(m.gasTip))
	}
	out, _, ok := c42EvictModel(want, m.datacap, m.basefee(), m.blobfee())
	return out, ok
}

func (m *c42Machine) actCleanRestart() {
	pre := m.captureRestart()
	if err := m.pool.Close(); err != nil {
		m.fail("Close: %v", err)
	}
	if err := m.open(); err != nil {
		m.fail("reopen after clean Close failed: %v", err)
	}
	post := m.lists()
	m.tracef("clean restart; pool %s limbo=%d", post, len(m.pool.limbo.index))
	m.c.Class("restart:clean")
	want, ok := m.cleanModel(pre.lists)
	if !ok {
		m.c.Class("evict:tie-unspecified")
	} else {
		for i := range want {
			if !c42HashesEqual(want.hashes(i), post.hashes(i)) {
				m.fail("clean restart: a%d holds %v, before Close (after tip/capacity rules) %v", i, post.hashes(i), want.hashes(i))
			}
		}
	}
	if len(m.pool.limbo.index) != len(pre.limbo) {
		m.fail("clean restart: limbo has %d entries, before Close %d", len(m.pool.limbo.index), len(pre.limbo))
	}
	for h := range pre.limbo {
		if _, ok := m.pool.limbo.index[h]; !ok {
			m.fail("clean restart lost limbo entry %s", m.known[h])
		}
	}
	m.checkViews(true)
}

// c42ScanQueue lists the decodable entries of a queue-store image per sender.
func c42ScanQueue(img *crashfs.Snapshot) (per [c42NAcct]map[common.Hash]bool) {
	for i := range per {
		per[i] = map[common.Hash]bool{}
	}
	for name, data := range img.Files {
		if !strings.HasPrefix(name, pendingTransactionStore+"/") || !strings.HasSuffix(name, ".bag") {
			continue
		}
		if len(data) < billy.ShelfHeaderSize {
			continue
		}
		slot := int(binary.BigEndian.Uint32(data[7:11]))
		if slot <= 8 {
			continue
		}
		for off := billy.ShelfHeaderSize; off+4 <= len(data); off += slot {
			size := int(binary.BigEndian.Uint32(data[off : off+4]))
			if size == 0 || off+4+size > len(data) || size+4 > slot {
				continue
			}
			var ptx BlobTxForPool
			if err := rlp.DecodeBytes(data[off+4:off+4+size], &ptx); err != nil {
				continue
			}
			from, err := types.Sender(c42Signer, ptx.Tx)
			if err != nil {
				continue
			}
			if ai := c42AcctIndex(from); ai >= 0 {
				per[ai][ptx.Tx.Hash()] = true
			}
		}
	}
	return per
}

// abruptReopen discards the live pool (closing it only to release its resources;
// the image was taken before), materialises the image in a fresh datadir and opens
// a new pool on it. pre/post are the pool contents before/after the operation
// during which the image was taken (equal for a boundary image).
func (m *c42Machine) abruptReopen(img *crashfs.Snapshot, note string, pre, post c42PreRestart, boundary bool, inflight map[common.Hash]bool) {
	m.c.Fault()
	_ = m.pool.Close()
	os.RemoveAll(m.dir)
	m.dir = m.newDir()
	if err := img.WriteTo(m.dir); err != nil {
		m.rt.Fatalf("VERIF-HARNESS-BUG: writing image: %v", err)
	}
	m.inflight = inflight
	m.crashed = true
	defer func() { m.inflight = nil }()
	populated := 0
	for i := range pre.lists {
		if len(pre.lists[i]) > 0 {
			populated++
		}
	}
	if populated >= 2 {
		m.abruptMulti++
	}
	if err := m.open(); err != nil {
		m.fail("reopen on crash image (%s) failed: %v", note, err)
	}
	got := m.lists()
	m.tracef("abrupt restart on image [%s]; pool %s limbo=%d", note, got, len(m.pool.limbo.index))
	// which accounts see only entries that were live before or after the operation?
	scan := c42ScanQueue(img)
	resurrectedAny := false
	var resurrected [c42NAcct]bool
	for i := range scan {
		live := map[common.Hash]bool{}
		for _, h := range pre.lists.hashes(i) {
			live[h] = true
		}
		for _, h := range post.lists.hashes(i) {
			live[h] = true
		}
		for h := range scan[i] {
			if !live[h] {
				resurrected[i] = true
				resurrectedAny = true
			}
		}
	}
	for i := range got {
		if resurrected[i] {
			m.c.Class("abrupt:account-with-resurrected-entries")
			continue
		}
		g := got.hashes(i)
		if !c42IsPrefix(g, pre.lists.hashes(i)) && !c42IsPrefix(g, post.lists.hashes(i)) {
			m.fail("abrupt restart [%s]: a%d holds %v, neither a prefix of the content before the interrupted operation %v nor after it %v",
				note, i, g, pre.lists.hashes(i), post.lists.hashes(i))
		}
	}
	if boundary && !resurrectedAny {
		m.c.Class("abrupt:boundary-exact")
		want, ok := m.cleanModel(pre.lists)
		if ok {
			for i := range want {
				if !c42HashesEqual(want.hashes(i), got.hashes(i)) {
					m.fail("abrupt restart [%s] without resurrected entries: a%d holds %v, want %v", note, i, got.hashes(i), want.hashes(i))
				}
			}
		}
	}
	// limbo: nothing that both the pre- and post-operation limbo held may be lost
	for h := range pre.limbo {
		if !post.limbo[h] || inflight[h] {
			continue
		}
		if _, ok := m.pool.limbo.index[h]; !ok {
			m.fail("abrupt restart [%s] lost limbo entry %s", note, m.known[h])
		}
	}
	// the retention set of the model must not claim entries the image cannot have
	// (txs in flight of the interrupted operation are exempt from the retention check from now on: the
	// image may hold them under a stale block — limbo.update is delete-then-put — or not at all)
	for h := range m.limboSet {
		if inflight[h] {
			delete(m.limboSet, h)
		}
	}
	m.checkInvariants()
	m.checkViews(true)
}

func (m *c42Machine) actAbruptBoundary() {
	pre := m.captureRestart()
	img, err := crashfs.Snap(m.dir)
	if err != nil {
		m.rt.Fatalf("VERIF-HARNESS-BUG: snap: %v", err)
	}
	m.c.Class("restart:abrupt-boundary")
	m.abruptReopen(img, "operation boundary", pre, pre, true, nil)
}

// actAbruptMidOp performs an operation while a crash point is armed at one of its
// store mutations (or inside its first slot write), then restarts on that image.
func (m *c42Machine) actAbruptMidOp() {
	rt := m.rt
	pre := m.captureRestart()
	kind := rapid.SampledFrom([]string{"add", "add", "newHead", "reorg"}).Draw(rt, "crashOp")
	mode := rapid.SampledFrom([]string{"event", "event", "cut"}).Draw(rt, "crashMode")
	m.armed, m.evCount, m.image, m.cutBefore = mode, 0, nil, nil
	m.crashAt = rapid.SampledFrom([]int{1, 1, 1, 2, 2, 3}).Draw(rt, "crashAtEvent")
	if mode == "cut" {
		m.crashAt = 1
		m.cutK = rapid.SampledFrom([]float64{0, 0.000005, 0.001, 0.01, 0.5, 0.97, 0.999999}).Draw(rt, "cutFraction")
		m.cutZero = rapid.Bool().Draw(rt, "cutZeroExtend")
	}
	inflight := map[common.Hash]bool{}
	switch kind {
	case "add":
		x := m.genTx()
		inflight[x.hash] = true
		for _, e := range pre.lists[x.acct] {
			if e.nonce == x.nonce {
				inflight[e.hash] = true
			}
		}
		m.doAdd(x, false)
	case "newHead":
		old := m.chain.head
		m.actNewHead()
		for _, tx := range m.chain.head.block.Transactions() {
			inflight[tx.Hash()] = true
		}
		_ = old
	case "reorg":
		old := m.chain.head
		m.actReorg()
		for b := old; b != nil && b != m.chain.final; b = b.parent {
			for _, tx := range b.block.Transactions() {
				inflight[tx.Hash()] = true
			}
		}
		for b := m.chain.head; b != nil && b != m.chain.final; b = b.parent {
			for _, tx := range b.block.Transactions() {
				inflight[tx.Hash()] = true
			}
		}
	}
	m.armed = ""
	m.checkInvariants() // the live pool completed the operation
	post := m.captureRestart()
	img, note, boundary := m.image, m.imageNote, false
	if img == nil {
		s, err := crashfs.Snap(m.dir)
		if err != nil {
			m.rt.Fatalf("VERIF-HARNESS-BUG: snap: %v", err)
		}
		img, note, boundary = s, "operation boundary (operation had fewer store events)", true
		pre = post
		inflight = nil
		m.c.Class("restart:abrupt-boundary")
	} else {
		m.c.Class("restart:abrupt-mid-" + kind + "-" + mode)
	}
	m.image, m.cutBefore = nil, nil
	m.abruptReopen(img, kind+": "+note, pre, post, boundary, inflight)
}

// ---- driver ----

// c42ScratchBase returns the directory below which the per-case datadirs live: a
// memory-backed filesystem when available (pool Init creates and fsyncs ~30 shelf
// files per fresh datadir, which dominates wall time on a loaded disk), else TMPDIR.
// Leftovers of dead processes are removed.
func c42ScratchBase() string {
	const shm = "/dev/shm"
	if fi, err := os.Stat(shm); err != nil || !fi.IsDir() || os.Getenv("VERIF_C42_NO_SHM") != "" {
		return ""
	}
	probe, err := os.MkdirTemp(shm, "verif-c42-probe-")
	if err != nil {
		return ""
	}
	os.RemoveAll(probe)
	c42ScratchOnce.Do(func() {
		ents, _ := os.ReadDir(shm)
		for _, e := range ents {
			var pid int
			if n, _ := fmt.Sscanf(e.Name(), "verif-c42-%d-", &pid); n == 1 && pid > 0 {
				if _, err := os.Stat(fmt.Sprintf("/proc/%d", pid)); os.IsNotExist(err) {
					os.RemoveAll(filepath.Join(shm, e.Name()))
				}
			}
		}
	})
	return shm
}

var c42ScratchOnce sync.Once

func c42Run(t *testing.T, rt *rapid.T, st *vs.S, feeFocus bool) {
	c := st.Case()
	root, err := os.MkdirTemp(c42ScratchBase(), fmt.Sprintf("verif-c42-%d-", os.Getpid()))
	if err != nil {
		rt.Fatalf("VERIF-HARNESS-BUG: %v", err)
	}
	defer os.RemoveAll(root)

	m := &c42Machine{rt: rt, t: t, st: st, c: c, root: root, known: map[common.Hash]*c42Tx{}, limboSet: map[common.Hash]bool{},
		everIncl: map[common.Hash]map[uint64]bool{}, tornOK: map[common.Hash]bool{}, feeFocus: feeFocus}
	for i := range m.byNonce {
		m.byNonce[i] = map[uint64][]*c42Tx{}
	}
	slot1 := uint64(4096 + 2*(blobSize+int(txBlobOverhead))) // shelf of a one-blob tx (cells are twice the blob)
	slots := []int{3, 4, 4, 6, 8}
	if feeFocus {
		slots = []int{4, 6, 8, 8, 12}
	}
	m.datacap = slot1 * uint64(rapid.SampledFrom(slots).Draw(rt, "datacapSlots"))
	m.bump = rapid.SampledFrom([]uint64{100, 100, 10}).Draw(rt, "priceBump")
	m.gasTip = 1

	chain := &c42Chain{config: params.MergedTestChainConfig, blocks: map[common.Hash]*c42Block{}}
	var gst [c42NAcct]c42AcctState
	for i := range gst {
		gst[i] = c42AcctState{nonce: uint64(rapid.SampledFrom([]int{0, 0, 3, 12}).Draw(rt, "genesisNonce")), balance: c42BigBalance.Clone()}
	}
	chain.genesis = chain.newBlock(nil, nil, 7, 0, gst)
	chain.head, chain.final = chain.genesis, chain.genesis
	m.chain = chain
	m.dir = m.newDir()
	if err := m.open(); err != nil {
		rt.Fatalf("VERIF-HARNESS-BUG: initial Init: %v", err)
	}
	defer func() { m.pool.Close() }()
	m.tracef("datacap=%d (%d one-blob slots) bump=%d genesis %s", m.datacap, m.datacap/slot1, m.bump, c42StateString(gst))

	actions := []string{"add", "add", "add", "add", "add", "add", "add", "add", "add", "add", "newHead", "newHead", "newHead",
		"reorg", "inclReorg", "inclReorg", "setGasTip", "clean", "abruptBoundary", "abruptMidOp", "abruptMidOp"}
	steps := 0
	if feeFocus {
		actions = []string{"add", "add", "add", "add", "add", "add", "add", "add", "add", "add", "add", "add", "add", "add", "add", "add",
			"newHead", "reorg", "setGasTip", "clean", "clean", "abruptBoundary"}
		steps = rapid.IntRange(12, 40).Draw(rt, "steps")
	} else {
		steps = rapid.IntRange(4, 25).Draw(rt, "steps")
	}
	for s := 0; s < steps; s++ {
		switch rapid.SampledFrom(actions).Draw(rt, "action") {
		case "add":
			m.actAdd()
		case "newHead":
			m.actNewHead()
		case "reorg":
			m.actReorg()
		case "inclReorg":
			m.forceInclude = true
			m.actNewHead()
			m.forceInclude = false
			m.checkInvariants()
			m.actReorg()
		case "setGasTip":
			m.actSetGasTip()
		case "clean":
			m.actCleanRestart()
		case "abruptBoundary":
			m.actAbruptBoundary()
		case "abruptMidOp":
			m.actAbruptMidOp()
		}
		m.checkInvariants()
		m.checkViews(s%6 == 5)
	}
	if len(m.res.breaches) > 0 {
		c.Class("reserver-breach")
		st.Note("reserver protocol breach observed (not asserted): %v", m.res.breaches[0])
	}
	nt := m.evictions > 0 || m.limboTrips > 0 || m.abruptMulti > 0 || m.midRepl > 0
	if m.midRepl > 0 {
		c.Class("history:non-tail-replacement")
	}
	if m.tipOnlyRepl > 0 {
		c.Class("history:non-tail-replacement-moving-worst-tip-only")
	}
	if m.evictions > 0 {
		c.Class("history:eviction")
	}
	if m.limboTrips > 0 {
		c.Class("history:limbo-round-trip")
	}
	if m.abruptMulti > 0 {
		c.Class("history:abrupt-restart-2+accounts")
	}
	c.NonTrivial(nt, m.traceString())
	c.Sample(nt, func() any {
		tr := m.trace
		if len(tr) > 10 {
			tr = tr[:10]
		}
		return map[string]any{"steps": steps, "evictions": m.evictions, "limbo_round_trips": m.limboTrips, "abrupt_restarts_2acc": m.abruptMulti, "non_tail_replacements": m.midRepl, "trace_head": tr}
	})
}

// c42OpenRun writes an arbitrary set of leftovers (what a crash may resurrect: nonces
// below, at and above the state nonce, gaps, duplicates, overdrafts, low tips, more
// data than the cap) straight into a fresh queue store and opens a pool on it. The
// content must be what the documented cleanup rules leave, and all invariants hold.
func c42OpenRun(t *testing.T, rt *rapid.T, st *vs.S) {
	c := st.Case()
	root, err := os.MkdirTemp(c42ScratchBase(), fmt.Sprintf("verif-c42-%d-", os.Getpid()))
	if err != nil {
		rt.Fatalf("VERIF-HARNESS-BUG: %v", err)
	}
	defer os.RemoveAll(root)
	m := &c42Machine{rt: rt, t: t, st: st, c: c, root: root, known: map[common.Hash]*c42Tx{}, limboSet: map[common.Hash]bool{},
		everIncl: map[common.Hash]map[uint64]bool{}, tornOK: map[common.Hash]bool{}}
	for i := range m.byNonce {
		m.byNonce[i] = map[uint64][]*c42Tx{}
	}
	slot1 := uint64(4096 + 2*(blobSize+int(txBlobOverhead)))
	m.datacap = slot1 * uint64(rapid.SampledFrom([]int{2, 4, 8, 8}).Draw(rt, "datacapSlots"))
	m.bump = 100
	m.gasTip = rapid.SampledFrom([]uint64{1, 1, 5}).Draw(rt, "gasTip")
	chain := &c42Chain{config: params.MergedTestChainConfig, blocks: map[common.Hash]*c42Block{}}
	var gst [c42NAcct]c42AcctState
	for i := range gst {
		gst[i] = c42AcctState{nonce: uint64(rapid.SampledFrom([]int{0, 2, 5}).Draw(rt, "stateNonce")), balance: c42BigBalance.Clone()}
	}
	// leftovers
	var lists c42Lists
	var all []*c42Tx
	for i := 0; i < c42NAcct; i++ {
		n := rapid.SampledFrom([]int{0, 1, 2, 3, 4}).Draw(rt, "entries")
		for j := 0; j < n; j++ {
			off := rapid.SampledFrom([]int{-2, -1, 0, 0, 1, 1, 2, 3}).Draw(rt, "nonceOffset")
			if int(gst[i].nonce)+off < 0 {
				off = 0
			}
			nonce := uint64(int(gst[i].nonce) + off)
			x := c42MakeTx(i, nonce, rapid.SampledFrom(c42Tips).Draw(rt, "tip")+uint64(j), rapid.SampledFrom(c42FeeCaps).Draw(rt, "feeCap")+50,
				rapid.SampledFrom(c42BlobCaps).Draw(rt, "blobCap"), 21000, uint256.NewInt(uint64(100+j)), []int{rapid.IntRange(0, c42NBlobs-1).Draw(rt, "blob")})
			m.known[x.hash] = x
			all = append(all, x)
			lists[i] = append(lists[i], c42EntryOf(x, m.slotSizeOf(x)))
		}
		if len(lists[i]) > 0 && rapid.IntRange(0, 3).Draw(rt, "tightBalance") == 0 {
			// balance covering only some of the entries
			sum := new(uint256.Int)
			k := rapid.IntRange(1, len(lists[i])).Draw(rt, "affordable")
			for _, e := range lists[i][:k] {
				sum.Add(sum, e.cost)
			}
			gst[i].balance = sum
		}
	}
	chain.genesis = chain.newBlock(nil, nil, rapid.SampledFrom(c42BaseFees).Draw(rt, "baseFee"), rapid.SampledFrom(c42Excess).Draw(rt, "excess"), gst)
	chain.head, chain.final = chain.genesis, chain.genesis
	m.chain = chain
	m.dir = m.newDir()
	qdir := filepath.Join(m.dir, pendingTransactionStore)
	if err := os.MkdirAll(qdir, 0o700); err != nil {
		rt.Fatalf("VERIF-HARNESS-BUG: %v", err)
	}
	store, err := billy.Open(billy.Options{Path: qdir}, newSlotterEIP7594(params.BlobTxMaxBlobs), nil)
	if err != nil {
		rt.Fatalf("VERIF-HARNESS-BUG: billy.Open: %v", err)
	}
	// shuffled write order
	perm := rapid.Permutation(all).Draw(rt, "writeOrder")
	for _, x := range perm {
		if _, err := store.Put(x.enc); err != nil {
			rt.Fatalf("VERIF-HARNESS-BUG: billy.Put: %v", err)
		}
	}
	store.Close()
	m.tracef("leftovers %s state %s gasTip=%d datacap=%d", lists, c42StateString(gst), m.gasTip, m.datacap)
	if err := m.open(); err != nil {
		m.fail("Init on leftovers failed: %v", err)
	}
	defer func() { m.pool.Close() }()
	m.crashed = true
	got := m.lists()
	m.tracef("after Init: pool %s", got)
	m.checkInvariants()
	m.checkViews(true)
	var want c42Lists
	ambiguous, interesting := false, false
	for i := range lists {
		kept, below, amb := c42RecheckModel(lists[i], gst[i].nonce, gst[i].balance)
		ambiguous = ambiguous || amb
		want[i] = c42TipModel(kept, uint256.NewInt(m.gasTip))
		if len(below) > 0 && len(kept) < len(lists[i])-len(below) {
			interesting = true
			c.Class("open:below-and-dropped-tail")
		}
		if len(want[i]) < len(lists[i]) {
			c.Class("open:dropped-some")
		}
	}
	want, _, ok := c42EvictModel(want, m.datacap, m.basefee(), m.blobfee())
	switch {
	case ambiguous:
		c.Class("open:duplicate-nonce-unspecified")
	case !ok:
		c.Class("evict:tie-unspecified")
	default:
		for i := range want {
			if !c42HashesEqual(want.hashes(i), got.hashes(i)) {
				m.fail("Init on leftovers: a%d holds %v, the documented cleanup rules give %v", i, got.hashes(i), want.hashes(i))
			}
		}
	}
	c.NonTrivial(interesting || len(all) >= 4, m.traceString())
	c.Sample(interesting, func() any { return map[string]any{"trace": m.trace} })
}

// TestVerifC42Open opens pools on arbitrary leftover stores.
func TestVerifC42Open(t *testing.T) {
	c42Material(t)
	st := vs.New("C42", t)
	vs.Check(t, 0.5, func(rt *rapid.T) { c42OpenRun(t, rt, st) })
}

// TestVerifC42Machine runs random histories with restarts against a real BlobPool.
func TestVerifC42Machine(t *testing.T) {
	c42Material(t)
	st := vs.New("C42", t)
	vs.Check(t, 1, func(rt *rapid.T) { c42Run(t, rt, st, false) })
}

// TestVerifC42Fees runs the same machine (same oracle and reference model) with a submission-dense
// profile: larger capacity so that accounts hold several txs, frequent replacements of ANY pooled nonce
// (mostly non-tail) that meet the price bump with independent margins per cap, generous fee caps with
// tips close together across accounts, then overflow and restarts. Exercises the refresh of the
// per-account rolling eviction minima and of the eviction heap after a change in the middle of a
// nonce sequence.
func TestVerifC42Fees(t *testing.T) {
	c42Material(t)
	st := vs.New("C42", t)
	vs.Check(t, 0.5, func(rt *rapid.T) { c42Run(t, rt, st, true) })
}
