//go:build verif

package legacypool

// C41 — legacy pool invariants under random histories.
//
// A rapid-driven history (submissions incl. replacements/gaps/multi-slot/set-code,
// tip changes, head changes with inclusion and state mutation, reorgs over a block
// tree served by the harness chain, idle maintenance cycles) is applied to a real
// LegacyPool with tiny limits. After every barrier the white-box invariants of the
// property statement are evaluated (see c41CheckInvariants).

import (
	"crypto/ecdsa"
	"errors"
	"fmt"
	"math/big"
	"sort"
	"strings"
	"sync"
	"testing"
	"time"

	"github.com/ethereum/go-ethereum/common"
	"github.com/ethereum/go-ethereum/core/state"
	"github.com/ethereum/go-ethereum/core/tracing"
	"github.com/ethereum/go-ethereum/core/txpool"
	"github.com/ethereum/go-ethereum/core/types"
	"github.com/ethereum/go-ethereum/crypto"
	"github.com/ethereum/go-ethereum/params"
	"github.com/ethereum/go-ethereum/trie"
	"github.com/holiman/uint256"
	"pgregory.net/rapid"
	vs "verif.local/kit/stat"
)

const c41NAcct = 4

type c41Acct struct {
	key  *ecdsa.PrivateKey
	addr common.Address
}

var c41Accts = func() [c41NAcct]c41Acct {
	var out [c41NAcct]c41Acct
	for i := range out {
		k, err := crypto.ToECDSA(crypto.Keccak256([]byte(fmt.Sprintf("verif-c41-key-%d", i))))
		if err != nil {
			panic(err)
		}
		out[i] = c41Acct{key: k, addr: crypto.PubkeyToAddress(k.PublicKey)}
	}
	return out
}()

func c41AcctIndex(a common.Address) int {
	for i := range c41Accts {
		if c41Accts[i].addr == a {
			return i
		}
	}
	return -1
}

// ---- harness chain: a block tree with a small account model per block ----

type c41AcctState struct {
	nonce     uint64
	balance   *uint256.Int
	delegated bool
}

type c41Block struct {
	block  *types.Block
	header *types.Header
	parent *c41Block
	st     [c41NAcct]c41AcctState
}

type c41Chain struct {
	mu      sync.Mutex
	config  *params.ChainConfig
	blocks  map[common.Hash]*c41Block
	head    *c41Block
	genesis *c41Block
	salt    uint64
}

func (c *c41Chain) Config() *params.ChainConfig { return c.config }
func (c *c41Chain) CurrentBlock() *types.Header {
	c.mu.Lock()
	defer c.mu.Unlock()
	return c.head.header
}
func (c *c41Chain) Genesis() *types.Block { return c.genesis.block }
func (c *c41Chain) GetBlock(hash common.Hash, number uint64) *types.Block {
	c.mu.Lock()
	defer c.mu.Unlock()
	b := c.blocks[hash]
	if b == nil || b.header.Number.Uint64() != number {
		return nil
	}
	return b.block
}
func (c *c41Chain) StateAt(header *types.Header) (*state.StateDB, error) {
	c.mu.Lock()
	b := c.blocks[header.Hash()]
	c.mu.Unlock()
	if b == nil {
		return nil, fmt.Errorf("unknown header %x", header.Hash())
	}
	sdb, err := state.New(types.EmptyRootHash, state.NewDatabaseForTesting())
	if err != nil {
		return nil, err
	}
	for i, a := range c41Accts {
		s := b.st[i]
		sdb.SetNonce(a.addr, s.nonce, tracing.NonceChangeUnspecified)
		sdb.SetBalance(a.addr, s.balance.Clone(), tracing.BalanceChangeUnspecified)
		if s.delegated {
			sdb.SetCode(a.addr, types.AddressToDelegation(common.Address{0x42}), tracing.CodeChangeUnspecified)
		}
	}
	return sdb, nil
}

func (c *c41Chain) newBlock(parent *c41Block, txs []*types.Transaction, gasLimit, gasUsed uint64, baseFee *big.Int, st [c41NAcct]c41AcctState) *c41Block {
	c.salt++
	h := &types.Header{
		Difficulty: new(big.Int),
		GasLimit:   gasLimit,
		GasUsed:    gasUsed,
		BaseFee:    new(big.Int).Set(baseFee),
		Extra:      []byte(fmt.Sprintf("c41-%d", c.salt)),
	}
	if parent == nil {
		h.Number = new(big.Int)
		h.Time = 1
	} else {
		h.Number = new(big.Int).Add(parent.header.Number, big.NewInt(1))
		h.ParentHash = parent.header.Hash()
		h.Time = parent.header.Time + 12
	}
	blk := types.NewBlock(h, &types.Body{Transactions: txs}, nil, trie.NewStackTrie(nil))
	b := &c41Block{block: blk, header: blk.Header(), parent: parent, st: st}
	c.mu.Lock()
	c.blocks[b.header.Hash()] = b
	c.mu.Unlock()
	return b
}

// c41Reserver mirrors the txpool reserver contract without panicking; protocol
// breaches are recorded (reported as notes only, not part of the statement).
type c41Reserver struct {
	mu       sync.Mutex
	accounts map[common.Address]struct{}
	breaches []string
}

func (r *c41Reserver) Hold(addr common.Address) error {
	r.mu.Lock()
	defer r.mu.Unlock()
	if _, ok := r.accounts[addr]; ok {
		r.breaches = append(r.breaches, "double hold")
		return errors.New("already reserved")
	}
	r.accounts[addr] = struct{}{}
	return nil
}
func (r *c41Reserver) Release(addr common.Address) error {
	r.mu.Lock()
	defer r.mu.Unlock()
	if _, ok := r.accounts[addr]; !ok {
		r.breaches = append(r.breaches, "release of unreserved")
		return errors.New("not reserved")
	}
	delete(r.accounts, addr)
	return nil
}
func (r *c41Reserver) Has(common.Address) bool { return false }

// ---- the machine ----

type c41Machine struct {
	rt    *rapid.T
	cfg   Config
	chain *c41Chain
	pool  *LegacyPool
	res   *c41Reserver
	// every tx ever generated, per account and nonce, in generation order
	log [c41NAcct]map[uint64][]*types.Transaction

	trace []string
	// non-trivial markers
	evictions, boundaryRepl, resurrected int
	fullReset                           bool // last barrier was a double idle cycle

	st   *vs.S
	stop bool // history ended early (known-finding trigger reached)
}

// c41KnownGap reports whether the finding "reorg-reinject-gap" is listed with status
// "known" by the lead (it is recorded as fixed in /repo 86d662e9d5, so the gate is
// inactive and the gapless-pending assertion is fully strict).
func c41KnownGap() bool {
	return vs.Known("TestVerifC41Machine", "reorg-reinject-gap")
}

// reorgGapTrigger detects the exact signature of the known finding after a reorg
// that lowered an account's state nonce from O (old branch) to S (new branch): the
// pending list survived, but some nonce N in [S, O) — consumed on the old branch, so
// the pool could not hold it — was not supplied by reinjection (tx rejected/evicted
// on reinjection, or the nonce was consumed by an authorization), leaving a gap
// inside the pending list, which demoteUnexecutables only repairs at the front.
func (m *c41Machine) reorgGapTrigger(old *c41Block) bool {
	m.pool.mu.RLock()
	defer m.pool.mu.RUnlock()
	for i := range c41Accts {
		l := m.pool.pending[c41Accts[i].addr]
		if l == nil || l.Len() == 0 {
			continue
		}
		S, O := m.chain.head.st[i].nonce, old.st[i].nonce
		last := l.LastElement().Nonce()
		for n := S; n < O && n < last; n++ {
			if l.txs.Get(n) == nil {
				return true
			}
		}
	}
	return false
}

func (m *c41Machine) tracef(format string, a ...any) {
	m.trace = append(m.trace, fmt.Sprintf(format, a...))
}

var (
	c41BigBalance = uint256.MustFromDecimal("1000000000000000000") // 1e18
	c41Signer     = types.LatestSignerForChainID(params.MergedTestChainConfig.ChainID)
)

func c41Threshold(old *big.Int, bump uint64) *big.Int {
	x := new(big.Int).Mul(old, big.NewInt(int64(100+bump)))
	return x.Div(x, big.NewInt(100))
}

// c41BumpOK is the documented replacement rule: both fee cap and tip strictly
// higher than the old ones and at least old*(100+bump)/100.
func c41BumpOK(old, tx *types.Transaction, bump uint64) bool {
	if tx.GasFeeCap().Cmp(old.GasFeeCap()) <= 0 || tx.GasTipCap().Cmp(old.GasTipCap()) <= 0 {
		return false
	}
	return tx.GasFeeCap().Cmp(c41Threshold(old.GasFeeCap(), bump)) >= 0 &&
		tx.GasTipCap().Cmp(c41Threshold(old.GasTipCap(), bump)) >= 0
}

func (m *c41Machine) headState(i int) c41AcctState { return m.chain.head.st[i] }

// priceVariant derives a price from an old one around the bump boundary.
func (m *c41Machine) priceVariant(old *big.Int, label string) *big.Int {
	thr := c41Threshold(old, m.cfg.PriceBump)
	switch rapid.SampledFrom([]string{"same", "old+1", "thr-1", "thr", "thr", "thr+1", "double"}).Draw(m.rt, label) {
	case "same":
		return new(big.Int).Set(old)
	case "old+1":
		return new(big.Int).Add(old, big.NewInt(1))
	case "thr-1":
		v := new(big.Int).Sub(thr, big.NewInt(1))
		if v.Sign() < 0 {
			v.SetUint64(0)
		}
		return v
	case "thr":
		return thr
	case "thr+1":
		return new(big.Int).Add(thr, big.NewInt(1))
	default:
		return new(big.Int).Mul(old, big.NewInt(2))
	}
}

var c41Prices = []uint64{1, 2, 10, 11, 20, 50, 100, 100, 110, 200, 1000}

// genTx draws one transaction. All draws are independent of pool internals except
// for the pool's virtual nonce (used as one of several nonce bases).
func (m *c41Machine) genTx() (*types.Transaction, int) {
	rt := m.rt
	ai := rapid.IntRange(0, c41NAcct-1).Draw(rt, "acct")
	acct := c41Accts[ai]
	st := m.headState(ai)
	var nonce uint64
	switch rapid.SampledFrom([]string{"next", "next", "next", "state", "state", "+1", "+2", "+3", "+5", "-1"}).Draw(rt, "nonceKind") {
	case "next":
		nonce = m.pool.Nonce(acct.addr)
	case "state":
		nonce = st.nonce
	case "+1":
		nonce = st.nonce + 1
	case "+2":
		nonce = st.nonce + 2
	case "+3":
		nonce = st.nonce + 3
	case "+5":
		nonce = st.nonce + 5
	case "-1":
		if st.nonce > 0 {
			nonce = st.nonce - 1
		}
	}
	head := m.chain.head.header
	kind := rapid.SampledFrom([]string{"legacy", "legacy", "legacy", "dynamic", "dynamic", "dynamic", "accesslist", "setcode"}).Draw(rt, "txType")

	// prices
	var feeCap, tip *big.Int
	prev := m.log[ai][nonce]
	if len(prev) > 0 && rapid.IntRange(0, 9).Draw(rt, "replaceVariant") < 8 {
		old := prev[len(prev)-1]
		feeCap = m.priceVariant(old.GasFeeCap(), "feeCapVariant")
		if kind == "legacy" || kind == "accesslist" {
			tip = feeCap
		} else {
			tip = m.priceVariant(old.GasTipCap(), "tipVariant")
			if tip.Cmp(feeCap) > 0 && rapid.IntRange(0, 9).Draw(rt, "keepTipAboveCap") > 0 {
				tip = new(big.Int).Set(feeCap)
			}
		}
	} else {
		feeCap = new(big.Int).SetUint64(rapid.SampledFrom(c41Prices).Draw(rt, "feeCap"))
		if kind == "legacy" || kind == "accesslist" {
			tip = feeCap
		} else {
			tip = new(big.Int).SetUint64(rapid.SampledFrom(c41Prices).Draw(rt, "tip"))
			if tip.Cmp(feeCap) > 0 && rapid.IntRange(0, 19).Draw(rt, "keepTipAboveCap") > 0 {
				tip = new(big.Int).Set(feeCap)
			}
		}
	}

	// data and gas
	var data []byte
	gas := uint64(21000)
	switch rapid.IntRange(0, 39).Draw(rt, "dataKind") {
	case 0, 1:
		data = make([]byte, 32*1024+1) // two slots
	case 2, 3:
		data = make([]byte, 70000) // three slots
	case 4:
		if rapid.IntRange(0, 3).Draw(rt, "oversized") == 0 {
			data = make([]byte, txMaxSize+1)
		}
	}
	if len(data) > 0 {
		gas = 21000 + 10*uint64(len(data)) // covers intrinsic (4/zero byte) and the EIP-7623 floor (10/token)
	}
	if kind == "setcode" {
		gas = 21000 + 2*25000 + 2600*2
	}
	switch rapid.SampledFrom([]string{"min", "min", "min", "min", "min", "min", "min", "min", "more", "more", "more", "limit", "limit", "limit+1", "low"}).Draw(rt, "gasKind") {
	case "more":
		gas += 30000
	case "limit":
		if head.GasLimit > gas {
			gas = head.GasLimit
		}
	case "limit+1":
		if head.GasLimit+1 > gas {
			gas = head.GasLimit + 1
		}
	case "low":
		gas -= 1
	}

	// value around the affordability boundary
	gasCost := new(big.Int).Mul(feeCap, new(big.Int).SetUint64(gas))
	room := new(big.Int).Sub(st.balance.ToBig(), gasCost)
	var value *big.Int
	switch rapid.SampledFrom([]string{"zero", "zero", "zero", "zero", "small", "small", "small", "small", "exact", "exact", "exact+1", "half", "half", "third", "huge"}).Draw(rt, "valueKind") {
	case "zero":
		value = new(big.Int)
	case "small":
		value = big.NewInt(100)
	case "exact":
		value = new(big.Int).Set(room)
	case "exact+1":
		value = new(big.Int).Add(room, big.NewInt(1))
	case "half":
		value = new(big.Int).Rsh(room, 1)
	case "third":
		value = new(big.Int).Div(room, big.NewInt(3))
	default:
		value = new(big.Int).Lsh(big.NewInt(1), 200)
	}
	if value.Sign() < 0 {
		value = new(big.Int)
	}

	to := common.Address{0xee}
	var inner types.TxData
	switch kind {
	case "legacy":
		inner = &types.LegacyTx{Nonce: nonce, GasPrice: feeCap, Gas: gas, To: &to, Value: value, Data: data}
	case "accesslist":
		inner = &types.AccessListTx{ChainID: c41Signer.ChainID(), Nonce: nonce, GasPrice: feeCap, Gas: gas, To: &to, Value: value, Data: data}
	case "dynamic":
		inner = &types.DynamicFeeTx{ChainID: c41Signer.ChainID(), Nonce: nonce, GasTipCap: tip, GasFeeCap: feeCap, Gas: gas, To: &to, Value: value, Data: data}
	case "setcode":
		nAuth := rapid.IntRange(1, 2).Draw(rt, "nAuth")
		var auths []types.SetCodeAuthorization
		for j := 0; j < nAuth; j++ {
			xi := rapid.IntRange(0, c41NAcct-1).Draw(rt, "authority")
			target := common.Address{0x42}
			if rapid.IntRange(0, 3).Draw(rt, "authClear") == 0 {
				target = common.Address{}
			}
			a, err := types.SignSetCode(c41Accts[xi].key, types.SetCodeAuthorization{
				ChainID: *uint256.MustFromBig(c41Signer.ChainID()),
				Address: target,
				Nonce:   m.headState(xi).nonce + uint64(rapid.IntRange(0, 1).Draw(rt, "authNonceOff")),
			})
			if err != nil {
				rt.Fatalf("VERIF-HARNESS-BUG: SignSetCode: %v", err)
			}
			auths = append(auths, a)
		}
		inner = &types.SetCodeTx{ChainID: uint256.MustFromBig(c41Signer.ChainID()), Nonce: nonce,
			GasTipCap: uint256.MustFromBig(tip), GasFeeCap: uint256.MustFromBig(feeCap), Gas: gas, To: to,
			Value: uint256.MustFromBig(value), Data: data, AuthList: auths}
	}
	tx, err := types.SignNewTx(acct.key, c41Signer, inner)
	if err != nil {
		rt.Fatalf("VERIF-HARNESS-BUG: sign: %v", err)
	}
	m.log[ai][nonce] = append(m.log[ai][nonce], tx)
	return tx, ai
}

func c41TxString(tx *types.Transaction) string {
	from, _ := types.Sender(c41Signer, tx)
	return fmt.Sprintf("{a%d n%d t%d cap%v tip%v gas%d val%v size%d %x}", c41AcctIndex(from), tx.Nonce(), tx.Type(),
		tx.GasFeeCap(), tx.GasTipCap(), tx.Gas(), tx.Value(), tx.Size(), tx.Hash().Bytes()[:4])
}

// poolAt returns the tx currently pooled for (addr, nonce), pending first.
func (m *c41Machine) poolAt(addr common.Address, nonce uint64) (tx *types.Transaction, inPending bool) {
	m.pool.mu.RLock()
	defer m.pool.mu.RUnlock()
	if l := m.pool.pending[addr]; l != nil {
		if t := l.txs.Get(nonce); t != nil {
			return t, true
		}
	}
	if l, ok := m.pool.queue.get(addr); ok {
		if t := l.txs.Get(nonce); t != nil {
			return t, false
		}
	}
	return nil, false
}

func (m *c41Machine) poolHashes() map[common.Hash]*types.Transaction {
	out := map[common.Hash]*types.Transaction{}
	m.pool.all.Range(func(h common.Hash, tx *types.Transaction) bool { out[h] = tx; return true })
	return out
}

func c41ErrClass(err error) string {
	switch {
	case err == nil:
		return "ok"
	case errors.Is(err, txpool.ErrReplaceUnderpriced):
		return "replace-underpriced"
	case errors.Is(err, txpool.ErrAlreadyKnown):
		return "already-known"
	case errors.Is(err, txpool.ErrUnderpriced):
		return "underpriced"
	case errors.Is(err, ErrTxPoolOverflow):
		return "overflow"
	case errors.Is(err, ErrFutureReplacePending):
		return "future-replace-pending"
	case errors.Is(err, txpool.ErrInflightTxLimitReached):
		return "inflight-limit"
	case errors.Is(err, ErrOutOfOrderTxFromDelegated):
		return "delegated-gap"
	case errors.Is(err, ErrAuthorityReserved):
		return "authority-reserved"
	case errors.Is(err, txpool.ErrOversizedData):
		return "oversized"
	case errors.Is(err, txpool.ErrGasLimit):
		return "gas-limit"
	case errors.Is(err, txpool.ErrTxGasPriceTooLow):
		return "tip-too-low"
	case strings.Contains(err.Error(), "insufficient funds"):
		return "insufficient-funds"
	case strings.Contains(err.Error(), "nonce too low"):
		return "nonce-too-low"
	case strings.Contains(err.Error(), "intrinsic gas") || strings.Contains(err.Error(), "floor data gas"):
		return "intrinsic-gas"
	case strings.Contains(err.Error(), "tip higher than"):
		return "tip-above-cap"
	default:
		return "other:" + err.Error()
	}
}

// noteEvictions compares the pool content before/after a submission barrier and
// counts transactions that left the pool although no transaction with the same
// (sender, nonce) was submitted: an eviction by limits / pricing.
func (m *c41Machine) noteEvictions(before map[common.Hash]*types.Transaction, submitted []*types.Transaction) {
	after := m.poolHashes()
	sub := map[string]bool{}
	for _, tx := range submitted {
		from, _ := types.Sender(c41Signer, tx)
		sub[fmt.Sprintf("%x/%d", from, tx.Nonce())] = true
	}
	for h, tx := range before {
		if _, ok := after[h]; ok {
			continue
		}
		from, _ := types.Sender(c41Signer, tx)
		if !sub[fmt.Sprintf("%x/%d", from, tx.Nonce())] {
			m.evictions++
		}
	}
}

func (m *c41Machine) actAddOne(c *vs.Case) {
	rt := m.rt
	tx, _ := m.genTx()
	from, _ := types.Sender(c41Signer, tx)
	pre, preWasPending := m.poolAt(from, tx.Nonce())
	full := uint64(m.pool.all.Slots()+numSlots(tx)) > m.cfg.GlobalSlots+m.cfg.GlobalQueue
	before := m.poolHashes()
	err := m.pool.Add([]*types.Transaction{tx}, true)[0]
	cls := c41ErrClass(err)
	m.tracef("add %s pre=%v full=%v -> %s", c41TxString(tx), pre != nil, full, cls)
	c.Class("add:" + cls)
	m.fullReset = false
	m.noteEvictions(before, []*types.Transaction{tx})

	if pre != nil && pre.Hash() != tx.Hash() {
		bumpOK := c41BumpOK(pre, tx, m.cfg.PriceBump)
		// boundary bookkeeping: a component sits exactly on (or one below) the threshold
		thrF := c41Threshold(pre.GasFeeCap(), m.cfg.PriceBump)
		thrT := c41Threshold(pre.GasTipCap(), m.cfg.PriceBump)
		atBoundary := func(v, thr *big.Int) bool {
			d := new(big.Int).Sub(v, thr)
			return d.Sign() == 0 || (d.Sign() < 0 && d.Cmp(big.NewInt(-1)) == 0)
		}
		if (err == nil || errors.Is(err, txpool.ErrReplaceUnderpriced)) && (atBoundary(tx.GasFeeCap(), thrF) || atBoundary(tx.GasTipCap(), thrT)) {
			m.boundaryRepl++
			c.Class("replace:boundary")
		}
		if !full {
			switch {
			case err == nil:
				c.Class("replace:accepted")
				if !bumpOK {
					rt.Fatalf("replacement accepted without the configured price bump (%d%%): old %s new %s (old was pending=%v)\ntrace:\n%s",
						m.cfg.PriceBump, c41TxString(pre), c41TxString(tx), preWasPending, m.traceString())
				}
				if m.pool.all.Get(pre.Hash()) != nil {
					rt.Fatalf("replaced transaction still indexed: old %s new %s\ntrace:\n%s", c41TxString(pre), c41TxString(tx), m.traceString())
				}
			case errors.Is(err, txpool.ErrReplaceUnderpriced):
				c.Class("replace:rejected")
				if bumpOK {
					rt.Fatalf("replacement meeting the price bump (%d%%) rejected as underpriced: old %s new %s\ntrace:\n%s",
						m.cfg.PriceBump, c41TxString(pre), c41TxString(tx), m.traceString())
				}
				if cur, _ := m.poolAt(from, tx.Nonce()); cur == nil || cur.Hash() != pre.Hash() {
					rt.Fatalf("rejected replacement displaced the old transaction: old %s new %s\ntrace:\n%s", c41TxString(pre), c41TxString(tx), m.traceString())
				}
			}
		} else if err == nil {
			c.Class("replace:while-full")
		}
	} else if pre == nil && errors.Is(err, txpool.ErrReplaceUnderpriced) {
		rt.Fatalf("ErrReplaceUnderpriced without an existing transaction at (a%d,%d): %s\ntrace:\n%s", c41AcctIndex(from), tx.Nonce(), c41TxString(tx), m.traceString())
	}
}

func (m *c41Machine) actAddBatch(c *vs.Case, sync bool) {
	n := rapid.IntRange(2, 5).Draw(m.rt, "batch")
	var txs []*types.Transaction
	for i := 0; i < n; i++ {
		tx, _ := m.genTx()
		txs = append(txs, tx)
	}
	before := m.poolHashes()
	errs := m.pool.Add(txs, sync)
	if !sync {
		<-m.pool.requestReset(nil, nil)
	}
	var sb []string
	for i, e := range errs {
		cls := c41ErrClass(e)
		c.Class("add:" + cls)
		sb = append(sb, c41TxString(txs[i])+"->"+cls)
	}
	m.tracef("batch sync=%v %s", sync, strings.Join(sb, " "))
	m.fullReset = false
	m.noteEvictions(before, txs)
}

func (m *c41Machine) actSetGasTip(c *vs.Case) {
	tip := rapid.SampledFrom([]uint64{1, 1, 1, 2, 3, 10, 11, 50}).Draw(m.rt, "gasTip")
	m.pool.SetGasTip(new(big.Int).SetUint64(tip))
	m.tracef("setGasTip %d", tip)
	c.Class("setGasTip")
	// structural invariants must hold right away, limits after the next cycle
	m.checkInvariants(false)
	<-m.pool.requestReset(nil, nil)
	m.fullReset = false
}

func (m *c41Machine) actIdle(c *vs.Case) {
	<-m.pool.requestReset(nil, nil)
	<-m.pool.requestReset(nil, nil)
	m.tracef("idle x2")
	c.Class("idle")
	m.fullReset = true
}

func (m *c41Machine) actValidate(c *vs.Case) {
	m.checkInvariants(true)
	if err := validatePoolInternals(m.pool); err != nil {
		m.rt.Fatalf("validatePoolInternals: %v\ntrace:\n%s", err, m.traceString())
	}
	m.tracef("validatePoolInternals")
	c.Class("validateInternals")
}

// mutateState draws the post-block account states given per-account inclusion counts.
func (m *c41Machine) mutateState(base [c41NAcct]c41AcctState, included [c41NAcct]int, label string) [c41NAcct]c41AcctState {
	rt := m.rt
	st := base
	for i := range st {
		st[i].balance = base[i].balance.Clone()
		st[i].nonce += uint64(included[i])
		if included[i] == 0 && rapid.IntRange(0, 14).Draw(rt, label+"ExtraNonce") == 0 {
			st[i].nonce++ // an authorization applied / a tx unknown to the pool
		}
		balKind := rapid.SampledFrom([]string{"keep", "keep", "keep", "keep", "keep", "keep", "keep", "keep", "big", "big", "big", "zero", "cost", "cost", "twocost"}).Draw(rt, label+"Balance")
		switch balKind {
		case "big":
			st[i].balance = c41BigBalance.Clone()
		case "zero":
			st[i].balance = new(uint256.Int)
		case "cost", "twocost":
			// balance at the cost of some generated transaction of this account
			var nonces []uint64
			for n := range m.log[i] {
				nonces = append(nonces, n)
			}
			if len(nonces) == 0 {
				break
			}
			sort.Slice(nonces, func(a, b int) bool { return nonces[a] < nonces[b] })
			n := nonces[rapid.IntRange(0, len(nonces)-1).Draw(rt, label+"CostNonce")]
			l := m.log[i][n]
			tx := l[rapid.IntRange(0, len(l)-1).Draw(rt, label+"CostTx")]
			cost, overflow := uint256.FromBig(tx.Cost())
			if overflow {
				break
			}
			if balKind == "twocost" {
				if _, o := cost.AddOverflow(cost, cost); o {
					break
				}
			}
			st[i].balance = cost
		}
		if rapid.IntRange(0, 9).Draw(rt, label+"Deleg") == 0 {
			st[i].delegated = !st[i].delegated
		}
	}
	return st
}

func (m *c41Machine) drawHeaderParams(parent *types.Header, label string) (gasLimit, gasUsed uint64, baseFee *big.Int) {
	rt := m.rt
	gasLimit = parent.GasLimit
	if rapid.IntRange(0, 5).Draw(rt, label+"GasLimitChange") == 0 {
		gasLimit = rapid.SampledFrom([]uint64{100000, 1000000, 3000000}).Draw(rt, label+"GasLimit")
	}
	gasUsed = rapid.SampledFrom([]uint64{0, gasLimit / 2, gasLimit}).Draw(rt, label+"GasUsed")
	baseFee = new(big.Int).SetUint64(rapid.SampledFrom([]uint64{0, 1, 7, 10, 50, 100, 1000}).Draw(rt, label+"BaseFee"))
	return
}

func (m *c41Machine) pendingOf(i int) []*types.Transaction {
	m.pool.mu.RLock()
	defer m.pool.mu.RUnlock()
	if l := m.pool.pending[c41Accts[i].addr]; l != nil {
		return l.Flatten()
	}
	return nil
}

func (m *c41Machine) actNewHead(c *vs.Case) {
	rt := m.rt
	parent := m.chain.head
	var txs []*types.Transaction
	var included [c41NAcct]int
	for i := 0; i < c41NAcct; i++ {
		k := rapid.SampledFrom([]int{0, 0, 0, 1, 1, 2, 3}).Draw(rt, "include")
		if k == 0 {
			continue
		}
		if rapid.IntRange(0, 4).Draw(rt, "foreign") == 0 {
			// a variant the pool may not hold: any generated tx at the state nonce
			if l := m.log[i][parent.st[i].nonce]; len(l) > 0 {
				txs = append(txs, l[rapid.IntRange(0, len(l)-1).Draw(rt, "foreignTx")])
				included[i] = 1
			}
			continue
		}
		pend := m.pendingOf(i)
		for j := 0; j < k && j < len(pend); j++ {
			if pend[j].Nonce() != parent.st[i].nonce+uint64(j) {
				break // invariant check reports this; keep the chain model sane
			}
			txs = append(txs, pend[j])
			included[i]++
		}
	}
	st := m.mutateState(parent.st, included, "head")
	gl, gu, bf := m.drawHeaderParams(parent.header, "head")
	nb := m.chain.newBlock(parent, txs, gl, gu, bf, st)
	m.chain.mu.Lock()
	m.chain.head = nb
	m.chain.mu.Unlock()
	m.pool.Reset(parent.header, nb.header)
	m.tracef("newHead #%d incl=%v gasLimit=%d baseFee=%v state=%s", nb.header.Number, included, gl, bf, c41StateString(st))
	c.Class("newHead")
	m.fullReset = false
}

func c41StateString(st [c41NAcct]c41AcctState) string {
	var sb []string
	for i, s := range st {
		sb = append(sb, fmt.Sprintf("a%d{n%d b%v d%v}", i, s.nonce, s.balance, s.delegated))
	}
	return strings.Join(sb, " ")
}

func (m *c41Machine) actReorg(c *vs.Case) {
	rt := m.rt
	old := m.chain.head
	if old.parent == nil {
		m.actNewHead(c)
		return
	}
	depth := 1
	if old.parent.parent != nil && rapid.Bool().Draw(rt, "deep") {
		depth = 2
	}
	fork := old
	var discarded []*types.Transaction
	for d := 0; d < depth; d++ {
		discarded = append(discarded, fork.block.Transactions()...)
		fork = fork.parent
	}
	// per account: discarded txs in nonce order; the sibling re-includes a prefix
	var per [c41NAcct][]*types.Transaction
	for _, tx := range discarded {
		from, _ := types.Sender(c41Signer, tx)
		if i := c41AcctIndex(from); i >= 0 {
			per[i] = append(per[i], tx)
		}
	}
	var txs []*types.Transaction
	var included [c41NAcct]int
	for i := range per {
		sort.Slice(per[i], func(a, b int) bool { return per[i][a].Nonce() < per[i][b].Nonce() })
		k := rapid.IntRange(0, len(per[i])).Draw(rt, "reinclude")
		if rapid.IntRange(0, 2).Draw(rt, "reincludeNone") == 0 {
			k = 0
		}
		for j := 0; j < k; j++ {
			if per[i][j].Nonce() != fork.st[i].nonce+uint64(j) {
				break
			}
			txs = append(txs, per[i][j])
			included[i]++
		}
	}
	st := m.mutateState(fork.st, included, "reorg")
	gl, gu, bf := m.drawHeaderParams(fork.header, "reorg")
	nb := m.chain.newBlock(fork, txs, gl, gu, bf, st)
	length := 1
	if rapid.Bool().Draw(rt, "longer") {
		// second, empty block on the new branch
		gl2, gu2, bf2 := m.drawHeaderParams(nb.header, "reorg2")
		nb = m.chain.newBlock(nb, nil, gl2, gu2, bf2, m.mutateState(st, [c41NAcct]int{}, "reorg2"))
		length = 2
	}
	m.chain.mu.Lock()
	m.chain.head = nb
	m.chain.mu.Unlock()
	m.pool.Reset(old.header, nb.header)
	res := 0
	for _, tx := range discarded {
		if m.pool.all.Get(tx.Hash()) != nil {
			res++
		}
	}
	m.resurrected += res
	if c41KnownGap() && m.reorgGapTrigger(old) {
		m.st.Excluded()
		c.Class("excluded:reorg-reinject-gap")
		m.stop = true
	}
	m.tracef("reorg depth=%d len=%d discarded=%d reincluded=%v resurrected=%d -> #%d state=%s", depth, length, len(discarded), included, res, nb.header.Number, c41StateString(nb.st))
	c.Class("reorg")
	if res > 0 {
		c.Class("reorg:resurrected")
	}
	m.fullReset = false
}

func (m *c41Machine) traceString() string { return strings.Join(m.trace, "\n") }

func c41HeapValid(h *priceHeap) bool {
	for i := 1; i < len(h.list); i++ {
		if h.Less(i, (i-1)/2) {
			return false
		}
	}
	return true
}

// checkInvariants evaluates the statement's invariants. limits=false skips the
// size limits (used between SetGasTip and the following maintenance cycle).
func (m *c41Machine) checkInvariants(limits bool) {
	rt, pool := m.rt, m.pool
	fail := func(format string, a ...any) {
		rt.Helper()
		rt.Fatalf("%s\nconfig: %+v\ntrace:\n%s", fmt.Sprintf(format, a...), m.cfgString(), m.traceString())
	}
	pool.mu.Lock()
	defer pool.mu.Unlock()

	head := pool.currentHead.Load()
	if head.Hash() != m.chain.head.header.Hash() {
		fail("VERIF-HARNESS-BUG: pool head %x != chain head %x", head.Hash(), m.chain.head.header.Hash())
	}
	inPending := map[common.Hash]bool{}
	inQueue := map[common.Hash]bool{}
	totalPending, totalQueued, slots := 0, 0, 0
	allBelowAccountSlots := true

	for i, a := range c41Accts {
		st := m.headState(i)
		if got := pool.currentState.GetNonce(a.addr); got != st.nonce {
			fail("VERIF-HARNESS-BUG: pool state nonce of a%d is %d, model %d", i, got, st.nonce)
		}
		bal := pool.currentState.GetBalance(a.addr)
		if !bal.Eq(st.balance) {
			fail("VERIF-HARNESS-BUG: pool state balance of a%d is %v, model %v", i, bal, st.balance)
		}
		if l := pool.pending[a.addr]; l != nil {
			txs := l.Flatten()
			if len(txs) == 0 {
				fail("a%d: empty pending list kept in the pending map", i)
			}
			if len(txs) != len(l.txs.items) || l.txs.index.Len() != len(l.txs.items) {
				fail("a%d: pending list index/items/cache sizes disagree: flatten %d items %d index %d", i, len(txs), len(l.txs.items), l.txs.index.Len())
			}
			sum := new(uint256.Int)
			for j, tx := range txs {
				if from, _ := types.Sender(pool.signer, tx); from != a.addr {
					fail("a%d: pending list holds tx of %x", i, from)
				}
				if tx.Nonce() != st.nonce+uint64(j) {
					fail("a%d: pending nonces not gapless from state nonce %d: position %d has nonce %d (pending: %s)", i, st.nonce, j, tx.Nonce(), c41TxsString(txs))
				}
				if tx.Cost().Cmp(bal.ToBig()) > 0 {
					fail("a%d: pending tx %s costs %v > balance %v", i, c41TxString(tx), tx.Cost(), bal)
				}
				if tx.Gas() > head.GasLimit {
					fail("a%d: pending tx %s gas above the block gas limit %d", i, c41TxString(tx), head.GasLimit)
				}
				if inPending[tx.Hash()] {
					fail("tx %s listed twice in pending", c41TxString(tx))
				}
				inPending[tx.Hash()] = true
				slots += numSlots(tx)
				cst, _ := uint256.FromBig(tx.Cost())
				sum.Add(sum, cst)
			}
			if !sum.Eq(l.totalcost) {
				fail("a%d: pending totalcost %v != sum of costs %v (%s)", i, l.totalcost, sum, c41TxsString(txs))
			}
			totalPending += len(txs)
			if uint64(len(txs)) > m.cfg.AccountSlots {
				allBelowAccountSlots = false
			}
			if got := pool.pendingNonces.get(a.addr); got != txs[len(txs)-1].Nonce()+1 {
				fail("a%d: virtual nonce %d != last pending nonce+1 (%d)", i, got, txs[len(txs)-1].Nonce()+1)
			}
		} else if got := pool.pendingNonces.get(a.addr); got != st.nonce {
			fail("a%d: no pending txs but virtual nonce %d != state nonce %d", i, got, st.nonce)
		}
		if l, ok := pool.queue.get(a.addr); ok {
			txs := l.Flatten()
			if len(txs) == 0 {
				fail("a%d: empty queue list kept", i)
			}
			if len(txs) != len(l.txs.items) || l.txs.index.Len() != len(l.txs.items) {
				fail("a%d: queue list index/items/cache sizes disagree: flatten %d items %d index %d", i, len(txs), len(l.txs.items), l.txs.index.Len())
			}
			sum := new(uint256.Int)
			for _, tx := range txs {
				if from, _ := types.Sender(pool.signer, tx); from != a.addr {
					fail("a%d: queue list holds tx of %x", i, from)
				}
				if inPending[tx.Hash()] {
					fail("tx %s is both pending and queued", c41TxString(tx))
				}
				if inQueue[tx.Hash()] {
					fail("tx %s listed twice in queue", c41TxString(tx))
				}
				inQueue[tx.Hash()] = true
				slots += numSlots(tx)
				cst, _ := uint256.FromBig(tx.Cost())
				sum.Add(sum, cst)
			}
			if !sum.Eq(l.totalcost) {
				fail("a%d: queue totalcost %v != sum of costs %v", i, l.totalcost, sum)
			}
			totalQueued += len(txs)
			if limits && m.fullReset && uint64(len(txs)) > m.cfg.AccountQueue {
				fail("a%d: %d queued txs > AccountQueue %d after two idle maintenance cycles", i, len(txs), m.cfg.AccountQueue)
			}
		}
	}
	for addr := range pool.pending {
		if c41AcctIndex(addr) < 0 {
			fail("pending holds unknown account %x", addr)
		}
	}
	for addr := range pool.queue.queued {
		if c41AcctIndex(addr) < 0 {
			fail("queue holds unknown account %x", addr)
		}
	}
	// index == pending ∪ queued
	if pool.all.Count() != totalPending+totalQueued {
		fail("index holds %d txs, pending %d + queued %d", pool.all.Count(), totalPending, totalQueued)
	}
	for h, tx := range pool.all.txs {
		if !inPending[h] && !inQueue[h] {
			fail("indexed tx %s is neither pending nor queued", c41TxString(tx))
		}
		if tx.Hash() != h {
			fail("index key %x maps to tx %x", h, tx.Hash())
		}
	}
	if pool.all.Slots() != slots {
		fail("index slot counter %d != slots of contents %d", pool.all.Slots(), slots)
	}
	// price heaps: every indexed tx is tracked; surplus entries == stale counter; heap order valid
	seen := map[common.Hash]bool{}
	entries := 0
	for _, h := range []*priceHeap{&pool.priced.urgent, &pool.priced.floating} {
		for _, tx := range h.list {
			seen[tx.Hash()] = true
			entries++
		}
		if !c41HeapValid(h) {
			fail("price heap order violated (baseFee %v, %d entries)", h.baseFee, len(h.list))
		}
	}
	for h, tx := range pool.all.txs {
		if !seen[h] {
			fail("indexed tx %s missing from the price heaps", c41TxString(tx))
		}
	}
	if stales := pool.priced.stales.Load(); int64(entries-pool.all.Count()) != stales {
		fail("price heaps hold %d entries for %d indexed txs but stale counter is %d", entries, pool.all.Count(), stales)
	}
	if limits {
		if uint64(totalPending) > m.cfg.GlobalSlots && !allBelowAccountSlots {
			fail("pending %d > GlobalSlots %d while some account exceeds AccountSlots %d", totalPending, m.cfg.GlobalSlots, m.cfg.AccountSlots)
		}
		if uint64(totalQueued) > m.cfg.GlobalQueue {
			fail("queued %d > GlobalQueue %d", totalQueued, m.cfg.GlobalQueue)
		}
	}
	// public views agree with the internals (lock-free internal variants)
	if p, q := pool.stats(); p != totalPending || q != totalQueued {
		fail("stats() = %d/%d, contents %d/%d", p, q, totalPending, totalQueued)
	}
}

// checkViews compares the exported accessors with the white-box contents.
func (m *c41Machine) checkViews() {
	rt, pool := m.rt, m.pool
	pend, queued := pool.Content()
	np, nq := pool.Stats()
	cp, cq := 0, 0
	for addr, txs := range pend {
		cp += len(txs)
		for _, tx := range txs {
			if pool.Status(tx.Hash()) != txpool.TxStatusPending || !pool.Has(tx.Hash()) || pool.Get(tx.Hash()) == nil {
				rt.Fatalf("pending tx %s: Status/Has/Get disagree\ntrace:\n%s", c41TxString(tx), m.traceString())
			}
		}
		fp, _ := pool.ContentFrom(addr)
		if len(fp) != len(txs) {
			rt.Fatalf("ContentFrom(%x) pending %d != Content %d", addr, len(fp), len(txs))
		}
	}
	for _, txs := range queued {
		cq += len(txs)
		for _, tx := range txs {
			if pool.Status(tx.Hash()) != txpool.TxStatusQueued || !pool.Has(tx.Hash()) {
				rt.Fatalf("queued tx %s: Status/Has disagree\ntrace:\n%s", c41TxString(tx), m.traceString())
			}
		}
	}
	if np != cp || nq != cq {
		rt.Fatalf("Stats %d/%d != Content %d/%d\ntrace:\n%s", np, nq, cp, cq, m.traceString())
	}
	lazy, count := pool.Pending(txpool.PendingFilter{})
	if count != cp {
		rt.Fatalf("Pending count %d != Content pending %d\ntrace:\n%s", count, cp, m.traceString())
	}
	for addr, ls := range lazy {
		if len(ls) != len(pend[addr]) {
			rt.Fatalf("Pending(%x) has %d, Content %d", addr, len(ls), len(pend[addr]))
		}
		for j, l := range ls {
			if l.Hash != pend[addr][j].Hash() {
				rt.Fatalf("Pending(%x)[%d] differs from Content", addr, j)
			}
		}
	}
}

func c41TxsString(txs []*types.Transaction) string {
	var sb []string
	for _, tx := range txs {
		sb = append(sb, c41TxString(tx))
	}
	return strings.Join(sb, " ")
}

func (m *c41Machine) cfgString() string {
	return fmt.Sprintf("AccountSlots=%d GlobalSlots=%d AccountQueue=%d GlobalQueue=%d PriceBump=%d",
		m.cfg.AccountSlots, m.cfg.GlobalSlots, m.cfg.AccountQueue, m.cfg.GlobalQueue, m.cfg.PriceBump)
}

func c41Run(rt *rapid.T, st *vs.S) {
	c := st.Case()
	cfg := Config{
		PriceLimit:   1,
		PriceBump:    rapid.SampledFrom([]uint64{10, 10, 10, 25, 1}).Draw(rt, "priceBump"),
		AccountSlots: rapid.SampledFrom([]uint64{2, 2, 1, 3}).Draw(rt, "accountSlots"),
		GlobalSlots:  rapid.SampledFrom([]uint64{6, 6, 4, 8}).Draw(rt, "globalSlots"),
		AccountQueue: rapid.SampledFrom([]uint64{3, 3, 2}).Draw(rt, "accountQueue"),
		GlobalQueue:  rapid.SampledFrom([]uint64{5, 5, 3}).Draw(rt, "globalQueue"),
		Lifetime:     24 * time.Hour,
	}
	chain := &c41Chain{config: params.MergedTestChainConfig, blocks: map[common.Hash]*c41Block{}}
	var gst [c41NAcct]c41AcctState
	for i := range gst {
		gst[i] = c41AcctState{nonce: uint64(rapid.SampledFrom([]int{0, 0, 1, 7}).Draw(rt, "genesisNonce")), balance: c41BigBalance.Clone()}
	}
	gst[1].delegated = rapid.Bool().Draw(rt, "genesisDelegated") // one account may start with a delegation
	chain.genesis = chain.newBlock(nil, nil, 3000000, 1500000, big.NewInt(10), gst)
	chain.head = chain.genesis

	pool := New(cfg, chain)
	res := &c41Reserver{accounts: map[common.Address]struct{}{}}
	if err := pool.Init(1, chain.head.header, res); err != nil {
		rt.Fatalf("VERIF-HARNESS-BUG: Init: %v", err)
	}
	<-pool.initDoneCh
	defer pool.Close()

	m := &c41Machine{rt: rt, cfg: cfg, chain: chain, pool: pool, res: res, st: st}
	for i := range m.log {
		m.log[i] = map[uint64][]*types.Transaction{}
	}
	m.tracef("config %s genesis %s", m.cfgString(), c41StateString(gst))

	steps := rapid.IntRange(5, 40).Draw(rt, "steps")
	for s := 0; s < steps; s++ {
		switch rapid.SampledFrom([]string{"add", "add", "add", "add", "add", "add", "add", "add", "batch", "batch", "batch", "batchAsync",
			"setGasTip", "newHead", "newHead", "reorg", "reorg", "idle", "validate"}).Draw(rt, "action") {
		case "add":
			m.actAddOne(c)
		case "batch":
			m.actAddBatch(c, true)
		case "batchAsync":
			m.actAddBatch(c, false)
		case "setGasTip":
			m.actSetGasTip(c)
		case "newHead":
			m.actNewHead(c)
		case "reorg":
			m.actReorg(c)
		case "idle":
			m.actIdle(c)
		case "validate":
			m.actValidate(c)
		}
		if m.stop {
			break
		}
		m.checkInvariants(true)
		m.checkViews()
	}
	if !m.stop {
		m.checkInvariants(true)
		if err := validatePoolInternals(pool); err != nil {
			rt.Fatalf("validatePoolInternals: %v\ntrace:\n%s", err, m.traceString())
		}
	}
	res.mu.Lock()
	if len(res.breaches) > 0 {
		c.Class("reserver-breach")
		st.Note("reserver protocol breach observed (not asserted): %v", res.breaches[0])
	}
	res.mu.Unlock()

	nt := m.evictions > 0 || m.boundaryRepl > 0 || m.resurrected > 0
	if m.evictions > 0 {
		c.Class("history:eviction")
	}
	if m.boundaryRepl > 0 {
		c.Class("history:boundary-replacement")
	}
	if m.resurrected > 0 {
		c.Class("history:resurrection")
	}
	c.NonTrivial(nt, m.traceString())
	c.Sample(nt, func() any {
		tr := m.trace
		if len(tr) > 12 {
			tr = tr[:12]
		}
		return map[string]any{"config": m.cfgString(), "steps": steps, "evictions": m.evictions,
			"boundary_replacements": m.boundaryRepl, "resurrected": m.resurrected, "trace_head": tr}
	})
}

// TestVerifC41Machine runs random histories against a real LegacyPool.
func TestVerifC41Machine(t *testing.T) {
	st := vs.New("C41", t)
	vs.Check(t, 1, func(rt *rapid.T) { c41Run(rt, st) })
}
